/-
Lemmas about the float / mixed search engine of `Model/FloatEngine.lean`.

Part A (every instance of `Num`, i.e. also the bit-exact `Float` instance): a successful propagator
writes only its trigger variables and reports every written variable as an event (`StepR`), its
outcome depends only on the trigger variables (`OAgree`); hence `fpropagate` ends in a store at which
every propagator succeeds without raising an event (`fpropagate_fixpoint`), for every pop policy.

Part B (exact arithmetic, `Num Rat`): invariants of the search (`GoodStore`, `Within`, `OnGrid`),
witness preservation (`Keeps`), the branching rule.
-/
import SelenModel.Model.FloatEngine
import SelenModel.Lemmas.FloatFrame
import SelenModel.Lemmas.Engine
import SelenModel.Lemmas.FloatLin

namespace Selen
open Num

section Generic
variable {α : Type} [Num α]
set_option linter.unusedSectionVars false

/-! ### the tabulated store is the store -/

theorem FStore.ofArray_tab (n : Nat) (st : FStore α) : FStore.ofArray (FStore.tab n st) st = st := by
  funext i
  unfold FStore.ofArray
  by_cases h : i < (FStore.tab n st).size
  · rw [dif_pos h]; simp [FStore.tab]
  · rw [dif_neg h]

/-! ### writes: only trigger variables, every write is an event -/

/-- `c'` arises from `c` by writing variables of `vs` only, and the new events list every written
variable -/
def StepR (vs : List Nat) (c c' : FCtx α) : Prop :=
  ∃ evs, c'.ev = c.ev ++ evs ∧ (∀ e ∈ evs, e ∈ vs) ∧ (∀ j, j ∉ evs → c'.st j = c.st j)

theorem StepR.refl (vs : List Nat) (c : FCtx α) : StepR vs c c :=
  ⟨[], by simp, by simp, fun _ _ => rfl⟩

theorem StepR.trans {vs : List Nat} {a b c : FCtx α} (h1 : StepR vs a b) (h2 : StepR vs b c) : StepR vs a c := by
  obtain ⟨e1, he1, hs1, hf1⟩ := h1
  obtain ⟨e2, he2, hs2, hf2⟩ := h2
  refine ⟨e1 ++ e2, by rw [he2, he1, List.append_assoc], ?_, ?_⟩
  · intro e he
    rcases List.mem_append.1 he with h | h
    · exact hs1 e h
    · exact hs2 e h
  · intro j hj
    have h1 : j ∉ e1 := fun h => hj (List.mem_append.2 (Or.inl h))
    have h2 : j ∉ e2 := fun h => hj (List.mem_append.2 (Or.inr h))
    rw [hf2 j h2, hf1 j h1]

theorem StepR.mono {vs ws : List Nat} {c c' : FCtx α} (h : StepR vs c c') (hs : ∀ v ∈ vs, v ∈ ws) : StepR ws c c' := by
  obtain ⟨e, he, hm, hf⟩ := h
  exact ⟨e, he, fun x hx => hs x (hm x hx), hf⟩

theorem StepR.of_eq {vs : List Nat} {c c' : FCtx α} (h : c' = c) : StepR vs c c' := by
  subst h; exact StepR.refl _ _

theorem Upd.stepR {c c' : FCtx α} {i : Nat} {vs : List Nat} (h : Upd c c' i) (hi : i ∈ vs) : StepR vs c c' := by
  rcases h with rfl | ⟨he, v', hs, _⟩
  · exact StepR.refl _ _
  · refine ⟨[i], he, by simpa using hi, ?_⟩
    intro j hj
    have : j ≠ i := by simpa using hj
    rw [hs]; simp [updF, this]

/-- no new event: nothing was written -/
theorem StepR.eq_of_ev {vs : List Nat} {c c' : FCtx α} (h : StepR vs c c') (he : c'.ev = c.ev) : c'.st = c.st := by
  obtain ⟨e, he', _, hf⟩ := h
  have : e = [] := by
    rw [he] at he'
    simpa using he'
  subst this
  funext j
  exact hf j (by simp)

theorem FView.underlying_mem_toList {v : FView α} {i : Nat} (h : v.underlying = some i) : i ∈ v.underlying.toList := by
  rw [h]; simp

theorem FView.trySet_stepR (v : FView α) :
    (∀ (m : FVal α) (c c' : FCtx α) (r : FVal α), v.trySetMin m c = some (c', r) → StepR v.underlying.toList c c') ∧
    (∀ (m : FVal α) (c c' : FCtx α) (r : FVal α), v.trySetMax m c = some (c', r) → StepR v.underlying.toList c c') := by
  induction v with
  | const k =>
    constructor
    · intro m c c' r h; simp only [FView.trySetMin] at h; split at h <;> simp at h; exact StepR.of_eq h.1.symm
    · intro m c c' r h; simp only [FView.trySetMax] at h; split at h <;> simp at h; exact StepR.of_eq h.1.symm
  | var i =>
    constructor
    · intro m c c' r h; exact (FCtx.trySetMin_upd c c' i m r h).stepR (by simp [FView.underlying])
    · intro m c c' r h; exact (FCtx.trySetMax_upd c c' i m r h).stepR (by simp [FView.underlying])
  | opp v ih =>
    constructor
    · intro m c c' r h; simp only [FView.trySetMin] at h; exact ih.2 _ c c' r h
    · intro m c c' r h; simp only [FView.trySetMax] at h; exact ih.1 _ c c' r h
  | plus v k ih =>
    constructor
    · intro m c c' r h; simp only [FView.trySetMin] at h; exact ih.1 _ c c' r h
    · intro m c c' r h; simp only [FView.trySetMax] at h; exact ih.2 _ c c' r h
  | tpos v k ih =>
    constructor
    · intro m c c' r h; simp only [FView.trySetMin] at h; exact ih.1 _ c c' r h
    · intro m c c' r h; simp only [FView.trySetMax] at h; exact ih.2 _ c c' r h
  | next v ih =>
    constructor
    · intro m c c' r h; simp only [FView.trySetMin] at h; exact ih.1 _ c c' r h
    · intro m c c' r h; simp only [FView.trySetMax] at h; exact ih.2 _ c c' r h
  | prev v ih =>
    constructor
    · intro m c c' r h; simp only [FView.trySetMin] at h; exact ih.1 _ c c' r h
    · intro m c c' r h; simp only [FView.trySetMax] at h; exact ih.2 _ c c' r h

namespace FPK

theorem setMin_stepR {vs : List Nat} (x : Nat) (hx : x ∈ vs) (m : FVal α) (c c' : FCtx α) (h : setMin x m c = some c') :
    StepR vs c c' := (setMin_upd x m c c' h).stepR hx

theorem setMax_stepR {vs : List Nat} (x : Nat) (hx : x ∈ vs) (m : FVal α) (c c' : FCtx α) (h : setMax x m c = some c') :
    StepR vs c c' := (setMax_upd x m c c' h).stepR hx

theorem forIdx_stepR {β : Type} (vs : List Nat) (f : Nat → β → FCtx α → Option (FCtx α)) :
    ∀ (l : List β), (∀ k b c c', b ∈ l → f k b c = some c' → StepR vs c c') →
      ∀ (k : Nat) (c c' : FCtx α), forIdx f k l c = some c' → StepR vs c c' := by
  intro l
  induction l with
  | nil => intro _ k c c' h; simp [forIdx] at h; exact StepR.of_eq h.symm
  | cons b bs ih =>
    intro hf k c c' h
    simp only [forIdx] at h
    split at h; · simp at h
    rename_i c1 h1
    exact StepR.trans (hf k b c c1 (by simp) h1)
      (ih (fun k b c c' hb => hf k b c c' (List.mem_cons_of_mem _ hb)) (k + 1) c1 c' h)

theorem mem_zip_snd {cs : List α} {xs : List Nat} {b : α × Nat} (h : b ∈ cs.zip xs) : b.2 ∈ xs := by
  obtain ⟨c, x⟩ := b
  exact (List.of_mem_zip h).2

theorem linEqStep_stepR (helper : Bool) (cs : List α) (xs : List Nat) (cst : α) (k : Nat) (b : α × Nat) (hb : b.2 ∈ xs)
    (c c' : FCtx α) (h : linEqStep helper cs xs cst k b c = some c') : StepR xs c c' := by
  simp only [linEqStep] at h
  split at h; · simp at h; exact StepR.of_eq h.symm
  split at h; · simp at h; exact StepR.of_eq h.symm
  split at h; · simp at h; exact StepR.of_eq h.symm
  split at h; · simp at h
  rename_i c1 h1
  exact StepR.trans (setMin_stepR _ hb _ c c1 h1) (setMax_stepR _ hb _ c1 c' h)

theorem linLeStep_stepR (cs : List α) (xs : List Nat) (cst : α) (k : Nat) (b : α × Nat) (hb : b.2 ∈ xs)
    (c c' : FCtx α) (h : linLeStep cs xs cst k b c = some c') : StepR xs c c' :=
  (linLeStep_upd cs xs cst k b c c' h).stepR hb

theorem linLeHelperStep_stepR (cs : List α) (xs : List Nat) (cst : α) (k : Nat) (b : α × Nat) (hb : b.2 ∈ xs)
    (c c' : FCtx α) (h : linLeHelperStep cs xs cst k b c = some c') : StepR xs c c' := by
  simp only [linLeHelperStep] at h
  split at h; · simp at h; exact StepR.of_eq h.symm
  split at h; · simp at h; exact StepR.of_eq h.symm
  split at h
  · exact setMax_stepR _ hb _ c c' h
  · exact setMin_stepR _ hb _ c c' h

theorem excludeValue_stepR {vs : List Nat} (x : Nat) (hx : x ∈ vs) (fv : FVal α) (c c' : FCtx α)
    (h : excludeValue x fv c = some c') : StepR vs c c' := by
  simp only [excludeValue] at h
  split at h; · simp at h; exact StepR.of_eq h.symm
  split at h; · simp at h
  split at h; · exact setMin_stepR _ hx _ c c' h
  split at h; · exact setMax_stepR _ hx _ c c' h
  simp at h; exact StepR.of_eq h.symm

theorem linNePrune_stepR (cs : List α) (xs : List Nat) (cst : α) (c c' : FCtx α)
    (h : linNePrune cs xs cst c = some c') : StepR xs c c' := by
  simp only [linNePrune] at h
  split at h
  · simp at h; exact StepR.of_eq h.symm
  · split at h <;> simp at h; exact StepR.of_eq h.symm
  · split at h
    · rename_i coeff x hc hx
      split at h
      · split at h <;> simp at h; exact StepR.of_eq h.symm
      · exact excludeValue_stepR x (List.mem_of_getElem? hx) _ c c' h
    · simp at h; exact StepR.of_eq h.symm

theorem fixReif_stepR {vs : List Nat} (b : Nat) (hb : b ∈ vs) (k : Int) (c c' : FCtx α) (h : fixReif b k c = some c') :
    StepR vs c c' := by
  simp only [fixReif] at h
  split at h; · simp at h
  rename_i c1 h1
  exact StepR.trans (setMin_stepR _ hb _ c c1 h1) (setMax_stepR _ hb _ c1 c' h)

/-- **writes**: a successful propagator writes only its trigger variables, and every written
variable is among the new events -/
theorem prune_stepR (k : FPK α) (c c' : FCtx α) (h : k.prune c = some c') : StepR k.triggers c c' := by
  cases k with
  | leq x y =>
    simp only [prune] at h
    split at h; · simp at h
    rename_i c1 r1 h1
    simp only [Option.map_eq_some_iff] at h
    obtain ⟨⟨c2, r2⟩, h2, rfl⟩ := h
    exact StepR.trans (((FView.trySet_stepR x).2 _ c c1 r1 h1).mono (by simp [triggers]; intro v hv; exact Or.inl hv))
      (((FView.trySet_stepR y).1 _ c1 c2 r2 h2).mono (by simp [triggers]; intro v hv; exact Or.inr hv))
  | eq x y =>
    simp only [prune] at h
    split at h; · simp at h
    rename_i c1 r1 h1
    split at h; · simp at h
    rename_i c2 r2 h2
    split at h; · simp at h
    rename_i c3 r3 h3
    simp only [Option.map_eq_some_iff] at h
    obtain ⟨⟨c4, r4⟩, h4, rfl⟩ := h
    have mx : ∀ v ∈ x.underlying.toList, v ∈ (FPK.eq x y).triggers := by simp [triggers]; intro v hv; exact Or.inl hv
    have my : ∀ v ∈ y.underlying.toList, v ∈ (FPK.eq x y).triggers := by simp [triggers]; intro v hv; exact Or.inr hv
    exact StepR.trans (StepR.trans (((FView.trySet_stepR x).1 _ c c1 r1 h1).mono mx) (((FView.trySet_stepR x).2 _ c1 c2 r2 h2).mono mx))
      (StepR.trans (((FView.trySet_stepR y).1 _ c2 c3 r3 h3).mono my) (((FView.trySet_stepR y).2 _ c3 c4 r4 h4).mono my))
  | linEq cs xs cst =>
    exact forIdx_stepR xs _ _ (fun k b c c' hb h => linEqStep_stepR false cs xs cst k b (mem_zip_snd hb) c c' h) 0 c c' h
  | linLe cs xs cst =>
    exact forIdx_stepR xs _ _ (fun k b c c' hb h => linLeStep_stepR cs xs cst k b (mem_zip_snd hb) c c' h) 0 c c' h
  | linNe cs xs cst => exact linNePrune_stepR cs xs cst c c' h
  | linEqReif cs xs cst b =>
    have mx : ∀ v ∈ xs, v ∈ (FPK.linEqReif cs xs cst b).triggers := by simp [triggers]; intro v hv; exact Or.inl hv
    have mb : b ∈ (FPK.linEqReif cs xs cst b).triggers := by simp [triggers]
    simp only [prune] at h
    split at h
    · exact (forIdx_stepR xs _ _ (fun k b c c' hb h => linEqStep_stepR true cs xs cst k b (mem_zip_snd hb) c c' h) 0 c c' h).mono mx
    split at h
    · split at h
      · split at h <;> simp at h; exact StepR.of_eq h.symm
      · simp at h; exact StepR.of_eq h.symm
    · split at h
      · split at h <;> exact fixReif_stepR _ mb _ c c' h
      · simp at h; exact StepR.of_eq h.symm
  | linLeReif cs xs cst b =>
    have mx : ∀ v ∈ xs, v ∈ (FPK.linLeReif cs xs cst b).triggers := by simp [triggers]; intro v hv; exact Or.inl hv
    have mb : b ∈ (FPK.linLeReif cs xs cst b).triggers := by simp [triggers]
    simp only [prune] at h
    split at h
    · exact (forIdx_stepR xs _ _ (fun k b c c' hb h => linLeHelperStep_stepR cs xs cst k b (mem_zip_snd hb) c c' h) 0 c c' h).mono mx
    split at h
    · split at h
      · split at h <;> simp at h; exact StepR.of_eq h.symm
      · simp at h; exact StepR.of_eq h.symm
    · split at h; · exact fixReif_stepR _ mb _ c c' h
      split at h; · exact fixReif_stepR _ mb _ c c' h
      simp at h; exact StepR.of_eq h.symm
  | linNeReif cs xs cst b =>
    have mx : ∀ v ∈ xs, v ∈ (FPK.linNeReif cs xs cst b).triggers := by simp [triggers]; intro v hv; exact Or.inl hv
    have mb : b ∈ (FPK.linNeReif cs xs cst b).triggers := by simp [triggers]
    simp only [prune] at h
    split at h; · exact (linNePrune_stepR cs xs cst c c' h).mono mx
    split at h
    · exact (forIdx_stepR xs _ _ (fun k b c c' hb h => linEqStep_stepR true cs xs cst k b (mem_zip_snd hb) c c' h) 0 c c' h).mono mx
    split at h
    · split at h <;> exact fixReif_stepR _ mb _ c c' h
    · simp at h; exact StepR.of_eq h.symm

end FPK

/-! ### reads: the outcome depends on the trigger variables only -/

/-- the two contexts carry the same events and agree on the variables `vs` -/
def FAgree (vs : List Nat) (c1 c2 : FCtx α) : Prop := c1.ev = c2.ev ∧ ∀ j ∈ vs, c1.st j = c2.st j

def FOAgree (vs : List Nat) : Option (FCtx α) → Option (FCtx α) → Prop
  | none, none => True
  | some a, some b => FAgree vs a b
  | _, _ => False

def FOAgreeV (vs : List Nat) : Option (FCtx α × FVal α) → Option (FCtx α × FVal α) → Prop
  | none, none => True
  | some a, some b => FAgree vs a.1 b.1 ∧ a.2 = b.2
  | _, _ => False

theorem FAgree.mono {vs ws : List Nat} {c1 c2 : FCtx α} (h : FAgree ws c1 c2) (hs : ∀ v ∈ vs, v ∈ ws) : FAgree vs c1 c2 :=
  ⟨h.1, fun j hj => h.2 j (hs j hj)⟩

theorem agree_upd {vs : List Nat} {c1 c2 : FCtx α} (h : FAgree vs c1 c2) (i : Nat) (v : FVar α) :
    FAgree vs { st := updF c1.st i v, ev := c1.ev ++ [i] } { st := updF c2.st i v, ev := c2.ev ++ [i] } := by
  refine ⟨by simp [h.1], fun j hj => ?_⟩
  simp only [updF]
  split
  · rfl
  · exact h.2 j hj

/-- closes the goals left by unfolding one arm of `try_set_min/max` on both sides -/
macro "arm_agree" h:ident : tactic =>
  `(tactic| (repeat' split) <;> first
    | trivial
    | exact ⟨$h, rfl⟩
    | exact ⟨agree_upd $h _ _, rfl⟩)

namespace FCtx

theorem intSetMin_agree {vs : List Nat} {c1 c2 : FCtx α} (h : FAgree vs c1 c2) (i : Nat) (d : List Int) (m : Int) :
    FOAgreeV vs (c1.intSetMin i d m) (c2.intSetMin i d m) := by
  simp only [FCtx.intSetMin]; arm_agree h
theorem intSetMax_agree {vs : List Nat} {c1 c2 : FCtx α} (h : FAgree vs c1 c2) (i : Nat) (d : List Int) (m : Int) :
    FOAgreeV vs (c1.intSetMax i d m) (c2.intSetMax i d m) := by
  simp only [FCtx.intSetMax]; arm_agree h
theorem fltSetMin_agree {vs : List Nat} {c1 c2 : FCtx α} (h : FAgree vs c1 c2) (i : Nat) (iv : FI α) (m : α) :
    FOAgreeV vs (c1.fltSetMin i iv m) (c2.fltSetMin i iv m) := by
  simp only [FCtx.fltSetMin]; arm_agree h
theorem fltSetMax_agree {vs : List Nat} {c1 c2 : FCtx α} (h : FAgree vs c1 c2) (i : Nat) (iv : FI α) (m : α) :
    FOAgreeV vs (c1.fltSetMax i iv m) (c2.fltSetMax i iv m) := by
  simp only [FCtx.fltSetMax]; arm_agree h
theorem fltSetMinI_agree {vs : List Nat} {c1 c2 : FCtx α} (h : FAgree vs c1 c2) (i : Nat) (iv : FI α) (m : Int) :
    FOAgreeV vs (c1.fltSetMinI i iv m) (c2.fltSetMinI i iv m) := by
  simp only [FCtx.fltSetMinI]; arm_agree h
theorem fltSetMaxI_agree {vs : List Nat} {c1 c2 : FCtx α} (h : FAgree vs c1 c2) (i : Nat) (iv : FI α) (m : Int) :
    FOAgreeV vs (c1.fltSetMaxI i iv m) (c2.fltSetMaxI i iv m) := by
  simp only [FCtx.fltSetMaxI]; arm_agree h

theorem trySetMin_agree {vs : List Nat} {c1 c2 : FCtx α} (h : FAgree vs c1 c2) (i : Nat) (hi : i ∈ vs) (m : FVal α) :
    FOAgreeV vs (c1.trySetMin i m) (c2.trySetMin i m) := by
  unfold FCtx.trySetMin
  rw [← h.2 i hi]
  cases c1.st i <;> cases m
  · exact fltSetMinI_agree h _ _ _
  · exact fltSetMin_agree h _ _ _
  · exact intSetMin_agree h _ _ _
  · exact intSetMin_agree h _ _ _

theorem trySetMax_agree {vs : List Nat} {c1 c2 : FCtx α} (h : FAgree vs c1 c2) (i : Nat) (hi : i ∈ vs) (m : FVal α) :
    FOAgreeV vs (c1.trySetMax i m) (c2.trySetMax i m) := by
  unfold FCtx.trySetMax
  rw [← h.2 i hi]
  cases c1.st i <;> cases m
  · exact fltSetMaxI_agree h _ _ _
  · exact fltSetMax_agree h _ _ _
  · exact intSetMax_agree h _ _ _
  · exact intSetMax_agree h _ _ _

end FCtx

theorem FStore.vmin_congr {st1 st2 : FStore α} {i : Nat} (h : st1 i = st2 i) : st1.vmin i = st2.vmin i := by
  simp only [FStore.vmin, h]
theorem FStore.vmax_congr {st1 st2 : FStore α} {i : Nat} (h : st1 i = st2 i) : st1.vmax i = st2.vmax i := by
  simp only [FStore.vmax, h]

namespace FView

/-- the stores agree on the variable under the view -/
def SameAt (v : FView α) (st1 st2 : FStore α) : Prop := ∀ i, v.underlying = some i → st1 i = st2 i

theorem isFloat_congr (v : FView α) {st1 st2 : FStore α} (h : v.SameAt st1 st2) : v.isFloat st1 = v.isFloat st2 := by
  induction v with
  | const k => rfl
  | var i => simp only [isFloat, h i rfl]
  | opp v ih => simp only [isFloat]; exact ih h
  | plus v k ih => simp only [isFloat]; rw [ih h]
  | tpos v k ih => simp only [isFloat]; rw [ih h]
  | next v ih => simp only [isFloat]; exact ih h
  | prev v ih => simp only [isFloat]; exact ih h

theorem ivOf_congr (v : FView α) {st1 st2 : FStore α} (h : v.SameAt st1 st2) : v.ivOf st1 = v.ivOf st2 := by
  unfold ivOf
  cases hu : v.underlying with
  | none => rfl
  | some i => simp only [h i hu]

theorem stepUp_congr (v : FView α) {st1 st2 : FStore α} (h : v.SameAt st1 st2) (b : FVal α) :
    stepUp st1 v b = stepUp st2 v b := by
  unfold stepUp; rw [ivOf_congr v h]
theorem stepDown_congr (v : FView α) {st1 st2 : FStore α} (h : v.SameAt st1 st2) (b : FVal α) :
    stepDown st1 v b = stepDown st2 v b := by
  unfold stepDown; rw [ivOf_congr v h]

theorem raw_congr (v : FView α) {st1 st2 : FStore α} (h : v.SameAt st1 st2) :
    minRaw st1 v = minRaw st2 v ∧ maxRaw st1 v = maxRaw st2 v := by
  induction v with
  | const k => exact ⟨rfl, rfl⟩
  | var i => exact ⟨by simp only [minRaw]; exact FStore.vmin_congr (h i rfl), by simp only [maxRaw]; exact FStore.vmax_congr (h i rfl)⟩
  | opp v ih => have := ih h; constructor <;> simp only [minRaw, maxRaw, this.1, this.2]
  | plus v k ih => have := ih h; constructor <;> simp only [minRaw, maxRaw, this.1, this.2]
  | tpos v k ih => have := ih h; constructor <;> simp only [minRaw, maxRaw, this.1, this.2]
  | next v ih =>
    have := ih h
    have hs : v.SameAt st1 st2 := h
    constructor <;> simp only [minRaw, maxRaw, this.1, this.2, stepUp_congr v hs]
  | prev v ih =>
    have := ih h
    have hs : v.SameAt st1 st2 := h
    constructor <;> simp only [minRaw, maxRaw, this.1, this.2, stepDown_congr v hs]

theorem nextTarget_congr (v : FView α) {st1 st2 : FStore α} (h : v.SameAt st1 st2) (m : FVal α) :
    nextTarget st1 v m = nextTarget st2 v m := by
  unfold nextTarget; rw [ivOf_congr v h, isFloat_congr v h]
theorem prevTarget_congr (v : FView α) {st1 st2 : FStore α} (h : v.SameAt st1 st2) (m : FVal α) :
    prevTarget st1 v m = prevTarget st2 v m := by
  unfold prevTarget; rw [ivOf_congr v h, isFloat_congr v h]

theorem sameAt_of_agree {vs : List Nat} {c1 c2 : FCtx α} (h : FAgree vs c1 c2) (v : FView α)
    (hv : ∀ i, v.underlying = some i → i ∈ vs) : v.SameAt c1.st c2.st :=
  fun i hi => h.2 i (hv i hi)

theorem trySet_agree (vs : List Nat) (v : FView α) (hv : ∀ i, v.underlying = some i → i ∈ vs) :
    (∀ (m : FVal α) (c1 c2 : FCtx α), FAgree vs c1 c2 → FOAgreeV vs (v.trySetMin m c1) (v.trySetMin m c2)) ∧
    (∀ (m : FVal α) (c1 c2 : FCtx α), FAgree vs c1 c2 → FOAgreeV vs (v.trySetMax m c1) (v.trySetMax m c2)) := by
  induction v with
  | const k =>
    constructor
    · intro m c1 c2 h; simp only [trySetMin]; split
      · exact ⟨h, rfl⟩
      · trivial
    · intro m c1 c2 h; simp only [trySetMax]; split
      · exact ⟨h, rfl⟩
      · trivial
  | var i =>
    have hi : i ∈ vs := hv i rfl
    exact ⟨fun m c1 c2 h => FCtx.trySetMin_agree h i hi m, fun m c1 c2 h => FCtx.trySetMax_agree h i hi m⟩
  | opp v ih =>
    have := ih hv
    exact ⟨fun m c1 c2 h => by simp only [trySetMin]; exact this.2 _ c1 c2 h,
           fun m c1 c2 h => by simp only [trySetMax]; exact this.1 _ c1 c2 h⟩
  | plus v k ih =>
    have := ih hv
    exact ⟨fun m c1 c2 h => by simp only [trySetMin]; exact this.1 _ c1 c2 h,
           fun m c1 c2 h => by simp only [trySetMax]; exact this.2 _ c1 c2 h⟩
  | tpos v k ih =>
    have := ih hv
    exact ⟨fun m c1 c2 h => by simp only [trySetMin]; exact this.1 _ c1 c2 h,
           fun m c1 c2 h => by simp only [trySetMax]; exact this.2 _ c1 c2 h⟩
  | next v ih =>
    have := ih hv
    exact ⟨fun m c1 c2 h => by
             simp only [trySetMin]; rw [nextTarget_congr v (sameAt_of_agree h v hv)]; exact this.1 _ c1 c2 h,
           fun m c1 c2 h => by
             simp only [trySetMax]; rw [nextTarget_congr v (sameAt_of_agree h v hv)]; exact this.2 _ c1 c2 h⟩
  | prev v ih =>
    have := ih hv
    exact ⟨fun m c1 c2 h => by
             simp only [trySetMin]; rw [prevTarget_congr v (sameAt_of_agree h v hv)]; exact this.1 _ c1 c2 h,
           fun m c1 c2 h => by
             simp only [trySetMax]; rw [prevTarget_congr v (sameAt_of_agree h v hv)]; exact this.2 _ c1 c2 h⟩

end FView

namespace FPK

theorem FOAgreeV.fst {vs : List Nat} {a b : Option (FCtx α × FVal α)} (h : FOAgreeV vs a b) :
    FOAgree vs (a.map (·.1)) (b.map (·.1)) := by
  cases a <;> cases b <;> simp_all [FOAgreeV, FOAgree]

/-- sequencing: `match a with | none => none | some x => f x` -/
theorem FOAgree.andThen {vs : List Nat} {a b : Option (FCtx α)} {f g : FCtx α → Option (FCtx α)}
    (h : FOAgree vs a b) (hf : ∀ x y, FAgree vs x y → FOAgree vs (f x) (g y)) :
    FOAgree vs (match (generalizing := false) a with | none => none | some x => f x)
      (match (generalizing := false) b with | none => none | some y => g y) := by
  cases a <;> cases b
  · trivial
  · exact absurd h (by simp [FOAgree])
  · exact absurd h (by simp [FOAgree])
  · exact hf _ _ h

theorem FOAgreeV.andThen {vs : List Nat} {a b : Option (FCtx α × FVal α)} {f g : FCtx α → Option (FCtx α)}
    (h : FOAgreeV vs a b) (hf : ∀ x y, FAgree vs x y → FOAgree vs (f x) (g y)) :
    FOAgree vs (match (generalizing := false) a with | none => none | some (x, _) => f x)
      (match (generalizing := false) b with | none => none | some (y, _) => g y) := by
  cases a <;> cases b
  · trivial
  · exact absurd h (by simp [FOAgreeV])
  · exact absurd h (by simp [FOAgreeV])
  · exact hf _ _ h.1

theorem setMin_agree {vs : List Nat} {c1 c2 : FCtx α} (h : FAgree vs c1 c2) (x : Nat) (hx : x ∈ vs) (m : FVal α) :
    FOAgree vs (setMin x m c1) (setMin x m c2) := FOAgreeV.fst (FCtx.trySetMin_agree h x hx m)
theorem setMax_agree {vs : List Nat} {c1 c2 : FCtx α} (h : FAgree vs c1 c2) (x : Nat) (hx : x ∈ vs) (m : FVal α) :
    FOAgree vs (setMax x m c1) (setMax x m c2) := FOAgreeV.fst (FCtx.trySetMax_agree h x hx m)

theorem forIdx_agree {β : Type} (vs : List Nat) (f : Nat → β → FCtx α → Option (FCtx α)) :
    ∀ (l : List β), (∀ k b c1 c2, b ∈ l → FAgree vs c1 c2 → FOAgree vs (f k b c1) (f k b c2)) →
      ∀ (k : Nat) (c1 c2 : FCtx α), FAgree vs c1 c2 → FOAgree vs (forIdx f k l c1) (forIdx f k l c2) := by
  intro l
  induction l with
  | nil => intro _ k c1 c2 h; exact h
  | cons b bs ih =>
    intro hf k c1 c2 h
    simp only [forIdx]
    exact FOAgree.andThen (hf k b c1 c2 (by simp) h)
      (fun x y hxy => ih (fun k b c1 c2 hb => hf k b c1 c2 (List.mem_cons_of_mem _ hb)) (k + 1) x y hxy)

theorem boundsF_congr {st1 st2 : FStore α} {x : Nat} (h : st1 x = st2 x) : boundsF st1 x = boundsF st2 x := by
  simp only [boundsF, FStore.vmin_congr h, FStore.vmax_congr h]

theorem term_congr {st1 st2 : FStore α} {x : Nat} (h : st1 x = st2 x) (c : α) : term st1 c x = term st2 c x := by
  simp only [term, boundsF_congr h]

theorem otherSums_congr (st1 st2 : FStore α) (i : Nat) :
    ∀ (cs : List α) (xs : List Nat) (j : Nat) (acc : α × α), (∀ x ∈ xs, st1 x = st2 x) →
      otherSums st1 i j cs xs acc = otherSums st2 i j cs xs acc := by
  intro cs
  induction cs with
  | nil => intro xs j acc _; simp only [otherSums]
  | cons c cs ih =>
    intro xs j acc h
    cases xs with
    | nil => simp only [otherSums]
    | cons x xs =>
      simp only [otherSums]
      rw [term_congr (h x (by simp)) c]
      split
      · exact ih xs _ _ (fun y hy => h y (List.mem_cons_of_mem _ hy))
      · exact ih xs _ _ (fun y hy => h y (List.mem_cons_of_mem _ hy))

theorem otherUnbounded_congr (st1 st2 : FStore α) (i : Nat) :
    ∀ (xs : List Nat) (j : Nat), (∀ x ∈ xs, st1 x = st2 x) → otherUnbounded st1 i j xs = otherUnbounded st2 i j xs := by
  intro xs
  induction xs with
  | nil => intro j _; rfl
  | cons x xs ih =>
    intro j h
    simp only [otherUnbounded]
    rw [h x (by simp), ih (j + 1) (fun y hy => h y (List.mem_cons_of_mem _ hy))]

theorem linEqBounds_congr (cs : List α) (xs : List Nat) (cst : α) (i : Nat) (coeff : α) (x : Nat) (c1 c2 : FCtx α)
    (h : ∀ y ∈ xs, c1.st y = c2.st y) (hx : x ∈ xs) :
    linEqBounds cs xs cst i coeff x c1 = linEqBounds cs xs cst i coeff x c2 := by
  simp only [linEqBounds, otherSums_congr c1.st c2.st i cs xs 0 _ h, boundsF_congr (h x hx)]

theorem linEqStep_agree (helper : Bool) (cs : List α) (xs : List Nat) (cst : α) (k : Nat) (b : α × Nat) (hb : b.2 ∈ xs)
    {vs : List Nat} (hvs : ∀ x ∈ xs, x ∈ vs) {c1 c2 : FCtx α} (h : FAgree vs c1 c2) :
    FOAgree vs (linEqStep helper cs xs cst k b c1) (linEqStep helper cs xs cst k b c2) := by
  have hs : ∀ y ∈ xs, c1.st y = c2.st y := fun y hy => h.2 y (hvs y hy)
  simp only [linEqStep]
  rw [otherUnbounded_congr c1.st c2.st k xs 0 hs, linEqBounds_congr cs xs cst k b.1 b.2 c1 c2 hs hb]
  split; · exact h
  split; · exact h
  split; · exact h
  exact FOAgree.andThen (setMin_agree h _ (hvs _ hb) _) (fun x y hxy => setMax_agree hxy _ (hvs _ hb) _)

theorem linLeStep_agree (cs : List α) (xs : List Nat) (cst : α) (k : Nat) (b : α × Nat) (hb : b.2 ∈ xs)
    {vs : List Nat} (hvs : ∀ x ∈ xs, x ∈ vs) {c1 c2 : FCtx α} (h : FAgree vs c1 c2) :
    FOAgree vs (linLeStep cs xs cst k b c1) (linLeStep cs xs cst k b c2) := by
  have hs : ∀ y ∈ xs, c1.st y = c2.st y := fun y hy => h.2 y (hvs y hy)
  simp only [linLeStep]
  rw [otherSums_congr c1.st c2.st k cs xs 0 _ hs, FStore.vmax_congr (hs _ hb), FStore.vmin_congr (hs _ hb)]
  (repeat' split) <;> first
    | exact h
    | exact setMax_agree h _ (hvs _ hb) _
    | exact setMin_agree h _ (hvs _ hb) _

theorem linLeHelperStep_agree (cs : List α) (xs : List Nat) (cst : α) (k : Nat) (b : α × Nat) (hb : b.2 ∈ xs)
    {vs : List Nat} (hvs : ∀ x ∈ xs, x ∈ vs) {c1 c2 : FCtx α} (h : FAgree vs c1 c2) :
    FOAgree vs (linLeHelperStep cs xs cst k b c1) (linLeHelperStep cs xs cst k b c2) := by
  have hs : ∀ y ∈ xs, c1.st y = c2.st y := fun y hy => h.2 y (hvs y hy)
  simp only [linLeHelperStep]
  rw [otherUnbounded_congr c1.st c2.st k xs 0 hs, otherSums_congr c1.st c2.st k cs xs 0 _ hs]
  split; · exact h
  split; · exact h
  split
  · exact setMax_agree h _ (hvs _ hb) _
  · exact setMin_agree h _ (hvs _ hb) _

theorem fixedVal_congr {st1 st2 : FStore α} {x : Nat} (h : st1 x = st2 x) : fixedVal st1 x = fixedVal st2 x := by
  simp only [fixedVal, h]

theorem neScan_congr (st1 st2 : FStore α) :
    ∀ (cs : List α) (xs : List Nat) (j : Nat) (acc : Option Nat × α), (∀ x ∈ xs, st1 x = st2 x) →
      neScan st1 j cs xs acc = neScan st2 j cs xs acc := by
  intro cs
  induction cs with
  | nil => intro xs j acc _; simp only [neScan]
  | cons c cs ih =>
    intro xs j acc h
    cases xs with
    | nil => simp only [neScan]
    | cons x xs =>
      simp only [neScan]
      rw [fixedVal_congr (h x (by simp))]
      have ih' := fun j acc => ih xs j acc (fun y hy => h y (List.mem_cons_of_mem _ hy))
      split
      · exact ih' _ _
      · split
        · rfl
        · exact ih' _ _

theorem fixedSum_congr (st1 st2 : FStore α) :
    ∀ (cs : List α) (xs : List Nat) (acc : α), (∀ x ∈ xs, st1 x = st2 x) →
      fixedSum st1 cs xs acc = fixedSum st2 cs xs acc := by
  intro cs
  induction cs with
  | nil => intro xs acc _; simp only [fixedSum]
  | cons c cs ih =>
    intro xs acc h
    cases xs with
    | nil => simp only [fixedSum]
    | cons x xs =>
      simp only [fixedSum]
      rw [fixedVal_congr (h x (by simp))]
      split
      · exact ih xs _ (fun y hy => h y (List.mem_cons_of_mem _ hy))
      · rfl

theorem sumBounds_congr (st1 st2 : FStore α) :
    ∀ (cs : List α) (xs : List Nat) (acc : α × α), (∀ x ∈ xs, st1 x = st2 x) →
      sumBounds st1 cs xs acc = sumBounds st2 cs xs acc := by
  intro cs
  induction cs with
  | nil => intro xs acc _; simp only [sumBounds]
  | cons c cs ih =>
    intro xs acc h
    cases xs with
    | nil => simp only [sumBounds]
    | cons x xs =>
      simp only [sumBounds]
      rw [term_congr (h x (by simp)) c]
      exact ih xs _ (fun y hy => h y (List.mem_cons_of_mem _ hy))

theorem excludeValue_agree {vs : List Nat} {c1 c2 : FCtx α} (h : FAgree vs c1 c2) (x : Nat) (hx : x ∈ vs) (fv : FVal α) :
    FOAgree vs (excludeValue x fv c1) (excludeValue x fv c2) := by
  simp only [excludeValue]
  rw [FStore.vmin_congr (h.2 x hx), FStore.vmax_congr (h.2 x hx)]
  (repeat' split) <;> first
    | exact h
    | trivial
    | exact setMax_agree h _ hx _
    | exact setMin_agree h _ hx _

theorem linNePrune_agree (cs : List α) (xs : List Nat) (cst : α) {vs : List Nat} (hvs : ∀ x ∈ xs, x ∈ vs)
    {c1 c2 : FCtx α} (h : FAgree vs c1 c2) :
    FOAgree vs (linNePrune cs xs cst c1) (linNePrune cs xs cst c2) := by
  have hs : ∀ y ∈ xs, c1.st y = c2.st y := fun y hy => h.2 y (hvs y hy)
  simp only [linNePrune]
  rw [neScan_congr c1.st c2.st cs xs 0 _ hs]
  split
  · exact h
  · split
    · trivial
    · exact h
  · split
    · rename_i coeff x hc hx
      split
      · split
        · trivial
        · exact h
      · exact excludeValue_agree h x (hvs x (List.mem_of_getElem? hx)) _
    · exact h

theorem fixReif_agree {vs : List Nat} {c1 c2 : FCtx α} (h : FAgree vs c1 c2) (b : Nat) (hb : b ∈ vs) (k : Int) :
    FOAgree vs (fixReif b k c1) (fixReif b k c2) := by
  simp only [fixReif]
  exact FOAgree.andThen (setMin_agree h _ hb _) (fun x y hxy => setMax_agree hxy _ hb _)

/-- **reads**: the outcome of a propagator (success, events, new values of its variables) depends
only on the values of its trigger variables -/
theorem prune_agree (k : FPK α) {c1 c2 : FCtx α} (h : FAgree k.triggers c1 c2) :
    FOAgree k.triggers (k.prune c1) (k.prune c2) := by
  cases k with
  | leq x y =>
    have hx : ∀ i, x.underlying = some i → i ∈ (FPK.leq x y).triggers := by
      intro i hi; simp [triggers, hi]
    have hy : ∀ i, y.underlying = some i → i ∈ (FPK.leq x y).triggers := by
      intro i hi; simp [triggers, hi]
    simp only [prune]
    rw [(FView.raw_congr y (FView.sameAt_of_agree h y hy)).2]
    refine FOAgreeV.andThen ((FView.trySet_agree _ x hx).2 _ c1 c2 h) (fun a b hab => ?_)
    rw [(FView.raw_congr x (FView.sameAt_of_agree hab x hx)).1]
    exact FOAgreeV.fst ((FView.trySet_agree _ y hy).1 _ a b hab)
  | eq x y =>
    have hx : ∀ i, x.underlying = some i → i ∈ (FPK.eq x y).triggers := by
      intro i hi; simp [triggers, hi]
    have hy : ∀ i, y.underlying = some i → i ∈ (FPK.eq x y).triggers := by
      intro i hi; simp [triggers, hi]
    simp only [prune]
    rw [(FView.raw_congr y (FView.sameAt_of_agree h y hy)).1]
    refine FOAgreeV.andThen ((FView.trySet_agree _ x hx).1 _ c1 c2 h) (fun a1 b1 h1 => ?_)
    rw [(FView.raw_congr y (FView.sameAt_of_agree h1 y hy)).2]
    refine FOAgreeV.andThen ((FView.trySet_agree _ x hx).2 _ a1 b1 h1) (fun a2 b2 h2 => ?_)
    rw [(FView.raw_congr x (FView.sameAt_of_agree h2 x hx)).1]
    refine FOAgreeV.andThen ((FView.trySet_agree _ y hy).1 _ a2 b2 h2) (fun a3 b3 h3 => ?_)
    rw [(FView.raw_congr x (FView.sameAt_of_agree h3 x hx)).2]
    exact FOAgreeV.fst ((FView.trySet_agree _ y hy).2 _ a3 b3 h3)
  | linEq cs xs cst =>
    exact forIdx_agree _ _ _ (fun k b c1 c2 hb hc => linEqStep_agree false cs xs cst k b (mem_zip_snd hb) (fun x hx => hx) hc) 0 c1 c2 h
  | linLe cs xs cst =>
    exact forIdx_agree _ _ _ (fun k b c1 c2 hb hc => linLeStep_agree cs xs cst k b (mem_zip_snd hb) (fun x hx => hx) hc) 0 c1 c2 h
  | linNe cs xs cst => exact linNePrune_agree cs xs cst (fun x hx => hx) h
  | linEqReif cs xs cst b =>
    have mx : ∀ v ∈ xs, v ∈ (FPK.linEqReif cs xs cst b).triggers := by simp [triggers]; intro v hv; exact Or.inl hv
    have mb : b ∈ (FPK.linEqReif cs xs cst b).triggers := by simp [triggers]
    have hs : ∀ y ∈ xs, c1.st y = c2.st y := fun y hy => h.2 y (mx y hy)
    simp only [prune]
    rw [FStore.vmin_congr (h.2 b mb), FStore.vmax_congr (h.2 b mb), fixedSum_congr c1.st c2.st cs xs _ hs]
    split
    · exact forIdx_agree _ _ _ (fun k b c1 c2 hb hc => linEqStep_agree true cs xs cst k b (mem_zip_snd hb) mx hc) 0 c1 c2 h
    split
    · (repeat' split) <;> first | exact h | trivial
    · (repeat' split) <;> first | exact h | exact fixReif_agree h b mb _
  | linLeReif cs xs cst b =>
    have mx : ∀ v ∈ xs, v ∈ (FPK.linLeReif cs xs cst b).triggers := by simp [triggers]; intro v hv; exact Or.inl hv
    have mb : b ∈ (FPK.linLeReif cs xs cst b).triggers := by simp [triggers]
    have hs : ∀ y ∈ xs, c1.st y = c2.st y := fun y hy => h.2 y (mx y hy)
    simp only [prune]
    rw [FStore.vmin_congr (h.2 b mb), FStore.vmax_congr (h.2 b mb), fixedSum_congr c1.st c2.st cs xs _ hs,
      sumBounds_congr c1.st c2.st cs xs _ hs]
    split
    · exact forIdx_agree _ _ _ (fun k b c1 c2 hb hc => linLeHelperStep_agree cs xs cst k b (mem_zip_snd hb) mx hc) 0 c1 c2 h
    split
    · (repeat' split) <;> first | exact h | trivial
    · (repeat' split) <;> first | exact h | exact fixReif_agree h b mb _
  | linNeReif cs xs cst b =>
    have mx : ∀ v ∈ xs, v ∈ (FPK.linNeReif cs xs cst b).triggers := by simp [triggers]; intro v hv; exact Or.inl hv
    have mb : b ∈ (FPK.linNeReif cs xs cst b).triggers := by simp [triggers]
    have hs : ∀ y ∈ xs, c1.st y = c2.st y := fun y hy => h.2 y (mx y hy)
    simp only [prune]
    rw [FStore.vmin_congr (h.2 b mb), FStore.vmax_congr (h.2 b mb), fixedSum_congr c1.st c2.st cs xs _ hs]
    split
    · exact linNePrune_agree cs xs cst mx h
    split
    · exact forIdx_agree _ _ _ (fun k b c1 c2 hb hc => linEqStep_agree true cs xs cst k b (mem_zip_snd hb) mx hc) 0 c1 c2 h
    · (repeat' split) <;> first | exact h | exact fixReif_agree h b mb _

end FPK

/-! ### the propagation loop -/

/-- running `k` at `st` succeeds and raises no event (hence changes nothing) -/
def FStable (k : FPK α) (st : FStore α) : Prop :=
  ∃ c', k.prune { st := st, ev := [] } = some c' ∧ c'.ev = []

theorem FStable.unchanged {k : FPK α} {st : FStore α} {c' : FCtx α}
    (h : k.prune { st := st, ev := [] } = some c') (he : c'.ev = []) : c'.st = st :=
  (FPK.prune_stepR k _ c' h).eq_of_ev he

theorem fstable_of_agree (k : FPK α) (st st2 : FStore α) (hs : FStable k st)
    (hag : ∀ i ∈ k.triggers, st2 i = st i) : FStable k st2 := by
  obtain ⟨c1, e1, u1⟩ := hs
  have hr := FPK.prune_agree k (c1 := { st := st, ev := [] }) (c2 := { st := st2, ev := [] })
    ⟨rfl, fun i hi => (hag i hi).symm⟩
  rw [e1] at hr
  cases e2 : k.prune { st := st2, ev := [] } with
  | none => rw [e2] at hr; exact absurd hr (by simp [FOAgree])
  | some c2 =>
    rw [e2] at hr
    exact ⟨c2, e2, by rw [← hr.1]; exact u1⟩

/-- loop invariant of `fpropagate`: every propagator that is not on the agenda is stable -/
def FAgendaInv (ps : List (FPK α)) (q : List Nat) (st : FStore α) : Prop :=
  ∀ p k, ps[p]? = some k → p ∉ q → FStable k st

theorem mem_foldl_scheduleAll (d : Nat → List Nat) (evs : List Nat) (q : List Nat) (x : Nat) :
    x ∈ evs.foldl (fun q v => scheduleAll q (d v)) q ↔ x ∈ q ∨ ∃ v ∈ evs, x ∈ d v := by
  induction evs generalizing q with
  | nil => simp
  | cons v evs ih =>
    simp only [List.foldl_cons]
    rw [ih, mem_scheduleAll]
    constructor
    · rintro ((h | h) | ⟨w, hw, h⟩)
      · exact Or.inl h
      · exact Or.inr ⟨v, List.mem_cons_self, h⟩
      · exact Or.inr ⟨w, List.mem_cons_of_mem _ hw, h⟩
    · rintro (h | ⟨w, hw, h⟩)
      · exact Or.inl (Or.inl h)
      · rcases List.mem_cons.1 hw with rfl | hw
        · exact Or.inl (Or.inr h)
        · exact Or.inr ⟨w, hw, h⟩

theorem mem_fdeps (ps : List (FPK α)) (v p : Nat) :
    p ∈ fdeps ps v ↔ ∃ k, ps[p]? = some k ∧ v ∈ k.triggers := by
  simp only [fdeps, List.mem_filter, List.mem_range]
  constructor
  · rintro ⟨hp, h⟩
    cases hk : ps[p]? with
    | none => rw [hk] at h; simp at h
    | some k => rw [hk] at h; exact ⟨k, rfl, by simpa using h⟩
  · rintro ⟨k, hk, hv⟩
    have hp : p < ps.length := by
      apply Classical.byContradiction; intro hn
      rw [List.getElem?_eq_none (by omega)] at hk; cases hk
    exact ⟨hp, by rw [hk]; simpa using hv⟩

theorem fstep_inv (ps : List (FPK α)) (pol : Policy) (q q' : List Nat) (p : Nat) (k : FPK α) (st : FStore α) (c : FCtx α)
    (hpick : pol.pick q = some (p, q')) (hk : ps[p]? = some k)
    (hrun : k.prune { st := st, ev := [] } = some c) (hinv : FAgendaInv ps q st) :
    FAgendaInv ps (c.ev.foldl (fun q v => scheduleAll q (fdeps ps v)) q') c.st := by
  intro p2 k2 hk2 hnot
  rw [mem_foldl_scheduleAll] at hnot
  obtain ⟨evs, hev, hsub, hframe⟩ := FPK.prune_stepR k _ c hrun
  have hev' : c.ev = evs := by simpa using hev
  -- no trigger variable of p2 was written
  have hun : ∀ i ∈ k2.triggers, c.st i = st i := by
    intro i hi
    apply hframe i
    intro hie
    exact hnot (Or.inr ⟨i, by rw [hev']; exact hie, (mem_fdeps ps i p2).2 ⟨k2, hk2, hi⟩⟩)
  by_cases hpp : p2 = p
  · subst hpp
    have hkk : k2 = k := by rw [hk] at hk2; exact (Option.some.inj hk2).symm
    subst hkk
    -- p itself was not rescheduled: it raised no event at all
    have hnil : evs = [] := by
      cases evs with
      | nil => rfl
      | cons e es =>
        exfalso
        exact hnot (Or.inr ⟨e, by rw [hev']; simp, (mem_fdeps ps e p2).2 ⟨k2, hk2, hsub e (by simp)⟩⟩)
    have hst : FStable k2 st := ⟨c, hrun, by rw [hev', hnil]⟩
    exact fstable_of_agree k2 st c.st hst hun
  · have hq' : p2 ∉ q' := fun h => hnot (Or.inl h)
    have hq : p2 ∉ q := by
      intro h
      rcases (pick_spec pol q p q' hpick).2.2 p2 h with h | h
      · exact hq' h
      · exact hpp h
    exact fstable_of_agree k2 st c.st (hinv p2 k2 hk2 hq) hun

/-- **fixpoint theorem**: when `fpropagate` returns `ok`, every propagator succeeds at the result
without raising an event — for every pop policy, every fuel, every instance of `Num` -/
theorem fpropagate_fixpoint (n : Nat) (ps : List (FPK α)) (pol : Policy) :
    ∀ (fuel : Nat) (q : List Nat) (st : FStore α) (cnt : Nat) (st' : FStore α) (cnt' : Nat), FAgendaInv ps q st →
      fpropagate n ps pol fuel q st cnt = .ok st' cnt' → ∀ (p : Nat) (k : FPK α), ps[p]? = some k → FStable k st' := by
  intro fuel
  induction fuel with
  | zero => intro q st cnt st' cnt' _ h; simp [fpropagate] at h
  | succ f ih =>
    intro q st cnt st' cnt' hinv h
    simp only [fpropagate] at h
    cases hpk : pol.pick q with
    | none =>
      rw [hpk] at h
      simp only [FPRes.ok.injEq] at h
      obtain ⟨rfl, _⟩ := h
      have := pick_none pol q hpk
      subst this
      intro p k hk; exact hinv p k hk (by simp)
    | some pq =>
      obtain ⟨p, q'⟩ := pq
      rw [hpk] at h
      simp only at h
      cases hk : ps[p]? with
      | none =>
        rw [hk] at h
        simp only at h
        refine ih q' st _ st' cnt' ?_ h
        intro p2 k2 hk2 hn
        apply hinv p2 k2 hk2
        intro hq
        rcases (pick_spec pol q p q' hpk).2.2 p2 hq with h' | h'
        · exact hn h'
        · subst h'; rw [hk] at hk2; cases hk2
      | some k =>
        rw [hk] at h
        simp only at h
        cases e : k.prune { st := st, ev := [] } with
        | none => rw [e] at h; cases h
        | some c =>
          rw [e] at h
          simp only [FStore.ofArray_tab] at h
          exact ih _ _ _ st' cnt' (fstep_inv ps pol q q' p k st c hpk hk e hinv) h

/-- at the root every propagator is scheduled -/
theorem fagendaInv_all (ps : List (FPK α)) (st : FStore α) : FAgendaInv ps (List.range ps.length) st := by
  intro p k hk hn
  exfalso; apply hn
  rw [List.mem_range]
  apply Classical.byContradiction; intro hlt
  rw [List.getElem?_eq_none (by omega)] at hk; cases hk

/-- invariant rule: a store property kept by every successful `prune` is kept by `fpropagate` -/
theorem fpropagate_inv (n : Nat) (ps : List (FPK α)) (pol : Policy) (P : FStore α → Prop)
    (hP : ∀ k ∈ ps, ∀ (c c' : FCtx α), P c.st → k.prune c = some c' → P c'.st) :
    ∀ (fuel : Nat) (q : List Nat) (st : FStore α) (cnt : Nat) (st' : FStore α) (cnt' : Nat), P st →
      fpropagate n ps pol fuel q st cnt = .ok st' cnt' → P st' := by
  intro fuel
  induction fuel with
  | zero => intro q st cnt st' cnt' _ h; simp [fpropagate] at h
  | succ f ih =>
    intro q st cnt st' cnt' hp h
    simp only [fpropagate] at h
    cases hpk : pol.pick q with
    | none =>
      rw [hpk] at h
      simp only [FPRes.ok.injEq] at h
      obtain ⟨rfl, _⟩ := h
      exact hp
    | some pq =>
      obtain ⟨p, q'⟩ := pq
      rw [hpk] at h
      simp only at h
      cases hk : ps[p]? with
      | none => rw [hk] at h; exact ih _ _ _ _ _ hp h
      | some k =>
        rw [hk] at h
        simp only at h
        cases e : k.prune { st := st, ev := [] } with
        | none => rw [e] at h; cases h
        | some c =>
          rw [e] at h
          simp only [FStore.ofArray_tab] at h
          exact ih _ _ _ _ _ (hP k (List.mem_of_getElem? hk) { st := st, ev := [] } c hp e) h

/-- soundness rule: if every propagator succeeds on, and keeps, the stores with property `P`, then
`fpropagate` never fails from such a store and ends in one -/
theorem fpropagate_keeps (n : Nat) (ps : List (FPK α)) (pol : Policy) (P : FStore α → Prop)
    (hP : ∀ k ∈ ps, ∀ (c : FCtx α), P c.st → ∃ c', k.prune c = some c' ∧ P c'.st) :
    ∀ (fuel : Nat) (q : List Nat) (st : FStore α) (cnt : Nat), P st →
      match fpropagate n ps pol fuel q st cnt with
      | .fail => False
      | .fuel => True
      | .ok st' _ => P st' := by
  intro fuel
  induction fuel with
  | zero => intro q st cnt _; simp [fpropagate]
  | succ f ih =>
    intro q st cnt hp
    simp only [fpropagate]
    cases hpk : pol.pick q with
    | none => exact hp
    | some pq =>
      obtain ⟨p, q'⟩ := pq
      simp only
      cases hk : ps[p]? with
      | none => exact ih _ _ _ hp
      | some k =>
        simp only
        obtain ⟨c', e, hp'⟩ := hP k (List.mem_of_getElem? hk) { st := st, ev := [] } hp
        rw [e]
        simp only [FStore.ofArray_tab]
        exact ih _ _ _ hp'

end Generic

/-! ## Part B: exact arithmetic -/

/-! ### equation lemmas of the engine -/

section Eqns
variable {α : Type} [Num α]

theorem fexplore_zero (n : Nat) (pol : Policy) (pf : Nat) (ps : List (FPK α)) (st : FStore α) (pc nc : Nat) :
    fexplore n pol pf 0 ps st pc nc = .fuel := by rw [fexplore]

theorem fexplore_succ (n : Nat) (pol : Policy) (pf f : Nat) (ps : List (FPK α)) (st : FStore α) (pc nc : Nat) :
    fexplore n pol pf (f+1) ps st pc nc =
      match ffirstUnassigned n st with
      | none => .nosol
      | some pivot =>
        match (st pivot).mid with
        | none => .panic
        | some mid =>
          match fbranchStep n pol pf f ps st pc (nc + 2) (branchL pivot mid) with
          | .nosol => fbranchStep n pol pf f ps st pc (nc + 3) (branchR pivot mid)
          | r => r := by
  rw [fexplore]; rfl

theorem fbranchStep_zero (n : Nat) (pol : Policy) (pf : Nat) (ps : List (FPK α)) (st : FStore α) (pc nc : Nat) (bp : FPK α) :
    fbranchStep n pol pf 0 ps st pc nc bp = .fuel := by rw [fbranchStep]

theorem fbranchStep_succ (n : Nat) (pol : Policy) (pf f : Nat) (ps : List (FPK α)) (st : FStore α) (pc nc : Nat) (bp : FPK α) :
    fbranchStep n pol pf (f+1) ps st pc nc bp =
      match fpropagate n (ps ++ [bp]) pol pf [ps.length] st pc with
      | .fail => .nosol
      | .fuel => .pfuel
      | .ok st' pc' =>
        match ffirstUnassigned n st' with
        | none => .sol st' pc' nc
        | some _ => fexplore n pol pf f (ps ++ [bp]) st' pc' nc := by
  rw [fbranchStep]; rfl

end Eqns

/-! ### stores of the search: kinds, validity, "only shrinks" -/

/-- `v'` lies within `v`: same kind; a float interval keeps its step and stays inside the old
bounds; an integer domain is a sub-list -/
def VWithin : FVar Rat → FVar Rat → Prop
  | .flt iv, .flt iv' => iv'.step = iv.step ∧ iv.min ≤ iv'.min ∧ iv'.max ≤ iv.max
  | .int d, .int d' => d'.Sublist d
  | _, _ => False

/-- kind `b` (`true` = float) and, for a float variable, a valid interval -/
def VGood (b : Bool) : FVar Rat → Prop
  | .flt iv => b = true ∧ iv.Valid
  | .int _ => b = false

def Within (st st' : FStore Rat) : Prop := ∀ x, VWithin (st x) (st' x)

/-- a class `G` of well-formed variables (by kind) that is closed under the updates made by the
float-bound arms of `try_set_min/max` and by the integer arms; two instances: `VGood` (valid
intervals, for C06) and `VGrid` (intervals with both ends on the step grid, for termination) -/
structure GClass (G : Bool → FVar Rat → Prop) : Prop where
  flt : ∀ b iv, G b (.flt iv) → b = true ∧ iv.Valid
  int : ∀ b d, G b (.int d) → b = false
  filter : ∀ (d : List Int) (f : Int → Bool), G false (.int d) → (d.filter f).isEmpty = false → G false (.int (d.filter f))
  setMax : ∀ (iv : FI Rat) (m : Rat), G true (.flt iv) →
    G true (.flt { iv with max := if ((m / iv.step).floor : Rat) * iv.step < iv.min then iv.min else ((m / iv.step).floor : Rat) * iv.step })
  setMaxMin : ∀ (iv : FI Rat), G true (.flt iv) → G true (.flt { iv with max := iv.min })
  setMin : ∀ (iv : FI Rat) (m : Rat), G true (.flt iv) →
    G true (.flt { iv with min := if iv.max < ((m / iv.step).ceil : Rat) * iv.step then iv.max else ((m / iv.step).ceil : Rat) * iv.step })

def GoodG (G : Bool → FVar Rat → Prop) (κ : Nat → Bool) (st : FStore Rat) : Prop := ∀ x, G (κ x) (st x)

/-- kinds as `κ`, every float interval valid -/
abbrev GoodK (κ : Nat → Bool) (st : FStore Rat) : Prop := GoodG VGood κ st

theorem vgood_class : GClass VGood where
  flt := fun b iv h => h
  int := fun b d h => h
  filter := fun d f h _ => h
  setMax := fun iv m h => by
    refine ⟨rfl, ?_, h.2.2⟩
    show iv.min ≤ (if ((m / iv.step).floor : Rat) * iv.step < iv.min then iv.min else ((m / iv.step).floor : Rat) * iv.step)
    split
    · exact Rat.le_refl
    · exact Rat.not_lt.mp (by assumption)
  setMaxMin := fun iv h => ⟨rfl, Rat.le_refl, h.2.2⟩
  setMin := fun iv m h => by
    refine ⟨rfl, ?_, h.2.2⟩
    show (if iv.max < ((m / iv.step).ceil : Rat) * iv.step then iv.max else ((m / iv.step).ceil : Rat) * iv.step) ≤ iv.max
    split
    · exact Rat.le_refl
    · exact Rat.not_lt.mp (by assumption)

theorem VWithin.refl (v : FVar Rat) : VWithin v v := by
  cases v with
  | flt iv => exact ⟨rfl, Rat.le_refl, Rat.le_refl⟩
  | int d => exact List.Sublist.refl d

theorem VWithin.trans {u v w : FVar Rat} (h1 : VWithin u v) (h2 : VWithin v w) : VWithin u w := by
  cases u <;> cases v <;> cases w <;> simp only [VWithin] at h1 h2 ⊢
  · exact ⟨h2.1.trans h1.1, Rat.le_trans h1.2.1 h2.2.1, Rat.le_trans h2.2.2 h1.2.2⟩
  · exact h2.trans h1

theorem Within.refl (st : FStore Rat) : Within st st := fun _ => VWithin.refl _
theorem Within.trans {a b c : FStore Rat} (h1 : Within a b) (h2 : Within b c) : Within a c :=
  fun x => VWithin.trans (h1 x) (h2 x)

section GenericG
variable {G : Bool → FVar Rat → Prop}

/-- one successful step keeps good stores good and only shrinks -/
def USh (G : Bool → FVar Rat → Prop) (κ : Nat → Bool) (c c' : FCtx Rat) : Prop :=
  GoodG G κ c.st → GoodG G κ c'.st ∧ Within c.st c'.st

theorem USh.refl (κ : Nat → Bool) (c : FCtx Rat) : USh G κ c c := fun h => ⟨h, Within.refl _⟩
theorem USh.of_eq {κ : Nat → Bool} {c c' : FCtx Rat} (h : c' = c) : USh G κ c c' := by subst h; exact USh.refl _ _
theorem USh.trans {κ : Nat → Bool} {a b c : FCtx Rat} (h1 : USh G κ a b) (h2 : USh G κ b c) : USh G κ a c := by
  intro hg
  obtain ⟨g1, w1⟩ := h1 hg
  obtain ⟨g2, w2⟩ := h2 g1
  exact ⟨g2, w1.trans w2⟩

theorem USh.upd {κ : Nat → Bool} (c : FCtx Rat) (i : Nat) (v' : FVar Rat) (ev : List Nat)
    (h : G (κ i) (c.st i) → G (κ i) v' ∧ VWithin (c.st i) v') : USh G κ c { st := updF c.st i v', ev := ev } := by
  intro hg
  obtain ⟨g, w⟩ := h (hg i)
  constructor
  · intro x
    by_cases hx : x = i
    · subst hx; simpa [updF] using g
    · simpa [updF, hx] using hg x
  · intro x
    by_cases hx : x = i
    · subst hx; simpa [updF] using w
    · simp only [updF, hx, if_false]; exact VWithin.refl _

namespace FCtx

theorem int_upd_ush (hG : GClass G) (κ : Nat → Bool) (c : FCtx Rat) (i : Nat) (d : List Int) (f : Int → Bool) (ev : List Nat)
    (hd : c.st i = .int d) (hne : (d.filter f).isEmpty = false) :
    USh G κ c { st := updF c.st i (.int (d.filter f)), ev := ev } :=
  USh.upd c i _ _ (fun hg => by
    rw [hd] at hg ⊢
    have hb := hG.int _ _ hg
    rw [hb] at hg ⊢
    exact ⟨hG.filter d f hg hne, List.filter_sublist⟩)

theorem intSetMax_ush (hG : GClass G) (κ : Nat → Bool) (c c' : FCtx Rat) (i : Nat) (d : List Int) (m : Int) (r : FVal Rat)
    (hd : c.st i = .int d) (h : c.intSetMax i d m = some (c', r)) : USh G κ c c' := by
  simp only [FCtx.intSetMax] at h
  split at h; · cases h
  split at h
  · split at h; · cases h
    rename_i hne
    cases h
    exact int_upd_ush hG κ c i d _ _ hd (by simpa using hne)
  · cases h; exact USh.refl _ _

theorem intSetMin_ush (hG : GClass G) (κ : Nat → Bool) (c c' : FCtx Rat) (i : Nat) (d : List Int) (m : Int) (r : FVal Rat)
    (hd : c.st i = .int d) (h : c.intSetMin i d m = some (c', r)) : USh G κ c c' := by
  simp only [FCtx.intSetMin] at h
  split at h; · cases h
  split at h
  · split at h; · cases h
    rename_i hne
    cases h
    exact int_upd_ush hG κ c i d _ _ hd (by simpa using hne)
  · cases h; exact USh.refl _ _

/-- a float bound on any variable: (VarF, ValF) and (VarI, ValF) arms of `try_set_max` -/
theorem trySetMax_f_ush (hG : GClass G) (κ : Nat → Bool) (c c' : FCtx Rat) (i : Nat) (m : Rat) (r : FVal Rat)
    (h : c.trySetMax i (.f m) = some (c', r)) : USh G κ c c' := by
  cases hx : c.st i with
  | int d =>
    simp only [FCtx.trySetMax, hx] at h
    exact intSetMax_ush hG κ c c' i d _ r hx h
  | flt iv =>
    intro hg
    have hgi := hg i
    rw [hx] at hgi
    obtain ⟨hb, hv⟩ := hG.flt _ _ hgi
    rw [hb] at hgi
    simp only [FCtx.trySetMax, hx] at h
    have s := fltSetMax_spec c i iv m hv
    rw [h] at s
    revert hg
    show USh G κ c c'
    rcases s with ⟨rfl, _, _⟩ | ⟨rfl, _, _, _, _⟩ | ⟨nm, rfl, _, _, _, _, _, _, hnm⟩
    · exact USh.refl _ _
    · exact USh.upd c i _ _ (fun _ => by
        rw [hx, hb]; exact ⟨hG.setMaxMin iv hgi, rfl, Rat.le_refl, hv.1⟩)
    · exact USh.upd c i _ _ (fun _ => by
        rw [hx, hb]
        refine ⟨?_, rfl, Rat.le_refl, by apply Rat.le_of_lt; assumption⟩
        rw [hnm.2]; exact hG.setMax iv m hgi)

theorem trySetMin_f_ush (hG : GClass G) (κ : Nat → Bool) (c c' : FCtx Rat) (i : Nat) (m : Rat) (r : FVal Rat)
    (h : c.trySetMin i (.f m) = some (c', r)) : USh G κ c c' := by
  cases hx : c.st i with
  | int d =>
    simp only [FCtx.trySetMin, hx] at h
    exact intSetMin_ush hG κ c c' i d _ r hx h
  | flt iv =>
    intro hg
    have hgi := hg i
    rw [hx] at hgi
    obtain ⟨hb, hv⟩ := hG.flt _ _ hgi
    rw [hb] at hgi
    simp only [FCtx.trySetMin, hx] at h
    have s := fltSetMin_spec c i iv m hv
    rw [h] at s
    revert hg
    show USh G κ c c'
    rcases s with ⟨rfl, _, _⟩ | ⟨nm, rfl, _, _, _, _, _, _, _, hnm⟩
    · exact USh.refl _ _
    · exact USh.upd c i _ _ (fun _ => by
        rw [hx, hb]
        refine ⟨?_, rfl, by apply Rat.le_of_lt; assumption, Rat.le_refl⟩
        rw [hnm]; exact hG.setMin iv m hgi)

end FCtx

/-- every successful run of the propagator keeps good stores good and only shrinks domains -/
def ShrinksG (G : Bool → FVar Rat → Prop) (κ : Nat → Bool) (k : FPK Rat) : Prop := ∀ c c', k.prune c = some c' → USh G κ c c'

namespace FPK

theorem setMax_f_ush (hG : GClass G) (κ : Nat → Bool) (x : Nat) (m : Rat) (c c' : FCtx Rat) (h : setMax x (.f m) c = some c') : USh G κ c c' := by
  simp only [setMax, Option.map_eq_some_iff] at h
  obtain ⟨⟨c1, r⟩, h1, rfl⟩ := h
  exact FCtx.trySetMax_f_ush hG κ c c1 x m r h1

theorem setMin_f_ush (hG : GClass G) (κ : Nat → Bool) (x : Nat) (m : Rat) (c c' : FCtx Rat) (h : setMin x (.f m) c = some c') : USh G κ c c' := by
  simp only [setMin, Option.map_eq_some_iff] at h
  obtain ⟨⟨c1, r⟩, h1, rfl⟩ := h
  exact FCtx.trySetMin_f_ush hG κ c c1 x m r h1

theorem forIdx_ush {β : Type} (κ : Nat → Bool) (f : Nat → β → FCtx Rat → Option (FCtx Rat))
    (hf : ∀ k b c c', f k b c = some c' → USh G κ c c') :
    ∀ (l : List β) (k : Nat) (c c' : FCtx Rat), forIdx f k l c = some c' → USh G κ c c' := by
  intro l
  induction l with
  | nil => intro k c c' h; simp [forIdx] at h; exact USh.of_eq h.symm
  | cons b bs ih =>
    intro k c c' h
    simp only [forIdx] at h
    split at h; · simp at h
    rename_i c1 h1
    exact USh.trans (hf k b c c1 h1) (ih (k + 1) c1 c' h)

theorem linLeStep_ush (hG : GClass G) (κ : Nat → Bool) (cs : List Rat) (xs : List Nat) (cst : Rat) (k : Nat) (b : Rat × Nat) (c c' : FCtx Rat)
    (h : linLeStep cs xs cst k b c = some c') : USh G κ c c' := by
  simp only [linLeStep] at h
  repeat' (split at h)
  all_goals first
    | exact setMax_f_ush hG κ _ _ c c' h
    | exact setMin_f_ush hG κ _ _ c c' h
    | (cases h; exact USh.refl _ _)

theorem linEqStep_ush (hG : GClass G) (κ : Nat → Bool) (helper : Bool) (cs : List Rat) (xs : List Nat) (cst : Rat) (k : Nat) (b : Rat × Nat)
    (c c' : FCtx Rat) (h : linEqStep helper cs xs cst k b c = some c') : USh G κ c c' := by
  simp only [linEqStep] at h
  split at h; · simp at h; exact USh.of_eq h.symm
  split at h; · simp at h; exact USh.of_eq h.symm
  split at h; · simp at h; exact USh.of_eq h.symm
  split at h; · simp at h
  rename_i c1 h1
  exact USh.trans (setMin_f_ush hG κ _ _ c c1 h1) (setMax_f_ush hG κ _ _ c1 c' h)

end FPK

theorem shrinksG_linLe (hG : GClass G) (κ : Nat → Bool) (cs : List Rat) (xs : List Nat) (cst : Rat) : ShrinksG G κ (.linLe cs xs cst) :=
  fun c c' h => FPK.forIdx_ush κ _ (FPK.linLeStep_ush hG κ cs xs cst) _ 0 c c' h

theorem shrinksG_linEq (hG : GClass G) (κ : Nat → Bool) (cs : List Rat) (xs : List Nat) (cst : Rat) : ShrinksG G κ (.linEq cs xs cst) :=
  fun c c' h => FPK.forIdx_ush κ _ (FPK.linEqStep_ush hG κ false cs xs cst) _ 0 c c' h

/-- the kind of the value `Var::mid` returns is the kind of the variable -/
theorem mid_kind (v : FVar Rat) (m : FVal Rat) (h : v.mid = some m) :
    (∃ iv r, v = .flt iv ∧ m = .f r) ∨ (∃ d z, v = .int d ∧ m = .i z) := by
  cases v with
  | flt iv =>
    simp only [FVar.mid, Option.map_eq_some_iff] at h
    obtain ⟨r, _, rfl⟩ := h
    exact Or.inl ⟨iv, r, rfl, rfl⟩
  | int d =>
    simp only [FVar.mid, Option.some.injEq] at h
    exact Or.inr ⟨d, _, rfl, h.symm⟩

theorem FView.maxRaw_const (st : FStore Rat) (k : FVal Rat) : FView.maxRaw st (.const k) = k := by simp [FView.maxRaw]
theorem FView.minRaw_const (st : FStore Rat) (k : FVal Rat) : FView.minRaw st (.const k) = k := by simp [FView.minRaw]
theorem FView.maxRaw_var (st : FStore Rat) (i : Nat) : FView.maxRaw st (.var i) = st.vmax i := by simp [FView.maxRaw]
theorem FView.minRaw_var (st : FStore Rat) (i : Nat) : FView.minRaw st (.var i) = st.vmin i := by simp [FView.minRaw]
theorem FView.minRaw_next_const_f (st : FStore Rat) (m : Rat) : FView.minRaw st (.next (.const (.f m))) = .f m := by
  simp [FView.minRaw, FView.stepUp, FView.ivOf, FView.underlying]
theorem FView.minRaw_next_const_i (st : FStore Rat) (m : Int) : FView.minRaw st (.next (.const (.i m))) = .i (m + 1) := by
  simp [FView.minRaw, FView.stepUp, FView.ivOf, FView.underlying]

/-- what the left branch does: `try_set_max(pivot, mid)`, then the test `min(pivot) <= mid` -/
theorem branchL_prune (p : Nat) (mid : FVal Rat) (c c' : FCtx Rat) (h : (branchL p mid).prune c = some c') :
    ∃ r, c.trySetMax p mid = some (c', r) := by
  simp only [branchL, FPK.prune, FView.maxRaw_const, FView.trySetMax, FView.trySetMin] at h
  split at h; · simp at h
  rename_i c1 r1 h1
  simp only [Option.map_eq_some_iff] at h
  obtain ⟨⟨c2, r2⟩, h2, rfl⟩ := h
  by_cases hc : (FView.minRaw c1.st (FView.var p)).vle mid = true
  · rw [if_pos hc] at h2; simp at h2; obtain ⟨rfl, _⟩ := h2; exact ⟨r1, h1⟩
  · rw [if_neg hc] at h2; simp at h2

/-- what the right branch does: a test on `max(pivot)`, then `try_set_min(pivot, Next(mid).min)` -/
theorem branchR_prune (p : Nat) (mid : FVal Rat) (c c' : FCtx Rat) (h : (branchR p mid).prune c = some c') :
    ∃ r, c.trySetMin p (FView.minRaw c.st (.next (.const mid))) = some (c', r) := by
  simp only [branchR, FPK.prune, FView.trySetMax, FView.trySetMin] at h
  split at h; · simp at h
  rename_i c1 r1 h1
  simp only [Option.map_eq_some_iff] at h
  obtain ⟨⟨c2, r2⟩, h2, rfl⟩ := h
  by_cases hc : (FView.nextTarget c.st (FView.const mid) (FView.maxRaw c.st (FView.var p))).vge mid = true
  · rw [if_pos hc] at h1; simp at h1; obtain ⟨rfl, _⟩ := h1; exact ⟨r2, h2⟩
  · rw [if_neg hc] at h1; simp at h1

/-- left branch `pivot <= mid` with a float `mid` -/
theorem shrinks_branchL_f (hG : GClass G) (κ : Nat → Bool) (p : Nat) (m : Rat) : ShrinksG G κ (branchL p (.f m)) := by
  intro c c' h
  obtain ⟨r, hr⟩ := branchL_prune p _ c c' h
  exact FCtx.trySetMax_f_ush hG κ c c' p m r hr

/-- right branch `Next(mid) <= pivot` with a float `mid`, i.e. `pivot >= mid` -/
theorem shrinks_branchR_f (hG : GClass G) (κ : Nat → Bool) (p : Nat) (m : Rat) : ShrinksG G κ (branchR p (.f m)) := by
  intro c c' h
  obtain ⟨r, hr⟩ := branchR_prune p _ c c' h
  rw [FView.minRaw_next_const_f] at hr
  exact FCtx.trySetMin_f_ush hG κ c c' p m r hr

theorem goodG_int (hG : GClass G) {κ : Nat → Bool} {st : FStore Rat} (hg : GoodG G κ st) {p : Nat} (hp : κ p = false) :
    ∃ d, st p = .int d := by
  have := hg p
  cases hx : st p with
  | int d => exact ⟨d, rfl⟩
  | flt iv => rw [hx] at this; have := (hG.flt _ _ this).1; rw [hp] at this; cases this

theorem goodG_flt (hG : GClass G) {κ : Nat → Bool} {st : FStore Rat} (hg : GoodG G κ st) {p : Nat} (hp : κ p = true) :
    ∃ iv, st p = .flt iv ∧ iv.Valid ∧ G true (.flt iv) := by
  have := hg p
  cases hx : st p with
  | int d => rw [hx] at this; have := hG.int _ _ this; rw [hp] at this; cases this
  | flt iv => rw [hx, hp] at this; exact ⟨iv, rfl, (hG.flt _ _ this).2, this⟩

/-- left branch with an integer `mid` on an integer variable -/
theorem shrinks_branchL_i (hG : GClass G) (κ : Nat → Bool) (p : Nat) (m : Int) (hp : κ p = false) :
    ShrinksG G κ (branchL p (.i m)) := by
  intro c c' h hg
  obtain ⟨r, hr⟩ := branchL_prune p _ c c' h
  obtain ⟨d, hd⟩ := goodG_int hG hg hp
  simp only [FCtx.trySetMax, hd] at hr
  exact FCtx.intSetMax_ush hG κ c c' p d m r hd hr hg

/-- right branch with an integer `mid` on an integer variable: `pivot >= mid + 1` -/
theorem shrinks_branchR_i (hG : GClass G) (κ : Nat → Bool) (p : Nat) (m : Int) (hp : κ p = false) :
    ShrinksG G κ (branchR p (.i m)) := by
  intro c c' h hg
  obtain ⟨r, hr⟩ := branchR_prune p _ c c' h
  rw [FView.minRaw_next_const_i] at hr
  obtain ⟨d, hd⟩ := goodG_int hG hg hp
  simp only [FCtx.trySetMin, hd] at hr
  exact FCtx.intSetMin_ush hG κ c c' p d (m + 1) r hd hr hg

/-- both branch constraints of a split of variable `p` of a good store shrink -/
theorem shrinks_branches (hG : GClass G) (κ : Nat → Bool) (st : FStore Rat) (hg : GoodG G κ st) (p : Nat) (mid : FVal Rat)
    (hm : (st p).mid = some mid) : ShrinksG G κ (branchL p mid) ∧ ShrinksG G κ (branchR p mid) := by
  rcases mid_kind (st p) mid hm with ⟨iv, r, hx, rfl⟩ | ⟨d, z, hx, rfl⟩
  · exact ⟨shrinks_branchL_f hG κ p r, shrinks_branchR_f hG κ p r⟩
  · have hp : κ p = false := by
      have := hg p; rw [hx] at this; exact hG.int _ _ this
    exact ⟨shrinks_branchL_i hG κ p z hp, shrinks_branchR_i hG κ p z hp⟩

/-! ### step relations: every propagator is a composition of elementary bound updates

`StepRel κ R`: the relation `R` on contexts is reflexive, transitive and holds for a float bound on
any variable and for an integer bound on an integer variable (`κ b = false`).  Then `R` relates
input and output of every `FloatLin*` propagator (reified ones: the reification variable must be an
integer variable) and of the branching constraints.  Instances: `USh G κ` (good stores stay good and
only shrink) and, in Lemmas/FloatTermination.lean, its strict refinement `UG κ`. -/

structure StepRel (κ : Nat → Bool) (R : FCtx Rat → FCtx Rat → Prop) : Prop where
  refl : ∀ c, R c c
  trans : ∀ {a b c}, R a b → R b c → R a c
  maxF : ∀ x m c c' r, FCtx.trySetMax c x (.f m) = some (c', r) → R c c'
  minF : ∀ x m c c' r, FCtx.trySetMin c x (.f m) = some (c', r) → R c c'
  maxI : ∀ b, κ b = false → ∀ k c c' r, FCtx.trySetMax c b (.i k) = some (c', r) → R c c'
  minI : ∀ b, κ b = false → ∀ k c c' r, FCtx.trySetMin c b (.i k) = some (c', r) → R c c'

/-- `R` relates input and output of every successful run of the propagator -/
def PruneRel (R : FCtx Rat → FCtx Rat → Prop) (k : FPK Rat) : Prop := ∀ c c', k.prune c = some c' → R c c'

theorem ushRel (hG : GClass G) (κ : Nat → Bool) : StepRel κ (USh G κ) where
  refl := USh.refl κ
  trans := USh.trans
  maxF := fun x m c c' r h => FCtx.trySetMax_f_ush hG κ c c' x m r h
  minF := fun x m c c' r h => FCtx.trySetMin_f_ush hG κ c c' x m r h
  maxI := fun b hb k c c' r h hg => by
    obtain ⟨d, hd⟩ := goodG_int hG hg hb
    simp only [FCtx.trySetMax, hd] at h
    exact FCtx.intSetMax_ush hG κ c c' b d k r hd h hg
  minI := fun b hb k c c' r h hg => by
    obtain ⟨d, hd⟩ := goodG_int hG hg hb
    simp only [FCtx.trySetMin, hd] at h
    exact FCtx.intSetMin_ush hG κ c c' b d k r hd h hg

section StepRelLemmas
variable {κ : Nat → Bool} {R : FCtx Rat → FCtx Rat → Prop}

theorem StepRel.of_eq (hR : StepRel κ R) {c c' : FCtx Rat} (h : c' = c) : R c c' := by subst h; exact hR.refl _

namespace FPK

theorem setMax_f_rel (hR : StepRel κ R) (x : Nat) (m : Rat) (c c' : FCtx Rat) (h : setMax x (.f m) c = some c') : R c c' := by
  simp only [setMax, Option.map_eq_some_iff] at h
  obtain ⟨⟨c1, r⟩, h1, rfl⟩ := h
  exact hR.maxF x m c c1 r h1

theorem setMin_f_rel (hR : StepRel κ R) (x : Nat) (m : Rat) (c c' : FCtx Rat) (h : setMin x (.f m) c = some c') : R c c' := by
  simp only [setMin, Option.map_eq_some_iff] at h
  obtain ⟨⟨c1, r⟩, h1, rfl⟩ := h
  exact hR.minF x m c c1 r h1

theorem forIdx_rel' {β : Type} (hR : StepRel κ R) (f : Nat → β → FCtx Rat → Option (FCtx Rat))
    (hf : ∀ k b c c', f k b c = some c' → R c c') :
    ∀ (l : List β) (k : Nat) (c c' : FCtx Rat), forIdx f k l c = some c' → R c c' := by
  intro l
  induction l with
  | nil => intro k c c' h; simp [forIdx] at h; exact hR.of_eq h.symm
  | cons b bs ih =>
    intro k c c' h
    simp only [forIdx] at h
    split at h; · simp at h
    rename_i c1 h1
    exact hR.trans (hf k b c c1 h1) (ih (k + 1) c1 c' h)

theorem linLeStep_rel' (hR : StepRel κ R) (cs : List Rat) (xs : List Nat) (cst : Rat) (k : Nat) (b : Rat × Nat) (c c' : FCtx Rat)
    (h : linLeStep cs xs cst k b c = some c') : R c c' := by
  simp only [linLeStep] at h
  repeat' (split at h)
  all_goals first
    | exact setMax_f_rel hR _ _ c c' h
    | exact setMin_f_rel hR _ _ c c' h
    | (cases h; exact hR.refl _)

theorem linLeHelperStep_rel' (hR : StepRel κ R) (cs : List Rat) (xs : List Nat) (cst : Rat) (k : Nat) (b : Rat × Nat)
    (c c' : FCtx Rat) (h : linLeHelperStep cs xs cst k b c = some c') : R c c' := by
  simp only [linLeHelperStep] at h
  split at h; · simp at h; exact hR.of_eq h.symm
  split at h; · simp at h; exact hR.of_eq h.symm
  split at h
  · exact setMax_f_rel hR _ _ c c' h
  · exact setMin_f_rel hR _ _ c c' h

theorem linEqStep_rel' (hR : StepRel κ R) (helper : Bool) (cs : List Rat) (xs : List Nat) (cst : Rat) (k : Nat) (b : Rat × Nat)
    (c c' : FCtx Rat) (h : linEqStep helper cs xs cst k b c = some c') : R c c' := by
  simp only [linEqStep] at h
  split at h; · simp at h; exact hR.of_eq h.symm
  split at h; · simp at h; exact hR.of_eq h.symm
  split at h; · simp at h; exact hR.of_eq h.symm
  split at h; · simp at h
  rename_i c1 h1
  exact hR.trans (setMin_f_rel hR _ _ c c1 h1) (setMax_f_rel hR _ _ c1 c' h)

/-- `exclude_value` with a float value -/
theorem excludeValue_f_rel (hR : StepRel κ R) (x : Nat) (t : Rat) (c c' : FCtx Rat)
    (h : excludeValue x (.f t) c = some c') : R c c' := by
  simp only [excludeValue] at h
  split at h; · simp at h; exact hR.of_eq h.symm
  split at h; · simp at h
  split at h; · exact setMin_f_rel hR _ _ c c' h
  split at h; · exact setMax_f_rel hR _ _ c c' h
  simp at h; exact hR.of_eq h.symm

theorem linNePrune_rel' (hR : StepRel κ R) (cs : List Rat) (xs : List Nat) (cst : Rat) (c c' : FCtx Rat)
    (h : linNePrune cs xs cst c = some c') : R c c' := by
  simp only [linNePrune] at h
  split at h
  · simp at h; exact hR.of_eq h.symm
  · split at h <;> simp at h; exact hR.of_eq h.symm
  · split at h
    · split at h
      · split at h <;> simp at h; exact hR.of_eq h.symm
      · exact excludeValue_f_rel hR _ _ c c' h
    · simp at h; exact hR.of_eq h.symm

theorem fixReif_rel' (hR : StepRel κ R) (b : Nat) (hb : κ b = false) (k : Int) (c c' : FCtx Rat)
    (h : fixReif b k c = some c') : R c c' := by
  simp only [fixReif] at h
  split at h; · simp at h
  rename_i c1 h1
  simp only [setMin, Option.map_eq_some_iff] at h1
  obtain ⟨⟨c1', r1⟩, h1', rfl⟩ := h1
  simp only [setMax, Option.map_eq_some_iff] at h
  obtain ⟨⟨c2', r2⟩, h2', rfl⟩ := h
  exact hR.trans (hR.minI b hb k c c1' r1 h1') (hR.maxI b hb k c1' c2' r2 h2')

end FPK

theorem pruneRel_linLe (hR : StepRel κ R) (cs : List Rat) (xs : List Nat) (cst : Rat) : PruneRel R (.linLe cs xs cst) :=
  fun c c' h => FPK.forIdx_rel' hR _ (FPK.linLeStep_rel' hR cs xs cst) _ 0 c c' h

theorem pruneRel_linEq (hR : StepRel κ R) (cs : List Rat) (xs : List Nat) (cst : Rat) : PruneRel R (.linEq cs xs cst) :=
  fun c c' h => FPK.forIdx_rel' hR _ (FPK.linEqStep_rel' hR false cs xs cst) _ 0 c c' h

theorem pruneRel_linNe (hR : StepRel κ R) (cs : List Rat) (xs : List Nat) (cst : Rat) : PruneRel R (.linNe cs xs cst) :=
  fun c c' h => FPK.linNePrune_rel' hR cs xs cst c c' h

/-- reified rows: the reification variable must be an integer variable -/
theorem pruneRel_linEqReif (hR : StepRel κ R) (cs : List Rat) (xs : List Nat) (cst : Rat) (b : Nat) (hb : κ b = false) :
    PruneRel R (.linEqReif cs xs cst b) := by
  intro c c' h
  simp only [FPK.prune] at h
  split at h; · exact FPK.forIdx_rel' hR _ (FPK.linEqStep_rel' hR true cs xs cst) _ 0 c c' h
  split at h
  · split at h
    · split at h <;> simp at h; exact hR.of_eq h.symm
    · simp at h; exact hR.of_eq h.symm
  · split at h
    · split at h <;> exact FPK.fixReif_rel' hR b hb _ c c' h
    · simp at h; exact hR.of_eq h.symm

theorem pruneRel_linLeReif (hR : StepRel κ R) (cs : List Rat) (xs : List Nat) (cst : Rat) (b : Nat) (hb : κ b = false) :
    PruneRel R (.linLeReif cs xs cst b) := by
  intro c c' h
  simp only [FPK.prune] at h
  split at h; · exact FPK.forIdx_rel' hR _ (FPK.linLeHelperStep_rel' hR cs xs cst) _ 0 c c' h
  split at h
  · split at h
    · split at h <;> simp at h; exact hR.of_eq h.symm
    · simp at h; exact hR.of_eq h.symm
  · split at h; · exact FPK.fixReif_rel' hR b hb _ c c' h
    split at h; · exact FPK.fixReif_rel' hR b hb _ c c' h
    simp at h; exact hR.of_eq h.symm

theorem pruneRel_linNeReif (hR : StepRel κ R) (cs : List Rat) (xs : List Nat) (cst : Rat) (b : Nat) (hb : κ b = false) :
    PruneRel R (.linNeReif cs xs cst b) := by
  intro c c' h
  simp only [FPK.prune] at h
  split at h; · exact FPK.linNePrune_rel' hR cs xs cst c c' h
  split at h; · exact FPK.forIdx_rel' hR _ (FPK.linEqStep_rel' hR true cs xs cst) _ 0 c c' h
  split at h
  · split at h <;> exact FPK.fixReif_rel' hR b hb _ c c' h
  · simp at h; exact hR.of_eq h.symm

/-- both branch constraints of a split of variable `p`, given the kind of `mid` matches `κ p` -/
theorem pruneRel_branches (hR : StepRel κ R) (p : Nat) (mid : FVal Rat)
    (hk : (∃ r, mid = .f r) ∨ ((∃ z, mid = .i z) ∧ κ p = false)) :
    PruneRel R (branchL p mid) ∧ PruneRel R (branchR p mid) := by
  rcases hk with ⟨r, rfl⟩ | ⟨⟨z, rfl⟩, hp⟩
  · constructor
    · intro c c' h
      obtain ⟨r', hr⟩ := branchL_prune p _ c c' h
      exact hR.maxF p r c c' r' hr
    · intro c c' h
      obtain ⟨r', hr⟩ := branchR_prune p _ c c' h
      rw [FView.minRaw_next_const_f] at hr
      exact hR.minF p r c c' r' hr
  · constructor
    · intro c c' h
      obtain ⟨r', hr⟩ := branchL_prune p _ c c' h
      exact hR.maxI p hp z c c' r' hr
    · intro c c' h
      obtain ⟨r', hr⟩ := branchR_prune p _ c c' h
      rw [FView.minRaw_next_const_i] at hr
      exact hR.minI p hp (z + 1) c c' r' hr

end StepRelLemmas

/-- `FloatLinNe` shrinks (any class of good stores) -/
theorem shrinksG_linNe (hG : GClass G) (κ : Nat → Bool) (cs : List Rat) (xs : List Nat) (cst : Rat) : ShrinksG G κ (.linNe cs xs cst) :=
  pruneRel_linNe (ushRel hG κ) cs xs cst
/-- the reified float rows shrink when the reification variable is an integer variable -/
theorem shrinksG_linEqReif (hG : GClass G) (κ : Nat → Bool) (cs : List Rat) (xs : List Nat) (cst : Rat) (b : Nat) (hb : κ b = false) :
    ShrinksG G κ (.linEqReif cs xs cst b) := pruneRel_linEqReif (ushRel hG κ) cs xs cst b hb
theorem shrinksG_linLeReif (hG : GClass G) (κ : Nat → Bool) (cs : List Rat) (xs : List Nat) (cst : Rat) (b : Nat) (hb : κ b = false) :
    ShrinksG G κ (.linLeReif cs xs cst b) := pruneRel_linLeReif (ushRel hG κ) cs xs cst b hb
theorem shrinksG_linNeReif (hG : GClass G) (κ : Nat → Bool) (cs : List Rat) (xs : List Nat) (cst : Rat) (b : Nat) (hb : κ b = false) :
    ShrinksG G κ (.linNeReif cs xs cst b) := pruneRel_linNeReif (ushRel hG κ) cs xs cst b hb

/-! ### the leaf reached by the search: a good store inside the root store at which every
propagator of the path is stable -/

/-- what is known about a leaf `leaf` below a node `(ps, st)` -/
structure LeafOfG (G : Bool → FVar Rat → Prop) (n : Nat) (κ : Nat → Bool) (ps : List (FPK Rat)) (st leaf : FStore Rat) : Prop where
  good : GoodG G κ leaf
  within : Within st leaf
  assigned : ffirstUnassigned n leaf = none
  stable : ∀ k ∈ ps, FStable k leaf

theorem mem_of_getElem?' {l : List (FPK Rat)} {k : FPK Rat} (h : k ∈ l) : ∃ p : Nat, l[p]? = some k := by
  obtain ⟨p, hp, rfl⟩ := List.getElem_of_mem h
  exact ⟨p, by simp [hp]⟩

/-- the loop invariant of the agenda when only the new branch constraint is scheduled: the old
propagators are stable at the node's store -/
theorem fagendaInv_branch (ps : List (FPK Rat)) (bp : FPK Rat) (st : FStore Rat) (hst : ∀ k ∈ ps, FStable k st) :
    FAgendaInv (ps ++ [bp]) [ps.length] st := by
  intro p k hk hn
  by_cases hp : p < ps.length
  · rw [List.getElem?_append_left hp] at hk
    exact hst k (List.mem_of_getElem? hk)
  · have : p ≠ ps.length := by simpa using hn
    rw [List.getElem?_eq_none (by simp; omega)] at hk; cases hk

theorem search_leafG (hG : GClass G) (n : Nat) (κ : Nat → Bool) (pol : Policy) (pf : Nat) :
    ∀ (fuel : Nat),
      (∀ (ps : List (FPK Rat)) (st : FStore Rat) (pc nc : Nat) (leaf : FStore Rat) (pc' nc' : Nat),
        (∀ k ∈ ps, ShrinksG G κ k) → GoodG G κ st → (∀ k ∈ ps, FStable k st) →
        fexplore n pol pf fuel ps st pc nc = .sol leaf pc' nc' → LeafOfG G n κ ps st leaf) ∧
      (∀ (ps : List (FPK Rat)) (st : FStore Rat) (pc nc : Nat) (bp : FPK Rat) (leaf : FStore Rat) (pc' nc' : Nat),
        (∀ k ∈ ps, ShrinksG G κ k) → ShrinksG G κ bp → GoodG G κ st → (∀ k ∈ ps, FStable k st) →
        fbranchStep n pol pf fuel ps st pc nc bp = .sol leaf pc' nc' → LeafOfG G n κ (ps ++ [bp]) st leaf) := by
  intro fuel
  induction fuel with
  | zero =>
    constructor
    · intro ps st pc nc leaf pc' nc' _ _ _ h; rw [fexplore_zero] at h; cases h
    · intro ps st pc nc bp leaf pc' nc' _ _ _ _ h; rw [fbranchStep_zero] at h; cases h
  | succ f ih =>
    constructor
    · intro ps st pc nc leaf pc' nc' hsh hg hst h
      rw [fexplore_succ] at h
      cases hu : ffirstUnassigned n st with
      | none => rw [hu] at h; cases h
      | some pivot =>
        rw [hu] at h
        simp only at h
        cases hm : (st pivot).mid with
        | none => rw [hm] at h; cases h
        | some mid =>
          rw [hm] at h
          simp only at h
          obtain ⟨shL, shR⟩ := shrinks_branches hG κ st hg pivot mid hm
          cases hl : fbranchStep n pol pf f ps st pc (nc + 2) (branchL pivot mid) with
          | sol lf a b =>
            rw [hl] at h
            simp only [FRes.sol.injEq] at h
            obtain ⟨rfl, rfl, rfl⟩ := h
            have := ih.2 ps st pc (nc + 2) _ lf a b hsh shL hg hst hl
            exact ⟨this.good, this.within, this.assigned, fun k hk => this.stable k (List.mem_append_left _ hk)⟩
          | nosol =>
            rw [hl] at h
            simp only at h
            have := ih.2 ps st pc (nc + 3) _ leaf pc' nc' hsh shR hg hst h
            exact ⟨this.good, this.within, this.assigned, fun k hk => this.stable k (List.mem_append_left _ hk)⟩
          | fuel => rw [hl] at h; cases h
          | pfuel => rw [hl] at h; cases h
          | panic => rw [hl] at h; cases h
    · intro ps st pc nc bp leaf pc' nc' hsh hbp hg hst h
      rw [fbranchStep_succ] at h
      have hall : ∀ k ∈ ps ++ [bp], ShrinksG G κ k := by
        intro k hk
        rcases List.mem_append.1 hk with hk | hk
        · exact hsh k hk
        · have : k = bp := by simpa using hk
          subst this; exact hbp
      cases hp : fpropagate n (ps ++ [bp]) pol pf [ps.length] st pc with
      | fail => rw [hp] at h; cases h
      | fuel => rw [hp] at h; cases h
      | ok st' pc1 =>
        rw [hp] at h
        simp only at h
        -- invariants of the propagation
        have inv := fpropagate_inv n (ps ++ [bp]) pol (fun s => GoodG G κ s ∧ Within st s)
          (fun k hk c c' hc hr => by
            obtain ⟨g, w⟩ := hall k hk c c' hr hc.1
            exact ⟨g, hc.2.trans w⟩) pf [ps.length] st pc st' pc1 ⟨hg, Within.refl _⟩ hp
        have fix := fpropagate_fixpoint n (ps ++ [bp]) pol pf [ps.length] st pc st' pc1 (fagendaInv_branch ps bp st hst) hp
        have hst' : ∀ k ∈ ps ++ [bp], FStable k st' := by
          intro k hk
          obtain ⟨p, hp'⟩ := mem_of_getElem?' hk
          exact fix p k hp'
        cases hu : ffirstUnassigned n st' with
        | none =>
          rw [hu] at h
          simp only [FRes.sol.injEq] at h
          obtain ⟨rfl, rfl, rfl⟩ := h
          exact ⟨inv.1, inv.2, hu, hst'⟩
        | some q =>
          rw [hu] at h
          simp only at h
          have := ih.1 (ps ++ [bp]) st' pc1 nc leaf pc' nc' hall inv.1 hst' h
          exact ⟨this.good, inv.2.trans this.within, this.assigned, this.stable⟩

/-- **the leaf of `fsolve`**: a good store inside the declared one, all of the first `n` variables
assigned, every posted propagator stable -/
theorem fsolve_leafG (hG : GClass G) (n : Nat) (κ : Nat → Bool) (pol : Policy) (pf fuel : Nat) (ps : List (FPK Rat)) (st0 : FStore Rat)
    (hsh : ∀ k ∈ ps, ShrinksG G κ k) (hg : GoodG G κ st0) (leaf : FStore Rat) (pc nc : Nat)
    (h : fsolve n pol pf fuel ps st0 = .sol leaf pc nc) : LeafOfG G n κ ps st0 leaf := by
  simp only [fsolve] at h
  cases hp : fpropagate n ps pol pf (List.range ps.length) st0 0 with
  | fail => rw [hp] at h; cases h
  | fuel => rw [hp] at h; cases h
  | ok st' pc1 =>
    rw [hp] at h
    simp only at h
    have inv := fpropagate_inv n ps pol (fun s => GoodG G κ s ∧ Within st0 s)
      (fun k hk c c' hc hr => by
        obtain ⟨g, w⟩ := hsh k hk c c' hr hc.1
        exact ⟨g, hc.2.trans w⟩) pf _ st0 0 st' pc1 ⟨hg, Within.refl _⟩ hp
    have fix := fpropagate_fixpoint n ps pol pf _ st0 0 st' pc1 (fagendaInv_all ps st0) hp
    have hst' : ∀ k ∈ ps, FStable k st' := by
      intro k hk
      obtain ⟨p, hp'⟩ := mem_of_getElem?' hk
      exact fix p k hp'
    cases hu : ffirstUnassigned n st' with
    | none =>
      rw [hu] at h
      simp only [FRes.sol.injEq] at h
      obtain ⟨rfl, rfl, rfl⟩ := h
      exact ⟨inv.1, inv.2, hu, hst'⟩
    | some q =>
      rw [hu] at h
      simp only at h
      have := (search_leafG hG n κ pol pf fuel).1 ps st' pc1 0 leaf pc nc hsh inv.1 hst' h
      exact ⟨this.good, inv.2.trans this.within, this.assigned, this.stable⟩

end GenericG

/-- every successful run of the propagator keeps valid stores valid and only shrinks domains -/
abbrev Shrinks (κ : Nat → Bool) (k : FPK Rat) : Prop := ShrinksG VGood κ k
abbrev LeafOf (n : Nat) (κ : Nat → Bool) (ps : List (FPK Rat)) (st leaf : FStore Rat) : Prop := LeafOfG VGood n κ ps st leaf

theorem shrinks_linLe (κ : Nat → Bool) (cs : List Rat) (xs : List Nat) (cst : Rat) : Shrinks κ (.linLe cs xs cst) :=
  shrinksG_linLe vgood_class κ cs xs cst
theorem shrinks_linEq (κ : Nat → Bool) (cs : List Rat) (xs : List Nat) (cst : Rat) : Shrinks κ (.linEq cs xs cst) :=
  shrinksG_linEq vgood_class κ cs xs cst
theorem shrinks_linNe (κ : Nat → Bool) (cs : List Rat) (xs : List Nat) (cst : Rat) : Shrinks κ (.linNe cs xs cst) :=
  shrinksG_linNe vgood_class κ cs xs cst
theorem shrinks_linEqReif (κ : Nat → Bool) (cs : List Rat) (xs : List Nat) (cst : Rat) (b : Nat) (hb : κ b = false) :
    Shrinks κ (.linEqReif cs xs cst b) := shrinksG_linEqReif vgood_class κ cs xs cst b hb
theorem shrinks_linLeReif (κ : Nat → Bool) (cs : List Rat) (xs : List Nat) (cst : Rat) (b : Nat) (hb : κ b = false) :
    Shrinks κ (.linLeReif cs xs cst b) := shrinksG_linLeReif vgood_class κ cs xs cst b hb
theorem shrinks_linNeReif (κ : Nat → Bool) (cs : List Rat) (xs : List Nat) (cst : Rat) (b : Nat) (hb : κ b = false) :
    Shrinks κ (.linNeReif cs xs cst b) := shrinksG_linNeReif vgood_class κ cs xs cst b hb

/-- **the leaf of `fsolve`**: a valid store inside the declared one, all of the first `n` variables
assigned, every posted propagator stable -/
theorem fsolve_leaf (n : Nat) (κ : Nat → Bool) (pol : Policy) (pf fuel : Nat) (ps : List (FPK Rat)) (st0 : FStore Rat)
    (hsh : ∀ k ∈ ps, Shrinks κ k) (hg : GoodK κ st0) (leaf : FStore Rat) (pc nc : Nat)
    (h : fsolve n pol pf fuel ps st0 = .sol leaf pc nc) : LeafOf n κ ps st0 leaf :=
  fsolve_leafG vgood_class n κ pol pf fuel ps st0 hsh hg leaf pc nc h

/-! ### witnesses: propagators and branch constraints that keep a point of the store -/

def FVar.isFlt {α : Type} : FVar α → Bool
  | .flt _ => true
  | .int _ => false

/-- the kinds of the variables are those of `κ` (`true` = float) -/
def KindsAs (κ : Nat → Bool) (st : FStore Rat) : Prop := ∀ x, (st x).isFlt = κ x

theorem kindsAs_of_rel {κ : Nat → Bool} {c c' : FCtx Rat} (h : Rel c c') (hk : KindsAs κ c.st) : KindsAs κ c'.st := by
  intro x
  have := h.1 x
  rw [← hk x]
  cases h1 : c.st x <;> cases h2 : c'.st x <;> simp_all [KindSub, FVar.isFlt]

/-- the witness `a` (steps `σ`) lies in the store and the kinds are `κ` -/
def WitIn (κ : Nat → Bool) (a σ : Nat → Rat) (st : FStore Rat) : Prop := FMem st a σ ∧ KindsAs κ st

/-- the propagator never fails on, and never removes, the witness -/
def Keeps (κ : Nat → Bool) (a σ : Nat → Rat) (k : FPK Rat) : Prop :=
  ∀ c : FCtx Rat, WitIn κ a σ c.st → ∃ c', k.prune c = some c' ∧ FMem c'.st a σ

theorem Keeps.witIn {κ : Nat → Bool} {a σ : Nat → Rat} {k : FPK Rat} (h : Keeps κ a σ k) (c : FCtx Rat)
    (hw : WitIn κ a σ c.st) : ∃ c', k.prune c = some c' ∧ WitIn κ a σ c'.st := by
  obtain ⟨c', e, m⟩ := h c hw
  exact ⟨c', e, m, kindsAs_of_rel (FPK.prune_rel k c c' e) hw.2⟩

theorem branchL_prune_of (p : Nat) (mid : FVal Rat) (c c1 : FCtx Rat) (r : FVal Rat)
    (hmax : c.trySetMax p mid = some (c1, r)) (hle : (FView.minRaw c1.st (.var p)).vle mid = true) :
    (branchL p mid).prune c = some c1 := by
  simp only [branchL, FPK.prune, FView.maxRaw_const, FView.trySetMax, FView.trySetMin, hmax, hle, if_true, Option.map]

theorem branchR_prune_of (p : Nat) (mid : FVal Rat) (c c1 : FCtx Rat) (r : FVal Rat)
    (hge : (FView.nextTarget c.st (.const mid) (FView.maxRaw c.st (.var p))).vge mid = true)
    (hmin : c.trySetMin p (FView.minRaw c.st (.next (.const mid))) = some (c1, r)) :
    (branchR p mid).prune c = some c1 := by
  simp only [branchR, FPK.prune, FView.trySetMax, FView.trySetMin, hge, if_true, hmin, Option.map]

theorem witIn_flt {κ : Nat → Bool} {a σ : Nat → Rat} {st : FStore Rat} (hw : WitIn κ a σ st) {p : Nat} (hp : κ p = true) :
    ∃ iv, st p = .flt iv ∧ iv.step = σ p ∧ 0 < iv.step ∧ iv.min ≤ a p ∧ a p ≤ iv.max := by
  have hk := hw.2 p
  have hm := hw.1 p
  cases hx : st p with
  | int d => rw [hx] at hk; simp [FVar.isFlt, hp] at hk
  | flt iv => rw [hx] at hm; exact ⟨iv, rfl, hm⟩

theorem witIn_int {κ : Nat → Bool} {a σ : Nat → Rat} {st : FStore Rat} (hw : WitIn κ a σ st) {p : Nat} (hp : κ p = false) :
    ∃ d, st p = .int d ∧ ∃ z : Int, z ∈ d ∧ a p = (z : Rat) := by
  have hk := hw.2 p
  have hm := hw.1 p
  cases hx : st p with
  | flt iv => rw [hx] at hk; simp [FVar.isFlt, hp] at hk
  | int d => rw [hx] at hm; obtain ⟨z, hz, hza, _⟩ := hm; exact ⟨d, rfl, z, hz, hza⟩

/-- left branch, float pivot: a grid witness with `a p ≤ mid` is kept -/
theorem keeps_branchL_f (κ : Nat → Bool) (a σ : Nat → Rat) (p : Nat) (m : Rat) (hp : κ p = true)
    (hg : ∃ z : Int, a p = (z : Rat) * σ p) (hle : a p ≤ m) : Keeps κ a σ (branchL p (.f m)) := by
  intro c hw
  obtain ⟨iv, hx, hσ, _, _, _⟩ := witIn_flt hw hp
  obtain ⟨z, hz⟩ := hg
  obtain ⟨c1, h1, m1⟩ := setMax_keeps_grid c a σ hw.1 p iv hx m z (by rw [hσ]; exact hz) hle
  simp only [FPK.setMax, Option.map_eq_some_iff] at h1
  obtain ⟨⟨c1', r⟩, h1', rfl⟩ := h1
  refine ⟨c1', branchL_prune_of p _ c c1' r h1' ?_, m1⟩
  -- the test `min(pivot) <= mid`
  have hm1 := m1 p
  simp only [FView.minRaw_var, FStore.vmin]
  cases hx1 : c1'.st p with
  | flt iv1 =>
    rw [hx1] at hm1
    simp only [FVal.vle, FVal.toF]
    num_simp
    exact decide_eq_true (Rat.le_trans hm1.2.2.1 hle)
  | int d1 =>
    rw [hx1] at hm1
    obtain ⟨z1, hz1, hza1, _⟩ := hm1
    simp only [FVal.vle, FVal.toF]
    num_simp
    have := RatL.intCast_le (ilmin_le d1 z1 hz1)
    exact decide_eq_true (by grind)

/-- right branch, float pivot: a grid witness with `mid ≤ a p` is kept -/
theorem keeps_branchR_f (κ : Nat → Bool) (a σ : Nat → Rat) (p : Nat) (m : Rat) (hp : κ p = true)
    (hg : ∃ z : Int, a p = (z : Rat) * σ p) (hle : m ≤ a p) : Keeps κ a σ (branchR p (.f m)) := by
  intro c hw
  obtain ⟨iv, hx, hσ, _, _, hmax⟩ := witIn_flt hw hp
  obtain ⟨z, hz⟩ := hg
  obtain ⟨c1, h1, m1⟩ := setMin_keeps_grid c a σ hw.1 p iv hx m z (by rw [hσ]; exact hz) hle
  simp only [FPK.setMin, Option.map_eq_some_iff] at h1
  obtain ⟨⟨c1', r⟩, h1', rfl⟩ := h1
  refine ⟨c1', branchR_prune_of p _ c c1' r ?_ (by rw [FView.minRaw_next_const_f]; exact h1'), m1⟩
  simp only [FView.maxRaw_var, FStore.vmax, hx, FView.nextTarget, FView.ivOf, FView.underlying, FView.isFloat, FVal.isF,
    if_true, FVal.vge, FVal.vle, FVal.toF]
  num_simp
  exact decide_eq_true (Rat.le_trans hle hmax)

/-- left branch, integer pivot: a witness `z ≤ mid` is kept -/
theorem keeps_branchL_i (κ : Nat → Bool) (a σ : Nat → Rat) (p : Nat) (m : Int) (hp : κ p = false)
    (hle : ∀ z : Int, a p = (z : Rat) → z ≤ m) : Keeps κ a σ (branchL p (.i m)) := by
  intro c hw
  obtain ⟨d, hx, _⟩ := witIn_int hw hp
  obtain ⟨r, hr, m1⟩ := intSetMax_keeps c a σ hw.1 p d hx m hle
  have h1 : c.trySetMax p (.i m) = some (r.1, r.2) := by simp only [FCtx.trySetMax, hx]; exact hr
  refine ⟨r.1, branchL_prune_of p _ c r.1 r.2 h1 ?_, m1⟩
  have hm1 := m1 p
  simp only [FView.minRaw_var, FStore.vmin]
  cases hx1 : r.1.st p with
  | flt iv1 =>
    rw [hx1] at hm1
    have hk := kindsAs_of_rel (FCtx.trySetMax_upd c r.1 p _ r.2 h1).rel hw.2 p
    rw [hx1] at hk; simp [FVar.isFlt, hp] at hk
  | int d1 =>
    rw [hx1] at hm1
    obtain ⟨z1, hz1, hza1, _⟩ := hm1
    simp only [FVal.vle]
    exact decide_eq_true (Int.le_trans (ilmin_le d1 z1 hz1) (hle z1 hza1))

/-- right branch, integer pivot: a witness `z ≥ mid + 1` is kept -/
theorem keeps_branchR_i (κ : Nat → Bool) (a σ : Nat → Rat) (p : Nat) (m : Int) (hp : κ p = false)
    (hle : ∀ z : Int, a p = (z : Rat) → m + 1 ≤ z) : Keeps κ a σ (branchR p (.i m)) := by
  intro c hw
  obtain ⟨d, hx, z0, hz0, hza0⟩ := witIn_int hw hp
  obtain ⟨r, hr, m1⟩ := intSetMin_keeps c a σ hw.1 p d hx (m + 1) hle
  have h1 : c.trySetMin p (.i (m + 1)) = some (r.1, r.2) := by simp only [FCtx.trySetMin, hx]; exact hr
  refine ⟨r.1, branchR_prune_of p _ c r.1 r.2 ?_ (by rw [FView.minRaw_next_const_i]; exact h1), m1⟩
  simp only [FView.maxRaw_var, FStore.vmax, hx, FView.nextTarget, FView.isFloat, FVal.isF, FVal.vge, FVal.vle]
  have := ilmax_ge d z0 hz0
  have := hle z0 hza0
  exact decide_eq_true (by omega)

/-- the witness's float coordinates are grid points `z·step` (grid from zero, as the code rounds) -/
def GridWit (κ : Nat → Bool) (a σ : Nat → Rat) : Prop := ∀ x, κ x = true → ∃ z : Int, a x = (z : Rat) * σ x

/-- **branching keeps a grid witness**: for every split of a store that contains the witness, one
of the two branch constraints keeps it -/
theorem branch_keeps (κ : Nat → Bool) (a σ : Nat → Rat) (hgrid : GridWit κ a σ) (st : FStore Rat) (hw : WitIn κ a σ st)
    (p : Nat) (mid : FVal Rat) (hm : (st p).mid = some mid) :
    Keeps κ a σ (branchL p mid) ∨ Keeps κ a σ (branchR p mid) := by
  rcases mid_kind (st p) mid hm with ⟨iv, r, hx, rfl⟩ | ⟨d, z, hx, rfl⟩
  · have hp : κ p = true := by have := hw.2 p; rw [hx] at this; exact this.symm
    by_cases hle : a p ≤ r
    · exact Or.inl (keeps_branchL_f κ a σ p r hp (hgrid p hp) hle)
    · exact Or.inr (keeps_branchR_f κ a σ p r hp (hgrid p hp) (by grind))
  · have hp : κ p = false := by have := hw.2 p; rw [hx] at this; exact this.symm
    obtain ⟨d', _, z0, _, hza0⟩ := witIn_int hw hp
    by_cases hle : z0 ≤ z
    · left
      exact keeps_branchL_i κ a σ p z hp (fun z1 h1 => by
        have : z1 = z0 := Rat.intCast_inj.mp (by rw [← h1, ← hza0])
        omega)
    · right
      exact keeps_branchR_i κ a σ p z hp (fun z1 h1 => by
        have : z1 = z0 := Rat.intCast_inj.mp (by rw [← h1, ← hza0])
        omega)

/-- **the search never answers "no solution" below a node that contains a kept grid witness** -/
theorem search_not_nosol (n : Nat) (κ : Nat → Bool) (a σ : Nat → Rat) (hgrid : GridWit κ a σ) (pol : Policy) (pf : Nat) :
    ∀ (fuel : Nat),
      (∀ (ps : List (FPK Rat)) (st : FStore Rat) (pc nc : Nat),
        (∀ k ∈ ps, Keeps κ a σ k) → WitIn κ a σ st → fexplore n pol pf fuel ps st pc nc ≠ .nosol ∨ ffirstUnassigned n st = none) ∧
      (∀ (ps : List (FPK Rat)) (st : FStore Rat) (pc nc : Nat) (bp : FPK Rat),
        (∀ k ∈ ps, Keeps κ a σ k) → Keeps κ a σ bp → WitIn κ a σ st → fbranchStep n pol pf fuel ps st pc nc bp ≠ .nosol) := by
  intro fuel
  induction fuel with
  | zero =>
    constructor
    · intro ps st pc nc _ _; left; rw [fexplore_zero]; simp
    · intro ps st pc nc bp _ _ _; rw [fbranchStep_zero]; simp
  | succ f ih =>
    constructor
    · intro ps st pc nc hk hw
      cases hu : ffirstUnassigned n st with
      | none => right; rfl
      | some pivot =>
        left
        rw [fexplore_succ, hu]
        simp only
        cases hm : (st pivot).mid with
        | none => simp
        | some mid =>
          simp only
          rcases branch_keeps κ a σ hgrid st hw pivot mid hm with hL | hR
          · have := ih.2 ps st pc (nc + 2) _ hk hL hw
            cases hl : fbranchStep n pol pf f ps st pc (nc + 2) (branchL pivot mid) with
            | nosol => exact absurd hl this
            | sol _ _ _ => simp
            | fuel => simp
            | pfuel => simp
            | panic => simp
          · have := ih.2 ps st pc (nc + 3) _ hk hR hw
            cases hl : fbranchStep n pol pf f ps st pc (nc + 2) (branchL pivot mid) with
            | nosol => exact this
            | sol _ _ _ => simp
            | fuel => simp
            | pfuel => simp
            | panic => simp
    · intro ps st pc nc bp hk hbp hw
      rw [fbranchStep_succ]
      have hall : ∀ k ∈ ps ++ [bp], Keeps κ a σ k := by
        intro k hk'
        rcases List.mem_append.1 hk' with hk' | hk'
        · exact hk k hk'
        · have : k = bp := by simpa using hk'
          subst this; exact hbp
      have := fpropagate_keeps n (ps ++ [bp]) pol (WitIn κ a σ) (fun k hk' c hc => (hall k hk').witIn c hc)
        pf [ps.length] st pc hw
      cases hp : fpropagate n (ps ++ [bp]) pol pf [ps.length] st pc with
      | fail => rw [hp] at this; exact absurd this id
      | fuel => simp
      | ok st' pc1 =>
        rw [hp] at this
        simp only
        cases hu : ffirstUnassigned n st' with
        | none => simp
        | some q =>
          simp only
          rcases ih.1 (ps ++ [bp]) st' pc1 nc hall this with h | h
          · exact h
          · rw [hu] at h; cases h

/-! ### a split that makes no progress is repeated for ever -/

theorem pick_single (pol : Policy) (x : Nat) : pol.pick [x] = some (x, []) := by
  simp [Policy.pick, Nat.mod_one]

/-- propagating a single scheduled propagator that is stable: one `prune`, nothing changes -/
theorem fpropagate_single_stable (n : Nat) (ps : List (FPK Rat)) (bp : FPK Rat) (pol : Policy) (pf : Nat)
    (st : FStore Rat) (pc : Nat) (hs : FStable bp st) :
    fpropagate n (ps ++ [bp]) pol pf [ps.length] st pc = .fuel ∨
    fpropagate n (ps ++ [bp]) pol pf [ps.length] st pc = .ok st (pc + 1) := by
  obtain ⟨c', hc, hev⟩ := hs
  have hst : c'.st = st := FStable.unchanged hc hev
  match pf with
  | 0 => left; simp [fpropagate]
  | 1 =>
    left
    simp only [fpropagate, pick_single, List.getElem?_append_right (Nat.le_refl _), Nat.sub_self, List.getElem?_cons_zero, hc]
  | pf + 2 =>
    right
    simp only [fpropagate, pick_single, List.getElem?_append_right (Nat.le_refl _), Nat.sub_self, List.getElem?_cons_zero, hc,
      hev, List.foldl_nil, FStore.ofArray_tab, hst]
    simp [Policy.pick]

/-- **divergence**: if the LEFT branch constraint of the split of a stalled node is already stable
at the node's store (the split makes no progress) and so is every other propagator, the model's
search never ends: for EVERY depth fuel the answer is "out of fuel" (the code descends for ever:
`Engine::next` tests its limits outside the descent loop). -/
theorem fexplore_diverges (n : Nat) (pol : Policy) (pf : Nat) (st : FStore Rat) (p : Nat) (mid : FVal Rat)
    (hu : ffirstUnassigned n st = some p) (hm : (st p).mid = some mid) (hs : FStable (branchL p mid) st) :
    ∀ (fuel : Nat) (ps : List (FPK Rat)) (pc nc : Nat),
      fexplore n pol pf fuel ps st pc nc = .fuel ∨ fexplore n pol pf fuel ps st pc nc = .pfuel := by
  intro fuel
  induction fuel using Nat.strongRecOn with
  | _ fuel ih =>
    intro ps pc nc
    match fuel with
    | 0 => left; rw [fexplore_zero]
    | 1 =>
      left
      rw [fexplore_succ, hu]; simp only [hm, fbranchStep_zero]
    | f + 2 =>
      rw [fexplore_succ, hu]
      simp only [hm, fbranchStep_succ]
      rcases fpropagate_single_stable n ps (branchL p mid) pol pf st pc hs with h | h
      · right; rw [h]
      · rw [h]
        simp only [hu]
        rcases ih f (by omega) (ps ++ [branchL p mid]) (pc + 1) (nc + 2) with h' | h'
        · left; rw [h']
        · right; rw [h']

end Selen

import SelenModel.Model.Simplex
import SelenModel.Lemmas.Lp
/-
Lemmas about the simplex model (`Model/Simplex.lean`): what the certificates give, the
specifications of the selection rules (`argmaxPos`, `ratioTest`), and the algebra of one pivot
`z ↦ z + θ·η`.
-/
namespace Selen
namespace Lp

/-! ### pointwise access -/

theorem getD_addv (a b : Vec) (i : Nat) : (addv a b).getD i 0 = a.getD i 0 + b.getD i 0 := by
  induction a generalizing b i with
  | nil => simp [addv] <;> grind
  | cons a as ih =>
    cases b with
    | nil => simp [addv] <;> grind
    | cons b bs =>
      cases i with
      | zero => simp [addv]
      | succ i => simpa [addv] using ih bs i

theorem getD_smul (t : Rat) (v : Vec) (i : Nat) : (smul t v).getD i 0 = t * v.getD i 0 := by
  induction v generalizing i with
  | nil => simp [smul] <;> grind
  | cons a as ih =>
    cases i with
    | zero => simp [smul]
    | succ i => simpa [smul] using ih i

theorem forall_mem_of_getD (l : Vec) (p : Rat → Prop) (h : ∀ i, i < l.length → p (l.getD i 0)) : ∀ v ∈ l, p v := by
  intro v hv
  obtain ⟨i, hi, rfl⟩ := List.mem_iff_getElem.mp hv
  have := h i hi
  simpa [List.getD, hi] using this

theorem getD_of_forall_mem (l : Vec) (p : Rat → Prop) (h : ∀ v ∈ l, p v) (i : Nat) (hi : i < l.length) :
    p (l.getD i 0) := by
  have : l.getD i 0 = l[i] := by simp [List.getD, hi]
  rw [this]; exact h _ (List.getElem_mem hi)

/-- a dot product whose terms all vanish except possibly the one at `e` -/
theorem dot_single (e : Nat) : ∀ (r v : Vec), (∀ i, i ≠ e → r.getD i 0 * v.getD i 0 = 0) →
    dot r v = r.getD e 0 * v.getD e 0 := by
  induction e with
  | zero =>
    intro r v h
    cases r with
    | nil => simp <;> grind
    | cons a as =>
      cases v with
      | nil => simp <;> grind
      | cons b bs =>
        have : dot as bs = 0 := by
          have key : ∀ (r v : Vec), (∀ i, r.getD i 0 * v.getD i 0 = 0) → dot r v = 0 := by
            intro r
            induction r with
            | nil => intro v _; simp
            | cons a as ih =>
              intro v h
              cases v with
              | nil => simp
              | cons b bs =>
                have h0 := h 0
                have ht := ih bs (fun i => by simpa using h (i + 1))
                simp only [List.getD_cons_zero] at h0
                simp only [dot_cons, ht, h0]; grind
          exact key as bs (fun i => by simpa using h (i + 1) (by omega))
        simp only [dot_cons, this, List.getD_cons_zero]; grind
  | succ e ih =>
    intro r v h
    cases r with
    | nil => simp <;> grind
    | cons a as =>
      cases v with
      | nil => simp <;> grind
      | cons b bs =>
        have h0 := h 0 (by omega)
        have ht := ih as bs (fun i hi => by simpa using h (i + 1) (by omega))
        simp only [List.getD_cons_zero] at h0
        simp only [dot_cons, ht, h0, List.getD_cons_succ]; grind

/-! ### the certificates -/

theorem offBasis_spec (basic : List Nat) (allow : Option Nat) : ∀ (v : Vec) (j0 : Nat),
    offBasis basic allow j0 v = true →
    ∀ i, i < v.length → basic.contains (j0 + i) = false → allow ≠ some (j0 + i) → v.getD i 0 = 0 := by
  intro v
  induction v with
  | nil => intro j0 _ i hi; simp at hi
  | cons a as ih =>
    intro j0 h i hi hb ha
    simp only [offBasis, Bool.and_eq_true, Bool.or_eq_true, decide_eq_true_eq] at h
    cases i with
    | zero =>
      simp only [Nat.add_zero] at hb ha
      rcases h.1 with (h1 | h1) | h1
      · rw [hb] at h1; cases h1
      · exact absurd (by simpa using h1) ha
      · simpa using h1
    | succ i =>
      have := ih (j0 + 1) h.2 i (by simpa using hi) (by rw [← hb]; congr 1; omega)
        (by intro hh; apply ha; rw [hh]; congr 1; omega)
      simpa using this

theorem offBasis_intro (basic : List Nat) (allow : Option Nat) : ∀ (v : Vec) (j0 : Nat),
    (∀ i, i < v.length → basic.contains (j0 + i) = false → allow ≠ some (j0 + i) → v.getD i 0 = 0) →
    offBasis basic allow j0 v = true := by
  intro v
  induction v with
  | nil => intro j0 _; rfl
  | cons a as ih =>
    intro j0 h
    simp only [offBasis, Bool.and_eq_true, Bool.or_eq_true, decide_eq_true_eq]
    constructor
    · by_cases hb : basic.contains j0 = true
      · exact Or.inl (Or.inl hb)
      · by_cases ha : allow = some j0
        · exact Or.inl (Or.inr (by simp [ha]))
        · right
          have := h 0 (by simp) (by simpa using hb) (by simpa using ha)
          simpa using this
    · apply ih (j0 + 1)
      intro i hi hb ha
      have := h (i + 1) (by simpa using hi) (by rw [← hb]; congr 1; omega)
        (by intro hh; apply ha; rw [hh]; congr 1; omega)
      simpa using this

theorem onBasisZero_spec (basic : List Nat) : ∀ (r : Vec) (j0 : Nat), onBasisZero basic j0 r = true →
    ∀ i, i < r.length → basic.contains (j0 + i) = true → r.getD i 0 = 0 := by
  intro r
  induction r with
  | nil => intro j0 _ i hi; simp at hi
  | cons a as ih =>
    intro j0 h i hi hb
    simp only [onBasisZero, Bool.and_eq_true, Bool.or_eq_true, decide_eq_true_eq, Bool.not_eq_true'] at h
    cases i with
    | zero =>
      simp only [Nat.add_zero] at hb
      rcases h.1 with h1 | h1
      · rw [hb] at h1; cases h1
      · simpa using h1
    | succ i =>
      have := ih (j0 + 1) h.2 i (by simpa using hi) (by rw [← hb]; congr 1; omega)
      simpa using this

theorem basicPoint_spec (S : Std) (basic : List Nat) (z : Vec) (h : basicPoint S basic = some z) :
    z.length = S.c.length ∧ matVec S.a z = S.b ∧ offBasis basic none 0 z = true := by
  simp only [basicPoint] at h
  split at h
  · cases h
  · split at h
    · rename_i hc
      cases h
      exact hc
    · cases h

theorem duals_spec (S : Std) (basic : List Nat) (y : Vec) (h : duals S basic = some y) :
    y.length = S.a.length ∧ (redCosts S y).length = S.c.length ∧ onBasisZero basic 0 (redCosts S y) = true := by
  unfold duals at h
  split at h
  · cases h
  · split at h
    · rename_i hc
      cases h
      exact hc
    · cases h

theorem ray_spec (S : Std) (basic : List Nat) (e : Nat) (eta : Vec) (h : ray S basic e = some eta) :
    eta.length = S.c.length ∧ allZero (matVec S.a eta) = true ∧ offBasis basic (some e) 0 eta = true ∧
      eta.getD e 0 = 1 ∧ basic.contains e = false := by
  simp only [ray] at h
  split at h
  · cases h
  · split at h
    · rename_i hc
      cases h
      exact hc
    · cases h

/-! ### the selection rules -/

def clamp (x : Rat) : Rat := if x < 0 then 0 else x

theorem ratioTest_spec (tol : Rat) : ∀ (xs ds : Vec) (i0 : Nat) (best : Option (Nat × Rat)) (l : Nat) (θ : Rat),
    ratioTest tol i0 xs ds best = some (l, θ) →
    (best = some (l, θ) ∨ ∃ k, k < xs.length ∧ k < ds.length ∧ l = i0 + k ∧ tol < ds.getD k 0 ∧
        θ = clamp (xs.getD k 0) / ds.getD k 0) ∧
    (∀ k, k < xs.length → k < ds.length → tol < ds.getD k 0 → θ ≤ clamp (xs.getD k 0) / ds.getD k 0) ∧
    (∀ l0 b0, best = some (l0, b0) → θ ≤ b0) := by
  intro xs
  induction xs with
  | nil =>
    intro ds i0 best l θ h
    simp only [ratioTest] at h
    refine ⟨Or.inl h, fun k hk => by simp at hk, ?_⟩
    intro l0 b0 hb
    rw [h] at hb; cases hb; exact Rat.le_refl
  | cons x xs ih =>
    intro ds i0 best l θ h
    cases ds with
    | nil =>
      simp only [ratioTest] at h
      refine ⟨Or.inl h, fun k _ hk => by simp at hk, ?_⟩
      intro l0 b0 hb
      rw [h] at hb; cases hb; exact Rat.le_refl
    | cons d ds =>
      simp only [ratioTest] at h
      obtain ⟨h1, h2, h3⟩ := ih ds (i0 + 1) _ l θ h
      have hshift : ∀ k, k < xs.length → k < ds.length → l = i0 + 1 + k → tol < ds.getD k 0 →
          θ = clamp (xs.getD k 0) / ds.getD k 0 →
          ∃ k', k' < (x :: xs).length ∧ k' < (d :: ds).length ∧ l = i0 + k' ∧ tol < (d :: ds).getD k' 0 ∧
            θ = clamp ((x :: xs).getD k' 0) / (d :: ds).getD k' 0 := by
        intro k a b c e f
        exact ⟨k + 1, by simpa using a, by simpa using b, by omega, by simpa using e, by simpa using f⟩
      by_cases hd : tol < d
      · rw [if_pos hd] at h1 h3
        have hratio : clamp x / d = (if x < 0 then 0 else x) / d := rfl
        cases best with
        | none =>
          simp only at h1 h3
          refine ⟨?_, ?_, fun l0 b0 hb => by cases hb⟩
          · right
            rcases h1 with h1 | ⟨k, a, b, c, e, f⟩
            · cases h1
              exact ⟨0, by simp, by simp, by omega, by simpa using hd, by simp [clamp]⟩
            · exact hshift k a b c e f
          · intro k hk1 hk2 hk3
            cases k with
            | zero =>
              have := h3 i0 _ rfl
              simpa [clamp] using this
            | succ k => exact h2 k (by simpa using hk1) (by simpa using hk2) (by simpa using hk3)
        | some bb =>
          obtain ⟨lb, br⟩ := bb
          simp only at h1 h3
          by_cases hlt : (if x < 0 then 0 else x) / d < br
          · rw [if_pos hlt] at h1 h3
            refine ⟨?_, ?_, ?_⟩
            · right
              rcases h1 with h1 | ⟨k, a, b, c, e, f⟩
              · cases h1
                exact ⟨0, by simp, by simp, by omega, by simpa using hd, by simp [clamp]⟩
              · exact hshift k a b c e f
            · intro k hk1 hk2 hk3
              cases k with
              | zero =>
                have := h3 i0 _ rfl
                simpa [clamp] using this
              | succ k => exact h2 k (by simpa using hk1) (by simpa using hk2) (by simpa using hk3)
            · intro l0 b0 hb
              cases hb
              have := h3 i0 _ rfl
              grind
          · rw [if_neg hlt] at h1 h3
            refine ⟨?_, ?_, ?_⟩
            · rcases h1 with h1 | ⟨k, a, b, c, e, f⟩
              · exact Or.inl h1
              · exact Or.inr (hshift k a b c e f)
            · intro k hk1 hk2 hk3
              cases k with
              | zero =>
                have := h3 lb br rfl
                simp only [List.getD_cons_zero, clamp]
                grind
              | succ k => exact h2 k (by simpa using hk1) (by simpa using hk2) (by simpa using hk3)
            · intro l0 b0 hb
              exact h3 l0 b0 hb
      · rw [if_neg hd] at h1 h3
        refine ⟨?_, ?_, h3⟩
        · rcases h1 with h1 | ⟨k, a, b, c, e, f⟩
          · exact Or.inl h1
          · exact Or.inr (hshift k a b c e f)
        · intro k hk1 hk2 hk3
          cases k with
          | zero => exact absurd (by simpa using hk3) hd
          | succ k => exact h2 k (by simpa using hk1) (by simpa using hk2) (by simpa using hk3)

theorem ratioTest_none (tol : Rat) : ∀ (xs ds : Vec) (i0 : Nat) (best : Option (Nat × Rat)),
    ratioTest tol i0 xs ds best = none →
    best = none ∧ ∀ k, k < xs.length → k < ds.length → ¬ tol < ds.getD k 0 := by
  intro xs
  induction xs with
  | nil => intro ds i0 best h; simp only [ratioTest] at h; exact ⟨h, fun k hk => by simp at hk⟩
  | cons x xs ih =>
    intro ds i0 best h
    cases ds with
    | nil => simp only [ratioTest] at h; exact ⟨h, fun k _ hk => by simp at hk⟩
    | cons d ds =>
      simp only [ratioTest] at h
      obtain ⟨h1, h2⟩ := ih ds (i0 + 1) _ h
      by_cases hd : tol < d
      · rw [if_pos hd] at h1
        cases best with
        | none => simp at h1
        | some bb =>
          obtain ⟨lb, br⟩ := bb
          simp only at h1
          by_cases hlt : (if x < 0 then 0 else x) / d < br
          · rw [if_pos hlt] at h1; cases h1
          · rw [if_neg hlt] at h1; cases h1
      · rw [if_neg hd] at h1
        refine ⟨h1, ?_⟩
        intro k hk1 hk2
        cases k with
        | zero => simpa using hd
        | succ k => simpa using h2 k (by simpa using hk1) (by simpa using hk2)

theorem argmaxPos_spec : ∀ (rs : Vec) (i0 : Nat) (best : Option (Nat × Rat)) (k : Nat) (v : Rat),
    (∀ k0 v0, best = some (k0, v0) → 0 < v0) →
    argmaxPos i0 rs best = some (k, v) →
    0 < v ∧ (best = some (k, v) ∨ ∃ t, t < rs.length ∧ k = i0 + t ∧ rs.getD t 0 = v) := by
  intro rs
  induction rs with
  | nil =>
    intro i0 best k v hb h
    simp only [argmaxPos] at h
    exact ⟨hb k v h, Or.inl h⟩
  | cons r rs ih =>
    intro i0 best k v hb h
    have shift : ∀ t, t < rs.length → k = i0 + 1 + t → rs.getD t 0 = v →
        ∃ t', t' < (r :: rs).length ∧ k = i0 + t' ∧ (r :: rs).getD t' 0 = v :=
      fun t a b c => ⟨t + 1, by simpa using a, by omega, by simpa using c⟩
    cases best with
    | none =>
      simp only [argmaxPos] at h
      by_cases hlt : (0 : Rat) < r
      · rw [if_pos hlt] at h
        obtain ⟨h1, h2⟩ := ih (i0 + 1) _ k v (fun k0 v0 hh => by cases hh; exact hlt) h
        refine ⟨h1, Or.inr ?_⟩
        rcases h2 with h2 | ⟨t, a, b, c⟩
        · cases h2; exact ⟨0, by simp, by omega, by simp⟩
        · exact shift t a b c
      · rw [if_neg hlt] at h
        obtain ⟨h1, h2⟩ := ih (i0 + 1) _ k v (fun k0 v0 hh => by cases hh) h
        refine ⟨h1, Or.inr ?_⟩
        rcases h2 with h2 | ⟨t, a, b, c⟩
        · cases h2
        · exact shift t a b c
    | some bb =>
      obtain ⟨kb, vb⟩ := bb
      have hvb := hb kb vb rfl
      simp only [argmaxPos] at h
      by_cases hlt : vb < r
      · rw [if_pos hlt] at h
        obtain ⟨h1, h2⟩ := ih (i0 + 1) _ k v (fun k0 v0 hh => by cases hh; grind) h
        refine ⟨h1, Or.inr ?_⟩
        rcases h2 with h2 | ⟨t, a, b, c⟩
        · cases h2; exact ⟨0, by simp, by omega, by simp⟩
        · exact shift t a b c
      · rw [if_neg hlt] at h
        obtain ⟨h1, h2⟩ := ih (i0 + 1) _ k v hb h
        refine ⟨h1, ?_⟩
        rcases h2 with h2 | ⟨t, a, b, c⟩
        · exact Or.inl h2
        · exact Or.inr (shift t a b c)

/-! ### algebra of a pivot -/

theorem dot_smul_right (k : Rat) (a x : Vec) : dot a (smul k x) = k * dot a x := by
  rw [dot_comm, dot_smul_left, dot_comm]

theorem row_dot_zero (A : Mat) (eta : Vec) (h : allZero (matVec A eta) = true) : ∀ r ∈ A, dot r eta = 0 := by
  intro r hr
  simp only [allZero, matVec, List.all_eq_true, decide_eq_true_eq, List.mem_map] at h
  exact h _ ⟨r, hr, rfl⟩

theorem matVec_addv_smul (A : Mat) (z eta : Vec) (t : Rat) (h : allZero (matVec A eta) = true) :
    matVec A (addv z (smul t eta)) = matVec A z := by
  simp only [matVec]
  apply List.map_congr_left
  intro r hr
  rw [dot_addv_right, dot_smul_right, row_dot_zero A eta h r hr]
  grind

theorem dot_zero_of_allZero (y v : Vec) (h : allZero v = true) : dot y v = 0 := by
  apply dot_allzero
  simpa [allZero, List.all_eq_true] using h

theorem contains_iff_mem (l : List Nat) (j : Nat) : l.contains j = true ↔ j ∈ l := by simp

/-- the objective change along the edge is the reduced cost of the entering column -/
theorem dot_c_ray (S : Std) (basic : List Nat) (e : Nat) (y eta : Vec)
    (hy : duals S basic = some y) (he : ray S basic e = some eta) :
    dot S.c eta = (redCosts S y).getD e 0 := by
  obtain ⟨_, hrl, hr0⟩ := duals_spec S basic y hy
  obtain ⟨hel, hez, heo, he1, _⟩ := ray_spec S basic e eta he
  have h1 : dot (redCosts S y) eta = dot S.c eta - dot (vecMat y S.a) eta := dot_subv_left _ _ _
  have h2 := dot_vecMat y S.a eta
  rw [dot_zero_of_allZero y _ hez] at h2
  have h3 : dot (redCosts S y) eta = (redCosts S y).getD e 0 * eta.getD e 0 := by
    apply dot_single
    intro i hi
    by_cases hb : basic.contains i = true
    · by_cases hlt : i < (redCosts S y).length
      · have := onBasisZero_spec basic _ 0 hr0 i hlt (by simpa using hb)
        rw [this]; grind
      · have : (redCosts S y).getD i 0 = 0 := by simp [List.getD, Nat.not_lt.mp hlt]
        rw [this]; grind
    · by_cases hlt : i < eta.length
      · have := offBasis_spec basic (some e) eta 0 heo i hlt (by simpa using hb) (by simp only [Nat.zero_add]; intro hh; cases hh; exact hi rfl)
        rw [this]; grind
      · have : eta.getD i 0 = 0 := by simp [List.getD, Nat.not_lt.mp hlt]
        rw [this]; grind
  rw [he1] at h3
  grind

theorem unpack_next (S : Std) (ftol otol : Rat) (st st' : Bas) (h : pivot S ftol otol st = .next st') :
    ∃ z y k v eta l θ, basicPoint S st.basic = some z ∧ duals S st.basic = some y ∧
      argmaxPos 0 (reducedN S y st) none = some (k, v) ∧
      ray S st.basic (st.nonbasic.getD k 0) = some eta ∧
      ratioTest ftol 0 (st.basic.map (fun j => z.getD j 0)) (st.basic.map (fun j => -(eta.getD j 0))) none = some (l, θ) ∧
      st' = st.swap k l := by
  simp only [pivot] at h
  split at h
  · rename_i z y hz hy
    split at h
    · cases h
    · split at h
      · cases h
      · rename_i k v hk
        split at h
        · cases h
        · rename_i eta he
          split at h
          · cases h
          · rename_i l θ hl
            split at h
            · cases h
              exact ⟨z, y, k, v, eta, l, θ, hz, hy, hk, he, hl, rfl⟩
            · cases h
  · cases h

theorem unpack_unbounded (S : Std) (ftol otol : Rat) (st : Bas) (h : pivot S ftol otol st = .unbounded) :
    ∃ z y k v eta, basicPoint S st.basic = some z ∧ duals S st.basic = some y ∧
      argmaxPos 0 (reducedN S y st) none = some (k, v) ∧
      ray S st.basic (st.nonbasic.getD k 0) = some eta ∧
      ratioTest ftol 0 (st.basic.map (fun j => z.getD j 0)) (st.basic.map (fun j => -(eta.getD j 0))) none = none := by
  simp only [pivot] at h
  split at h
  · rename_i z y hz hy
    split at h
    · cases h
    · split at h
      · cases h
      · rename_i k v hk
        split at h
        · cases h
        · rename_i eta he
          split at h
          · rename_i hl
            exact ⟨z, y, k, v, eta, hz, hy, hk, he, hl⟩
          · split at h <;> cases h
  · cases h

theorem unpack_stop (S : Std) (ftol otol : Rat) (st : Bas) (h : pivot S ftol otol st = .stop) :
    ∃ z y, basicPoint S st.basic = some z ∧ duals S st.basic = some y ∧
      ∀ j ∈ st.nonbasic, (redCosts S y).getD j 0 ≤ otol := by
  simp only [pivot] at h
  split at h
  · rename_i z y hz hy
    split at h
    · rename_i hall
      refine ⟨z, y, hz, hy, ?_⟩
      simp only [reducedN, List.all_eq_true, List.mem_map, decide_eq_true_eq] at hall
      intro j hj
      exact hall _ ⟨j, hj, rfl⟩
    · split at h
      · cases h
      · split at h
        · cases h
        · split at h
          · cases h
          · split at h <;> cases h
  · cases h

/-! ### the point after a pivot -/

theorem mul_le_of_le_div (a x d : Rat) (hd : 0 < d) (h : a ≤ x / d) : a * d ≤ x := by
  have h1 := Rat.mul_le_mul_of_nonneg_right h (Rat.le_of_lt hd)
  have : x / d * d = x := by grind
  rw [this] at h1; exact h1

theorem div_nonneg_of (x d : Rat) (hd : 0 < d) (hx : 0 ≤ x) : 0 ≤ x / d := by
  rw [Rat.div_def]
  exact Rat.mul_nonneg hx (Rat.le_of_lt (Rat.inv_pos.mpr hd))

theorem clamp_nonneg (x : Rat) : 0 ≤ clamp x := by
  unfold clamp; split <;> grind

theorem clamp_of_nonneg (x : Rat) (h : 0 ≤ x) : clamp x = x := by
  unfold clamp; split <;> grind

theorem getD_map_lt (l : List Nat) (f : Nat → Rat) (k : Nat) (h : k < l.length) :
    (l.map f).getD k 0 = f (l.getD k 0) := by
  simp [List.getD, h]

theorem smul_length (t : Rat) (v : Vec) : (smul t v).length = v.length := by simp [smul]

/-- facts shared by the pivot theorems: everything the certificates and the two selection rules give -/
structure PivotData (S : Std) (ftol : Rat) (st : Bas) (z y eta : Vec) (k : Nat) (v : Rat) : Prop where
  zlen : z.length = S.c.length
  zb : matVec S.a z = S.b
  zoff : offBasis st.basic none 0 z = true
  elen : eta.length = S.c.length
  ezero : allZero (matVec S.a eta) = true
  eoff : offBasis st.basic (some (st.nonbasic.getD k 0)) 0 eta = true
  eone : eta.getD (st.nonbasic.getD k 0) 0 = 1
  enb : st.basic.contains (st.nonbasic.getD k 0) = false
  vpos : 0 < v
  slope : dot S.c eta = v

theorem pivotData_of (S : Std) (ftol : Rat) (st : Bas) (z y eta : Vec) (k : Nat) (v : Rat)
    (hz : basicPoint S st.basic = some z) (hy : duals S st.basic = some y)
    (hk : argmaxPos 0 (reducedN S y st) none = some (k, v))
    (he : ray S st.basic (st.nonbasic.getD k 0) = some eta) : PivotData S ftol st z y eta k v := by
  obtain ⟨a1, a2, a3⟩ := basicPoint_spec S _ z hz
  obtain ⟨b1, b2, b3, b4, b5⟩ := ray_spec S _ _ eta he
  obtain ⟨hv, hk'⟩ := argmaxPos_spec _ 0 none k v (fun _ _ hh => by cases hh) hk
  refine ⟨a1, a2, a3, b1, b2, b3, b4, b5, hv, ?_⟩
  rw [dot_c_ray S st.basic _ y eta hy he]
  rcases hk' with hk' | ⟨t, ht, hkt, hval⟩
  · cases hk'
  · simp only [Nat.zero_add] at hkt
    subst hkt
    simp only [reducedN, List.length_map] at ht hval
    rw [getD_map_lt _ _ _ ht] at hval
    exact hval

/-- every negative entry of `η` sits on a basic position -/
theorem eta_neg_basic {S : Std} {ftol : Rat} {st : Bas} {z y eta : Vec} {k : Nat} {v : Rat}
    (D : PivotData S ftol st z y eta k v) (i : Nat) (hi : i < S.c.length) (hneg : ¬ (0 ≤ eta.getD i 0)) :
    ∃ p, p < st.basic.length ∧ st.basic.getD p 0 = i := by
  by_cases hb : st.basic.contains i = true
  · rw [contains_iff_mem] at hb
    obtain ⟨p, hp, hpe⟩ := List.mem_iff_getElem.mp hb
    exact ⟨p, hp, by simp [List.getD, hp, hpe]⟩
  · exfalso
    by_cases hie : i = st.nonbasic.getD k 0
    · rw [hie, D.eone] at hneg; exact hneg (by decide)
    · have := offBasis_spec _ _ eta 0 D.eoff i (by rw [D.elen]; exact hi) (by simpa using hb)
        (by simp only [Nat.zero_add]; intro hh; cases hh; exact hie rfl)
      rw [this] at hneg; exact hneg Rat.le_refl

theorem pivot_point {S : Std} {ftol : Rat} {st : Bas} {z y eta : Vec} {k : Nat} {v : Rat}
    (D : PivotData S ftol st z y eta k v) (hf : 0 ≤ ftol) (hz0 : ∀ w ∈ z, 0 ≤ w) (l : Nat) (θ : Rat)
    (hl : ratioTest ftol 0 (st.basic.map (fun j => z.getD j 0)) (st.basic.map (fun j => -(eta.getD j 0))) none = some (l, θ)) :
    0 ≤ θ ∧ l < st.basic.length ∧
      (addv z (smul θ eta)).length = S.c.length ∧ matVec S.a (addv z (smul θ eta)) = S.b ∧
      (ftol = 0 → ∀ w ∈ addv z (smul θ eta), 0 ≤ w) ∧
      offBasis (st.swap k l).basic none 0 (addv z (smul θ eta)) = true ∧
      dot S.c (addv z (smul θ eta)) = dot S.c z + θ * v := by
  obtain ⟨h1, h2, _⟩ := ratioTest_spec ftol _ _ 0 none l θ hl
  rcases h1 with h1 | ⟨p, hp1, hp2, hlp, hdp, hθ⟩
  · cases h1
  simp only [List.length_map] at hp1 hp2 h2
  simp only [Nat.zero_add] at hlp
  subst hlp
  rw [getD_map_lt _ _ _ hp1] at hdp
  rw [getD_map_lt _ _ _ hp1, getD_map_lt _ _ _ hp1] at hθ
  have hzi : ∀ i, 0 ≤ z.getD i 0 := by
    intro i
    by_cases hi : i < z.length
    · exact getD_of_forall_mem z _ hz0 i hi
    · simp [List.getD, Nat.not_lt.mp hi]
  have hdp : (0 : Rat) < -(eta.getD (st.basic.getD l 0) 0) := by grind
  have hθ0 : 0 ≤ θ := by
    rw [hθ]; exact div_nonneg_of _ _ hdp (clamp_nonneg _)
  have hlen : (addv z (smul θ eta)).length = S.c.length := by
    rw [addv_length _ _ (by rw [smul_length, D.zlen, D.elen]), D.zlen]
  have hval : ∀ i, (addv z (smul θ eta)).getD i 0 = z.getD i 0 + θ * eta.getD i 0 := by
    intro i; rw [getD_addv, getD_smul]
  refine ⟨hθ0, hp1, hlen, by rw [matVec_addv_smul _ _ _ _ D.ezero, D.zb], ?_, ?_, ?_⟩
  · intro hf0
    subst hf0
    · apply forall_mem_of_getD
      intro i hi
      rw [hlen] at hi
      rw [hval]
      by_cases hneg : 0 ≤ eta.getD i 0
      · have := Rat.mul_nonneg hθ0 hneg
        have := hzi i
        grind
      · obtain ⟨q, hq, hqi⟩ := eta_neg_basic D i hi hneg
        have hd : (0 : Rat) < -(eta.getD i 0) := by grind
        have := h2 q hq hq (by rw [getD_map_lt _ _ _ hq, hqi]; exact hd)
        rw [getD_map_lt _ _ _ hq, getD_map_lt _ _ _ hq, hqi, clamp_of_nonneg _ (hzi i)] at this
        have := mul_le_of_le_div _ _ _ hd this
        grind
  · apply offBasis_intro
    intro i hi hnb _
    rw [hlen] at hi
    simp only [Nat.zero_add] at hnb
    rw [hval]
    have hne : i ≠ st.nonbasic.getD k 0 := by
      intro hh
      have : (st.swap k l).basic.contains i = true := by
        rw [contains_iff_mem, hh]
        simp only [Bas.swap]
        exact List.mem_iff_getElem.mpr ⟨l, by simpa using hp1, by simp⟩
      rw [this] at hnb; cases hnb
    by_cases hb : st.basic.contains i = true
    · rw [contains_iff_mem] at hb
      obtain ⟨q, hq, hqe⟩ := List.mem_iff_getElem.mp hb
      by_cases hql : q = l
      · have hbi : st.basic.getD l 0 = i := by rw [← hql]; simp [List.getD, hq, hqe]
        rw [hbi] at hdp hθ
        rw [clamp_of_nonneg _ (hzi i)] at hθ
        rw [hθ]
        grind
      · exfalso
        have : (st.swap k l).basic.contains i = true := by
          rw [contains_iff_mem]
          simp only [Bas.swap]
          refine List.mem_iff_getElem.mpr ⟨q, by simpa using hq, ?_⟩
          rw [List.getElem_set_ne (by omega)]
          exact hqe
        rw [this] at hnb; cases hnb
    · have e1 := offBasis_spec _ _ z 0 D.zoff i (by rw [D.zlen]; exact hi) (by simpa using hb) (by simp)
      have e2 := offBasis_spec _ _ eta 0 D.eoff i (by rw [D.elen]; exact hi) (by simpa using hb)
        (by simp only [Nat.zero_add]; intro hh; cases hh; exact hne rfl)
      rw [e1, e2]; grind
  · rw [dot_addv_right, dot_smul_right, D.slope]

/-! ### unbounded ray, stop test -/

theorem pivot_ray_nonneg {S : Std} {st : Bas} {z y eta : Vec} {k : Nat} {v : Rat}
    (D : PivotData S 0 st z y eta k v)
    (hl : ratioTest 0 0 (st.basic.map (fun j => z.getD j 0)) (st.basic.map (fun j => -(eta.getD j 0))) none = none) :
    ∀ w ∈ eta, 0 ≤ w := by
  obtain ⟨_, h2⟩ := ratioTest_none 0 _ _ 0 none hl
  simp only [List.length_map] at h2
  apply forall_mem_of_getD
  intro i hi
  rw [D.elen] at hi
  apply Classical.byContradiction
  intro hneg
  obtain ⟨q, hq, hqi⟩ := eta_neg_basic D i hi hneg
  have := h2 q hq hq
  rw [getD_map_lt _ _ _ hq, hqi] at this
  grind

theorem ray_point_feasible {S : Std} {st : Bas} {z y eta : Vec} {k : Nat} {v : Rat}
    (D : PivotData S 0 st z y eta k v) (hz0 : ∀ w ∈ z, 0 ≤ w) (he0 : ∀ w ∈ eta, 0 ≤ w) (t : Rat) (ht : 0 ≤ t) :
    stdFeasible S (addv z (smul t eta)) = true ∧ dot S.c (addv z (smul t eta)) = dot S.c z + t * v := by
  have hlen : (addv z (smul t eta)).length = S.c.length := by
    rw [addv_length _ _ (by rw [smul_length, D.zlen, D.elen]), D.zlen]
  constructor
  · rw [stdFeasible_iff]
    refine ⟨hlen, ?_, by rw [matVec_addv_smul _ _ _ _ D.ezero, D.zb]⟩
    apply forall_mem_of_getD
    intro i hi
    rw [hlen] at hi
    rw [getD_addv, getD_smul]
    have a := getD_of_forall_mem z _ hz0 i (by rw [D.zlen]; exact hi)
    have b := getD_of_forall_mem eta _ he0 i (by rw [D.elen]; exact hi)
    have := Rat.mul_nonneg ht b
    grind
  · rw [dot_addv_right, dot_smul_right, D.slope]

theorem checkCols_intro (basis : List Nat) (ftol otol : Rat) : ∀ (r x : Vec) (j0 : Nat), r.length = x.length →
    (∀ i, i < x.length →
      (if basis.contains (j0 + i) = true then r.getD i 0 = 0 else (r.getD i 0 ≤ otol ∧ x.getD i 0 = 0)) ∧
        -ftol ≤ x.getD i 0) →
    checkCols basis ftol otol j0 r x = true := by
  intro r
  induction r with
  | nil => intro x j0 hl _; cases x <;> simp_all [checkCols]
  | cons a as ih =>
    intro x j0 hl h
    cases x with
    | nil => simp at hl
    | cons b bs =>
      have h0 := h 0 (by simp)
      simp only [Nat.add_zero, List.getD_cons_zero] at h0
      have ht := ih bs (j0 + 1) (by simpa using hl) (fun i hi => by
        have := h (i + 1) (by simpa using hi)
        simp only [List.getD_cons_succ] at this
        rw [show j0 + (i + 1) = j0 + 1 + i by omega] at this
        exact this)
      simp only [checkCols, Bool.and_eq_true, decide_eq_true_eq]
      refine ⟨⟨?_, h0.2⟩, ht⟩
      by_cases hb : basis.contains j0 = true
      · rw [if_pos hb] at h0 ⊢
        exact decide_eq_true h0.1
      · rw [if_neg hb] at h0 ⊢
        simp only [Bool.and_eq_true, decide_eq_true_eq]
        exact h0.1

/-- the stop test of the code (`is_dual_feasible`) yields a legal terminal state, provided the basis
is well-formed, `basic ∪ nonbasic` covers all columns and the basic solution is within `ftol` -/
theorem stop_legal (S : Std) (ftol otol : Rat) (st : Bas) (z y : Vec)
    (hz : basicPoint S st.basic = some z) (hy : duals S st.basic = some y)
    (hrc : ∀ j ∈ st.nonbasic, (redCosts S y).getD j 0 ≤ otol)
    (hbo : basisOk S.a.length S.c.length st.basic = true)
    (hcover : ∀ j, j < S.c.length → st.basic.contains j = false → j ∈ st.nonbasic)
    (hprimal : ∀ w ∈ z, -ftol ≤ w) :
    legalOptimal S ftol otol st.basic z y = true := by
  obtain ⟨a1, a2, a3⟩ := basicPoint_spec S _ z hz
  obtain ⟨b1, b2, b3⟩ := duals_spec S _ y hy
  simp only [legalOptimal, Bool.and_eq_true, decide_eq_true_eq]
  refine ⟨⟨⟨⟨hbo, a1⟩, b1⟩, a2⟩, ?_⟩
  apply checkCols_intro _ _ _ _ _ _ (by rw [b2, a1])
  intro i hi
  simp only [Nat.zero_add]
  refine ⟨?_, getD_of_forall_mem z _ hprimal i hi⟩
  rw [a1] at hi
  by_cases hb : st.basic.contains i = true
  · rw [if_pos hb]
    exact onBasisZero_spec _ _ 0 b3 i (by rw [b2]; exact hi) (by simpa using hb)
  · rw [if_neg hb]
    exact ⟨hrc i (hcover i hi (by simpa using hb)),
      offBasis_spec _ _ z 0 a3 i (by rw [a1]; exact hi) (by simpa using hb) (by simp)⟩

/-! ### Phase I -/

theorem dot_replicate_neg1 : ∀ (m : Nat) (t : Vec), t.length = m → dot (List.replicate m (-1)) t = -(sumv t) := by
  intro m
  induction m with
  | zero => intro t h; cases t <;> simp_all [sumv]
  | succ m ih =>
    intro t h
    cases t with
    | nil => simp at h
    | cons a as =>
      have := ih as (by simpa using h)
      simp only [List.replicate_succ, dot_cons, sumv, this]; grind

theorem sumv_nonneg (t : Vec) (h : ∀ v ∈ t, 0 ≤ v) : 0 ≤ sumv t := by
  induction t with
  | nil => simp [sumv]
  | cons a as ih =>
    have := ih (fun v hv => h v (by simp [hv]))
    have := h a (by simp)
    simp only [sumv]; grind

theorem sumv_zero (t : Vec) (h : ∀ v ∈ t, 0 ≤ v) (hs : sumv t = 0) : ∀ v ∈ t, v = 0 := by
  induction t with
  | nil => intro v hv; simp at hv
  | cons a as ih =>
    have h1 := sumv_nonneg as (fun v hv => h v (by simp [hv]))
    have h2 := h a (by simp)
    simp only [sumv] at hs
    intro v hv
    rcases List.mem_cons.mp hv with hv | hv
    · subst hv; grind
    · exact ih (fun v hv => h v (by simp [hv])) (by grind) v hv

theorem flipRows_matVec_inv (z : Vec) : ∀ (rs : Mat) (bs : Vec), rs.length = bs.length →
    matVec (flipRows rs bs) z = absv bs → matVec rs z = bs := by
  intro rs
  induction rs with
  | nil => intro bs hl _; cases bs <;> simp_all [matVec]
  | cons r rs ih =>
    intro bs hl h
    cases bs with
    | nil => simp at hl
    | cons b bs =>
      simp only [flipRows, matVec, List.map_cons, absv, List.cons.injEq] at h
      have ht := ih bs (by simpa using hl) (by simpa [matVec, absv] using h.2)
      simp only [matVec, List.map_cons, List.cons.injEq]
      refine ⟨?_, by simpa [matVec] using ht⟩
      have h1 := h.1
      by_cases hb : b < 0
      · rw [if_pos hb, if_pos hb, dot_negv_left] at h1; grind
      · rw [if_neg hb, if_neg hb] at h1; exact h1

theorem phase1_c_le (S : Std) (w : Vec) (hw : stdFeasible (phase1Std S) w = true) :
    dot (phase1Std S).c w = -(sumv (w.drop S.c.length)) ∧ (∀ v ∈ w.drop S.c.length, 0 ≤ v) ∧
      (w.drop S.c.length).length = S.a.length := by
  obtain ⟨hlen, hnn, _⟩ := (stdFeasible_iff _ _).mp hw
  have hl : (w.drop S.c.length).length = S.a.length := by
    simp only [phase1Std, List.length_append, zeros, List.length_replicate] at hlen
    simp; omega
  refine ⟨?_, fun v hv => hnn v (List.mem_of_mem_drop hv), hl⟩
  simp only [phase1Std]
  rw [dot_append_left, dot_zeros_left]
  have : (zeros S.c.length).length = S.c.length := by simp [zeros]
  rw [this, dot_replicate_neg1 _ _ hl]
  grind

/-- a feasible point of the auxiliary problem with artificial sum 0 restricts to a feasible point
of the standard form -/
theorem phase1_zero_feasible (S : Std) (hw : StdWF S) (w : Vec) (hf : stdFeasible (phase1Std S) w = true)
    (h0 : dot (phase1Std S).c w = 0) : stdFeasible S (w.take S.c.length) = true := by
  obtain ⟨hc, hnn, hl⟩ := phase1_c_le S w hf
  obtain ⟨hlen, hnn', hmat⟩ := (stdFeasible_iff _ _).mp hf
  have hz : ∀ v ∈ w.drop S.c.length, v = 0 := sumv_zero _ hnn (by grind)
  have ht : w.drop S.c.length = zeros S.a.length := by
    simp only [zeros]
    rw [List.eq_replicate_iff]
    exact ⟨hl, hz⟩
  have hsplit : w = w.take S.c.length ++ zeros S.a.length := by
    rw [← ht, List.take_append_drop]
  have htl : (w.take S.c.length).length = S.c.length := by
    simp only [phase1Std, List.length_append, zeros, List.length_replicate] at hlen
    simp; omega
  rw [stdFeasible_iff]
  refine ⟨htl, fun v hv => hnn' v (List.mem_of_mem_take hv), ?_⟩
  simp only [phase1Std] at hmat
  rw [hsplit, rows1_zeros S.c.length S.a.length _ htl _ 0 (flipRows_width _ _ _ hw.rows)] at hmat
  exact flipRows_matVec_inv _ _ _ hw.ab hmat

theorem offBasis_take (basic : List Nat) (w : Vec) (n : Nat) (h : offBasis basic none 0 w = true) :
    offBasis basic none 0 (w.take n) = true := by
  apply offBasis_intro
  intro i hi hb _
  have hin : i < n ∧ i < w.length := by
    simp only [List.length_take] at hi; omega
  have := offBasis_spec _ _ w 0 h i hin.2 hb (by simp)
  rw [getD_take_lt w n i hin.1]
  exact this

/-! ### independence of the basis columns, uniqueness of the basic solution -/

/-- the columns `basic` of `A` are linearly independent: a null vector vanishing off them is 0 -/
def Indep (S : Std) (basic : List Nat) : Prop :=
  ∀ w : Vec, w.length = S.c.length → allZero (matVec S.a w) = true → offBasis basic none 0 w = true →
    ∀ i, w.getD i 0 = 0

theorem getD_negv (v : Vec) (i : Nat) : (negv v).getD i 0 = -(v.getD i 0) := by
  induction v generalizing i with
  | nil => simp [negv] <;> grind
  | cons a as ih =>
    cases i with
    | zero => simp [negv]
    | succ i => simpa [negv] using ih i

theorem getD_subv (a b : Vec) (i : Nat) : (subv a b).getD i 0 = a.getD i 0 - b.getD i 0 := by
  rw [subv, getD_addv, getD_negv]; grind

theorem getD_ge_length (v : Vec) (i : Nat) (h : v.length ≤ i) : v.getD i 0 = 0 := by
  simp [List.getD, h]

theorem allZero_sub (A : Mat) (z1 z2 : Vec) (h : matVec A z1 = matVec A z2) : allZero (matVec A (subv z1 z2)) = true := by
  simp only [matVec, List.map_inj_left] at h
  simp only [allZero, matVec, List.all_eq_true, List.mem_map, decide_eq_true_eq]
  rintro _ ⟨r, hr, rfl⟩
  rw [dot_subv_right, h r hr]; grind

theorem basic_unique (S : Std) (basic : List Nat) (hI : Indep S basic) (z1 z2 : Vec)
    (h1 : z1.length = S.c.length) (h2 : z2.length = S.c.length) (hb : matVec S.a z1 = matVec S.a z2)
    (o1 : offBasis basic none 0 z1 = true) (o2 : offBasis basic none 0 z2 = true) :
    ∀ i, z1.getD i 0 = z2.getD i 0 := by
  have hw := hI (subv z1 z2) (by rw [subv_length _ _ (by rw [h1, h2]), h1]) (allZero_sub _ _ _ hb) (by
    apply offBasis_intro
    intro i hi hnb _
    rw [subv_length _ _ (by rw [h1, h2])] at hi
    rw [getD_subv, offBasis_spec _ _ z1 0 o1 i hi hnb (by simp),
      offBasis_spec _ _ z2 0 o2 i (by rw [h2, ← h1]; exact hi) hnb (by simp)]
    grind)
  intro i
  have := hw i
  rw [getD_subv] at this
  grind

theorem nodup_set (l : List Nat) (i e : Nat) (hn : l.Nodup) (he : e ∉ l) : (l.set i e).Nodup := by
  induction l generalizing i with
  | nil => simp
  | cons a as ih =>
    rw [List.nodup_cons] at hn
    cases i with
    | zero =>
      simp only [List.set_cons_zero, List.nodup_cons]
      exact ⟨fun h => he (by simp [h]), hn.2⟩
    | succ i =>
      simp only [List.set_cons_succ, List.nodup_cons]
      refine ⟨?_, ih i hn.2 (fun h => he (by simp [h]))⟩
      intro h
      rcases List.mem_or_eq_of_mem_set h with h | h
      · exact hn.1 h
      · exact he (by simp [h])

theorem leaving_not_in_new (l : List Nat) (p e : Nat) (hp : p < l.length) (hn : l.Nodup) (he : e ∉ l) :
    l.getD p 0 ∉ l.set p e := by
  intro h
  obtain ⟨q, hq, hqe⟩ := List.mem_iff_getElem.mp h
  have hq' : q < l.length := by simpa using hq
  have hlp : l.getD p 0 = l[p] := by simp [List.getD, hp]
  by_cases hqp : q = p
  · subst hqp
    rw [List.getElem_set_self] at hqe
    apply he
    rw [hqe, hlp]
    exact List.getElem_mem hp
  · rw [List.getElem_set_ne (by omega)] at hqe
    rw [hlp] at hqe
    exact hqp ((List.getElem_inj hn).mp hqe)

/-- the pivot keeps the basis columns independent -/
theorem indep_pivot {S : Std} {ftol : Rat} {st : Bas} {z y eta : Vec} {k : Nat} {v : Rat}
    (D : PivotData S ftol st z y eta k v) (hI : Indep S st.basic) (hn : st.basic.Nodup)
    (hlt : ∀ j ∈ st.basic, j < S.c.length) (l : Nat) (hl : l < st.basic.length)
    (hd : eta.getD (st.basic.getD l 0) 0 ≠ 0) : Indep S (st.swap k l).basic := by
  intro w hwl hwz hwo
  have henb : st.nonbasic.getD k 0 ∉ st.basic := by
    have := D.enb
    intro h
    rw [← contains_iff_mem] at h
    rw [h] at this; cases this
  let we := w.getD (st.nonbasic.getD k 0) 0
  have hu := hI (subv w (smul we eta)) (by rw [subv_length _ _ (by rw [smul_length, hwl, D.elen]), hwl])
    (by
      simp only [allZero, matVec, List.all_eq_true, List.mem_map, decide_eq_true_eq]
      rintro _ ⟨r, hr, rfl⟩
      rw [dot_subv_right, dot_smul_right, row_dot_zero _ _ hwz r hr, row_dot_zero _ _ D.ezero r hr]
      grind)
    (by
      apply offBasis_intro
      intro i hi hnb _
      rw [subv_length _ _ (by rw [smul_length, hwl, D.elen]), hwl] at hi
      simp only [Nat.zero_add] at hnb
      rw [getD_subv, getD_smul]
      by_cases hie : i = st.nonbasic.getD k 0
      · rw [hie, D.eone]; show w.getD (st.nonbasic.getD k 0) 0 - w.getD (st.nonbasic.getD k 0) 0 * 1 = 0; grind
      · have hnb' : (st.swap k l).basic.contains i = false := by
          cases hc : (st.swap k l).basic.contains i with
          | false => rfl
          | true =>
            exfalso
            rw [contains_iff_mem] at hc
            simp only [Bas.swap] at hc
            rcases List.mem_or_eq_of_mem_set hc with hc | hc
            · rw [← contains_iff_mem, hnb] at hc; cases hc
            · exact hie hc
        rw [offBasis_spec _ _ w 0 hwo i (by rw [hwl]; exact hi) (by simpa using hnb') (by simp),
          offBasis_spec _ _ eta 0 D.eoff i (by rw [D.elen]; exact hi) (by simpa using hnb)
            (by simp only [Nat.zero_add]; intro hh; cases hh; exact hie rfl)]
        grind)
  -- w = we • η
  have hw : ∀ i, w.getD i 0 = we * eta.getD i 0 := by
    intro i
    have := hu i
    rw [getD_subv, getD_smul] at this
    grind
  have hr : st.basic.getD l 0 < S.c.length := hlt _ (by
    have : st.basic.getD l 0 = st.basic[l] := by simp [List.getD, hl]
    rw [this]; exact List.getElem_mem hl)
  have hrn : (st.swap k l).basic.contains (st.basic.getD l 0) = false := by
    cases hc : (st.swap k l).basic.contains (st.basic.getD l 0) with
    | false => rfl
    | true =>
      exfalso
      rw [contains_iff_mem] at hc
      exact leaving_not_in_new _ _ _ hl hn henb hc
  have h0 := offBasis_spec _ _ w 0 hwo _ (by rw [hwl]; exact hr) (by simpa using hrn) (by simp)
  rw [hw] at h0
  have hwe : we = 0 := by
    rcases Rat.mul_eq_zero.mp h0 with h | h
    · exact h
    · exact absurd h hd
  intro i
  rw [hw, hwe]; grind

/-! ### invariants of a run -/

structure BasisInv (S : Std) (st : Bas) : Prop where
  ok : basisOk S.a.length S.c.length st.basic = true
  cover : ∀ j, j < S.c.length → st.basic.contains j = false → j ∈ st.nonbasic
  indep : Indep S st.basic

theorem basisOk_iff (m n : Nat) (basic : List Nat) :
    basisOk m n basic = true ↔ basic.length = m ∧ (∀ j ∈ basic, j < n) ∧ basic.Nodup := by
  simp [basisOk, List.all_eq_true, and_assoc]

theorem inv_next (S : Std) (ftol otol : Rat) (hf : 0 ≤ ftol) (st st' : Bas) (hI : BasisInv S st)
    (h : pivot S ftol otol st = .next st') : BasisInv S st' := by
  obtain ⟨z, y, k, v, eta, l, θ, hz, hy, hk, he, hl, rfl⟩ := unpack_next S ftol otol st st' h
  have D := pivotData_of S ftol st z y eta k v hz hy hk he
  obtain ⟨hlen, hlt, hnd⟩ := (basisOk_iff _ _ _).mp hI.ok
  -- positions
  obtain ⟨_, hk'⟩ := argmaxPos_spec _ 0 none k v (fun _ _ hh => by cases hh) hk
  have hkl : k < st.nonbasic.length := by
    rcases hk' with hk' | ⟨t, ht, hkt, _⟩
    · cases hk'
    · simp only [reducedN, List.length_map] at ht; omega
  obtain ⟨h1, _, _⟩ := ratioTest_spec ftol _ _ 0 none l θ hl
  rcases h1 with h1 | ⟨p, hp1, _, hlp, hdp, _⟩
  · cases h1
  simp only [List.length_map] at hp1
  simp only [Nat.zero_add] at hlp
  subst hlp
  rw [getD_map_lt _ _ _ hp1] at hdp
  have henb : st.nonbasic.getD k 0 ∉ st.basic := by
    intro hh
    rw [← contains_iff_mem, D.enb] at hh; cases hh
  have hen : st.nonbasic.getD k 0 < S.c.length := by
    apply Classical.byContradiction
    intro hh
    have := D.eone
    rw [getD_ge_length eta _ (by rw [D.elen]; omega)] at this
    exact absurd this (by decide)
  refine ⟨?_, ?_, ?_⟩
  · rw [basisOk_iff]
    simp only [Bas.swap]
    refine ⟨by simpa using hlen, ?_, nodup_set _ _ _ hnd henb⟩
    intro j hj
    rcases List.mem_or_eq_of_mem_set hj with hj | hj
    · exact hlt j hj
    · rw [hj]; exact hen
  · intro j hj hnb
    simp only [Bas.swap] at hnb ⊢
    by_cases hb : st.basic.contains j = true
    · -- j was basic and is not any more: it is the leaving variable
      rw [contains_iff_mem] at hb
      obtain ⟨q, hq, hqe⟩ := List.mem_iff_getElem.mp hb
      by_cases hql : q = l
      · have : st.basic.getD l 0 = j := by rw [← hql]; simp [List.getD, hq, hqe]
        rw [this]
        exact List.mem_set hkl j
      · exfalso
        have : (st.basic.set l (st.nonbasic.getD k 0)).contains j = true := by
          rw [contains_iff_mem]
          refine List.mem_iff_getElem.mpr ⟨q, by simpa using hq, ?_⟩
          rw [List.getElem_set_ne (by omega)]; exact hqe
        rw [this] at hnb; cases hnb
    · have hjn := hI.cover j hj (by simpa using hb)
      obtain ⟨q, hq, hqe⟩ := List.mem_iff_getElem.mp hjn
      by_cases hqk : q = k
      · exfalso
        have hje : j = st.nonbasic.getD k 0 := by rw [← hqk]; simp [List.getD, hq, hqe]
        have : (st.basic.set l (st.nonbasic.getD k 0)).contains j = true := by
          rw [contains_iff_mem, hje]
          exact List.mem_set hp1 _
        rw [this] at hnb; cases hnb
      · refine List.mem_iff_getElem.mpr ⟨q, by simpa using hq, ?_⟩
        rw [List.getElem_set_ne (by omega)]; exact hqe
  · exact indep_pivot D hI.indep hnd hlt l hp1 (by grind)

theorem nonneg_next (S : Std) (otol : Rat) (st st' : Bas) (hI : BasisInv S st)
    (h : pivot S 0 otol st = .next st')
    (hz : ∀ z, basicPoint S st.basic = some z → ∀ w ∈ z, 0 ≤ w) :
    ∀ z', basicPoint S st'.basic = some z' → ∀ w ∈ z', 0 ≤ w := by
  have hI' := inv_next S 0 otol Rat.le_refl st st' hI h
  obtain ⟨z, y, k, v, eta, l, θ, hz1, hy, hk, he, hl, rfl⟩ := unpack_next S 0 otol st st' h
  have D := pivotData_of S 0 st z y eta k v hz1 hy hk he
  obtain ⟨_, _, hlen, hb, hnn, hoff, _⟩ := pivot_point D Rat.le_refl (hz z hz1) l θ hl
  intro z' hz'
  obtain ⟨a1, a2, a3⟩ := basicPoint_spec S _ z' hz'
  have heq := basic_unique S _ hI'.indep z' _ a1 hlen (by rw [a2, hb]) a3 hoff
  apply forall_mem_of_getD
  intro i hi
  rw [heq i]
  exact getD_of_forall_mem _ _ (hnn rfl) i (by rw [hlen, ← a1]; exact hi)

/-! ### the slack basis of `toStd P` -/

theorem rows1_has_row (mp : Nat) : ∀ (rs : Mat) (i0 t : Nat), t < rs.length →
    ∃ f, f ∈ rs ∧ (f ++ unit mp (i0 + t)) ∈ rows1 mp i0 rs := by
  intro rs
  induction rs with
  | nil => intro i0 t h; simp at h
  | cons r rs ih =>
    intro i0 t h
    cases t with
    | zero => exact ⟨r, by simp, by simp [rows1]⟩
    | succ t =>
      obtain ⟨f, hf, hm⟩ := ih (i0 + 1) t (by simpa using h)
      refine ⟨f, by simp [hf], ?_⟩
      simp only [rows1, List.mem_cons]
      right
      rw [show i0 + (t + 1) = i0 + 1 + t by omega]
      exact hm

theorem ubRows_has_row (n mp : Nat) : ∀ (us : List (Option Rat)) (ls : Vec) (j k t : Nat),
    us.length = ls.length → t < nUb us → ∃ j', (unit n j' ++ unit mp (k + t)) ∈ ubRows n mp j k us ls := by
  intro us
  induction us with
  | nil => intro ls j k t _ h; simp [nUb] at h
  | cons u us ih =>
    intro ls j k t hl h
    cases ls with
    | nil => simp at hl
    | cons l ls =>
      cases u with
      | none =>
        simp only [nUb] at h
        simp only [ubRows]
        exact ih ls (j + 1) k t (by simpa using hl) h
      | some u =>
        simp only [nUb] at h
        simp only [ubRows, List.mem_cons]
        cases t with
        | zero => exact ⟨j, Or.inl rfl⟩
        | succ t =>
          obtain ⟨j', hj'⟩ := ih ls (j + 1) (k + 1) t (by simpa using hl) (by omega)
          exact ⟨j', Or.inr (by rw [show k + (t + 1) = k + 1 + t by omega]; exact hj')⟩

theorem ubRhs_length : ∀ (us : List (Option Rat)) (ls : Vec), us.length = ls.length →
    (ubRhs us ls).length = nUb us := by
  intro us
  induction us with
  | nil => intro ls _; simp [ubRhs, nUb]
  | cons u us ih =>
    intro ls h
    cases ls with
    | nil => simp at h
    | cons l ls => cases u <;> simp [ubRhs, nUb, ih ls (by simpa using h)]

theorem toStd_rows (P : Problem) (hw : WF P) : (toStd P).a.length = P.a.length + nUb P.up := by
  simp [toStd, rows1_length, ubRows_length, ubRhs_length _ _ (by rw [hw.up, hw.lo] : P.up.length = P.lo.length)]

/-- every slack index has its own row `f ++ e_i` -/
theorem toStd_has_row (P : Problem) (hw : WF P) (i : Nat) (hi : i < P.a.length + nUb P.up) :
    ∃ f : Vec, f.length = P.c.length ∧ (f ++ unit (P.a.length + nUb P.up) i) ∈ (toStd P).a := by
  by_cases h : i < P.a.length
  · obtain ⟨f, hf, hm⟩ := rows1_has_row (P.a.length + nUb P.up) P.a 0 i h
    refine ⟨f, hw.rows f hf, ?_⟩
    simp only [toStd, List.mem_append]
    left; simpa using hm
  · obtain ⟨j', hm⟩ := ubRows_has_row P.c.length (P.a.length + nUb P.up) P.up P.lo 0 P.a.length (i - P.a.length)
      (by rw [hw.up, hw.lo]) (by omega)
    refine ⟨unit P.c.length j', unit_length _ _, ?_⟩
    simp only [toStd, List.mem_append]
    right
    rw [show P.a.length + (i - P.a.length) = i by omega] at hm
    exact hm

theorem initial_basic (n m : Nat) : (Bas.initial (n + m) m).basic = (List.range m).map (fun i => n + i) ∧
    (Bas.initial (n + m) m).nonbasic = List.range n := by
  simp [Bas.initial]

theorem slack_basis_inv (P : Problem) (hw : WF P) :
    BasisInv (toStd P) (Bas.initial (toStd P).c.length (toStd P).a.length) := by
  have hrows := toStd_rows P hw
  have hc := toStd_c_length P
  rw [hrows, hc]
  obtain ⟨hb, hnb⟩ := initial_basic P.c.length (P.a.length + nUb P.up)
  have hmem : ∀ j, j ∈ (Bas.initial (P.c.length + (P.a.length + nUb P.up)) (P.a.length + nUb P.up)).basic ↔
      P.c.length ≤ j ∧ j < P.c.length + (P.a.length + nUb P.up) := by
    intro j
    rw [hb]
    simp only [List.mem_map, List.mem_range]
    constructor
    · rintro ⟨i, hi, rfl⟩; omega
    · rintro ⟨h1, h2⟩; exact ⟨j - P.c.length, by omega, by omega⟩
  refine ⟨?_, ?_, ?_⟩
  · rw [basisOk_iff, hrows, hc]
    refine ⟨by rw [hb]; simp, fun j hj => ((hmem j).mp hj).2, ?_⟩
    rw [hb]
    have : (List.range (P.a.length + nUb P.up)).map (fun i => P.c.length + i)
        = List.range' (P.c.length + 0) (P.a.length + nUb P.up) 1 := by
      rw [List.range_eq_range']
      exact List.map_add_range' 0 _ 1
    rw [this]
    exact List.nodup_range'
  · intro j hj hnc
    rw [hc] at hj
    rw [hnb, List.mem_range]
    apply Classical.byContradiction
    intro hge
    have : (Bas.initial (P.c.length + (P.a.length + nUb P.up)) (P.a.length + nUb P.up)).basic.contains j = true := by
      rw [contains_iff_mem, hmem]; omega
    rw [this] at hnc; cases hnc
  · intro w hwl hwz hwo i
    rw [hc] at hwl
    by_cases hi : i < w.length
    · by_cases hin : i < P.c.length
      · exact offBasis_spec _ _ w 0 hwo i hi (by
          cases hcc : (Bas.initial (P.c.length + (P.a.length + nUb P.up)) (P.a.length + nUb P.up)).basic.contains (0 + i) with
          | false => rfl
          | true => rw [contains_iff_mem, hmem] at hcc; omega) (by simp)
      · -- a slack index: its own row reads off the entry
        obtain ⟨f, hfl, hrow⟩ := toStd_has_row P hw (i - P.c.length) (by omega)
        have h0 := row_dot_zero _ _ hwz _ hrow
        rw [dot_append_left, hfl, dot_unit, if_pos (by omega)] at h0
        have hfront : dot f w = 0 := by
          rw [← dot_take f w P.c.length (by omega)]
          apply dot_allzero
          intro v hv
          obtain ⟨q, hq, rfl⟩ := List.mem_iff_getElem.mp hv
          have hq' : q < P.c.length := by simp [List.length_take] at hq; omega
          have := offBasis_spec _ _ w 0 hwo q (by omega) (by
            cases hcc : (Bas.initial (P.c.length + (P.a.length + nUb P.up)) (P.a.length + nUb P.up)).basic.contains (0 + q) with
            | false => rfl
            | true => rw [contains_iff_mem, hmem] at hcc; omega) (by simp)
          rw [List.getElem_take]
          simpa [List.getD, show q < w.length by omega] using this
        rw [hfront] at h0
        have hd : (w.drop P.c.length).getD (i - P.c.length) 0 = w.getD i 0 := by
          simp only [List.getD, List.getElem?_drop]
          rw [show P.c.length + (i - P.c.length) = i by omega]
        rw [hd] at h0
        grind
    · exact getD_ge_length w i (by omega)

end Lp
end Selen

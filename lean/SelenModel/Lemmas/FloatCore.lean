/-
Helper lemmas for the float core at the exact instance `Num Rat` (see `Model/Num.lean`):
grid arithmetic (`ceil (m / s) * s` etc.), rounding, and the case-analysis specifications of the
four float arms of `Context::try_set_min/max` from which the property files derive their theorems.

Everything here is about exact rational arithmetic; IEEE rounding is NOT covered (the `Float`
instance of the same definitions is compared bit-exactly with the code by the suite `float`).
-/
import SelenModel.Model.FloatCore

namespace Selen
open Num

/-- unfold the `Num Rat` operations -/
macro "num_simp" loc:(Lean.Parser.Tactic.location)? : tactic =>
  `(tactic| simp only [Num.lt, Num.le, Num.gt, Num.ge, Num.feq, Num.isNaN, Num.isFinite, Num.isInf,
      Num.zero, Num.one, Num.two, Num.three, Num.ofInt, Num.floor, Num.ceil, Num.round, Num.abs,
      Num.fmax, Num.fmin, Num.clamp, Num.ulp, Num.nextFloat, Num.prevFloat,
      Num.e4, Num.e5, Num.e6, Num.e9, Num.e12, Rat.intCast_zero, Rat.intCast_one, Rat.intCast_ofNat] $[$loc]?)

namespace RatL

theorem div_le_iff {a b c : Rat} (hb : 0 < b) : a / b ≤ c ↔ a ≤ c * b := by
  have h := @Rat.lt_div_iff c a b hb
  constructor
  · intro h1; apply Rat.not_lt.mp; intro h2; exact absurd (h.mpr h2) (Rat.not_lt.mpr h1)
  · intro h1; apply Rat.not_lt.mp; intro h2; exact absurd (h.mp h2) (Rat.not_lt.mpr h1)

theorem le_div_iff {a b c : Rat} (hc : 0 < c) : a ≤ b / c ↔ a * c ≤ b := by
  have h := @Rat.div_lt_iff b c a hc
  constructor
  · intro h1; apply Rat.not_lt.mp; intro h2; exact absurd (h.mpr h2) (Rat.not_lt.mpr h1)
  · intro h1; apply Rat.not_lt.mp; intro h2; exact absurd (h.mp h2) (Rat.not_lt.mpr h1)

theorem div_mul_cancel' (m s : Rat) (hs : 0 < s) : m / s * s = m :=
  Rat.div_mul_cancel (Rat.ne_of_gt hs)

theorem div_le_div_right {a b s : Rat} (hs : 0 < s) (h : a ≤ b) : a / s ≤ b / s := by
  rw [div_le_iff hs, div_mul_cancel' b s hs]; exact h

theorem intCast_le {a b : Int} (h : a ≤ b) : (a : Rat) ≤ (b : Rat) := by
  have : (0 : Rat) ≤ ((b - a : Int) : Rat) := Rat.intCast_nonneg.mpr (by omega)
  have h2 : ((b - a : Int) : Rat) = (b : Rat) - (a : Rat) := by simp [Rat.intCast_sub]
  grind

theorem intCast_mul_le {a b : Int} {s : Rat} (hs : 0 ≤ s) (h : a ≤ b) : (a : Rat) * s ≤ (b : Rat) * s :=
  Rat.mul_le_mul_of_nonneg_right (intCast_le h) hs

/-- `ceil (m / s) * s` is the least grid point (from zero) that is `≥ m` … -/
theorem ceil_grid_ge (m s : Rat) (hs : 0 < s) : m ≤ ((m / s).ceil : Rat) * s :=
  (div_le_iff hs).mp Rat.le_ceil

/-- … and it is less than one step above `m` -/
theorem ceil_grid_lt (m s : Rat) (hs : 0 < s) : ((m / s).ceil : Rat) * s < m + s := by
  have h : ((m / s).ceil : Rat) < m / s + 1 := Rat.ceil_lt
  have h2 := Rat.mul_lt_mul_of_pos_right h hs
  have h3 := div_mul_cancel' m s hs
  grind

theorem floor_grid_le (m s : Rat) (hs : 0 < s) : ((m / s).floor : Rat) * s ≤ m :=
  (le_div_iff hs).mp (Rat.floor_le _)

theorem floor_grid_gt (m s : Rat) (hs : 0 < s) : m - s < ((m / s).floor : Rat) * s := by
  have h : m / s < (((m / s).floor + 1 : Int) : Rat) := Rat.lt_floor_add_one _
  have h1 : (((m / s).floor + 1 : Int) : Rat) = ((m / s).floor : Rat) + 1 := by simp [Rat.intCast_add]
  rw [h1] at h
  have h2 := Rat.mul_lt_mul_of_pos_right h hs
  have h3 := div_mul_cancel' m s hs
  grind

/-- a grid point `k * s` that is `≥ m` is `≥ ceil (m / s) * s` -/
theorem ceil_grid_le_of_grid (m s : Rat) (k : Int) (hs : 0 < s) (h : m ≤ (k : Rat) * s) :
    ((m / s).ceil : Rat) * s ≤ (k : Rat) * s := by
  have : (m / s).ceil ≤ k := Rat.ceil_le_iff.mpr ((div_le_iff hs).mpr h)
  exact intCast_mul_le (Rat.le_of_lt hs) this

/-- a grid point `k * s` that is `≤ m` is `≤ floor (m / s) * s` -/
theorem floor_grid_ge_of_grid (m s : Rat) (k : Int) (hs : 0 < s) (h : (k : Rat) * s ≤ m) :
    (k : Rat) * s ≤ ((m / s).floor : Rat) * s := by
  have : k ≤ (m / s).floor := Rat.le_floor_iff.mpr ((le_div_iff hs).mpr h)
  exact intCast_mul_le (Rat.le_of_lt hs) this

theorem ceil_mono {a b : Rat} (h : a ≤ b) : a.ceil ≤ b.ceil :=
  Rat.ceil_le_iff.mpr (Rat.le_trans h Rat.le_ceil)

theorem ceil_grid_mono (m m' s : Rat) (hs : 0 < s) (h : m ≤ m') :
    ((m / s).ceil : Rat) * s ≤ ((m' / s).ceil : Rat) * s :=
  intCast_mul_le (Rat.le_of_lt hs) (ceil_mono (div_le_div_right hs h))

theorem floor_grid_mono (m m' s : Rat) (hs : 0 < s) (h : m ≤ m') :
    ((m / s).floor : Rat) * s ≤ ((m' / s).floor : Rat) * s :=
  intCast_mul_le (Rat.le_of_lt hs) (Rat.floor_monotone (div_le_div_right hs h))

/-- `f64::round` at `Rat`: monotone -/
theorem roundHA_mono {a b : Rat} (h : a ≤ b) : RatImpl.roundHA a ≤ RatImpl.roundHA b := by
  unfold RatImpl.roundHA
  by_cases ha : 0 ≤ a
  · have hb : 0 ≤ b := Rat.le_trans ha h
    rw [if_pos ha, if_pos hb]
    exact Rat.floor_monotone (by grind)
  · by_cases hb : 0 ≤ b
    · rw [if_neg ha, if_pos hb]
      have h1 : (a - 1 / 2).ceil ≤ 0 := Rat.ceil_le_iff.mpr (by simp; grind)
      have h2 : (0 : Int) ≤ (b + 1 / 2).floor := Rat.le_floor_iff.mpr (by simp; grind)
      omega
    · rw [if_neg ha, if_neg hb]
      exact ceil_mono (by grind)

theorem round_grid_mono (m m' s : Rat) (hs : 0 < s) (h : m ≤ m') :
    (RatImpl.roundHA (m / s) : Rat) * s ≤ (RatImpl.roundHA (m' / s) : Rat) * s :=
  intCast_mul_le (Rat.le_of_lt hs) (roundHA_mono (div_le_div_right hs h))

end RatL

/-! ### validity -/

/-- a well-formed interval: `min ≤ max`, positive step -/
def FI.Valid (iv : FI Rat) : Prop := iv.min ≤ iv.max ∧ 0 < iv.step

/-- the "precision tolerance" of `try_set_min` (`max(3·step, |max|·1e-5)`) -/
def FI.ptMin (iv : FI Rat) : Rat := fmax (three * iv.step) (abs iv.max * e5)
/-- the "precision tolerance" of `try_set_max` (`max(3·step, |min|·1e-5)`) -/
def FI.ptMax (iv : FI Rat) : Rat := fmax (three * iv.step) (abs iv.min * e5)

theorem FI.ptMin_ge (iv : FI Rat) : 3 * iv.step ≤ iv.ptMin := by
  unfold FI.ptMin; num_simp; grind
theorem FI.ptMax_ge (iv : FI Rat) : 3 * iv.step ≤ iv.ptMax := by
  unfold FI.ptMax; num_simp; grind

/-! ### specifications of the float arms -/

namespace FCtx

/-- (VarF, ValF) `try_set_min`: complete case analysis at `Rat` -/
theorem fltSetMin_spec (c : FCtx Rat) (i : Nat) (iv : FI Rat) (m : Rat) (hv : iv.Valid) :
    match c.fltSetMin i iv m with
    | none => iv.max + iv.step / 2 < m ∧ iv.ptMin < m - iv.max
    | some (c', ret) =>
      (c' = c ∧ ret = .f iv.min ∧
        (m ≤ iv.min + iv.step / 2 ∨ (iv.max + iv.step / 2 < m ∧ m - iv.max ≤ iv.ptMin) ∨
         (iv.max - iv.min < iv.step / 2 ∧ m - iv.min < iv.ptMin))) ∨
      (∃ nm, c' = { st := updF c.st i (.flt { iv with min := nm }), ev := c.ev ++ [i] } ∧ ret = .f nm ∧
        iv.min + iv.step / 2 < m ∧ m ≤ iv.max + iv.step / 2 ∧
        iv.min < nm ∧ nm ≤ iv.max ∧ nm < m + iv.step ∧ (m ≤ nm ∨ nm = iv.max) ∧
        nm = (if iv.max < ((m / iv.step).ceil : Rat) * iv.step then iv.max else ((m / iv.step).ceil : Rat) * iv.step)) := by
  obtain ⟨h1, h2⟩ := hv
  have g1 := RatL.ceil_grid_ge m iv.step h2
  have g2 := RatL.ceil_grid_lt m iv.step h2
  simp only [FCtx.fltSetMin, FI.ptMin]
  num_simp
  grind

/-- (VarF, ValF) `try_set_max`: complete case analysis at `Rat` -/
theorem fltSetMax_spec (c : FCtx Rat) (i : Nat) (iv : FI Rat) (m : Rat) (hv : iv.Valid) :
    match c.fltSetMax i iv m with
    | none => m < iv.min ∧ iv.step < iv.min - m ∧ iv.ptMax < iv.min - m
    | some (c', ret) =>
      (c' = c ∧ ret = .f iv.max ∧
        (iv.max - iv.step / 2 ≤ m ∨ (m < iv.min ∧ iv.step < iv.min - m ∧ iv.min - m ≤ iv.ptMax) ∨
         (iv.max - iv.min < iv.step / 2 ∧ iv.max - m < iv.ptMax ∧ m - iv.max < iv.ptMax))) ∨
      (c' = { st := updF c.st i (.flt { iv with max := iv.min }), ev := c.ev ++ [i] } ∧ ret = .f iv.min ∧
        m < iv.min ∧ iv.min - m ≤ iv.step ∧ iv.step / 2 ≤ iv.max - iv.min) ∨
      (∃ nm, c' = { st := updF c.st i (.flt { iv with max := nm }), ev := c.ev ++ [i] } ∧ ret = .f nm ∧
        iv.min ≤ m ∧ m < iv.max - iv.step / 2 ∧
        iv.min ≤ nm ∧ nm < iv.max ∧ m - iv.step < nm ∧ nm ≤ m ∧
        nm = (if ((m / iv.step).floor : Rat) * iv.step < iv.min then iv.min else ((m / iv.step).floor : Rat) * iv.step)) := by
  obtain ⟨h1, h2⟩ := hv
  have g1 := RatL.floor_grid_le m iv.step h2
  have g2 := RatL.floor_grid_gt m iv.step h2
  simp only [FCtx.fltSetMax, FI.ptMax]
  num_simp
  grind

/-- (VarF, ValI) `try_set_min` -/
theorem fltSetMinI_spec (c : FCtx Rat) (i : Nat) (iv : FI Rat) (m : Int) :
    match c.fltSetMinI i iv m with
    | none => iv.max + iv.step / 2 < (m : Rat)
    | some (c', ret) =>
      (c' = c ∧ ret = .f iv.min ∧ (m : Rat) ≤ iv.min + iv.step / 2) ∨
      (c' = { st := updF c.st i (.flt { iv with min := (m : Rat) }), ev := c.ev ++ [i] } ∧ ret = .f (m : Rat) ∧
        iv.min + iv.step / 2 < (m : Rat) ∧ (m : Rat) ≤ iv.max + iv.step / 2) := by
  simp only [FCtx.fltSetMinI]
  num_simp
  grind

/-- (VarF, ValI) `try_set_max` -/
theorem fltSetMaxI_spec (c : FCtx Rat) (i : Nat) (iv : FI Rat) (m : Int) :
    match c.fltSetMaxI i iv m with
    | none => (m : Rat) < iv.min - iv.step / 2
    | some (c', ret) =>
      (c' = c ∧ ret = .f iv.max ∧ iv.max - iv.step / 2 ≤ (m : Rat)) ∨
      (c' = { st := updF c.st i (.flt { iv with max := (m : Rat) }), ev := c.ev ++ [i] } ∧ ret = .f (m : Rat) ∧
        (m : Rat) < iv.max - iv.step / 2 ∧ iv.min - iv.step / 2 ≤ (m : Rat)) := by
  simp only [FCtx.fltSetMaxI]
  num_simp
  grind

end FCtx

end Selen

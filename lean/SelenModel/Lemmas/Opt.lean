/-
Semantics of a model description (`OModel Rat`) and the lemmas behind `Props/C08.lean`:

* `feasible m a`     — the assignment `a` (one rational per variable) lies in every domain and
                       satisfies EVERY posted constraint, whatever route it was posted by;
* `fastGuard`        — the decidable guard of `C08_fast_path_sound_partial`;
* metadata extraction (`collect …`) versus the posts, `foldBound` as a minimum / maximum,
  `createSol` position by position, `route = fast` comes from `trySafe`.

Exact rationals throughout (`Num Rat`); IEEE rounding is outside (see `Model/Num.lean`).
-/
import SelenModel.Model.Opt
import SelenModel.Lemmas.FloatCore
import SelenModel.Lemmas.Lp

namespace Selen
namespace Opt
open Num

deriving instance DecidableEq for FVal
deriving instance DecidableEq for Decision
deriving instance DecidableEq for Path

/-! ### semantics -/

def varOk : FVar Rat → Rat → Bool
  | .flt iv, a => decide (iv.min ≤ a) && decide (a ≤ iv.max)
  | .int d, a => d.any (fun k => decide (a = (k : Rat)))

def varsOk : List (FVar Rat) → List Rat → Bool
  | [], [] => true
  | v :: vs, a :: as => varOk v a && varsOk vs as
  | _, _ => false

def Opnd.val (a : List Rat) : Opnd Rat → Rat
  | .v i => a.getD i 0
  | .c x => x

def Rel.holds : Rel → Rat → Rat → Bool
  | .le, x, y => decide (x ≤ y)
  | .lt, x, y => decide (x < y)
  | .ge, x, y => decide (y ≤ x)
  | .gt, x, y => decide (y < x)
  | .eq, x, y => decide (x = y)
  | .ne, x, y => decide (x ≠ y)

/-- `Σ csᵢ · a[xsᵢ]` -/
def rowVal (a : List Rat) : List Rat → List Nat → Rat
  | c :: cs, x :: xs => c * a.getD x 0 + rowVal a cs xs
  | _, _ => 0

/-- what a posted constraint MEANS (independent of the route) -/
def Post.holds (a : List Rat) : Post Rat → Bool
  | .cmp rel l r => rel.holds (l.val a) (r.val a)
  | .plin isEq cs xs rhs => (if isEq then Rel.eq else Rel.le).holds (rowVal a cs xs) rhs
  | .pend rel cs xs rhs _ _ => rel.holds (rowVal a cs xs) rhs

def feasible (m : OModel Rat) (a : List Rat) : Bool :=
  varsOk m.vars a && m.posts.all (fun p => p.holds a)

/-- `better isMax x y`: `y` is at least as good as `x` -/
def atLeastAsGood (isMax : Bool) (x y : Rat) : Prop := if isMax then x ≤ y else y ≤ x

/-- the point a fast-path answer denotes -/
def solPoint (s : List (FVal Rat)) : List Rat := s.map FVal.toF

/-! ### the guard -/

/-- a non-strict bound on the objective variable in one of the orientations from which
`analyze_constraint_for_variable` extracts a value -/
def boundPost (obj : Nat) : Post Rat → Bool
  | .cmp .le (.v x) (.c _) => x == obj
  | .cmp .le (.c _) (.v x) => x == obj
  | .cmp .ge (.v x) (.c _) => x == obj
  | .cmp .ge (.c _) (.v x) => x == obj
  | .cmp .eq (.v x) (.c _) => x == obj
  | _ => false

/-- the constants `c` with "objective ≤ c" -/
def upOf : Post Rat → List Rat
  | .cmp .le (.v _) (.c c) => [c]
  | .cmp .ge (.c c) (.v _) => [c]
  | .cmp .eq (.v _) (.c c) => [c]
  | _ => []

/-- the constants `c` with "c ≤ objective" -/
def loOf : Post Rat → List Rat
  | .cmp .le (.c c) (.v _) => [c]
  | .cmp .ge (.v _) (.c c) => [c]
  | .cmp .eq (.v _) (.c c) => [c]
  | _ => []

def nonEmptyVar : FVar Rat → Bool
  | .flt iv => decide (iv.min ≤ iv.max)
  | .int d => !d.isEmpty

/-- Guard of the router-level statement `C08_router_sound_partial` (the router called on its own,
without the validation and the pending-AST test of the entry points):
 1. the objective is a float variable with `min ≤ max`, every variable has a non-empty domain;
 2. every posted constraint is a props-level non-strict bound `x ≤ c`, `c ≤ x`, `x ≥ c`, `c ≥ x`,
    `x = c` on the OBJECTIVE variable (no deferred post, no linear row, nothing on another variable);
 3. these bounds are consistent with each other and with the domain (the model is feasible);
 4. the router's answer does not come from the propagation input (`usesProp = false`). -/
def routerGuard (m : OModel Rat) (isMax : Bool) (obj : Nat) : Bool :=
  (match m.vars[obj]? with
   | some (.flt iv) =>
     decide (iv.min ≤ iv.max)
       && (m.posts.flatMap loOf).all (fun l => decide (l ≤ iv.max))
       && (m.posts.flatMap upOf).all (fun u => decide (iv.min ≤ u))
   | _ => false)
  && m.vars.all nonEmptyVar
  && m.posts.all (boundPost obj)
  && (m.posts.flatMap loOf).all (fun l => (m.posts.flatMap upOf).all (fun u => decide (l ≤ u)))
  && !usesProp m isMax obj

/-- Guard of `C08_fast_path_sound_partial` (entry points `minimize` / `maximize`):
 1. every posted constraint is a props-level non-strict bound `x ≤ c`, `c ≤ x`, `x ≥ c`, `c ≥ x`,
    `x = c` on the OBJECTIVE variable;
 2. these bounds are consistent with each other and with the domain of the objective;
 3. the router's answer does not come from the propagation input (`usesProp = false`).
Since the fixes c9cb80d / 9b99c03 / 87f7dea the guard no longer has to ask for "no deferred
constraint", "the objective is a float variable" and "no empty domain": the entry point declines,
declines and reports `InvalidDomain` in these cases. -/
def fastGuard (m : OModel Rat) (isMax : Bool) (obj : Nat) : Bool :=
  (match m.vars[obj]? with
   | some (.flt iv) =>
     (m.posts.flatMap loOf).all (fun l => decide (l ≤ iv.max))
       && (m.posts.flatMap upOf).all (fun u => decide (iv.min ≤ u))
   | _ => true)
  && m.posts.all (boundPost obj)
  && (m.posts.flatMap loOf).all (fun l => (m.posts.flatMap upOf).all (fun u => decide (l ≤ u)))
  && !usesProp m isMax obj

/-! ### small facts at `Rat` -/

theorem fmin_rat (a b : Rat) : (fmin a b : Rat) = if b < a then b else a := by
  simp only [Num.fmin]; num_simp; simp

theorem fmax_rat (a b : Rat) : (fmax a b : Rat) = if a < b then b else a := by
  simp only [Num.fmax]; num_simp; simp

theorem foldl_fmin_spec (l : List Rat) (b : Rat) :
    (l.foldl fmin b = b ∨ l.foldl fmin b ∈ l) ∧ l.foldl fmin b ≤ b ∧ ∀ c ∈ l, l.foldl fmin b ≤ c := by
  induction l generalizing b with
  | nil => simp
  | cons x xs ih =>
    simp only [List.foldl_cons, List.mem_cons]
    have := ih (fmin b x)
    rw [fmin_rat] at this ⊢
    grind

theorem foldl_fmax_spec (l : List Rat) (b : Rat) :
    (l.foldl fmax b = b ∨ l.foldl fmax b ∈ l) ∧ b ≤ l.foldl fmax b ∧ ∀ c ∈ l, c ≤ l.foldl fmax b := by
  induction l generalizing b with
  | nil => simp
  | cons x xs ih =>
    simp only [List.foldl_cons, List.mem_cons]
    have := ih (fmax b x)
    rw [fmax_rat] at this ⊢
    grind

/-- `get_effective_upper_bound` is the minimum of its list -/
theorem foldBound_fmin (l : List Rat) :
    match foldBound fmin l with
    | none => l = []
    | some u => u ∈ l ∧ ∀ c ∈ l, u ≤ c := by
  cases l with
  | nil => simp [foldBound]
  | cons b bs =>
    simp only [foldBound]
    have := foldl_fmin_spec bs b
    grind

theorem foldBound_fmax (l : List Rat) :
    match foldBound fmax l with
    | none => l = []
    | some u => u ∈ l ∧ ∀ c ∈ l, c ≤ u := by
  cases l with
  | nil => simp [foldBound]
  | cons b bs =>
    simp only [foldBound]
    have := foldl_fmax_spec bs b
    grind

/-! ### metadata extraction versus the posts -/

/-- what one post contributes to a field of the analysis of variable `obj` -/
def Post.contrib (f : Nat → Meta Rat → List Rat) (obj : Nat) (p : Post Rat) : List Rat :=
  match p.meta with
  | none => []
  | some md => (md.vars.filter (fun y => decide (y = obj))).flatMap (fun _ => f obj md)

theorem collect_posts (f : Nat → Meta Rat → List Rat) (obj : Nat) (posts : List (Post Rat)) :
    collect f obj (posts.filterMap Post.meta) = posts.flatMap (Post.contrib f obj) := by
  induction posts with
  | nil => simp [collect]
  | cons p ps ih =>
    simp only [List.filterMap_cons, List.flatMap_cons]
    cases hm : p.meta with
    | none => simp only [Post.contrib, hm, List.nil_append]; exact ih
    | some md =>
      simp only [Post.contrib, hm]
      simp only [collect, List.flatMap_cons] at ih ⊢
      rw [ih]

theorem contrib_bound (obj : Nat) (p : Post Rat) (h : boundPost obj p = true) :
    (∀ c, c ∈ p.contrib ubOf obj ++ p.contrib eqOf obj ↔ c ∈ upOf p) ∧
    (∀ c, c ∈ p.contrib lbOf obj ++ p.contrib eqOf obj ↔ c ∈ loOf p) ∧
    p.contrib subOf obj = [] ∧ p.contrib slbOf obj = [] := by
  cases p with
  | cmp rel l r =>
    cases rel <;> cases l <;> cases r <;>
      simp_all [boundPost, Post.contrib, Post.meta, Opnd.under, Opnd.info, ubOf, lbOf, eqOf, subOf, slbOf, upOf, loOf]
  | plin isEq cs xs rhs => simp [boundPost] at h
  | pend rel cs xs rhs lp scan => simp [boundPost] at h

theorem mem_flatMap_contrib (obj : Nat) (posts : List (Post Rat)) (h : posts.all (boundPost obj) = true) :
    (∀ c, c ∈ posts.flatMap (Post.contrib ubOf obj) ++ posts.flatMap (Post.contrib eqOf obj) ↔ c ∈ posts.flatMap upOf) ∧
    (∀ c, c ∈ posts.flatMap (Post.contrib lbOf obj) ++ posts.flatMap (Post.contrib eqOf obj) ↔ c ∈ posts.flatMap loOf) ∧
    posts.flatMap (Post.contrib subOf obj) = [] ∧ posts.flatMap (Post.contrib slbOf obj) = [] := by
  induction posts with
  | nil => simp
  | cons p ps ih =>
    simp only [List.all_cons, Bool.and_eq_true] at h
    obtain ⟨i1, i2, i3, i4⟩ := ih h.2
    obtain ⟨c1, c2, c3, c4⟩ := contrib_bound obj p h.1
    simp only [List.flatMap_cons, List.mem_append] at i1 i2 c1 c2 ⊢
    refine ⟨?_, ?_, ?_, ?_⟩
    · intro c; have := i1 c; have := c1 c; grind
    · intro c; have := i2 c; have := c2 c; grind
    · simp [c3, i3]
    · simp [c4, i4]

/-- under the guard's shape condition `get_effective_upper_bound` is the minimum of the constants
`c` with "objective ≤ c", `get_effective_lower_bound` the maximum of those with "c ≤ objective" -/
theorem effUpper_bound (m : OModel Rat) (obj : Nat) (h : m.posts.all (boundPost obj) = true) :
    match effUpper obj m.metas with
    | none => m.posts.flatMap upOf = []
    | some u => u ∈ m.posts.flatMap upOf ∧ ∀ c ∈ m.posts.flatMap upOf, u ≤ c := by
  obtain ⟨i1, _, i3, _⟩ := mem_flatMap_contrib obj m.posts h
  have hf := foldBound_fmin (collect ubOf obj m.metas ++ (collect subOf obj m.metas).map prevFloat ++ collect eqOf obj m.metas)
  simp only [effUpper]
  simp only [OModel.metas, collect_posts, i3, List.map_nil, List.append_nil] at hf ⊢
  cases hfb : foldBound fmin (m.posts.flatMap (Post.contrib ubOf obj) ++ m.posts.flatMap (Post.contrib eqOf obj)) with
  | none =>
    rw [hfb] at hf
    simp only at hf ⊢
    cases hl : m.posts.flatMap upOf with
    | nil => rfl
    | cons c cs => have := (i1 c).mpr (by rw [hl]; simp); rw [hf] at this; simp at this
  | some u =>
    rw [hfb] at hf
    simp only at hf ⊢
    exact ⟨(i1 u).mp hf.1, fun c hc => hf.2 c ((i1 c).mpr hc)⟩

theorem effLower_bound (m : OModel Rat) (obj : Nat) (h : m.posts.all (boundPost obj) = true) :
    match effLower obj m.metas with
    | none => m.posts.flatMap loOf = []
    | some l => l ∈ m.posts.flatMap loOf ∧ ∀ c ∈ m.posts.flatMap loOf, c ≤ l := by
  obtain ⟨_, i2, _, i4⟩ := mem_flatMap_contrib obj m.posts h
  have hf := foldBound_fmax (collect lbOf obj m.metas ++ (collect slbOf obj m.metas).map nextFloat ++ collect eqOf obj m.metas)
  simp only [effLower]
  simp only [OModel.metas, collect_posts, i4, List.map_nil, List.append_nil] at hf ⊢
  cases hfb : foldBound fmax (m.posts.flatMap (Post.contrib lbOf obj) ++ m.posts.flatMap (Post.contrib eqOf obj)) with
  | none =>
    rw [hfb] at hf
    simp only at hf ⊢
    cases hl : m.posts.flatMap loOf with
    | nil => rfl
    | cons c cs => have := (i2 c).mpr (by rw [hl]; simp); rw [hf] at this; simp at this
  | some u =>
    rw [hfb] at hf
    simp only at hf ⊢
    exact ⟨(i2 u).mp hf.1, fun c hc => hf.2 c ((i2 c).mpr hc)⟩


/-! ### meaning of the guarded posts -/

theorem holds_bound (obj : Nat) (a : List Rat) (p : Post Rat) (h : boundPost obj p = true) :
    p.holds a = true ↔ (∀ c ∈ upOf p, a.getD obj 0 ≤ c) ∧ (∀ c ∈ loOf p, c ≤ a.getD obj 0) := by
  cases p with
  | cmp rel l r =>
    cases rel <;> cases l <;> cases r <;>
      simp_all [boundPost, Post.holds, Rel.holds, Opnd.val, upOf, loOf]
    grind
  | plin isEq cs xs rhs => simp [boundPost] at h
  | pend rel cs xs rhs lp scan => simp [boundPost] at h

theorem all_holds_bound (obj : Nat) (a : List Rat) (posts : List (Post Rat)) (h : posts.all (boundPost obj) = true) :
    posts.all (fun p => p.holds a) = true ↔
      (∀ c ∈ posts.flatMap upOf, a.getD obj 0 ≤ c) ∧ (∀ c ∈ posts.flatMap loOf, c ≤ a.getD obj 0) := by
  induction posts with
  | nil => simp
  | cons p ps ih =>
    simp only [List.all_cons, Bool.and_eq_true] at h ⊢
    rw [ih h.2, holds_bound obj a p h.1]
    simp only [List.flatMap_cons, List.mem_append]
    grind

/-! ### `create_unconstrained_solution` -/

theorem foldl_min_mem (xs : List Int) (x : Int) :
    xs.foldl (fun m y => if y < m then y else m) x ∈ x :: xs := by
  induction xs generalizing x with
  | nil => simp
  | cons y ys ih =>
    simp only [List.foldl_cons]
    have := ih (if y < x then y else x)
    grind

theorem ilmin_mem (d : List Int) (h : d ≠ []) : ilmin d ∈ d := by
  cases d with
  | nil => exact absurd rfl h
  | cons x xs => exact foldl_min_mem xs x

theorem clamp_inside (x lo hi : Rat) (h : lo ≤ hi) :
    ∃ r, clamp x lo hi = some r ∧ lo ≤ r ∧ r ≤ hi := by
  simp only [Num.clamp]; num_simp; grind

theorem mid_inside (iv : FI Rat) (hne : iv.min ≤ iv.max) (r : Rat) (hr : iv.mid = some r) :
    iv.min ≤ r ∧ r ≤ iv.max := by
  unfold FI.mid at hr
  by_cases h1 : iv.isEmpty = true
  · rw [if_pos h1] at hr; cases hr; exact ⟨Rat.le_refl, hne⟩
  · rw [if_neg h1] at hr
    by_cases h2 : iv.isFixed = true
    · rw [if_pos h2] at hr; cases hr; exact ⟨Rat.le_refl, hne⟩
    · rw [if_neg h2] at hr
      simp only [FI.roundToStep] at hr
      generalize iv.min + round _ * iv.step = y at hr
      obtain ⟨r', hr', h1, h2⟩ := clamp_inside y iv.min iv.max hne
      rw [hr] at hr'
      cases hr'
      exact ⟨h1, h2⟩

/-- the value a non-objective variable gets lies in its (non-empty) domain -/
theorem otherValue_ok (var : FVar Rat) (val : FVal Rat) (hne : nonEmptyVar var = true)
    (h : otherValue var = some val) : varOk var val.toF = true := by
  cases var with
  | int d =>
    simp only [otherValue, Option.some.injEq] at h
    subst h
    simp only [nonEmptyVar, Bool.not_eq_true', List.isEmpty_eq_false_iff] at hne
    simp only [varOk, FVal.toF, List.any_eq_true]
    exact ⟨ilmin d, ilmin_mem d hne, by num_simp; simp⟩
  | flt iv =>
    simp only [nonEmptyVar, decide_eq_true_eq] at hne
    simp only [otherValue] at h
    by_cases hf : iv.isFixed = true
    · rw [if_pos hf] at h
      cases h
      simp only [varOk, FVal.toF, Bool.and_eq_true]; exact ⟨decide_eq_true Rat.le_refl, decide_eq_true hne⟩
    · rw [if_neg hf] at h
      cases hm : iv.mid with
      | none => rw [hm] at h; cases h
      | some r =>
        rw [hm] at h
        cases h
        have := mid_inside iv hne r hm
        simp only [varOk, FVal.toF, Bool.and_eq_true]
        exact ⟨decide_eq_true this.1, decide_eq_true this.2⟩

theorem createSol_varsOk (x : Nat) (v : Rat) : ∀ (vars : List (FVar Rat)) (i : Nat) (s : List (FVal Rat)),
    createSol x v i vars = some s → vars.all nonEmptyVar = true →
    (∀ j var, vars[j]? = some var → i + j = x → varOk var v = true) →
    varsOk vars (solPoint s) = true := by
  intro vars
  induction vars with
  | nil =>
    intro i s h _ _
    simp only [createSol, Option.some.injEq] at h
    subst h
    simp [solPoint, varsOk]
  | cons var rest ih =>
    intro i s h hne hx
    simp only [List.all_cons, Bool.and_eq_true] at hne
    simp only [createSol] at h
    split at h
    · rename_i hd tl hhd htl
      simp only [Option.some.injEq] at h
      subst h
      simp only [solPoint, List.map_cons, varsOk, Bool.and_eq_true]
      refine ⟨?_, ?_⟩
      · by_cases hix : i = x
        · simp only [hix, if_true, Option.some.injEq] at hhd
          subst hhd
          exact hx 0 var (by simp) (by omega)
        · simp only [hix, if_false] at hhd
          exact otherValue_ok var hd hne.1 hhd
      · exact ih (i + 1) tl htl hne.2 (fun j var' hj hij => hx (j + 1) var' (by simpa using hj) (by omega))
    · simp at h

theorem createSol_obj (x : Nat) (v : Rat) : ∀ (vars : List (FVar Rat)) (i : Nat) (s : List (FVal Rat)),
    createSol x v i vars = some s → ∀ j, j < vars.length → i + j = x → (solPoint s).getD j 0 = v := by
  intro vars
  induction vars with
  | nil => intro i s _ j hj; simp at hj
  | cons var rest ih =>
    intro i s h j hj hij
    simp only [createSol] at h
    split at h
    · rename_i hd tl hhd htl
      simp only [Option.some.injEq] at h
      subst h
      cases j with
      | zero =>
        have : i = x := by omega
        simp only [this, if_true, Option.some.injEq] at hhd
        subst hhd
        simp [solPoint, FVal.toF]
      | succ j =>
        have := ih (i + 1) tl htl j (by simpa using hj) (by omega)
        simpa [solPoint] using this
    · simp at h


/-! ### the router -/

theorem hybrid_not_fast (vars : List (FVar Rat)) (s : List (FVal Rat)) : hybrid vars ≠ .fast s := by
  simp only [hybrid]; split <;> simp

/-- a fast-path answer of the router always comes out of `try_safe_float_{min,max}imize` applied
to the variable picked by `extract_simple_variable` -/
theorem route_fast (m : OModel Rat) (pbs : List (Option (Rat × Rat))) (isMax : Bool) (obj : Nat)
    (sol : List (FVal Rat)) (h : route m pbs isMax obj = .fast sol) :
    ∃ x, extractSimple m.vars obj = some x ∧ trySafe m pbs isMax x = .fast sol := by
  simp only [route] at h
  cases he : extractSimple m.vars obj with
  | none =>
    rw [he] at h
    simp only at h
    split at h
    · exact absurd h (hybrid_not_fast _ _)
    · simp at h
  | some x =>
    rw [he] at h
    simp only at h
    refine ⟨x, rfl, ?_⟩
    cases hc : classify m.vars with
    | pureInt => rw [hc] at h; simp at h
    | pureFloat =>
      rw [hc] at h
      simp only at h
      by_cases hx : hasComplex m.vars = true
      · rw [if_pos hx] at h; simp at h
      · rw [if_neg hx] at h; exact h
    | mixed =>
      rw [hc] at h
      simp only at h
      cases isMax with
      | false => exact absurd h (hybrid_not_fast _ _)
      | true =>
        simp only [if_true] at h
        by_cases hs : safeMaxApplies m.vars x = true
        · rw [if_pos hs] at h
          cases ht : trySafe m pbs true x with
          | fast s => rw [ht] at h; exact h
          | panic => rw [ht] at h; simp at h
          | declined r => rw [ht] at h; exact absurd h (hybrid_not_fast _ _)
        · rw [if_neg hs] at h; exact absurd h (hybrid_not_fast _ _)

theorem extractSimple_float (vars : List (FVar Rat)) (obj : Nat) (iv : FI Rat)
    (h : vars[obj]? = some (.flt iv)) : extractSimple vars obj = some obj := by
  simp [extractSimple, h]


/-! ### the entry points -/

theorem validVar_nonEmpty (v : FVar Rat) (h : validVar v = true) : nonEmptyVar v = true := by
  cases v with
  | int d => simpa [validVar, nonEmptyVar] using h
  | flt iv =>
    simp only [validVar, Bool.and_eq_true, Bool.not_eq_true'] at h
    have := h.1.1
    num_simp at this
    simp only [nonEmptyVar, decide_eq_true_eq]
    simp only [decide_eq_false_iff_not, Rat.not_lt] at this
    exact this

theorem extractSimple_some (vars : List (FVar Rat)) (obj x : Nat) (h : extractSimple vars obj = some x) :
    x = obj ∧ ∃ iv, vars[obj]? = some (.flt iv) := by
  simp only [extractSimple] at h
  split at h
  · rename_i iv hv; simp only [Option.some.injEq] at h; exact ⟨h.symm, iv, hv⟩
  · simp at h

theorem mkSol_not_declined (m : OModel Rat) (x : Nat) (v : Rat) (r : Reason) : mkSol m x v ≠ .declined r := by
  simp only [mkSol]; split <;> simp

/-- when the answer does not depend on the propagation input, `try_safe_float_*` never declines -/
theorem trySafe_not_declined (m : OModel Rat) (pbs : List (Option (Rat × Rat))) (isMax : Bool) (x : Nat)
    (iv : FI Rat) (hv : m.vars[x]? = some (.flt iv)) (hnp : usesProp m isMax x = false) (r : Reason) :
    trySafe m pbs isMax x ≠ .declined r := by
  simp only [trySafe, hv]
  cases hp : m.propsNonEmpty with
  | false => simp only [Bool.false_eq_true, if_false]; exact mkSol_not_declined _ _ _ _
  | true =>
    simp only [if_true]
    simp only [usesProp, hv, hp, Bool.true_and] at hnp
    cases htm : tryMeta iv x m.metas isMax with
    | none => rw [htm] at hnp; simp at hnp
    | some res =>
      cases res with
      | fail => rw [htm] at hnp; simp at hnp
      | ok v => simp only [withPrecision, htm]; exact mkSol_not_declined _ _ _ _

/-- a fast answer of `try_minimize` only exists for pure float models with at most two variables -/
theorem route_min_fast_pure (m : OModel Rat) (pbs : List (Option (Rat × Rat))) (obj : Nat) (sol : List (FVal Rat))
    (h : route m pbs false obj = .fast sol) :
    classify m.vars = .pureFloat ∧ hasComplex m.vars = false := by
  simp only [route] at h
  cases he : extractSimple m.vars obj with
  | none =>
    rw [he] at h
    simp only at h
    split at h
    · exact absurd h (hybrid_not_fast _ _)
    · simp at h
  | some x =>
    rw [he] at h
    simp only at h
    cases hc : classify m.vars with
    | pureInt => rw [hc] at h; simp at h
    | mixed => rw [hc] at h; simp only [Bool.false_eq_true, if_false] at h; exact absurd h (hybrid_not_fast _ _)
    | pureFloat =>
      rw [hc] at h
      simp only at h
      cases hx : hasComplex m.vars with
      | true => rw [hx] at h; simp at h
      | false => exact ⟨rfl, rfl⟩

/-! ### the root LP is a relaxation of the linear rows -/

open Lp in
theorem dot_set (row X : List Rat) (i : Nat) (c : Rat) (hi : i < row.length) (hl : row.length = X.length) :
    dot (row.set i c) X = dot row X + (c - row.getD i 0) * X.getD i 0 := by
  induction row generalizing i X with
  | nil => simp at hi
  | cons r rs ih =>
    cases X with
    | nil => simp at hl
    | cons x xs =>
      cases i with
      | zero => simp only [List.set_cons_zero, dot_cons, List.getD_cons_zero]; grind
      | succ i =>
        simp only [List.set_cons_succ, dot_cons, List.getD_cons_succ]
        rw [ih xs i (by simpa using hi) (by simpa using hl)]
        grind

/-- position of `x` in `cols` as computed by `buildRow` -/
def idx (cols : List Nat) (x : Nat) : Nat := cols.findIdx (fun y => decide (y = x))

theorem idx_lt (cols : List Nat) (x : Nat) (h : x ∈ cols) : idx cols x < cols.length := by
  simp only [idx]
  exact List.findIdx_lt_length_of_exists ⟨x, h, by simp⟩

theorem getD_idx (cols : List Nat) (x d : Nat) (h : x ∈ cols) : cols.getD (idx cols x) d = x := by
  have hl := idx_lt cols x h
  have := List.findIdx_getElem (w := hl) (p := fun y => decide (y = x)) (xs := cols)
  simp only [decide_eq_true_eq] at this
  simp only [List.getD_eq_getElem?_getD, List.getElem?_eq_getElem hl, Option.getD_some]
  exact this

theorem idx_inj (cols : List Nat) (x y : Nat) (hx : x ∈ cols) (hy : y ∈ cols) (h : idx cols x = idx cols y) : x = y := by
  have h1 := getD_idx cols x 0 hx
  have h2 := getD_idx cols y 0 hy
  rw [h] at h1
  rw [h1] at h2
  exact h2

theorem map_getD_idx (cols : List Nat) (f : Nat → Rat) (x : Nat) (h : x ∈ cols) :
    (cols.map f).getD (idx cols x) 0 = f x := by
  have hl := idx_lt cols x h
  have := getD_idx cols x 0 h
  simp only [List.getD_eq_getElem?_getD, List.getElem?_map, List.getElem?_eq_getElem hl, Option.map_some, Option.getD_some] at this ⊢
  rw [this]

theorem rowVal_nil_right (a : List Rat) (cs : List Rat) : rowVal a cs [] = 0 := by
  cases cs <;> rfl

theorem rowVal_neg (a : List Rat) : ∀ (cs : List Rat) (xs : List Nat),
    rowVal a (cs.map (fun c => -c)) xs = - rowVal a cs xs := by
  intro cs
  induction cs with
  | nil => intro xs; simp [rowVal]
  | cons c cs ih =>
    intro xs
    cases xs with
    | nil => simp [rowVal]
    | cons x xs => simp only [List.map_cons, rowVal, ih xs]; grind

open Lp in
/-- `buildRow`: with constants equal to their substituted value, the built row minus its
right-hand side is the old one plus `Σ cᵢ·a(xᵢ)` (coefficients of a repeated variable add up) -/
theorem buildRow_spec (vars : List (FVar Rat)) (cols : List Nat) (a : List Rat) :
    ∀ (xs : List Nat) (cs : List Rat) (row : List Rat) (rhs : Rat),
      (∀ x ∈ xs, isConst (vars.getD x (.int [0])) = true → a.getD x 0 = (boundsOf (vars.getD x (.int [0]))).1) →
      row.length = cols.length →
      (∀ x ∈ xs, isConst (vars.getD x (.int [0])) = false → x ∈ cols) →
      (buildRow vars cols xs cs (row, rhs)).1.length = cols.length ∧
      dot (buildRow vars cols xs cs (row, rhs)).1 (cols.map (fun v => a.getD v 0)) - (buildRow vars cols xs cs (row, rhs)).2
        = dot row (cols.map (fun v => a.getD v 0)) - rhs + rowVal a cs xs := by
  intro xs
  induction xs with
  | nil =>
    intro cs row rhs _ hl _
    simp only [buildRow, rowVal_nil_right]
    exact ⟨hl, by grind⟩
  | cons x xs ih =>
    intro cs row rhs hconst hl hin
    cases cs with
    | nil => simp only [buildRow, rowVal]; exact ⟨hl, by grind⟩
    | cons c cs =>
      simp only [buildRow, rowVal]
      cases hc : isConst (vars.getD x (.int [0])) with
      | true =>
        simp only [if_true]
        obtain ⟨h1, h2⟩ := ih cs row (rhs - c * (boundsOf (vars.getD x (.int [0]))).1)
          (fun y hy => hconst y (List.mem_cons_of_mem _ hy)) hl
          (fun y hy => hin y (List.mem_cons_of_mem _ hy))
        refine ⟨h1, ?_⟩
        rw [h2, hconst x (List.mem_cons_self) hc]
        grind
      | false =>
        simp only [Bool.false_eq_true, if_false]
        have hxc : x ∈ cols := hin x (List.mem_cons_self) hc
        have hil := idx_lt cols x hxc
        have hil' : cols.findIdx (fun y => decide (y = x)) < cols.length := hil
        rw [if_pos hil']
        obtain ⟨h1, h2⟩ := ih cs (row.set (idx cols x) (row.getD (idx cols x) zero + c)) rhs
          (fun y hy => hconst y (List.mem_cons_of_mem _ hy)) (by simpa using hl)
          (fun y hy => hin y (List.mem_cons_of_mem _ hy))
        refine ⟨h1, ?_⟩
        have hs := dot_set row (cols.map (fun v => a.getD v 0)) (idx cols x) (row.getD (idx cols x) zero + c)
          (by rw [hl]; exact hil) (by simpa using hl)
        rw [map_getD_idx cols (fun v => a.getD v 0) x hxc] at hs
        have hz : (zero : Rat) = 0 := by num_simp
        simp only [idx] at hs h2
        rw [h2, hs, hz]
        grind

theorem mem_addVars (acc row : List Nat) (v : Nat) : v ∈ addVars acc row ↔ v ∈ acc ∨ v ∈ row := by
  induction row generalizing acc with
  | nil => simp [addVars]
  | cons r rs ih =>
    simp only [addVars, List.foldl_cons] at ih ⊢
    rw [ih]
    by_cases h : r ∈ acc <;> simp [h] <;> grind

theorem nodup_addVars (acc row : List Nat) (h : acc.Nodup) : (addVars acc row).Nodup := by
  induction row generalizing acc with
  | nil => simpa [addVars] using h
  | cons r rs ih =>
    simp only [addVars, List.foldl_cons] at ih ⊢
    apply ih
    by_cases hr : r ∈ acc
    · simpa [hr] using h
    · simp only [hr, if_false]
      rw [List.nodup_append]
      exact ⟨h, by simp, by intro a ha b hb; simp at hb; subst hb; intro he; subst he; exact hr ha⟩

theorem mem_foldl_addVars (rows : List (List Nat)) (acc : List Nat) (v : Nat) :
    v ∈ rows.foldl addVars acc ↔ v ∈ acc ∨ ∃ r ∈ rows, v ∈ r := by
  induction rows generalizing acc with
  | nil => simp
  | cons r rs ih =>
    simp only [List.foldl_cons, ih, mem_addVars]
    grind

theorem nodup_foldl_addVars (rows : List (List Nat)) (acc : List Nat) (h : acc.Nodup) :
    (rows.foldl addVars acc).Nodup := by
  induction rows generalizing acc with
  | nil => simpa using h
  | cons r rs ih => simp only [List.foldl_cons]; exact ih _ (nodup_addVars acc r h)

theorem mem_sysVars (rows : List (List Nat)) (v : Nat) : v ∈ sysVars rows ↔ ∃ r ∈ rows, v ∈ r := by
  simp [sysVars, mem_foldl_addVars]

theorem nodup_sysVars (rows : List (List Nat)) : (sysVars rows).Nodup :=
  nodup_foldl_addVars rows [] List.nodup_nil

open Lp in
theorem rowsLe_of_forall (X : List Rat) : ∀ (built : List (List Rat × Rat)),
    (∀ p ∈ built, dot p.1 X ≤ p.2) → rowsLe 0 (built.map (·.1)) (built.map (·.2)) X = true := by
  intro built
  induction built with
  | nil => intro _; simp [rowsLe]
  | cons p ps ih =>
    intro h
    simp only [List.map_cons, rowsLe, Bool.and_eq_true, decide_eq_true_eq]
    exact ⟨by have := h p (by simp); grind, ih (fun q hq => h q (by simp [hq]))⟩

open Lp in
theorem boundsOk_map (cols : List Nat) (lo hi g : Nat → Rat) (h : ∀ v ∈ cols, lo v ≤ g v ∧ g v ≤ hi v) :
    boundsOk 0 (cols.map lo) ((cols.map hi).map some) (cols.map g) = true := by
  induction cols with
  | nil => simp [boundsOk]
  | cons v vs ih =>
    simp only [List.map_cons, boundsOk, Bool.and_eq_true, decide_eq_true_eq]
    have := h v (by simp)
    exact ⟨⟨by grind, by grind⟩, ih (fun w hw => h w (by simp [hw]))⟩

open Lp in
theorem dot_indicator (cols : List Nat) (obj : Nat) (k : Rat) (g : Nat → Rat) (hnd : cols.Nodup) :
    dot (cols.map (fun v => if v = obj then k else 0)) (cols.map g) = if obj ∈ cols then k * g obj else 0 := by
  induction cols with
  | nil => simp
  | cons v vs ih =>
    simp only [List.nodup_cons] at hnd
    simp only [List.map_cons, dot_cons, ih hnd.2, List.mem_cons]
    by_cases hv : v = obj
    · subst hv
      simp [hnd.1]; grind
    · have : ¬ obj = v := fun h => hv h.symm
      simp [hv, this]; grind


/-! ### meaning of the rows of the linear system -/

def LRel.holds : LRel → Rat → Rat → Bool
  | .le, x, y => decide (x ≤ y)
  | .ge, x, y => decide (y ≤ x)
  | .eq, x, y => decide (x = y)

/-- the row holds at the assignment `a` -/
def LRow.holds (a : List Rat) (r : LRow Rat) : Bool := r.rel.holds (rowVal a r.cs r.xs) r.rhs

/-- the `LpProblem` as a problem of `Model/Lp.lean` (all upper bounds finite) -/
def LpP.toProblem (P : LpP Rat) : Lp.Problem :=
  { c := P.c, a := P.a, b := P.b, lo := P.lo, up := P.hi.map some }

/-- Guard of `C08_root_lp_is_relaxation`: every system variable that is treated as a constant
(`|upper − lower| < 1e-6`) is really fixed (`lower = upper`; the code substitutes `lower`).
(Until fix 02fabc4 the guard also had to exclude rows that mention a variable twice.) -/
def relaxGuard (eps : Rat) (m : OModel Rat) : Bool :=
  (sysVars ((sysRows eps m).map (·.xs))).all (fun v =>
        let var := m.vars.getD v (.int [0])
        !isConst var || decide ((boundsOf var).1 = (boundsOf var).2))

open Lp in
theorem dot_zero_map (cols : List Nat) (X : List Rat) : dot (cols.map (fun _ => (zero : Rat))) X = 0 := by
  induction cols generalizing X with
  | nil => simp
  | cons v vs ih =>
    cases X with
    | nil => simp
    | cons x xs => simp only [List.map_cons, dot_cons, ih xs]; num_simp; grind

theorem getD_zero_map (cols : List Nat) (i : Nat) : (cols.map (fun _ => (zero : Rat))).getD i 0 = 0 := by
  induction cols generalizing i with
  | nil => simp
  | cons v vs ih =>
    cases i with
    | zero => simp; num_simp
    | succ i => simpa using ih i


/-! ### the two descriptions of the linear system agree -/

theorem map_filterMap' {α β γ : Type} (f : α → Option β) (g : β → γ) (l : List α) :
    (l.filterMap f).map g = l.filterMap (fun p => (f p).map g) := by
  induction l with
  | nil => rfl
  | cons a as ih =>
    simp only [List.filterMap_cons]
    cases f a <;> simp [ih]

theorem filterMap_filter' {α β : Type} (q : α → Bool) (f : α → Option β) (l : List α) :
    (l.filter q).filterMap f = l.filterMap (fun p => if q p then f p else none) := by
  induction l with
  | nil => rfl
  | cons a as ih =>
    simp only [List.filter_cons, List.filterMap_cons]
    cases hq : q a with
    | false => simp [ih]
    | true => simp only [if_true, List.filterMap_cons, ih]

theorem filterMap_congr' {α β : Type} (f g : α → Option β) (l : List α) (h : ∀ a, f a = g a) :
    l.filterMap f = l.filterMap g := by
  have : f = g := funext h
  rw [this]

/-- the variable lists of `sysRows` are `lpRows` (the two descriptions of the system agree) -/
theorem lpRows_eq_sysRows (eps : Rat) (m : OModel Rat) : lpRows m = (sysRows eps m).map (·.xs) := by
  simp only [lpRows, sysRows, List.map_append, map_filterMap', filterMap_filter']
  congr 1
  · congr 1
    · congr 1
      · apply filterMap_congr'
        intro p
        cases p with
        | cmp rel l r => rfl
        | plin isEq cs xs rhs => rfl
        | pend rel cs xs rhs lp scan => cases lp <;> cases rel <;> rfl
      · apply filterMap_congr'
        intro p
        cases p with
        | cmp rel l r => rfl
        | plin isEq cs xs rhs => rfl
        | pend rel cs xs rhs lp scan => rfl
    · apply filterMap_congr'
      intro p
      cases p with
      | cmp rel l r => rfl
      | plin isEq cs xs rhs => rfl
      | pend rel cs xs rhs lp scan => cases scan <;> cases rel <;> rfl
  · apply filterMap_congr'
    intro p
    cases p with
    | cmp rel l r => cases rel <;> cases l <;> cases r <;> rfl
    | plin isEq cs xs rhs => rfl
    | pend rel cs xs rhs lp scan => rfl

end Opt
end Selen

import SelenModel.Model.IntCore
/-
Foundation lemmas of the integer core: domain bounds, exactness of `try_set_min/max`
(C12, integer arms), views (C13) and the lifting lemmas used by every propagator proof.
-/
namespace Selen

/-! ### list minimum / maximum -/

theorem foldl_min_le (l : List Int) (x : Int) :
    l.foldl (fun a b => if b < a then b else a) x ≤ x ∧
    (∀ w ∈ l, l.foldl (fun a b => if b < a then b else a) x ≤ w) ∧
    (l.foldl (fun a b => if b < a then b else a) x = x ∨ l.foldl (fun a b => if b < a then b else a) x ∈ l) := by
  induction l generalizing x with
  | nil => simp
  | cons y l ih =>
    simp only [List.foldl_cons, List.mem_cons]
    by_cases hyx : y < x
    · rw [if_pos hyx]
      obtain ⟨h1, h2, h3⟩ := ih y
      refine ⟨by omega, ?_, ?_⟩
      · intro w hw
        rcases hw with rfl | hw
        · exact h1
        · exact h2 w hw
      · rcases h3 with h3 | h3
        · right; left; exact h3
        · right; right; exact h3
    · rw [if_neg hyx]
      obtain ⟨h1, h2, h3⟩ := ih x
      refine ⟨h1, ?_, ?_⟩
      · intro w hw
        rcases hw with rfl | hw
        · omega
        · exact h2 w hw
      · rcases h3 with h3 | h3
        · left; exact h3
        · right; right; exact h3

theorem foldl_max_ge (l : List Int) (x : Int) :
    x ≤ l.foldl (fun a b => if b > a then b else a) x ∧
    (∀ w ∈ l, w ≤ l.foldl (fun a b => if b > a then b else a) x) ∧
    (l.foldl (fun a b => if b > a then b else a) x = x ∨ l.foldl (fun a b => if b > a then b else a) x ∈ l) := by
  induction l generalizing x with
  | nil => simp
  | cons y l ih =>
    simp only [List.foldl_cons, List.mem_cons]
    by_cases hyx : y > x
    · rw [if_pos hyx]
      obtain ⟨h1, h2, h3⟩ := ih y
      refine ⟨by omega, ?_, ?_⟩
      · intro w hw
        rcases hw with rfl | hw
        · exact h1
        · exact h2 w hw
      · rcases h3 with h3 | h3
        · right; left; exact h3
        · right; right; exact h3
    · rw [if_neg hyx]
      obtain ⟨h1, h2, h3⟩ := ih x
      refine ⟨h1, ?_, ?_⟩
      · intro w hw
        rcases hw with rfl | hw
        · omega
        · exact h2 w hw
      · rcases h3 with h3 | h3
        · left; exact h3
        · right; right; exact h3

namespace Dom

theorem dmin_mem (d : Dom) (h : d ≠ []) : d.dmin ∈ d := by
  cases d with
  | nil => exact absurd rfl h
  | cons x l =>
    show SS.listMin (x :: l) ∈ x :: l
    simp only [SS.listMin, List.mem_cons]
    rcases (foldl_min_le l x).2.2 with h | h
    · left; exact h
    · right; exact h

theorem dmin_le (d : Dom) (w : Int) (hw : w ∈ d) : d.dmin ≤ w := by
  cases d with
  | nil => cases hw
  | cons x l =>
    show SS.listMin (x :: l) ≤ w
    simp only [SS.listMin]
    rcases List.mem_cons.1 hw with rfl | hw
    · exact (foldl_min_le l _).1
    · exact (foldl_min_le l x).2.1 w hw

theorem dmax_mem (d : Dom) (h : d ≠ []) : d.dmax ∈ d := by
  cases d with
  | nil => exact absurd rfl h
  | cons x l =>
    show SS.listMax (x :: l) ∈ x :: l
    simp only [SS.listMax, List.mem_cons]
    rcases (foldl_max_ge l x).2.2 with h | h
    · left; exact h
    · right; exact h

theorem le_dmax (d : Dom) (w : Int) (hw : w ∈ d) : w ≤ d.dmax := by
  cases d with
  | nil => cases hw
  | cons x l =>
    show w ≤ SS.listMax (x :: l)
    simp only [SS.listMax]
    rcases List.mem_cons.1 hw with rfl | hw
    · exact (foldl_max_ge l _).1
    · exact (foldl_max_ge l x).2.1 w hw

theorem dmin_le_dmax (d : Dom) (h : d ≠ []) : d.dmin ≤ d.dmax := le_dmax d _ (dmin_mem d h)

theorem mem_removeBelow (d : Dom) (v w : Int) : w ∈ d.removeBelow v ↔ w ∈ d ∧ v ≤ w := by
  simp [removeBelow, List.mem_filter]

theorem mem_removeAbove (d : Dom) (v w : Int) : w ∈ d.removeAbove v ↔ w ∈ d ∧ w ≤ v := by
  simp [removeAbove, List.mem_filter]

theorem removeBelow_eq_self (d : Dom) (v : Int) (h : v ≤ d.dmin) : d.removeBelow v = d := by
  unfold removeBelow
  apply List.filter_eq_self.2
  intro w hw
  have := dmin_le d w hw
  simp; omega

theorem removeAbove_eq_self (d : Dom) (v : Int) (h : d.dmax ≤ v) : d.removeAbove v = d := by
  unfold removeAbove
  apply List.filter_eq_self.2
  intro w hw
  have := le_dmax d w hw
  simp; omega

/-- removing below a bound above the minimum really removes something -/
theorem removeBelow_length_lt (d : Dom) (v : Int) (h : d.dmin < v) (hne : d ≠ [] := by assumption) :
    (d.removeBelow v).length < d.length := by
  unfold removeBelow
  apply List.length_filter_lt_length_iff_exists.2
  exact ⟨d.dmin, dmin_mem d hne, by simp; omega⟩

theorem removeAbove_length_lt (d : Dom) (v : Int) (h : v < d.dmax) (hne : d ≠ [] := by assumption) :
    (d.removeAbove v).length < d.length := by
  unfold removeAbove
  apply List.length_filter_lt_length_iff_exists.2
  exact ⟨d.dmax, dmax_mem d hne, by simp; omega⟩

/-- a singleton domain -/
theorem fixed_iff (d : Dom) : d.isFixed = true ↔ ∃ w, d = [w] := by
  unfold isFixed
  constructor
  · intro h
    have : d.length = 1 := by simpa using h
    match d, this with
    | [w], _ => exact ⟨w, rfl⟩
  · rintro ⟨w, rfl⟩; rfl

end Dom

/-! ### C12 (integer arms): `try_set_min` / `try_set_max` are exact -/

namespace Ctx

/-- **exactness of `try_set_min`** on a non-empty domain: failure exactly when no value `≥ v`
is left; otherwise exactly the values `≥ v` remain, no other variable is touched, and an event
for `i` is recorded exactly when the domain shrank. -/
theorem trySetMin_spec (c : Ctx) (i : Nat) (v : Int) (hne : c.st i ≠ []) :
    match c.trySetMin i v with
    | none => ∀ w ∈ c.st i, w < v
    | some c' =>
      c'.st i = (c.st i).removeBelow v ∧ c'.st i ≠ [] ∧ (∀ j, j ≠ i → c'.st j = c.st j) ∧
      ((c'.st i ≠ c.st i ∧ c'.ev = c.ev ++ [i]) ∨ (c' = c ∧ (c.st i).removeBelow v = c.st i)) := by
  unfold trySetMin
  by_cases h1 : v > (c.st i).dmax
  · simp only [h1, if_true]
    intro w hw
    have := Dom.le_dmax _ w hw
    omega
  · simp only [h1, if_false]
    by_cases h2 : v > (c.st i).dmin
    · simp only [h2, if_true]
      have hmax : (c.st i).dmax ∈ (c.st i).removeBelow v :=
        (Dom.mem_removeBelow _ _ _).2 ⟨Dom.dmax_mem _ hne, by omega⟩
      have hne' : (c.st i).removeBelow v ≠ [] := fun h => by rw [h] at hmax; cases hmax
      have hemp : ((c.st i).removeBelow v).isEmpty = false := by
        cases hh : (c.st i).removeBelow v with
        | nil => exact absurd hh hne'
        | cons a l => rfl
      simp only [hemp]
      refine ⟨by simp [updS], by simpa [updS] using hne', ?_, ?_⟩
      · intro j hj; simp [updS, hj]
      · left
        refine ⟨?_, rfl⟩
        simp only [updS, if_true]
        intro heq
        have hmin : (c.st i).dmin ∈ (c.st i).removeBelow v := by rw [heq]; exact Dom.dmin_mem _ hne
        rw [Dom.mem_removeBelow] at hmin
        omega
    · rw [if_neg h2]
      have := Dom.removeBelow_eq_self (c.st i) v (by omega)
      exact ⟨this.symm, hne, fun _ _ => rfl, Or.inr ⟨rfl, this⟩⟩

theorem trySetMax_spec (c : Ctx) (i : Nat) (v : Int) (hne : c.st i ≠ []) :
    match c.trySetMax i v with
    | none => ∀ w ∈ c.st i, v < w
    | some c' =>
      c'.st i = (c.st i).removeAbove v ∧ c'.st i ≠ [] ∧ (∀ j, j ≠ i → c'.st j = c.st j) ∧
      ((c'.st i ≠ c.st i ∧ c'.ev = c.ev ++ [i]) ∨ (c' = c ∧ (c.st i).removeAbove v = c.st i)) := by
  unfold trySetMax
  by_cases h1 : v < (c.st i).dmin
  · simp only [h1, if_true]
    intro w hw
    have := Dom.dmin_le _ w hw
    omega
  · simp only [h1, if_false]
    by_cases h2 : v < (c.st i).dmax
    · simp only [h2, if_true]
      have hmin : (c.st i).dmin ∈ (c.st i).removeAbove v :=
        (Dom.mem_removeAbove _ _ _).2 ⟨Dom.dmin_mem _ hne, by omega⟩
      have hne' : (c.st i).removeAbove v ≠ [] := fun h => by rw [h] at hmin; cases hmin
      have hemp : ((c.st i).removeAbove v).isEmpty = false := by
        cases hh : (c.st i).removeAbove v with
        | nil => exact absurd hh hne'
        | cons a l => rfl
      simp only [hemp]
      refine ⟨by simp [updS], by simpa [updS] using hne', ?_, ?_⟩
      · intro j hj; simp [updS, hj]
      · left
        refine ⟨?_, rfl⟩
        simp only [updS, if_true]
        intro heq
        have hmax : (c.st i).dmax ∈ (c.st i).removeAbove v := by rw [heq]; exact Dom.dmax_mem _ hne
        rw [Dom.mem_removeAbove] at hmax
        omega
    · rw [if_neg h2]
      have := Dom.removeAbove_eq_self (c.st i) v (by omega)
      exact ⟨this.symm, hne, fun _ _ => rfl, Or.inr ⟨rfl, this⟩⟩

end Ctx
end Selen

import SelenModel.Lemmas.Gac
/-
C19, sparse-set engine: what IS true of `SparseSetGAC::propagate_alldiff`.

The matching computed by `Matching::find_maximum_matching` is not a matching of the value graph
(`apply_augmenting_path` records `start_var ↦ end_val` although `end_val` need not be in the domain
of `start_var`), but it is still a pair of mutually inverse injections, and a failed BFS still
exhibits a Hall violator.  Hence: the engine declares "inconsistent" only if no assignment of
pairwise different values exists (`sparse_inconsistent_sound`, stated in Props/C19.lean).
-/
namespace Selen
namespace Gac

theorem nodup_subset_length' {α : Type} [DecidableEq α] :
    ∀ (l u : List α), l.Nodup → (∀ x ∈ l, x ∈ u) → l.length ≤ u.length := by
  intro l
  induction l with
  | nil => intro u _ _; exact Nat.zero_le _
  | cons x l ih =>
    intro u hn hs
    rw [List.nodup_cons] at hn
    have hx : x ∈ u := hs x (List.mem_cons_self ..)
    have h1 : l.length ≤ (u.erase x).length := by
      apply ih _ hn.2
      intro z hz
      have hne : z ≠ x := fun e => hn.1 (e ▸ hz)
      exact (List.mem_erase_of_ne hne).2 (hs z (List.mem_cons_of_mem _ hz))
    rw [List.length_erase_of_mem hx] at h1
    have : 0 < u.length := List.length_pos_of_mem hx
    simp only [List.length_cons]
    omega

theorem nodup_map_of_inj_on {α β : Type} (f : α → β) :
    ∀ (l : List α), l.Nodup → (∀ x ∈ l, ∀ y ∈ l, f x = f y → x = y) → (l.map f).Nodup := by
  intro l
  induction l with
  | nil => intro _ _; exact List.nodup_nil
  | cons x l ih =>
    intro hn hinj
    rw [List.nodup_cons] at hn
    rw [List.map_cons, List.nodup_cons]
    refine ⟨?_, ih hn.2 (fun a ha b hb => hinj a (List.mem_cons_of_mem _ ha) b (List.mem_cons_of_mem _ hb))⟩
    intro hm
    obtain ⟨y, hy, e⟩ := List.mem_map.1 hm
    have := hinj y (List.mem_cons_of_mem _ hy) x (List.mem_cons_self ..) e
    exact hn.1 (this ▸ hy)

/-! ### the matching invariant -/

/-- `var_to_val` / `val_to_var` are mutually inverse, and only keys of the graph are matched -/
structure MInv (gr : Graph) (m : Matching) : Prop where
  inv : ∀ x v, m.v2l.lookup x = some v ↔ m.l2v.lookup v = some x
  nodup : (m.v2l.map Prod.fst).Nodup
  keys : ∀ x v, m.v2l.lookup x = some v → x ∈ gr.keys

def Matched (m : Matching) (x : Nat) : Prop := (m.v2l.lookup x).isSome = true

theorem MInv_empty (gr : Graph) : MInv gr Matching.empty :=
  ⟨fun x v => by simp [Matching.empty], List.nodup_nil, fun x v h => by simp [Matching.empty] at h⟩

theorem addEdge_v2l (m : Matching) (x : Nat) (v : Int) (x' : Nat) :
    (m.addEdge x v).v2l.lookup x' = if x' = x then some v else m.v2l.lookup x' :=
  lookup_ains m.v2l x v x'

theorem addEdge_l2v (m : Matching) (x : Nat) (v : Int) (v' : Int) :
    (m.addEdge x v).l2v.lookup v' = if v' = v then some x else m.l2v.lookup v' :=
  lookup_ains m.l2v v x v'

theorem MInv_addEdge (gr : Graph) (m : Matching) (x : Nat) (v : Int) (hm : MInv gr m)
    (hx : m.v2l.lookup x = none) (hv : m.l2v.lookup v = none) (hk : x ∈ gr.keys) :
    MInv gr (m.addEdge x v) ∧ Matched (m.addEdge x v) x ∧ (∀ y, Matched m y → Matched (m.addEdge x v) y) := by
  refine ⟨⟨?_, ?_, ?_⟩, ?_, ?_⟩
  · intro x' v'
    rw [addEdge_v2l, addEdge_l2v]
    by_cases hxx : x' = x
    · subst hxx
      rw [if_pos rfl]
      by_cases hvv : v' = v
      · subst hvv; simp
      · rw [if_neg hvv]
        constructor
        · intro h; cases h; exact absurd rfl hvv
        · intro h
          have := (hm.inv x' v').2 h
          rw [hx] at this; cases this
    · rw [if_neg hxx]
      by_cases hvv : v' = v
      · subst hvv
        rw [if_pos rfl]
        constructor
        · intro h
          have := (hm.inv x' v').1 h
          rw [hv] at this; cases this
        · intro h; cases h; exact absurd rfl hxx
      · rw [if_neg hvv]; exact hm.inv x' v'
  · show ((ains m.v2l x v).map Prod.fst).Nodup
    rw [keys_ains]
    have hnx : x ∉ m.v2l.map Prod.fst := (lookup_none_iff m.v2l x).1 hx
    rw [if_neg hnx, List.nodup_append]
    refine ⟨hm.nodup, by simp, ?_⟩
    intro a ha b hb
    rw [List.mem_singleton.1 hb]
    exact fun e => hnx (e ▸ ha)
  · intro x' v' h
    rw [addEdge_v2l] at h
    by_cases hxx : x' = x
    · rw [hxx]; exact hk
    · rw [if_neg hxx] at h; exact hm.keys x' v' h
  · unfold Matched; rw [addEdge_v2l, if_pos rfl]; rfl
  · intro y hy
    unfold Matched at hy ⊢
    rw [addEdge_v2l]
    by_cases hyx : y = x
    · rw [if_pos hyx]; rfl
    · rw [if_neg hyx]; exact hy

theorem applyPath_eq (pvar : List (Nat × Int)) (pval : List (Int × Nat)) (n : Nat) (m : Matching) (x : Nat) (v : Int)
    (h : pvar.lookup x = none) : Matching.applyPath pvar pval (n + 1) m x v = m.addEdge x v := by
  unfold Matching.applyPath
  rw [h]

/-! ### the BFS of `find_augmenting_path_*` -/

structure BInv (gr : Graph) (m : Matching) (start : Nat) (b : Matching.Bfs) : Prop where
  startVis : start ∈ b.visVars
  pvarStart : b.pvar.lookup start = none
  queueVis : ∀ x ∈ b.queue, x ∈ b.visVars
  held : ∀ w ∈ b.visVals, ∃ mv, m.l2v.lookup w = some mv ∧ mv ∈ b.visVars
  nodupVars : b.visVars.Nodup
  nodupVals : b.visVals.Nodup
  visKeys : ∀ x ∈ b.visVars, x ∈ gr.keys

/-- every visited variable is the current one, still queued, or has its whole domain visited -/
def Proc (gr : Graph) (cur : Option Nat) (b : Matching.Bfs) : Prop :=
  ∀ x ∈ b.visVars, some x = cur ∨ x ∈ b.queue ∨ ∀ w ∈ gr.domain x, w ∈ b.visVals

def StepOK (gr : Graph) (m : Matching) (start cur : Nat) (vs : List Int) (b : Matching.Bfs) : Matching.Step → Prop
  | .cont b' => BInv gr m start b' ∧ Proc gr (some cur) b' ∧ (∀ w ∈ vs, w ∈ b'.visVals) ∧
      (∀ w ∈ b.visVals, w ∈ b'.visVals)
  | .found m' => ∃ v, m.l2v.lookup v = none ∧ m' = m.addEdge start v
  | .panic => True

theorem StepOK_extend (gr : Graph) (m : Matching) (start cur : Nat) (vs : List Int) (v : Int)
    (b b1 : Matching.Bfs) (hsub : ∀ w ∈ b.visVals, w ∈ b1.visVals) (hv : v ∈ b1.visVals) (r : Matching.Step)
    (h : StepOK gr m start cur vs b1 r) : StepOK gr m start cur (v :: vs) b r := by
  cases r with
  | cont b' =>
    obtain ⟨h1, h2, h3, h4⟩ := h
    refine ⟨h1, h2, ?_, fun w hw => h4 w (hsub w hw)⟩
    intro w hw
    rcases List.mem_cons.1 hw with rfl | hw'
    · exact h4 _ hv
    · exact h3 w hw'
  | found m' => exact h
  | panic => trivial

theorem scanVals_spec (gr : Graph) (m : Matching) (start cur : Nat) (small : Bool) (hm : MInv gr m) :
    ∀ (vs : List Int) (b : Matching.Bfs), BInv gr m start b → Proc gr (some cur) b →
      StepOK gr m start cur vs b (Matching.scanVals small m start cur vs b) := by
  intro vs
  induction vs with
  | nil =>
    intro b hb hp
    show StepOK gr m start cur [] b (.cont b)
    unfold StepOK
    refine ⟨hb, hp, ?_, fun w hw => hw⟩
    intro w hw
    cases hw
  | cons v vs ih =>
    intro b hb hp
    unfold Matching.scanVals
    by_cases hpan : (small && (decide (v < 0) || decide (v ≥ 128))) = true
    · rw [if_pos hpan]; trivial
    · rw [if_neg hpan]
      by_cases hvis : b.visVals.contains v = true
      · rw [if_pos hvis]
        exact StepOK_extend gr m start cur vs v b b (fun w hw => hw) (List.contains_iff_mem.1 hvis) _ (ih b hb hp)
      · rw [if_neg hvis]
        have hvn : v ∉ b.visVals := fun h => hvis (List.contains_iff_mem.2 h)
        simp only []
        cases hl : m.l2v.lookup v with
        | none =>
          simp only []
          exact ⟨v, hl, applyPath_eq _ _ _ m start v hb.pvarStart⟩
        | some mv =>
          simp only []
          by_cases hpan2 : (small && decide (mv ≥ 64)) = true
          · rw [if_pos hpan2]; trivial
          · rw [if_neg hpan2]
            have hnv1 : (b.visVals ++ [v]).Nodup := by
              rw [List.nodup_append]
              refine ⟨hb.nodupVals, by simp, ?_⟩
              intro a ha c hc
              rw [List.mem_singleton.1 hc]
              exact fun e => hvn (e ▸ ha)
            by_cases hmv : b.visVars.contains mv = true
            · rw [if_pos hmv]
              have hmvm := List.contains_iff_mem.1 hmv
              apply StepOK_extend gr m start cur vs v b
                { b with visVals := b.visVals ++ [v], pval := ains b.pval v cur }
                (fun w hw => List.mem_append_left _ hw)
                (List.mem_append_right _ (List.mem_singleton.2 rfl))
              apply ih
              · refine ⟨hb.startVis, hb.pvarStart, hb.queueVis, ?_, hb.nodupVars, hnv1, hb.visKeys⟩
                intro w hw
                rcases List.mem_append.1 hw with hw' | hw'
                · exact hb.held w hw'
                · rw [List.mem_singleton.1 hw']; exact ⟨mv, hl, hmvm⟩
              · intro x hx
                rcases hp x hx with h | h | h
                · exact Or.inl h
                · exact Or.inr (Or.inl h)
                · exact Or.inr (Or.inr (fun w hw => List.mem_append_left _ (h w hw)))
            · rw [if_neg hmv]
              have hmvn : mv ∉ b.visVars := fun h => hmv (List.contains_iff_mem.2 h)
              have hne : start ≠ mv := fun e => hmvn (e ▸ hb.startVis)
              apply StepOK_extend gr m start cur vs v b
                { b with visVals := b.visVals ++ [v], pval := ains b.pval v cur, visVars := b.visVars ++ [mv],
                         pvar := ains b.pvar mv v, queue := b.queue ++ [mv] }
                (fun w hw => List.mem_append_left _ hw)
                (List.mem_append_right _ (List.mem_singleton.2 rfl))
              apply ih
              · refine ⟨List.mem_append_left _ hb.startVis, ?_, ?_, ?_, ?_, hnv1, ?_⟩
                · show (ains b.pvar mv v).lookup start = none
                  rw [lookup_ains, if_neg hne]; exact hb.pvarStart
                · intro x hx
                  rcases List.mem_append.1 hx with hx' | hx'
                  · exact List.mem_append_left _ (hb.queueVis x hx')
                  · exact List.mem_append_right _ hx'
                · intro w hw
                  rcases List.mem_append.1 hw with hw' | hw'
                  · obtain ⟨h1, h2, h3⟩ := hb.held w hw'
                    exact ⟨h1, h2, List.mem_append_left _ h3⟩
                  · rw [List.mem_singleton.1 hw']
                    exact ⟨mv, hl, List.mem_append_right _ (List.mem_singleton.2 rfl)⟩
                · show (b.visVars ++ [mv]).Nodup
                  rw [List.nodup_append]
                  refine ⟨hb.nodupVars, by simp, ?_⟩
                  intro a ha c hc
                  rw [List.mem_singleton.1 hc]
                  exact fun e => hmvn (e ▸ ha)
                · intro x hx
                  rcases List.mem_append.1 hx with hx' | hx'
                  · exact hb.visKeys x hx'
                  · rw [List.mem_singleton.1 hx']
                    exact hm.keys mv v ((hm.inv mv v).2 hl)
              · intro x hx
                rcases List.mem_append.1 hx with hx' | hx'
                · rcases hp x hx' with h | h | h
                  · exact Or.inl h
                  · exact Or.inr (Or.inl (List.mem_append_left _ h))
                  · exact Or.inr (Or.inr (fun w hw => List.mem_append_left _ (h w hw)))
                · exact Or.inr (Or.inl (List.mem_append_right _ hx'))

theorem bfsLoop_spec (gr : Graph) (m : Matching) (start : Nat) (small : Bool) (hm : MInv gr m) :
    ∀ (fuel : Nat) (b : Matching.Bfs) (m' : Matching) (found : Bool),
      BInv gr m start b → Proc gr none b →
      Matching.bfsLoop small gr m start fuel b = some (m', found) →
      (found = true ∧ ∃ v, m.l2v.lookup v = none ∧ m' = m.addEdge start v) ∨
      (found = false ∧ m' = m ∧ ∃ b', BInv gr m start b' ∧ b'.queue = [] ∧ Proc gr none b') := by
  intro fuel
  induction fuel with
  | zero => intro b m' found _ _ h; simp [Matching.bfsLoop] at h
  | succ fuel ih =>
    intro b m' found hb hp h
    unfold Matching.bfsLoop at h
    cases hq : b.queue with
    | nil =>
      rw [hq] at h
      simp only [Option.some.injEq, Prod.mk.injEq] at h
      exact Or.inr ⟨h.2.symm, h.1.symm, b, hb, hq, hp⟩
    | cons cur q =>
      rw [hq] at h
      simp only [] at h
      have hb0 : BInv gr m start { b with queue := q } :=
        ⟨hb.startVis, hb.pvarStart, fun x hx => hb.queueVis x (by rw [hq]; exact List.mem_cons_of_mem _ hx),
          hb.held, hb.nodupVars, hb.nodupVals, hb.visKeys⟩
      have hp0 : Proc gr (some cur) { b with queue := q } := by
        intro x hx
        rcases hp x hx with h1 | h1 | h1
        · cases h1
        · rw [hq] at h1
          rcases List.mem_cons.1 h1 with e | e
          · exact Or.inl (by rw [e])
          · exact Or.inr (Or.inl e)
        · exact Or.inr (Or.inr h1)
      have hspec := scanVals_spec gr m start cur small hm (gr.domain cur) _ hb0 hp0
      generalize Matching.scanVals small m start cur (gr.domain cur) { b with queue := q } = r at h hspec
      cases r with
      | found m1 =>
        simp only [Option.some.injEq, Prod.mk.injEq] at h
        obtain ⟨v, hv, e⟩ := hspec
        exact Or.inl ⟨h.2.symm, v, hv, by rw [← h.1]; exact e⟩
      | panic => simp at h
      | cont b' =>
        simp only [] at h
        obtain ⟨h1, h2, h3, _⟩ := hspec
        apply ih b' m' found h1 _ h
        intro x hx
        rcases h2 x hx with e | e | e
        · simp only [Option.some.injEq] at e
          exact Or.inr (Or.inr (by rw [e]; exact h3))
        · exact Or.inr (Or.inl e)
        · exact Or.inr (Or.inr e)

/-- a finished, failed BFS is a Hall violator: no injective choice from the domains exists -/
theorem hall_violation (gr : Graph) (m : Matching) (start : Nat) (b : Matching.Bfs) (a : Nat → Int)
    (hm : MInv gr m) (hstart : m.v2l.lookup start = none)
    (hb : BInv gr m start b) (hq : b.queue = []) (hp : Proc gr none b)
    (hinj : ∀ x ∈ gr.keys, ∀ y ∈ gr.keys, a x = a y → x = y)
    (hdom : ∀ x ∈ gr.keys, a x ∈ gr.domain x) : False := by
  have hall : ∀ x ∈ b.visVars, ∀ w ∈ gr.domain x, w ∈ b.visVals := by
    intro x hx
    rcases hp x hx with e | e | e
    · cases e
    · rw [hq] at e; cases e
    · exact e
  -- |R| ≤ |V|
  have h1 : b.visVars.length ≤ b.visVals.length := by
    have hn : (b.visVars.map a).Nodup :=
      nodup_map_of_inj_on a b.visVars hb.nodupVars
        (fun x hx y hy e => hinj x (hb.visKeys x hx) y (hb.visKeys y hy) e)
    have := nodup_subset_length' (b.visVars.map a) b.visVals hn (by
      intro y hy
      obtain ⟨x, hx, rfl⟩ := List.mem_map.1 hy
      exact hall x hx _ (hdom x (hb.visKeys x hx)))
    rw [List.length_map] at this
    exact this
  -- |V| ≤ |R| - 1
  have h2 : b.visVals.length ≤ (b.visVars.erase start).length := by
    have hn : (b.visVals.map (fun w => (m.l2v.lookup w).getD 0)).Nodup := by
      apply nodup_map_of_inj_on _ b.visVals hb.nodupVals
      intro w1 hw1 w2 hw2 e
      obtain ⟨h1, e1, _⟩ := hb.held w1 hw1
      obtain ⟨h2, e2, _⟩ := hb.held w2 hw2
      simp only [e1, e2, Option.getD_some] at e
      subst e
      have a1 := (hm.inv h1 w1).2 e1
      have a2 := (hm.inv h1 w2).2 e2
      rw [a1] at a2
      cases a2; rfl
    have := nodup_subset_length' _ (b.visVars.erase start) hn (by
      intro y hy
      obtain ⟨w, hw, rfl⟩ := List.mem_map.1 hy
      obtain ⟨h, e, hv⟩ := hb.held w hw
      simp only [e, Option.getD_some]
      have hne : h ≠ start := by
        intro ee
        subst ee
        have := (hm.inv h w).2 e
        rw [hstart] at this; cases this
      exact (List.mem_erase_of_ne hne).2 hv)
    rw [List.length_map] at this
    exact this
  rw [List.length_erase_of_mem hb.startVis] at h2
  have : 0 < b.visVars.length := List.length_pos_of_mem hb.startVis
  omega

section Maximum
variable (gr : Graph) (a : Nat → Int)
  (hinj : ∀ x ∈ gr.keys, ∀ y ∈ gr.keys, a x = a y → x = y)
  (hdom : ∀ x ∈ gr.keys, a x ∈ gr.domain x)
include hinj hdom

/-- on a graph that admits an injective choice, the BFS from an unmatched key never fails -/
theorem findAugmentingPath_spec (m : Matching) (x : Nat) (hm : MInv gr m) (hx : m.v2l.lookup x = none)
    (hk : x ∈ gr.keys) (m' : Matching) (found : Bool)
    (h : Matching.findAugmentingPath gr m x = some (m', found)) :
    found = true ∧ MInv gr m' ∧ Matched m' x ∧ ∀ y, Matched m y → Matched m' y := by
  unfold Matching.findAugmentingPath at h
  simp only [] at h
  split at h
  · cases h
  · have hb : BInv gr m x { queue := [x], visVars := [x], visVals := [], pvar := [], pval := [] } :=
      { startVis := List.mem_singleton.2 rfl, pvarStart := rfl, queueVis := fun y hy => hy,
        held := (fun w hw => by cases hw), nodupVars := (by simp), nodupVals := List.nodup_nil,
        visKeys := (fun y hy => by rw [List.mem_singleton.1 hy]; exact hk) }
    have hp : Proc gr none { queue := [x], visVars := [x], visVals := [], pvar := [], pval := [] } :=
      fun y hy => Or.inr (Or.inl hy)
    rcases bfsLoop_spec gr m x _ hm _ _ m' found hb hp h with ⟨hf, v, hv, e⟩ | ⟨_, _, b', hb', hq', hp'⟩
    · obtain ⟨h1, h2, h3⟩ := MInv_addEdge gr m x v hm hx hv hk
      rw [e]
      exact ⟨hf, h1, h2, h3⟩
    · exact (hall_violation gr m x b' a hm hx hb' hq' hp' hinj hdom).elim

theorem augment_spec : ∀ (xs : List Nat) (m m' : Matching), (∀ x ∈ xs, x ∈ gr.keys) → MInv gr m →
    Matching.augment gr xs m = some m' →
    MInv gr m' ∧ (∀ y, Matched m y → Matched m' y) ∧ ∀ x ∈ xs, Matched m' x := by
  intro xs
  induction xs with
  | nil =>
    intro m m' _ hm h
    simp only [Matching.augment, Option.some.injEq] at h
    subst h
    exact ⟨hm, fun y hy => hy, fun x hx => by cases hx⟩
  | cons x xs ih =>
    intro m m' hk hm h
    have hk' : ∀ y ∈ xs, y ∈ gr.keys := fun y hy => hk y (List.mem_cons_of_mem _ hy)
    unfold Matching.augment at h
    by_cases hmx : (m.v2l.lookup x).isSome = true
    · rw [if_pos hmx] at h
      obtain ⟨h1, h2, h3⟩ := ih m m' hk' hm h
      refine ⟨h1, h2, ?_⟩
      intro y hy
      rcases List.mem_cons.1 hy with rfl | hy'
      · exact h2 _ hmx
      · exact h3 y hy'
    · rw [if_neg hmx] at h
      have hnone : m.v2l.lookup x = none := by
        cases e : m.v2l.lookup x with
        | none => rfl
        | some v => rw [e] at hmx; exact absurd rfl hmx
      cases hf : Matching.findAugmentingPath gr m x with
      | none => rw [hf] at h; cases h
      | some r =>
        obtain ⟨m1, found⟩ := r
        rw [hf] at h
        simp only [] at h
        obtain ⟨_, a1, a2, a3⟩ := findAugmentingPath_spec gr a hinj hdom m x hm hnone (hk x (List.mem_cons_self ..)) m1 found hf
        obtain ⟨h1, h2, h3⟩ := ih m1 m' hk' a1 h
        refine ⟨h1, fun y hy => h2 y (a3 y hy), ?_⟩
        intro y hy
        rcases List.mem_cons.1 hy with rfl | hy'
        · exact h2 _ a2
        · exact h3 y hy'

omit hinj hdom in
theorem greedy_spec (hgk : ∀ x, (gr.vdom x).isSome = true → x ∈ gr.keys) :
    ∀ (xs : List Nat) (m : Matching), MInv gr m →
      (∀ x v, m.v2l.lookup x = some v → gr.assignedValue x = some v) →
      MInv gr (Matching.greedy gr xs m) ∧
      (∀ x v, (Matching.greedy gr xs m).v2l.lookup x = some v → gr.assignedValue x = some v) := by
  intro xs
  induction xs with
  | nil => intro m hm hg; exact ⟨hm, hg⟩
  | cons x xs ih =>
    intro m hm hg
    unfold Matching.greedy
    by_cases has : gr.isAssigned x = true
    · rw [if_pos has]
      cases hv : gr.assignedValue x with
      | none => exact ih m hm hg
      | some v =>
        simp only []
        by_cases hl : (m.l2v.lookup v).isSome = true
        · rw [if_pos hl]; exact ih m hm hg
        · rw [if_neg hl]
          have hvn : m.l2v.lookup v = none := by
            cases e : m.l2v.lookup v with
            | none => rfl
            | some y => rw [e] at hl; exact absurd rfl hl
          have hxn : m.v2l.lookup x = none := by
            cases e : m.v2l.lookup x with
            | none => rfl
            | some v' =>
              have := hg x v' e
              rw [hv] at this
              cases this
              have := (hm.inv x v).1 e
              rw [hvn] at this; cases this
          have hk : x ∈ gr.keys := by
            apply hgk
            unfold Graph.isAssigned at has
            cases e : gr.vdom x with
            | none => rw [e] at has; cases has
            | some d => rfl
          obtain ⟨h1, _, _⟩ := MInv_addEdge gr m x v hm hxn hvn hk
          apply ih _ h1
          intro x' v' h'
          rw [addEdge_v2l] at h'
          by_cases hxx : x' = x
          · rw [if_pos hxx] at h'; cases h'; rw [hxx]; exact hv
          · rw [if_neg hxx] at h'; exact hg x' v' h'
    · rw [if_neg has]; exact ih m hm hg

/-- with an injective choice from the domains, the matching found covers every key -/
theorem findMaximum_complete (order : List Nat) (m : Matching)
    (hgk : ∀ x, (gr.vdom x).isSome = true → x ∈ gr.keys) (hkn : gr.keys.Nodup)
    (hord : ∀ x, x ∈ order ↔ x ∈ gr.keys)
    (h : Matching.findMaximum gr order = some m) : m.isComplete gr = true := by
  unfold Matching.findMaximum at h
  obtain ⟨g1, _⟩ := greedy_spec gr hgk order Matching.empty (MInv_empty gr) (fun x v h => by simp [Matching.empty] at h)
  obtain ⟨h1, _, h3⟩ := augment_spec gr a hinj hdom order _ m (fun x hx => (hord x).1 hx) g1 h
  unfold Matching.isComplete Graph.numVars
  have e : m.v2l.length = (m.v2l.map Prod.fst).length := by rw [List.length_map]
  have le1 : (m.v2l.map Prod.fst).length ≤ gr.keys.length :=
    nodup_subset_length' _ _ h1.nodup (by
      intro x hx
      have := (lookup_isSome_iff m.v2l x).2 hx
      cases e : m.v2l.lookup x with
      | none => rw [e] at this; cases this
      | some v => exact h1.keys x v e)
  have le2 : gr.keys.length ≤ (m.v2l.map Prod.fst).length :=
    nodup_subset_length' _ _ hkn (fun x hx => (lookup_isSome_iff m.v2l x).1 (h3 x ((hord x).2 hx)))
  simp only [beq_iff_eq]
  omega

end Maximum

/-! ### from the sparse store to the temporary bipartite graph -/

theorem listMin_le (vs : List Int) (w : Int) (hw : w ∈ vs) : SS.listMin vs ≤ w := Dom.dmin_le vs w hw
theorem le_listMax (vs : List Int) (w : Int) (hw : w ∈ vs) : w ≤ SS.listMax vs := Dom.le_dmax vs w hw

theorem DT.mem_iter_newFromValues (vs : List Int) (w : Int) (hw : w ∈ vs) : w ∈ (DT.newFromValues vs).iter := by
  have hne : vs.isEmpty = false := by
    cases vs with
    | nil => cases hw
    | cons _ _ => rfl
  have h1 := listMin_le vs w hw
  have h2 := le_listMax vs w hw
  unfold DT.newFromValues
  rw [hne]
  simp only [Bool.false_eq_true, if_false]
  split
  · rename_i hc
    show w ∈ (BSD.newFromValues vs).toVec
    unfold BSD.newFromValues BSD.toVec
    rw [hne]
    simp only [Bool.false_eq_true, if_false]
    have hD1 : (BSD.new (SS.listMin vs) (SS.listMax vs)).isInvalid = false := by
      unfold BSD.new BSD.isInvalid
      simp only []
      rw [if_neg (by omega), if_neg (by omega), if_neg (by omega)]
      simp only [decide_eq_false_iff_not]
      omega
    have hD2 : (BSD.new (SS.listMin vs) (SS.listMax vs)).vals = SS.intRange (SS.listMin vs) (SS.listMax vs + 1) := by
      unfold BSD.new
      simp only []
      rw [if_neg (by omega), if_neg (by omega), if_neg (by omega)]
    rw [hD1]
    simp only [Bool.false_eq_true, if_false, List.mem_filter, List.contains_iff_mem]
    rw [hD2]
    exact ⟨(SS.mem_intRange _ _ _).2 ⟨h1, by omega⟩, hw⟩
  · show w ∈ (SS.newFromValues vs).toList
    rw [SS.mem_toList _ (SS.newFromValues_wf vs)]
    unfold SS.newFromValues
    rw [hne]
    simp only [Bool.false_eq_true, if_false]
    rw [(SS.foldl_remove'_spec _ _ (SS.new_wf _ _)).2.2.2.1 w, SS.new_mem _ _ (by omega)]
    refine ⟨⟨h1, h2⟩, ?_⟩
    intro hmem
    have := (List.mem_filter.1 hmem).2
    simp [hw] at this

theorem mem_natDedup (l : List Nat) : ∀ y, y ∈ BitMatrix.natDedup l ↔ y ∈ l := by
  induction l with
  | nil => intro y; simp [BitMatrix.natDedup]
  | cons x l ih =>
    intro y
    unfold BitMatrix.natDedup
    by_cases hc : (BitMatrix.natDedup l).contains x = true
    · rw [if_pos hc]
      have hx : x ∈ l := (ih x).1 (List.contains_iff_mem.1 hc)
      rw [ih y, List.mem_cons]
      constructor
      · exact Or.inr
      · rintro (rfl | h)
        · exact hx
        · exact h
    · rw [if_neg hc, List.mem_cons, List.mem_cons, ih y]

/-- state of `to_bipartite_graph` after the variables `S` were added -/
structure TG (g : SG) (gr : Graph) (S : List Nat) : Prop where
  nodup : gr.keys.Nodup
  keys : ∀ x, x ∈ gr.keys ↔ (x ∈ S ∧ (g.dom x).isSome = true)
  vdom : ∀ x, gr.vdom x = if x ∈ S then (g.dom x).map (fun d => DT.newFromValues d.toList) else none

theorem toGraph_fold (g : SG) : ∀ (ks : List Nat) (gr : Graph) (S : List Nat), TG g gr S →
    TG g (ks.foldl (fun gr x =>
      match g.dom x with
      | some d => gr.addVariable x d.toList
      | none => gr) gr) (S ++ ks) := by
  intro ks
  induction ks with
  | nil => intro gr S h; simpa using h
  | cons x ks ih =>
    intro gr S h
    rw [List.foldl_cons]
    have e : S ++ x :: ks = (S ++ [x]) ++ ks := by simp
    rw [e]
    apply ih
    cases hd : g.dom x with
    | none =>
      simp only []
      refine ⟨h.nodup, ?_, ?_⟩
      · intro y
        rw [h.keys y, List.mem_append, List.mem_singleton]
        constructor
        · rintro ⟨a, b⟩; exact ⟨Or.inl a, b⟩
        · rintro ⟨a | a, b⟩
          · exact ⟨a, b⟩
          · rw [a, hd] at b; cases b
      · intro y
        rw [h.vdom y]
        by_cases hy : y = x
        · subst hy
          simp [hd]
        · simp [List.mem_append, hy]
    | some d =>
      simp only []
      refine ⟨?_, ?_, ?_⟩
      · show (addKey gr.keys x).Nodup
        unfold addKey
        split
        · exact h.nodup
        · rename_i hc
          rw [List.nodup_append]
          refine ⟨h.nodup, by simp, ?_⟩
          intro a ha c hc'
          rw [List.mem_singleton.1 hc']
          exact fun e => hc (List.contains_iff_mem.2 (e ▸ ha))
      · intro y
        show y ∈ addKey gr.keys x ↔ _
        have hk : y ∈ addKey gr.keys x ↔ (y ∈ gr.keys ∨ y = x) := by
          unfold addKey
          split
          · rename_i hc
            constructor
            · exact Or.inl
            · rintro (a | a)
              · exact a
              · rw [a]; exact List.contains_iff_mem.1 hc
          · simp
        rw [hk, h.keys y, List.mem_append, List.mem_singleton]
        constructor
        · rintro (⟨a, b⟩ | a)
          · exact ⟨Or.inl a, b⟩
          · rw [a, hd]; exact ⟨Or.inr rfl, rfl⟩
        · rintro ⟨a | a, b⟩
          · exact Or.inl ⟨a, b⟩
          · exact Or.inr a
      · intro y
        show setDom gr.vdom x (DT.newFromValues d.toList) y = _
        by_cases hy : y = x
        · subst hy
          simp [setDom, hd]
        · simp [setDom, hy, h.vdom y, List.mem_append]

theorem toGraph_spec (g : SG) (ks : List Nat) : TG g (g.toGraph ks) ks := by
  have := toGraph_fold g ks Graph.new [] ⟨List.nodup_nil, fun x => by simp [Graph.new], fun x => by simp [Graph.new]⟩
  rw [List.nil_append] at this
  unfold SG.toGraph
  exact this

/-- **the sparse-set engine declares inconsistency only when no solution exists** (any iteration
order `order` of the key set of the temporary graph; sparse sets well-formed) -/
theorem SG.propagateAlldiff_inconsistent_sound (g : SG) (vars order : List Nat) (r : SG × Bool × Bool)
    (hwf : ∀ x d, g.dom x = some d → d.WF)
    (hord : ∀ x, x ∈ order ↔ x ∈ g.filteredKeys vars)
    (h : g.propagateAlldiff vars order = some r) (hinc : r.2.2 = false) :
    ¬ ∃ a, Sol (SMem g) vars a := by
  rintro ⟨a, hs⟩
  unfold SG.propagateAlldiff at h
  by_cases h1 : vars.length ≤ 1
  · rw [if_pos h1] at h; cases h; cases hinc
  · rw [if_neg h1] at h
    simp only [] at h
    by_cases h2 : (g.filteredKeys vars).isEmpty = true
    · rw [if_pos h2] at h; cases h; cases hinc
    · rw [if_neg h2] at h
      have htg := toGraph_spec g (g.filteredKeys vars)
      have hks : ∀ x, x ∈ g.filteredKeys vars ↔ (x ∈ vars ∧ (g.dom x).isSome = true) := by
        intro x
        unfold SG.filteredKeys
        rw [mem_natDedup, List.mem_filter]
      have hkeys : ∀ x, x ∈ (g.toGraph (g.filteredKeys vars)).keys ↔ x ∈ g.filteredKeys vars := by
        intro x
        rw [htg.keys x]
        constructor
        · exact fun h => h.1
        · exact fun h => ⟨h, ((hks x).1 h).2⟩
      have hcomplete : ∀ m, Matching.findMaximum (g.toGraph (g.filteredKeys vars)) order = some m →
          m.isComplete (g.toGraph (g.filteredKeys vars)) = true := by
        intro m hm
        apply findMaximum_complete (g.toGraph (g.filteredKeys vars)) a ?_ ?_ order m ?_ htg.nodup ?_ hm
        · intro x hx y hy e
          exact inj_of_nodup_map a vars hs.1 x ((hks x).1 ((hkeys x).1 hx)).1 y ((hks y).1 ((hkeys y).1 hy)).1 e
        · intro x hx
          have hxv := ((hks x).1 ((hkeys x).1 hx)).1
          obtain ⟨d, hd, hm'⟩ := hs.2 x hxv
          unfold Graph.domain
          rw [htg.vdom x, if_pos ((hkeys x).1 hx), hd]
          simp only [Option.map_some]
          exact DT.mem_iter_newFromValues d.toList (a x) ((SS.mem_toList d (hwf x d hd) (a x)).2 hm')
        · intro x hx
          rw [htg.vdom x] at hx
          by_cases hxk : x ∈ g.filteredKeys vars
          · exact (hkeys x).2 hxk
          · rw [if_neg hxk] at hx; cases hx
        · intro x; rw [hord x, hkeys x]
      unfold sparsePropagate at h
      cases hm : Matching.findMaximum (g.toGraph (g.filteredKeys vars)) order with
      | none => rw [hm] at h; cases h
      | some m =>
        rw [hm] at h
        simp only [hcomplete m hm, Bool.not_true, Bool.false_eq_true, if_false] at h
        cases h
        cases hinc

end Gac
end Selen

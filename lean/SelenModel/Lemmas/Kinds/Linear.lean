import SelenModel.Lemmas.Kinds.Basic
/-
Contract proofs for the linear propagators: `linEq`, `linLe`, `linNe` and their reified versions.

* `contract_linEq`, `contract_linLe` : hyps `cs.length = xs.length` and (for `checking` only)
  `∃ i, i < xs.length ∧ cs.getD i 0 ≠ 0` (defect: an all-zero row is never checked,
  `checking_linEq_zero_counterexample`, `not_checking_linEq_zero`).
* `contract_linNe` : hyp `cs.length = xs.length` only (a fully fixed row is always checked).
* `contract_linEqReif_bool`, `contract_linLeReif_bool`, `contract_linNeReif_bool` : the meaning is
  strengthened by `a b = 0 ∨ a b = 1` (`sound` is false otherwise: `not_sound_linEqReif`, ...);
  `checking_linXReif` holds for the plain meaning; `contracting`, `resp` need no hypothesis.
-/
namespace Selen
namespace KLinear
open Selen.PK Selen.Lin Selen.IView Selen.Ctx Selen.Dom

/-! ### division by a negative divisor -/

theorem floorDiv_neg_neg (m k : Int) : floorDiv (-m) (-k) = floorDiv m k := by
  unfold floorDiv; exact Int.neg_fdiv_neg m k

theorem ceilDiv_neg_neg (m k : Int) : ceilDiv (-m) (-k) = ceilDiv m k := by
  unfold ceilDiv
  have := Int.neg_fdiv_neg (-m) k
  rw [Int.neg_neg] at this
  rw [Int.neg_neg, this]

theorem le_floorDiv_iff_neg (m k x : Int) (hk : k < 0) : x ≤ floorDiv m k ↔ m ≤ x * k := by
  rw [← floorDiv_neg_neg, le_floorDiv_iff (-m) (-k) x (by omega), Int.mul_neg]
  omega

theorem ceilDiv_le_iff_neg (m k x : Int) (hk : k < 0) : ceilDiv m k ≤ x ↔ x * k ≤ m := by
  rw [← ceilDiv_neg_neg, ceilDiv_le_iff (-m) (-k) x (by omega), Int.mul_neg]
  omega

theorem le_ediv_iff_pos (m k x : Int) (hk : 0 < k) : x ≤ m / k ↔ x * k ≤ m :=
  Int.le_ediv_iff_mul_le hk

theorem ediv_le_iff_neg (m k x : Int) (hk : k < 0) : m / k ≤ x ↔ x * k ≤ m := by
  have e : m / k = -(m / (-k)) := by
    have := Int.ediv_neg m (-k)
    rw [Int.neg_neg] at this; exact this
  have key : -x ≤ m / (-k) ↔ -x * (-k) ≤ m := Int.le_ediv_iff_mul_le (by omega)
  rw [Int.neg_mul_neg] at key
  rw [e]
  constructor
  · intro h; exact key.1 (by omega)
  · intro h; have := key.2 h; omega

/-! ### finite sums over index lists -/

def lsum (l : List Nat) (f : Nat → Int) : Int :=
  match l with
  | [] => 0
  | j :: l => f j + lsum l f

@[simp] theorem lsum_nil (f : Nat → Int) : lsum [] f = 0 := rfl
@[simp] theorem lsum_cons (j : Nat) (l : List Nat) (f : Nat → Int) : lsum (j :: l) f = f j + lsum l f := rfl

theorem lsum_append (l1 l2 : List Nat) (f : Nat → Int) : lsum (l1 ++ l2) f = lsum l1 f + lsum l2 f := by
  induction l1 with
  | nil => simp
  | cons j l ih => simp only [List.cons_append, lsum_cons, ih]; omega

theorem lsum_congr {l : List Nat} {f g : Nat → Int} (h : ∀ j ∈ l, f j = g j) : lsum l f = lsum l g := by
  induction l with
  | nil => rfl
  | cons j l ih =>
    simp only [lsum_cons]
    rw [h j (List.mem_cons_self), ih (fun k hk => h k (List.mem_cons_of_mem _ hk))]

theorem lsum_le {l : List Nat} {f g : Nat → Int} (h : ∀ j ∈ l, f j ≤ g j) : lsum l f ≤ lsum l g := by
  induction l with
  | nil => exact Int.le_refl _
  | cons j l ih =>
    simp only [lsum_cons]
    have := h j (List.mem_cons_self)
    have := ih (fun k hk => h k (List.mem_cons_of_mem _ hk))
    omega

def mask (i : Nat) (f : Nat → Int) : Nat → Int := fun j => if j = i then 0 else f j

theorem lsum_mask_not_mem {l : List Nat} {i : Nat} (f : Nat → Int) (h : i ∉ l) :
    lsum l (mask i f) = lsum l f := by
  apply lsum_congr
  intro j hj
  have : j ≠ i := fun e => h (e ▸ hj)
  simp [mask, this]

theorem lsum_mask {l : List Nat} {i : Nat} (f : Nat → Int) (hn : l.Nodup) (hi : i ∈ l) :
    lsum l f = lsum l (mask i f) + f i := by
  induction l with
  | nil => cases hi
  | cons j l ih =>
    rw [List.nodup_cons] at hn
    simp only [lsum_cons]
    by_cases e : j = i
    · subst e
      rw [lsum_mask_not_mem f hn.1]
      simp [mask]; omega
    · have hi' : i ∈ l := by
        rcases List.mem_cons.1 hi with h | h
        · exact absurd h.symm e
        · exact h
      rw [ih hn.2 hi']
      simp [mask, e]; omega

theorem foldl_add_eq (l : List Nat) (f : Nat → Int) (s : Int) :
    l.foldl (fun acc j => acc + f j) s = s + lsum l f := by
  induction l generalizing s with
  | nil => simp
  | cons j l ih => simp only [List.foldl_cons, ih, lsum_cons]; omega

theorem foldl_pair_mask_eq (l : List Nat) (i : Nat) (f g : Nat → Int) (p : Int × Int) :
    l.foldl (fun (acc : Int × Int) j => if j = i then acc else (acc.1 + f j, acc.2 + g j)) p
      = (p.1 + lsum l (mask i f), p.2 + lsum l (mask i g)) := by
  induction l generalizing p with
  | nil => simp
  | cons j l ih =>
    simp only [List.foldl_cons, ih, lsum_cons]
    by_cases e : j = i
    · simp [mask, e]
    · simp only [mask, e, if_false]
      ext <;> simp <;> omega

theorem foldl_pair_eq (l : List Nat) (f g : Nat → Int) (p : Int × Int) :
    l.foldl (fun (acc : Int × Int) j => (acc.1 + f j, acc.2 + g j)) p
      = (p.1 + lsum l f, p.2 + lsum l g) := by
  induction l generalizing p with
  | nil => simp
  | cons j l ih =>
    simp only [List.foldl_cons, ih, lsum_cons]
    ext <;> simp <;> omega

theorem zip_eq_map_range (cs : List Int) (xs : List Nat) (h : cs.length = xs.length) :
    List.zip cs xs = (List.range xs.length).map (fun j => (cs.getD j 0, xs.getD j 0)) := by
  apply List.ext_getElem
  · simp [h]
  · intro i h1 h2
    simp only [List.length_zip, h, Nat.min_self] at h1
    have h1' : i < cs.length := by omega
    simp [List.getElem_zip, List.getD_eq_getElem?_getD, h1, h1']

theorem getD_mem {xs : List Nat} {j : Nat} (h : j < xs.length) : xs.getD j 0 ∈ xs := by
  rw [List.getD_eq_getElem?_getD, List.getElem?_eq_getElem h]
  simp

/-! ### `forM'` induction principles -/

theorem forM'_nil {α : Type} (c : Ctx) (f : α → Ctx → Option Ctx) : forM' [] c f = some c := rfl

theorem forM'_foldl_none {α : Type} (l : List α) (f : α → Ctx → Option Ctx) :
    l.foldl (fun acc a => match acc with | none => none | some c' => f a c') none = none := by
  induction l with
  | nil => rfl
  | cons x l ih => simpa using ih

theorem forM'_cons {α : Type} (x : α) (l : List α) (c : Ctx) (f : α → Ctx → Option Ctx) :
    forM' (x :: l) c f = PK.bind (f x c) (fun c1 => forM' l c1 f) := by
  unfold forM'
  simp only [List.foldl_cons]
  cases h : f x c with
  | none => simp only [PK.bind]; exact forM'_foldl_none l f
  | some c1 => rfl

theorem forM'_keeps {α : Type} {l : List α} {f : α → Ctx → Option Ctx} {a : Asg}
    (hf : ∀ x ∈ l, ∀ c, Mem c.st a → ∃ c', f x c = some c' ∧ Mem c'.st a) :
    ∀ c, Mem c.st a → ∃ c', forM' l c f = some c' ∧ Mem c'.st a := by
  induction l with
  | nil => intro c hm; exact ⟨c, rfl, hm⟩
  | cons x l ih =>
    intro c hm
    obtain ⟨c1, e1, m1⟩ := hf x List.mem_cons_self c hm
    obtain ⟨c2, e2, m2⟩ := ih (fun y hy => hf y (List.mem_cons_of_mem _ hy)) c1 m1
    exact ⟨c2, by rw [forM'_cons, e1]; exact e2, m2⟩

theorem forM'_good {α : Type} {l : List α} {f : α → Ctx → Option Ctx} {T : List Nat}
    (hf : ∀ x ∈ l, ∀ c c', f x c = some c' → Good T c c') :
    ∀ c c', forM' l c f = some c' → Good T c c' := by
  induction l with
  | nil => intro c c' h; cases h; exact Good.refl T c
  | cons x l ih =>
    intro c c' h
    rw [forM'_cons] at h
    obtain ⟨c1, h1, h2⟩ := PK.bind_some h
    exact (hf x List.mem_cons_self c c1 h1).trans
      (ih (fun y hy => hf y (List.mem_cons_of_mem _ hy)) c1 c' h2)

/-- when every step leaves the context `c` unchanged, so does the loop, and every step succeeded on `c` -/
theorem forM'_fixed {α : Type} {l : List α} {f : α → Ctx → Option Ctx} {c : Ctx}
    (hf : ∀ x ∈ l, ∀ c', f x c = some c' → c' = c) :
    ∀ c', forM' l c f = some c' → c' = c ∧ ∀ x ∈ l, f x c = some c := by
  induction l with
  | nil => intro c' h; cases h; exact ⟨rfl, fun x hx => by cases hx⟩
  | cons x l ih =>
    intro c' h
    rw [forM'_cons] at h
    obtain ⟨c1, h1, h2⟩ := PK.bind_some h
    have e := hf x List.mem_cons_self c1 h1
    subst e
    obtain ⟨e2, h3⟩ := ih (fun y hy => hf y (List.mem_cons_of_mem _ hy)) c' h2
    refine ⟨e2, ?_⟩
    intro y hy
    rcases List.mem_cons.1 hy with rfl | hy
    · exact h1
    · exact h3 y hy

theorem forM'_resp {α : Type} {l : List α} {f : α → Ctx → Option Ctx} {T : List Nat}
    (hf : ∀ x ∈ l, ∀ d1 d2, Agree T d1 d2 → RelO T (f x d1) (f x d2)) :
    ∀ c1 c2, Agree T c1 c2 → RelO T (forM' l c1 f) (forM' l c2 f) := by
  induction l with
  | nil => intro c1 c2 h; exact RelO.some h
  | cons x l ih =>
    intro c1 c2 h
    rw [forM'_cons, forM'_cons]
    exact RelO.bind (hf x List.mem_cons_self c1 c2 h)
      (ih (fun y hy => hf y (List.mem_cons_of_mem _ hy)))

/-! ### interval arithmetic of the linear propagators -/

namespace Lin

/-- the `j`-th term of the row under an assignment -/
def tm (cs : List Int) (xs : List Nat) (a : Asg) (j : Nat) : Int := cs.getD j 0 * a (xs.getD j 0)
/-- lower / upper bound of the `j`-th term in a store -/
def lo (cs : List Int) (xs : List Nat) (st : Store) (j : Nat) : Int :=
  (termBounds (cs.getD j 0) (st (xs.getD j 0)).dmin (st (xs.getD j 0)).dmax).1
def hi (cs : List Int) (xs : List Nat) (st : Store) (j : Nat) : Int :=
  (termBounds (cs.getD j 0) (st (xs.getD j 0)).dmin (st (xs.getD j 0)).dmax).2

theorem termBounds_le (k l u x : Int) (h1 : l ≤ x) (h2 : x ≤ u) :
    (termBounds k l u).1 ≤ k * x ∧ k * x ≤ (termBounds k l u).2 := by
  unfold termBounds
  split
  · rename_i hk
    exact ⟨Int.mul_le_mul_of_nonneg_left h1 (by omega), Int.mul_le_mul_of_nonneg_left h2 (by omega)⟩
  · rename_i hk
    exact ⟨Int.mul_le_mul_of_nonpos_left (by omega) h2, Int.mul_le_mul_of_nonpos_left (by omega) h1⟩

theorem termBounds_fixed (k l : Int) : termBounds k l l = (k * l, k * l) := by
  unfold termBounds; split <;> rfl

theorem lo_le_tm (cs : List Int) (xs : List Nat) {st : Store} {a : Asg} (hm : Mem st a) (j : Nat) :
    lo cs xs st j ≤ tm cs xs a j ∧ tm cs xs a j ≤ hi cs xs st j := by
  have := hm.bounds (xs.getD j 0)
  exact termBounds_le _ _ _ _ this.1 this.2

theorem lo_eq_tm (cs : List Int) (xs : List Nat) {st : Store} {a : Asg} (hm : Mem st a) (j : Nat)
    (hf : (st (xs.getD j 0)).dmin = (st (xs.getD j 0)).dmax) :
    lo cs xs st j = tm cs xs a j ∧ hi cs xs st j = tm cs xs a j := by
  have hb := hm.bounds (xs.getD j 0)
  have e : a (xs.getD j 0) = (st (xs.getD j 0)).dmin := by omega
  unfold lo hi tm
  rw [← hf, termBounds_fixed, e]
  exact ⟨rfl, rfl⟩

theorem otherBounds_eq (cs : List Int) (xs : List Nat) (st : Store) (i : Nat) :
    otherBounds cs xs st i =
      (lsum (List.range (Nat.min cs.length xs.length)) (mask i (lo cs xs st)),
       lsum (List.range (Nat.min cs.length xs.length)) (mask i (hi cs xs st))) := by
  unfold otherBounds
  have := foldl_pair_mask_eq (List.range (Nat.min cs.length xs.length)) i (lo cs xs st) (hi cs xs st) (0, 0)
  simp only [Int.zero_add] at this
  exact this

theorem linVal_eq (cs : List Int) (xs : List Nat) (a : Asg) (h : cs.length = xs.length) :
    PK.linVal cs xs a = lsum (List.range xs.length) (tm cs xs a) := by
  unfold PK.linVal
  rw [zip_eq_map_range cs xs h, List.foldl_map]
  have := foldl_add_eq (List.range xs.length) (tm cs xs a) 0
  simp only [Int.zero_add] at this
  exact this

theorem sumBounds_eq (cs : List Int) (xs : List Nat) (st : Store) (h : cs.length = xs.length) :
    sumBounds cs xs st =
      (lsum (List.range xs.length) (lo cs xs st), lsum (List.range xs.length) (hi cs xs st)) := by
  unfold sumBounds
  rw [zip_eq_map_range cs xs h, List.foldl_map]
  have := foldl_pair_eq (List.range xs.length) (lo cs xs st) (hi cs xs st) (0, 0)
  simp only [Int.zero_add] at this
  exact this

/-- the bounds of the other terms enclose `linVal - term i` -/
theorem otherBounds_le (cs : List Int) (xs : List Nat) {st : Store} {a : Asg} (hm : Mem st a)
    (h : cs.length = xs.length) {i : Nat} (hi : i < xs.length) :
    (otherBounds cs xs st i).1 ≤ PK.linVal cs xs a - tm cs xs a i ∧
    PK.linVal cs xs a - tm cs xs a i ≤ (otherBounds cs xs st i).2 := by
  have hmin : Nat.min xs.length xs.length = xs.length := Nat.min_self _
  rw [otherBounds_eq, linVal_eq cs xs a h, h, hmin,
    lsum_mask (tm cs xs a) List.nodup_range (List.mem_range.2 hi)]
  have h1 : lsum (List.range xs.length) (mask i (lo cs xs st)) ≤ lsum (List.range xs.length) (mask i (tm cs xs a)) := by
    apply lsum_le; intro j _
    unfold mask; split
    · exact Int.le_refl _
    · exact (lo_le_tm cs xs hm j).1
  have h2 : lsum (List.range xs.length) (mask i (tm cs xs a)) ≤ lsum (List.range xs.length) (mask i (Lin.hi cs xs st)) := by
    apply lsum_le; intro j _
    unfold mask; split
    · exact Int.le_refl _
    · exact (lo_le_tm cs xs hm j).2
  constructor <;> simp only <;> omega

/-- on a store fixed on the row's variables the bounds are exact -/
theorem otherBounds_fixed (cs : List Int) (xs : List Nat) {st : Store} {a : Asg} (hm : Mem st a)
    (h : cs.length = xs.length) {i : Nat} (hi : i < xs.length)
    (hf : ∀ j, j < xs.length → (st (xs.getD j 0)).dmin = (st (xs.getD j 0)).dmax) :
    (otherBounds cs xs st i).1 = PK.linVal cs xs a - tm cs xs a i ∧
    (otherBounds cs xs st i).2 = PK.linVal cs xs a - tm cs xs a i := by
  have hmin : Nat.min xs.length xs.length = xs.length := Nat.min_self _
  rw [otherBounds_eq, linVal_eq cs xs a h, h, hmin,
    lsum_mask (tm cs xs a) List.nodup_range (List.mem_range.2 hi)]
  have h1 : lsum (List.range xs.length) (mask i (lo cs xs st)) = lsum (List.range xs.length) (mask i (tm cs xs a)) := by
    apply lsum_congr; intro j hj
    unfold mask; split
    · rfl
    · exact (lo_eq_tm cs xs hm j (hf j (List.mem_range.1 hj))).1
  have h2 : lsum (List.range xs.length) (mask i (Lin.hi cs xs st)) = lsum (List.range xs.length) (mask i (tm cs xs a)) := by
    apply lsum_congr; intro j hj
    unfold mask; split
    · rfl
    · exact (lo_eq_tm cs xs hm j (hf j (List.mem_range.1 hj))).2
  constructor <;> simp only <;> omega

/-- `otherBounds` reads only the row's variables -/
theorem otherBounds_agree (cs : List Int) (xs : List Nat) {T : List Nat} (hT : ∀ v ∈ xs, v ∈ T)
    {c1 c2 : Ctx} (hag : Agree T c1 c2) (i : Nat) :
    otherBounds cs xs c1.st i = otherBounds cs xs c2.st i := by
  rw [otherBounds_eq, otherBounds_eq]
  have e : ∀ j ∈ List.range (Nat.min cs.length xs.length), c1.st (xs.getD j 0) = c2.st (xs.getD j 0) := by
    intro j hj
    have : j < xs.length := by
      have := List.mem_range.1 hj
      exact Nat.lt_of_lt_of_le this (Nat.min_le_right _ _)
    exact hag _ (hT _ (getD_mem this))
  congr 1
  · apply lsum_congr; intro j hj; unfold mask lo; rw [e j hj]
  · apply lsum_congr; intro j hj; unfold mask Lin.hi; rw [e j hj]

/-! ### `pruneEq` -/

/-- new bounds for a variable with coefficient `k` whose term must lie in `[tmin, tmax]` -/
def nbOf (k tmin tmax : Int) : Int × Int :=
  if k > 0 then (ceilDiv tmin k, floorDiv tmax k) else (ceilDiv tmax k, floorDiv tmin k)

theorem nbOf_iff (k tmin tmax v : Int) (hk : k ≠ 0) :
    ((nbOf k tmin tmax).1 ≤ v ∧ v ≤ (nbOf k tmin tmax).2) ↔ (tmin ≤ k * v ∧ k * v ≤ tmax) := by
  unfold nbOf
  rw [Int.mul_comm k v]
  split
  · rename_i h
    simp only
    rw [ceilDiv_le_iff _ _ _ h, le_floorDiv_iff _ _ _ h]
  · rename_i h
    have h' : k < 0 := by omega
    simp only
    rw [ceilDiv_le_iff_neg _ _ _ h', le_floorDiv_iff_neg _ _ _ h']
    exact And.comm

def eqStep (cs : List Int) (xs : List Nat) (c : Int) (i : Nat) (ctx : Ctx) : Option Ctx :=
  if cs.getD i 0 = 0 then some ctx else
    PK.bind (ctx.trySetMin (xs.getD i 0)
        (nbOf (cs.getD i 0) (c - (otherBounds cs xs ctx.st i).2) (c - (otherBounds cs xs ctx.st i).1)).1)
      (fun c1 => c1.trySetMax (xs.getD i 0)
        (nbOf (cs.getD i 0) (c - (otherBounds cs xs ctx.st i).2) (c - (otherBounds cs xs ctx.st i).1)).2)

theorem pruneEq_eq (cs : List Int) (xs : List Nat) (c : Int) (ctx : Ctx) :
    pruneEq cs xs c ctx = forM' (List.range xs.length) ctx (eqStep cs xs c) := rfl

theorem eqStep_keeps (cs : List Int) (xs : List Nat) (c : Int) (h : cs.length = xs.length)
    {a : Asg} (hs : PK.linVal cs xs a = c) {i : Nat} (hi : i < xs.length) (ctx : Ctx)
    (hm : Mem ctx.st a) : ∃ c', eqStep cs xs c i ctx = some c' ∧ Mem c'.st a := by
  unfold eqStep
  split
  · exact ⟨ctx, rfl, hm⟩
  · rename_i hk
    have hb := otherBounds_le cs xs hm h hi
    have hnb := (nbOf_iff (cs.getD i 0) (c - (otherBounds cs xs ctx.st i).2)
      (c - (otherBounds cs xs ctx.st i).1) (a (xs.getD i 0)) hk).2
      (by unfold tm at hb; omega)
    obtain ⟨c1, e1, m1⟩ := Ctx.trySetMin_keeps hm hnb.1
    obtain ⟨c2, e2, m2⟩ := Ctx.trySetMax_keeps m1 hnb.2
    exact ⟨c2, by rw [e1]; exact e2, m2⟩

theorem eqStep_good (cs : List Int) (xs : List Nat) (c : Int) {T : List Nat} (hT : ∀ v ∈ xs, v ∈ T)
    {i : Nat} (hi : i < xs.length) (ctx c' : Ctx) (hr : eqStep cs xs c i ctx = some c') :
    Good T ctx c' := by
  unfold eqStep at hr
  split at hr
  · cases hr; exact Good.refl T ctx
  · obtain ⟨c1, h1, h2⟩ := PK.bind_some hr
    have hx := hT _ (getD_mem hi)
    exact (Ctx.trySetMin_good hx h1).trans (Ctx.trySetMax_good hx h2)

theorem eqStep_fixed (cs : List Int) (xs : List Nat) (c : Int) {i : Nat} {ctx c' : Ctx} {w : Int}
    (hf : ctx.st (xs.getD i 0) = [w]) (hr : eqStep cs xs c i ctx = some c') :
    c' = ctx ∧ (cs.getD i 0 ≠ 0 →
      (nbOf (cs.getD i 0) (c - (otherBounds cs xs ctx.st i).2) (c - (otherBounds cs xs ctx.st i).1)).1 ≤ w ∧
      w ≤ (nbOf (cs.getD i 0) (c - (otherBounds cs xs ctx.st i).2) (c - (otherBounds cs xs ctx.st i).1)).2) := by
  unfold eqStep at hr
  split at hr
  · rename_i hk; cases hr; exact ⟨rfl, fun h => absurd hk h⟩
  · obtain ⟨c1, h1, h2⟩ := PK.bind_some hr
    obtain ⟨e1, b1⟩ := Ctx.trySetMin_fixed hf h1
    subst e1
    obtain ⟨e2, b2⟩ := Ctx.trySetMax_fixed hf h2
    exact ⟨e2, fun _ => ⟨b1, b2⟩⟩

theorem eqStep_resp (cs : List Int) (xs : List Nat) (c : Int) {T : List Nat} (hT : ∀ v ∈ xs, v ∈ T)
    {i : Nat} (hi : i < xs.length) (d1 d2 : Ctx) (hag : Agree T d1 d2) :
    RelO T (eqStep cs xs c i d1) (eqStep cs xs c i d2) := by
  unfold eqStep
  rw [otherBounds_agree cs xs hT hag i]
  split
  · exact RelO.some hag
  · have hx := hT _ (getD_mem hi)
    exact RelO.bind (Ctx.trySetMin_resp _ hx hag) (fun e1 e2 he => Ctx.trySetMax_resp _ hx he)

theorem sound_pruneEq (cs : List Int) (xs : List Nat) (c : Int) (h : cs.length = xs.length) :
    Sound (pruneEq cs xs c) (fun a => PK.linVal cs xs a = c) := by
  intro ctx a hm hs
  rw [pruneEq_eq]
  exact forM'_keeps (fun i hi d hd => eqStep_keeps cs xs c h hs (List.mem_range.1 hi) d hd) ctx hm

theorem contracting_pruneEq (cs : List Int) (xs : List Nat) (c : Int) {T : List Nat}
    (hT : ∀ v ∈ xs, v ∈ T) : Contracting (pruneEq cs xs c) T := by
  intro ctx c' hr
  rw [pruneEq_eq] at hr
  exact forM'_good (fun i hi d d' hd => eqStep_good cs xs c hT (List.mem_range.1 hi) d d' hd) ctx c' hr

theorem fixedOn_getD {T : List Nat} {st : Store} {xs : List Nat} (hT : ∀ v ∈ xs, v ∈ T)
    (hf : FixedOn T st) {j : Nat} (hj : j < xs.length) : ∃ w, st (xs.getD j 0) = [w] :=
  hf _ (hT _ (getD_mem hj))

theorem fixedOn_minmax {T : List Nat} {st : Store} {xs : List Nat} (hT : ∀ v ∈ xs, v ∈ T)
    (hf : FixedOn T st) (j : Nat) (hj : j < xs.length) :
    (st (xs.getD j 0)).dmin = (st (xs.getD j 0)).dmax := by
  obtain ⟨w, hw⟩ := fixedOn_getD hT hf hj
  rw [(fixed_bounds hw).1, (fixed_bounds hw).2]

theorem mem_fixed {st : Store} {a : Asg} (hm : Mem st a) {v : Nat} {w : Int} (hw : st v = [w]) :
    a v = w := by
  have := hm v; rw [hw] at this; simpa using this

theorem checking_pruneEq (cs : List Int) (xs : List Nat) (c : Int) (h : cs.length = xs.length)
    (hnz : ∃ i, i < xs.length ∧ cs.getD i 0 ≠ 0) {T : List Nat} (hT : ∀ v ∈ xs, v ∈ T) :
    Checking (pruneEq cs xs c) (fun a => PK.linVal cs xs a = c) T := by
  intro ctx c' a hf hm hr
  rw [pruneEq_eq] at hr
  obtain ⟨i, hi, hk⟩ := hnz
  have hstep : ∀ j ∈ List.range xs.length, ∀ d, eqStep cs xs c j ctx = some d → d = ctx := by
    intro j hj d hd
    obtain ⟨w, hw⟩ := fixedOn_getD hT hf (List.mem_range.1 hj)
    exact (eqStep_fixed cs xs c hw hd).1
  obtain ⟨_, hall⟩ := forM'_fixed hstep c' hr
  obtain ⟨w, hw⟩ := fixedOn_getD hT hf hi
  have hb := (eqStep_fixed cs xs c hw (hall i (List.mem_range.2 hi))).2 hk
  have := (nbOf_iff _ _ _ _ hk).1 hb
  have hob := otherBounds_fixed cs xs hm h hi (fixedOn_minmax hT hf)
  have ea := mem_fixed hm hw
  unfold tm at hob
  rw [ea] at hob
  show PK.linVal cs xs a = c
  omega

theorem resp_pruneEq (cs : List Int) (xs : List Nat) (c : Int) {T : List Nat}
    (hT : ∀ v ∈ xs, v ∈ T) : Resp T (pruneEq cs xs c) := by
  intro c1 c2 hag
  rw [pruneEq_eq, pruneEq_eq]
  exact forM'_resp (fun i hi d1 d2 hd => eqStep_resp cs xs c hT (List.mem_range.1 hi) d1 d2 hd) c1 c2 hag

/-! ### `pruneLe` -/

def leStep (cs : List Int) (xs : List Nat) (c : Int) (i : Nat) (ctx : Ctx) : Option Ctx :=
  if cs.getD i 0 = 0 then some ctx else
    if cs.getD i 0 > 0 then
      ctx.trySetMax (xs.getD i 0) ((c - (otherBounds cs xs ctx.st i).1) / cs.getD i 0)
    else ctx.trySetMin (xs.getD i 0) ((c - (otherBounds cs xs ctx.st i).1) / cs.getD i 0)

theorem pruneLe_eq (cs : List Int) (xs : List Nat) (c : Int) (ctx : Ctx) :
    pruneLe cs xs c ctx = forM' (List.range xs.length) ctx (leStep cs xs c) := rfl

theorem leStep_keeps (cs : List Int) (xs : List Nat) (c : Int) (h : cs.length = xs.length)
    {a : Asg} (hs : PK.linVal cs xs a ≤ c) {i : Nat} (hi : i < xs.length) (ctx : Ctx)
    (hm : Mem ctx.st a) : ∃ c', leStep cs xs c i ctx = some c' ∧ Mem c'.st a := by
  unfold leStep
  have hb := (otherBounds_le cs xs hm h hi).1
  unfold tm at hb
  rw [Int.mul_comm] at hb
  split
  · exact ⟨ctx, rfl, hm⟩
  · rename_i hk
    split
    · rename_i hp
      exact Ctx.trySetMax_keeps hm ((le_ediv_iff_pos _ _ _ hp).2 (by omega))
    · exact Ctx.trySetMin_keeps hm ((ediv_le_iff_neg _ _ _ (by omega)).2 (by omega))

theorem leStep_good (cs : List Int) (xs : List Nat) (c : Int) {T : List Nat} (hT : ∀ v ∈ xs, v ∈ T)
    {i : Nat} (hi : i < xs.length) (ctx c' : Ctx) (hr : leStep cs xs c i ctx = some c') :
    Good T ctx c' := by
  unfold leStep at hr
  have hx := hT _ (getD_mem hi)
  split at hr
  · cases hr; exact Good.refl T ctx
  · split at hr
    · exact Ctx.trySetMax_good hx hr
    · exact Ctx.trySetMin_good hx hr

theorem leStep_fixed (cs : List Int) (xs : List Nat) (c : Int) {i : Nat} {ctx c' : Ctx} {w : Int}
    (hf : ctx.st (xs.getD i 0) = [w]) (hr : leStep cs xs c i ctx = some c') :
    c' = ctx ∧ (cs.getD i 0 ≠ 0 → w * cs.getD i 0 ≤ c - (otherBounds cs xs ctx.st i).1) := by
  unfold leStep at hr
  split at hr
  · rename_i hk; cases hr; exact ⟨rfl, fun h => absurd hk h⟩
  · split at hr
    · rename_i hp
      obtain ⟨e, b⟩ := Ctx.trySetMax_fixed hf hr
      exact ⟨e, fun _ => (le_ediv_iff_pos _ _ _ hp).1 b⟩
    · obtain ⟨e, b⟩ := Ctx.trySetMin_fixed hf hr
      exact ⟨e, fun _ => (ediv_le_iff_neg _ _ _ (by omega)).1 b⟩

theorem leStep_resp (cs : List Int) (xs : List Nat) (c : Int) {T : List Nat} (hT : ∀ v ∈ xs, v ∈ T)
    {i : Nat} (hi : i < xs.length) (d1 d2 : Ctx) (hag : Agree T d1 d2) :
    RelO T (leStep cs xs c i d1) (leStep cs xs c i d2) := by
  unfold leStep
  rw [otherBounds_agree cs xs hT hag i]
  have hx := hT _ (getD_mem hi)
  split
  · exact RelO.some hag
  · split
    · exact Ctx.trySetMax_resp _ hx hag
    · exact Ctx.trySetMin_resp _ hx hag

theorem sound_pruneLe (cs : List Int) (xs : List Nat) (c : Int) (h : cs.length = xs.length) :
    Sound (pruneLe cs xs c) (fun a => PK.linVal cs xs a ≤ c) := by
  intro ctx a hm hs
  rw [pruneLe_eq]
  exact forM'_keeps (fun i hi d hd => leStep_keeps cs xs c h hs (List.mem_range.1 hi) d hd) ctx hm

theorem contracting_pruneLe (cs : List Int) (xs : List Nat) (c : Int) {T : List Nat}
    (hT : ∀ v ∈ xs, v ∈ T) : Contracting (pruneLe cs xs c) T := by
  intro ctx c' hr
  rw [pruneLe_eq] at hr
  exact forM'_good (fun i hi d d' hd => leStep_good cs xs c hT (List.mem_range.1 hi) d d' hd) ctx c' hr

theorem checking_pruneLe (cs : List Int) (xs : List Nat) (c : Int) (h : cs.length = xs.length)
    (hnz : ∃ i, i < xs.length ∧ cs.getD i 0 ≠ 0) {T : List Nat} (hT : ∀ v ∈ xs, v ∈ T) :
    Checking (pruneLe cs xs c) (fun a => PK.linVal cs xs a ≤ c) T := by
  intro ctx c' a hf hm hr
  rw [pruneLe_eq] at hr
  obtain ⟨i, hi, hk⟩ := hnz
  have hstep : ∀ j ∈ List.range xs.length, ∀ d, leStep cs xs c j ctx = some d → d = ctx := by
    intro j hj d hd
    obtain ⟨w, hw⟩ := fixedOn_getD hT hf (List.mem_range.1 hj)
    exact (leStep_fixed cs xs c hw hd).1
  obtain ⟨_, hall⟩ := forM'_fixed hstep c' hr
  obtain ⟨w, hw⟩ := fixedOn_getD hT hf hi
  have hb := (leStep_fixed cs xs c hw (hall i (List.mem_range.2 hi))).2 hk
  have hob := (otherBounds_fixed cs xs hm h hi (fixedOn_minmax hT hf)).1
  have ea := mem_fixed hm hw
  unfold tm at hob
  rw [ea, Int.mul_comm] at hob
  show PK.linVal cs xs a ≤ c
  omega

theorem resp_pruneLe (cs : List Int) (xs : List Nat) (c : Int) {T : List Nat}
    (hT : ∀ v ∈ xs, v ∈ T) : Resp T (pruneLe cs xs c) := by
  intro c1 c2 hag
  rw [pruneLe_eq, pruneLe_eq]
  exact forM'_resp (fun i hi d1 d2 hd => leStep_resp cs xs c hT (List.mem_range.1 hi) d1 d2 hd) c1 c2 hag

/-! ### `pruneNe` -/

/-- the `j`-th variable has a point interval -/
def fx (xs : List Nat) (st : Store) (j : Nat) : Prop :=
  (st (xs.getD j 0)).dmin = (st (xs.getD j 0)).dmax

instance (xs : List Nat) (st : Store) (j : Nat) : Decidable (fx xs st j) := by unfold fx; infer_instance

/-- the `j`-th term evaluated at the variable's minimum -/
def dt (cs : List Int) (xs : List Nat) (st : Store) (j : Nat) : Int :=
  cs.getD j 0 * (st (xs.getD j 0)).dmin

def neF (cs : List Int) (xs : List Nat) (st : Store) (acc : Option (Option Nat × Int)) (i : Nat) :
    Option (Option Nat × Int) :=
  match acc with
  | none => none
  | some (u, s) =>
    if (st (xs.getD i 0)).dmin = (st (xs.getD i 0)).dmax then some (u, s + cs.getD i 0 * (st (xs.getD i 0)).dmin)
    else match u with
      | some _ => none
      | none => some (some i, s)

theorem neScan_eq (cs : List Int) (xs : List Nat) (st : Store) :
    neScan cs xs st = (List.range xs.length).foldl (neF cs xs st) (some (none, 0)) := rfl

theorem neF_fx {cs : List Int} {xs : List Nat} {st : Store} {j : Nat} (h : fx xs st j)
    (u : Option Nat) (s : Int) : neF cs xs st (some (u, s)) j = some (u, s + dt cs xs st j) := by
  unfold fx at h
  simp only [neF, h, if_true, dt]

theorem neF_nfx_none {cs : List Int} {xs : List Nat} {st : Store} {j : Nat} (h : ¬ fx xs st j)
    (s : Int) : neF cs xs st (some (none, s)) j = some (some j, s) := by
  unfold fx at h
  simp only [neF, h, if_false]

theorem neF_nfx_some {cs : List Int} {xs : List Nat} {st : Store} {j : Nat} (h : ¬ fx xs st j)
    (i : Nat) (s : Int) : neF cs xs st (some (some i, s)) j = none := by
  unfold fx at h
  simp only [neF, h, if_false]

theorem neFold_none (cs : List Int) (xs : List Nat) (st : Store) (l : List Nat) :
    l.foldl (neF cs xs st) none = none := by
  induction l with
  | nil => rfl
  | cons j l ih => simpa [neF] using ih

theorem neFold_fixed (cs : List Int) (xs : List Nat) (st : Store) (l : List Nat)
    (hf : ∀ j ∈ l, fx xs st j) (u : Option Nat) (s : Int) :
    l.foldl (neF cs xs st) (some (u, s)) = some (u, s + lsum l (dt cs xs st)) := by
  induction l generalizing s with
  | nil => simp
  | cons j l ih =>
    rw [List.foldl_cons, neF_fx (hf j List.mem_cons_self), ih (fun k hk => hf k (List.mem_cons_of_mem _ hk))]
    simp only [lsum_cons]
    congr 2; omega

theorem neFold_from_some (cs : List Int) (xs : List Nat) (st : Store) (l : List Nat) (i0 : Nat) (s : Int)
    {u' : Option Nat} {s' : Int} (h : l.foldl (neF cs xs st) (some (some i0, s)) = some (u', s')) :
    u' = some i0 ∧ (∀ j ∈ l, fx xs st j) ∧ s' = s + lsum l (dt cs xs st) := by
  induction l generalizing s with
  | nil =>
    simp only [List.foldl_nil, Option.some.injEq, Prod.mk.injEq] at h
    exact ⟨h.1.symm, (fun j hj => by cases hj), by simp [h.2]⟩
  | cons j l ih =>
    rw [List.foldl_cons] at h
    by_cases hj : fx xs st j
    · rw [neF_fx hj] at h
      obtain ⟨e1, e2, e3⟩ := ih _ h
      refine ⟨e1, ?_, by simp only [lsum_cons]; omega⟩
      intro k hk
      rcases List.mem_cons.1 hk with rfl | hk
      · exact hj
      · exact e2 k hk
    · rw [neF_nfx_some hj, neFold_none] at h
      cases h

theorem neFold_from_none (cs : List Int) (xs : List Nat) (st : Store) (l : List Nat) (s : Int)
    {u' : Option Nat} {s' : Int} (h : l.foldl (neF cs xs st) (some (none, s)) = some (u', s')) :
    (u' = none ∧ (∀ j ∈ l, fx xs st j) ∧ s' = s + lsum l (dt cs xs st)) ∨
    (∃ i l1 l2, u' = some i ∧ l = l1 ++ i :: l2 ∧ ¬ fx xs st i ∧ (∀ j ∈ l1, fx xs st j) ∧
      (∀ j ∈ l2, fx xs st j) ∧ s' = s + lsum l1 (dt cs xs st) + lsum l2 (dt cs xs st)) := by
  induction l generalizing s with
  | nil =>
    simp only [List.foldl_nil, Option.some.injEq, Prod.mk.injEq] at h
    exact Or.inl ⟨h.1.symm, (fun j hj => by cases hj), by simp [h.2]⟩
  | cons j l ih =>
    rw [List.foldl_cons] at h
    by_cases hj : fx xs st j
    · rw [neF_fx hj] at h
      rcases ih _ h with ⟨e1, e2, e3⟩ | ⟨i, l1, l2, e1, e2, e3, e4, e5, e6⟩
      · refine Or.inl ⟨e1, ?_, by simp only [lsum_cons]; omega⟩
        intro k hk
        rcases List.mem_cons.1 hk with rfl | hk
        · exact hj
        · exact e2 k hk
      · refine Or.inr ⟨i, j :: l1, l2, e1, by rw [e2]; rfl, e3, ?_, e5, by simp only [lsum_cons]; omega⟩
        intro k hk
        rcases List.mem_cons.1 hk with rfl | hk
        · exact hj
        · exact e4 k hk
    · rw [neF_nfx_none hj] at h
      obtain ⟨e1, e2, e3⟩ := neFold_from_some cs xs st l j s h
      exact Or.inr ⟨j, [], l, e1, rfl, hj, (fun k hk => by cases hk), e2, by simp; exact e3⟩

theorem dt_eq_tm (cs : List Int) (xs : List Nat) {st : Store} {a : Asg} (hm : Mem st a) {j : Nat}
    (hf : fx xs st j) : dt cs xs st j = tm cs xs a j := by
  have hb := hm.bounds (xs.getD j 0)
  unfold fx at hf
  have e : a (xs.getD j 0) = (st (xs.getD j 0)).dmin := by omega
  unfold dt tm; rw [e]

theorem lsum_dt_eq_tm (cs : List Int) (xs : List Nat) {st : Store} {a : Asg} (hm : Mem st a)
    {l : List Nat} (hf : ∀ j ∈ l, fx xs st j) : lsum l (dt cs xs st) = lsum l (tm cs xs a) :=
  lsum_congr (fun j hj => dt_eq_tm cs xs hm (hf j hj))

/-- meaning of a scan that found no unfixed variable -/
theorem neScan_none_spec (cs : List Int) (xs : List Nat) {st : Store} {a : Asg} (hm : Mem st a)
    (h : cs.length = xs.length) {s : Int} (hs : neScan cs xs st = some (none, s)) :
    s = PK.linVal cs xs a := by
  rw [neScan_eq] at hs
  rcases neFold_from_none cs xs st _ 0 hs with ⟨_, e2, e3⟩ | ⟨i, l1, l2, e1, _⟩
  · rw [linVal_eq cs xs a h, ← lsum_dt_eq_tm cs xs hm e2]; omega
  · cases e1

/-- meaning of a scan that found exactly one unfixed variable -/
theorem neScan_some_spec (cs : List Int) (xs : List Nat) {st : Store} {a : Asg} (hm : Mem st a)
    (h : cs.length = xs.length) {i : Nat} {s : Int} (hs : neScan cs xs st = some (some i, s)) :
    i < xs.length ∧ s + tm cs xs a i = PK.linVal cs xs a := by
  rw [neScan_eq] at hs
  rcases neFold_from_none cs xs st _ 0 hs with ⟨e1, _⟩ | ⟨i', l1, l2, e1, e2, e3, e4, e5, e6⟩
  · cases e1
  · cases e1
    have hi : i ∈ List.range xs.length := by rw [e2]; simp
    refine ⟨List.mem_range.1 hi, ?_⟩
    rw [linVal_eq cs xs a h, e2, lsum_append, lsum_cons, ← lsum_dt_eq_tm cs xs hm e4,
      ← lsum_dt_eq_tm cs xs hm e5]
    omega

theorem neScan_some_lt (cs : List Int) (xs : List Nat) {st : Store}
    {i : Nat} {s : Int} (hs : neScan cs xs st = some (some i, s)) : i < xs.length := by
  rw [neScan_eq] at hs
  rcases neFold_from_none cs xs st _ 0 hs with ⟨e1, _⟩ | ⟨i', l1, l2, e1, e2, _⟩
  · cases e1
  · cases e1
    have hi : i ∈ List.range xs.length := by rw [e2]; simp
    exact List.mem_range.1 hi

theorem foldl_congr_mem {α β : Type} {f g : β → α → β} {l : List α}
    (h : ∀ b, ∀ x ∈ l, f b x = g b x) (b : β) : l.foldl f b = l.foldl g b := by
  induction l generalizing b with
  | nil => rfl
  | cons x l ih =>
    rw [List.foldl_cons, List.foldl_cons, h b x List.mem_cons_self]
    exact ih (fun b y hy => h b y (List.mem_cons_of_mem _ hy)) _

theorem neScan_agree (cs : List Int) (xs : List Nat) {T : List Nat} (hT : ∀ v ∈ xs, v ∈ T)
    {c1 c2 : Ctx} (hag : Agree T c1 c2) : neScan cs xs c1.st = neScan cs xs c2.st := by
  rw [neScan_eq, neScan_eq]
  apply foldl_congr_mem
  intro b j hj
  unfold neF
  rw [hag _ (hT _ (getD_mem (List.mem_range.1 hj)))]

theorem excludeValue_keeps {x : Nat} {f : Int} {ctx : Ctx} {a : Asg} (hm : Mem ctx.st a)
    (hne : a x ≠ f) : ∃ c', excludeValue x f ctx = some c' ∧ Mem c'.st a := by
  have hb := hm.bounds x
  simp only [excludeValue]
  split
  · exact ⟨ctx, rfl, hm⟩
  · split
    · omega
    · split
      · exact Ctx.trySetMin_keeps hm (by omega)
      · split
        · exact Ctx.trySetMax_keeps hm (by omega)
        · exact ⟨ctx, rfl, hm⟩

theorem excludeValue_good {x : Nat} {f : Int} {ctx c' : Ctx} {T : List Nat} (hx : x ∈ T)
    (hr : excludeValue x f ctx = some c') : Good T ctx c' := by
  simp only [excludeValue] at hr
  split at hr
  · cases hr; exact Good.refl T ctx
  · split at hr
    · cases hr
    · split at hr
      · exact Ctx.trySetMin_good hx hr
      · split at hr
        · exact Ctx.trySetMax_good hx hr
        · cases hr; exact Good.refl T ctx

theorem excludeValue_resp {x : Nat} (f : Int) {T : List Nat} (hx : x ∈ T) {c1 c2 : Ctx}
    (hag : Agree T c1 c2) : RelO T (excludeValue x f c1) (excludeValue x f c2) := by
  simp only [excludeValue]
  rw [hag x hx]
  split
  · exact RelO.some hag
  · split
    · exact RelO.none
    · split
      · exact Ctx.trySetMin_resp _ hx hag
      · split
        · exact Ctx.trySetMax_resp _ hx hag
        · exact RelO.some hag

theorem sound_pruneNe (cs : List Int) (xs : List Nat) (c : Int) (h : cs.length = xs.length) :
    Sound (pruneNe cs xs c) (fun a => PK.linVal cs xs a ≠ c) := by
  intro ctx a hm hs
  unfold pruneNe
  split
  · exact ⟨ctx, rfl, hm⟩
  · rename_i s hsc
    have := neScan_none_spec cs xs hm h hsc
    rw [if_neg (by omega)]
    exact ⟨ctx, rfl, hm⟩
  · rename_i i s hsc
    obtain ⟨hi, hv⟩ := neScan_some_spec cs xs hm h hsc
    unfold tm at hv
    simp only
    split
    · rename_i hk
      rw [hk, Int.zero_mul] at hv
      rw [if_neg (by omega)]
      exact ⟨ctx, rfl, hm⟩
    · split
      · rename_i hk hmod
        apply excludeValue_keeps hm
        intro he
        have := Int.tmod_add_mul_tdiv (c - s) (cs.getD i 0)
        rw [hmod, ← he] at this
        omega
      · exact ⟨ctx, rfl, hm⟩

theorem contracting_pruneNe (cs : List Int) (xs : List Nat) (c : Int) {T : List Nat}
    (hT : ∀ v ∈ xs, v ∈ T) : Contracting (pruneNe cs xs c) T := by
  intro ctx c' hr
  unfold pruneNe at hr
  split at hr
  · cases hr; exact Good.refl T ctx
  · split at hr
    · cases hr
    · cases hr; exact Good.refl T ctx
  · rename_i i s hsc
    have hi := neScan_some_lt cs xs hsc
    simp only at hr
    split at hr
    · split at hr
      · cases hr
      · cases hr; exact Good.refl T ctx
    · split at hr
      · exact excludeValue_good (hT _ (getD_mem hi)) hr
      · cases hr; exact Good.refl T ctx

theorem checking_pruneNe (cs : List Int) (xs : List Nat) (c : Int) (h : cs.length = xs.length)
    {T : List Nat} (hT : ∀ v ∈ xs, v ∈ T) :
    Checking (pruneNe cs xs c) (fun a => PK.linVal cs xs a ≠ c) T := by
  intro ctx c' a hf hm hr
  have hfx : ∀ j ∈ List.range xs.length, fx xs ctx.st j :=
    fun j hj => fixedOn_minmax hT hf j (List.mem_range.1 hj)
  have hsc : neScan cs xs ctx.st = some (none, 0 + lsum (List.range xs.length) (dt cs xs ctx.st)) := by
    rw [neScan_eq]; exact neFold_fixed cs xs ctx.st _ hfx none 0
  have hv := neScan_none_spec cs xs hm h hsc
  unfold pruneNe at hr
  rw [hsc] at hr
  simp only at hr
  split at hr
  · cases hr
  · show PK.linVal cs xs a ≠ c
    omega

theorem resp_pruneNe (cs : List Int) (xs : List Nat) (c : Int) {T : List Nat}
    (hT : ∀ v ∈ xs, v ∈ T) : Resp T (pruneNe cs xs c) := by
  intro c1 c2 hag
  unfold pruneNe
  rw [neScan_agree cs xs hT hag]
  split
  · exact RelO.some hag
  · split
    · exact RelO.none
    · exact RelO.some hag
  · rename_i i s hsc
    have hi := neScan_some_lt cs xs hsc
    simp only
    split
    · split
      · exact RelO.none
      · exact RelO.some hag
    · split
      · exact excludeValue_resp _ (hT _ (getD_mem hi)) hag
      · exact RelO.some hag

/-! ### `fixedSum`, `sumBounds` -/

def fsF (cs : List Int) (xs : List Nat) (st : Store) (acc : Option Int) (j : Nat) : Option Int :=
  match acc with
  | none => none
  | some s =>
    if (st (xs.getD j 0)).dmin = (st (xs.getD j 0)).dmax then some (s + cs.getD j 0 * (st (xs.getD j 0)).dmin)
    else none

theorem fixedSum_eq (cs : List Int) (xs : List Nat) (st : Store) (h : cs.length = xs.length) :
    fixedSum cs xs st = (List.range xs.length).foldl (fsF cs xs st) (some 0) := by
  unfold fixedSum
  rw [zip_eq_map_range cs xs h, List.foldl_map]
  rfl

theorem fsFold_none (cs : List Int) (xs : List Nat) (st : Store) (l : List Nat) :
    l.foldl (fsF cs xs st) none = none := by
  induction l with
  | nil => rfl
  | cons j l ih => simpa [fsF] using ih

theorem fsFold_fixed (cs : List Int) (xs : List Nat) (st : Store) (l : List Nat)
    (hf : ∀ j ∈ l, fx xs st j) (s : Int) :
    l.foldl (fsF cs xs st) (some s) = some (s + lsum l (dt cs xs st)) := by
  induction l generalizing s with
  | nil => simp
  | cons j l ih =>
    have hj : (st (xs.getD j 0)).dmin = (st (xs.getD j 0)).dmax := hf j List.mem_cons_self
    rw [List.foldl_cons]
    simp only [fsF, hj, if_true]
    rw [ih (fun k hk => hf k (List.mem_cons_of_mem _ hk))]
    simp only [lsum_cons, dt, hj]
    congr 1; omega

theorem fsFold_some (cs : List Int) (xs : List Nat) (st : Store) (l : List Nat) (s : Int) {s' : Int}
    (h : l.foldl (fsF cs xs st) (some s) = some s') :
    (∀ j ∈ l, fx xs st j) ∧ s' = s + lsum l (dt cs xs st) := by
  induction l generalizing s with
  | nil =>
    simp only [List.foldl_nil, Option.some.injEq] at h
    exact ⟨(fun j hj => by cases hj), by simp [h]⟩
  | cons j l ih =>
    rw [List.foldl_cons] at h
    by_cases hj : (st (xs.getD j 0)).dmin = (st (xs.getD j 0)).dmax
    · simp only [fsF, hj, if_true] at h
      obtain ⟨e1, e2⟩ := ih _ h
      refine ⟨?_, by simp only [lsum_cons, dt, hj]; omega⟩
      intro k hk
      rcases List.mem_cons.1 hk with rfl | hk
      · exact hj
      · exact e1 k hk
    · simp only [fsF, hj, if_false] at h
      rw [fsFold_none] at h
      cases h

theorem fixedSum_spec (cs : List Int) (xs : List Nat) {st : Store} {a : Asg} (hm : Mem st a)
    (h : cs.length = xs.length) {s : Int} (hs : fixedSum cs xs st = some s) :
    s = PK.linVal cs xs a := by
  rw [fixedSum_eq cs xs st h] at hs
  obtain ⟨e1, e2⟩ := fsFold_some cs xs st _ 0 hs
  rw [linVal_eq cs xs a h, ← lsum_dt_eq_tm cs xs hm e1]; omega

theorem fixedSum_of_fixed (cs : List Int) (xs : List Nat) {st : Store} {a : Asg} (hm : Mem st a)
    (h : cs.length = xs.length) (hf : ∀ j, j < xs.length → fx xs st j) :
    fixedSum cs xs st = some (PK.linVal cs xs a) := by
  have hf' : ∀ j ∈ List.range xs.length, fx xs st j := fun j hj => hf j (List.mem_range.1 hj)
  rw [fixedSum_eq cs xs st h, fsFold_fixed cs xs st _ hf', linVal_eq cs xs a h,
    lsum_dt_eq_tm cs xs hm hf', Int.zero_add]

theorem fixedSum_agree (cs : List Int) (xs : List Nat) {T : List Nat} (hT : ∀ v ∈ xs, v ∈ T)
    {c1 c2 : Ctx} (hag : Agree T c1 c2) : fixedSum cs xs c1.st = fixedSum cs xs c2.st := by
  unfold fixedSum
  apply foldl_congr_mem
  intro acc p hp
  have : p.2 ∈ xs := (List.of_mem_zip hp).2
  rw [hag _ (hT _ this)]

theorem sumBounds_agree (cs : List Int) (xs : List Nat) {T : List Nat} (hT : ∀ v ∈ xs, v ∈ T)
    {c1 c2 : Ctx} (hag : Agree T c1 c2) : sumBounds cs xs c1.st = sumBounds cs xs c2.st := by
  unfold sumBounds
  apply foldl_congr_mem
  intro acc p hp
  have : p.2 ∈ xs := (List.of_mem_zip hp).2
  rw [hag _ (hT _ this)]

theorem sumBounds_le (cs : List Int) (xs : List Nat) {st : Store} {a : Asg} (hm : Mem st a)
    (h : cs.length = xs.length) :
    (sumBounds cs xs st).1 ≤ PK.linVal cs xs a ∧ PK.linVal cs xs a ≤ (sumBounds cs xs st).2 := by
  rw [sumBounds_eq cs xs st h, linVal_eq cs xs a h]
  exact ⟨lsum_le (fun j _ => (lo_le_tm cs xs hm j).1), lsum_le (fun j _ => (lo_le_tm cs xs hm j).2)⟩

theorem sumBounds_fixed (cs : List Int) (xs : List Nat) {st : Store} {a : Asg} (hm : Mem st a)
    (h : cs.length = xs.length) (hf : ∀ j, j < xs.length → fx xs st j) :
    (sumBounds cs xs st).1 = PK.linVal cs xs a ∧ (sumBounds cs xs st).2 = PK.linVal cs xs a := by
  rw [sumBounds_eq cs xs st h, linVal_eq cs xs a h]
  exact ⟨lsum_congr (fun j hj => (lo_eq_tm cs xs hm j (hf j (List.mem_range.1 hj))).1),
    lsum_congr (fun j hj => (lo_eq_tm cs xs hm j (hf j (List.mem_range.1 hj))).2)⟩

end Lin

namespace PK

/-! ### linEq -/

theorem holds_linEq (a : Asg) (cs : List Int) (xs : List Nat) (c : Int) :
    holds a (.linEq cs xs c) = true ↔ linVal cs xs a = c := by simp [holds]
theorem holds_linLe (a : Asg) (cs : List Int) (xs : List Nat) (c : Int) :
    holds a (.linLe cs xs c) = true ↔ linVal cs xs a ≤ c := by simp [holds]
theorem holds_linNe (a : Asg) (cs : List Int) (xs : List Nat) (c : Int) :
    holds a (.linNe cs xs c) = true ↔ linVal cs xs a ≠ c := by simp [holds]

theorem sound_linEq (cs : List Int) (xs : List Nat) (c : Int) (h : cs.length = xs.length) :
    Sound (prune (.linEq cs xs c)) (fun a => holds a (.linEq cs xs c) = true) :=
  fun ctx a hm hs => Lin.sound_pruneEq cs xs c h ctx a hm ((holds_linEq a cs xs c).1 hs)

theorem contracting_linEq (cs : List Int) (xs : List Nat) (c : Int) :
    Contracting (prune (.linEq cs xs c)) (triggers (.linEq cs xs c)) :=
  fun ctx c' hr => Lin.contracting_pruneEq cs xs c (fun _ hv => hv) ctx c' hr

theorem checking_linEq (cs : List Int) (xs : List Nat) (c : Int) (h : cs.length = xs.length)
    (hnz : ∃ i, i < xs.length ∧ cs.getD i 0 ≠ 0) :
    Checking (prune (.linEq cs xs c)) (fun a => holds a (.linEq cs xs c) = true) (triggers (.linEq cs xs c)) :=
  fun ctx c' a hf hm hr => (holds_linEq a cs xs c).2
    (Lin.checking_pruneEq cs xs c h hnz (fun _ hv => hv) ctx c' a hf hm hr)

theorem resp_linEq (cs : List Int) (xs : List Nat) (c : Int) :
    Resp (triggers (.linEq cs xs c)) (prune (.linEq cs xs c)) :=
  fun c1 c2 hag => Lin.resp_pruneEq cs xs c (fun _ hv => hv) c1 c2 hag

theorem contract_linEq (cs : List Int) (xs : List Nat) (c : Int) (h : cs.length = xs.length)
    (hnz : ∃ i, i < xs.length ∧ cs.getD i 0 ≠ 0) :
    Contract (prune (.linEq cs xs c)) (fun a => holds a (.linEq cs xs c) = true) (triggers (.linEq cs xs c)) :=
  ⟨sound_linEq cs xs c h, contracting_linEq cs xs c, checking_linEq cs xs c h hnz, resp_linEq cs xs c⟩

/-- the recorded defect: a row whose variable coefficients are all zero is never checked -/
theorem checking_linEq_zero_counterexample :
    (prune (.linEq [0] [0] 5) { st := fun _ => [0] }).isSome = true ∧
    holds (fun _ => 0) (.linEq [0] [0] 5) = false := by decide

theorem not_checking_linEq_zero :
    ¬ Checking (prune (.linEq [0] [0] 5)) (fun a => holds a (.linEq [0] [0] 5) = true)
      (triggers (.linEq [0] [0] 5)) := by
  intro hc
  have hs : (prune (.linEq [0] [0] 5) { st := fun _ => [0] }).isSome = true := by decide
  cases hp : prune (.linEq [0] [0] 5) { st := fun _ => [0] } with
  | none => rw [hp] at hs; cases hs
  | some c' =>
    have := hc { st := fun _ => [0] } c' (fun _ => 0) (fun i _ => ⟨0, rfl⟩) (fun i => by simp) hp
    revert this; decide

/-! ### linLe -/

theorem sound_linLe (cs : List Int) (xs : List Nat) (c : Int) (h : cs.length = xs.length) :
    Sound (prune (.linLe cs xs c)) (fun a => holds a (.linLe cs xs c) = true) :=
  fun ctx a hm hs => Lin.sound_pruneLe cs xs c h ctx a hm ((holds_linLe a cs xs c).1 hs)

theorem contracting_linLe (cs : List Int) (xs : List Nat) (c : Int) :
    Contracting (prune (.linLe cs xs c)) (triggers (.linLe cs xs c)) :=
  fun ctx c' hr => Lin.contracting_pruneLe cs xs c (fun _ hv => hv) ctx c' hr

theorem checking_linLe (cs : List Int) (xs : List Nat) (c : Int) (h : cs.length = xs.length)
    (hnz : ∃ i, i < xs.length ∧ cs.getD i 0 ≠ 0) :
    Checking (prune (.linLe cs xs c)) (fun a => holds a (.linLe cs xs c) = true) (triggers (.linLe cs xs c)) :=
  fun ctx c' a hf hm hr => (holds_linLe a cs xs c).2
    (Lin.checking_pruneLe cs xs c h hnz (fun _ hv => hv) ctx c' a hf hm hr)

theorem resp_linLe (cs : List Int) (xs : List Nat) (c : Int) :
    Resp (triggers (.linLe cs xs c)) (prune (.linLe cs xs c)) :=
  fun c1 c2 hag => Lin.resp_pruneLe cs xs c (fun _ hv => hv) c1 c2 hag

theorem contract_linLe (cs : List Int) (xs : List Nat) (c : Int) (h : cs.length = xs.length)
    (hnz : ∃ i, i < xs.length ∧ cs.getD i 0 ≠ 0) :
    Contract (prune (.linLe cs xs c)) (fun a => holds a (.linLe cs xs c) = true) (triggers (.linLe cs xs c)) :=
  ⟨sound_linLe cs xs c h, contracting_linLe cs xs c, checking_linLe cs xs c h hnz, resp_linLe cs xs c⟩

theorem checking_linLe_zero_counterexample :
    (prune (.linLe [0] [0] (-1)) { st := fun _ => [0] }).isSome = true ∧
    holds (fun _ => 0) (.linLe [0] [0] (-1)) = false := by decide

/-! ### linNe (no side condition is needed: a fully fixed row is always checked) -/

theorem sound_linNe (cs : List Int) (xs : List Nat) (c : Int) (h : cs.length = xs.length) :
    Sound (prune (.linNe cs xs c)) (fun a => holds a (.linNe cs xs c) = true) :=
  fun ctx a hm hs => Lin.sound_pruneNe cs xs c h ctx a hm ((holds_linNe a cs xs c).1 hs)

theorem contracting_linNe (cs : List Int) (xs : List Nat) (c : Int) :
    Contracting (prune (.linNe cs xs c)) (triggers (.linNe cs xs c)) :=
  fun ctx c' hr => Lin.contracting_pruneNe cs xs c (fun _ hv => hv) ctx c' hr

theorem checking_linNe (cs : List Int) (xs : List Nat) (c : Int) (h : cs.length = xs.length) :
    Checking (prune (.linNe cs xs c)) (fun a => holds a (.linNe cs xs c) = true) (triggers (.linNe cs xs c)) :=
  fun ctx c' a hf hm hr => (holds_linNe a cs xs c).2
    (Lin.checking_pruneNe cs xs c h (fun _ hv => hv) ctx c' a hf hm hr)

theorem resp_linNe (cs : List Int) (xs : List Nat) (c : Int) :
    Resp (triggers (.linNe cs xs c)) (prune (.linNe cs xs c)) :=
  fun c1 c2 hag => Lin.resp_pruneNe cs xs c (fun _ hv => hv) c1 c2 hag

theorem contract_linNe (cs : List Int) (xs : List Nat) (c : Int) (h : cs.length = xs.length) :
    Contract (prune (.linNe cs xs c)) (fun a => holds a (.linNe cs xs c) = true) (triggers (.linNe cs xs c)) :=
  ⟨sound_linNe cs xs c h, contracting_linNe cs xs c, checking_linNe cs xs c h, resp_linNe cs xs c⟩

/-! ### `setBoth` -/

theorem setBoth_keeps {b : Nat} {v : Int} {ctx : Ctx} {a : Asg} (hm : Mem ctx.st a) (hv : a b = v) :
    ∃ c', setBoth b v ctx = some c' ∧ Mem c'.st a := by
  obtain ⟨c1, e1, m1⟩ := Ctx.trySetMin_keeps (i := b) (v := v) hm (by omega)
  obtain ⟨c2, e2, m2⟩ := Ctx.trySetMax_keeps (i := b) (v := v) m1 (by omega)
  exact ⟨c2, by simp only [setBoth, e1]; exact e2, m2⟩

theorem setBoth_some {b : Nat} {v : Int} {ctx c' : Ctx} (h : setBoth b v ctx = some c') :
    ∃ c1, ctx.trySetMin b v = some c1 ∧ c1.trySetMax b v = some c' := by
  unfold setBoth at h
  cases h1 : ctx.trySetMin b v with
  | none => rw [h1] at h; cases h
  | some c1 => rw [h1] at h; exact ⟨c1, rfl, h⟩

theorem setBoth_good {b : Nat} {v : Int} {ctx c' : Ctx} {T : List Nat} (hb : b ∈ T)
    (h : setBoth b v ctx = some c') : Good T ctx c' := by
  obtain ⟨c1, h1, h2⟩ := setBoth_some h
  exact (Ctx.trySetMin_good hb h1).trans (Ctx.trySetMax_good hb h2)

theorem setBoth_fixed {b : Nat} {v w : Int} {ctx c' : Ctx} (hf : ctx.st b = [w])
    (h : setBoth b v ctx = some c') : c' = ctx ∧ w = v := by
  obtain ⟨c1, h1, h2⟩ := setBoth_some h
  obtain ⟨e1, b1⟩ := Ctx.trySetMin_fixed hf h1
  subst e1
  obtain ⟨e2, b2⟩ := Ctx.trySetMax_fixed hf h2
  exact ⟨e2, by omega⟩

theorem setBoth_resp {b : Nat} (v : Int) {T : List Nat} (hb : b ∈ T) {c1 c2 : Ctx}
    (hag : Agree T c1 c2) : RelO T (setBoth b v c1) (setBoth b v c2) := by
  have h1 := Ctx.trySetMin_resp v hb hag
  unfold setBoth
  cases e1 : c1.trySetMin b v <;> cases e2 : c2.trySetMin b v <;> rw [e1, e2] at h1
  · exact RelO.none
  · exact h1.elim
  · exact h1.elim
  · exact Ctx.trySetMax_resp v hb h1

/-! ### the three-way dispatch on the reification variable -/

def reif3 (b : Nat) (f1 f0 fe : Ctx → Option Ctx) (ctx : Ctx) : Option Ctx :=
  if (ctx.st b).dmin = 1 ∧ (ctx.st b).dmax = 1 then f1 ctx
  else if (ctx.st b).dmin = 0 ∧ (ctx.st b).dmax = 0 then f0 ctx
  else fe ctx

theorem reif3_keeps {b : Nat} {f1 f0 fe : Ctx → Option Ctx} {ctx : Ctx} {a : Asg} (hm : Mem ctx.st a)
    (h1 : a b = 1 → ∃ c', f1 ctx = some c' ∧ Mem c'.st a)
    (h0 : a b = 0 → ∃ c', f0 ctx = some c' ∧ Mem c'.st a)
    (he : ∃ c', fe ctx = some c' ∧ Mem c'.st a) :
    ∃ c', reif3 b f1 f0 fe ctx = some c' ∧ Mem c'.st a := by
  have hb := hm.bounds b
  unfold reif3
  split
  · exact h1 (by omega)
  · split
    · exact h0 (by omega)
    · exact he

theorem reif3_good {b : Nat} {f1 f0 fe : Ctx → Option Ctx} {ctx c' : Ctx} {T : List Nat}
    (h1 : f1 ctx = some c' → Good T ctx c') (h0 : f0 ctx = some c' → Good T ctx c')
    (he : fe ctx = some c' → Good T ctx c') (h : reif3 b f1 f0 fe ctx = some c') : Good T ctx c' := by
  unfold reif3 at h
  split at h
  · exact h1 h
  · split at h
    · exact h0 h
    · exact he h

theorem reif3_resp {b : Nat} {f1 f0 fe : Ctx → Option Ctx} {c1 c2 : Ctx} {T : List Nat} (hb : b ∈ T)
    (hag : Agree T c1 c2) (h1 : RelO T (f1 c1) (f1 c2)) (h0 : RelO T (f0 c1) (f0 c2))
    (he : RelO T (fe c1) (fe c2)) : RelO T (reif3 b f1 f0 fe c1) (reif3 b f1 f0 fe c2) := by
  unfold reif3
  rw [hag b hb]
  split
  · exact h1
  · split
    · exact h0
    · exact he

theorem reif3_fixed {b : Nat} {f1 f0 fe : Ctx → Option Ctx} {ctx c' : Ctx} {w : Int}
    (hf : ctx.st b = [w]) (h : reif3 b f1 f0 fe ctx = some c') :
    (w = 1 ∧ f1 ctx = some c') ∨ (w = 0 ∧ f0 ctx = some c') ∨ (w ≠ 1 ∧ w ≠ 0 ∧ fe ctx = some c') := by
  unfold reif3 at h
  rw [(fixed_bounds hf).1, (fixed_bounds hf).2] at h
  split at h
  · rename_i hw; exact Or.inl ⟨hw.1, h⟩
  · split at h
    · rename_i hw; exact Or.inr (Or.inl ⟨hw.1, h⟩)
    · rename_i h1 h0
      exact Or.inr (Or.inr ⟨fun e => h1 ⟨e, e⟩, fun e => h0 ⟨e, e⟩, h⟩)

/-! ### the branches that only look at a fully fixed row -/

/-- `b = 0` branch of `linEqReif` / `linLeReif`: fail when the fixed sum satisfies `P` -/
def fsZ (P : Int → Prop) [DecidablePred P] (cs : List Int) (xs : List Nat) (ctx : Ctx) : Option Ctx :=
  match Lin.fixedSum cs xs ctx.st with
  | some s => if P s then none else some ctx
  | none => some ctx

/-- undetermined-`b` branch of `linEqReif` / `linNeReif`: decide `b` from the fixed sum -/
def fsE (P : Int → Prop) [DecidablePred P] (cs : List Int) (xs : List Nat) (b : Nat) (ctx : Ctx) : Option Ctx :=
  match Lin.fixedSum cs xs ctx.st with
  | some s => if P s then setBoth b 1 ctx else setBoth b 0 ctx
  | none => some ctx

/-- undetermined-`b` branch of `linLeReif` -/
def leE (cs : List Int) (xs : List Nat) (c : Int) (b : Nat) (ctx : Ctx) : Option Ctx :=
  if (Lin.sumBounds cs xs ctx.st).2 ≤ c then setBoth b 1 ctx
  else if (Lin.sumBounds cs xs ctx.st).1 > c then setBoth b 0 ctx
  else some ctx

theorem fsZ_keeps (P : Int → Prop) [DecidablePred P] (cs : List Int) (xs : List Nat)
    (h : cs.length = xs.length) {ctx : Ctx} {a : Asg} (hm : Mem ctx.st a) (hp : ¬ P (linVal cs xs a)) :
    ∃ c', fsZ P cs xs ctx = some c' ∧ Mem c'.st a := by
  unfold fsZ
  split
  · rename_i s hs
    rw [Lin.fixedSum_spec cs xs hm h hs, if_neg hp]
    exact ⟨ctx, rfl, hm⟩
  · exact ⟨ctx, rfl, hm⟩

theorem fsZ_eq (P : Int → Prop) [DecidablePred P] (cs : List Int) (xs : List Nat) {ctx c' : Ctx}
    (hr : fsZ P cs xs ctx = some c') : c' = ctx := by
  unfold fsZ at hr
  split at hr
  · split at hr
    · cases hr
    · cases hr; rfl
  · cases hr; rfl

theorem fsZ_checking (P : Int → Prop) [DecidablePred P] (cs : List Int) (xs : List Nat)
    (h : cs.length = xs.length) {ctx c' : Ctx} {a : Asg} (hm : Mem ctx.st a)
    (hf : ∀ j, j < xs.length → Lin.fx xs ctx.st j) (hr : fsZ P cs xs ctx = some c') :
    ¬ P (linVal cs xs a) := by
  unfold fsZ at hr
  rw [Lin.fixedSum_of_fixed cs xs hm h hf] at hr
  simp only at hr
  split at hr
  · cases hr
  · assumption

theorem fsZ_resp (P : Int → Prop) [DecidablePred P] (cs : List Int) (xs : List Nat) {T : List Nat}
    (hT : ∀ v ∈ xs, v ∈ T) {c1 c2 : Ctx} (hag : Agree T c1 c2) :
    RelO T (fsZ P cs xs c1) (fsZ P cs xs c2) := by
  unfold fsZ
  rw [Lin.fixedSum_agree cs xs hT hag]
  split
  · split
    · exact RelO.none
    · exact RelO.some hag
  · exact RelO.some hag

theorem fsE_keeps (P : Int → Prop) [DecidablePred P] (cs : List Int) (xs : List Nat) (b : Nat)
    (h : cs.length = xs.length) {ctx : Ctx} {a : Asg} (hm : Mem ctx.st a)
    (hp : a b = 1 ↔ P (linVal cs xs a)) (hb : a b = 0 ∨ a b = 1) :
    ∃ c', fsE P cs xs b ctx = some c' ∧ Mem c'.st a := by
  unfold fsE
  split
  · rename_i s hs
    rw [Lin.fixedSum_spec cs xs hm h hs]
    split
    · rename_i hP; exact setBoth_keeps hm (hp.2 hP)
    · rename_i hP
      refine setBoth_keeps hm ?_
      rcases hb with hb | hb
      · exact hb
      · exact absurd (hp.1 hb) hP
  · exact ⟨ctx, rfl, hm⟩

theorem fsE_good (P : Int → Prop) [DecidablePred P] (cs : List Int) (xs : List Nat) (b : Nat)
    {T : List Nat} (hb : b ∈ T) {ctx c' : Ctx} (hr : fsE P cs xs b ctx = some c') : Good T ctx c' := by
  unfold fsE at hr
  split at hr
  · split at hr
    · exact setBoth_good hb hr
    · exact setBoth_good hb hr
  · cases hr; exact Good.refl T ctx

theorem fsE_fixed (P : Int → Prop) [DecidablePred P] (cs : List Int) (xs : List Nat) (b : Nat)
    (h : cs.length = xs.length) {ctx c' : Ctx} {a : Asg} (hm : Mem ctx.st a)
    (hf : ∀ j, j < xs.length → Lin.fx xs ctx.st j) {w : Int} (hw : ctx.st b = [w])
    (hr : fsE P cs xs b ctx = some c') : w = 0 ∨ w = 1 := by
  unfold fsE at hr
  rw [Lin.fixedSum_of_fixed cs xs hm h hf] at hr
  simp only at hr
  split at hr
  · exact Or.inr (setBoth_fixed hw hr).2
  · exact Or.inl (setBoth_fixed hw hr).2

theorem fsE_resp (P : Int → Prop) [DecidablePred P] (cs : List Int) (xs : List Nat) (b : Nat)
    {T : List Nat} (hT : ∀ v ∈ xs, v ∈ T) (hb : b ∈ T) {c1 c2 : Ctx} (hag : Agree T c1 c2) :
    RelO T (fsE P cs xs b c1) (fsE P cs xs b c2) := by
  unfold fsE
  rw [Lin.fixedSum_agree cs xs hT hag]
  split
  · split
    · exact setBoth_resp _ hb hag
    · exact setBoth_resp _ hb hag
  · exact RelO.some hag

theorem leE_keeps (cs : List Int) (xs : List Nat) (c : Int) (b : Nat)
    (h : cs.length = xs.length) {ctx : Ctx} {a : Asg} (hm : Mem ctx.st a)
    (hp : a b = 1 ↔ linVal cs xs a ≤ c) (hb : a b = 0 ∨ a b = 1) :
    ∃ c', leE cs xs c b ctx = some c' ∧ Mem c'.st a := by
  have hsb := Lin.sumBounds_le cs xs hm h
  unfold leE
  split
  · exact setBoth_keeps hm (hp.2 (by omega))
  · split
    · refine setBoth_keeps hm ?_
      rcases hb with hb | hb
      · exact hb
      · have := hp.1 hb; omega
    · exact ⟨ctx, rfl, hm⟩

theorem leE_good (cs : List Int) (xs : List Nat) (c : Int) (b : Nat)
    {T : List Nat} (hb : b ∈ T) {ctx c' : Ctx} (hr : leE cs xs c b ctx = some c') : Good T ctx c' := by
  unfold leE at hr
  split at hr
  · exact setBoth_good hb hr
  · split at hr
    · exact setBoth_good hb hr
    · cases hr; exact Good.refl T ctx

theorem leE_fixed (cs : List Int) (xs : List Nat) (c : Int) (b : Nat)
    (h : cs.length = xs.length) {ctx c' : Ctx} {a : Asg} (hm : Mem ctx.st a)
    (hf : ∀ j, j < xs.length → Lin.fx xs ctx.st j) {w : Int} (hw : ctx.st b = [w])
    (hr : leE cs xs c b ctx = some c') : w = 0 ∨ w = 1 := by
  have hsb := Lin.sumBounds_fixed cs xs hm h hf
  unfold leE at hr
  split at hr
  · exact Or.inr (setBoth_fixed hw hr).2
  · split at hr
    · exact Or.inl (setBoth_fixed hw hr).2
    · omega

theorem leE_resp (cs : List Int) (xs : List Nat) (c : Int) (b : Nat)
    {T : List Nat} (hT : ∀ v ∈ xs, v ∈ T) (hb : b ∈ T) {c1 c2 : Ctx} (hag : Agree T c1 c2) :
    RelO T (leE cs xs c b c1) (leE cs xs c b c2) := by
  unfold leE
  rw [Lin.sumBounds_agree cs xs hT hag]
  split
  · exact setBoth_resp _ hb hag
  · split
    · exact setBoth_resp _ hb hag
    · exact RelO.some hag

theorem bool_beq_iff (p q : Bool) : ((p == q) = true) ↔ (p = true ↔ q = true) := by
  cases p <;> cases q <;> simp

/-! ### linEqReif -/

theorem prune_linEqReif_eq (cs : List Int) (xs : List Nat) (c : Int) (b : Nat) (ctx : Ctx) :
    prune (.linEqReif cs xs c b) ctx = reif3 b (Lin.pruneEq cs xs c) (fsZ (fun s => s = c) cs xs) (fsE (fun s => s = c) cs xs b) ctx := rfl

theorem holds_linEqReif (a : Asg) (cs : List Int) (xs : List Nat) (c : Int) (b : Nat) :
    holds a (.linEqReif cs xs c b) = true ↔ (a b = 1 ↔ linVal cs xs a = c) := by
  simp only [holds]
  rw [bool_beq_iff]
  simp

/-- `sound` needs the reification variable to be boolean -/
theorem sound_linEqReif_bool (cs : List Int) (xs : List Nat) (c : Int) (b : Nat) (h : cs.length = xs.length) :
    Sound (prune (.linEqReif cs xs c b))
      (fun a => (a b = 0 ∨ a b = 1) ∧ holds a (.linEqReif cs xs c b) = true) := by
  intro ctx a hm hs
  obtain ⟨hb, hs⟩ := hs
  rw [holds_linEqReif] at hs
  rw [prune_linEqReif_eq]
  refine reif3_keeps hm ?_ ?_ ?_
  · intro e1
    exact Lin.sound_pruneEq cs xs c h ctx a hm (hs.1 e1)
  · intro e0
    exact fsZ_keeps _ cs xs h hm (fun hc => by have := hs.2 hc; omega)
  · exact fsE_keeps _ cs xs b h hm hs hb

/-- store-side version: every value in `b`'s domain is `0` or `1` -/
theorem sound_linEqReif_bool01 (cs : List Int) (xs : List Nat) (c : Int) (b : Nat) (h : cs.length = xs.length)
    (ctx : Ctx) (a : Asg) (hb : ∀ w ∈ ctx.st b, w = 0 ∨ w = 1) (hm : Mem ctx.st a)
    (hs : holds a (.linEqReif cs xs c b) = true) :
    ∃ c', prune (.linEqReif cs xs c b) ctx = some c' ∧ Mem c'.st a :=
  sound_linEqReif_bool cs xs c b h ctx a hm ⟨hb _ (hm b), hs⟩

theorem contracting_linEqReif (cs : List Int) (xs : List Nat) (c : Int) (b : Nat) :
    Contracting (prune (.linEqReif cs xs c b)) (triggers (.linEqReif cs xs c b)) := by
  intro ctx c' hr
  have hT : ∀ v ∈ xs, v ∈ triggers (.linEqReif cs xs c b) := fun v hv => List.mem_append_left _ hv
  have hb : b ∈ triggers (.linEqReif cs xs c b) := by simp [triggers]
  rw [prune_linEqReif_eq] at hr
  refine reif3_good ?_ ?_ ?_ hr
  · intro h1; exact Lin.contracting_pruneEq cs xs c hT ctx c' h1
  · intro h0; exact by rw [fsZ_eq _ cs xs h0]; exact Good.refl _ _
  · intro he; exact fsE_good _ cs xs b hb he

theorem checking_linEqReif_bool (cs : List Int) (xs : List Nat) (c : Int) (b : Nat) (h : cs.length = xs.length) (hnz : ∃ i, i < xs.length ∧ cs.getD i 0 ≠ 0) :
    Checking (prune (.linEqReif cs xs c b))
      (fun a => (a b = 0 ∨ a b = 1) ∧ holds a (.linEqReif cs xs c b) = true) (triggers (.linEqReif cs xs c b)) := by
  intro ctx c' a hf hm hr
  have hT : ∀ v ∈ xs, v ∈ triggers (.linEqReif cs xs c b) := fun v hv => List.mem_append_left _ hv
  have hb : b ∈ triggers (.linEqReif cs xs c b) := by simp [triggers]
  have hfx : ∀ j, j < xs.length → Lin.fx xs ctx.st j := Lin.fixedOn_minmax hT hf
  obtain ⟨w, hw⟩ := hf b hb
  have ea := Lin.mem_fixed hm hw
  rw [prune_linEqReif_eq] at hr
  show (a b = 0 ∨ a b = 1) ∧ holds a (.linEqReif cs xs c b) = true
  rw [holds_linEqReif, ea]
  rcases reif3_fixed hw hr with ⟨e, h1⟩ | ⟨e, h0⟩ | ⟨n1, n0, he⟩
  · have := Lin.checking_pruneEq cs xs c h hnz hT ctx c' a hf hm h1
    exact ⟨Or.inr e, fun _ => this, fun _ => e⟩
  · have := fsZ_checking _ cs xs h hm hfx h0
    exact ⟨Or.inl e, fun e1 => by omega, fun hc => absurd hc this⟩
  · have := fsE_fixed _ cs xs b h hm hfx hw he
    omega

theorem checking_linEqReif (cs : List Int) (xs : List Nat) (c : Int) (b : Nat) (h : cs.length = xs.length) (hnz : ∃ i, i < xs.length ∧ cs.getD i 0 ≠ 0) :
    Checking (prune (.linEqReif cs xs c b))
      (fun a => holds a (.linEqReif cs xs c b) = true) (triggers (.linEqReif cs xs c b)) :=
  fun ctx c' a hf hm hr => (checking_linEqReif_bool cs xs c b h hnz ctx c' a hf hm hr).2

theorem resp_linEqReif (cs : List Int) (xs : List Nat) (c : Int) (b : Nat) :
    Resp (triggers (.linEqReif cs xs c b)) (prune (.linEqReif cs xs c b)) := by
  intro c1 c2 hag
  have hT : ∀ v ∈ xs, v ∈ triggers (.linEqReif cs xs c b) := fun v hv => List.mem_append_left _ hv
  have hb : b ∈ triggers (.linEqReif cs xs c b) := by simp [triggers]
  rw [prune_linEqReif_eq, prune_linEqReif_eq]
  exact reif3_resp hb hag (Lin.resp_pruneEq cs xs c hT c1 c2 hag) (fsZ_resp _ cs xs hT hag)
    (fsE_resp _ cs xs b hT hb hag)

/-- the contract for a boolean reification variable -/
theorem contract_linEqReif_bool (cs : List Int) (xs : List Nat) (c : Int) (b : Nat) (h : cs.length = xs.length) (hnz : ∃ i, i < xs.length ∧ cs.getD i 0 ≠ 0) :
    Contract (prune (.linEqReif cs xs c b))
      (fun a => (a b = 0 ∨ a b = 1) ∧ holds a (.linEqReif cs xs c b) = true) (triggers (.linEqReif cs xs c b)) :=
  ⟨sound_linEqReif_bool cs xs c b h, contracting_linEqReif cs xs c b, checking_linEqReif_bool cs xs c b h hnz,
    resp_linEqReif cs xs c b⟩

/-! ### linLeReif -/

theorem prune_linLeReif_eq (cs : List Int) (xs : List Nat) (c : Int) (b : Nat) (ctx : Ctx) :
    prune (.linLeReif cs xs c b) ctx = reif3 b (Lin.pruneLe cs xs c) (fsZ (fun s => s ≤ c) cs xs) (leE cs xs c b) ctx := rfl

theorem holds_linLeReif (a : Asg) (cs : List Int) (xs : List Nat) (c : Int) (b : Nat) :
    holds a (.linLeReif cs xs c b) = true ↔ (a b = 1 ↔ linVal cs xs a ≤ c) := by
  simp only [holds]
  rw [bool_beq_iff]
  simp

/-- `sound` needs the reification variable to be boolean -/
theorem sound_linLeReif_bool (cs : List Int) (xs : List Nat) (c : Int) (b : Nat) (h : cs.length = xs.length) :
    Sound (prune (.linLeReif cs xs c b))
      (fun a => (a b = 0 ∨ a b = 1) ∧ holds a (.linLeReif cs xs c b) = true) := by
  intro ctx a hm hs
  obtain ⟨hb, hs⟩ := hs
  rw [holds_linLeReif] at hs
  rw [prune_linLeReif_eq]
  refine reif3_keeps hm ?_ ?_ ?_
  · intro e1
    exact Lin.sound_pruneLe cs xs c h ctx a hm (hs.1 e1)
  · intro e0
    exact fsZ_keeps _ cs xs h hm (fun hc => by have := hs.2 hc; omega)
  · exact leE_keeps cs xs c b h hm hs hb

/-- store-side version: every value in `b`'s domain is `0` or `1` -/
theorem sound_linLeReif_bool01 (cs : List Int) (xs : List Nat) (c : Int) (b : Nat) (h : cs.length = xs.length)
    (ctx : Ctx) (a : Asg) (hb : ∀ w ∈ ctx.st b, w = 0 ∨ w = 1) (hm : Mem ctx.st a)
    (hs : holds a (.linLeReif cs xs c b) = true) :
    ∃ c', prune (.linLeReif cs xs c b) ctx = some c' ∧ Mem c'.st a :=
  sound_linLeReif_bool cs xs c b h ctx a hm ⟨hb _ (hm b), hs⟩

theorem contracting_linLeReif (cs : List Int) (xs : List Nat) (c : Int) (b : Nat) :
    Contracting (prune (.linLeReif cs xs c b)) (triggers (.linLeReif cs xs c b)) := by
  intro ctx c' hr
  have hT : ∀ v ∈ xs, v ∈ triggers (.linLeReif cs xs c b) := fun v hv => List.mem_append_left _ hv
  have hb : b ∈ triggers (.linLeReif cs xs c b) := by simp [triggers]
  rw [prune_linLeReif_eq] at hr
  refine reif3_good ?_ ?_ ?_ hr
  · intro h1; exact Lin.contracting_pruneLe cs xs c hT ctx c' h1
  · intro h0; exact by rw [fsZ_eq _ cs xs h0]; exact Good.refl _ _
  · intro he; exact leE_good cs xs c b hb he

theorem checking_linLeReif_bool (cs : List Int) (xs : List Nat) (c : Int) (b : Nat) (h : cs.length = xs.length) (hnz : ∃ i, i < xs.length ∧ cs.getD i 0 ≠ 0) :
    Checking (prune (.linLeReif cs xs c b))
      (fun a => (a b = 0 ∨ a b = 1) ∧ holds a (.linLeReif cs xs c b) = true) (triggers (.linLeReif cs xs c b)) := by
  intro ctx c' a hf hm hr
  have hT : ∀ v ∈ xs, v ∈ triggers (.linLeReif cs xs c b) := fun v hv => List.mem_append_left _ hv
  have hb : b ∈ triggers (.linLeReif cs xs c b) := by simp [triggers]
  have hfx : ∀ j, j < xs.length → Lin.fx xs ctx.st j := Lin.fixedOn_minmax hT hf
  obtain ⟨w, hw⟩ := hf b hb
  have ea := Lin.mem_fixed hm hw
  rw [prune_linLeReif_eq] at hr
  show (a b = 0 ∨ a b = 1) ∧ holds a (.linLeReif cs xs c b) = true
  rw [holds_linLeReif, ea]
  rcases reif3_fixed hw hr with ⟨e, h1⟩ | ⟨e, h0⟩ | ⟨n1, n0, he⟩
  · have := Lin.checking_pruneLe cs xs c h hnz hT ctx c' a hf hm h1
    exact ⟨Or.inr e, fun _ => this, fun _ => e⟩
  · have := fsZ_checking _ cs xs h hm hfx h0
    exact ⟨Or.inl e, fun e1 => by omega, fun hc => absurd hc this⟩
  · have := leE_fixed cs xs c b h hm hfx hw he
    omega

theorem checking_linLeReif (cs : List Int) (xs : List Nat) (c : Int) (b : Nat) (h : cs.length = xs.length) (hnz : ∃ i, i < xs.length ∧ cs.getD i 0 ≠ 0) :
    Checking (prune (.linLeReif cs xs c b))
      (fun a => holds a (.linLeReif cs xs c b) = true) (triggers (.linLeReif cs xs c b)) :=
  fun ctx c' a hf hm hr => (checking_linLeReif_bool cs xs c b h hnz ctx c' a hf hm hr).2

theorem resp_linLeReif (cs : List Int) (xs : List Nat) (c : Int) (b : Nat) :
    Resp (triggers (.linLeReif cs xs c b)) (prune (.linLeReif cs xs c b)) := by
  intro c1 c2 hag
  have hT : ∀ v ∈ xs, v ∈ triggers (.linLeReif cs xs c b) := fun v hv => List.mem_append_left _ hv
  have hb : b ∈ triggers (.linLeReif cs xs c b) := by simp [triggers]
  rw [prune_linLeReif_eq, prune_linLeReif_eq]
  exact reif3_resp hb hag (Lin.resp_pruneLe cs xs c hT c1 c2 hag) (fsZ_resp _ cs xs hT hag)
    (leE_resp cs xs c b hT hb hag)

/-- the contract for a boolean reification variable -/
theorem contract_linLeReif_bool (cs : List Int) (xs : List Nat) (c : Int) (b : Nat) (h : cs.length = xs.length) (hnz : ∃ i, i < xs.length ∧ cs.getD i 0 ≠ 0) :
    Contract (prune (.linLeReif cs xs c b))
      (fun a => (a b = 0 ∨ a b = 1) ∧ holds a (.linLeReif cs xs c b) = true) (triggers (.linLeReif cs xs c b)) :=
  ⟨sound_linLeReif_bool cs xs c b h, contracting_linLeReif cs xs c b, checking_linLeReif_bool cs xs c b h hnz,
    resp_linLeReif cs xs c b⟩

/-! ### linNeReif -/

theorem prune_linNeReif_eq (cs : List Int) (xs : List Nat) (c : Int) (b : Nat) (ctx : Ctx) :
    prune (.linNeReif cs xs c b) ctx = reif3 b (Lin.pruneNe cs xs c) (Lin.pruneEq cs xs c) (fsE (fun s => s ≠ c) cs xs b) ctx := rfl

theorem holds_linNeReif (a : Asg) (cs : List Int) (xs : List Nat) (c : Int) (b : Nat) :
    holds a (.linNeReif cs xs c b) = true ↔ (a b = 1 ↔ linVal cs xs a ≠ c) := by
  simp only [holds]
  rw [bool_beq_iff]
  simp

/-- `sound` needs the reification variable to be boolean -/
theorem sound_linNeReif_bool (cs : List Int) (xs : List Nat) (c : Int) (b : Nat) (h : cs.length = xs.length) :
    Sound (prune (.linNeReif cs xs c b))
      (fun a => (a b = 0 ∨ a b = 1) ∧ holds a (.linNeReif cs xs c b) = true) := by
  intro ctx a hm hs
  obtain ⟨hb, hs⟩ := hs
  rw [holds_linNeReif] at hs
  rw [prune_linNeReif_eq]
  refine reif3_keeps hm ?_ ?_ ?_
  · intro e1
    exact Lin.sound_pruneNe cs xs c h ctx a hm (hs.1 e1)
  · intro e0
    exact Lin.sound_pruneEq cs xs c h ctx a hm (Decidable.byContradiction (fun hc => by have := hs.2 hc; omega))
  · exact fsE_keeps _ cs xs b h hm hs hb

/-- store-side version: every value in `b`'s domain is `0` or `1` -/
theorem sound_linNeReif_bool01 (cs : List Int) (xs : List Nat) (c : Int) (b : Nat) (h : cs.length = xs.length)
    (ctx : Ctx) (a : Asg) (hb : ∀ w ∈ ctx.st b, w = 0 ∨ w = 1) (hm : Mem ctx.st a)
    (hs : holds a (.linNeReif cs xs c b) = true) :
    ∃ c', prune (.linNeReif cs xs c b) ctx = some c' ∧ Mem c'.st a :=
  sound_linNeReif_bool cs xs c b h ctx a hm ⟨hb _ (hm b), hs⟩

theorem contracting_linNeReif (cs : List Int) (xs : List Nat) (c : Int) (b : Nat) :
    Contracting (prune (.linNeReif cs xs c b)) (triggers (.linNeReif cs xs c b)) := by
  intro ctx c' hr
  have hT : ∀ v ∈ xs, v ∈ triggers (.linNeReif cs xs c b) := fun v hv => List.mem_append_left _ hv
  have hb : b ∈ triggers (.linNeReif cs xs c b) := by simp [triggers]
  rw [prune_linNeReif_eq] at hr
  refine reif3_good ?_ ?_ ?_ hr
  · intro h1; exact Lin.contracting_pruneNe cs xs c hT ctx c' h1
  · intro h0; exact Lin.contracting_pruneEq cs xs c hT ctx c' h0
  · intro he; exact fsE_good _ cs xs b hb he

theorem checking_linNeReif_bool (cs : List Int) (xs : List Nat) (c : Int) (b : Nat) (h : cs.length = xs.length) (hnz : ∃ i, i < xs.length ∧ cs.getD i 0 ≠ 0) :
    Checking (prune (.linNeReif cs xs c b))
      (fun a => (a b = 0 ∨ a b = 1) ∧ holds a (.linNeReif cs xs c b) = true) (triggers (.linNeReif cs xs c b)) := by
  intro ctx c' a hf hm hr
  have hT : ∀ v ∈ xs, v ∈ triggers (.linNeReif cs xs c b) := fun v hv => List.mem_append_left _ hv
  have hb : b ∈ triggers (.linNeReif cs xs c b) := by simp [triggers]
  have hfx : ∀ j, j < xs.length → Lin.fx xs ctx.st j := Lin.fixedOn_minmax hT hf
  obtain ⟨w, hw⟩ := hf b hb
  have ea := Lin.mem_fixed hm hw
  rw [prune_linNeReif_eq] at hr
  show (a b = 0 ∨ a b = 1) ∧ holds a (.linNeReif cs xs c b) = true
  rw [holds_linNeReif, ea]
  rcases reif3_fixed hw hr with ⟨e, h1⟩ | ⟨e, h0⟩ | ⟨n1, n0, he⟩
  · have := Lin.checking_pruneNe cs xs c h hT ctx c' a hf hm h1
    exact ⟨Or.inr e, fun _ => this, fun _ => e⟩
  · have := Lin.checking_pruneEq cs xs c h hnz hT ctx c' a hf hm h0
    exact ⟨Or.inl e, fun e1 => by omega, fun hc => absurd this hc⟩
  · have := fsE_fixed _ cs xs b h hm hfx hw he
    omega

theorem checking_linNeReif (cs : List Int) (xs : List Nat) (c : Int) (b : Nat) (h : cs.length = xs.length) (hnz : ∃ i, i < xs.length ∧ cs.getD i 0 ≠ 0) :
    Checking (prune (.linNeReif cs xs c b))
      (fun a => holds a (.linNeReif cs xs c b) = true) (triggers (.linNeReif cs xs c b)) :=
  fun ctx c' a hf hm hr => (checking_linNeReif_bool cs xs c b h hnz ctx c' a hf hm hr).2

theorem resp_linNeReif (cs : List Int) (xs : List Nat) (c : Int) (b : Nat) :
    Resp (triggers (.linNeReif cs xs c b)) (prune (.linNeReif cs xs c b)) := by
  intro c1 c2 hag
  have hT : ∀ v ∈ xs, v ∈ triggers (.linNeReif cs xs c b) := fun v hv => List.mem_append_left _ hv
  have hb : b ∈ triggers (.linNeReif cs xs c b) := by simp [triggers]
  rw [prune_linNeReif_eq, prune_linNeReif_eq]
  exact reif3_resp hb hag (Lin.resp_pruneNe cs xs c hT c1 c2 hag) (Lin.resp_pruneEq cs xs c hT c1 c2 hag)
    (fsE_resp _ cs xs b hT hb hag)

/-- the contract for a boolean reification variable -/
theorem contract_linNeReif_bool (cs : List Int) (xs : List Nat) (c : Int) (b : Nat) (h : cs.length = xs.length) (hnz : ∃ i, i < xs.length ∧ cs.getD i 0 ≠ 0) :
    Contract (prune (.linNeReif cs xs c b))
      (fun a => (a b = 0 ∨ a b = 1) ∧ holds a (.linNeReif cs xs c b) = true) (triggers (.linNeReif cs xs c b)) :=
  ⟨sound_linNeReif_bool cs xs c b h, contracting_linNeReif cs xs c b, checking_linNeReif_bool cs xs c b h hnz,
    resp_linNeReif cs xs c b⟩

/-! ### the boolean side condition of `sound` is necessary: kernel-checked counterexamples -/

/-- `x0 = {0}`, `b = x1 = {0,2}`: the assignment `(0,2)` satisfies the reified meaning
(`b ≠ 1` and the row condition is false) but `prune` sets `b := 0` and loses it. -/
theorem not_sound_linEqReif :
    ¬ Sound (prune (.linEqReif [1] [0] (5) 1)) (fun a => holds a (.linEqReif [1] [0] (5) 1) = true) := by
  intro h
  let st : Store := fun i => if i = 0 then [0] else [0, 2]
  let a : Asg := fun i => if i = 0 then 0 else 2
  have hm : Mem st a := by
    intro i; simp only [st, a]; split <;> simp
  obtain ⟨c', e, m⟩ := h { st := st } a hm (by decide)
  have hc : (prune (.linEqReif [1] [0] (5) 1) { st := st }).map (fun d => d.st 1) = some [0] := by decide
  rw [e] at hc
  simp only [Option.map_some, Option.some.injEq] at hc
  have := m 1
  rw [hc] at this
  revert this; decide

/-- `x0 = {0}`, `b = x1 = {0,2}`: the assignment `(0,2)` satisfies the reified meaning
(`b ≠ 1` and the row condition is false) but `prune` sets `b := 0` and loses it. -/
theorem not_sound_linLeReif :
    ¬ Sound (prune (.linLeReif [1] [0] (-1) 1)) (fun a => holds a (.linLeReif [1] [0] (-1) 1) = true) := by
  intro h
  let st : Store := fun i => if i = 0 then [0] else [0, 2]
  let a : Asg := fun i => if i = 0 then 0 else 2
  have hm : Mem st a := by
    intro i; simp only [st, a]; split <;> simp
  obtain ⟨c', e, m⟩ := h { st := st } a hm (by decide)
  have hc : (prune (.linLeReif [1] [0] (-1) 1) { st := st }).map (fun d => d.st 1) = some [0] := by decide
  rw [e] at hc
  simp only [Option.map_some, Option.some.injEq] at hc
  have := m 1
  rw [hc] at this
  revert this; decide

/-- `x0 = {0}`, `b = x1 = {0,2}`: the assignment `(0,2)` satisfies the reified meaning
(`b ≠ 1` and the row condition is false) but `prune` sets `b := 0` and loses it. -/
theorem not_sound_linNeReif :
    ¬ Sound (prune (.linNeReif [1] [0] (0) 1)) (fun a => holds a (.linNeReif [1] [0] (0) 1) = true) := by
  intro h
  let st : Store := fun i => if i = 0 then [0] else [0, 2]
  let a : Asg := fun i => if i = 0 then 0 else 2
  have hm : Mem st a := by
    intro i; simp only [st, a]; split <;> simp
  obtain ⟨c', e, m⟩ := h { st := st } a hm (by decide)
  have hc : (prune (.linNeReif [1] [0] (0) 1) { st := st }).map (fun d => d.st 1) = some [0] := by decide
  rw [e] at hc
  simp only [Option.map_some, Option.some.injEq] at hc
  have := m 1
  rw [hc] at this
  revert this; decide

/-- the zero-coefficient defect is inherited by the reified kinds (`b = {1}`, `x0 = {0}`) -/
theorem checking_linEqReif_zero_counterexample :
    (prune (.linEqReif [0] [0] 5 1) { st := fun i => if i = 1 then [1] else [0] }).isSome = true ∧
    holds (fun i => if i = 1 then 1 else 0) (.linEqReif [0] [0] 5 1) = false := by decide

end PK

end KLinear
end Selen

import SelenModel.Lemmas.Kinds.Common2
/-
Contract proofs for the propagator kinds `mul` and `div` (and the shared arithmetic: products and
rounded quotients over boxes, floor/ceiling division by negative divisors).
-/
namespace Selen
namespace KMulDiv
open Selen.PK Selen.Lin Selen.IView Selen.Ctx Selen.Dom Selen.KAbsMinMax.PK Selen.K2

/-! ### floor / ceiling division by a negative divisor -/

theorem le_floorDiv_neg (m k x : Int) (hk : k < 0) : x ≤ floorDiv m k ↔ m ≤ x * k := by
  have h1 : floorDiv m k = floorDiv (-m) (-k) := by
    unfold floorDiv; rw [Int.neg_fdiv_neg]
  rw [h1, le_floorDiv_iff (-m) (-k) x (by omega), Int.mul_neg]
  omega

theorem ceilDiv_le_neg (m k x : Int) (hk : k < 0) : ceilDiv m k ≤ x ↔ x * k ≤ m := by
  have h1 : ceilDiv m k = ceilDiv (-m) (-k) := by
    unfold ceilDiv; rw [Int.neg_fdiv_neg]
  rw [h1, ceilDiv_le_iff (-m) (-k) x (by omega), Int.mul_neg]
  omega

/-- `ceil(X/Y) ≤ S ≤ floor(X/Y)` forces the division to be exact -/
theorem exact_of_ceil_floor (X Y S : Int) (hY : Y ≠ 0) (h1 : ceilDiv X Y ≤ S) (h2 : S ≤ floorDiv X Y) :
    S * Y = X := by
  by_cases hp : 0 < Y
  · have a := (ceilDiv_le_iff X Y S hp).1 h1
    have b := (le_floorDiv_iff X Y S hp).1 h2
    omega
  · have hn : Y < 0 := by omega
    have a := (ceilDiv_le_neg X Y S hn).1 h1
    have b := (le_floorDiv_neg X Y S hn).1 h2
    omega

/-! ### products and quotients over boxes -/

theorem mul_lower_corner (a lo hi t : Int) (h1 : lo ≤ t) (h2 : t ≤ hi) :
    ∃ c, (c = lo ∨ c = hi) ∧ a * c ≤ a * t := by
  by_cases ha : 0 ≤ a
  · exact ⟨lo, Or.inl rfl, Int.mul_le_mul_of_nonneg_left h1 ha⟩
  · exact ⟨hi, Or.inr rfl, Int.mul_le_mul_of_nonpos_left (by omega) h2⟩

theorem mul_upper_corner (a lo hi t : Int) (h1 : lo ≤ t) (h2 : t ≤ hi) :
    ∃ c, (c = lo ∨ c = hi) ∧ a * t ≤ a * c := by
  by_cases ha : 0 ≤ a
  · exact ⟨hi, Or.inr rfl, Int.mul_le_mul_of_nonneg_left h2 ha⟩
  · exact ⟨lo, Or.inl rfl, Int.mul_le_mul_of_nonpos_left (by omega) h1⟩

theorem mem4 (f : Int → Int → Int) (a1 a2 b1 b2 a b : Int) (ha : a = a1 ∨ a = a2) (hb : b = b1 ∨ b = b2) :
    f a b ∈ [f a1 b1, f a1 b2, f a2 b1, f a2 b2] := by
  rcases ha with rfl | rfl <;> rcases hb with rfl | rfl <;> simp

/-- the product of two boxed values lies between the extreme corner products -/
theorem prod_corners (X Y xl xu yl yu : Int) (hx1 : xl ≤ X) (hx2 : X ≤ xu) (hy1 : yl ≤ Y) (hy2 : Y ≤ yu) :
    Dom.dmin [xl * yl, xl * yu, xu * yl, xu * yu] ≤ X * Y ∧
    X * Y ≤ Dom.dmax [xl * yl, xl * yu, xu * yl, xu * yu] := by
  constructor
  · obtain ⟨yc, hyc, h1⟩ := mul_lower_corner X yl yu Y hy1 hy2
    obtain ⟨xc, hxc, h2⟩ := mul_lower_corner yc xl xu X hx1 hx2
    have : Dom.dmin [xl * yl, xl * yu, xu * yl, xu * yu] ≤ xc * yc :=
      Dom.dmin_le _ _ (mem4 (· * ·) xl xu yl yu xc yc hxc hyc)
    rw [Int.mul_comm yc xc, Int.mul_comm yc X] at h2
    omega
  · obtain ⟨yc, hyc, h1⟩ := mul_upper_corner X yl yu Y hy1 hy2
    obtain ⟨xc, hxc, h2⟩ := mul_upper_corner yc xl xu X hx1 hx2
    have : xc * yc ≤ Dom.dmax [xl * yl, xl * yu, xu * yl, xu * yu] :=
      Dom.le_dmax _ _ (mem4 (· * ·) xl xu yl yu xc yc hxc hyc)
    rw [Int.mul_comm yc xc, Int.mul_comm yc X] at h2
    omega

/-- if `X * Y = S` with `S`, `Y` boxed and the `Y`-box excluding 0, then `X` lies between the
extreme rounded corner quotients -/
theorem quot_corners (X Y S sl su yl yu : Int) (hXY : X * Y = S) (hs1 : sl ≤ S) (hs2 : S ≤ su)
    (hy1 : yl ≤ Y) (hy2 : Y ≤ yu) (h0 : rangeHasZero yl yu = false) :
    Dom.dmin [ceilDiv sl yl, ceilDiv sl yu, ceilDiv su yl, ceilDiv su yu] ≤ X ∧
    X ≤ Dom.dmax [floorDiv sl yl, floorDiv sl yu, floorDiv su yl, floorDiv su yu] := by
  have h0' : 0 < yl ∨ yu < 0 := by
    simp only [rangeHasZero, Bool.and_eq_false_iff, decide_eq_false_iff_not] at h0
    omega
  have lowc : ∃ sc yc, (sc = sl ∨ sc = su) ∧ (yc = yl ∨ yc = yu) ∧ ceilDiv sc yc ≤ X := by
    rcases h0' with hp | hn
    · by_cases hX : 0 ≤ X
      · refine ⟨sl, yu, Or.inl rfl, Or.inr rfl, (ceilDiv_le_iff sl yu X (by omega)).2 ?_⟩
        have := Int.mul_le_mul_of_nonneg_left hy2 hX
        omega
      · refine ⟨sl, yl, Or.inl rfl, Or.inl rfl, (ceilDiv_le_iff sl yl X hp).2 ?_⟩
        have := Int.mul_le_mul_of_nonpos_left (a := X) (by omega) hy1
        omega
    · by_cases hX : 0 ≤ X
      · refine ⟨su, yl, Or.inr rfl, Or.inl rfl, (ceilDiv_le_neg su yl X (by omega)).2 ?_⟩
        have := Int.mul_le_mul_of_nonneg_left hy1 hX
        omega
      · refine ⟨su, yu, Or.inr rfl, Or.inr rfl, (ceilDiv_le_neg su yu X hn).2 ?_⟩
        have := Int.mul_le_mul_of_nonpos_left (a := X) (by omega) hy2
        omega
  have uppc : ∃ sc yc, (sc = sl ∨ sc = su) ∧ (yc = yl ∨ yc = yu) ∧ X ≤ floorDiv sc yc := by
    rcases h0' with hp | hn
    · by_cases hX : 0 ≤ X
      · refine ⟨su, yl, Or.inr rfl, Or.inl rfl, (le_floorDiv_iff su yl X hp).2 ?_⟩
        have := Int.mul_le_mul_of_nonneg_left hy1 hX
        omega
      · refine ⟨su, yu, Or.inr rfl, Or.inr rfl, (le_floorDiv_iff su yu X (by omega)).2 ?_⟩
        have := Int.mul_le_mul_of_nonpos_left (a := X) (by omega) hy2
        omega
    · by_cases hX : 0 ≤ X
      · refine ⟨sl, yu, Or.inl rfl, Or.inr rfl, (le_floorDiv_neg sl yu X hn).2 ?_⟩
        have := Int.mul_le_mul_of_nonneg_left hy2 hX
        omega
      · refine ⟨sl, yl, Or.inl rfl, Or.inl rfl, (le_floorDiv_neg sl yl X (by omega)).2 ?_⟩
        have := Int.mul_le_mul_of_nonpos_left (a := X) (by omega) hy1
        omega
  obtain ⟨sc, yc, h1, h2, h3⟩ := lowc
  obtain ⟨sc', yc', h1', h2', h3'⟩ := uppc
  have a := Dom.dmin_le _ _ (mem4 ceilDiv sl su yl yu sc yc h1 h2)
  have b := Dom.le_dmax _ _ (mem4 floorDiv sl su yl yu sc' yc' h1' h2')
  omega

namespace PK

theorem mul_xT (x y : IView) (s : Nat) : x.UnderIn (triggers (.mul x y s)) :=
  underIn_of _ _ (fun _ h => List.mem_append.2 (Or.inl (List.mem_append.2 (Or.inr h))))
theorem mul_yT (x y : IView) (s : Nat) : y.UnderIn (triggers (.mul x y s)) :=
  underIn_of _ _ (fun _ h => List.mem_append.2 (Or.inr h))
theorem mul_sT (x y : IView) (s : Nat) : s ∈ triggers (.mul x y s) :=
  List.mem_append.2 (Or.inl (List.mem_append.2 (Or.inl (List.mem_singleton.2 rfl))))

theorem dmin4_same (p : Int) : Dom.dmin [p, p, p, p] = p ∧ Dom.dmax [p, p, p, p] = p := by
  have h1 := Dom.dmin_mem [p, p, p, p] (by simp)
  have h2 := Dom.dmax_mem [p, p, p, p] (by simp)
  simp at h1 h2
  exact ⟨h1, h2⟩

/-- back-propagation of a quotient onto a step-free view keeps the solution -/
theorem keeps_quot {v : IView} (hv : v.WF) {c : Ctx} {a : Asg} (hm : Mem c.st a)
    {lo hi : Int} (h1 : lo ≤ v.eval a) (h2 : v.eval a ≤ hi) :
    Keeps a (PK.bind (v.trySetMinF lo c) (fun c' => v.trySetMaxF hi c')) := by
  rw [IView.trySetMinF_eq]
  refine Keeps.bind (IView.keeps_min hv hm h1) (fun c1 m1 => ?_)
  rw [IView.trySetMaxF_eq]
  exact IView.keeps_max hv m1 h2

theorem good_quot {v : IView} {T : List Nat} (hT : v.UnderIn T) {c c' : Ctx} {lo hi : Int}
    (h : PK.bind (v.trySetMinF lo c) (fun c' => v.trySetMaxF hi c') = some c') : Good T c c' := by
  obtain ⟨c1, h1, h2⟩ := bind_some h
  rw [IView.trySetMinF_eq] at h1
  rw [IView.trySetMaxF_eq] at h2
  exact (IView.good_min hT h1).trans (IView.good_max hT h2)

theorem resp_quot {v : IView} {T : List Nat} (hT : v.UnderIn T) {c1 c2 : Ctx} (lo hi : Int)
    (hag : Agree T c1 c2) :
    RelO T (PK.bind (v.trySetMinF lo c1) (fun c' => v.trySetMaxF hi c'))
           (PK.bind (v.trySetMinF lo c2) (fun c' => v.trySetMaxF hi c')) := by
  rw [IView.trySetMinF_eq, IView.trySetMinF_eq]
  refine RelO.bind ((IView.resp v _ hT).1 _ _ _ hag) (fun d1 d2 hd => ?_)
  rw [IView.trySetMaxF_eq, IView.trySetMaxF_eq]
  exact (IView.resp v _ hT).2 _ _ _ hd

theorem sound_mul (x y : IView) (s : Nat) (hx : x.WF) (hy : y.WF) :
    Sound (prune (.mul x y s)) (fun a => holds a (.mul x y s) = true) := by
  intro c a hm hs
  have hs : x.eval a * y.eval a = a s := by simpa [holds] using hs
  have hxb : x.vmin c ≤ x.eval a ∧ x.eval a ≤ x.vmax c := x.bounds hx hm
  have hyb : y.vmin c ≤ y.eval a ∧ y.eval a ≤ y.vmax c := y.bounds hy hm
  have hp := prod_corners (x.eval a) (y.eval a) _ _ _ _ hxb.1 hxb.2 hyb.1 hyb.2
  show Keeps a (pruneMul x y s c)
  simp only [pruneMul]
  refine Keeps.bind (Keeps.bind (Ctx.trySetMin_keeps hm (by omega))
    (fun c1 m1 => Ctx.trySetMax_keeps m1 (by omega))) (fun c2 m2 => ?_)
  have hsb := m2.bounds s
  refine Keeps.bind ?_ (fun c3 m3 => ?_)
  · by_cases h0 : rangeHasZero (y.vmin c) (y.vmax c) = true
    · rw [if_pos h0]; exact Keeps.some m2
    · rw [if_neg h0]
      have hq := quot_corners (x.eval a) (y.eval a) (a s) _ _ _ _ hs hsb.1 hsb.2 hyb.1 hyb.2 (by simpa using h0)
      exact keeps_quot hx m2 hq.1 hq.2
  · by_cases h0 : rangeHasZero (x.vmin c) (x.vmax c) = true
    · rw [if_pos h0]; exact Keeps.some m3
    · rw [if_neg h0]
      have hq := quot_corners (y.eval a) (x.eval a) (a s) _ _ _ _ (by rw [Int.mul_comm]; exact hs)
        hsb.1 hsb.2 hxb.1 hxb.2 (by simpa using h0)
      exact keeps_quot hy m3 hq.1 hq.2

theorem contracting_mul (x y : IView) (s : Nat) :
    Contracting (prune (.mul x y s)) (triggers (.mul x y s)) := by
  intro c c' h
  have hxT := mul_xT x y s
  have hyT := mul_yT x y s
  have hsT := mul_sT x y s
  change pruneMul x y s c = some c' at h
  simp only [pruneMul] at h
  obtain ⟨c2, h12, h⟩ := bind_some h
  obtain ⟨c1, h1, h2⟩ := bind_some h12
  obtain ⟨c3, h3, h4⟩ := bind_some h
  have g2 := (Ctx.trySetMin_good hsT h1).trans (Ctx.trySetMax_good hsT h2)
  have g3 : Good (triggers (.mul x y s)) c2 c3 := by
    split at h3
    · cases h3; exact Good.refl _ _
    · exact good_quot hxT h3
  have g4 : Good (triggers (.mul x y s)) c3 c' := by
    split at h4
    · cases h4; exact Good.refl _ _
    · exact good_quot hyT h4
  exact (g2.trans g3).trans g4

theorem checking_mul (x y : IView) (s : Nat) :
    Checking (prune (.mul x y s)) (fun a => holds a (.mul x y s) = true) (triggers (.mul x y s)) := by
  intro c c' a hf hm h
  have hxT := mul_xT x y s
  have hyT := mul_yT x y s
  obtain ⟨w, hw⟩ := hf s (mul_sT x y s)
  have e : a s = w := fixed_eq hm hw
  have hxb : x.vmin c = x.eval a ∧ x.vmax c = x.eval a := x.bounds_fixed hm (fixedOn_view hf hxT)
  have hyb : y.vmin c = y.eval a ∧ y.vmax c = y.eval a := y.bounds_fixed hm (fixedOn_view hf hyT)
  change pruneMul x y s c = some c' at h
  simp only [pruneMul] at h
  obtain ⟨c2, h12, _⟩ := bind_some h
  obtain ⟨c1, h1, h2⟩ := bind_some h12
  obtain ⟨e1, t1⟩ := Ctx.trySetMin_fixed hw h1
  subst e1
  obtain ⟨_, t2⟩ := Ctx.trySetMax_fixed hw h2
  rw [hxb.1, hxb.2, hyb.1, hyb.2] at t1 t2
  rw [(dmin4_same _).1] at t1
  rw [(dmin4_same _).2] at t2
  simp only [holds, beq_iff_eq]
  omega

theorem resp_mul (x y : IView) (s : Nat) :
    Resp (triggers (.mul x y s)) (prune (.mul x y s)) := by
  intro c1 c2 hag
  have hxT := mul_xT x y s
  have hyT := mul_yT x y s
  have hsT := mul_sT x y s
  show RelO _ (pruneMul x y s c1) (pruneMul x y s c2)
  simp only [pruneMul]
  rw [IView.vmin_agree hxT hag, IView.vmax_agree hxT hag, IView.vmin_agree hyT hag, IView.vmax_agree hyT hag]
  refine RelO.bind (RelO.bind (Ctx.trySetMin_resp _ hsT hag) (fun d1 d2 hd => Ctx.trySetMax_resp _ hsT hd))
    (fun d1 d2 hd => ?_)
  rw [hd s hsT]
  refine RelO.bind ?_ (fun e1 e2 he => ?_)
  · exact RelO.ite (fun _ => RelO.some hd) (fun _ => resp_quot hxT _ _ hd)
  · exact RelO.ite (fun _ => RelO.some he) (fun _ => resp_quot hyT _ _ he)

theorem contract_mul (x y : IView) (s : Nat) (hx : x.WF) (hy : y.WF) :
    Contract (prune (.mul x y s)) (fun a => holds a (.mul x y s) = true) (triggers (.mul x y s)) :=
  ⟨sound_mul x y s hx hy, contracting_mul x y s, checking_mul x y s, resp_mul x y s⟩

/-! ### div -/

theorem div_xT (x y : IView) (s : Nat) : x.UnderIn (triggers (.div x y s)) :=
  underIn_of _ _ (fun _ h => List.mem_append.2 (Or.inl (List.mem_append.2 (Or.inr h))))
theorem div_yT (x y : IView) (s : Nat) : y.UnderIn (triggers (.div x y s)) :=
  underIn_of _ _ (fun _ h => List.mem_append.2 (Or.inr h))
theorem div_sT (x y : IView) (s : Nat) : s ∈ triggers (.div x y s) :=
  List.mem_append.2 (Or.inl (List.mem_append.2 (Or.inl (List.mem_singleton.2 rfl))))

/-- soundness of `div` needs no store precondition (on a divisor range containing 0 the
propagator does nothing) -/
theorem sound_div (x y : IView) (s : Nat) (hx : x.WF) (hy : y.WF) :
    Sound (prune (.div x y s)) (fun a => holds a (.div x y s) = true) := by
  intro c a hm hs
  have hs : y.eval a ≠ 0 ∧ a s * y.eval a = x.eval a := by simpa [holds] using hs
  have hxb : x.vmin c ≤ x.eval a ∧ x.eval a ≤ x.vmax c := x.bounds hx hm
  have hyb : y.vmin c ≤ y.eval a ∧ y.eval a ≤ y.vmax c := y.bounds hy hm
  show Keeps a (pruneDiv x y s c)
  simp only [pruneDiv]
  by_cases h0 : rangeHasZero (y.vmin c) (y.vmax c) = true
  · rw [if_pos h0]
    by_cases he : y.vmin c = y.vmax c
    · exfalso
      simp only [rangeHasZero, Bool.and_eq_true, decide_eq_true_eq] at h0
      exact hs.1 (by omega)
    · rw [if_neg he]; exact Keeps.some hm
  · rw [if_neg h0]
    have hq := quot_corners (a s) (y.eval a) (x.eval a) _ _ _ _ hs.2 hxb.1 hxb.2 hyb.1 hyb.2 (by simpa using h0)
    refine Keeps.bind (Keeps.bind (Ctx.trySetMin_keeps hm hq.1) (fun c1 m1 => Ctx.trySetMax_keeps m1 hq.2))
      (fun c2 m2 => ?_)
    have hsb := m2.bounds s
    have hp := prod_corners (a s) (y.eval a) _ _ _ _ hsb.1 hsb.2 hyb.1 hyb.2
    refine Keeps.bind (Keeps.bind (IView.keeps_min hx m2 (by omega)) (fun c3 m3 => IView.keeps_max hx m3 (by omega)))
      (fun c4 m4 => ?_)
    by_cases h1 : rangeHasZero (c2.st s).dmin (c2.st s).dmax = true
    · rw [if_pos h1]; exact Keeps.some m4
    · rw [if_neg h1]
      have hq2 := quot_corners (y.eval a) (a s) (x.eval a) _ _ _ _ (by rw [Int.mul_comm]; exact hs.2)
        hxb.1 hxb.2 hsb.1 hsb.2 (by simpa using h1)
      exact keeps_quot hy m4 hq2.1 hq2.2

theorem contracting_div (x y : IView) (s : Nat) :
    Contracting (prune (.div x y s)) (triggers (.div x y s)) := by
  intro c c' h
  have hxT := div_xT x y s
  have hyT := div_yT x y s
  have hsT := div_sT x y s
  change pruneDiv x y s c = some c' at h
  simp only [pruneDiv] at h
  split at h
  · split at h
    · cases h
    · cases h; exact Good.refl _ _
  · obtain ⟨c2, h12, h⟩ := bind_some h
    obtain ⟨c1, h1, h2⟩ := bind_some h12
    obtain ⟨c4, h34, h5⟩ := bind_some h
    obtain ⟨c3, h3, h4⟩ := bind_some h34
    have g4 := (((Ctx.trySetMin_good hsT h1).trans (Ctx.trySetMax_good hsT h2)).trans
      (IView.good_min hxT h3)).trans (IView.good_max hxT h4)
    refine g4.trans ?_
    split at h5
    · cases h5; exact Good.refl _ _
    · exact good_quot hyT h5

/-- `checking` on a divisor range that excludes 0 -/
theorem checking_div_nz (x y : IView) (s : Nat) (c c' : Ctx) (a : Asg)
    (hnz : rangeHasZero (y.minRaw c.st) (y.maxRaw c.st) = false)
    (hf : FixedOn (triggers (.div x y s)) c.st) (hm : Mem c.st a)
    (h : prune (.div x y s) c = some c') : holds a (.div x y s) = true := by
  have hxT := div_xT x y s
  have hyT := div_yT x y s
  obtain ⟨w, hw⟩ := hf s (div_sT x y s)
  have e : a s = w := fixed_eq hm hw
  have hxb : x.vmin c = x.eval a ∧ x.vmax c = x.eval a := x.bounds_fixed hm (fixedOn_view hf hxT)
  have hyb : y.vmin c = y.eval a ∧ y.vmax c = y.eval a := y.bounds_fixed hm (fixedOn_view hf hyT)
  have hnz' : rangeHasZero (y.vmin c) (y.vmax c) = false := hnz
  have hy0 : y.eval a ≠ 0 := by
    rw [hyb.1, hyb.2] at hnz'
    simp only [rangeHasZero, Bool.and_eq_false_iff, decide_eq_false_iff_not] at hnz'
    omega
  change pruneDiv x y s c = some c' at h
  simp only [pruneDiv] at h
  rw [if_neg (by rw [hnz']; simp)] at h
  obtain ⟨c2, h12, _⟩ := bind_some h
  obtain ⟨c1, h1, h2⟩ := bind_some h12
  obtain ⟨e1, t1⟩ := Ctx.trySetMin_fixed hw h1
  subst e1
  obtain ⟨_, t2⟩ := Ctx.trySetMax_fixed hw h2
  rw [hxb.1, hxb.2, hyb.1, hyb.2] at t1 t2
  rw [(dmin4_same _).1] at t1
  rw [(dmin4_same _).2] at t2
  have := exact_of_ceil_floor (x.eval a) (y.eval a) w hy0 t1 t2
  simp only [holds, Bool.and_eq_true, bne_iff_ne, ne_eq, beq_iff_eq]
  exact ⟨hy0, by rw [e]; exact this⟩

/-- `checking`: a fixed divisor equal to 0 makes the propagator fail (since the repair
`fix: Div/Modulo fail when the divisor is fixed to zero`; before it the propagator returned success
without looking at anything), so no store precondition is needed -/
theorem checking_div (x y : IView) (s : Nat) :
    Checking (prune (.div x y s)) (fun a => holds a (.div x y s) = true) (triggers (.div x y s)) := by
  intro c c' a hf hm h
  have hyb : y.vmin c = y.eval a ∧ y.vmax c = y.eval a := y.bounds_fixed hm (fixedOn_view hf (div_yT x y s))
  by_cases hnz : rangeHasZero (y.minRaw c.st) (y.maxRaw c.st) = false
  · exact checking_div_nz x y s c c' a hnz hf hm h
  · exfalso
    have h0 : rangeHasZero (y.vmin c) (y.vmax c) = true := by
      have : rangeHasZero (y.minRaw c.st) (y.maxRaw c.st) = true := by simpa using hnz
      exact this
    change pruneDiv x y s c = some c' at h
    simp only [pruneDiv] at h
    rw [if_pos h0, if_pos (by rw [hyb.1, hyb.2])] at h
    cases h

theorem resp_div (x y : IView) (s : Nat) :
    Resp (triggers (.div x y s)) (prune (.div x y s)) := by
  intro c1 c2 hag
  have hxT := div_xT x y s
  have hyT := div_yT x y s
  have hsT := div_sT x y s
  show RelO _ (pruneDiv x y s c1) (pruneDiv x y s c2)
  simp only [pruneDiv]
  rw [IView.vmin_agree hxT hag, IView.vmax_agree hxT hag, IView.vmin_agree hyT hag, IView.vmax_agree hyT hag]
  refine RelO.ite (fun _ => RelO.ite (fun _ => RelO.none) (fun _ => RelO.some hag)) (fun _ => ?_)
  refine RelO.bind (RelO.bind (Ctx.trySetMin_resp _ hsT hag) (fun d1 d2 hd => Ctx.trySetMax_resp _ hsT hd))
    (fun d1 d2 hd => ?_)
  rw [hd s hsT]
  refine RelO.bind (RelO.bind ((IView.resp x _ hxT).1 _ _ _ hd) (fun e1 e2 he => (IView.resp x _ hxT).2 _ _ _ he))
    (fun e1 e2 he => ?_)
  exact RelO.ite (fun _ => RelO.some he) (fun _ => resp_quot hyT _ _ he)

theorem contract_div (x y : IView) (s : Nat) (hx : x.WF) (hy : y.WF) :
    Contract (prune (.div x y s)) (fun a => holds a (.div x y s) = true) (triggers (.div x y s)) :=
  ⟨sound_div x y s hx hy, contracting_div x y s, checking_div x y s, resp_div x y s⟩

end PK

/-- store precondition of `div` (and of `modulo`): the divisor's range excludes 0 -/
def DivOk (y : IView) (st : Store) : Prop := rangeHasZero (y.minRaw st) (y.maxRaw st) = false

theorem divOk_good (y : IView) (hy : y.WF) {T : List Nat} {c c' : Ctx} (g : Good T c c')
    (hne : NonEmpty c.st) (h : DivOk y c.st) : DivOk y c'.st := by
  have hb := IView.raw_mono_good hy g hne
  unfold DivOk at *
  simp only [rangeHasZero, Bool.and_eq_false_iff, decide_eq_false_iff_not] at h ⊢
  omega

/-! ### former findings, repaired in the code (kernel-checked on the old witnesses) -/

/-- `div` with a divisor fixed to 0 now fails (witness of the former finding `zero-in-divisor-range`) -/
theorem div_zero_divisor_fails :
    PK.prune (.div (.var 0) (.var 1) 2) { st := fun i => [[1], [0], [5]].getD i [0] } = none := by decide

/-- a quotient bound pushed through a `Next` view is shifted: `(x+1) * y = s` with `x ∈ {1,2}`,
`y = 2`, `s = 4` keeps the solution `x = 1` (witness of the former finding `next-prev-float-bound`) -/
theorem mul_next_keeps :
    (PK.prune (.mul (.next (.var 0)) (.var 1) 2) { st := fun i => [[1, 2], [2], [4]].getD i [0] }).map
        (fun c => c.st 0) = some [1] := by decide

end KMulDiv
end Selen

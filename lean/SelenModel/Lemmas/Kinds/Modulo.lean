import SelenModel.Lemmas.Kinds.Common2
/-
Contract proofs for the propagator kind `modulo` (`Modulo::prune`, model `pruneMod`).

The pinned propagator was unsound in four ways (each repaired by a `fix:` commit; the kernel-checked
witnesses at the end state the repaired behaviour): it clamped the result to `[0, y-1]` by the sign
of the divisor, scanned the multipliers of the back-propagation in the wrong order for a negative
divisor, returned success without any check when the divisor was fixed to `0`, and took bounds
from candidate remainders sampled at boundary values only when the ranges were wide.

For the repaired propagator the whole contract holds unconditionally (`contract_modulo`): soundness
for all signs of dividend and divisor (the meaning is `y ≠ 0 ∧ s = Int.tmod x y`, Rust's `%`),
checking (a divisor fixed to 0 fails), contraction and frame.
-/
namespace Selen
namespace KModulo
open Selen.PK Selen.Lin Selen.IView Selen.Ctx Selen.Dom Selen.KAbsMinMax.PK Selen.K2

namespace PK

/-! ### arithmetic and list helpers -/

theorem mem_intRange (lo hi w : Int) : w ∈ intRange lo hi ↔ lo ≤ w ∧ w ≤ hi := by
  unfold intRange
  rw [List.mem_map]
  constructor
  · rintro ⟨i, hi', rfl⟩
    rw [List.mem_range] at hi'
    omega
  · intro h
    refine ⟨(w - lo).toNat, ?_, ?_⟩
    · rw [List.mem_range]; omega
    · omega

/-! ### truncated remainder / quotient for all signs -/

/-- for a positive divisor the truncated remainder lies strictly between `-b` and `b`, is
non-negative for a non-negative dividend and non-positive for a non-positive one -/
theorem tmod_pos_bounds (a b : Int) (hb : 0 < b) :
    -b < Int.tmod a b ∧ Int.tmod a b < b ∧ (0 ≤ a → 0 ≤ Int.tmod a b) ∧ (a ≤ 0 → Int.tmod a b ≤ 0) := by
  have h1 := Int.tmod_lt_of_pos a hb
  have h2 := Int.tmod_lt_of_pos (-a) hb
  rw [Int.neg_tmod] at h2
  refine ⟨by omega, h1, fun h => Int.tmod_nonneg b h, fun h => ?_⟩
  have := Int.tmod_nonneg (a := -a) b (by omega)
  rw [Int.neg_tmod] at this
  omega

/-- the same for any non-zero divisor, with `|b|` -/
theorem tmod_bounds (a b : Int) (hb : b ≠ 0) :
    -(b.natAbs : Int) < Int.tmod a b ∧ Int.tmod a b < (b.natAbs : Int) ∧
    (0 ≤ a → 0 ≤ Int.tmod a b) ∧ (a ≤ 0 → Int.tmod a b ≤ 0) := by
  by_cases hp : 0 < b
  · have e : (b.natAbs : Int) = b := by omega
    rw [e]; exact tmod_pos_bounds a b hp
  · have e : (b.natAbs : Int) = -b := by omega
    have h := tmod_pos_bounds a (-b) (by omega)
    rw [Int.tmod_neg] at h
    rw [e]; exact h

/-- truncated quotient by a positive divisor against an exact multiple -/
theorem tdiv_pos_le {a Y k : Int} (hY : 0 < Y) (h : a ≤ k * Y) : Int.tdiv a Y ≤ k := by
  have hb := tmod_pos_bounds a Y hY
  have he := Int.tmod_add_tdiv_mul a Y
  have : Int.tdiv a Y * Y < (k + 1) * Y := by rw [Int.add_mul]; omega
  have := Int.lt_of_mul_lt_mul_right this (by omega)
  omega

theorem le_tdiv_pos {a Y k : Int} (hY : 0 < Y) (h : k * Y ≤ a) : k ≤ Int.tdiv a Y := by
  have hb := tmod_pos_bounds a Y hY
  have he := Int.tmod_add_tdiv_mul a Y
  have : (k - 1) * Y < Int.tdiv a Y * Y := by rw [Int.sub_mul]; omega
  have := Int.lt_of_mul_lt_mul_right this (by omega)
  omega

/-- CASE 4 for either sign of the divisor: the exact quotient `k` of `X - S` lies between the two
theoretical multipliers (in their `kLo`/`kHi` order) -/
theorem kbounds_all {X Y S k xmin xmax : Int} (hY : Y ≠ 0) (hX : X = k * Y + S)
    (h1 : xmin ≤ X) (h2 : X ≤ xmax) :
    kLo (Int.tdiv (xmin - S) Y) (Int.tdiv (xmax - S) Y) ≤ k ∧
    k ≤ kHi (Int.tdiv (xmin - S) Y) (Int.tdiv (xmax - S) Y) := by
  by_cases hp : 0 < Y
  · have a := tdiv_pos_le (a := xmin - S) (k := k) hp (by omega)
    have b := le_tdiv_pos (a := xmax - S) (k := k) hp (by omega)
    unfold kLo kHi
    constructor <;> split <;> omega
  · have hn : 0 < -Y := by omega
    have e : k * Y = (-k) * (-Y) := by rw [Int.neg_mul_neg]
    have a := tdiv_pos_le (a := xmin - S) (k := -k) hn (by omega)
    have b := le_tdiv_pos (a := xmax - S) (k := -k) hn (by omega)
    have e1 : Int.tdiv (xmin - S) Y = -(Int.tdiv (xmin - S) (-Y)) := by
      rw [← Int.tdiv_neg, Int.neg_neg]
    have e2 : Int.tdiv (xmax - S) Y = -(Int.tdiv (xmax - S) (-Y)) := by
      rw [← Int.tdiv_neg, Int.neg_neg]
    rw [e1, e2]
    unfold kLo kHi
    constructor <;> split <;> omega

/-- CASE 3: when all pairs are enumerated the true remainder is among the candidates -/
theorem modCands_mem {xmin xmax ymin ymax X Y : Int} (hx1 : xmin ≤ X) (hx2 : X ≤ xmax)
    (hy1 : ymin ≤ Y) (hy2 : Y ≤ ymax) (hyr : ymax - ymin ≤ 10)
    (hxr : ymin = ymax ∨ xmax - xmin ≤ 10) :
    Int.tmod X Y ∈ modCands xmin xmax ymin ymax := by
  unfold modCands
  by_cases h : ymin = ymax
  · rw [if_pos h]
    have : Y = ymin := by omega
    subst this
    exact List.mem_map.2 ⟨X, (mem_intRange _ _ _).2 ⟨hx1, hx2⟩, rfl⟩
  · rw [if_neg h, if_pos hyr]
    have hxr' : xmax - xmin ≤ 10 := by
      rcases hxr with h' | h'
      · exact absurd h' h
      · exact h'
    simp only [if_pos hxr']
    exact List.mem_flatMap.2 ⟨Y, (mem_intRange _ _ _).2 ⟨hy1, hy2⟩,
      List.mem_map.2 ⟨X, (mem_intRange _ _ _).2 ⟨hx1, hx2⟩, rfl⟩⟩

/-- CASE 4: the true dividend is among the reconstructed values (any signs) -/
theorem vals_mem {X Y S xmin xmax : Int} (hY : Y ≠ 0) (hS : S = Int.tmod X Y)
    (h1 : xmin ≤ X) (h2 : X ≤ xmax) :
    X ∈ ((intRange (kLo (Int.tdiv (xmin - S) Y) (Int.tdiv (xmax - S) Y) - 1)
            (kHi (Int.tdiv (xmin - S) Y) (Int.tdiv (xmax - S) Y) + 1)).map
          (fun k => k * Y + S)).filter (fun v => decide (xmin ≤ v) && decide (v ≤ xmax)) := by
  have hXe : X = Int.tdiv X Y * Y + S := by
    have := Int.tmod_add_tdiv_mul X Y
    omega
  have hb := kbounds_all hY hXe h1 h2
  rw [List.mem_filter]
  refine ⟨List.mem_map.2 ⟨Int.tdiv X Y, (mem_intRange _ _ _).2 ⟨by omega, by omega⟩, hXe.symm⟩, ?_⟩
  simp only [Bool.and_eq_true, decide_eq_true_eq]
  exact ⟨h1, h2⟩

/-! ### chain helpers -/

theorem both_keeps {c : Ctx} {a : Asg} {s : Nat} {lo hi : Int} (hm : Mem c.st a)
    (h1 : lo ≤ a s) (h2 : a s ≤ hi) :
    Keeps a (PK.bind (c.trySetMin s lo) (fun c1 => c1.trySetMax s hi)) :=
  Keeps.bind (Ctx.trySetMin_keeps hm h1) (fun _ m1 => Ctx.trySetMax_keeps m1 h2)

theorem both_good {T : List Nat} {c c' : Ctx} {s : Nat} {lo hi : Int} (hs : s ∈ T)
    (h : PK.bind (c.trySetMin s lo) (fun c1 => c1.trySetMax s hi) = some c') : Good T c c' := by
  obtain ⟨c1, h1, h2⟩ := bind_some h
  exact (Ctx.trySetMin_good hs h1).trans (Ctx.trySetMax_good hs h2)

theorem both_resp {T : List Nat} {c1 c2 : Ctx} {s : Nat} (lo hi : Int) (hs : s ∈ T)
    (h : Agree T c1 c2) :
    RelO T (PK.bind (c1.trySetMin s lo) (fun d => d.trySetMax s hi))
           (PK.bind (c2.trySetMin s lo) (fun d => d.trySetMax s hi)) :=
  RelO.bind (Ctx.trySetMin_resp _ hs h) (fun _ _ hd => Ctx.trySetMax_resp _ hs hd)

theorem cands_keeps {c : Ctx} {a : Asg} {s : Nat} {cs : List Int} (hm : Mem c.st a) (h : a s ∈ cs) :
    Keeps a (if cs.isEmpty then some c
             else PK.bind (c.trySetMin s (Dom.dmin cs)) (fun c1 => c1.trySetMax s (Dom.dmax cs))) := by
  have hne : ¬ (cs.isEmpty = true) := by
    cases cs with
    | nil => cases h
    | cons _ _ => simp
  rw [if_neg hne]
  exact both_keeps hm (Dom.dmin_le _ _ h) (Dom.le_dmax _ _ h)

theorem vals_keeps {x : IView} (hx : x.WF) {c : Ctx} {a : Asg} {vals : List Int} (hm : Mem c.st a)
    (h : x.eval a ∈ vals) :
    Keeps a (if vals.isEmpty then some c
             else PK.bind (x.trySetMin (Dom.dmin vals) c) (fun c1 => x.trySetMax (Dom.dmax vals) c1)) := by
  have hne : ¬ (vals.isEmpty = true) := by
    cases vals with
    | nil => cases h
    | cons _ _ => simp
  rw [if_neg hne]
  exact Keeps.bind (IView.keeps_min hx hm (Dom.dmin_le _ _ h))
    (fun _ m1 => IView.keeps_max hx m1 (Dom.le_dmax _ _ h))

theorem mod_underIn_x (x y : IView) (s : Nat) : x.UnderIn (triggers (.modulo x y s)) :=
  underIn_of _ _ (fun _ h => List.mem_append.2 (Or.inl (List.mem_append.2 (Or.inr h))))

theorem mod_underIn_y (x y : IView) (s : Nat) : y.UnderIn (triggers (.modulo x y s)) :=
  underIn_of _ _ (fun _ h => List.mem_append.2 (Or.inr h))

theorem mod_s_mem (x y : IView) (s : Nat) : s ∈ triggers (.modulo x y s) :=
  List.mem_append.2 (Or.inl (List.mem_append.2 (Or.inl (List.mem_singleton.2 rfl))))

/-! ### soundness (all signs of dividend and divisor) -/

theorem sound_modulo (x y : IView) (s : Nat) (hx : x.WF) (hy : y.WF) :
    Sound (prune (.modulo x y s)) (fun a => holds a (.modulo x y s) = true) := by
  intro c a hm hs
  have hbx : x.vmin c ≤ x.eval a ∧ x.eval a ≤ x.vmax c := x.bounds hx hm
  have hby : y.vmin c ≤ y.eval a ∧ y.eval a ≤ y.vmax c := y.bounds hy hm
  have hbs := hm.bounds s
  simp only [holds, Bool.and_eq_true, bne_iff_ne, ne_eq, beq_iff_eq] at hs
  obtain ⟨hY, hs⟩ := hs
  have htb := tmod_bounds (x.eval a) (y.eval a) hY
  show Keeps a (pruneMod x y s c)
  simp only [pruneMod]
  by_cases hz : rangeHasZero (y.vmin c) (y.vmax c) = true
  · rw [if_pos hz]
    have hz' : y.vmin c ≤ 0 ∧ y.vmax c ≥ 0 := by
      simpa [rangeHasZero] using hz
    have hne : ¬ (y.vmin c = y.vmax c) := by omega
    rw [if_neg hne]; exact Keeps.some hm
  · rw [if_neg hz]
    by_cases h1 : x.vmin c = x.vmax c ∧ y.vmin c = y.vmax c
    · rw [if_pos h1]
      have e1 : x.vmin c = x.eval a := by omega
      have e2 : y.vmin c = y.eval a := by omega
      rw [e1, e2, ← hs]
      exact both_keeps hm (Int.le_refl _) (Int.le_refl _)
    · rw [if_neg h1]
      refine Keeps.bind (Keeps.bind ?_ (fun c1 m1 => ?_)) (fun c2 m2 => ?_)
      · by_cases h2 : y.vmin c = y.vmax c
        · rw [if_pos h2]
          have e2 : y.vmin c = y.eval a := by omega
          rw [e2]
          rw [← hs] at htb
          obtain ⟨t1, t2, t3, t4⟩ := htb
          refine both_keeps hm ?_ ?_
          · by_cases hxm : x.vmin c ≥ 0
            · have := t3 (by omega)
              simp only [hxm, if_true]; split <;> omega
            · simp only [hxm, if_false]; split <;> omega
          · by_cases hxm : x.vmax c ≤ 0
            · have := t4 (by omega)
              simp only [hxm, if_true]; split <;> omega
            · simp only [hxm, if_false]; split <;> omega
        · rw [if_neg h2]; exact Keeps.some hm
      · by_cases hex : modExh (x.vmin c) (x.vmax c) (y.vmin c) (y.vmax c) = true
        · have hyr : y.vmax c - y.vmin c ≤ 10 ∧ (y.vmin c = y.vmax c ∨ x.vmax c - x.vmin c ≤ 10) := by
            unfold modExh at hex
            by_cases e1 : y.vmin c = y.vmax c
            · exact ⟨by omega, Or.inl e1⟩
            · rw [if_neg e1] at hex
              by_cases e2 : y.vmax c - y.vmin c ≤ 10
              · rw [if_pos e2] at hex
                exact ⟨e2, Or.inr (by simpa using hex)⟩
              · rw [if_neg e2] at hex; cases hex
          simp only [hex, Bool.not_true, Bool.false_or]
          refine cands_keeps m1 ?_
          rw [hs]
          exact modCands_mem hbx.1 hbx.2 hby.1 hby.2 hyr.1 hyr.2
        · have : modExh (x.vmin c) (x.vmax c) (y.vmin c) (y.vmax c) = false := by simpa using hex
          simp only [this, Bool.not_false, Bool.true_or, if_true]
          exact Keeps.some m1
      · by_cases h4 : y.vmin c = y.vmax c ∧ (c.st s).dmin = (c.st s).dmax ∧
            (c.st s).dmin ≥ 0 ∧ (c.st s).dmin < (y.vmin c).natAbs
        · rw [if_pos h4]
          have e2 : y.vmin c = y.eval a := by omega
          have e3 : (c.st s).dmin = a s := by omega
          refine vals_keeps hx m2 ?_
          rw [e2, e3]
          exact vals_mem hY hs hbx.1 hbx.2
        · rw [if_neg h4]; exact Keeps.some m2

/-! ### contracting -/

theorem contracting_modulo (x y : IView) (s : Nat) :
    Contracting (prune (.modulo x y s)) (triggers (.modulo x y s)) := by
  intro c c' h
  have hxT := mod_underIn_x x y s
  have hsT := mod_s_mem x y s
  change pruneMod x y s c = some c' at h
  simp only [pruneMod] at h
  split at h
  · split at h
    · cases h
    · cases h; exact Good.refl _ _
  · split at h
    · exact both_good hsT h
    · obtain ⟨c2, h12, h3⟩ := bind_some h
      obtain ⟨c1, h1, h2⟩ := bind_some h12
      have g1 : Good (triggers (.modulo x y s)) c c1 := by
        split at h1
        · exact both_good hsT h1
        · cases h1; exact Good.refl _ _
      have g2 : Good (triggers (.modulo x y s)) c1 c2 := by
        split at h2
        · cases h2; exact Good.refl _ _
        · exact both_good hsT h2
      have g3 : Good (triggers (.modulo x y s)) c2 c' := by
        split at h3
        · split at h3
          · cases h3; exact Good.refl _ _
          · obtain ⟨c3, h4, h5⟩ := bind_some h3
            exact (IView.good_min hxT h4).trans (IView.good_max hxT h5)
        · cases h3; exact Good.refl _ _
      exact (g1.trans g2).trans g3

/-! ### checking -/

theorem checking_modulo (x y : IView) (s : Nat) (hx : x.WF) (hy : y.WF) (c c' : Ctx) (a : Asg)
    (hnz : rangeHasZero (y.minRaw c.st) (y.maxRaw c.st) = false)
    (hf : FixedOn (triggers (.modulo x y s)) c.st) (hm : Mem c.st a)
    (h : prune (.modulo x y s) c = some c') : holds a (.modulo x y s) = true := by
  -- well-formedness is not needed for checking; the hypotheses are kept for a uniform signature
  have _ := hx
  have _ := hy
  have hxT := mod_underIn_x x y s
  have hyT := mod_underIn_y x y s
  obtain ⟨w, hw⟩ := hf s (mod_s_mem x y s)
  have e : a s = w := fixed_eq hm hw
  have hbx : x.vmin c = x.eval a ∧ x.vmax c = x.eval a := x.bounds_fixed hm (fixedOn_view hf hxT)
  have hby : y.vmin c = y.eval a ∧ y.vmax c = y.eval a := y.bounds_fixed hm (fixedOn_view hf hyT)
  have hnz : rangeHasZero (y.vmin c) (y.vmax c) = false := hnz
  change pruneMod x y s c = some c' at h
  simp only [pruneMod] at h
  rw [if_neg (by rw [hnz]; exact Bool.false_ne_true)] at h
  rw [if_pos ⟨by omega, by omega⟩] at h
  obtain ⟨c1, h1, h2⟩ := bind_some h
  obtain ⟨e1, t1⟩ := Ctx.trySetMin_fixed hw h1
  subst e1
  obtain ⟨_, t2⟩ := Ctx.trySetMax_fixed hw h2
  rw [hbx.1, hby.1] at t1 t2
  have hy0 : y.eval a ≠ 0 := by
    simp only [rangeHasZero, Bool.and_eq_false_iff, decide_eq_false_iff_not] at hnz
    omega
  simp only [holds, Bool.and_eq_true, bne_iff_ne, ne_eq, beq_iff_eq]
  exact ⟨hy0, by omega⟩

/-- `checking` without a store precondition: a fixed divisor equal to 0 makes the propagator fail -/
theorem checking_modulo_all (x y : IView) (s : Nat) (hx : x.WF) (hy : y.WF) :
    Checking (prune (.modulo x y s)) (fun a => holds a (.modulo x y s) = true) (triggers (.modulo x y s)) := by
  intro c c' a hf hm h
  have hby : y.vmin c = y.eval a ∧ y.vmax c = y.eval a :=
    y.bounds_fixed hm (fixedOn_view hf (mod_underIn_y x y s))
  by_cases hnz : rangeHasZero (y.minRaw c.st) (y.maxRaw c.st) = false
  · exact checking_modulo x y s hx hy c c' a hnz hf hm h
  · exfalso
    have h0 : rangeHasZero (y.vmin c) (y.vmax c) = true := by
      have : rangeHasZero (y.minRaw c.st) (y.maxRaw c.st) = true := by simpa using hnz
      exact this
    change pruneMod x y s c = some c' at h
    simp only [pruneMod] at h
    rw [if_pos h0, if_pos (by rw [hby.1, hby.2])] at h
    cases h

/-! ### resp -/

theorem resp_modulo (x y : IView) (s : Nat) :
    Resp (triggers (.modulo x y s)) (prune (.modulo x y s)) := by
  intro c1 c2 hag
  have hxT := mod_underIn_x x y s
  have hyT := mod_underIn_y x y s
  have hsT := mod_s_mem x y s
  show RelO _ (pruneMod x y s c1) (pruneMod x y s c2)
  simp only [pruneMod]
  rw [IView.vmin_agree hxT hag, IView.vmax_agree hxT hag, IView.vmin_agree hyT hag,
    IView.vmax_agree hyT hag, hag s hsT]
  refine RelO.ite (fun _ => RelO.ite (fun _ => RelO.none) (fun _ => RelO.some hag)) (fun _ => ?_)
  refine RelO.ite (fun _ => both_resp _ _ hsT hag) (fun _ => ?_)
  refine RelO.bind (RelO.bind ?_ (fun d1 d2 hd => ?_)) (fun d1 d2 hd => ?_)
  · exact RelO.ite (fun _ => both_resp _ _ hsT hag) (fun _ => RelO.some hag)
  · exact RelO.ite (fun _ => RelO.some hd) (fun _ => both_resp _ _ hsT hd)
  · refine RelO.ite (fun _ => ?_) (fun _ => RelO.some hd)
    refine RelO.ite (fun _ => RelO.some hd) (fun _ => ?_)
    exact RelO.bind ((IView.resp x _ hxT).1 _ _ _ hd) (fun e1 e2 he => (IView.resp x _ hxT).2 _ _ _ he)

theorem contract_modulo (x y : IView) (s : Nat) (hx : x.WF) (hy : y.WF) :
    Contract (prune (.modulo x y s)) (fun a => holds a (.modulo x y s) = true) (triggers (.modulo x y s)) :=
  ⟨sound_modulo x y s hx hy, contracting_modulo x y s, checking_modulo_all x y s hx hy, resp_modulo x y s⟩

/-! ### kernel-checked witnesses of the repaired findings -/


/-- store / assignment over the variables `0` (= x), `1` (= y), `2` (= s) -/
def st3 (dx dy ds : Dom) : Store := fun i => match i with | 0 => dx | 1 => dy | _ => ds
def as3 (vx vy vs : Int) : Asg := fun i => match i with | 0 => vx | 1 => vy | _ => vs

theorem mem3 {dx dy ds : Dom} {vx vy vs : Int} (h0 : vx ∈ dx) (h1 : vy ∈ dy) (h2 : vs ∈ ds) :
    Mem (st3 dx dy ds) (as3 vx vy vs) := by
  intro i
  match i with
  | 0 => exact h0
  | 1 => exact h1
  | _ + 2 => exact h2

/-- negative dividend: `x ∈ {-7,-6}`, `y = 3`, `s = -1`; `-7 % 3 = -1` is a solution in the store and is
kept (witness of the former finding `modulo-negative`: CASE 2 forced `s ≥ 0`; repaired by
`fix: Modulo bounds the remainder by the sign of the dividend`) -/
theorem modulo_negative_kept :
    Mem (st3 [-7, -6] [3] [-1]) (as3 (-7) 3 (-1)) ∧
    holds (as3 (-7) 3 (-1)) (.modulo (.var 0) (.var 1) 2) = true ∧
    (prune (.modulo (.var 0) (.var 1) 2) { st := st3 [-7, -6] [3] [-1] }).isSome = true :=
  ⟨mem3 (by decide) (by decide) (by decide), by decide, by decide⟩

/-- dividend boundary sampling (former finding `modulo-dividend-boundary-sampling`, repaired by
`fix: Modulo takes bounds only from exhaustively enumerated remainders`): `x ∈ {0, 7, 20}` (range
wider than 10), `y ∈ {3,4}`, `s ∈ {0,1,2,3}`; `7 % 4 = 3` is a solution in the store and `s = 3` is
kept (only `x ∈ {0, 20}` would be sampled: the sample is no longer used) -/
theorem modulo_dividend_sampling_kept :
    Mem (st3 [0, 7, 20] [3, 4] [0, 1, 2, 3]) (as3 7 4 3) ∧
    holds (as3 7 4 3) (.modulo (.var 0) (.var 1) 2) = true ∧
    (prune (.modulo (.var 0) (.var 1) 2) { st := st3 [0, 7, 20] [3, 4] [0, 1, 2, 3] }).map
      (fun c' => c'.st 2) = some [0, 1, 2, 3] :=
  ⟨mem3 (by decide) (by decide) (by decide), by decide, by decide⟩

/-- divisor boundary sampling (former finding `modulo-divisor-boundary-sampling`): `x = 12`,
`y ∈ {1, 5, 12}` (range wider than 10), `s = 2`; `12 % 5 = 2` is a solution and the propagator no
longer fails -/
theorem modulo_divisor_sampling_kept :
    Mem (st3 [12] [1, 5, 12] [2]) (as3 12 5 2) ∧
    holds (as3 12 5 2) (.modulo (.var 0) (.var 1) 2) = true ∧
    (prune (.modulo (.var 0) (.var 1) 2) { st := st3 [12] [1, 5, 12] [2] }).isSome = true :=
  ⟨mem3 (by decide) (by decide) (by decide), by decide, by decide⟩

/-- zero divisor: `x = 1`, `y = 0`, `s = 5`, everything fixed; the propagator now fails (witness of
the former finding `zero-in-divisor-range`, repaired by `fix: Div/Modulo fail when the divisor is
fixed to zero`) -/
theorem modulo_zero_divisor_fails :
    prune (.modulo (.var 0) (.var 1) 2) { st := st3 [1] [0] [5] } = none := by decide

end PK
end KModulo
end Selen

import SelenModel.Lemmas.Kinds.Common2
/- Contract proofs for the propagator kinds `count` and `card` (cardinality). -/
namespace Selen
namespace KCountCard
open Selen.PK Selen.Lin Selen.IView Selen.Ctx Selen.Dom Selen.KAbsMinMax.PK Selen.K2
namespace PK

/-! ### counting over a list of positions -/

theorem filter_len_le {l : List Nat} {p q : Nat → Bool} (h : ∀ x ∈ l, p x = true → q x = true) :
    (l.filter p).length ≤ (l.filter q).length := by
  induction l with
  | nil => simp
  | cons x l ih =>
    have ih := ih (fun y hy => h y (List.mem_cons_of_mem _ hy))
    have hx := h x (List.mem_cons_self ..)
    simp only [List.filter_cons]
    cases hp : p x <;> cases hq : q x
    · simpa using ih
    · simp only [Bool.false_eq_true, if_false, if_true, List.length_cons]; omega
    · rw [hp, hq] at hx; exact absurd (hx rfl) (by simp)
    · simpa using ih

theorem filter_len_eq_imp {l : List Nat} {p q : Nat → Bool} (h : ∀ x ∈ l, p x = true → q x = true)
    (he : (l.filter p).length = (l.filter q).length) : ∀ x ∈ l, q x = true → p x = true := by
  induction l with
  | nil => intro x hx; cases hx
  | cons y l ih =>
    have hl := filter_len_le (fun z hz => h z (List.mem_cons_of_mem _ hz))
    have hy := h y (List.mem_cons_self ..)
    have ih := ih (fun z hz => h z (List.mem_cons_of_mem _ hz))
    simp only [List.filter_cons] at he
    intro x hx hqx
    cases hp : p y <;> cases hq : q y
    · rw [hp, hq] at he
      simp only [Bool.false_eq_true, if_false] at he
      rcases List.mem_cons.1 hx with rfl | hx
      · rw [hq] at hqx; cases hqx
      · exact ih he x hx hqx
    · rw [hp, hq] at he
      simp only [Bool.false_eq_true, if_false, if_true, List.length_cons] at he
      omega
    · rw [hp, hq] at hy; exact absurd (hy rfl) (by simp)
    · rw [hp, hq] at he
      simp only [if_true, List.length_cons] at he
      rcases List.mem_cons.1 hx with rfl | hx
      · exact hp
      · exact ih (by omega) x hx hqx

theorem cntFixedTo_le {xs : List Nat} {st : Store} {a : Asg} {t : Int} (hm : Mem st a) :
    cntFixedTo xs st t ≤ ((xs.filter (fun x => a x == t)).length : Nat) := by
  unfold cntFixedTo
  have := filter_len_le (l := xs) (p := fun x => (st x).dmin == (st x).dmax && (st x).dmin == t)
    (q := fun x => a x == t) (fun x _ hp => by
      simp only [Bool.and_eq_true, beq_iff_eq] at hp ⊢
      have := eq_of_bounds_eq hm hp.1; omega)
  omega

theorem le_cntOverlap {xs : List Nat} {st : Store} {a : Asg} {v lo hi : Int} (hm : Mem st a)
    (h1 : lo ≤ v) (h2 : v ≤ hi) :
    (((xs.filter (fun x => a x == v)).length : Nat) : Int) ≤ cntOverlap xs st lo hi := by
  unfold cntOverlap
  have := filter_len_le (l := xs) (p := fun x => a x == v)
    (q := fun x => decide ((st x).dmin ≤ hi) && decide ((st x).dmax ≥ lo)) (fun x _ hp => by
      simp only [Bool.and_eq_true, beq_iff_eq, decide_eq_true_eq] at hp ⊢
      have := hm.bounds x; omega)
  omega

/-- if the number of positions fixed to `t` equals the number of positions with value `t`, every
position with value `t` is fixed -/
theorem fixed_of_cntFixedTo_eq {xs : List Nat} {st : Store} {a : Asg} {t : Int} (hm : Mem st a)
    (he : cntFixedTo xs st t = ((xs.filter (fun x => a x == t)).length : Nat)) :
    ∀ x ∈ xs, a x = t → (st x).dmin = (st x).dmax := by
  unfold cntFixedTo at he
  intro x hx hax
  have := filter_len_eq_imp (l := xs) (p := fun x => (st x).dmin == (st x).dmax && (st x).dmin == t)
    (q := fun x => a x == t) (fun x _ hp => by
      simp only [Bool.and_eq_true, beq_iff_eq] at hp ⊢
      have := eq_of_bounds_eq hm hp.1; omega) (by omega) x hx (by simpa using hax)
  simp only [Bool.and_eq_true, beq_iff_eq] at this
  exact this.1

/-- if the number of candidate positions equals the number of positions with value `v`, every
candidate position has value `v` -/
theorem eq_of_cntOverlap_eq {xs : List Nat} {st : Store} {a : Asg} {v lo hi : Int} (hm : Mem st a)
    (h1 : lo ≤ v) (h2 : v ≤ hi)
    (he : (((xs.filter (fun x => a x == v)).length : Nat) : Int) = cntOverlap xs st lo hi) :
    ∀ x ∈ xs, (st x).dmin ≤ v → v ≤ (st x).dmax → a x = v := by
  unfold cntOverlap at he
  intro x hx hlo hhi
  have := filter_len_eq_imp (l := xs) (p := fun x => a x == v)
    (q := fun x => decide ((st x).dmin ≤ hi) && decide ((st x).dmax ≥ lo)) (fun x _ hp => by
      simp only [Bool.and_eq_true, beq_iff_eq, decide_eq_true_eq] at hp ⊢
      have := hm.bounds x; omega) (by omega) x hx (by
      simp only [Bool.and_eq_true, decide_eq_true_eq]; omega)
  simpa using this

/-- no position has value `v` when the count is zero -/
theorem ne_of_count_zero {xs : List Nat} {a : Asg} {v : Int}
    (he : (xs.filter (fun x => a x == v)).length = 0) : ∀ x ∈ xs, a x ≠ v := by
  intro x hx hax
  have hmem : x ∈ xs.filter (fun x => a x == v) := List.mem_filter.2 ⟨hx, by simpa using hax⟩
  rw [List.length_eq_zero_iff.1 he] at hmem
  cases hmem

/-- with every position fixed both counters are the exact count -/
theorem cnt_fixed {xs : List Nat} {st : Store} {a : Asg} (v : Int) (hm : Mem st a)
    (hf : ∀ x ∈ xs, ∃ w, st x = [w]) :
    cntFixedTo xs st v = ((xs.filter (fun x => a x == v)).length : Nat) ∧
    cntOverlap xs st v v = ((xs.filter (fun x => a x == v)).length : Nat) := by
  unfold cntFixedTo cntOverlap
  rw [filter_congr_mem (l := xs) (p := fun x => (st x).dmin == (st x).dmax && (st x).dmin == v)
        (q := fun x => a x == v) (fun x hx => by
          have := fixed_val hm (hf x hx)
          rw [this.1, this.2]; simp),
      filter_congr_mem (l := xs) (p := fun x => decide ((st x).dmin ≤ v) && decide ((st x).dmax ≥ v))
        (q := fun x => a x == v) (fun x hx => by
          have := fixed_val hm (hf x hx)
          rw [this.1, this.2]
          by_cases h : a x = v
          · simp [h]
          · have hb : (a x == v) = false := by simpa using h
            rw [hb]
            simp only [Bool.and_eq_false_iff, decide_eq_false_iff_not]; omega)]
  exact ⟨rfl, rfl⟩

theorem cntFixedTo_agree {xs : List Nat} {T : List Nat} {c1 c2 : Ctx} (hx : ∀ x ∈ xs, x ∈ T)
    (h : Agree T c1 c2) (v : Int) : cntFixedTo xs c1.st v = cntFixedTo xs c2.st v := by
  unfold cntFixedTo
  rw [filter_congr_mem (l := xs) (p := fun x => (c1.st x).dmin == (c1.st x).dmax && (c1.st x).dmin == v)
        (q := fun x => (c2.st x).dmin == (c2.st x).dmax && (c2.st x).dmin == v)
        (fun x hxx => by rw [h x (hx x hxx)])]

theorem cntOverlap_agree {xs : List Nat} {T : List Nat} {c1 c2 : Ctx} (hx : ∀ x ∈ xs, x ∈ T)
    (h : Agree T c1 c2) (lo hi : Int) : cntOverlap xs c1.st lo hi = cntOverlap xs c2.st lo hi := by
  unfold cntOverlap
  rw [filter_congr_mem (l := xs) (p := fun x => decide ((c1.st x).dmin ≤ hi) && decide ((c1.st x).dmax ≥ lo))
        (q := fun x => decide ((c2.st x).dmin ≤ hi) && decide ((c2.st x).dmax ≥ lo))
        (fun x hxx => by rw [h x (hx x hxx)])]

/-! ### `forM'` with an invariant; the "bounds only tighten" invariant -/

theorem forM'_keeps_inv {α : Type} {a : Asg} {l : List α} {f : α → Ctx → Option Ctx} (I : Ctx → Prop)
    (hf : ∀ x ∈ l, ∀ d, I d → Mem d.st a → Keeps a (f x d))
    (hg : ∀ x ∈ l, ∀ d d', I d → Mem d.st a → f x d = some d' → I d')
    {c : Ctx} (hI : I c) (hm : Mem c.st a) : Keeps a (forM' l c f) := by
  induction l generalizing c with
  | nil => exact Keeps.some hm
  | cons x l ih =>
    rw [forM'_cons]
    obtain ⟨c1, e1, m1⟩ := hf x (List.mem_cons_self ..) c hI hm
    rw [e1]
    exact ih (fun y hy => hf y (List.mem_cons_of_mem _ hy)) (fun y hy => hg y (List.mem_cons_of_mem _ hy))
      (hg x (List.mem_cons_self ..) c c1 hI hm e1) m1

/-- the bounds of `d` lie inside the bounds of `c0` -/
def Shr (c0 d : Ctx) : Prop := ∀ i, (c0.st i).dmin ≤ (d.st i).dmin ∧ (d.st i).dmax ≤ (c0.st i).dmax

theorem Shr.refl (c : Ctx) : Shr c c := fun _ => ⟨Int.le_refl _, Int.le_refl _⟩

theorem Shr.step {T : List Nat} {c0 d d' : Ctx} (h : Shr c0 d) (g : Good T d d') (hne : NonEmpty d.st) :
    Shr c0 d' := by
  intro i
  have := h i
  have := good_bounds g hne i
  omega

/-! ### the two loop bodies -/

theorem forceTo_good {T : List Nat} {x : Nat} {t : Int} {d d' : Ctx} (hx : x ∈ T)
    (h : forceTo x t d = some d') : Good T d d' := by
  simp only [forceTo] at h
  split at h
  · obtain ⟨d1, h1, h2⟩ := bind_some h
    exact (Ctx.trySetMin_good hx h1).trans (Ctx.trySetMax_good hx h2)
  · cases h; exact Good.refl _ _

theorem dropAtBound_good {T : List Nat} {x : Nat} {t : Int} {d d' : Ctx} (hx : x ∈ T)
    (h : dropAtBound x t d = some d') : Good T d d' := by
  simp only [dropAtBound] at h
  split at h
  · split at h
    · exact Ctx.trySetMin_good hx h
    · split at h
      · exact Ctx.trySetMax_good hx h
      · cases h; exact Good.refl _ _
  · cases h; exact Good.refl _ _

theorem forceTo_resp {T : List Nat} {x : Nat} (t : Int) {d1 d2 : Ctx} (hx : x ∈ T)
    (h : Agree T d1 d2) : RelO T (forceTo x t d1) (forceTo x t d2) := by
  simp only [forceTo]
  rw [h x hx]
  exact RelO.ite (fun _ => RelO.bind (Ctx.trySetMin_resp _ hx h) (fun e1 e2 he => Ctx.trySetMax_resp _ hx he))
    (fun _ => RelO.some h)

theorem dropAtBound_resp {T : List Nat} {x : Nat} (t : Int) {d1 d2 : Ctx} (hx : x ∈ T)
    (h : Agree T d1 d2) : RelO T (dropAtBound x t d1) (dropAtBound x t d2) := by
  simp only [dropAtBound]
  rw [h x hx]
  refine RelO.ite (fun _ => ?_) (fun _ => RelO.some h)
  refine RelO.ite (fun _ => Ctx.trySetMin_resp _ hx h) (fun _ => ?_)
  exact RelO.ite (fun _ => Ctx.trySetMax_resp _ hx h) (fun _ => RelO.some h)

theorem forceTo_keeps {a : Asg} {x : Nat} {t : Int} {d : Ctx} (hm : Mem d.st a)
    (h : (d.st x).dmin ≤ t → t ≤ (d.st x).dmax → a x = t) : Keeps a (forceTo x t d) := by
  simp only [forceTo]
  refine Keeps.ite (fun k => ?_) (fun _ => Keeps.some hm)
  have e := h k.2.1 k.2.2
  exact Keeps.bind (Ctx.trySetMin_keeps hm (by omega)) (fun d1 m1 => Ctx.trySetMax_keeps m1 (by omega))

theorem dropAtBound_keeps {a : Asg} {x : Nat} {t : Int} {d : Ctx} (hm : Mem d.st a)
    (h : a x = t → (d.st x).dmin = (d.st x).dmax) : Keeps a (dropAtBound x t d) := by
  simp only [dropAtBound]
  refine Keeps.ite (fun k => ?_) (fun _ => Keeps.some hm)
  have hne : a x ≠ t := fun e => k.1 (h e)
  have hb := hm.bounds x
  refine Keeps.ite (fun k1 => Ctx.trySetMin_keeps hm (by omega)) (fun _ => ?_)
  exact Keeps.ite (fun k2 => Ctx.trySetMax_keeps hm (by omega)) (fun _ => Keeps.some hm)

theorem forceLoop_keeps {a : Asg} {xs : List Nat} {t : Int} {c0 c : Ctx}
    (hF : ∀ x ∈ xs, (c0.st x).dmin ≤ t → t ≤ (c0.st x).dmax → a x = t) (hI : Shr c0 c)
    (hm : Mem c.st a) : Keeps a (forM' xs c (fun x c => forceTo x t c)) := by
  refine forM'_keeps_inv (Shr c0) ?_ ?_ hI hm
  · intro x hx d hd md
    have := hd x
    exact forceTo_keeps md (fun h1 h2 => hF x hx (by omega) (by omega))
  · intro x hx d d' hd md h
    exact hd.step (forceTo_good (T := [x]) (List.mem_singleton.2 rfl) h) md.nonEmpty

theorem dropLoop_keeps {a : Asg} {xs : List Nat} {t : Int} {c0 c : Ctx}
    (hD : ∀ x ∈ xs, a x = t → (c0.st x).dmin = (c0.st x).dmax) (hI : Shr c0 c)
    (hm : Mem c.st a) : Keeps a (forM' xs c (fun x c => dropAtBound x t c)) := by
  refine forM'_keeps_inv (Shr c0) ?_ ?_ hI hm
  · intro x hx d hd md
    have := hd x
    have hb := md.bounds x
    exact dropAtBound_keeps md (fun e => by have := hD x hx e; omega)
  · intro x hx d d' hd md h
    exact hd.step (dropAtBound_good (T := [x]) (List.mem_singleton.2 rfl) h) md.nonEmpty

theorem forceLoop_good {T : List Nat} {xs : List Nat} {t : Int} {c c' : Ctx} (hx : ∀ x ∈ xs, x ∈ T)
    (h : forM' xs c (fun x c => forceTo x t c) = some c') : Good T c c' :=
  forM'_good (fun x hxx _ _ hd => forceTo_good (hx x hxx) hd) h

theorem dropLoop_good {T : List Nat} {xs : List Nat} {t : Int} {c c' : Ctx} (hx : ∀ x ∈ xs, x ∈ T)
    (h : forM' xs c (fun x c => dropAtBound x t c) = some c') : Good T c c' :=
  forM'_good (fun x hxx _ _ hd => dropAtBound_good (hx x hxx) hd) h

theorem forceLoop_resp {T : List Nat} {xs : List Nat} (t : Int) {c1 c2 : Ctx} (hx : ∀ x ∈ xs, x ∈ T)
    (h : Agree T c1 c2) :
    RelO T (forM' xs c1 (fun x c => forceTo x t c)) (forM' xs c2 (fun x c => forceTo x t c)) :=
  forM'_resp (f1 := fun x c => forceTo x t c) (f2 := fun x c => forceTo x t c)
    (fun x hxx _ _ hd => forceTo_resp t (hx x hxx) hd) h

theorem dropLoop_resp {T : List Nat} {xs : List Nat} (t : Int) {c1 c2 : Ctx} (hx : ∀ x ∈ xs, x ∈ T)
    (h : Agree T c1 c2) :
    RelO T (forM' xs c1 (fun x c => dropAtBound x t c)) (forM' xs c2 (fun x c => dropAtBound x t c)) :=
  forM'_resp (f1 := fun x c => dropAtBound x t c) (f2 := fun x c => dropAtBound x t c)
    (fun x hxx _ _ hd => dropAtBound_resp t (hx x hxx) hd) h

/-! ### card -/

theorem sound_card (ty : CardTy) (xs : List Nat) (tv n : Int) :
    Sound (prune (.card ty xs tv n)) (fun a => holds a (.card ty xs tv n) = true) := by
  intro c a hm hs
  show Keeps a (pruneCard ty xs tv n c)
  have h1 := cntFixedTo_le (xs := xs) (t := tv) hm
  have h2 := le_cntOverlap (xs := xs) (v := tv) (lo := tv) (hi := tv) hm (Int.le_refl _) (Int.le_refl _)
  cases ty with
  | atLeast =>
    simp only [holds, decide_eq_true_eq] at hs
    simp only [pruneCard]
    refine Keeps.ite (fun _ => Keeps.some hm) (fun k1 => ?_)
    refine Keeps.ite (fun k2 => by omega) (fun k2 => ?_)
    refine Keeps.ite (fun k3 => ?_) (fun _ => Keeps.some hm)
    exact forceLoop_keeps (eq_of_cntOverlap_eq hm (Int.le_refl _) (Int.le_refl _) (by omega)) (Shr.refl c) hm
  | atMost =>
    simp only [holds, decide_eq_true_eq] at hs
    simp only [pruneCard]
    refine Keeps.ite (fun k1 => by omega) (fun k1 => ?_)
    refine Keeps.ite (fun k2 => ?_) (fun _ => Keeps.some hm)
    exact dropLoop_keeps (fixed_of_cntFixedTo_eq hm (by omega)) (Shr.refl c) hm
  | exactly =>
    simp only [holds, beq_iff_eq] at hs
    simp only [pruneCard]
    refine Keeps.ite (fun k1 => by omega) (fun k1 => ?_)
    refine Keeps.ite (fun k2 => by omega) (fun k2 => ?_)
    refine Keeps.ite (fun k3 => ?_) (fun _ => ?_)
    · exact forceLoop_keeps (eq_of_cntOverlap_eq hm (Int.le_refl _) (Int.le_refl _) (by omega)) (Shr.refl c) hm
    · refine Keeps.ite (fun k4 => ?_) (fun _ => Keeps.some hm)
      exact dropLoop_keeps (fixed_of_cntFixedTo_eq hm (by omega)) (Shr.refl c) hm

theorem contracting_card (ty : CardTy) (xs : List Nat) (tv n : Int) :
    Contracting (prune (.card ty xs tv n)) (triggers (.card ty xs tv n)) := by
  intro c c' h
  show Good xs c c'
  change pruneCard ty xs tv n c = some c' at h
  have hx : ∀ x ∈ xs, x ∈ xs := fun _ h => h
  cases ty with
  | atLeast =>
    simp only [pruneCard] at h
    split at h
    · cases h; exact Good.refl _ _
    · split at h
      · cases h
      · split at h
        · exact forceLoop_good hx h
        · cases h; exact Good.refl _ _
  | atMost =>
    simp only [pruneCard] at h
    split at h
    · cases h
    · split at h
      · exact dropLoop_good hx h
      · cases h; exact Good.refl _ _
  | exactly =>
    simp only [pruneCard] at h
    split at h
    · cases h
    · split at h
      · cases h
      · split at h
        · exact forceLoop_good hx h
        · split at h
          · exact dropLoop_good hx h
          · cases h; exact Good.refl _ _

theorem checking_card (ty : CardTy) (xs : List Nat) (tv n : Int) :
    Checking (prune (.card ty xs tv n)) (fun a => holds a (.card ty xs tv n) = true)
      (triggers (.card ty xs tv n)) := by
  intro c c' a hf hm h
  change pruneCard ty xs tv n c = some c' at h
  have hf : ∀ x ∈ xs, ∃ w, c.st x = [w] := hf
  obtain ⟨e1, e2⟩ := cnt_fixed tv hm hf
  cases ty with
  | atLeast =>
    simp only [holds, decide_eq_true_eq]
    simp only [pruneCard] at h
    split at h
    · omega
    · split at h
      · cases h
      · omega
  | atMost =>
    simp only [holds, decide_eq_true_eq]
    simp only [pruneCard] at h
    split at h
    · cases h
    · omega
  | exactly =>
    simp only [holds, beq_iff_eq]
    simp only [pruneCard] at h
    split at h
    · cases h
    · split at h
      · cases h
      · omega

theorem resp_card (ty : CardTy) (xs : List Nat) (tv n : Int) :
    Resp (triggers (.card ty xs tv n)) (prune (.card ty xs tv n)) := by
  intro c1 c2 hag
  show RelO xs (pruneCard ty xs tv n c1) (pruneCard ty xs tv n c2)
  have hag : Agree xs c1 c2 := hag
  have hx : ∀ x ∈ xs, x ∈ xs := fun _ h => h
  cases ty with
  | atLeast =>
    simp only [pruneCard]
    rw [cntFixedTo_agree hx hag, cntOverlap_agree hx hag]
    refine RelO.ite (fun _ => RelO.some hag) (fun _ => ?_)
    refine RelO.ite (fun _ => RelO.none) (fun _ => ?_)
    exact RelO.ite (fun _ => forceLoop_resp tv hx hag) (fun _ => RelO.some hag)
  | atMost =>
    simp only [pruneCard]
    rw [cntFixedTo_agree hx hag]
    refine RelO.ite (fun _ => RelO.none) (fun _ => ?_)
    exact RelO.ite (fun _ => dropLoop_resp tv hx hag) (fun _ => RelO.some hag)
  | exactly =>
    simp only [pruneCard]
    rw [cntFixedTo_agree hx hag, cntOverlap_agree hx hag]
    refine RelO.ite (fun _ => RelO.none) (fun _ => ?_)
    refine RelO.ite (fun _ => RelO.none) (fun _ => ?_)
    refine RelO.ite (fun _ => forceLoop_resp tv hx hag) (fun _ => ?_)
    exact RelO.ite (fun _ => dropLoop_resp tv hx hag) (fun _ => RelO.some hag)

theorem contract_card (ty : CardTy) (xs : List Nat) (tv n : Int) :
    Contract (prune (.card ty xs tv n)) (fun a => holds a (.card ty xs tv n) = true)
      (triggers (.card ty xs tv n)) :=
  ⟨sound_card ty xs tv n, contracting_card ty xs tv n, checking_card ty xs tv n, resp_card ty xs tv n⟩

/-! ### count -/

theorem count_xs_mem (xs : List Nat) (t : IView) (cv : Nat) : ∀ x ∈ xs, x ∈ triggers (.count xs t cv) :=
  fun _ h => List.mem_append.2 (Or.inl (List.mem_append.2 (Or.inl h)))

theorem count_underIn (xs : List Nat) (t : IView) (cv : Nat) : t.UnderIn (triggers (.count xs t cv)) :=
  underIn_of _ _ (fun _ h => List.mem_append.2 (Or.inl (List.mem_append.2 (Or.inr h))))

theorem count_cv_mem (xs : List Nat) (t : IView) (cv : Nat) : cv ∈ triggers (.count xs t cv) :=
  List.mem_append.2 (Or.inr (List.mem_singleton.2 rfl))

theorem sound_count (xs : List Nat) (t : IView) (cv : Nat) (ht : t.WF) :
    Sound (prune (.count xs t cv)) (fun a => holds a (.count xs t cv) = true) := by
  intro c a hm hs
  simp only [holds, beq_iff_eq] at hs
  show Keeps a (pruneCount xs t cv c)
  have hb : t.vmin c ≤ t.eval a ∧ t.eval a ≤ t.vmax c := t.bounds ht hm
  have h1 := cntFixedTo_le (xs := xs) (t := t.eval a) hm
  have h2 := le_cntOverlap (xs := xs) (v := t.eval a) hm hb.1 hb.2
  simp only [pruneCount]
  generalize hdef : (if t.vmin c ≠ t.vmax c then (0 : Int) else cntFixedTo xs c.st (t.vmin c)) = defn
  generalize hposs : cntOverlap xs c.st (t.vmin c) (t.vmax c) = poss
  have hd : defn ≤ a cv := by
    rw [← hdef]
    split
    · omega
    · have e : t.vmin c = t.eval a := by omega
      rw [e]; omega
  obtain ⟨c1, e1, m1⟩ := Ctx.trySetMin_keeps (i := cv) (v := defn) hm hd
  obtain ⟨c2, e2, m2⟩ := Ctx.trySetMax_keeps (i := cv) (v := poss) m1 (by omega)
  have hI : Shr c c2 :=
    ((Shr.refl c).step (Ctx.trySetMin_good (T := [cv]) (List.mem_singleton.2 rfl) e1) hm.nonEmpty).step
      (Ctx.trySetMax_good (T := [cv]) (List.mem_singleton.2 rfl) e2) m1.nonEmpty
  rw [e1, PK.bind_some_eq, e2, PK.bind_some_eq]
  have hb2 : t.vmin c2 ≤ t.eval a ∧ t.eval a ≤ t.vmax c2 := t.bounds ht m2
  have hc := m2.bounds cv
  refine Keeps.ite (fun k => ?_) (fun _ => Keeps.some m2)
  have etgt : t.vmin c2 = t.eval a := by omega
  rw [etgt]
  refine Keeps.ite (fun k1 => ?_) (fun _ => Keeps.ite (fun k2 => ?_) (fun _ => Keeps.some m2))
  · refine dropLoop_keeps (c0 := c) ?_ hI m2
    by_cases hne : t.vmin c ≠ t.vmax c
    · rw [if_pos hne] at hdef
      have hz : (xs.filter (fun x => a x == t.eval a)).length = 0 := by omega
      intro x hx e
      exact absurd e (ne_of_count_zero hz x hx)
    · rw [if_neg hne] at hdef
      have e : t.vmin c = t.eval a := by omega
      rw [e] at hdef
      exact fixed_of_cntFixedTo_eq hm (by omega)
  · exact forceLoop_keeps (eq_of_cntOverlap_eq hm hb.1 hb.2 (by omega)) hI m2

theorem contracting_count (xs : List Nat) (t : IView) (cv : Nat) :
    Contracting (prune (.count xs t cv)) (triggers (.count xs t cv)) := by
  intro c c' h
  have hx := count_xs_mem xs t cv
  have hcv := count_cv_mem xs t cv
  change pruneCount xs t cv c = some c' at h
  simp only [pruneCount] at h
  generalize (if t.vmin c ≠ t.vmax c then (0 : Int) else cntFixedTo xs c.st (t.vmin c)) = defn at h
  obtain ⟨c2, h12, h⟩ := bind_some h
  obtain ⟨c1, h1, h2⟩ := bind_some h12
  refine ((Ctx.trySetMin_good hcv h1).trans (Ctx.trySetMax_good hcv h2)).trans ?_
  split at h
  · split at h
    · exact dropLoop_good hx h
    · split at h
      · exact forceLoop_good hx h
      · cases h; exact Good.refl _ _
  · cases h; exact Good.refl _ _

theorem checking_count (xs : List Nat) (t : IView) (cv : Nat) :
    Checking (prune (.count xs t cv)) (fun a => holds a (.count xs t cv) = true)
      (triggers (.count xs t cv)) := by
  intro c c' a hf hm h
  have hx := count_xs_mem xs t cv
  have hT := count_underIn xs t cv
  have hcv := count_cv_mem xs t cv
  obtain ⟨w, hw⟩ := hf cv hcv
  have e : a cv = w := fixed_eq hm hw
  have hb : t.vmin c = t.eval a ∧ t.vmax c = t.eval a := t.bounds_fixed hm (fixedOn_view hf hT)
  obtain ⟨e1, e2⟩ := cnt_fixed (xs := xs) (t.eval a) hm (fun x hxx => hf x (hx x hxx))
  change pruneCount xs t cv c = some c' at h
  simp only [pruneCount] at h
  obtain ⟨c2, h12, _⟩ := bind_some h
  obtain ⟨c1, h1, h2⟩ := bind_some h12
  obtain ⟨ec, t1⟩ := Ctx.trySetMin_fixed hw h1
  subst ec
  obtain ⟨_, t2⟩ := Ctx.trySetMax_fixed hw h2
  rw [hb.1, hb.2] at t1 t2
  rw [if_neg (fun hh => hh rfl)] at t1
  simp only [holds, beq_iff_eq]
  omega

theorem resp_count (xs : List Nat) (t : IView) (cv : Nat) :
    Resp (triggers (.count xs t cv)) (prune (.count xs t cv)) := by
  intro c1 c2 hag
  have hx := count_xs_mem xs t cv
  have hT := count_underIn xs t cv
  have hcv := count_cv_mem xs t cv
  show RelO _ (pruneCount xs t cv c1) (pruneCount xs t cv c2)
  simp only [pruneCount]
  rw [IView.vmin_agree hT hag, IView.vmax_agree hT hag, cntFixedTo_agree hx hag, cntOverlap_agree hx hag]
  refine RelO.bind (RelO.bind (Ctx.trySetMin_resp _ hcv hag) (fun d1 d2 hd => Ctx.trySetMax_resp _ hcv hd))
    (fun d1 d2 hd => ?_)
  rw [hd cv hcv, IView.vmin_agree hT hd, IView.vmax_agree hT hd]
  refine RelO.ite (fun _ => ?_) (fun _ => RelO.some hd)
  refine RelO.ite (fun _ => dropLoop_resp _ hx hd) (fun _ => ?_)
  exact RelO.ite (fun _ => forceLoop_resp _ hx hd) (fun _ => RelO.some hd)

theorem contract_count (xs : List Nat) (t : IView) (cv : Nat) (ht : t.WF) :
    Contract (prune (.count xs t cv)) (fun a => holds a (.count xs t cv) = true)
      (triggers (.count xs t cv)) :=
  ⟨sound_count xs t cv ht, contracting_count xs t cv, checking_count xs t cv, resp_count xs t cv⟩

end PK
end KCountCard
end Selen

import SelenModel.Lemmas.Kinds.Basic
/-
Contract proofs for the propagator kinds `abs`, `min`, `max`.
-/
namespace Selen
namespace KAbsMinMax
open Selen.PK Selen.Lin Selen.IView Selen.Ctx Selen.Dom
namespace PK

/-! ### chain helpers -/

/-- a step that succeeds and keeps the solution `a` -/
def Keeps (a : Asg) (o : Option Ctx) : Prop := ∃ c', o = some c' ∧ Mem c'.st a

theorem Keeps.some {a : Asg} {c : Ctx} (h : Mem c.st a) : Keeps a (some c) := ⟨c, rfl, h⟩

theorem Keeps.bind {a : Asg} {o : Option Ctx} {f : Ctx → Option Ctx}
    (h : Keeps a o) (hf : ∀ c1, Mem c1.st a → Keeps a (f c1)) : Keeps a (PK.bind o f) := by
  obtain ⟨c1, rfl, m1⟩ := h
  exact hf c1 m1

theorem RelO.ite {T : List Nat} {p : Prop} [Decidable p] {a1 b1 a2 b2 : Option Ctx}
    (ha : p → RelO T a1 a2) (hb : ¬p → RelO T b1 b2) :
    RelO T (if p then a1 else b1) (if p then a2 else b2) := by
  by_cases h : p
  · simp only [if_pos h]; exact ha h
  · simp only [if_neg h]; exact hb h

theorem fixed_val {st : Store} {a : Asg} (hm : Mem st a) {i : Nat} (h : ∃ w, st i = [w]) :
    (st i).dmin = a i ∧ (st i).dmax = a i := by
  obtain ⟨w, hw⟩ := h
  have e : a i = w := by have := hm i; rw [hw] at this; simpa using this
  rw [(fixed_bounds hw).1, (fixed_bounds hw).2, e]; exact ⟨rfl, rfl⟩

/-! ### abs -/

theorem sound_abs (x : IView) (s : Nat) (hx : x.WF) :
    Sound (prune (.abs x s)) (fun a => holds a (.abs x s) = true) := by
  intro c a hm hs
  have hs : a s = ((x.eval a).natAbs : Int) := by simpa [holds] using hs
  have hb : x.vmin c ≤ x.eval a ∧ x.eval a ≤ x.vmax c := x.bounds hx hm
  show Keeps a (pruneAbs x s c)
  simp only [pruneAbs]
  refine Keeps.bind (Keeps.bind (Ctx.trySetMin_keeps hm (by omega)) (fun c1 m1 => ?_)) (fun c3 m3 => ?_)
  · refine Keeps.bind (Ctx.trySetMin_keeps m1 ?_) (fun c2 m2 => Ctx.trySetMax_keeps m2 ?_)
    · omega
    · omega
  · have hb3 := m3.bounds s
    refine Keeps.bind (Keeps.bind (IView.keeps_min hx m3 (by omega))
      (fun c4 m4 => IView.keeps_max hx m4 (by omega))) (fun c5 m5 => ?_)
    have hb5 : x.vmin c5 ≤ x.eval a ∧ x.eval a ≤ x.vmax c5 := x.bounds hx m5
    by_cases h1 : (c3.st s).dmin = (c3.st s).dmax ∧ (c3.st s).dmin > 0
    · rw [if_pos h1]
      by_cases h2 : x.vmin c5 ≥ 0
      · rw [if_pos h2]
        exact Keeps.bind (IView.keeps_min hx m5 (by omega)) (fun c6 m6 => IView.keeps_max hx m6 (by omega))
      · rw [if_neg h2]
        by_cases h3 : x.vmax c5 ≤ 0
        · rw [if_pos h3]
          exact Keeps.bind (IView.keeps_min hx m5 (by omega)) (fun c6 m6 => IView.keeps_max hx m6 (by omega))
        · rw [if_neg h3]; exact Keeps.some m5
    · rw [if_neg h1]; exact Keeps.some m5

theorem abs_underIn (x : IView) (s : Nat) : x.UnderIn (triggers (.abs x s)) :=
  underIn_of _ _ (fun _ h => List.mem_append.2 (Or.inr h))

theorem abs_s_mem (x : IView) (s : Nat) : s ∈ triggers (.abs x s) :=
  List.mem_append.2 (Or.inl (List.mem_singleton.2 rfl))

theorem contracting_abs (x : IView) (s : Nat) :
    Contracting (prune (.abs x s)) (triggers (.abs x s)) := by
  intro c c' h
  have hxT := abs_underIn x s
  have hsT := abs_s_mem x s
  change pruneAbs x s c = some c' at h
  simp only [pruneAbs] at h
  obtain ⟨c3, h13, h⟩ := bind_some h
  obtain ⟨c1, h1, h23⟩ := bind_some h13
  obtain ⟨c2, h2, h3⟩ := bind_some h23
  obtain ⟨c5, h45, h⟩ := bind_some h
  obtain ⟨c4, h4, h5⟩ := bind_some h45
  have g5 : Good (triggers (.abs x s)) c c5 :=
    ((((Ctx.trySetMin_good hsT h1).trans (Ctx.trySetMin_good hsT h2)).trans
      (Ctx.trySetMax_good hsT h3)).trans (IView.good_min hxT h4)).trans (IView.good_max hxT h5)
  refine g5.trans ?_
  by_cases k1 : (c3.st s).dmin = (c3.st s).dmax ∧ (c3.st s).dmin > 0
  · rw [if_pos k1] at h
    by_cases k2 : x.vmin c5 ≥ 0
    · rw [if_pos k2] at h
      obtain ⟨c6, h6, h7⟩ := bind_some h
      exact (IView.good_min hxT h6).trans (IView.good_max hxT h7)
    · rw [if_neg k2] at h
      by_cases k3 : x.vmax c5 ≤ 0
      · rw [if_pos k3] at h
        obtain ⟨c6, h6, h7⟩ := bind_some h
        exact (IView.good_min hxT h6).trans (IView.good_max hxT h7)
      · rw [if_neg k3] at h; cases h; exact Good.refl _ _
  · rw [if_neg k1] at h; cases h; exact Good.refl _ _

theorem checking_abs (x : IView) (s : Nat) :
    Checking (prune (.abs x s)) (fun a => holds a (.abs x s) = true) (triggers (.abs x s)) := by
  intro c c' a hf hm h
  have hxT := abs_underIn x s
  obtain ⟨w, hw⟩ := hf s (abs_s_mem x s)
  have e : a s = w := by have := hm s; rw [hw] at this; simpa using this
  have hb : x.vmin c = x.eval a ∧ x.vmax c = x.eval a := x.bounds_fixed hm (fixedOn_view hf hxT)
  change pruneAbs x s c = some c' at h
  simp only [pruneAbs] at h
  obtain ⟨c3, h13, _⟩ := bind_some h
  obtain ⟨c1, h1, h23⟩ := bind_some h13
  obtain ⟨c2, h2, h3⟩ := bind_some h23
  obtain ⟨e1, _⟩ := Ctx.trySetMin_fixed hw h1
  subst e1
  obtain ⟨e2, t2⟩ := Ctx.trySetMin_fixed hw h2
  subst e2
  obtain ⟨_, t3⟩ := Ctx.trySetMax_fixed hw h3
  simp only [holds, beq_iff_eq]
  rw [hb.1, hb.2] at t2 t3
  omega

theorem resp_abs (x : IView) (s : Nat) :
    Resp (triggers (.abs x s)) (prune (.abs x s)) := by
  intro c1 c2 hag
  have hxT := abs_underIn x s
  have hsT := abs_s_mem x s
  show RelO _ (pruneAbs x s c1) (pruneAbs x s c2)
  simp only [pruneAbs]
  rw [IView.vmin_agree hxT hag, IView.vmax_agree hxT hag]
  refine RelO.bind (RelO.bind (Ctx.trySetMin_resp _ hsT hag) (fun d1 d2 hd =>
    RelO.bind (Ctx.trySetMin_resp _ hsT hd) (fun d1 d2 hd => Ctx.trySetMax_resp _ hsT hd)))
    (fun d1 d2 hd => ?_)
  rw [hd s hsT]
  refine RelO.bind (RelO.bind ((IView.resp x _ hxT).1 _ _ _ hd)
    (fun e1 e2 he => (IView.resp x _ hxT).2 _ _ _ he)) (fun e1 e2 he => ?_)
  rw [IView.vmin_agree hxT he, IView.vmax_agree hxT he]
  refine RelO.ite (fun _ => ?_) (fun _ => RelO.some he)
  refine RelO.ite (fun _ => ?_) (fun _ => ?_)
  · exact RelO.bind ((IView.resp x _ hxT).1 _ _ _ he) (fun f1 f2 hf => (IView.resp x _ hxT).2 _ _ _ hf)
  · refine RelO.ite (fun _ => ?_) (fun _ => RelO.some he)
    exact RelO.bind ((IView.resp x _ hxT).1 _ _ _ he) (fun f1 f2 hf => (IView.resp x _ hxT).2 _ _ _ hf)

theorem contract_abs (x : IView) (s : Nat) (hx : x.WF) :
    Contract (prune (.abs x s)) (fun a => holds a (.abs x s) = true) (triggers (.abs x s)) :=
  ⟨sound_abs x s hx, contracting_abs x s, checking_abs x s, resp_abs x s⟩

/-! ### `forM'` induction principles -/

theorem forM'_cons {α : Type} (x : α) (l : List α) (c : Ctx) (f : α → Ctx → Option Ctx) :
    forM' (x :: l) c f = PK.bind (f x c) (fun c' => forM' l c' f) := by
  unfold forM'
  simp only [List.foldl_cons]
  cases f x c with
  | some c1 => rfl
  | none =>
    simp only [PK.bind]
    induction l with
    | nil => rfl
    | cons y l ih => simp only [List.foldl_cons]; exact ih

theorem forM'_keeps {α : Type} {a : Asg} {l : List α} {f : α → Ctx → Option Ctx}
    (hf : ∀ x ∈ l, ∀ d, Mem d.st a → Keeps a (f x d)) {c : Ctx} (hm : Mem c.st a) :
    Keeps a (forM' l c f) := by
  induction l generalizing c with
  | nil => exact Keeps.some hm
  | cons x l ih =>
    rw [forM'_cons]
    exact Keeps.bind (hf x (List.mem_cons_self ..) c hm)
      (fun c1 m1 => ih (fun y hy => hf y (List.mem_cons_of_mem _ hy)) m1)

theorem forM'_good {α : Type} {T : List Nat} {l : List α} {f : α → Ctx → Option Ctx}
    (hf : ∀ x ∈ l, ∀ d d', f x d = some d' → Good T d d') {c c' : Ctx}
    (h : forM' l c f = some c') : Good T c c' := by
  induction l generalizing c with
  | nil => cases h; exact Good.refl _ _
  | cons x l ih =>
    rw [forM'_cons] at h
    obtain ⟨c1, h1, h2⟩ := bind_some h
    exact (hf x (List.mem_cons_self ..) c c1 h1).trans
      (ih (fun y hy => hf y (List.mem_cons_of_mem _ hy)) h2)

theorem forM'_resp {α : Type} {T : List Nat} {l : List α} {f1 f2 : α → Ctx → Option Ctx}
    (hf : ∀ x ∈ l, ∀ d1 d2, Agree T d1 d2 → RelO T (f1 x d1) (f2 x d2)) {c1 c2 : Ctx}
    (h : Agree T c1 c2) : RelO T (forM' l c1 f1) (forM' l c2 f2) := by
  induction l generalizing c1 c2 with
  | nil => exact RelO.some h
  | cons x l ih =>
    rw [forM'_cons, forM'_cons]
    exact RelO.bind (hf x (List.mem_cons_self ..) c1 c2 h)
      (fun d1 d2 hd => ih (fun y hy => hf y (List.mem_cons_of_mem _ hy)) hd)

/-! ### folds of `min`/`max` over a list of variables -/

theorem foldl_minf_cons (f : Nat → Int) (x0 : Nat) (rest : List Nat) :
    (∀ x ∈ x0 :: rest, rest.foldl (fun acc x => if f x < acc then f x else acc) (f x0) ≤ f x) ∧
    ∃ x ∈ x0 :: rest, rest.foldl (fun acc x => if f x < acc then f x else acc) (f x0) = f x := by
  have h := foldl_min_le (rest.map f) (f x0)
  rw [List.foldl_map] at h
  obtain ⟨h1, h2, h3⟩ := h
  constructor
  · intro x hx
    rcases List.mem_cons.1 hx with rfl | hx
    · exact h1
    · exact h2 _ (List.mem_map_of_mem hx)
  · rcases h3 with h3 | h3
    · exact ⟨x0, List.mem_cons_self .., h3⟩
    · obtain ⟨x, hx, e⟩ := List.mem_map.1 h3
      exact ⟨x, List.mem_cons_of_mem _ hx, e.symm⟩

theorem foldl_maxf_cons (f : Nat → Int) (x0 : Nat) (rest : List Nat) :
    (∀ x ∈ x0 :: rest, f x ≤ rest.foldl (fun acc x => if f x > acc then f x else acc) (f x0)) ∧
    ∃ x ∈ x0 :: rest, rest.foldl (fun acc x => if f x > acc then f x else acc) (f x0) = f x := by
  have h := foldl_max_ge (rest.map f) (f x0)
  rw [List.foldl_map] at h
  obtain ⟨h1, h2, h3⟩ := h
  constructor
  · intro x hx
    rcases List.mem_cons.1 hx with rfl | hx
    · exact h1
    · exact h2 _ (List.mem_map_of_mem hx)
  · rcases h3 with h3 | h3
    · exact ⟨x0, List.mem_cons_self .., h3⟩
    · obtain ⟨x, hx, e⟩ := List.mem_map.1 h3
      exact ⟨x, List.mem_cons_of_mem _ hx, e.symm⟩

theorem foldl_congr_mem {l : List Nat} {g1 g2 : Int → Nat → Int}
    (h : ∀ x ∈ l, ∀ acc, g1 acc x = g2 acc x) (i : Int) : l.foldl g1 i = l.foldl g2 i := by
  induction l generalizing i with
  | nil => rfl
  | cons x l ih =>
    simp only [List.foldl_cons]
    rw [h x (List.mem_cons_self ..) i]
    exact ih (fun y hy => h y (List.mem_cons_of_mem _ hy)) _

theorem any_congr_mem {l : List Nat} {p q : Nat → Bool} (h : ∀ x ∈ l, p x = q x) :
    l.any p = l.any q := by
  induction l with
  | nil => rfl
  | cons x l ih =>
    simp only [List.any_cons]
    rw [h x (List.mem_cons_self ..), ih (fun y hy => h y (List.mem_cons_of_mem _ hy))]

theorem filter_congr_mem {l : List Nat} {p q : Nat → Bool} (h : ∀ x ∈ l, p x = q x) :
    l.filter p = l.filter q := by
  induction l with
  | nil => rfl
  | cons x l ih =>
    simp only [List.filter_cons]
    rw [h x (List.mem_cons_self ..), ih (fun y hy => h y (List.mem_cons_of_mem _ hy))]

theorem headD_mem_of_length_one {l : List Nat} {d : Nat} (h : l.length = 1) : l.headD d ∈ l := by
  match l, h with
  | [x], _ => simp

/-! ### min -/

theorem sound_min (xs : List Nat) (r : Nat) :
    Sound (prune (.min xs r)) (fun a => holds a (.min xs r) = true) := by
  intro c a hm hs
  show Keeps a (pruneMin xs r c)
  cases xs with
  | nil => exact Keeps.some hm
  | cons x0 rest =>
    simp only [holds, List.isEmpty_cons, Bool.false_or, Bool.and_eq_true, List.all_eq_true,
      List.any_eq_true, decide_eq_true_eq, beq_iff_eq] at hs
    obtain ⟨hall, k, hk, hka⟩ := hs
    obtain ⟨mn1, _⟩ := foldl_minf_cons (fun x => (c.st x).dmin) x0 rest
    obtain ⟨_, j2, hj2, mx2⟩ := foldl_minf_cons (fun x => (c.st x).dmax) x0 rest
    simp only [pruneMin]
    refine Keeps.bind (Keeps.bind (Ctx.trySetMin_keeps hm ?_) (fun c1 m1 => Ctx.trySetMax_keeps m1 ?_))
      (fun c2 m2 => ?_)
    · have := mn1 k hk; have := (hm.bounds k).1; omega
    · rw [mx2]; have := hall j2 hj2; have := (hm.bounds j2).2; omega
    · have hr := m2.bounds r
      refine Keeps.bind (forM'_keeps ?_ m2) (fun c3 m3 => ?_)
      · intro x hx d md
        exact Ctx.trySetMin_keeps md (by have := hall x hx; omega)
      · refine Keeps.bind ?_ (fun c4 m4 => ?_)
        · by_cases h1 : (c2.st r).dmin = (c2.st r).dmax
          · rw [if_pos h1, if_pos]
            · exact Keeps.some m3
            · rw [List.any_eq_true]
              refine ⟨k, hk, ?_⟩
              have := m3.bounds k
              simp only [Bool.and_eq_true, decide_eq_true_eq]; omega
          · rw [if_neg h1]; exact Keeps.some m3
        · split
          · rename_i hc
            refine Ctx.trySetMax_keeps m4 ?_
            have hmem := headD_mem_of_length_one (d := 0) hc.2
            have := hall _ (List.mem_filter.1 hmem).1
            have := (m4.bounds (List.headD (List.filter (fun x =>
              decide ((c4.st x).dmin ≤ (c2.st r).dmin) && decide ((c2.st r).dmin ≤ (c4.st x).dmax))
              (x0 :: rest)) 0)).2
            omega
          · exact Keeps.some m4

theorem contracting_min (xs : List Nat) (r : Nat) :
    Contracting (prune (.min xs r)) (triggers (.min xs r)) := by
  intro c c' h
  show Good (r :: xs) c c'
  change pruneMin xs r c = some c' at h
  cases xs with
  | nil => simp only [pruneMin] at h; cases h; exact Good.refl _ _
  | cons x0 rest =>
    simp only [pruneMin] at h
    obtain ⟨c2, h12, h⟩ := bind_some h
    obtain ⟨c1, h1, h2⟩ := bind_some h12
    obtain ⟨c3, h3, h⟩ := bind_some h
    obtain ⟨c4, h4, h5⟩ := bind_some h
    have hr : r ∈ r :: x0 :: rest := List.mem_cons_self ..
    have g1 := Ctx.trySetMin_good hr h1
    have g2 := Ctx.trySetMax_good hr h2
    have g3 : Good (r :: x0 :: rest) c2 c3 :=
      forM'_good (fun x hx d d' hd => Ctx.trySetMin_good (List.mem_cons_of_mem _ hx) hd) h3
    have g4 : Good (r :: x0 :: rest) c3 c4 := by
      split at h4
      · split at h4
        · cases h4; exact Good.refl _ _
        · cases h4
      · cases h4; exact Good.refl _ _
    have g5 : Good (r :: x0 :: rest) c4 c' := by
      split at h5
      · exact Ctx.trySetMax_good hr h5
      · cases h5; exact Good.refl _ _
    exact (((g1.trans g2).trans g3).trans g4).trans g5

theorem checking_min (xs : List Nat) (r : Nat) :
    Checking (prune (.min xs r)) (fun a => holds a (.min xs r) = true) (triggers (.min xs r)) := by
  intro c c' a hf hm h
  change pruneMin xs r c = some c' at h
  cases xs with
  | nil => simp [holds]
  | cons x0 rest =>
    have hf : FixedOn (r :: x0 :: rest) c.st := hf
    simp only [pruneMin] at h
    obtain ⟨c2, h12, _⟩ := bind_some h
    obtain ⟨c1, h1, h2⟩ := bind_some h12
    obtain ⟨w, hw⟩ := hf r (List.mem_cons_self ..)
    have e : a r = w := by have := hm r; rw [hw] at this; simpa using this
    obtain ⟨e1, t1⟩ := Ctx.trySetMin_fixed hw h1
    subst e1
    obtain ⟨_, t2⟩ := Ctx.trySetMax_fixed hw h2
    obtain ⟨_, j1, hj1, mn2⟩ := foldl_minf_cons (fun x => (c1.st x).dmin) x0 rest
    obtain ⟨mx1, _⟩ := foldl_minf_cons (fun x => (c1.st x).dmax) x0 rest
    have hv : ∀ x ∈ x0 :: rest, (c1.st x).dmin = a x ∧ (c1.st x).dmax = a x :=
      fun x hx => fixed_val hm (hf x (List.mem_cons_of_mem _ hx))
    simp only [holds, List.isEmpty_cons, Bool.false_or, Bool.and_eq_true, List.all_eq_true,
      List.any_eq_true, decide_eq_true_eq, beq_iff_eq]
    have hall : ∀ x ∈ x0 :: rest, a r ≤ a x := by
      intro x hx
      have := mx1 x hx; have := (hv x hx).2; omega
    refine ⟨hall, j1, hj1, ?_⟩
    have := hall j1 hj1; have := (hv j1 hj1).1; omega

theorem resp_min (xs : List Nat) (r : Nat) :
    Resp (triggers (.min xs r)) (prune (.min xs r)) := by
  intro c1 c2 hag
  show RelO (r :: xs) (pruneMin xs r c1) (pruneMin xs r c2)
  have hag : Agree (r :: xs) c1 c2 := hag
  cases xs with
  | nil => exact RelO.some hag
  | cons x0 rest =>
    have hr : r ∈ r :: x0 :: rest := List.mem_cons_self ..
    have hx : ∀ x ∈ x0 :: rest, x ∈ r :: x0 :: rest := fun x hx => List.mem_cons_of_mem _ hx
    have hrest : ∀ x ∈ rest, x ∈ r :: x0 :: rest :=
      fun x h => List.mem_cons_of_mem _ (List.mem_cons_of_mem _ h)
    simp only [pruneMin]
    rw [foldl_congr_mem (g1 := fun acc x => if (c1.st x).dmin < acc then (c1.st x).dmin else acc)
          (g2 := fun acc x => if (c2.st x).dmin < acc then (c2.st x).dmin else acc)
          (fun x h acc => by rw [hag x (hrest x h)]),
        foldl_congr_mem (g1 := fun acc x => if (c1.st x).dmax < acc then (c1.st x).dmax else acc)
          (g2 := fun acc x => if (c2.st x).dmax < acc then (c2.st x).dmax else acc)
          (fun x h acc => by rw [hag x (hrest x h)]),
        hag x0 (hx x0 (List.mem_cons_self ..))]
    refine RelO.bind (RelO.bind (Ctx.trySetMin_resp _ hr hag) (fun d1 d2 hd => Ctx.trySetMax_resp _ hr hd))
      (fun d1 d2 hd => ?_)
    rw [hd r hr]
    refine RelO.bind (forM'_resp ?_ hd) (fun e1 e2 he => ?_)
    · intro x h e1 e2 he
      exact Ctx.trySetMin_resp _ (hx x h) he
    have hp : ∀ x ∈ x0 :: rest,
        (decide ((e1.st x).dmin ≤ (d2.st r).dmin) && decide ((d2.st r).dmin ≤ (e1.st x).dmax)) =
        (decide ((e2.st x).dmin ≤ (d2.st r).dmin) && decide ((d2.st r).dmin ≤ (e2.st x).dmax)) :=
      fun x h => by rw [he x (hx x h)]
    rw [any_congr_mem hp]
    refine RelO.bind ?_ (fun f1 f2 hf => ?_)
    · refine RelO.ite (fun _ => ?_) (fun _ => RelO.some he)
      exact RelO.ite (fun _ => RelO.some he) (fun _ => RelO.none)
    · have hp : ∀ x ∈ x0 :: rest,
          (decide ((f1.st x).dmin ≤ (d2.st r).dmin) && decide ((d2.st r).dmin ≤ (f1.st x).dmax)) =
          (decide ((f2.st x).dmin ≤ (d2.st r).dmin) && decide ((d2.st r).dmin ≤ (f2.st x).dmax)) :=
        fun x h => by rw [hf x (hx x h)]
      have hq : ∀ x ∈ x0 :: rest,
          decide ((f1.st x).dmin > (d2.st r).dmin) = decide ((f2.st x).dmin > (d2.st r).dmin) :=
        fun x h => by rw [hf x (hx x h)]
      rw [filter_congr_mem hp, any_congr_mem hq]
      refine RelO.ite (fun hc => ?_) (fun _ => RelO.some hf)
      have hmem := headD_mem_of_length_one (d := 0) hc.2
      rw [hf _ (hx _ (List.mem_filter.1 hmem).1)]
      exact Ctx.trySetMax_resp _ hr hf

theorem contract_min (xs : List Nat) (r : Nat) :
    Contract (prune (.min xs r)) (fun a => holds a (.min xs r) = true) (triggers (.min xs r)) :=
  ⟨sound_min xs r, contracting_min xs r, checking_min xs r, resp_min xs r⟩

/-! ### max -/

theorem sound_max (xs : List Nat) (r : Nat) :
    Sound (prune (.max xs r)) (fun a => holds a (.max xs r) = true) := by
  intro c a hm hs
  show Keeps a (pruneMax xs r c)
  cases xs with
  | nil => exact Keeps.some hm
  | cons x0 rest =>
    simp only [holds, List.isEmpty_cons, Bool.false_or, Bool.and_eq_true, List.all_eq_true,
      List.any_eq_true, decide_eq_true_eq, beq_iff_eq] at hs
    obtain ⟨hall, k, hk, hka⟩ := hs
    obtain ⟨mx1, _⟩ := foldl_maxf_cons (fun x => (c.st x).dmax) x0 rest
    obtain ⟨_, j2, hj2, mn2⟩ := foldl_maxf_cons (fun x => (c.st x).dmin) x0 rest
    simp only [pruneMax]
    refine Keeps.bind (Keeps.bind (Ctx.trySetMin_keeps hm ?_) (fun c1 m1 => Ctx.trySetMax_keeps m1 ?_))
      (fun c2 m2 => ?_)
    · rw [mn2]; have := hall j2 hj2; have := (hm.bounds j2).1; omega
    · have := mx1 k hk; have := (hm.bounds k).2; omega
    · have hr := m2.bounds r
      refine Keeps.bind (forM'_keeps ?_ m2) (fun c3 m3 => ?_)
      · intro x hx d md
        exact Ctx.trySetMax_keeps md (by have := hall x hx; omega)
      · refine Keeps.bind ?_ (fun c4 m4 => ?_)
        · by_cases h1 : (c2.st r).dmin = (c2.st r).dmax
          · rw [if_pos h1, if_pos]
            · exact Keeps.some m3
            · rw [List.any_eq_true]
              refine ⟨k, hk, ?_⟩
              have := m3.bounds k
              simp only [Bool.and_eq_true, decide_eq_true_eq]; omega
          · rw [if_neg h1]; exact Keeps.some m3
        · split
          · rename_i hc
            refine Ctx.trySetMin_keeps m4 ?_
            have hmem := headD_mem_of_length_one (d := 0) hc.2
            have := hall _ (List.mem_filter.1 hmem).1
            have := (m4.bounds (List.headD (List.filter (fun x =>
              decide ((c4.st x).dmin ≤ (c2.st r).dmax) && decide ((c2.st r).dmax ≤ (c4.st x).dmax))
              (x0 :: rest)) 0)).1
            omega
          · exact Keeps.some m4

theorem contracting_max (xs : List Nat) (r : Nat) :
    Contracting (prune (.max xs r)) (triggers (.max xs r)) := by
  intro c c' h
  show Good (r :: xs) c c'
  change pruneMax xs r c = some c' at h
  cases xs with
  | nil => simp only [pruneMax] at h; cases h; exact Good.refl _ _
  | cons x0 rest =>
    simp only [pruneMax] at h
    obtain ⟨c2, h12, h⟩ := bind_some h
    obtain ⟨c1, h1, h2⟩ := bind_some h12
    obtain ⟨c3, h3, h⟩ := bind_some h
    obtain ⟨c4, h4, h5⟩ := bind_some h
    have hr : r ∈ r :: x0 :: rest := List.mem_cons_self ..
    have g1 := Ctx.trySetMin_good hr h1
    have g2 := Ctx.trySetMax_good hr h2
    have g3 : Good (r :: x0 :: rest) c2 c3 :=
      forM'_good (fun x hx d d' hd => Ctx.trySetMax_good (List.mem_cons_of_mem _ hx) hd) h3
    have g4 : Good (r :: x0 :: rest) c3 c4 := by
      split at h4
      · split at h4
        · cases h4; exact Good.refl _ _
        · cases h4
      · cases h4; exact Good.refl _ _
    have g5 : Good (r :: x0 :: rest) c4 c' := by
      split at h5
      · exact Ctx.trySetMin_good hr h5
      · cases h5; exact Good.refl _ _
    exact (((g1.trans g2).trans g3).trans g4).trans g5

theorem checking_max (xs : List Nat) (r : Nat) :
    Checking (prune (.max xs r)) (fun a => holds a (.max xs r) = true) (triggers (.max xs r)) := by
  intro c c' a hf hm h
  change pruneMax xs r c = some c' at h
  cases xs with
  | nil => simp [holds]
  | cons x0 rest =>
    have hf : FixedOn (r :: x0 :: rest) c.st := hf
    simp only [pruneMax] at h
    obtain ⟨c2, h12, _⟩ := bind_some h
    obtain ⟨c1, h1, h2⟩ := bind_some h12
    obtain ⟨w, hw⟩ := hf r (List.mem_cons_self ..)
    have e : a r = w := by have := hm r; rw [hw] at this; simpa using this
    obtain ⟨e1, t1⟩ := Ctx.trySetMin_fixed hw h1
    subst e1
    obtain ⟨_, t2⟩ := Ctx.trySetMax_fixed hw h2
    obtain ⟨_, j1, hj1, mx2⟩ := foldl_maxf_cons (fun x => (c1.st x).dmax) x0 rest
    obtain ⟨mn1, _⟩ := foldl_maxf_cons (fun x => (c1.st x).dmin) x0 rest
    have hv : ∀ x ∈ x0 :: rest, (c1.st x).dmin = a x ∧ (c1.st x).dmax = a x :=
      fun x hx => fixed_val hm (hf x (List.mem_cons_of_mem _ hx))
    simp only [holds, List.isEmpty_cons, Bool.false_or, Bool.and_eq_true, List.all_eq_true,
      List.any_eq_true, decide_eq_true_eq, beq_iff_eq]
    have hall : ∀ x ∈ x0 :: rest, a x ≤ a r := by
      intro x hx
      have := mn1 x hx; have := (hv x hx).1; omega
    refine ⟨hall, j1, hj1, ?_⟩
    have := hall j1 hj1; have := (hv j1 hj1).2; omega

theorem resp_max (xs : List Nat) (r : Nat) :
    Resp (triggers (.max xs r)) (prune (.max xs r)) := by
  intro c1 c2 hag
  show RelO (r :: xs) (pruneMax xs r c1) (pruneMax xs r c2)
  have hag : Agree (r :: xs) c1 c2 := hag
  cases xs with
  | nil => exact RelO.some hag
  | cons x0 rest =>
    have hr : r ∈ r :: x0 :: rest := List.mem_cons_self ..
    have hx : ∀ x ∈ x0 :: rest, x ∈ r :: x0 :: rest := fun x hx => List.mem_cons_of_mem _ hx
    have hrest : ∀ x ∈ rest, x ∈ r :: x0 :: rest :=
      fun x h => List.mem_cons_of_mem _ (List.mem_cons_of_mem _ h)
    simp only [pruneMax]
    rw [foldl_congr_mem (g1 := fun acc x => if (c1.st x).dmin > acc then (c1.st x).dmin else acc)
          (g2 := fun acc x => if (c2.st x).dmin > acc then (c2.st x).dmin else acc)
          (fun x h acc => by rw [hag x (hrest x h)]),
        foldl_congr_mem (g1 := fun acc x => if (c1.st x).dmax > acc then (c1.st x).dmax else acc)
          (g2 := fun acc x => if (c2.st x).dmax > acc then (c2.st x).dmax else acc)
          (fun x h acc => by rw [hag x (hrest x h)]),
        hag x0 (hx x0 (List.mem_cons_self ..))]
    refine RelO.bind (RelO.bind (Ctx.trySetMin_resp _ hr hag) (fun d1 d2 hd => Ctx.trySetMax_resp _ hr hd))
      (fun d1 d2 hd => ?_)
    rw [hd r hr]
    refine RelO.bind (forM'_resp ?_ hd) (fun e1 e2 he => ?_)
    · intro x h e1 e2 he
      exact Ctx.trySetMax_resp _ (hx x h) he
    have hp : ∀ x ∈ x0 :: rest,
        (decide ((e1.st x).dmin ≤ (d2.st r).dmax) && decide ((d2.st r).dmax ≤ (e1.st x).dmax)) =
        (decide ((e2.st x).dmin ≤ (d2.st r).dmax) && decide ((d2.st r).dmax ≤ (e2.st x).dmax)) :=
      fun x h => by rw [he x (hx x h)]
    rw [any_congr_mem hp]
    refine RelO.bind ?_ (fun f1 f2 hf => ?_)
    · refine RelO.ite (fun _ => ?_) (fun _ => RelO.some he)
      exact RelO.ite (fun _ => RelO.some he) (fun _ => RelO.none)
    · have hp : ∀ x ∈ x0 :: rest,
          (decide ((f1.st x).dmin ≤ (d2.st r).dmax) && decide ((d2.st r).dmax ≤ (f1.st x).dmax)) =
          (decide ((f2.st x).dmin ≤ (d2.st r).dmax) && decide ((d2.st r).dmax ≤ (f2.st x).dmax)) :=
        fun x h => by rw [hf x (hx x h)]
      have hq : ∀ x ∈ x0 :: rest,
          decide ((f1.st x).dmax < (d2.st r).dmax) = decide ((f2.st x).dmax < (d2.st r).dmax) :=
        fun x h => by rw [hf x (hx x h)]
      rw [filter_congr_mem hp, any_congr_mem hq]
      refine RelO.ite (fun hc => ?_) (fun _ => RelO.some hf)
      have hmem := headD_mem_of_length_one (d := 0) hc.2
      rw [hf _ (hx _ (List.mem_filter.1 hmem).1)]
      exact Ctx.trySetMin_resp _ hr hf

theorem contract_max (xs : List Nat) (r : Nat) :
    Contract (prune (.max xs r)) (fun a => holds a (.max xs r) = true) (triggers (.max xs r)) :=
  ⟨sound_max xs r, contracting_max xs r, checking_max xs r, resp_max xs r⟩

end PK
end KAbsMinMax
end Selen

import SelenModel.Lemmas.Kinds.Common2
/-
Contract proof for the propagator kind `allDiff` (`AllDiff::prune` through the bit-set GAC engine:
`gacAssigned`, `gacHall`, write-back of the bounds).
-/
namespace Selen
namespace KAllDiff
open Selen.PK Selen.Lin Selen.IView Selen.Ctx Selen.Dom Selen.KAbsMinMax.PK Selen.K2
namespace PK

/-! ### list helpers -/

theorem mem_intRange {lo hi w : Int} : w ∈ intRange lo hi ↔ lo ≤ w ∧ w ≤ hi := by
  simp only [intRange, List.mem_map, List.mem_range]
  constructor
  · rintro ⟨i, hi, rfl⟩; omega
  · intro h; exact ⟨(w - lo).toNat, by omega, by omega⟩

theorem intRange_self (w : Int) : intRange w w = [w] := by
  simp [intRange]

theorem getD_mem {xs : List Nat} {i : Nat} (hi : i < xs.length) : xs.getD i 0 ∈ xs := by
  simp only [List.getD_eq_getElem?_getD, List.getElem?_eq_getElem hi, Option.getD_some]
  exact List.getElem_mem hi

theorem getD_eq_getElem {α : Type} {l : List α} {i : Nat} (d : α) (hi : i < l.length) :
    l.getD i d = l[i] := by
  simp [List.getD_eq_getElem?_getD, List.getElem?_eq_getElem hi]

theorem getD_map {α β : Type} {l : List α} {i : Nat} (f : α → β) (d : α) (e : β) (hi : i < l.length) :
    (l.map f).getD i e = f (l.getD i d) := by
  simp [List.getD_eq_getElem?_getD, List.getElem?_eq_getElem hi]

theorem getD_range_map {α : Type} {n j : Nat} (f : Nat → α) (d : α) (hj : j < n) :
    ((List.range n).map f).getD j d = f j := by
  simp [List.getD_eq_getElem?_getD, hj]

/-- pigeonhole, converse direction: a duplicate-free list inside a list that is not longer
exhausts it -/
theorem subset_of_nodup_length {l u : List Int} (hn : l.Nodup) (hs : l ⊆ u)
    (hl : u.length ≤ l.length) : u ⊆ l := by
  induction l generalizing u with
  | nil =>
    have : u = [] := List.length_eq_zero_iff.1 (by simpa using hl)
    subst this; exact List.Subset.refl _
  | cons a t ih =>
    rw [List.nodup_cons] at hn
    have ha : a ∈ u := hs (List.mem_cons_self ..)
    have hts : t ⊆ u.erase a := fun x hx =>
      (List.mem_erase_of_ne (fun (h : x = a) => hn.1 (h ▸ hx))).2 (hs (List.mem_cons_of_mem _ hx))
    have hlen : (u.erase a).length = u.length - 1 := by rw [List.length_erase]; simp [ha]
    have hpos : 1 ≤ u.length := List.length_pos_of_mem ha
    have hsub := ih hn.2 hts (by simp only [List.length_cons] at hl; omega)
    intro x hx
    by_cases hxa : x = a
    · subst hxa; exact List.mem_cons_self ..
    · exact List.mem_cons_of_mem _ (hsub ((List.mem_erase_of_ne hxa).2 hx))

theorem mem_uniq {l : List Int} {w : Int} : w ∈ uniq l ↔ w ∈ l := by
  induction l with
  | nil => simp [uniq]
  | cons x l ih =>
    simp only [uniq]
    by_cases h : x ∈ uniq l
    · rw [if_pos h, ih, List.mem_cons]
      constructor
      · exact Or.inr
      · rintro (rfl | h')
        · exact ih.1 h
        · exact h'
    · rw [if_neg h, List.mem_cons, List.mem_cons, ih]

theorem nodup_uniq (l : List Int) : (uniq l).Nodup := by
  induction l with
  | nil => simp [uniq]
  | cons x l ih =>
    simp only [uniq]
    by_cases h : x ∈ uniq l
    · rw [if_pos h]; exact ih
    · rw [if_neg h]; exact List.nodup_cons.2 ⟨h, ih⟩

theorem combos_sublist : ∀ (l : List Nat) (k : Nat) (s : List Nat), s ∈ combos l k → s.Sublist l := by
  intro l
  induction l with
  | nil =>
    intro k s hs
    cases k with
    | zero => simp [combos] at hs; subst hs; exact List.Sublist.refl _
    | succ k => simp [combos] at hs
  | cons x rest ih =>
    intro k s hs
    cases k with
    | zero => simp [combos] at hs; subst hs; exact List.nil_sublist _
    | succ k =>
      simp only [combos, List.mem_append, List.mem_map] at hs
      rcases hs with ⟨t, ht, rfl⟩ | hs
      · exact (ih k t ht).cons_cons x
      · exact (ih (k + 1) s hs).cons x

/-- a map that is injective on the members of a duplicate-free list keeps it duplicate-free -/
theorem nodup_map_on {l : List Nat} {f : Nat → Int} (hn : l.Nodup)
    (hf : ∀ i ∈ l, ∀ j ∈ l, f i = f j → i = j) : (l.map f).Nodup := by
  induction l with
  | nil => simp
  | cons x l ih =>
    rw [List.nodup_cons] at hn
    rw [List.map_cons, List.nodup_cons]
    refine ⟨?_, ih hn.2 (fun i hi j hj => hf i (List.mem_cons_of_mem _ hi) j (List.mem_cons_of_mem _ hj))⟩
    intro hx
    obtain ⟨y, hy, e⟩ := List.mem_map.1 hx
    have := hf y (List.mem_cons_of_mem _ hy) x (List.mem_cons_self ..) e
    subst this; exact hn.1 hy

/-! ### the engine step `gacStrip` -/

/-- the new value list of position `j` -/
def stripAt (keep : Nat → Bool) (vals : List Int) (ds : List Dom) (j : Nat) : Dom :=
  if keep j then ds.getD j [] else (ds.getD j []).filter (fun w => !vals.contains w)

theorem gacStrip_eq (keep : Nat → Bool) (vals : List Int) (ds : List Dom) :
    gacStrip keep vals ds =
      if (List.range ds.length).any (fun j =>
          (((List.range ds.length).map (stripAt keep vals ds)).getD j []).length != (ds.getD j []).length
            && (((List.range ds.length).map (stripAt keep vals ds)).getD j []).isEmpty) then none
      else some ((List.range ds.length).map (stripAt keep vals ds)) := rfl

theorem mem_stripAt {keep : Nat → Bool} {vals : List Int} {ds : List Dom} {j : Nat} {w : Int} :
    w ∈ stripAt keep vals ds j ↔ w ∈ ds.getD j [] ∧ (keep j = true ∨ w ∉ vals) := by
  unfold stripAt
  by_cases hk : keep j = true
  · rw [if_pos hk]; simp [hk]
  · rw [if_neg hk]; simp [hk]

theorem gacStrip_ok {keep : Nat → Bool} {vals : List Int} {ds : List Dom}
    (h : ∀ j, j < ds.length → stripAt keep vals ds j ≠ []) :
    gacStrip keep vals ds = some ((List.range ds.length).map (stripAt keep vals ds)) := by
  rw [gacStrip_eq, if_neg]
  intro hany
  rw [List.any_eq_true] at hany
  obtain ⟨j, hj, hc⟩ := hany
  have hj' := List.mem_range.1 hj
  rw [getD_range_map _ _ hj'] at hc
  simp only [Bool.and_eq_true, List.isEmpty_iff] at hc
  exact h j hj' hc.2

theorem gacStrip_some {keep : Nat → Bool} {vals : List Int} {ds ds' : List Dom}
    (h : gacStrip keep vals ds = some ds') :
    ds' = (List.range ds.length).map (stripAt keep vals ds) ∧
    ∀ j, j < ds.length → (stripAt keep vals ds j).length ≠ (ds.getD j []).length →
      stripAt keep vals ds j ≠ [] := by
  rw [gacStrip_eq] at h
  split at h
  · cases h
  · rename_i hn
    cases h
    refine ⟨rfl, ?_⟩
    intro j hj hl he
    apply hn
    rw [List.any_eq_true]
    refine ⟨j, List.mem_range.2 hj, ?_⟩
    rw [getD_range_map _ _ hj, Bool.and_eq_true]
    exact ⟨bne_iff_ne.2 hl, by simp [he]⟩

/-! ### the invariant of the engine for a fixed solution

`val j` is the value of position `j` in the solution; `Inv n val ds`: the engine state `ds` has `n`
positions and still contains the solution. -/

def Inv (n : Nat) (val : Nat → Int) (ds : List Dom) : Prop :=
  ds.length = n ∧ ∀ j, j < n → val j ∈ ds.getD j []

theorem gacStrip_inv {n : Nat} {val : Nat → Int} {keep : Nat → Bool} {vals : List Int} {ds : List Dom}
    (hI : Inv n val ds) (hk : ∀ j, j < n → keep j = false → val j ∉ vals) :
    ∃ ds', gacStrip keep vals ds = some ds' ∧ Inv n val ds' := by
  obtain ⟨hlen, hmem⟩ := hI
  have hin : ∀ j, j < n → val j ∈ stripAt keep vals ds j := by
    intro j hj
    rw [mem_stripAt]
    refine ⟨hmem j hj, ?_⟩
    by_cases hkj : keep j = true
    · exact Or.inl hkj
    · exact Or.inr (hk j hj (by simpa using hkj))
  refine ⟨_, gacStrip_ok (fun j hj => List.ne_nil_of_mem (hin j (hlen ▸ hj))), ?_, ?_⟩
  · simp [hlen]
  · intro j hj
    rw [hlen, getD_range_map _ _ hj]
    exact hin j hj

/-! ### folds of an `Option` state -/

def optStep {β : Type} (step : β → List Dom → Option (List Dom)) (acc : Option (List Dom)) (b : β) :
    Option (List Dom) :=
  match acc with
  | none => none
  | some ds => step b ds

theorem foldl_optStep_none {β : Type} (step : β → List Dom → Option (List Dom)) (l : List β) :
    l.foldl (optStep step) none = none := by
  induction l with
  | nil => rfl
  | cons b l ih => exact ih

theorem fold_inv {β : Type} (P : List Dom → Prop) (step : β → List Dom → Option (List Dom)) (l : List β)
    (h : ∀ b ∈ l, ∀ ds, P ds → ∃ ds', step b ds = some ds' ∧ P ds') :
    ∀ ds, P ds → ∃ ds', l.foldl (optStep step) (some ds) = some ds' ∧ P ds' := by
  induction l with
  | nil => intro ds hp; exact ⟨ds, rfl, hp⟩
  | cons b l ih =>
    intro ds hp
    obtain ⟨ds1, e1, hp1⟩ := h b (List.mem_cons_self ..) ds hp
    obtain ⟨ds2, e2, hp2⟩ := ih (fun b' hb' => h b' (List.mem_cons_of_mem _ hb')) ds1 hp1
    refine ⟨ds2, ?_, hp2⟩
    rw [List.foldl_cons]
    show l.foldl (optStep step) (step b ds) = some ds2
    rw [e1]; exact e2

/-- a fold all of whose successful steps leave the state `ds` unchanged -/
theorem fold_fix {β : Type} (R : β → Prop) (step : β → List Dom → Option (List Dom)) (ds : List Dom)
    (l : List β) (h : ∀ b ∈ l, ∀ ds', step b ds = some ds' → ds' = ds ∧ R b) {ds' : List Dom}
    (hf : l.foldl (optStep step) (some ds) = some ds') : ds' = ds ∧ ∀ b ∈ l, R b := by
  induction l with
  | nil =>
    simp only [List.foldl_nil, Option.some.injEq] at hf
    exact ⟨hf.symm, fun _ hb => by cases hb⟩
  | cons b l ih =>
    rw [List.foldl_cons] at hf
    change l.foldl (optStep step) (step b ds) = some ds' at hf
    cases hs : step b ds with
    | none => rw [hs, foldl_optStep_none] at hf; cases hf
    | some d1 =>
      obtain ⟨e, hr⟩ := h b (List.mem_cons_self ..) d1 hs
      subst e
      rw [hs] at hf
      obtain ⟨e', hr'⟩ := ih (fun b' hb' => h b' (List.mem_cons_of_mem _ hb')) hf
      refine ⟨e', ?_⟩
      intro b' hb'
      rcases List.mem_cons.1 hb' with rfl | hb'
      · exact hr
      · exact hr' b' hb'

/-! ### the two engine phases -/

/-- the positions fixed at entry, with their values -/
def assignedOf (ds : List Dom) : List (Nat × Int) :=
  (List.range ds.length).filterMap (fun i =>
    match ds.getD i [] with
    | [v] => some (i, v)
    | _ => none)

theorem gacAssigned_eq (ds : List Dom) :
    gacAssigned ds =
      (assignedOf ds).foldl (optStep (fun p ds => gacStrip (fun j => j == p.1) [p.2] ds)) (some ds) := rfl

theorem mem_assignedOf {ds : List Dom} {p : Nat × Int} :
    p ∈ assignedOf ds ↔ p.1 < ds.length ∧ ds.getD p.1 [] = [p.2] := by
  simp only [assignedOf, List.mem_filterMap, List.mem_range]
  constructor
  · rintro ⟨i, hi, h⟩
    split at h
    · rename_i v hv
      cases h
      exact ⟨hi, hv⟩
    · cases h
  · rintro ⟨hi, hv⟩
    refine ⟨p.1, hi, ?_⟩
    rw [hv]

theorem gacAssigned_inv {n : Nat} {val : Nat → Int} {ds : List Dom}
    (hinj : ∀ i j, i < n → j < n → val i = val j → i = j) (hI : Inv n val ds) :
    ∃ ds', gacAssigned ds = some ds' ∧ Inv n val ds' := by
  rw [gacAssigned_eq]
  refine fold_inv (Inv n val) _ _ ?_ ds hI
  intro p hp dsc hIc
  obtain ⟨hp1, hp2⟩ := mem_assignedOf.1 hp
  rw [hI.1] at hp1
  have hv : val p.1 = p.2 := by
    have := hI.2 p.1 hp1
    rw [hp2] at this
    exact List.mem_singleton.1 this
  refine gacStrip_inv hIc ?_
  intro j hj hk hmem
  have hjp : j ≠ p.1 := by simpa using hk
  have : val j = val p.1 := by rw [hv]; exact List.mem_singleton.1 hmem
  exact hjp (hinj j p.1 hj hp1 this)

def hallStep (sub : List Nat) (ds : List Dom) : Option (List Dom) :=
  if sub.length = (uniq (sub.flatMap (fun i => ds.getD i []))).length then
    gacStrip (fun j => sub.contains j) (uniq (sub.flatMap (fun i => ds.getD i []))) ds
  else some ds

def hallSubsets (n : Nat) : List (List Nat) :=
  (List.range' 2 ((if n < 4 then n else 4) - 1)).flatMap (fun k => combos (List.range n) k)

theorem gacHall_eq (ds : List Dom) :
    gacHall ds =
      if ds.length ≤ 6 then (hallSubsets ds.length).foldl (optStep hallStep) (some ds) else some ds := rfl

theorem hallSubsets_sublist {n : Nat} {sub : List Nat} (h : sub ∈ hallSubsets n) :
    sub.Sublist (List.range n) := by
  simp only [hallSubsets, List.mem_flatMap] at h
  obtain ⟨k, _, hk⟩ := h
  exact combos_sublist _ _ _ hk

theorem hallStep_inv {n : Nat} {val : Nat → Int} {ds : List Dom} {sub : List Nat}
    (hinj : ∀ i j, i < n → j < n → val i = val j → i = j) (hsub : sub.Sublist (List.range n))
    (hI : Inv n val ds) : ∃ ds', hallStep sub ds = some ds' ∧ Inv n val ds' := by
  unfold hallStep
  by_cases hl : sub.length = (uniq (sub.flatMap (fun i => ds.getD i []))).length
  · rw [if_pos hl]
    have hlt : ∀ i ∈ sub, i < n := fun i hi => List.mem_range.1 (hsub.subset hi)
    have hnd : (sub.map val).Nodup :=
      nodup_map_on (hsub.nodup List.nodup_range)
        (fun i hi j hj e => hinj i j (hlt i hi) (hlt j hj) e)
    have hss : sub.map val ⊆ uniq (sub.flatMap (fun i => ds.getD i [])) := by
      intro w hw
      obtain ⟨i, hi, rfl⟩ := List.mem_map.1 hw
      rw [mem_uniq, List.mem_flatMap]
      exact ⟨i, hi, hI.2 i (hlt i hi)⟩
    have hall := subset_of_nodup_length hnd hss (by rw [List.length_map]; omega)
    refine gacStrip_inv hI ?_
    intro j hj hk hmem
    obtain ⟨i, hi, e⟩ := List.mem_map.1 (hall hmem)
    have := hinj i j (hlt i hi) hj e
    subst this
    simp only [List.contains_eq_mem, decide_eq_false_iff_not] at hk
    exact hk hi
  · rw [if_neg hl]; exact ⟨ds, rfl, hI⟩

theorem gacHall_inv {n : Nat} {val : Nat → Int} {ds : List Dom}
    (hinj : ∀ i j, i < n → j < n → val i = val j → i = j) (hI : Inv n val ds) :
    ∃ ds', gacHall ds = some ds' ∧ Inv n val ds' := by
  rw [gacHall_eq]
  by_cases h6 : ds.length ≤ 6
  · rw [if_pos h6]
    refine fold_inv (Inv n val) _ _ ?_ ds hI
    intro sub hsub dsc hIc
    rw [hI.1] at hsub
    exact hallStep_inv hinj (hallSubsets_sublist hsub) hIc
  · rw [if_neg h6]; exact ⟨ds, rfl, hI⟩

/-! ### the propagator -/

/-- the engine's start state: one range per position -/
def ds0Of (xs : List Nat) (st : Store) : List Dom :=
  xs.map (fun x => intRange (st x).dmin (st x).dmax)

/-- write-back of the bounds of position `i` -/
def wb (xs : List Nat) (ds2 : List Dom) (i : Nat) (c : Ctx) : Option Ctx :=
  match ds2.getD i [] with
  | [] => none
  | d => c.trySetMin (xs.getD i 0) (Dom.dmin d) >>>= (·.trySetMax (xs.getD i 0) (Dom.dmax d))

theorem pruneAllDiff_eq (xs : List Nat) (ctx : Ctx) :
    pruneAllDiff xs ctx =
      if xs.length ≤ 1 then some ctx
      else if (uniq ((ds0Of xs ctx.st).flatMap id)).length < xs.length then none
      else
        match gacAssigned (ds0Of xs ctx.st) with
        | none => none
        | some ds1 =>
          match gacHall ds1 with
          | none => none
          | some ds2 => forM' (List.range xs.length) ctx (wb xs ds2) := rfl

theorem wb_eq (xs : List Nat) (ds2 : List Dom) (i : Nat) (c : Ctx) :
    wb xs ds2 i c =
      if ds2.getD i [] = [] then none
      else c.trySetMin (xs.getD i 0) (Dom.dmin (ds2.getD i []))
        >>>= (·.trySetMax (xs.getD i 0) (Dom.dmax (ds2.getD i []))) := by
  unfold wb
  split
  · rename_i h; rw [if_pos h]
  · rename_i h; rw [if_neg h]

/-- the solution's value of position `j` -/
def valOf (xs : List Nat) (a : Asg) (j : Nat) : Int := a (xs.getD j 0)

theorem inv_ds0 (xs : List Nat) {st : Store} {a : Asg} (hm : Mem st a) :
    Inv xs.length (valOf xs a) (ds0Of xs st) := by
  refine ⟨by simp [ds0Of], ?_⟩
  intro j hj
  unfold ds0Of
  rw [getD_map _ 0 [] hj, mem_intRange]
  exact hm.bounds _

theorem valOf_inj {xs : List Nat} {a : Asg} (hs : (xs.map a).Nodup) :
    ∀ i j, i < xs.length → j < xs.length → valOf xs a i = valOf xs a j → i = j := by
  intro i j hi hj e
  have hi' : i < (xs.map a).length := by simpa using hi
  have hj' : j < (xs.map a).length := by simpa using hj
  refine (List.getD_inj (fallback := (0 : Int)) hi' hj' hs).1 ?_
  rw [getD_map a 0 0 hi, getD_map a 0 0 hj]
  exact e

theorem feasible {xs : List Nat} {st : Store} {a : Asg} (hm : Mem st a) (hs : (xs.map a).Nodup) :
    ¬ (uniq ((ds0Of xs st).flatMap id)).length < xs.length := by
  have hsub : xs.map a ⊆ uniq ((ds0Of xs st).flatMap id) := by
    intro w hw
    obtain ⟨x, hx, rfl⟩ := List.mem_map.1 hw
    rw [mem_uniq, List.mem_flatMap]
    refine ⟨intRange (st x).dmin (st x).dmax, List.mem_map.2 ⟨x, hx, rfl⟩, ?_⟩
    exact mem_intRange.2 (hm.bounds x)
  have := hs.length_le_of_subset hsub
  rw [List.length_map] at this
  omega

theorem wb_keeps {xs : List Nat} {a : Asg} {ds2 : List Dom} {i : Nat} {d : Ctx}
    (hI : Inv xs.length (valOf xs a) ds2) (hi : i < xs.length) (md : Mem d.st a) :
    Keeps a (wb xs ds2 i d) := by
  have hmem : a (xs.getD i 0) ∈ ds2.getD i [] := hI.2 i hi
  rw [wb_eq, if_neg (List.ne_nil_of_mem hmem)]
  exact Keeps.bind (Ctx.trySetMin_keeps md (Dom.dmin_le _ _ hmem))
    (fun c1 m1 => Ctx.trySetMax_keeps m1 (Dom.le_dmax _ _ hmem))

theorem wb_good {xs : List Nat} {ds2 : List Dom} {i : Nat} {d d' : Ctx} (hi : i < xs.length)
    (h : wb xs ds2 i d = some d') : Good xs d d' := by
  rw [wb_eq] at h
  split at h
  · cases h
  · obtain ⟨c1, h1, h2⟩ := bind_some h
    exact (Ctx.trySetMin_good (getD_mem hi) h1).trans (Ctx.trySetMax_good (getD_mem hi) h2)

theorem wb_resp {xs : List Nat} (ds2 : List Dom) {i : Nat} {d1 d2 : Ctx} (hi : i < xs.length)
    (hag : Agree xs d1 d2) : RelO xs (wb xs ds2 i d1) (wb xs ds2 i d2) := by
  rw [wb_eq, wb_eq]
  exact RelO.ite (fun _ => RelO.none) (fun _ =>
    RelO.bind (Ctx.trySetMin_resp _ (getD_mem hi) hag)
      (fun e1 e2 he => Ctx.trySetMax_resp _ (getD_mem hi) he))

theorem sound_allDiff (xs : List Nat) :
    Sound (prune (.allDiff xs)) (fun a => holds a (.allDiff xs) = true) := by
  intro c a hm hs
  have hs : (xs.map a).Nodup := by simpa [holds] using hs
  show Keeps a (pruneAllDiff xs c)
  rw [pruneAllDiff_eq]
  by_cases h1 : xs.length ≤ 1
  · rw [if_pos h1]; exact Keeps.some hm
  · rw [if_neg h1, if_neg (feasible hm hs)]
    have hinj := valOf_inj hs
    obtain ⟨ds1, e1, hI1⟩ := gacAssigned_inv hinj (inv_ds0 xs hm)
    obtain ⟨ds2, e2, hI2⟩ := gacHall_inv hinj hI1
    rw [e1]
    show Keeps a (match gacHall ds1 with
      | none => none
      | some ds2 => forM' (List.range xs.length) c (wb xs ds2))
    rw [e2]
    exact forM'_keeps (fun i hi d md => wb_keeps hI2 (List.mem_range.1 hi) md) hm

theorem contracting_allDiff (xs : List Nat) :
    Contracting (prune (.allDiff xs)) (triggers (.allDiff xs)) := by
  intro c c' h
  show Good xs c c'
  change pruneAllDiff xs c = some c' at h
  rw [pruneAllDiff_eq] at h
  split at h
  · cases h; exact Good.refl _ _
  · split at h
    · cases h
    · cases e1 : gacAssigned (ds0Of xs c.st) with
      | none => rw [e1] at h; cases h
      | some ds1 =>
        rw [e1] at h
        change (match gacHall ds1 with
          | none => none
          | some ds2 => forM' (List.range xs.length) c (wb xs ds2)) = some c' at h
        cases e2 : gacHall ds1 with
        | none => rw [e2] at h; cases h
        | some ds2 =>
          rw [e2] at h
          exact forM'_good (fun i hi d d' hd => wb_good (List.mem_range.1 hi) hd) h

theorem ds0Of_agree {xs : List Nat} {c1 c2 : Ctx} (hag : Agree xs c1 c2) :
    ds0Of xs c1.st = ds0Of xs c2.st := by
  unfold ds0Of
  exact List.map_congr_left (fun x hx => by rw [hag x hx])

theorem resp_allDiff (xs : List Nat) :
    Resp (triggers (.allDiff xs)) (prune (.allDiff xs)) := by
  intro c1 c2 hag
  show RelO xs (pruneAllDiff xs c1) (pruneAllDiff xs c2)
  have hag' : Agree xs c1 c2 := hag
  rw [pruneAllDiff_eq, pruneAllDiff_eq, ds0Of_agree hag']
  refine RelO.ite (fun _ => RelO.some hag') (fun _ => RelO.ite (fun _ => RelO.none) (fun _ => ?_))
  cases gacAssigned (ds0Of xs c2.st) with
  | none => exact RelO.none
  | some ds1 =>
    show RelO xs
      (match gacHall ds1 with
        | none => none
        | some ds2 => forM' (List.range xs.length) c1 (wb xs ds2))
      (match gacHall ds1 with
        | none => none
        | some ds2 => forM' (List.range xs.length) c2 (wb xs ds2))
    cases gacHall ds1 with
    | none => exact RelO.none
    | some ds2 =>
      exact forM'_resp (l := List.range xs.length) (f1 := wb xs ds2) (f2 := wb xs ds2)
        (fun i hi d1 d2 hd => wb_resp ds2 (List.mem_range.1 hi) hd) hag'

/-! ### checking: on fixed variables the first phase already compares all pairs -/

theorem ds0Of_fixed {xs : List Nat} {st : Store} {a : Asg} (hf : FixedOn xs st) (hm : Mem st a) :
    ds0Of xs st = xs.map (fun x => [a x]) := by
  unfold ds0Of
  refine List.map_congr_left (fun x hx => ?_)
  obtain ⟨h1, h2⟩ := fixed_val hm (hf x hx)
  rw [h1, h2, intRange_self]

/-- on a state of singletons a successful strip of one value changes nothing, and certifies that
no unprotected position holds that value -/
theorem gacStrip_singletons {keep : Nat → Bool} {v : Int} {ds ds' : List Dom}
    (hs : ∀ j, j < ds.length → ∃ w, ds.getD j [] = [w]) (h : gacStrip keep [v] ds = some ds') :
    ds' = ds ∧ ∀ j, j < ds.length → keep j = false → ds.getD j [] ≠ [v] := by
  obtain ⟨e, hne⟩ := gacStrip_some h
  have key : ∀ j, j < ds.length →
      stripAt keep [v] ds j = ds.getD j [] ∧ (keep j = false → ds.getD j [] ≠ [v]) := by
    intro j hj
    obtain ⟨w, hw⟩ := hs j hj
    by_cases hk : keep j = true
    · exact ⟨by unfold stripAt; rw [if_pos hk], fun h' => by rw [hk] at h'; cases h'⟩
    · by_cases hwv : w = v
      · exfalso
        subst hwv
        have he : stripAt keep [w] ds j = [] := by
          unfold stripAt; rw [if_neg hk, hw]; simp
        exact hne j hj (by rw [he, hw]; simp) he
      · refine ⟨?_, fun _ => ?_⟩
        · unfold stripAt; rw [if_neg hk, hw]; simp [hwv]
        · rw [hw]; simpa using hwv
  refine ⟨?_, fun j hj => (key j hj).2⟩
  rw [e]
  apply List.ext_getElem
  · simp
  · intro j h1 h2
    rw [List.getElem_map, List.getElem_range, (key j h2).1, getD_eq_getElem [] h2]

theorem nodup_short {xs : List Nat} (a : Asg) (h : xs.length ≤ 1) : (xs.map a).Nodup := by
  rw [List.nodup_iff_pairwise_ne, List.pairwise_iff_getElem]
  intro i j hi hj hij
  rw [List.length_map] at hi hj
  omega

theorem nodup_of_assigned {xs : List Nat} {st : Store} {a : Asg} {ds1 : List Dom}
    (hf : FixedOn xs st) (hm : Mem st a) (e1 : gacAssigned (ds0Of xs st) = some ds1) :
    (xs.map a).Nodup := by
  rw [ds0Of_fixed hf hm, gacAssigned_eq] at e1
  have hlen : (xs.map (fun x => [a x])).length = xs.length := List.length_map _
  have hget : ∀ j, j < xs.length → (xs.map (fun x => [a x])).getD j [] = [valOf xs a j] :=
    fun j hj => getD_map (fun x => [a x]) 0 [] hj
  have hfix := fold_fix
    (fun p : Nat × Int => ∀ j, j < xs.length → j ≠ p.1 → valOf xs a j ≠ p.2)
    (fun p ds => gacStrip (fun j => j == p.1) [p.2] ds) (xs.map (fun x => [a x])) _ ?_ e1
  · rw [List.nodup_iff_pairwise_ne, List.pairwise_iff_getElem]
    intro i j hi hj hij
    rw [List.length_map] at hi hj
    have hp : (i, valOf xs a i) ∈ assignedOf (xs.map (fun x => [a x])) :=
      mem_assignedOf.2 ⟨by rw [hlen]; exact hi, hget i hi⟩
    have := hfix.2 _ hp j hj (by show j ≠ i; omega)
    rw [List.getElem_map, List.getElem_map]
    intro e
    apply this
    show a (xs.getD j 0) = a (xs.getD i 0)
    rw [getD_eq_getElem 0 hi, getD_eq_getElem 0 hj, e]
  · intro p _ ds' hs
    obtain ⟨e, hne⟩ := gacStrip_singletons
      (fun j hj => ⟨_, hget j (by rw [← hlen]; exact hj)⟩) hs
    refine ⟨e, ?_⟩
    intro j hj hjp hv
    refine hne j (by rw [hlen]; exact hj) (by simpa using hjp) ?_
    rw [hget j hj, hv]

theorem checking_allDiff (xs : List Nat) :
    Checking (prune (.allDiff xs)) (fun a => holds a (.allDiff xs) = true) (triggers (.allDiff xs)) := by
  intro c c' a hf hm h
  have hf : FixedOn xs c.st := hf
  show holds a (.allDiff xs) = true
  simp only [holds, decide_eq_true_eq]
  change pruneAllDiff xs c = some c' at h
  rw [pruneAllDiff_eq] at h
  split at h
  · rename_i h1; exact nodup_short a h1
  · split at h
    · cases h
    · cases e1 : gacAssigned (ds0Of xs c.st) with
      | none => rw [e1] at h; cases h
      | some ds1 => exact nodup_of_assigned hf hm e1

theorem contract_allDiff (xs : List Nat) :
    Contract (prune (.allDiff xs)) (fun a => holds a (.allDiff xs) = true) (triggers (.allDiff xs)) :=
  ⟨sound_allDiff xs, contracting_allDiff xs, checking_allDiff xs, resp_allDiff xs⟩

end PK
end KAllDiff
end Selen

import SelenModel.Lemmas.Kinds.Common2
/-
Contract proof for the propagator kind `table` (`Table::prune`), and adequacy of the fuel of the
model of its `loop { … }`.
-/
namespace Selen
namespace KTable
open Selen.PK Selen.Lin Selen.IView Selen.Ctx Selen.Dom Selen.KAbsMinMax.PK Selen.K2
namespace PK

/-! ### list helpers -/

theorem getD_mem {xs : List Nat} {i : Nat} (hi : i < xs.length) : xs.getD i 0 ∈ xs := by
  simp only [List.getD_eq_getElem?_getD, List.getElem?_eq_getElem hi, Option.getD_some]
  exact List.getElem_mem hi

theorem getD_map {xs : List Nat} {i : Nat} (a : Asg) (hi : i < xs.length) :
    (xs.map a).getD i 0 = a (xs.getD i 0) := by
  simp [List.getD_eq_getElem?_getD, List.getElem?_eq_getElem hi]

theorem sum_map_le {xs : List Nat} {f g : Nat → Nat} (h : ∀ x ∈ xs, f x ≤ g x) :
    (xs.map f).sum ≤ (xs.map g).sum := by
  induction xs with
  | nil => simp
  | cons x xs ih =>
    simp only [List.map_cons, List.sum_cons]
    have := h x (List.mem_cons_self ..)
    have := ih (fun y hy => h y (List.mem_cons_of_mem _ hy))
    omega

theorem sum_map_lt {xs : List Nat} {f g : Nat → Nat} (h : ∀ x ∈ xs, f x ≤ g x)
    (hx : ∃ x ∈ xs, f x < g x) : (xs.map f).sum < (xs.map g).sum := by
  induction xs with
  | nil => obtain ⟨x, hx, _⟩ := hx; cases hx
  | cons x xs ih =>
    simp only [List.map_cons, List.sum_cons]
    have h0 := h x (List.mem_cons_self ..)
    have hle := sum_map_le (fun y hy => h y (List.mem_cons_of_mem _ hy))
    obtain ⟨y, hy, hlt⟩ := hx
    rcases List.mem_cons.1 hy with rfl | hy
    · omega
    · have := ih (fun y hy => h y (List.mem_cons_of_mem _ hy)) ⟨y, hy, hlt⟩
      omega

/-! ### `tupSupported` -/

theorem tupSupported_cons (x : Nat) (xs : List Nat) (st : Store) (v : Int) (t : List Int) :
    tupSupported (x :: xs) st (v :: t) =
      ((decide ((st x).dmin ≤ v) && decide (v ≤ (st x).dmax)) && tupSupported xs st t) := by
  simp only [tupSupported, List.zip_cons_cons, List.all_cons]

/-- the row of a solution inside the store is supported -/
theorem tupSupported_map {st : Store} {a : Asg} (hm : Mem st a) (xs : List Nat) :
    tupSupported xs st (xs.map a) = true := by
  induction xs with
  | nil => rfl
  | cons x xs ih =>
    rw [List.map_cons, tupSupported_cons, ih]
    have := hm.bounds x
    simp only [Bool.and_eq_true, decide_eq_true_eq, and_true]
    exact this

/-- `tupSupported` reads only the variables of `xs` -/
theorem tupSupported_agree {xs : List Nat} {c1 c2 : Ctx} (hag : Agree xs c1 c2) :
    tupSupported xs c1.st = tupSupported xs c2.st := by
  funext t
  unfold tupSupported
  rw [Bool.eq_iff_iff, List.all_eq_true, List.all_eq_true]
  constructor
  · intro h p hp
    rw [← hag p.1 (List.of_mem_zip hp).1]; exact h p hp
  · intro h p hp
    rw [hag p.1 (List.of_mem_zip hp).1]; exact h p hp

/-- on a store fixing all of `xs`, a supported tuple of the right arity is the row of the store -/
theorem tupSupported_fixed {st : Store} {a : Asg} (hm : Mem st a) (xs : List Nat)
    (hf : FixedOn xs st) (t : List Int) (hlen : t.length = xs.length)
    (h : tupSupported xs st t = true) : t = xs.map a := by
  induction xs generalizing t with
  | nil =>
    cases t with
    | nil => rfl
    | cons v t => simp at hlen
  | cons x xs ih =>
    cases t with
    | nil => simp at hlen
    | cons v t =>
      rw [tupSupported_cons] at h
      simp only [Bool.and_eq_true, decide_eq_true_eq] at h
      have hv := fixed_val hm (hf x (List.mem_cons_self ..))
      have e : v = a x := by omega
      rw [List.map_cons, e,
        ih (fun y hy => hf y (List.mem_cons_of_mem _ hy)) t (by simpa using hlen) h.2]

/-! ### one narrowing step -/

theorem tableNarrow_keeps {xs : List Nat} {ts : List (List Int)} {a : Asg} {i : Nat} {c : Ctx}
    (hr : xs.map a ∈ ts) (hi : i < xs.length) (hm : Mem c.st a) :
    Keeps a (tableNarrow xs ts i c) := by
  have hmem : a (xs.getD i 0) ∈
      (ts.filter (tupSupported xs c.st)).map (fun t => t.getD i 0) := by
    refine List.mem_map.2 ⟨xs.map a, List.mem_filter.2 ⟨hr, tupSupported_map hm xs⟩, ?_⟩
    exact getD_map a hi
  have hlo := Dom.dmin_le _ _ hmem
  have hhi := Dom.le_dmax _ _ hmem
  have hne : ((ts.filter (tupSupported xs c.st)).map (fun t => t.getD i 0)).isEmpty = false := by
    cases hh : (ts.filter (tupSupported xs c.st)).map (fun t => t.getD i 0) with
    | nil => rw [hh] at hmem; cases hmem
    | cons _ _ => rfl
  simp only [tableNarrow]
  rw [hne]
  simp only [Bool.false_eq_true, if_false]
  refine Keeps.bind (Keeps.ite (fun _ => Ctx.trySetMin_keeps hm hlo) (fun _ => Keeps.some hm))
    (fun c1 m1 => Keeps.ite (fun _ => Ctx.trySetMax_keeps m1 hhi) (fun _ => Keeps.some m1))

theorem tableNarrow_good {xs : List Nat} {ts : List (List Int)} {i : Nat} {c c' : Ctx}
    (hi : i < xs.length) (h : tableNarrow xs ts i c = some c') : Good xs c c' := by
  have hx := getD_mem hi
  simp only [tableNarrow] at h
  split at h
  · cases h
  · obtain ⟨c1, h1, h2⟩ := bind_some h
    have g1 : Good xs c c1 := by
      split at h1
      · exact Ctx.trySetMin_good hx h1
      · cases h1; exact Good.refl _ _
    have g2 : Good xs c1 c' := by
      split at h2
      · exact Ctx.trySetMax_good hx h2
      · cases h2; exact Good.refl _ _
    exact g1.trans g2

theorem tableNarrow_resp {xs : List Nat} {ts : List (List Int)} {i : Nat} {c1 c2 : Ctx}
    (hi : i < xs.length) (hag : Agree xs c1 c2) :
    RelO xs (tableNarrow xs ts i c1) (tableNarrow xs ts i c2) := by
  have hx := getD_mem hi
  simp only [tableNarrow]
  rw [tupSupported_agree hag, hag _ hx]
  refine RelO.ite (fun _ => RelO.none) (fun _ => ?_)
  refine RelO.bind (RelO.ite (fun _ => Ctx.trySetMin_resp _ hx hag) (fun _ => RelO.some hag))
    (fun d1 d2 hd => RelO.ite (fun _ => Ctx.trySetMax_resp _ hx hd) (fun _ => RelO.some hd))

/-! ### one sweep (`tablePass`): the fold and its induction principles -/

/-- did a bound of `x` move between `c` and `c'`? (the `changed` test of the Rust sweep) -/
def moved (x : Nat) (c c' : Ctx) : Bool :=
  (c.st x).dmin != (c'.st x).dmin || (c.st x).dmax != (c'.st x).dmax

/-- the step function of the fold in `tablePass` -/
def tstep (xs : List Nat) (ts : List (List Int)) (acc : Option (Ctx × Bool)) (i : Nat) :
    Option (Ctx × Bool) :=
  match acc with
  | none => none
  | some (c, ch) =>
    match tableNarrow xs ts i c with
    | none => none
    | some c' => some (c', ch || moved (xs.getD i 0) c c')

theorem tablePass_eq (xs : List Nat) (ts : List (List Int)) (c : Ctx) :
    tablePass xs ts c = (List.range xs.length).foldl (tstep xs ts) (some (c, false)) := rfl

theorem foldl_tstep_none (xs : List Nat) (ts : List (List Int)) (l : List Nat) :
    l.foldl (tstep xs ts) none = none := by
  induction l with
  | nil => rfl
  | cons i l ih => exact ih

theorem moved_ne {x : Nat} {c c' : Ctx} (h : moved x c c' = true) : c'.st x ≠ c.st x := by
  intro e
  simp [moved, e] at h

/-- existence principle: every step succeeds and keeps the solution -/
theorem fold_keeps {xs : List Nat} {ts : List (List Int)} {a : Asg} {l : List Nat}
    (hstep : ∀ i ∈ l, ∀ d, Mem d.st a → Keeps a (tableNarrow xs ts i d)) {c : Ctx} (b : Bool)
    (hm : Mem c.st a) :
    ∃ c' b', l.foldl (tstep xs ts) (some (c, b)) = some (c', b') ∧ Mem c'.st a := by
  induction l generalizing c b with
  | nil => exact ⟨c, b, rfl, hm⟩
  | cons i l ih =>
    obtain ⟨c1, e1, m1⟩ := hstep i (List.mem_cons_self ..) c hm
    simp only [List.foldl_cons, tstep, e1]
    exact ih (fun j hj => hstep j (List.mem_cons_of_mem _ hj)) _ m1

/-- invariant principle for successful sweeps -/
theorem fold_inv {xs : List Nat} {ts : List (List Int)} (P : Ctx → Bool → Prop) {l : List Nat}
    (hstep : ∀ i ∈ l, ∀ d b d', P d b → tableNarrow xs ts i d = some d' →
      P d' (b || moved (xs.getD i 0) d d'))
    {c : Ctx} {b : Bool} {c' : Ctx} {b' : Bool} (h0 : P c b)
    (h : l.foldl (tstep xs ts) (some (c, b)) = some (c', b')) : P c' b' := by
  induction l generalizing c b with
  | nil => simp only [List.foldl_nil, Option.some.injEq, Prod.mk.injEq] at h; rw [← h.1, ← h.2]; exact h0
  | cons i l ih =>
    simp only [List.foldl_cons, tstep] at h
    cases e1 : tableNarrow xs ts i c with
    | none => rw [e1] at h; simp only [foldl_tstep_none] at h; cases h
    | some c1 =>
      rw [e1] at h
      exact ih (fun j hj => hstep j (List.mem_cons_of_mem _ hj))
        (hstep i (List.mem_cons_self ..) c b c1 h0 e1) h

/-- results of two sweeps agree: both fail, or stores agree on `T` and the flags are equal -/
def RelP (T : List Nat) (o1 o2 : Option (Ctx × Bool)) : Prop :=
  match o1, o2 with
  | none, none => True
  | some (d1, b1), some (d2, b2) => Agree T d1 d2 ∧ b1 = b2
  | _, _ => False

theorem tstep_resp {xs : List Nat} {ts : List (List Int)} {i : Nat} (hi : i < xs.length)
    {o1 o2 : Option (Ctx × Bool)} (h : RelP xs o1 o2) :
    RelP xs (tstep xs ts o1 i) (tstep xs ts o2 i) := by
  match o1, o2, h with
  | none, none, _ => exact trivial
  | some (d1, b1), some (d2, b2), ⟨hag, hb⟩ =>
    have hr := tableNarrow_resp (ts := ts) hi hag
    simp only [tstep]
    cases e1 : tableNarrow xs ts i d1 with
    | none =>
      cases e2 : tableNarrow xs ts i d2 with
      | none => exact trivial
      | some f2 => rw [e1, e2] at hr; exact hr.elim
    | some f1 =>
      cases e2 : tableNarrow xs ts i d2 with
      | none => rw [e1, e2] at hr; exact hr.elim
      | some f2 =>
        rw [e1, e2] at hr
        have hr : Agree xs f1 f2 := hr
        refine ⟨hr, ?_⟩
        have hx := getD_mem hi
        simp only [moved]
        rw [hb, hag _ hx, hr _ hx]

theorem fold_resp {xs : List Nat} {ts : List (List Int)} {l : List Nat}
    (hl : ∀ i ∈ l, i < xs.length) {o1 o2 : Option (Ctx × Bool)} (h : RelP xs o1 o2) :
    RelP xs (l.foldl (tstep xs ts) o1) (l.foldl (tstep xs ts) o2) := by
  induction l generalizing o1 o2 with
  | nil => exact h
  | cons i l ih =>
    simp only [List.foldl_cons]
    exact ih (fun j hj => hl j (List.mem_cons_of_mem _ hj))
      (tstep_resp (hl i (List.mem_cons_self ..)) h)

/-! ### `tablePass` -/

theorem range_lt {n i : Nat} (h : i ∈ List.range n) : i < n := List.mem_range.1 h

theorem tablePass_keeps {xs : List Nat} {ts : List (List Int)} {a : Asg} {c : Ctx}
    (hr : xs.map a ∈ ts) (hm : Mem c.st a) :
    ∃ c' b', tablePass xs ts c = some (c', b') ∧ Mem c'.st a := by
  rw [tablePass_eq]
  exact fold_keeps (fun i hi d md => tableNarrow_keeps hr (range_lt hi) md) false hm

theorem tablePass_good {xs : List Nat} {ts : List (List Int)} {c c' : Ctx} {b' : Bool}
    (h : tablePass xs ts c = some (c', b')) : Good xs c c' := by
  rw [tablePass_eq] at h
  exact fold_inv (fun d _ => Good xs c d)
    (fun i hi d b d' g hd => g.trans (tableNarrow_good (range_lt hi) hd)) (Good.refl _ _) h

theorem tablePass_resp {xs : List Nat} {ts : List (List Int)} {c1 c2 : Ctx}
    (hag : Agree xs c1 c2) : RelP xs (tablePass xs ts c1) (tablePass xs ts c2) := by
  rw [tablePass_eq, tablePass_eq]
  exact fold_resp (fun i hi => range_lt hi) ⟨hag, rfl⟩

/-! ### `tableLoop` -/

theorem tableLoop_keeps {xs : List Nat} {ts : List (List Int)} {a : Asg} (hr : xs.map a ∈ ts)
    (fuel : Nat) {c : Ctx} (hm : Mem c.st a) : Keeps a (tableLoop xs ts fuel c) := by
  induction fuel generalizing c with
  | zero => exact Keeps.some hm
  | succ fuel ih =>
    obtain ⟨c1, b1, e1, m1⟩ := tablePass_keeps hr hm
    simp only [tableLoop, e1]
    cases b1 with
    | false => exact Keeps.some m1
    | true =>
      have hsup : ts.any (tupSupported xs c1.st) = true :=
        List.any_eq_true.2 ⟨xs.map a, hr, tupSupported_map m1 xs⟩
      simp only [Bool.not_true, Bool.false_eq_true, if_false, hsup]
      exact ih m1

theorem tableLoop_good {xs : List Nat} {ts : List (List Int)} (fuel : Nat) {c c' : Ctx}
    (h : tableLoop xs ts fuel c = some c') : Good xs c c' := by
  induction fuel generalizing c with
  | zero => simp only [tableLoop] at h; cases h; exact Good.refl _ _
  | succ fuel ih =>
    simp only [tableLoop] at h
    cases e1 : tablePass xs ts c with
    | none => rw [e1] at h; cases h
    | some r =>
      obtain ⟨c1, b1⟩ := r
      rw [e1] at h
      have g1 := tablePass_good e1
      simp only at h
      split at h
      · cases h; exact g1
      · split at h
        · cases h
        · exact g1.trans (ih h)

theorem tableLoop_resp {xs : List Nat} {ts : List (List Int)} (fuel : Nat) {c1 c2 : Ctx}
    (hag : Agree xs c1 c2) : RelO xs (tableLoop xs ts fuel c1) (tableLoop xs ts fuel c2) := by
  induction fuel generalizing c1 c2 with
  | zero => exact RelO.some hag
  | succ fuel ih =>
    have hp := tablePass_resp (ts := ts) hag
    simp only [tableLoop]
    match e1 : tablePass xs ts c1, e2 : tablePass xs ts c2 with
    | none, none => exact RelO.none
    | none, some r2 => rw [e1, e2] at hp; exact hp.elim
    | some r1, none => rw [e1, e2] at hp; obtain ⟨_, _⟩ := r1; exact hp.elim
    | some (d1, b1), some (d2, b2) =>
      rw [e1, e2] at hp
      obtain ⟨hd, hb⟩ : Agree xs d1 d2 ∧ b1 = b2 := hp
      subst hb
      simp only
      rw [tupSupported_agree hd]
      refine RelO.ite (fun _ => RelO.some hd) (fun _ => ?_)
      exact RelO.ite (fun _ => RelO.none) (fun _ => ih hd)

/-! ### the contract -/

theorem sound_table (xs : List Nat) (ts : List (List Int)) :
    Sound (prune (.table xs ts)) (fun a => holds a (.table xs ts) = true) := by
  intro c a hm hs
  simp only [holds, List.any_eq_true, beq_iff_eq] at hs
  obtain ⟨t, ht, e⟩ := hs
  subst e
  show Keeps a (pruneTable xs ts c)
  have hsup : ts.any (tupSupported xs c.st) = true :=
    List.any_eq_true.2 ⟨xs.map a, ht, tupSupported_map hm xs⟩
  simp only [pruneTable, hsup, Bool.not_true, Bool.false_eq_true, if_false]
  exact tableLoop_keeps ht _ hm

theorem contracting_table (xs : List Nat) (ts : List (List Int)) :
    Contracting (prune (.table xs ts)) (triggers (.table xs ts)) := by
  intro c c' h
  show Good xs c c'
  change pruneTable xs ts c = some c' at h
  simp only [pruneTable] at h
  split at h
  · cases h
  · exact tableLoop_good _ h

theorem checking_table (xs : List Nat) (ts : List (List Int))
    (har : ∀ t ∈ ts, t.length = xs.length) :
    Checking (prune (.table xs ts)) (fun a => holds a (.table xs ts) = true)
      (triggers (.table xs ts)) := by
  intro c c' a hf hm h
  have hf : FixedOn xs c.st := hf
  change pruneTable xs ts c = some c' at h
  simp only [pruneTable] at h
  split at h
  · cases h
  · rename_i hsup
    simp only [Bool.not_eq_true, Bool.not_eq_false'] at hsup
    obtain ⟨t, ht, hst⟩ := List.any_eq_true.1 hsup
    have e := tupSupported_fixed hm xs hf t (har t ht) hst
    simp only [holds, List.any_eq_true, beq_iff_eq]
    exact ⟨t, ht, e⟩

theorem resp_table (xs : List Nat) (ts : List (List Int)) :
    Resp (triggers (.table xs ts)) (prune (.table xs ts)) := by
  intro c1 c2 hag
  have hag : Agree xs c1 c2 := hag
  show RelO xs (pruneTable xs ts c1) (pruneTable xs ts c2)
  simp only [pruneTable]
  have hfuel : xs.map (fun x => (c1.st x).length) = xs.map (fun x => (c2.st x).length) :=
    List.map_congr_left (fun x hx => by rw [hag x hx])
  rw [tupSupported_agree hag, hfuel]
  exact RelO.ite (fun _ => RelO.none) (fun _ => tableLoop_resp _ hag)

/-- **contract of `Table`**; `har` is the arity precondition of `Table::new` (used only for
checking) -/
theorem contract_table (xs : List Nat) (ts : List (List Int))
    (har : ∀ t ∈ ts, t.length = xs.length) :
    Contract (prune (.table xs ts)) (fun a => holds a (.table xs ts) = true)
      (triggers (.table xs ts)) :=
  ⟨sound_table xs ts, contracting_table xs ts, checking_table xs ts har, resp_table xs ts⟩

/-- the constructor `Table::new` (modelled by `PK.mkTable`) establishes the arity precondition … -/
theorem mkTable_arity (xs : List Nat) (ts : List (List Int)) :
    ∀ t ∈ ts.filter (fun t => t.length == xs.length), t.length = xs.length := by
  intro t ht
  have := (List.mem_filter.1 ht).2
  simpa using this

/-- … without changing the meaning: a tuple of another arity never matches -/
theorem holds_mkTable (a : Asg) (xs : List Nat) (ts : List (List Int)) :
    holds a (mkTable xs ts) = holds a (.table xs ts) := by
  simp only [mkTable, holds, List.any_filter]
  congr 1
  funext t
  by_cases h : t == xs.map a
  · have : t.length = xs.length := by rw [eq_of_beq h]; simp
    simp [h, this]
  · simp [h]

/-- **contract of a constructed `Table`**, no precondition -/
theorem contract_mkTable (xs : List Nat) (ts : List (List Int)) :
    Contract (prune (mkTable xs ts)) (fun a => holds a (.table xs ts) = true) (triggers (mkTable xs ts)) := by
  have h := contract_table xs (ts.filter (fun t => t.length == xs.length)) (mkTable_arity xs ts)
  have e : (fun a => holds a (PK.table xs ts) = true) =
      (fun a => holds a (PK.table xs (ts.filter (fun t => t.length == xs.length))) = true) := by
    funext a
    have := holds_mkTable a xs ts
    simp only [mkTable] at this
    rw [this]
  rw [e]
  exact h

/-! ### the fuel of `tableLoop` is never exhausted

`pruneTable` runs the Rust `loop { … }` with fuel `size xs ctx + 1`, where `size` is the total
number of values in the domains of `xs`. A sweep never enlarges a domain, and a sweep that reports
`changed = true` moved a bound of some `xs[i]`, i.e. removed a value from its domain, so `size`
strictly decreases: with more than `size xs c` units of fuel the loop always exits by itself.
No assumption on the store is needed (domains may even be empty). -/

/-- total number of values in the domains of `xs` (the fuel of `pruneTable` is `size + 1`) -/
def size (xs : List Nat) (c : Ctx) : Nat := (xs.map (fun x => (c.st x).length)).sum

theorem good_length {T : List Nat} {c c' : Ctx} (g : Good T c c') (x : Nat) :
    (c'.st x).length ≤ (c.st x).length := (g.sub x).length_le

theorem good_length_lt {T : List Nat} {c c' : Ctx} (g : Good T c c') {x : Nat}
    (hne : c'.st x ≠ c.st x) : (c'.st x).length < (c.st x).length := by
  have := (g.sub x).length_le
  by_cases e : (c'.st x).length = (c.st x).length
  · exact absurd ((g.sub x).eq_of_length e) hne
  · omega

/-- a sweep that reports a change removed a value from the domain of some variable of `xs` -/
theorem tablePass_shrinks {xs : List Nat} {ts : List (List Int)} {c c' : Ctx} {b' : Bool}
    (h : tablePass xs ts c = some (c', b')) :
    Good xs c c' ∧ (b' = true → ∃ x ∈ xs, (c'.st x).length < (c.st x).length) := by
  rw [tablePass_eq] at h
  refine fold_inv
    (fun d b => Good xs c d ∧ (b = true → ∃ x ∈ xs, (d.st x).length < (c.st x).length))
    ?_ ⟨Good.refl _ _, fun hb => by cases hb⟩ h
  intro i hi d b d' hP hd
  obtain ⟨g, hb⟩ := hP
  have g' := tableNarrow_good (range_lt hi) hd
  refine ⟨g.trans g', fun hflag => ?_⟩
  cases b with
  | true =>
    obtain ⟨x, hx, hlt⟩ := hb rfl
    exact ⟨x, hx, Nat.lt_of_le_of_lt (good_length g' x) hlt⟩
  | false =>
    simp only [Bool.false_or] at hflag
    exact ⟨_, getD_mem (range_lt hi),
      Nat.lt_of_lt_of_le (good_length_lt g' (moved_ne hflag)) (good_length g _)⟩

theorem tablePass_size {xs : List Nat} {ts : List (List Int)} {c c' : Ctx} {b' : Bool}
    (h : tablePass xs ts c = some (c', b')) :
    size xs c' ≤ size xs c ∧ (b' = true → size xs c' < size xs c) := by
  obtain ⟨g, hb⟩ := tablePass_shrinks h
  exact ⟨sum_map_le (fun x _ => good_length g x),
    fun hb' => sum_map_lt (fun x _ => good_length g x) (hb hb')⟩

/-- **fuel irrelevance**: any two amounts of fuel above the total domain size give the same run -/
theorem tableLoop_fuel_irrelevant (xs : List Nat) (ts : List (List Int)) (c : Ctx) (f1 f2 : Nat)
    (h1 : (xs.map (fun x => (c.st x).length)).sum < f1)
    (h2 : (xs.map (fun x => (c.st x).length)).sum < f2) :
    tableLoop xs ts f1 c = tableLoop xs ts f2 c := by
  induction f1 generalizing f2 c with
  | zero => omega
  | succ f1 ih =>
    cases f2 with
    | zero => omega
    | succ f2 =>
      simp only [tableLoop]
      cases e : tablePass xs ts c with
      | none => rfl
      | some r =>
        obtain ⟨c', b'⟩ := r
        cases b' with
        | false => rfl
        | true =>
          have hlt : size xs c' < size xs c := (tablePass_size e).2 rfl
          simp only [Bool.not_true, Bool.false_eq_true, if_false]
          split
          · rfl
          · exact ih c' f2 (by unfold size at hlt; omega) (by unfold size at hlt; omega)

/-- the loop with an explicit "out of fuel" outcome: outer `none` = the fuel ran out before the
loop exited by itself; `some r` = the loop exited by itself with result `r` -/
def tableLoopX (xs : List Nat) (ts : List (List Int)) : Nat → Ctx → Option (Option Ctx)
  | 0, _ => none
  | fuel + 1, c =>
    match tablePass xs ts c with
    | none => some none
    | some (c', ch) =>
      if !ch then some (some c')
      else if !(ts.any (tupSupported xs c'.st)) then some none
      else tableLoopX xs ts fuel c'

/-- **fuel adequacy**: with more fuel than the total domain size the loop always exits by itself
(the out-of-fuel branch `| 0, c => some c` of `tableLoop` is never taken), and `tableLoop` returns
exactly the result of that exit -/
theorem tableLoop_fuel_adequate (xs : List Nat) (ts : List (List Int)) (c : Ctx) (f : Nat)
    (h : (xs.map (fun x => (c.st x).length)).sum < f) :
    tableLoopX xs ts f c = some (tableLoop xs ts f c) := by
  induction f generalizing c with
  | zero => omega
  | succ f ih =>
    simp only [tableLoopX, tableLoop]
    cases e : tablePass xs ts c with
    | none => rfl
    | some r =>
      obtain ⟨c', b'⟩ := r
      cases b' with
      | false => rfl
      | true =>
        have hlt : size xs c' < size xs c := (tablePass_size e).2 rfl
        simp only [Bool.not_true, Bool.false_eq_true, if_false]
        split
        · rfl
        · exact ih c' (by unfold size at hlt; omega)

/-- the fuel chosen by `pruneTable` is adequate: the loop inside `pruneTable` exits by itself
(`tableLoopX` does not report "out of fuel") and `pruneTable` returns the result of that exit -/
theorem pruneTable_fuel_adequate (xs : List Nat) (ts : List (List Int)) (c : Ctx) :
    ∃ r, tableLoopX xs ts ((xs.map (fun x => (c.st x).length)).sum + 1) c = some r ∧
      pruneTable xs ts c = if !(ts.any (tupSupported xs c.st)) then none else r :=
  ⟨_, tableLoop_fuel_adequate xs ts c _ (Nat.lt_succ_self _), rfl⟩

/-- `pruneTable` does not depend on its fuel: any larger fuel gives the same result -/
theorem pruneTable_fuel_irrelevant (xs : List Nat) (ts : List (List Int)) (c : Ctx) (f : Nat)
    (h : (xs.map (fun x => (c.st x).length)).sum < f) :
    pruneTable xs ts c =
      if !(ts.any (tupSupported xs c.st)) then none else tableLoop xs ts f c := by
  simp only [pruneTable]
  rw [tableLoop_fuel_irrelevant xs ts c _ f (Nat.lt_succ_self _) h]

end PK
end KTable
end Selen

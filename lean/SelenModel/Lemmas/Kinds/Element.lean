import SelenModel.Lemmas.Kinds.Common2
/- Contract proof for the propagator kind `element`. -/
namespace Selen
namespace KElement
open Selen.PK Selen.Lin Selen.IView Selen.Ctx Selen.Dom Selen.KAbsMinMax.PK Selen.K2
namespace PK

/-! ### `intRange` -/

theorem mem_intRange {lo hi w : Int} : w ∈ intRange lo hi ↔ lo ≤ w ∧ w ≤ hi := by
  simp only [intRange, List.mem_map, List.mem_range]
  constructor
  · rintro ⟨i, hi, rfl⟩; omega
  · intro h; exact ⟨(w - lo).toNat, by omega, by omega⟩

theorem intRange_length (lo hi : Int) : (intRange lo hi).length = (hi - lo + 1).toNat := by
  simp [intRange]

theorem intRange_eq_nil {lo hi : Int} : intRange lo hi = [] ↔ hi < lo := by
  rw [← List.length_eq_zero_iff, intRange_length]; omega

theorem intRange_sorted (lo hi : Int) : (intRange lo hi).Pairwise (· ≤ ·) := by
  unfold intRange
  exact List.Pairwise.map _ (fun a b h => by omega) List.pairwise_lt_range

/-- a one-element range: its bounds coincide and its head is the lower bound -/
theorem intRange_length_one {lo hi : Int} (h : (intRange lo hi).length = 1) :
    lo = hi ∧ (intRange lo hi).headD 0 = lo := by
  have hl : lo = hi := by rw [intRange_length] at h; omega
  refine ⟨hl, ?_⟩
  match hr : intRange lo hi, h with
  | [x], _ =>
    have : x ∈ intRange lo hi := by rw [hr]; simp
    have := mem_intRange.1 this
    simp only [List.headD_cons]; omega

theorem sorted_headD_le {l : List Int} (h : l.Pairwise (· ≤ ·)) {x : Int} (hx : x ∈ l) (d : Int) :
    l.headD d ≤ x := by
  cases l with
  | nil => cases hx
  | cons y l' =>
    simp only [List.headD_cons]
    rcases List.mem_cons.1 hx with rfl | hx
    · exact Int.le_refl _
    · exact (List.pairwise_cons.1 h).1 x hx

theorem sorted_le_getLastD {l : List Int} (h : l.Pairwise (· ≤ ·)) {x : Int} (hx : x ∈ l) (d : Int) :
    x ≤ l.getLastD d := by
  induction l generalizing d x with
  | nil => cases hx
  | cons y l' ih =>
    rw [List.getLastD_cons]
    obtain ⟨h1, h2⟩ := List.pairwise_cons.1 h
    rcases List.mem_cons.1 hx with rfl | hx
    · cases l' with
      | nil => simp
      | cons z l'' =>
        exact Int.le_trans (h1 z (List.mem_cons_self ..)) (ih h2 (List.mem_cons_self ..) _)
    · exact ih h2 hx y

/-! ### `getIdx` -/

theorem getIdx_mem {arr : List Nat} {i : Int} {av : Nat} (h : getIdx arr i = some av) : av ∈ arr := by
  unfold getIdx at h
  split at h
  · cases h
  · exact List.mem_of_getElem? h

theorem getIdx_some_iff {arr : List Nat} {i : Int} {av : Nat} :
    getIdx arr i = some av ↔ 0 ≤ i ∧ i < arr.length ∧ arr[i.toNat]? = some av := by
  unfold getIdx
  constructor
  · intro h
    split at h
    · cases h
    · obtain ⟨hlt, _⟩ := List.getElem?_eq_some_iff.1 h
      exact ⟨by omega, by omega, h⟩
  · rintro ⟨h0, _, h2⟩
    rw [if_neg (by omega)]; exact h2

theorem getIdx_isSome {arr : List Nat} {i : Int} (h0 : 0 ≤ i) (h1 : i < arr.length) :
    ∃ av, getIdx arr i = some av := by
  unfold getIdx
  rw [if_neg (by omega)]
  have : i.toNat < arr.length := by omega
  exact ⟨arr[i.toNat], List.getElem?_eq_getElem this⟩

/-! ### `intersectSet` -/

theorem intersectSet_keeps {c : Ctx} {a : Asg} {x y : Nat} (hm : Mem c.st a) (he : a x = a y) :
    Keeps a (intersectSet x y c) := by
  have bx := hm.bounds x
  have by' := hm.bounds y
  simp only [intersectSet]
  rw [if_neg (by split <;> split <;> omega)]
  refine Keeps.bind (Keeps.bind (Keeps.bind (setMinG_keeps hm ?_) (fun c1 m1 => setMaxG_keeps m1 ?_))
    (fun c2 m2 => setMinG_keeps m2 ?_)) (fun c3 m3 => setMaxG_keeps m3 ?_)
  all_goals (split <;> omega)

theorem intersectSet_good {T : List Nat} {c c' : Ctx} {x y : Nat} (hx : x ∈ T) (hy : y ∈ T)
    (h : intersectSet x y c = some c') : Good T c c' := by
  simp only [intersectSet] at h
  generalize (if (c.st x).dmin > (c.st y).dmin then (c.st x).dmin else (c.st y).dmin) = nmin at h
  generalize (if (c.st x).dmax < (c.st y).dmax then (c.st x).dmax else (c.st y).dmax) = nmax at h
  split at h
  · cases h
  · obtain ⟨c3, h, h4⟩ := bind_some h
    obtain ⟨c2, h, h3⟩ := bind_some h
    obtain ⟨c1, h1, h2⟩ := bind_some h
    exact (((setMinG_good hx h1).trans (setMaxG_good hx h2)).trans (setMinG_good hy h3)).trans
      (setMaxG_good hy h4)

theorem intersectSet_fixed {c c' : Ctx} {x y : Nat} {wx wy : Int} (hx : c.st x = [wx]) (hy : c.st y = [wy])
    (h : intersectSet x y c = some c') : wx = wy := by
  simp only [intersectSet] at h
  rw [(fixed_bounds hx).1, (fixed_bounds hx).2, (fixed_bounds hy).1, (fixed_bounds hy).2] at h
  generalize hn1 : (if wx > wy then wx else wy) = nmin at h
  generalize hn2 : (if wx < wy then wx else wy) = nmax at h
  split at h
  · cases h
  · subst hn1 hn2
    rename_i hn
    split at hn <;> split at hn <;> omega

theorem intersectSet_resp {T : List Nat} {c1 c2 : Ctx} {x y : Nat} (hx : x ∈ T) (hy : y ∈ T)
    (h : Agree T c1 c2) : RelO T (intersectSet x y c1) (intersectSet x y c2) := by
  simp only [intersectSet]
  rw [h x hx, h y hy]
  refine RelO.ite (fun _ => RelO.none) (fun _ => ?_)
  exact RelO.bind (RelO.bind (RelO.bind (setMinG_resp _ hx h) (fun d1 d2 hd => setMaxG_resp _ hx hd))
    (fun d1 d2 hd => setMinG_resp _ hy hd)) (fun d1 d2 hd => setMaxG_resp _ hy hd)

/-! ### `elemValid` -/

theorem mem_elemValid {n : Int} {idx : Nat} {st : Store} {w : Int} :
    w ∈ elemValid n idx st ↔ ((st idx).dmin ≤ w ∧ w ≤ (st idx).dmax) ∧ 0 ≤ w ∧ w < n := by
  unfold elemValid
  rw [mem_intRange]
  constructor
  · rintro ⟨h1, h2⟩
    split at h1 <;> split at h2 <;> omega
  · rintro ⟨⟨h1, h2⟩, h3, h4⟩
    constructor
    · split <;> omega
    · split <;> omega

theorem elemValid_sorted (n : Int) (idx : Nat) (st : Store) : (elemValid n idx st).Pairwise (· ≤ ·) :=
  intRange_sorted _ _

theorem elemValid_head {n : Int} {idx : Nat} {st : Store} {w : Int}
    (h : (elemValid n idx st).length = 1) (hw : w ∈ elemValid n idx st) :
    (elemValid n idx st).headD 0 = w := by
  unfold elemValid at h hw ⊢
  obtain ⟨h1, h2⟩ := intRange_length_one h
  have := mem_intRange.1 hw
  rw [h2]; omega

/-- the solution's index is a valid index -/
theorem sol_mem_valid {arr : List Nat} {idx av : Nat} {c : Ctx} {a : Asg} (hm : Mem c.st a)
    (hg : getIdx arr (a idx) = some av) : a idx ∈ elemValid arr.length idx c.st := by
  obtain ⟨h0, h1, _⟩ := getIdx_some_iff.1 hg
  exact mem_elemValid.2 ⟨hm.bounds idx, h0, h1⟩

/-! ### `elemFromValue` -/

/-- the indices whose array element can still take a value of `[vmin, vmax]` -/
def elemFilt (arr : List Nat) (st : Store) (vmin vmax : Int) (valid : List Int) : List Int :=
  valid.filter (fun i =>
    match getIdx arr i with
    | none => false
    | some av => !(decide ((st av).dmax < vmin) || decide ((st av).dmin > vmax)))

theorem elemFromValue_eq (arr : List Nat) (idx val : Nat) (c : Ctx) :
    elemFromValue arr idx val c =
      if (elemValid arr.length idx c.st).length = 1 then
        match getIdx arr ((elemValid arr.length idx c.st).headD 0) with
        | none => some c
        | some av =>
          if (if (c.st av).dmin > (c.st val).dmin then (c.st av).dmin else (c.st val).dmin) >
              (if (c.st av).dmax < (c.st val).dmax then (c.st av).dmax else (c.st val).dmax) then none
          else setMinG av (if (c.st av).dmin > (c.st val).dmin then (c.st av).dmin else (c.st val).dmin) c
            >>>= (setMaxG av (if (c.st av).dmax < (c.st val).dmax then (c.st av).dmax else (c.st val).dmax) ·)
      else
        if (elemFilt arr c.st (c.st val).dmin (c.st val).dmax (elemValid arr.length idx c.st)).isEmpty then none
        else setMinG idx ((elemFilt arr c.st (c.st val).dmin (c.st val).dmax
              (elemValid arr.length idx c.st)).headD 0) c
          >>>= (setMaxG idx ((elemFilt arr c.st (c.st val).dmin (c.st val).dmax
              (elemValid arr.length idx c.st)).getLastD 0) ·) := rfl

theorem mem_elemFilt {arr : List Nat} {st : Store} {vmin vmax : Int} {valid : List Int} {i : Int} :
    i ∈ elemFilt arr st vmin vmax valid ↔
      i ∈ valid ∧ ∃ av, getIdx arr i = some av ∧ vmin ≤ (st av).dmax ∧ (st av).dmin ≤ vmax := by
  unfold elemFilt
  rw [List.mem_filter]
  constructor
  · rintro ⟨h1, h2⟩
    refine ⟨h1, ?_⟩
    cases hg : getIdx arr i with
    | none => rw [hg] at h2; cases h2
    | some av =>
      rw [hg] at h2
      simp only [Bool.not_eq_true', Bool.or_eq_false_iff, decide_eq_false_iff_not] at h2
      exact ⟨av, rfl, by omega, by omega⟩
  · rintro ⟨h1, av, hg, h2, h3⟩
    refine ⟨h1, ?_⟩
    rw [hg]
    simp only [Bool.not_eq_true', Bool.or_eq_false_iff, decide_eq_false_iff_not]
    omega

theorem elemFilt_congr {arr : List Nat} {st1 st2 : Store} (h : ∀ av ∈ arr, st1 av = st2 av)
    (vmin vmax : Int) (valid : List Int) :
    elemFilt arr st1 vmin vmax valid = elemFilt arr st2 vmin vmax valid := by
  unfold elemFilt
  congr 1
  funext i
  cases hg : getIdx arr i with
  | none => rfl
  | some av => simp only [h av (getIdx_mem hg)]

theorem elemFromValue_keeps {arr : List Nat} {idx val av : Nat} {c : Ctx} {a : Asg} (hm : Mem c.st a)
    (hg : getIdx arr (a idx) = some av) (he : a val = a av) : Keeps a (elemFromValue arr idx val c) := by
  have hv := sol_mem_valid hm hg
  have bv := hm.bounds val
  have ba := hm.bounds av
  rw [elemFromValue_eq]
  by_cases h1 : (elemValid arr.length idx c.st).length = 1
  · rw [if_pos h1, elemValid_head h1 hv, hg]
    show Keeps a (if _ then _ else _)
    rw [if_neg (by split <;> split <;> omega)]
    refine Keeps.bind (setMinG_keeps hm ?_) (fun c1 m1 => setMaxG_keeps m1 ?_) <;> (split <;> omega)
  · rw [if_neg h1]
    have hf : a idx ∈ elemFilt arr c.st (c.st val).dmin (c.st val).dmax (elemValid arr.length idx c.st) :=
      mem_elemFilt.2 ⟨hv, av, hg, by omega, by omega⟩
    have hs : (elemFilt arr c.st (c.st val).dmin (c.st val).dmax
        (elemValid arr.length idx c.st)).Pairwise (· ≤ ·) := (elemValid_sorted _ _ _).filter _
    rw [if_neg (by intro he; rw [List.isEmpty_iff.1 he] at hf; cases hf)]
    exact Keeps.bind (setMinG_keeps hm (sorted_headD_le hs hf 0))
      (fun c1 m1 => setMaxG_keeps m1 (sorted_le_getLastD hs hf 0))

theorem elemFromValue_good {T : List Nat} {arr : List Nat} {idx val : Nat} {c c' : Ctx}
    (hA : ∀ x ∈ arr, x ∈ T) (hi : idx ∈ T) (h : elemFromValue arr idx val c = some c') : Good T c c' := by
  rw [elemFromValue_eq] at h
  split at h
  · split at h
    · cases h; exact Good.refl _ _
    · rename_i av hg
      generalize (if (c.st av).dmin > (c.st val).dmin then (c.st av).dmin else (c.st val).dmin) = nmin at h
      generalize (if (c.st av).dmax < (c.st val).dmax then (c.st av).dmax else (c.st val).dmax) = nmax at h
      split at h
      · cases h
      · obtain ⟨c1, h1, h2⟩ := bind_some h
        have := hA av (getIdx_mem hg)
        exact (setMinG_good this h1).trans (setMaxG_good this h2)
  · split at h
    · cases h
    · obtain ⟨c1, h1, h2⟩ := bind_some h
      exact (setMinG_good hi h1).trans (setMaxG_good hi h2)

theorem elemFromValue_resp {T : List Nat} {arr : List Nat} {idx val : Nat} {c1 c2 : Ctx}
    (hA : ∀ x ∈ arr, x ∈ T) (hi : idx ∈ T) (hv : val ∈ T) (h : Agree T c1 c2) :
    RelO T (elemFromValue arr idx val c1) (elemFromValue arr idx val c2) := by
  rw [elemFromValue_eq, elemFromValue_eq]
  have e1 : elemValid arr.length idx c1.st = elemValid arr.length idx c2.st := by
    unfold elemValid; rw [h idx hi]
  rw [e1, h val hv, elemFilt_congr (fun av hav => h av (hA av hav))]
  refine RelO.ite (fun _ => ?_) (fun _ => ?_)
  · cases hg : getIdx arr ((elemValid arr.length idx c2.st).headD 0) with
    | none => exact RelO.some h
    | some av =>
      have hav := hA av (getIdx_mem hg)
      show RelO T (if _ then _ else _) (if _ then _ else _)
      rw [h av hav]
      refine RelO.ite (fun _ => RelO.none) (fun _ => ?_)
      exact RelO.bind (setMinG_resp _ hav h) (fun d1 d2 hd => setMaxG_resp _ hav hd)
  · refine RelO.ite (fun _ => RelO.none) (fun _ => ?_)
    exact RelO.bind (setMinG_resp _ hi h) (fun d1 d2 hd => setMaxG_resp _ hi hd)

/-! ### `elemFromIndex` -/

theorem elemFromIndex_keeps {arr : List Nat} {idx val av : Nat} {c : Ctx} {a : Asg} (hm : Mem c.st a)
    (hg : getIdx arr (a idx) = some av) (he : a val = a av) : Keeps a (elemFromIndex arr idx val c) := by
  have hv := sol_mem_valid hm hg
  simp only [elemFromIndex]
  rw [if_neg (by intro he; rw [List.isEmpty_iff.1 he] at hv; cases hv)]
  by_cases h1 : (elemValid arr.length idx c.st).length = 1
  · rw [if_pos h1, elemValid_head h1 hv, hg]
    exact intersectSet_keeps hm he
  · rw [if_neg h1]
    have hav : av ∈ (elemValid arr.length idx c.st).filterMap (getIdx arr) :=
      List.mem_filterMap.2 ⟨a idx, hv, hg⟩
    rw [if_neg (by intro he; rw [List.isEmpty_iff.1 he] at hav; cases hav)]
    have ba := hm.bounds av
    refine Keeps.bind (setMinG_keeps hm ?_) (fun c1 m1 => setMaxG_keeps m1 ?_)
    · have := Dom.dmin_le _ _ (List.mem_map_of_mem (f := fun av => (c.st av).dmin) hav)
      omega
    · have := Dom.le_dmax _ _ (List.mem_map_of_mem (f := fun av => (c.st av).dmax) hav)
      omega

theorem elemFromIndex_good {T : List Nat} {arr : List Nat} {idx val : Nat} {c c' : Ctx}
    (hA : ∀ x ∈ arr, x ∈ T) (hv : val ∈ T) (h : elemFromIndex arr idx val c = some c') : Good T c c' := by
  simp only [elemFromIndex] at h
  split at h
  · cases h
  · split at h
    · split at h
      · cases h; exact Good.refl _ _
      · rename_i av hg
        exact intersectSet_good hv (hA av (getIdx_mem hg)) h
    · split at h
      · cases h; exact Good.refl _ _
      · obtain ⟨c1, h1, h2⟩ := bind_some h
        exact (setMinG_good hv h1).trans (setMaxG_good hv h2)

theorem elemFromIndex_resp {T : List Nat} {arr : List Nat} {idx val : Nat} {c1 c2 : Ctx}
    (hA : ∀ x ∈ arr, x ∈ T) (hi : idx ∈ T) (hv : val ∈ T) (h : Agree T c1 c2) :
    RelO T (elemFromIndex arr idx val c1) (elemFromIndex arr idx val c2) := by
  simp only [elemFromIndex]
  have e1 : elemValid arr.length idx c1.st = elemValid arr.length idx c2.st := by
    unfold elemValid; rw [h idx hi]
  have hmem : ∀ av ∈ (elemValid arr.length idx c2.st).filterMap (getIdx arr), c1.st av = c2.st av := by
    intro av hav
    obtain ⟨i, _, hg⟩ := List.mem_filterMap.1 hav
    exact h av (hA av (getIdx_mem hg))
  have e2 : ((elemValid arr.length idx c2.st).filterMap (getIdx arr)).map (fun av => (c1.st av).dmin) =
      ((elemValid arr.length idx c2.st).filterMap (getIdx arr)).map (fun av => (c2.st av).dmin) :=
    List.map_congr_left (fun av hav => by rw [hmem av hav])
  have e3 : ((elemValid arr.length idx c2.st).filterMap (getIdx arr)).map (fun av => (c1.st av).dmax) =
      ((elemValid arr.length idx c2.st).filterMap (getIdx arr)).map (fun av => (c2.st av).dmax) :=
    List.map_congr_left (fun av hav => by rw [hmem av hav])
  rw [e1, e2, e3]
  refine RelO.ite (fun _ => RelO.none) (fun _ => ?_)
  refine RelO.ite (fun _ => ?_) (fun _ => ?_)
  · cases hg : getIdx arr ((elemValid arr.length idx c2.st).headD 0) with
    | none => exact RelO.some h
    | some av => exact intersectSet_resp hv (hA av (getIdx_mem hg)) h
  · refine RelO.ite (fun _ => RelO.some h) (fun _ => ?_)
    exact RelO.bind (setMinG_resp _ hv h) (fun d1 d2 hd => setMaxG_resp _ hv hd)

/-! ### `element` -/

theorem element_arr_mem (arr : List Nat) (idx val : Nat) :
    ∀ x ∈ arr, x ∈ triggers (.element arr idx val) := fun _ h => List.mem_append.2 (Or.inl h)

theorem element_idx_mem (arr : List Nat) (idx val : Nat) : idx ∈ triggers (.element arr idx val) :=
  List.mem_append.2 (Or.inr (List.mem_cons_self ..))

theorem element_val_mem (arr : List Nat) (idx val : Nat) : val ∈ triggers (.element arr idx val) :=
  List.mem_append.2 (Or.inr (List.mem_cons_of_mem _ (List.mem_cons_self ..)))

/-- the meaning of `element` in propositional form -/
theorem holds_element {a : Asg} {arr : List Nat} {idx val : Nat} :
    holds a (.element arr idx val) = true ↔ ∃ av, getIdx arr (a idx) = some av ∧ a val = a av := by
  simp only [holds]
  cases hg : getIdx arr (a idx) with
  | none => simp
  | some av => simp

theorem sound_element (arr : List Nat) (idx val : Nat) :
    Sound (prune (.element arr idx val)) (fun a => holds a (.element arr idx val) = true) := by
  intro c a hm hs
  obtain ⟨av, hg, he⟩ := holds_element.1 hs
  obtain ⟨h0, h1, _⟩ := getIdx_some_iff.1 hg
  have bi := hm.bounds idx
  show Keeps a (pruneElement arr idx val c)
  simp only [pruneElement]
  rw [if_neg (by omega)]
  refine Keeps.bind (Keeps.bind (Keeps.ite (fun _ => Ctx.trySetMin_keeps hm h0) (fun _ => Keeps.some hm))
    (fun c1 m1 => Keeps.ite (fun _ => Ctx.trySetMax_keeps m1 (by omega)) (fun _ => Keeps.some m1)))
    (fun c2 m2 => ?_)
  refine Keeps.ite (fun hfx => ?_) (fun _ => ?_)
  · have : (c2.st idx).dmin = a idx := (eq_of_bounds_eq m2 hfx).symm
    rw [this, hg]
    exact intersectSet_keeps m2 he.symm
  · exact Keeps.bind (elemFromValue_keeps m2 hg he) (fun c3 m3 => elemFromIndex_keeps m3 hg he)

theorem contracting_element (arr : List Nat) (idx val : Nat) :
    Contracting (prune (.element arr idx val)) (triggers (.element arr idx val)) := by
  intro c c' h
  have hA := element_arr_mem arr idx val
  have hiT := element_idx_mem arr idx val
  have hvT := element_val_mem arr idx val
  change pruneElement arr idx val c = some c' at h
  simp only [pruneElement] at h
  split at h
  · cases h
  · obtain ⟨c2, h12, h3⟩ := bind_some h
    obtain ⟨c1, h1, h2⟩ := bind_some h12
    have g1 : Good (triggers (.element arr idx val)) c c1 := by
      split at h1
      · exact Ctx.trySetMin_good hiT h1
      · cases h1; exact Good.refl _ _
    have g2 : Good (triggers (.element arr idx val)) c1 c2 := by
      split at h2
      · exact Ctx.trySetMax_good hiT h2
      · cases h2; exact Good.refl _ _
    refine (g1.trans g2).trans ?_
    split at h3
    · split at h3
      · cases h3; exact Good.refl _ _
      · rename_i av hg
        exact intersectSet_good (hA av (getIdx_mem hg)) hvT h3
    · obtain ⟨c3, h4, h5⟩ := bind_some h3
      exact (elemFromValue_good hA hiT h4).trans (elemFromIndex_good hA hvT h5)

theorem checking_element (arr : List Nat) (idx val : Nat) :
    Checking (prune (.element arr idx val)) (fun a => holds a (.element arr idx val) = true)
      (triggers (.element arr idx val)) := by
  intro c c' a hf hm h
  have hA := element_arr_mem arr idx val
  have hiT := element_idx_mem arr idx val
  have hvT := element_val_mem arr idx val
  obtain ⟨w, hw⟩ := hf idx hiT
  have ew : a idx = w := fixed_eq hm hw
  change pruneElement arr idx val c = some c' at h
  simp only [pruneElement] at h
  by_cases hgd : (c.st idx).dmax < 0 ∨ (c.st idx).dmin ≥ (arr.length : Int)
  · rw [if_pos hgd] at h; cases h
  · rw [if_neg hgd] at h
    rw [(fixed_bounds hw).1, (fixed_bounds hw).2] at hgd
    obtain ⟨c2, h12, h3⟩ := bind_some h
    obtain ⟨c1, h1, h2⟩ := bind_some h12
    have g1 : Good (triggers (.element arr idx val)) c c1 := by
      split at h1
      · exact Ctx.trySetMin_good hiT h1
      · cases h1; exact Good.refl _ _
    have g2 : Good (triggers (.element arr idx val)) c1 c2 := by
      split at h2
      · exact Ctx.trySetMax_good hiT h2
      · cases h2; exact Good.refl _ _
    have g := g1.trans g2
    have hw2 := good_fixed g hm.nonEmpty hw
    rw [(fixed_bounds hw2).1, (fixed_bounds hw2).2, if_pos rfl] at h3
    obtain ⟨av, hg⟩ := getIdx_isSome (arr := arr) (i := w) (by omega) (by omega)
    rw [hg] at h3
    have h3 : intersectSet av val c2 = some c' := h3
    obtain ⟨wa, hwa⟩ := hf av (hA av (getIdx_mem hg))
    obtain ⟨wv, hwv⟩ := hf val hvT
    have e := intersectSet_fixed (good_fixed g hm.nonEmpty hwa) (good_fixed g hm.nonEmpty hwv) h3
    refine holds_element.2 ⟨av, by rw [ew]; exact hg, ?_⟩
    rw [fixed_eq hm hwa, fixed_eq hm hwv, e]

theorem resp_element (arr : List Nat) (idx val : Nat) :
    Resp (triggers (.element arr idx val)) (prune (.element arr idx val)) := by
  intro c1 c2 hag
  have hA := element_arr_mem arr idx val
  have hiT := element_idx_mem arr idx val
  have hvT := element_val_mem arr idx val
  show RelO _ (pruneElement arr idx val c1) (pruneElement arr idx val c2)
  simp only [pruneElement]
  rw [hag idx hiT]
  refine RelO.ite (fun _ => RelO.none) (fun _ => ?_)
  refine RelO.bind (RelO.bind (RelO.ite (fun _ => Ctx.trySetMin_resp _ hiT hag) (fun _ => RelO.some hag))
    (fun d1 d2 hd => ?_)) (fun d1 d2 hd => ?_)
  · rw [hd idx hiT]
    exact RelO.ite (fun _ => Ctx.trySetMax_resp _ hiT hd) (fun _ => RelO.some hd)
  · rw [hd idx hiT]
    refine RelO.ite (fun _ => ?_) (fun _ => ?_)
    · cases hg : getIdx arr (d2.st idx).dmin with
      | none => exact RelO.some hd
      | some av => exact intersectSet_resp (hA av (getIdx_mem hg)) hvT hd
    · exact RelO.bind (elemFromValue_resp hA hiT hvT hd) (fun e1 e2 he => elemFromIndex_resp hA hiT hvT he)

theorem contract_element (arr : List Nat) (idx val : Nat) :
    Contract (prune (.element arr idx val)) (fun a => holds a (.element arr idx val) = true)
      (triggers (.element arr idx val)) :=
  ⟨sound_element arr idx val, contracting_element arr idx val, checking_element arr idx val,
    resp_element arr idx val⟩

end PK
end KElement
end Selen

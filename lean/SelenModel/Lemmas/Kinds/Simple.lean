import SelenModel.Lemmas.Kinds.Common2
/-
Contract proofs for the propagator kinds `between`, `allEqual`, `ite`.
-/
namespace Selen
namespace KSimple
open Selen.PK Selen.Lin Selen.IView Selen.Ctx Selen.Dom Selen.KAbsMinMax.PK Selen.K2
namespace PK

/-! ### between -/

theorem sound_between (l m u : Nat) :
    Sound (prune (.between l m u)) (fun a => holds a (.between l m u) = true) := by
  intro c a hm hs
  simp only [holds, Bool.and_eq_true, decide_eq_true_eq] at hs
  have hl := hm.bounds l
  have hmm := hm.bounds m
  have hu := hm.bounds u
  show Keeps a (pruneBetween l m u c)
  simp only [pruneBetween]
  refine Keeps.bind (Keeps.bind (Keeps.bind (Ctx.trySetMax_keeps hm (by omega))
    (fun c1 m1 => Ctx.trySetMin_keeps m1 (by omega)))
    (fun c2 m2 => Ctx.trySetMax_keeps m2 (by omega)))
    (fun c3 m3 => Ctx.trySetMin_keeps m3 (by omega))

theorem contracting_between (l m u : Nat) :
    Contracting (prune (.between l m u)) (triggers (.between l m u)) := by
  intro c c' h
  show Good [l, m, u] c c'
  change pruneBetween l m u c = some c' at h
  simp only [pruneBetween] at h
  obtain ⟨c3, h, h4⟩ := bind_some h
  obtain ⟨c2, h, h3⟩ := bind_some h
  obtain ⟨c1, h1, h2⟩ := bind_some h
  have hl : l ∈ [l, m, u] := by simp
  have hmT : m ∈ [l, m, u] := by simp
  have hu : u ∈ [l, m, u] := by simp
  exact (((Ctx.trySetMax_good hl h1).trans (Ctx.trySetMin_good hmT h2)).trans
    (Ctx.trySetMax_good hmT h3)).trans (Ctx.trySetMin_good hu h4)

theorem checking_between (l m u : Nat) :
    Checking (prune (.between l m u)) (fun a => holds a (.between l m u) = true)
      (triggers (.between l m u)) := by
  intro c c' a hf hm h
  have hf : FixedOn [l, m, u] c.st := hf
  obtain ⟨wl, hwl⟩ := hf l (by simp)
  obtain ⟨wm, hwm⟩ := hf m (by simp)
  obtain ⟨wu, hwu⟩ := hf u (by simp)
  have el := fixed_eq hm hwl
  have em := fixed_eq hm hwm
  have eu := fixed_eq hm hwu
  change pruneBetween l m u c = some c' at h
  simp only [pruneBetween] at h
  rw [(fixed_bounds hwl).1, (fixed_bounds hwm).1, (fixed_bounds hwm).2, (fixed_bounds hwu).2] at h
  obtain ⟨c3, h, h4⟩ := bind_some h
  obtain ⟨c2, h, h3⟩ := bind_some h
  obtain ⟨c1, h1, h2⟩ := bind_some h
  obtain ⟨e1, t1⟩ := Ctx.trySetMax_fixed hwl h1
  subst e1
  obtain ⟨e2, t2⟩ := Ctx.trySetMin_fixed hwm h2
  subst e2
  obtain ⟨e3, t3⟩ := Ctx.trySetMax_fixed hwm h3
  subst e3
  obtain ⟨_, t4⟩ := Ctx.trySetMin_fixed hwu h4
  simp only [holds, Bool.and_eq_true, decide_eq_true_eq]
  omega

theorem resp_between (l m u : Nat) :
    Resp (triggers (.between l m u)) (prune (.between l m u)) := by
  intro c1 c2 hag
  have hag : Agree [l, m, u] c1 c2 := hag
  show RelO [l, m, u] (pruneBetween l m u c1) (pruneBetween l m u c2)
  have hl : l ∈ [l, m, u] := by simp
  have hmT : m ∈ [l, m, u] := by simp
  have hu : u ∈ [l, m, u] := by simp
  simp only [pruneBetween]
  rw [hag l hl, hag m hmT, hag u hu]
  exact RelO.bind (RelO.bind (RelO.bind (Ctx.trySetMax_resp _ hl hag)
    (fun d1 d2 hd => Ctx.trySetMin_resp _ hmT hd))
    (fun d1 d2 hd => Ctx.trySetMax_resp _ hmT hd))
    (fun d1 d2 hd => Ctx.trySetMin_resp _ hu hd)

theorem contract_between (l m u : Nat) :
    Contract (prune (.between l m u)) (fun a => holds a (.between l m u) = true)
      (triggers (.between l m u)) :=
  ⟨sound_between l m u, contracting_between l m u, checking_between l m u, resp_between l m u⟩

/-! ### allEqual -/

theorem sound_allEqual (xs : List Nat) :
    Sound (prune (.allEqual xs)) (fun a => holds a (.allEqual xs) = true) := by
  intro c a hm hs
  show Keeps a (pruneAllEqual xs c)
  cases xs with
  | nil => exact Keeps.some hm
  | cons x0 rest =>
    simp only [holds, List.all_eq_true, beq_iff_eq] at hs
    have hall : ∀ x ∈ x0 :: rest, a x = a x0 := by
      intro x hx
      rcases List.mem_cons.1 hx with rfl | hx
      · rfl
      · exact hs x hx
    obtain ⟨_, j1, hj1, lo1⟩ := foldl_maxf_cons (fun x => (c.st x).dmin) x0 rest
    obtain ⟨_, j2, hj2, hi1⟩ := foldl_minf_cons (fun x => (c.st x).dmax) x0 rest
    have b1 := (hm.bounds j1).1
    have b2 := (hm.bounds j2).2
    have e1 := hall j1 hj1
    have e2 := hall j2 hj2
    simp only [pruneAllEqual]
    rw [if_neg (by rw [lo1, hi1]; omega)]
    refine forM'_keeps ?_ hm
    intro x hx d md
    have ex := hall x hx
    exact Keeps.bind (setMinG_keeps md (by rw [lo1]; omega))
      (fun d1 md1 => setMaxG_keeps md1 (by rw [hi1]; omega))

theorem contracting_allEqual (xs : List Nat) :
    Contracting (prune (.allEqual xs)) (triggers (.allEqual xs)) := by
  intro c c' h
  show Good xs c c'
  change pruneAllEqual xs c = some c' at h
  cases xs with
  | nil => simp only [pruneAllEqual] at h; cases h; exact Good.refl _ _
  | cons x0 rest =>
    simp only [pruneAllEqual] at h
    split at h
    · cases h
    · refine forM'_good ?_ h
      intro x hx d d' hd
      obtain ⟨d1, k1, k2⟩ := bind_some hd
      exact (setMinG_good hx k1).trans (setMaxG_good hx k2)

theorem checking_allEqual (xs : List Nat) :
    Checking (prune (.allEqual xs)) (fun a => holds a (.allEqual xs) = true)
      (triggers (.allEqual xs)) := by
  intro c c' a hf hm h
  change pruneAllEqual xs c = some c' at h
  cases xs with
  | nil => rfl
  | cons x0 rest =>
    have hf : FixedOn (x0 :: rest) c.st := hf
    simp only [pruneAllEqual] at h
    split at h
    · cases h
    · rename_i hle
      obtain ⟨lo1, _⟩ := foldl_maxf_cons (fun x => (c.st x).dmin) x0 rest
      obtain ⟨hi1, _⟩ := foldl_minf_cons (fun x => (c.st x).dmax) x0 rest
      have hv : ∀ x ∈ x0 :: rest, (c.st x).dmin = a x ∧ (c.st x).dmax = a x :=
        fun x hx => fixed_val hm (hf x hx)
      simp only [holds, List.all_eq_true, beq_iff_eq]
      intro x hx
      have hx' : x ∈ x0 :: rest := List.mem_cons_of_mem _ hx
      have h0 : x0 ∈ x0 :: rest := List.mem_cons_self ..
      have := lo1 x hx'; have := lo1 x0 h0
      have := hi1 x hx'; have := hi1 x0 h0
      have := hv x hx'; have := hv x0 h0
      omega

theorem resp_allEqual (xs : List Nat) :
    Resp (triggers (.allEqual xs)) (prune (.allEqual xs)) := by
  intro c1 c2 hag
  have hag : Agree xs c1 c2 := hag
  show RelO xs (pruneAllEqual xs c1) (pruneAllEqual xs c2)
  cases xs with
  | nil => exact RelO.some hag
  | cons x0 rest =>
    have hrest : ∀ x ∈ rest, x ∈ x0 :: rest := fun x h => List.mem_cons_of_mem _ h
    simp only [pruneAllEqual]
    rw [foldl_congr_mem (g1 := fun acc x => if (c1.st x).dmin > acc then (c1.st x).dmin else acc)
          (g2 := fun acc x => if (c2.st x).dmin > acc then (c2.st x).dmin else acc)
          (fun x h acc => by rw [hag x (hrest x h)]),
        foldl_congr_mem (g1 := fun acc x => if (c1.st x).dmax < acc then (c1.st x).dmax else acc)
          (g2 := fun acc x => if (c2.st x).dmax < acc then (c2.st x).dmax else acc)
          (fun x h acc => by rw [hag x (hrest x h)]),
        hag x0 (List.mem_cons_self ..)]
    refine RelO.ite (fun _ => RelO.none) (fun _ => ?_)
    refine forM'_resp ?_ hag
    intro x hx d1 d2 hd
    exact RelO.bind (setMinG_resp _ hx hd) (fun e1 e2 he => setMaxG_resp _ hx he)

theorem contract_allEqual (xs : List Nat) :
    Contract (prune (.allEqual xs)) (fun a => holds a (.allEqual xs) = true)
      (triggers (.allEqual xs)) :=
  ⟨sound_allEqual xs, contracting_allEqual xs, checking_allEqual xs, resp_allEqual xs⟩

/-- the empty list: nothing to do (before the repair `fix: AllEqual over no variables holds` the
propagator failed here) -/
theorem allEqual_empty (c : Ctx) : prune (.allEqual []) c = some c := rfl

/-! ### `simpApply` -/

theorem simpApply_keeps {op : SimpOp} {x : Nat} {v : Int} {c : Ctx} {a : Asg}
    (hs : SimpOp.holds op (a x) v = true) (hm : Mem c.st a) : Keeps a (simpApply op x v c) := by
  have hb := hm.bounds x
  cases op <;> simp only [SimpOp.holds, beq_iff_eq, bne_iff_ne, ne_eq, decide_eq_true_eq] at hs <;>
    simp only [simpApply]
  · exact Keeps.bind (Ctx.trySetMin_keeps hm (by omega)) (fun c1 m1 => Ctx.trySetMax_keeps m1 (by omega))
  · refine Keeps.ite (fun h1 => Ctx.trySetMin_keeps hm (by omega)) (fun _ => ?_)
    exact Keeps.ite (fun h2 => Ctx.trySetMax_keeps hm (by omega)) (fun _ => Keeps.some hm)
  · exact Ctx.trySetMin_keeps hm (by omega)
  · exact Ctx.trySetMax_keeps hm (by omega)
  · exact Ctx.trySetMin_keeps hm (by omega)
  · exact Ctx.trySetMax_keeps hm (by omega)

theorem simpApply_good {T : List Nat} {op : SimpOp} {x : Nat} {v : Int} {c c' : Ctx} (hx : x ∈ T)
    (h : simpApply op x v c = some c') : Good T c c' := by
  cases op <;> simp only [simpApply] at h
  · obtain ⟨c1, h1, h2⟩ := bind_some h
    exact (Ctx.trySetMin_good hx h1).trans (Ctx.trySetMax_good hx h2)
  · split at h
    · exact Ctx.trySetMin_good hx h
    · split at h
      · exact Ctx.trySetMax_good hx h
      · cases h; exact Good.refl _ _
  · exact Ctx.trySetMin_good hx h
  · exact Ctx.trySetMax_good hx h
  · exact Ctx.trySetMin_good hx h
  · exact Ctx.trySetMax_good hx h

theorem simpApply_fixed {op : SimpOp} {x : Nat} {v w : Int} {c c' : Ctx} (hf : c.st x = [w])
    (h : simpApply op x v c = some c') : SimpOp.holds op w v = true := by
  cases op <;> simp only [simpApply] at h <;>
    simp only [SimpOp.holds, beq_iff_eq, bne_iff_ne, ne_eq, decide_eq_true_eq]
  · obtain ⟨c1, h1, h2⟩ := bind_some h
    obtain ⟨e1, t1⟩ := Ctx.trySetMin_fixed hf h1
    subst e1
    obtain ⟨_, t2⟩ := Ctx.trySetMax_fixed hf h2
    omega
  · rw [(fixed_bounds hf).1, (fixed_bounds hf).2] at h
    split at h
    · have := (Ctx.trySetMin_fixed hf h).2; omega
    · assumption
  · have := (Ctx.trySetMin_fixed hf h).2; omega
  · have := (Ctx.trySetMax_fixed hf h).2; omega
  · have := (Ctx.trySetMin_fixed hf h).2; omega
  · have := (Ctx.trySetMax_fixed hf h).2; omega

theorem simpApply_resp {T : List Nat} {c1 c2 : Ctx} (op : SimpOp) {x : Nat} (v : Int) (hx : x ∈ T)
    (h : Agree T c1 c2) : RelO T (simpApply op x v c1) (simpApply op x v c2) := by
  cases op <;> simp only [simpApply]
  · exact RelO.bind (Ctx.trySetMin_resp _ hx h) (fun d1 d2 hd => Ctx.trySetMax_resp _ hx hd)
  · rw [h x hx]
    refine RelO.ite (fun _ => Ctx.trySetMin_resp _ hx h) (fun _ => ?_)
    exact RelO.ite (fun _ => Ctx.trySetMax_resp _ hx h) (fun _ => RelO.some h)
  · exact Ctx.trySetMin_resp _ hx h
  · exact Ctx.trySetMax_resp _ hx h
  · exact Ctx.trySetMin_resp _ hx h
  · exact Ctx.trySetMax_resp _ hx h

/-! ### the condition tests -/

theorem condDefTrue_holds {cop : CondOp} {mn mx y v : Int} (h1 : mn ≤ y) (h2 : y ≤ mx)
    (h : condDefTrue cop mn mx v = true) : CondOp.holds cop y v = true := by
  cases cop <;>
    simp only [condDefTrue, Bool.and_eq_true, Bool.or_eq_true, beq_iff_eq, decide_eq_true_eq] at h <;>
    simp only [CondOp.holds, beq_iff_eq, bne_iff_ne, ne_eq, decide_eq_true_eq] <;> omega

theorem condDefFalse_holds {cop : CondOp} {mn mx y v : Int} (h1 : mn ≤ y) (h2 : y ≤ mx)
    (h : condDefFalse cop mn mx v = true) : CondOp.holds cop y v = false := by
  cases cop <;>
    simp only [condDefFalse, Bool.and_eq_true, Bool.or_eq_true, beq_iff_eq, decide_eq_true_eq] at h <;>
    simp only [CondOp.holds, beq_eq_false_iff_ne, bne_eq_false_iff_eq, ne_eq, decide_eq_false_iff_not] <;>
    omega

/-- on a fixed variable the two tests are decisive -/
theorem condDef_fixed (cop : CondOp) (w v : Int) :
    condDefTrue cop w w v = CondOp.holds cop w v ∧ condDefFalse cop w w v = !CondOp.holds cop w v := by
  cases cop <;> unfold condDefTrue condDefFalse CondOp.holds <;> refine ⟨?_, ?_⟩ <;>
    rw [Bool.eq_iff_iff] <;>
    simp only [Bool.and_eq_true, Bool.or_eq_true, beq_iff_eq, bne_iff_ne, ne_eq, decide_eq_true_eq,
      Bool.not_eq_true', beq_eq_false_iff_ne, bne_eq_false_iff_eq, decide_eq_false_iff_not,
      true_and] <;> omega

/-! ### ite -/

theorem sound_ite (cop : CondOp) (cv : Nat) (cval : Int) (top : SimpOp) (tv : Nat) (tval : Int)
    (els : Option (SimpOp × Nat × Int)) :
    Sound (prune (.ite cop cv cval top tv tval els))
      (fun a => holds a (.ite cop cv cval top tv tval els) = true) := by
  intro c a hm hs
  have hb := hm.bounds cv
  show Keeps a (pruneIte cop cv cval top tv tval els c)
  simp only [pruneIte]
  refine Keeps.ite (fun h1 => ?_) (fun _ => Keeps.ite (fun h2 => ?_) (fun _ => Keeps.some hm))
  · have hc := condDefTrue_holds hb.1 hb.2 h1
    simp only [holds, hc, if_true] at hs
    exact simpApply_keeps hs hm
  · have hc := condDefFalse_holds hb.1 hb.2 h2
    cases els with
    | none => exact Keeps.some hm
    | some p =>
      obtain ⟨op, x, v⟩ := p
      simp only [holds, hc] at hs
      exact simpApply_keeps hs hm

theorem contracting_ite (cop : CondOp) (cv : Nat) (cval : Int) (top : SimpOp) (tv : Nat) (tval : Int)
    (els : Option (SimpOp × Nat × Int)) :
    Contracting (prune (.ite cop cv cval top tv tval els))
      (triggers (.ite cop cv cval top tv tval els)) := by
  intro c c' h
  change pruneIte cop cv cval top tv tval els c = some c' at h
  simp only [pruneIte] at h
  split at h
  · exact simpApply_good (by simp [triggers]) h
  · split at h
    · cases els with
      | none => cases h; exact Good.refl _ _
      | some p =>
        obtain ⟨op, x, v⟩ := p
        exact simpApply_good (by simp [triggers]) h
    · cases h; exact Good.refl _ _

theorem checking_ite (cop : CondOp) (cv : Nat) (cval : Int) (top : SimpOp) (tv : Nat) (tval : Int)
    (els : Option (SimpOp × Nat × Int)) :
    Checking (prune (.ite cop cv cval top tv tval els))
      (fun a => holds a (.ite cop cv cval top tv tval els) = true)
      (triggers (.ite cop cv cval top tv tval els)) := by
  intro c c' a hf hm h
  obtain ⟨w, hw⟩ := hf cv (by simp [triggers])
  obtain ⟨wt, hwt⟩ := hf tv (by simp [triggers])
  have ec := fixed_eq hm hw
  have et := fixed_eq hm hwt
  change pruneIte cop cv cval top tv tval els c = some c' at h
  simp only [pruneIte] at h
  rw [(fixed_bounds hw).1, (fixed_bounds hw).2, (condDef_fixed cop w cval).1,
    (condDef_fixed cop w cval).2] at h
  show holds a (.ite cop cv cval top tv tval els) = true
  simp only [holds]
  rw [ec]
  cases hc : CondOp.holds cop w cval with
  | true =>
    rw [hc] at h
    simp only [if_true] at h ⊢
    rw [et]
    exact simpApply_fixed hwt h
  | false =>
    rw [hc] at h
    simp only [Bool.not_false, if_true, Bool.false_eq_true, if_false] at h ⊢
    cases els with
    | none => rfl
    | some p =>
      obtain ⟨op, x, v⟩ := p
      obtain ⟨wx, hwx⟩ := hf x (by simp [triggers])
      have ex := fixed_eq hm hwx
      show SimpOp.holds op (a x) v = true
      rw [ex]
      exact simpApply_fixed hwx h

theorem resp_ite (cop : CondOp) (cv : Nat) (cval : Int) (top : SimpOp) (tv : Nat) (tval : Int)
    (els : Option (SimpOp × Nat × Int)) :
    Resp (triggers (.ite cop cv cval top tv tval els))
      (prune (.ite cop cv cval top tv tval els)) := by
  intro c1 c2 hag
  show RelO _ (pruneIte cop cv cval top tv tval els c1) (pruneIte cop cv cval top tv tval els c2)
  simp only [pruneIte]
  rw [hag cv (by simp [triggers])]
  refine RelO.ite (fun _ => simpApply_resp _ _ (by simp [triggers]) hag) (fun _ => ?_)
  refine RelO.ite (fun _ => ?_) (fun _ => RelO.some hag)
  cases els with
  | none => exact RelO.some hag
  | some p =>
    obtain ⟨op, x, v⟩ := p
    exact simpApply_resp _ _ (by simp [triggers]) hag

theorem contract_ite (cop : CondOp) (cv : Nat) (cval : Int) (top : SimpOp) (tv : Nat) (tval : Int)
    (els : Option (SimpOp × Nat × Int)) :
    Contract (prune (.ite cop cv cval top tv tval els))
      (fun a => holds a (.ite cop cv cval top tv tval els) = true)
      (triggers (.ite cop cv cval top tv tval els)) :=
  ⟨sound_ite cop cv cval top tv tval els, contracting_ite cop cv cval top tv tval els,
   checking_ite cop cv cval top tv tval els, resp_ite cop cv cval top tv tval els⟩

end PK
end KSimple
end Selen

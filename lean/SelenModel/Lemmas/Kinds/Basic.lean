import SelenModel.Lemmas.Views
/-
Contract proofs for the comparison and addition propagators: `leq`, `eq`, `neq` (partial), `add`.
-/
namespace Selen
namespace PK

theorem optL_mem {o : Option Nat} {i : Nat} : i ∈ optL o ↔ o = some i := by
  cases o <;> simp [optL, eq_comm]

theorem underIn_of (v : IView) (T : List Nat) (h : ∀ i, i ∈ optL v.underlying → i ∈ T) : v.UnderIn T :=
  fun i hi => h i (optL_mem.2 hi)

theorem fixedOn_view {T : List Nat} {st : Store} (hf : FixedOn T st) {v : IView} (hT : v.UnderIn T) :
    ∀ i, v.underlying = some i → ∃ w, st i = [w] := fun i hi => hf i (hT i hi)

/-! ### leq -/

theorem contract_leq (x y : IView) (hx : x.WF) (hy : y.WF) :
    Contract (prune (.leq x y)) (fun a => holds a (.leq x y) = true) (triggers (.leq x y)) := by
  have hxT : x.UnderIn (triggers (.leq x y)) := underIn_of _ _ (fun i h => List.mem_append.2 (Or.inl h))
  have hyT : y.UnderIn (triggers (.leq x y)) := underIn_of _ _ (fun i h => List.mem_append.2 (Or.inr h))
  refine ⟨?_, ?_, ?_, ?_⟩
  · intro c a hm hs
    have hs : x.eval a ≤ y.eval a := by simpa [holds] using hs
    obtain ⟨c1, e1, m1⟩ := IView.keeps_max hx hm (m := y.vmax c) (by have := (y.bounds hy hm).2; simp only [IView.vmax]; omega)
    obtain ⟨c2, e2, m2⟩ := IView.keeps_min hy m1 (m := x.vmin c1) (by have := (x.bounds hx m1).1; simp only [IView.vmin]; omega)
    exact ⟨c2, by simp [prune, e1, e2], m2⟩
  · intro c c' h
    simp only [prune] at h
    obtain ⟨c1, h1, h2⟩ := bind_some h
    exact (IView.good_max hxT h1).trans (IView.good_min hyT h2)
  · intro c c' a hf hm h
    simp only [prune] at h
    obtain ⟨c1, h1, h2⟩ := bind_some h
    have := (IView.fixed x hx).2 _ c c1 a hm (fixedOn_view hf hxT) h1
    have hb := y.bounds_fixed hm (fixedOn_view hf hyT)
    simp only [holds, decide_eq_true_eq]
    simp only [IView.vmax] at this; omega
  · intro c1 c2 hag
    simp only [prune]
    rw [IView.vmax_agree hyT hag]
    refine RelO.bind ((IView.resp x _ hxT).2 _ c1 c2 hag) ?_
    intro d1 d2 hd
    rw [IView.vmin_agree hxT hd]
    exact (IView.resp y _ hyT).1 _ d1 d2 hd

/-! ### neq (since fix: NotEquals fails when both sides are fixed to the same value) -/

theorem contract_neq (x y : IView) (hx : x.WF) (hy : y.WF) :
    Contract (prune (.neq x y)) (fun a => holds a (.neq x y) = true) (triggers (.neq x y)) := by
  have hxT : x.UnderIn (triggers (.neq x y)) := underIn_of _ _ (fun i h => List.mem_append.2 (Or.inl h))
  have hyT : y.UnderIn (triggers (.neq x y)) := underIn_of _ _ (fun i h => List.mem_append.2 (Or.inr h))
  refine ⟨?_, ?_, ?_, ?_⟩
  · intro c a hm hs
    have hs : x.eval a ≠ y.eval a := by simpa [holds] using hs
    have bx := x.bounds hx hm
    have by' := y.bounds hy hm
    refine ⟨c, ?_, hm⟩
    simp only [prune]
    rw [if_neg]
    rintro ⟨h1, h2, h3⟩
    simp only [IView.vmin, IView.vmax] at h1 h2 h3
    omega
  · intro c c' h
    simp only [prune] at h
    split at h
    · cases h
    · cases h; exact Good.refl _ _
  · intro c c' a hf hm h
    simp only [prune] at h
    have bx := x.bounds_fixed hm (fixedOn_view hf hxT)
    have by' := y.bounds_fixed hm (fixedOn_view hf hyT)
    simp only [holds, bne_iff_ne, ne_eq]
    intro heq
    split at h
    · cases h
    · rename_i hn
      apply hn
      simp only [IView.vmin, IView.vmax]
      omega
  · intro c1 c2 hag
    simp only [prune]
    rw [IView.vmin_agree hxT hag, IView.vmax_agree hxT hag, IView.vmin_agree hyT hag, IView.vmax_agree hyT hag]
    split
    · exact RelO.none
    · exact RelO.some hag

/-! ### eq -/

theorem contract_eq (x y : IView) (hx : x.WF) (hy : y.WF) :
    Contract (prune (.eq x y)) (fun a => holds a (.eq x y) = true) (triggers (.eq x y)) := by
  have hxT : x.UnderIn (triggers (.eq x y)) := underIn_of _ _ (fun i h => List.mem_append.2 (Or.inl h))
  have hyT : y.UnderIn (triggers (.eq x y)) := underIn_of _ _ (fun i h => List.mem_append.2 (Or.inr h))
  refine ⟨?_, ?_, ?_, ?_⟩
  · intro c a hm hs
    have hs : x.eval a = y.eval a := by simpa [holds] using hs
    obtain ⟨c1, e1, m1⟩ := IView.keeps_min hx hm (m := y.vmin c) (by have := (y.bounds hy hm).1; simp only [IView.vmin]; omega)
    obtain ⟨c2, e2, m2⟩ := IView.keeps_max hx m1 (m := y.vmax c1) (by have := (y.bounds hy m1).2; simp only [IView.vmax]; omega)
    obtain ⟨c3, e3, m3⟩ := IView.keeps_min hy m2 (m := x.vmin c2) (by have := (x.bounds hx m2).1; simp only [IView.vmin]; omega)
    obtain ⟨c4, e4, m4⟩ := IView.keeps_max hy m3 (m := x.vmax c3) (by have := (x.bounds hx m3).2; simp only [IView.vmax]; omega)
    exact ⟨c4, by simp [prune, e1, e2, e3, e4], m4⟩
  · intro c c' h
    simp only [prune] at h
    obtain ⟨c3, h3, h4⟩ := bind_some h
    obtain ⟨c2, h2, h3⟩ := bind_some h3
    obtain ⟨c1, h1, h2⟩ := bind_some h2
    exact ((IView.good_min hxT h1).trans (IView.good_max hxT h2)).trans
      ((IView.good_min hyT h3).trans (IView.good_max hyT h4))
  · intro c c' a hf hm h
    simp only [prune] at h
    obtain ⟨c3, g3, g4⟩ := bind_some h
    obtain ⟨c2, g2, g3'⟩ := bind_some g3
    obtain ⟨c1, g1, g2'⟩ := bind_some g2
    have t1 := (IView.fixed x hx).1 _ c c1 a hm (fixedOn_view hf hxT) g1
    obtain ⟨e1, t1⟩ := t1
    subst e1
    have t2 := (IView.fixed x hx).2 _ c1 c2 a hm (fixedOn_view hf hxT) g2'
    have hb := y.bounds_fixed hm (fixedOn_view hf hyT)
    simp only [holds, beq_iff_eq]
    simp only [IView.vmin, IView.vmax] at t1 t2; omega
  · intro c1 c2 hag
    simp only [prune]
    rw [IView.vmin_agree hyT hag]
    refine RelO.bind (RelO.bind (RelO.bind ((IView.resp x _ hxT).1 _ c1 c2 hag) ?_) ?_) ?_
    · intro d1 d2 hd; rw [IView.vmax_agree hyT hd]; exact (IView.resp x _ hxT).2 _ d1 d2 hd
    · intro d1 d2 hd; rw [IView.vmin_agree hxT hd]; exact (IView.resp y _ hyT).1 _ d1 d2 hd
    · intro d1 d2 hd; rw [IView.vmax_agree hxT hd]; exact (IView.resp y _ hyT).2 _ d1 d2 hd

end PK
end Selen

import SelenModel.Lemmas.Kinds.AbsMinMax
/-
Helpers shared by the contract proofs of the kinds added by `kinds2`
(mul, div, modulo, allEqual, between, count, cardinality, element, table, if-then-else).
-/
namespace Selen

namespace IView

/-- the float-bound setters are the integer setters on every view (since the repair
`fix: Next/Prev views shift a float bound by one on integer operands`; before it `Next`/`Prev`
passed the bound through unchanged) -/
theorem trySetF_eq (v : IView) :
    (∀ m c, v.trySetMinF m c = v.trySetMin m c) ∧ (∀ m c, v.trySetMaxF m c = v.trySetMax m c) := by
  induction v with
  | const k => exact ⟨fun _ _ => rfl, fun _ _ => rfl⟩
  | var i => exact ⟨fun _ _ => rfl, fun _ _ => rfl⟩
  | opp v ih =>
    obtain ⟨i1, i2⟩ := ih
    exact ⟨fun m c => by simp only [trySetMinF, trySetMin]; exact i2 _ _,
           fun m c => by simp only [trySetMaxF, trySetMax]; exact i1 _ _⟩
  | plus v k ih =>
    obtain ⟨i1, i2⟩ := ih
    exact ⟨fun m c => by simp only [trySetMinF, trySetMin]; exact i1 _ _,
           fun m c => by simp only [trySetMaxF, trySetMax]; exact i2 _ _⟩
  | tpos v k ih =>
    obtain ⟨i1, i2⟩ := ih
    exact ⟨fun m c => by simp only [trySetMinF, trySetMin]; exact i1 _ _,
           fun m c => by simp only [trySetMaxF, trySetMax]; exact i2 _ _⟩
  | next v ih =>
    obtain ⟨i1, i2⟩ := ih
    exact ⟨fun m c => by simp only [trySetMinF, trySetMin]; exact i1 _ _,
           fun m c => by simp only [trySetMaxF, trySetMax]; exact i2 _ _⟩
  | prev v ih =>
    obtain ⟨i1, i2⟩ := ih
    exact ⟨fun m c => by simp only [trySetMinF, trySetMin]; exact i1 _ _,
           fun m c => by simp only [trySetMaxF, trySetMax]; exact i2 _ _⟩

theorem trySetMinF_eq (v : IView) (m : Int) (c : Ctx) : v.trySetMinF m c = v.trySetMin m c :=
  (trySetF_eq v).1 m c
theorem trySetMaxF_eq (v : IView) (m : Int) (c : Ctx) : v.trySetMaxF m c = v.trySetMax m c :=
  (trySetF_eq v).2 m c

/-- view bounds only tighten when the domains shrink (and stay non-empty) -/
theorem raw_mono (v : IView) (hwf : v.WF) {st st' : Store} (hsub : ∀ i, (st' i).Sublist (st i))
    (hne : ∀ i, st' i ≠ []) : v.minRaw st ≤ v.minRaw st' ∧ v.maxRaw st' ≤ v.maxRaw st := by
  induction v with
  | const k => simp [minRaw, maxRaw]
  | var i =>
    exact ⟨Dom.dmin_le _ _ ((hsub i).subset (Dom.dmin_mem _ (hne i))),
           Dom.le_dmax _ _ ((hsub i).subset (Dom.dmax_mem _ (hne i)))⟩
  | opp v ih => have := ih hwf; simp only [minRaw, maxRaw]; omega
  | plus v k ih => have := ih hwf; simp only [minRaw, maxRaw]; omega
  | tpos v k ih =>
    have := ih hwf.1
    simp only [minRaw, maxRaw]
    exact ⟨Int.mul_le_mul_of_nonneg_right this.1 (Int.le_of_lt hwf.2),
           Int.mul_le_mul_of_nonneg_right this.2 (Int.le_of_lt hwf.2)⟩
  | next v ih => have := ih hwf; simp only [minRaw, maxRaw]; omega
  | prev v ih => have := ih hwf; simp only [minRaw, maxRaw]; omega

/-- along a `Good` step from a non-empty store -/
theorem raw_mono_good {v : IView} (hwf : v.WF) {T : List Nat} {c c' : Ctx} (g : Good T c c')
    (hne : NonEmpty c.st) : v.minRaw c.st ≤ v.minRaw c'.st ∧ v.maxRaw c'.st ≤ v.maxRaw c.st :=
  raw_mono v hwf g.sub (g.ne hne)

end IView

namespace K2
open Selen.PK Selen.Ctx Selen.Dom Selen.KAbsMinMax.PK

/-! ### guarded setters -/

theorem setMinG_keeps {c : Ctx} {a : Asg} {x : Nat} {v : Int} (hm : Mem c.st a) (hv : v ≤ a x) :
    Keeps a (setMinG x v c) := by
  unfold setMinG
  split
  · exact Ctx.trySetMin_keeps hm hv
  · exact Keeps.some hm

theorem setMaxG_keeps {c : Ctx} {a : Asg} {x : Nat} {v : Int} (hm : Mem c.st a) (hv : a x ≤ v) :
    Keeps a (setMaxG x v c) := by
  unfold setMaxG
  split
  · exact Ctx.trySetMax_keeps hm hv
  · exact Keeps.some hm

theorem setMinG_good {T : List Nat} {c c' : Ctx} {x : Nat} {v : Int} (hx : x ∈ T)
    (h : setMinG x v c = some c') : Good T c c' := by
  unfold setMinG at h
  split at h
  · exact Ctx.trySetMin_good hx h
  · cases h; exact Good.refl _ _

theorem setMaxG_good {T : List Nat} {c c' : Ctx} {x : Nat} {v : Int} (hx : x ∈ T)
    (h : setMaxG x v c = some c') : Good T c c' := by
  unfold setMaxG at h
  split at h
  · exact Ctx.trySetMax_good hx h
  · cases h; exact Good.refl _ _

theorem setMinG_resp {T : List Nat} {c1 c2 : Ctx} {x : Nat} (v : Int) (hx : x ∈ T)
    (h : Agree T c1 c2) : RelO T (setMinG x v c1) (setMinG x v c2) := by
  unfold setMinG
  rw [h x hx]
  exact RelO.ite (fun _ => Ctx.trySetMin_resp v hx h) (fun _ => RelO.some h)

theorem setMaxG_resp {T : List Nat} {c1 c2 : Ctx} {x : Nat} (v : Int) (hx : x ∈ T)
    (h : Agree T c1 c2) : RelO T (setMaxG x v c1) (setMaxG x v c2) := by
  unfold setMaxG
  rw [h x hx]
  exact RelO.ite (fun _ => Ctx.trySetMax_resp v hx h) (fun _ => RelO.some h)

/-- on a fixed variable a successful guarded update changes nothing and certifies the bound -/
theorem setMinG_fixed {c c' : Ctx} {x : Nat} {v w : Int} (hf : c.st x = [w])
    (h : setMinG x v c = some c') : c' = c ∧ v ≤ w := by
  unfold setMinG at h
  split at h
  · exact Ctx.trySetMin_fixed hf h
  · rename_i hn
    cases h
    rw [(fixed_bounds hf).1] at hn
    exact ⟨rfl, by omega⟩

theorem setMaxG_fixed {c c' : Ctx} {x : Nat} {v w : Int} (hf : c.st x = [w])
    (h : setMaxG x v c = some c') : c' = c ∧ w ≤ v := by
  unfold setMaxG at h
  split at h
  · exact Ctx.trySetMax_fixed hf h
  · rename_i hn
    cases h
    rw [(fixed_bounds hf).2] at hn
    exact ⟨rfl, by omega⟩

/-! ### small chain helpers -/

theorem Keeps.ite {a : Asg} {p : Prop} [Decidable p] {o1 o2 : Option Ctx}
    (h1 : p → Keeps a o1) (h2 : ¬p → Keeps a o2) : Keeps a (if p then o1 else o2) := by
  by_cases h : p
  · rw [if_pos h]; exact h1 h
  · rw [if_neg h]; exact h2 h

/-- the value of a fixed variable under a member assignment -/
theorem fixed_eq {st : Store} {a : Asg} (hm : Mem st a) {i : Nat} {w : Int} (h : st i = [w]) : a i = w := by
  have := hm i; rw [h] at this; simpa using this

/-- a variable whose bounds coincide has exactly that value under every member assignment -/
theorem eq_of_bounds_eq {st : Store} {a : Asg} (hm : Mem st a) {i : Nat}
    (h : (st i).dmin = (st i).dmax) : a i = (st i).dmin := by
  have := hm.bounds i; omega

/-- `Good` steps keep fixed variables fixed (given non-emptiness) -/
theorem good_fixed {T : List Nat} {c c' : Ctx} (g : Good T c c') (hne : NonEmpty c.st) {i : Nat} {w : Int}
    (h : c.st i = [w]) : c'.st i = [w] := by
  have hs := g.sub i
  rw [h] at hs
  have hn := g.ne hne i
  cases hc : c'.st i with
  | nil => exact absurd hc hn
  | cons y l =>
    rw [hc] at hs
    have hl := hs.length_le
    simp at hl
    subst hl
    have : y ∈ [w] := hs.subset (List.mem_cons_self ..)
    simp at this; subst this; rfl

/-- bounds only tighten along `Good` steps -/
theorem good_bounds {T : List Nat} {c c' : Ctx} (g : Good T c c') (hne : NonEmpty c.st) (i : Nat) :
    (c.st i).dmin ≤ (c'.st i).dmin ∧ (c'.st i).dmax ≤ (c.st i).dmax := by
  have hn := g.ne hne i
  exact ⟨Dom.dmin_le _ _ ((g.sub i).subset (Dom.dmin_mem _ hn)),
         Dom.le_dmax _ _ ((g.sub i).subset (Dom.dmax_mem _ hn))⟩

end K2
end Selen

import SelenModel.Lemmas.Kinds.Basic
/-
Contract proofs for the arithmetic propagators `add` and `sum`.
-/
namespace Selen
namespace KArith
open Selen.PK Selen.Lin Selen.IView Selen.Ctx Selen.Dom

/-! ### `forM'` : unfolding and induction principles -/

theorem forM'_foldl_none {α : Type} (l : List α) (f : α → Ctx → Option Ctx) :
    l.foldl (fun acc a => match acc with | none => none | some c' => f a c') none = none := by
  induction l with
  | nil => rfl
  | cons x l ih => simpa [List.foldl_cons] using ih

theorem forM'_nil {α : Type} (c : Ctx) (f : α → Ctx → Option Ctx) : forM' [] c f = some c := rfl

theorem forM'_cons {α : Type} (x : α) (l : List α) (c : Ctx) (f : α → Ctx → Option Ctx) :
    forM' (x :: l) c f = PK.bind (f x c) (fun c' => forM' l c' f) := by
  unfold forM'
  simp only [List.foldl_cons]
  cases h : f x c with
  | none => simp only [PK.bind]; exact forM'_foldl_none l f
  | some c1 => rfl

/-- forward principle (used for `Sound`): an invariant every step re-establishes while succeeding -/
theorem forM'_fwd {α : Type} (l : List α) (f : α → Ctx → Option Ctx) (P : Ctx → Prop)
    (hstep : ∀ x ∈ l, ∀ c, P c → ∃ c', f x c = some c' ∧ P c') :
    ∀ c, P c → ∃ c', forM' l c f = some c' ∧ P c' := by
  induction l with
  | nil => intro c h; exact ⟨c, rfl, h⟩
  | cons x l ih =>
    intro c h
    obtain ⟨c1, e1, p1⟩ := hstep x (List.mem_cons.2 (Or.inl rfl)) c h
    obtain ⟨c2, e2, p2⟩ := ih (fun y hy => hstep y (List.mem_cons.2 (Or.inr hy))) c1 p1
    exact ⟨c2, by rw [forM'_cons, e1]; exact e2, p2⟩

/-- inversion principle (used for `Good` / fixed): an invariant preserved by every successful step -/
theorem forM'_inv {α : Type} (l : List α) (f : α → Ctx → Option Ctx) (P : Ctx → Prop)
    (hstep : ∀ x ∈ l, ∀ c c', P c → f x c = some c' → P c') :
    ∀ c c', P c → forM' l c f = some c' → P c' := by
  induction l with
  | nil => intro c c' h e; rw [forM'_nil] at e; cases e; exact h
  | cons x l ih =>
    intro c c' h e
    rw [forM'_cons] at e
    obtain ⟨c1, e1, e2⟩ := PK.bind_some e
    exact ih (fun y hy => hstep y (List.mem_cons.2 (Or.inr hy))) c1 c'
      (hstep x (List.mem_cons.2 (Or.inl rfl)) c c1 h e1) e2

/-- relational principle (used for `Resp`) -/
theorem forM'_rel {α : Type} (T : List Nat) (l : List α) (f1 f2 : α → Ctx → Option Ctx)
    (hstep : ∀ x ∈ l, ∀ d1 d2, Agree T d1 d2 → RelO T (f1 x d1) (f2 x d2)) :
    ∀ c1 c2, Agree T c1 c2 → RelO T (forM' l c1 f1) (forM' l c2 f2) := by
  induction l with
  | nil => intro c1 c2 h; exact RelO.some h
  | cons x l ih =>
    intro c1 c2 h
    rw [forM'_cons, forM'_cons]
    exact RelO.bind (hstep x (List.mem_cons.2 (Or.inl rfl)) c1 c2 h)
      (ih (fun y hy => hstep y (List.mem_cons.2 (Or.inr hy))))

/-! ### sums over a list of views -/

def lsum (f : IView → Int) : List IView → Int
  | [] => 0
  | x :: xs => f x + lsum f xs

theorem foldl_add_eq (f : IView → Int) (xs : List IView) (p : Int) :
    xs.foldl (fun acc x => acc + f x) p = p + lsum f xs := by
  induction xs generalizing p with
  | nil => simp [lsum]
  | cons x xs ih => simp only [List.foldl_cons, lsum]; rw [ih]; omega

theorem lsum_le {f g : IView → Int} {xs : List IView} (h : ∀ x ∈ xs, f x ≤ g x) :
    lsum f xs ≤ lsum g xs := by
  induction xs with
  | nil => simp [lsum]
  | cons x xs ih =>
    simp only [lsum]
    have h1 := h x (List.mem_cons.2 (Or.inl rfl))
    have h2 := ih (fun y hy => h y (List.mem_cons.2 (Or.inr hy)))
    omega

theorem lsum_congr {f g : IView → Int} {xs : List IView} (h : ∀ x ∈ xs, f x = g x) :
    lsum f xs = lsum g xs := by
  induction xs with
  | nil => simp [lsum]
  | cons x xs ih =>
    simp only [lsum]
    rw [h x (List.mem_cons.2 (Or.inl rfl)), ih (fun y hy => h y (List.mem_cons.2 (Or.inr hy)))]

/-- the slack of one term is at most the slack of the whole sum -/
theorem lsum_diff_mem {f g : IView → Int} {xs : List IView} {x : IView} (hx : x ∈ xs)
    (h : ∀ y ∈ xs, f y ≤ g y) : g x - f x ≤ lsum g xs - lsum f xs := by
  induction xs with
  | nil => cases hx
  | cons z xs ih =>
    simp only [lsum]
    have hz := h z (List.mem_cons.2 (Or.inl rfl))
    have hrest : ∀ y ∈ xs, f y ≤ g y := fun y hy => h y (List.mem_cons.2 (Or.inr hy))
    rcases List.mem_cons.1 hx with rfl | hx
    · have := lsum_le hrest; omega
    · have := ih hx hrest; omega

/-! ### monotonicity of view bounds under shrinking -/

theorem Dom.sub_bounds {d d' : Dom} (hs : d'.Sublist d) (hne : d' ≠ []) :
    d.dmin ≤ d'.dmin ∧ d'.dmax ≤ d.dmax :=
  ⟨Dom.dmin_le d _ (hs.subset (Dom.dmin_mem d' hne)), Dom.le_dmax d _ (hs.subset (Dom.dmax_mem d' hne))⟩

theorem IView.raw_mono (v : IView) (hwf : v.WF) {st st' : Store}
    (hs : ∀ i, (st' i).Sublist (st i)) (hne : NonEmpty st') :
    v.minRaw st ≤ v.minRaw st' ∧ v.maxRaw st' ≤ v.maxRaw st := by
  induction v with
  | const c => simp [minRaw, maxRaw]
  | var i => exact Dom.sub_bounds (hs i) (hne i)
  | opp v ih => have := ih hwf; simp only [minRaw, maxRaw]; omega
  | plus v k ih => have := ih hwf; simp only [minRaw, maxRaw]; omega
  | tpos v k ih =>
    have := ih hwf.1
    simp only [minRaw, maxRaw]
    exact ⟨Int.mul_le_mul_of_nonneg_right this.1 (Int.le_of_lt hwf.2),
           Int.mul_le_mul_of_nonneg_right this.2 (Int.le_of_lt hwf.2)⟩
  | next v ih => have := ih hwf; simp only [minRaw, maxRaw]; omega
  | prev v ih => have := ih hwf; simp only [minRaw, maxRaw]; omega

theorem IView.v_mono {v : IView} (hwf : v.WF) {c c' : Ctx}
    (hs : ∀ i, (c'.st i).Sublist (c.st i)) (hne : NonEmpty c'.st) :
    v.vmin c ≤ v.vmin c' ∧ v.vmax c' ≤ v.vmax c := IView.raw_mono v hwf hs hne

theorem IView.v_bounds {v : IView} (hwf : v.WF) {c : Ctx} {a : Asg} (hm : Mem c.st a) :
    v.vmin c ≤ v.eval a ∧ v.eval a ≤ v.vmax c := v.bounds hwf hm

theorem IView.v_fixed {v : IView} {c : Ctx} {a : Asg} (hm : Mem c.st a)
    (hf : ∀ i, v.underlying = some i → ∃ w, c.st i = [w]) :
    v.vmin c = v.eval a ∧ v.vmax c = v.eval a := v.bounds_fixed hm hf

namespace PK

/-! ### add -/

theorem contract_add (x y : IView) (s : Nat) (hx : x.WF) (hy : y.WF) :
    Contract (prune (.add x y s)) (fun a => holds a (.add x y s) = true) (triggers (.add x y s)) := by
  have hsT : s ∈ triggers (.add x y s) := by simp [triggers]
  have hxT : x.UnderIn (triggers (.add x y s)) :=
    underIn_of _ _ (fun i h => List.mem_append.2 (Or.inl (List.mem_append.2 (Or.inr h))))
  have hyT : y.UnderIn (triggers (.add x y s)) := underIn_of _ _ (fun i h => List.mem_append.2 (Or.inr h))
  refine ⟨?_, ?_, ?_, ?_⟩
  · intro c a hm hs
    have hs : x.eval a + y.eval a = a s := by simpa [holds] using hs
    obtain ⟨c1, e1, m1⟩ := Ctx.trySetMin_keeps hm (i := s) (v := x.vmin c + y.vmin c)
      (by have := IView.v_bounds hx hm; have := IView.v_bounds hy hm; omega)
    obtain ⟨c2, e2, m2⟩ := Ctx.trySetMax_keeps m1 (i := s) (v := x.vmax c1 + y.vmax c1)
      (by have := IView.v_bounds hx m1; have := IView.v_bounds hy m1; omega)
    obtain ⟨c3, e3, m3⟩ := IView.keeps_min hx m2 (m := (c2.st s).dmin - y.vmax c2)
      (by have := IView.v_bounds hy m2; have := m2.bounds s; omega)
    obtain ⟨c4, e4, m4⟩ := IView.keeps_max hx m3 (m := (c3.st s).dmax - y.vmin c3)
      (by have := IView.v_bounds hy m3; have := m3.bounds s; omega)
    obtain ⟨c5, e5, m5⟩ := IView.keeps_min hy m4 (m := (c4.st s).dmin - x.vmax c4)
      (by have := IView.v_bounds hx m4; have := m4.bounds s; omega)
    obtain ⟨c6, e6, m6⟩ := IView.keeps_max hy m5 (m := (c5.st s).dmax - x.vmin c5)
      (by have := IView.v_bounds hx m5; have := m5.bounds s; omega)
    exact ⟨c6, by simp [prune, e1, e2, e3, e4, e5, e6], m6⟩
  · intro c c' h
    simp only [prune] at h
    obtain ⟨c5, h5, h6⟩ := bind_some h
    obtain ⟨c4, h4, h5⟩ := bind_some h5
    obtain ⟨c3, h3, h4⟩ := bind_some h4
    obtain ⟨c2, h2, h3⟩ := bind_some h3
    obtain ⟨c1, h1, h2⟩ := bind_some h2
    exact ((Ctx.trySetMin_good hsT h1).trans (Ctx.trySetMax_good hsT h2)).trans
      (((IView.good_min hxT h3).trans (IView.good_max hxT h4)).trans
        ((IView.good_min hyT h5).trans (IView.good_max hyT h6)))
  · intro c c' a hf hm h
    simp only [prune] at h
    obtain ⟨c5, h5, h6⟩ := bind_some h
    obtain ⟨c4, h4, h5⟩ := bind_some h5
    obtain ⟨c3, h3, h4⟩ := bind_some h4
    obtain ⟨c2, h2, h3⟩ := bind_some h3
    obtain ⟨c1, h1, k2⟩ := bind_some h2
    obtain ⟨w, hw⟩ := hf s hsT
    have ea : a s = w := by have := hm s; rw [hw] at this; simpa using this
    obtain ⟨e1, t1⟩ := Ctx.trySetMin_fixed hw h1
    subst e1
    obtain ⟨_, t2⟩ := Ctx.trySetMax_fixed hw k2
    have bx := IView.v_fixed hm (fixedOn_view hf hxT)
    have bY := IView.v_fixed hm (fixedOn_view hf hyT)
    simp only [holds, beq_iff_eq]
    omega
  · intro c1 c2 hag
    simp only [prune]
    rw [IView.vmin_agree hxT hag, IView.vmin_agree hyT hag]
    refine RelO.bind (RelO.bind (RelO.bind (RelO.bind (RelO.bind
      (Ctx.trySetMin_resp _ hsT hag) ?_) ?_) ?_) ?_) ?_
    · intro d1 d2 hd; rw [IView.vmax_agree hxT hd, IView.vmax_agree hyT hd]
      exact Ctx.trySetMax_resp _ hsT hd
    · intro d1 d2 hd; rw [hd s hsT, IView.vmax_agree hyT hd]; exact (IView.resp x _ hxT).1 _ d1 d2 hd
    · intro d1 d2 hd; rw [hd s hsT, IView.vmin_agree hyT hd]; exact (IView.resp x _ hxT).2 _ d1 d2 hd
    · intro d1 d2 hd; rw [hd s hsT, IView.vmax_agree hxT hd]; exact (IView.resp y _ hyT).1 _ d1 d2 hd
    · intro d1 d2 hd; rw [hd s hsT, IView.vmin_agree hxT hd]; exact (IView.resp y _ hyT).2 _ d1 d2 hd

/-! ### sum -/

/-- one iteration of the `Sum` propagation loop -/
def sumStep (minT maxT mn mx : Int) (x : IView) (c : Ctx) : Option Ctx :=
  x.trySetMin (mn - (maxT - x.vmax c)) c >>>= (fun c' => x.trySetMax (mx - (minT - x.vmin c)) c')

theorem prune_sum (xs : List IView) (s : Nat) (ctx : Ctx) :
    prune (.sum xs s) ctx =
      (ctx.trySetMin s (lsum (fun x => x.vmin ctx) xs)
        >>>= (fun c => c.trySetMax s (lsum (fun x => x.vmax ctx) xs))
        >>>= (fun c => forM' xs c (sumStep (lsum (fun x => x.vmin ctx) xs) (lsum (fun x => x.vmax ctx) xs)
                (c.st s).dmin (c.st s).dmax))) := by
  have e1 := foldl_add_eq (fun x => x.vmin ctx) xs 0
  have e2 := foldl_add_eq (fun x => x.vmax ctx) xs 0
  rw [Int.zero_add] at e1 e2
  rw [← e1, ← e2]
  rfl

theorem holds_sum (xs : List IView) (s : Nat) (a : Asg) :
    holds a (.sum xs s) = true ↔ lsum (fun x => x.eval a) xs = a s := by
  have e := foldl_add_eq (fun x => x.eval a) xs 0
  rw [Int.zero_add] at e
  simp only [holds, beq_iff_eq]
  rw [e]

theorem sum_mem_triggers (xs : List IView) (s : Nat) : s ∈ triggers (.sum xs s) :=
  List.mem_append.2 (Or.inr (List.mem_singleton.2 rfl))

theorem sum_underIn (xs : List IView) (s : Nat) {x : IView} (hx : x ∈ xs) :
    x.UnderIn (triggers (.sum xs s)) := by
  intro i hi
  exact List.mem_append.2 (Or.inl (List.mem_filterMap.2 ⟨x, hx, hi⟩))

theorem sound_sum (xs : List IView) (s : Nat) (hxs : ∀ x ∈ xs, x.WF) :
    Sound (prune (.sum xs s)) (fun a => holds a (.sum xs s) = true) := by
  intro c a hm hs
  have hs : lsum (fun x => x.eval a) xs = a s := (holds_sum xs s a).1 hs
  rw [prune_sum]
  have hlo : lsum (fun x => x.vmin c) xs ≤ lsum (fun x => x.eval a) xs :=
    lsum_le (fun x hx => (IView.v_bounds (hxs x hx) hm).1)
  have hhi : lsum (fun x => x.eval a) xs ≤ lsum (fun x => x.vmax c) xs :=
    lsum_le (fun x hx => (IView.v_bounds (hxs x hx) hm).2)
  obtain ⟨c1, e1, m1⟩ := Ctx.trySetMin_keeps hm (i := s) (v := lsum (fun x => x.vmin c) xs) (by omega)
  obtain ⟨c2, e2, m2⟩ := Ctx.trySetMax_keeps m1 (i := s) (v := lsum (fun x => x.vmax c) xs) (by omega)
  have g12 : ∀ i, (c2.st i).Sublist (c.st i) :=
    ((Ctx.trySetMin_good (T := [s]) (List.mem_singleton.2 rfl) e1).trans
      (Ctx.trySetMax_good (T := [s]) (List.mem_singleton.2 rfl) e2)).sub
  have hb := m2.bounds s
  obtain ⟨c3, e3, p3⟩ := forM'_fwd xs
    (sumStep (lsum (fun x => x.vmin c) xs) (lsum (fun x => x.vmax c) xs) (c2.st s).dmin (c2.st s).dmax)
    (fun d => Mem d.st a ∧ ∀ i, (d.st i).Sublist (c.st i)) (by
      intro x hx d hd
      obtain ⟨md, sd⟩ := hd
      have wf := hxs x hx
      have mono := IView.v_mono wf sd md.nonEmpty
      have bd := IView.v_bounds wf md
      have dmax : x.vmax c - x.eval a ≤ lsum (fun x => x.vmax c) xs - lsum (fun x => x.eval a) xs :=
        lsum_diff_mem (f := fun x => x.eval a) (g := fun x => x.vmax c) hx
          (fun y hy => (IView.v_bounds (hxs y hy) hm).2)
      have dmin : x.eval a - x.vmin c ≤ lsum (fun x => x.eval a) xs - lsum (fun x => x.vmin c) xs :=
        lsum_diff_mem (f := fun x => x.vmin c) (g := fun x => x.eval a) hx
          (fun y hy => (IView.v_bounds (hxs y hy) hm).1)
      obtain ⟨d1, f1, n1⟩ := IView.keeps_min wf md
        (m := (c2.st s).dmin - (lsum (fun x => x.vmax c) xs - x.vmax d)) (by omega)
      obtain ⟨d2, f2, n2⟩ := IView.keeps_max wf n1
        (m := (c2.st s).dmax - (lsum (fun x => x.vmin c) xs - x.vmin d)) (by omega)
      have hU : x.UnderIn (optL x.underlying) := underIn_of x _ (fun i h => h)
      refine ⟨d2, by simp [sumStep, f1, f2], n2, fun i => ?_⟩
      exact ((IView.good_max hU f2).sub i).trans (((IView.good_min hU f1).sub i).trans (sd i)))
    c2 ⟨m2, g12⟩
  exact ⟨c3, by simp [e1, e2, e3], p3.1⟩

theorem contracting_sum (xs : List IView) (s : Nat) :
    Contracting (prune (.sum xs s)) (triggers (.sum xs s)) := by
  intro c c' h
  rw [prune_sum] at h
  obtain ⟨c2, h2, h3⟩ := bind_some h
  obtain ⟨c1, h1, h2⟩ := bind_some h2
  have hsT := sum_mem_triggers xs s
  have g := (Ctx.trySetMin_good hsT h1).trans (Ctx.trySetMax_good hsT h2)
  refine forM'_inv xs _ (fun d => Good (triggers (.sum xs s)) c d) ?_ c2 c' g h3
  intro x hx d d' gd hd
  simp only [sumStep] at hd
  obtain ⟨d1, k1, k2⟩ := bind_some hd
  have hxT := sum_underIn xs s hx
  exact gd.trans ((IView.good_min hxT k1).trans (IView.good_max hxT k2))

theorem checking_sum (xs : List IView) (s : Nat) :
    Checking (prune (.sum xs s)) (fun a => holds a (.sum xs s) = true) (triggers (.sum xs s)) := by
  intro c c' a hf hm h
  rw [prune_sum] at h
  obtain ⟨c2, h2, h3⟩ := bind_some h
  obtain ⟨c1, h1, k2⟩ := bind_some h2
  have hsT := sum_mem_triggers xs s
  obtain ⟨w, hw⟩ := hf s hsT
  have ea : a s = w := by have := hm s; rw [hw] at this; simpa using this
  obtain ⟨e1, t1⟩ := Ctx.trySetMin_fixed hw h1
  subst e1
  obtain ⟨_, t2⟩ := Ctx.trySetMax_fixed hw k2
  have hlo : lsum (fun x => x.vmin c1) xs = lsum (fun x => x.eval a) xs :=
    lsum_congr (fun x hx => (IView.v_fixed hm (fixedOn_view hf (sum_underIn xs s hx))).1)
  have hhi : lsum (fun x => x.vmax c1) xs = lsum (fun x => x.eval a) xs :=
    lsum_congr (fun x hx => (IView.v_fixed hm (fixedOn_view hf (sum_underIn xs s hx))).2)
  apply (holds_sum xs s a).2
  omega

theorem resp_sum (xs : List IView) (s : Nat) :
    Resp (triggers (.sum xs s)) (prune (.sum xs s)) := by
  intro c1 c2 hag
  rw [prune_sum, prune_sum]
  have hsT := sum_mem_triggers xs s
  have hlo : lsum (fun x => x.vmin c1) xs = lsum (fun x => x.vmin c2) xs :=
    lsum_congr (fun x hx => IView.vmin_agree (sum_underIn xs s hx) hag)
  have hhi : lsum (fun x => x.vmax c1) xs = lsum (fun x => x.vmax c2) xs :=
    lsum_congr (fun x hx => IView.vmax_agree (sum_underIn xs s hx) hag)
  rw [hlo, hhi]
  refine RelO.bind (RelO.bind (Ctx.trySetMin_resp _ hsT hag) ?_) ?_
  · intro d1 d2 hd; exact Ctx.trySetMax_resp _ hsT hd
  · intro d1 d2 hd
    rw [hd s hsT]
    refine forM'_rel _ xs _ _ ?_ d1 d2 hd
    intro x hx e1 e2 he
    have hxT := sum_underIn xs s hx
    simp only [sumStep]
    rw [IView.vmax_agree hxT he, IView.vmin_agree hxT he]
    refine RelO.bind ((IView.resp x _ hxT).1 _ e1 e2 he) ?_
    intro k1 k2 hk
    exact (IView.resp x _ hxT).2 _ k1 k2 hk

theorem contract_sum (xs : List IView) (s : Nat) (hxs : ∀ x ∈ xs, x.WF) :
    Contract (prune (.sum xs s)) (fun a => holds a (.sum xs s) = true) (triggers (.sum xs s)) :=
  ⟨sound_sum xs s hxs, contracting_sum xs s, checking_sum xs s, resp_sum xs s⟩

end PK
end KArith
end Selen

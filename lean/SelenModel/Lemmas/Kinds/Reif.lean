import SelenModel.Lemmas.Kinds.Basic
/-
Contract proofs for the reified integer comparisons `reif op x y b` (IntEqReif … IntGeReif).
-/
namespace Selen
namespace KReif
open Selen.PK Selen.Lin Selen.IView Selen.Ctx Selen.Dom
namespace PK

/-! ### goal-directed combinators for `Option` chains -/

/-- the chain succeeds and keeps the solution `a` -/
def KeepsO (a : Asg) (o : Option Ctx) : Prop := ∃ c', o = some c' ∧ Mem c'.st a

theorem KeepsO.some {a : Asg} {c : Ctx} (hm : Mem c.st a) : KeepsO a (some c) := ⟨c, rfl, hm⟩

theorem KeepsO.bind {a : Asg} {o : Option Ctx} {g : Ctx → Option Ctx} (ho : KeepsO a o)
    (hg : ∀ c1, Mem c1.st a → KeepsO a (g c1)) : KeepsO a (o >>>= g) := by
  obtain ⟨c1, rfl, m1⟩ := ho
  exact hg c1 m1

theorem KeepsO.min {a : Asg} {c : Ctx} {i : Nat} {v : Int} (hm : Mem c.st a) (hv : v ≤ a i) :
    KeepsO a (c.trySetMin i v) := Ctx.trySetMin_keeps hm hv

theorem KeepsO.max {a : Asg} {c : Ctx} {i : Nat} {v : Int} (hm : Mem c.st a) (hv : a i ≤ v) :
    KeepsO a (c.trySetMax i v) := Ctx.trySetMax_keeps hm hv

/-- a successful chain is `Good` -/
def GoodO (T : List Nat) (c : Ctx) (o : Option Ctx) : Prop := ∀ c', o = some c' → Good T c c'

theorem GoodO.some {T : List Nat} {c : Ctx} : GoodO T c (some c) := by
  intro c' h; cases h; exact Good.refl T c

theorem GoodO.none {T : List Nat} {c : Ctx} : GoodO T c none := by
  intro c' h; cases h

theorem GoodO.min {T : List Nat} {c : Ctx} {i : Nat} {v : Int} (hi : i ∈ T) :
    GoodO T c (c.trySetMin i v) := fun _ h => Ctx.trySetMin_good hi h

theorem GoodO.max {T : List Nat} {c : Ctx} {i : Nat} {v : Int} (hi : i ∈ T) :
    GoodO T c (c.trySetMax i v) := fun _ h => Ctx.trySetMax_good hi h

theorem GoodO.bind {T : List Nat} {c : Ctx} {o : Option Ctx} {g : Ctx → Option Ctx}
    (ho : GoodO T c o) (hg : ∀ c1, GoodO T c1 (g c1)) : GoodO T c (o >>>= g) := by
  intro c' h
  obtain ⟨c1, h1, h2⟩ := bind_some h
  exact (ho c1 h1).trans (hg c1 c' h2)

theorem beq_beq_iff (p q : Bool) : ((p == q) = true) ↔ (p = true ↔ q = true) := by
  cases p <;> cases q <;> simp

/-- solve a `KeepsO` goal over a chain of bound updates; arithmetic side goals by `omega` -/
syntax "keeps_chain" : tactic
macro_rules
  | `(tactic| keeps_chain) => `(tactic| first
      | with_reducible exact KeepsO.some (by assumption)
      | with_reducible exact KeepsO.min (by assumption) (by omega)
      | with_reducible exact KeepsO.max (by assumption) (by omega)
      | (with_reducible refine KeepsO.bind ?_ ?_
         · keeps_chain
         · intro _ _; keeps_chain)
      | (split <;> keeps_chain)
      | (exfalso; omega))

syntax "good_chain" : tactic
macro_rules
  | `(tactic| good_chain) => `(tactic| first
      | with_reducible exact GoodO.some
      | with_reducible exact GoodO.none
      | with_reducible exact GoodO.min (by simp)
      | with_reducible exact GoodO.max (by simp)
      | (with_reducible refine GoodO.bind ?_ ?_
         · good_chain
         · intro _; good_chain)
      | (split <;> good_chain))

syntax "resp_chain" : tactic
macro_rules
  | `(tactic| resp_chain) => `(tactic| first
      | with_reducible exact RelO.some (by assumption)
      | with_reducible exact RelO.none
      | with_reducible exact Ctx.trySetMin_resp _ (by simp) (by assumption)
      | with_reducible exact Ctx.trySetMax_resp _ (by simp) (by assumption)
      | (with_reducible refine RelO.bind ?_ ?_
         · resp_chain
         · intro _ _ _; resp_chain)
      | (split <;> resp_chain))

/-! ### contracting -/

theorem contracting_reif (op : Cmp) (x y b : Nat) :
    Contracting (prune (.reif op x y b)) (triggers (.reif op x y b)) := by
  intro c c' h
  revert c' h
  show GoodO [x, y, b] c (pruneReif op x y b c)
  cases op <;> simp only [pruneReif] <;> good_chain

/-! ### resp -/

theorem resp_reif (op : Cmp) (x y b : Nat) :
    Resp (triggers (.reif op x y b)) (prune (.reif op x y b)) := by
  intro c1 c2 hag
  replace hag : Agree [x, y, b] c1 c2 := hag
  show RelO [x, y, b] (pruneReif op x y b c1) (pruneReif op x y b c2)
  have hx : c1.st x = c2.st x := hag x (by simp)
  have hy : c1.st y = c2.st y := hag y (by simp)
  have hb : c1.st b = c2.st b := hag b (by simp)
  cases op <;> simp only [pruneReif, hx, hy, hb] <;> resp_chain

/-! ### sound (needs `a b ≤ 1`) -/

theorem sound_reif_le1 (op : Cmp) (x y b : Nat) :
    Sound (prune (.reif op x y b)) (fun a => a b ≤ 1 ∧ holds a (.reif op x y b) = true) := by
  intro c a hm hs
  obtain ⟨hb1, hs⟩ := hs
  have bx := hm.bounds x
  have by' := hm.bounds y
  have bb := hm.bounds b
  show KeepsO a (pruneReif op x y b c)
  simp only [holds] at hs
  rw [beq_beq_iff] at hs
  cases op <;>
    simp only [Cmp.holds, beq_iff_eq, bne_iff_ne, ne_eq, decide_eq_true_eq] at hs <;>
    simp only [pruneReif] <;> keeps_chain

/-! ### checking (needs `a b ≤ 1`) -/

theorem first_step_min_max {c c1 : Ctx} {b : Nat} {vb : Int} (eb : c.st b = [vb])
    {P Q : Prop} [Decidable P] [Decidable Q]
    (h : (if P then c.trySetMin b 1 else if Q then c.trySetMax b 0 else some c) = some c1) :
    (P → 1 ≤ vb) ∧ (¬P → Q → vb ≤ 0) := by
  split at h
  · have := (Ctx.trySetMin_fixed eb h).2
    exact ⟨fun _ => this, fun hn => absurd ‹P› hn⟩
  · split at h
    · have := (Ctx.trySetMax_fixed eb h).2
      exact ⟨fun hp => absurd hp ‹¬P›, fun _ _ => this⟩
    · exact ⟨fun hp => absurd hp ‹¬P›, fun _ hq => absurd hq ‹¬Q›⟩

theorem first_step_max_min {c c1 : Ctx} {b : Nat} {vb : Int} (eb : c.st b = [vb])
    {P Q : Prop} [Decidable P] [Decidable Q]
    (h : (if P then c.trySetMax b 0 else if Q then c.trySetMin b 1 else some c) = some c1) :
    (P → vb ≤ 0) ∧ (¬P → Q → 1 ≤ vb) := by
  split at h
  · have := (Ctx.trySetMax_fixed eb h).2
    exact ⟨fun _ => this, fun hn => absurd ‹P› hn⟩
  · split at h
    · have := (Ctx.trySetMin_fixed eb h).2
      exact ⟨fun hp => absurd hp ‹¬P›, fun _ _ => this⟩
    · exact ⟨fun hp => absurd hp ‹¬P›, fun _ hq => absurd hq ‹¬Q›⟩

theorem checking_reif_le1 (op : Cmp) (x y b : Nat) :
    Checking (prune (.reif op x y b)) (fun a => a b ≤ 1 → holds a (.reif op x y b) = true)
      (triggers (.reif op x y b)) := by
  intro c c' a hf hm h hb1
  obtain ⟨vx, ex⟩ := hf x (by simp [triggers])
  obtain ⟨vy, ey⟩ := hf y (by simp [triggers])
  obtain ⟨vb, eb⟩ := hf b (by simp [triggers])
  have ax : a x = vx := by have := hm x; rw [ex] at this; simpa using this
  have ay : a y = vy := by have := hm y; rw [ey] at this; simpa using this
  have ab : a b = vb := by have := hm b; rw [eb] at this; simpa using this
  obtain ⟨x1, x2⟩ := fixed_bounds ex
  obtain ⟨y1, y2⟩ := fixed_bounds ey
  replace h : pruneReif op x y b c = some c' := h
  simp only [holds]
  rw [beq_beq_iff]
  cases op <;>
    simp only [Cmp.holds, beq_iff_eq, bne_iff_ne, ne_eq, decide_eq_true_eq] <;>
    simp only [pruneReif] at h <;>
    obtain ⟨c2, h2, -⟩ := bind_some h <;>
    obtain ⟨c1, h1, -⟩ := bind_some h2 <;>
    first
      | (have := first_step_min_max eb h1; omega)
      | (have := first_step_max_min eb h1; omega)

/-! ### store-side versions of the side condition and the bundle -/

/-- `sound` under the store-side condition "the maximum of `b`'s domain is at most 1"
(in particular when `b`'s domain is a subset of `{0,1}`) -/
theorem sound_reif_bool (op : Cmp) (x y b : Nat) (c : Ctx) (a : Asg)
    (hb : (c.st b).dmax ≤ 1) (hm : Mem c.st a) (hs : holds a (.reif op x y b) = true) :
    ∃ c', prune (.reif op x y b) c = some c' ∧ Mem c'.st a :=
  sound_reif_le1 op x y b c a hm ⟨by have := (hm.bounds b).2; omega, hs⟩

theorem sound_reif_bool01 (op : Cmp) (x y b : Nat) (c : Ctx) (a : Asg)
    (hb : ∀ w ∈ c.st b, w = 0 ∨ w = 1) (hm : Mem c.st a) (hs : holds a (.reif op x y b) = true) :
    ∃ c', prune (.reif op x y b) c = some c' ∧ Mem c'.st a :=
  sound_reif_le1 op x y b c a hm ⟨by have := hb _ (hm b); omega, hs⟩

/-- `checking` under the store-side condition "the maximum of `b`'s domain is at most 1" -/
theorem checking_reif_bool (op : Cmp) (x y b : Nat) (c c' : Ctx) (a : Asg)
    (hb : (c.st b).dmax ≤ 1) (hf : FixedOn (triggers (.reif op x y b)) c.st) (hm : Mem c.st a)
    (h : prune (.reif op x y b) c = some c') : holds a (.reif op x y b) = true :=
  checking_reif_le1 op x y b c c' a hf hm h (by have := (hm.bounds b).2; omega)

/-- the four contract fields, with the side condition `a b ≤ 1` on `sound` and `checking` only -/
theorem contract_reif_le1 (op : Cmp) (x y b : Nat) :
    Sound (prune (.reif op x y b)) (fun a => a b ≤ 1 ∧ holds a (.reif op x y b) = true) ∧
    Contracting (prune (.reif op x y b)) (triggers (.reif op x y b)) ∧
    Checking (prune (.reif op x y b)) (fun a => a b ≤ 1 → holds a (.reif op x y b) = true)
      (triggers (.reif op x y b)) ∧
    Resp (triggers (.reif op x y b)) (prune (.reif op x y b)) :=
  ⟨sound_reif_le1 op x y b, contracting_reif op x y b, checking_reif_le1 op x y b, resp_reif op x y b⟩

/-! ### the side condition is necessary: kernel-checked counterexamples -/

/-- `x = {0}`, `y = {1}`, `b = {2}`: the assignment `(0,1,2)` satisfies
`(b == 1) == (x == y)` but `prune` fails (it tries `b ≤ 0`). -/
theorem not_sound_reif :
    ¬ Sound (prune (.reif .eq 0 1 2)) (fun a => holds a (.reif .eq 0 1 2) = true) := by
  intro h
  let st : Store := fun i => if i = 0 then [0] else if i = 1 then [1] else [2]
  let a : Asg := fun i => if i = 0 then 0 else if i = 1 then 1 else 2
  have hm : Mem st a := by
    intro i; simp only [st, a]; split
    · simp
    · split <;> simp
  obtain ⟨c', e, -⟩ := h ⟨st, []⟩ a hm (by decide)
  have : (prune (.reif .eq 0 1 2) ⟨st, []⟩).isSome = false := by decide
  rw [e] at this; cases this

/-- `x = {3}`, `y = {3}`, `b = {2}`: everything is fixed, `prune` succeeds, but
`(b == 1) == (x == y)` is false. -/
theorem not_checking_reif :
    ¬ Checking (prune (.reif .eq 0 1 2)) (fun a => holds a (.reif .eq 0 1 2) = true)
      (triggers (.reif .eq 0 1 2)) := by
  intro h
  let st : Store := fun i => if i = 2 then [2] else [3]
  let a : Asg := fun i => if i = 2 then 2 else 3
  have hm : Mem st a := by
    intro i; simp only [st, a]; split <;> simp
  have hf : FixedOn (triggers (.reif .eq 0 1 2)) st := by
    intro i _; simp only [st]; split
    · exact ⟨2, rfl⟩
    · exact ⟨3, rfl⟩
  cases hp : prune (.reif .eq 0 1 2) ⟨st, []⟩ with
  | none =>
    have : (prune (.reif .eq 0 1 2) ⟨st, []⟩).isSome = true := by decide
    rw [hp] at this; cases this
  | some c' =>
    have := h ⟨st, []⟩ c' a hf hm hp
    revert this; decide

end PK
end KReif
end Selen

import SelenModel.Lemmas.Kinds.Basic
/-
Contract proofs for the boolean propagators: `boolAnd`, `boolOr`, `boolNot`, `boolXor`.

Meaning: `truthy v := v ≥ 1`; variables are NOT assumed to have domain `⊆ {0,1}`.
`setBoth b v` pins `b` to the constant `v`, so it loses the solutions in which `b` is truthy but
`≠ 1` (resp. falsy but `≠ 0`).  Consequently `Sound` w.r.t. the bare meaning is false for
`boolNot`, `boolXor` and for `boolAnd`/`boolOr` with an empty operand list; the side condition
needed is stated on the assignment (it follows from the store being `⊆ {0,1}` on the named
variables, see the `_store` corollaries).
-/
namespace Selen
namespace KBool
open Selen.PK Selen.Lin Selen.IView Selen.Ctx Selen.Dom
namespace PK
namespace BoolK

/-! ### generic helpers -/

theorem foldl_none {α : Type} (l : List α) (f : α → Ctx → Option Ctx) :
    l.foldl (fun acc a => match acc with | none => none | some c' => f a c') none = none := by
  induction l with
  | nil => rfl
  | cons x l ih => simpa [List.foldl_cons] using ih

theorem forM'_nil {α : Type} (c : Ctx) (f : α → Ctx → Option Ctx) : forM' [] c f = some c := rfl

theorem forM'_cons {α : Type} (x : α) (l : List α) (c : Ctx) (f : α → Ctx → Option Ctx) :
    forM' (x :: l) c f = (f x c >>>= fun c' => forM' l c' f) := by
  unfold forM'
  simp only [List.foldl_cons]
  cases f x c with
  | none => exact foldl_none l f
  | some c1 => rfl

theorem forM'_keeps {α : Type} {l : List α} {f : α → Ctx → Option Ctx} {a : Asg}
    (hf : ∀ x ∈ l, ∀ c, Mem c.st a → ∃ c', f x c = some c' ∧ Mem c'.st a) :
    ∀ c, Mem c.st a → ∃ c', forM' l c f = some c' ∧ Mem c'.st a := by
  induction l with
  | nil => intro c hm; exact ⟨c, rfl, hm⟩
  | cons x l ih =>
    intro c hm
    obtain ⟨c1, e1, m1⟩ := hf x (List.mem_cons_self) c hm
    obtain ⟨c2, e2, m2⟩ := ih (fun y hy => hf y (List.mem_cons_of_mem _ hy)) c1 m1
    exact ⟨c2, by rw [forM'_cons, e1]; exact e2, m2⟩

theorem forM'_good {α : Type} {l : List α} {f : α → Ctx → Option Ctx} {T : List Nat}
    (hf : ∀ x ∈ l, ∀ c c', f x c = some c' → Good T c c') :
    ∀ c c', forM' l c f = some c' → Good T c c' := by
  induction l with
  | nil => intro c c' h; cases h; exact Good.refl T c
  | cons x l ih =>
    intro c c' h
    rw [forM'_cons] at h
    obtain ⟨c1, h1, h2⟩ := bind_some h
    exact (hf x (List.mem_cons_self) c c1 h1).trans
      (ih (fun y hy => hf y (List.mem_cons_of_mem _ hy)) c1 c' h2)

theorem forM'_resp {α : Type} {l : List α} {f : α → Ctx → Option Ctx} {T : List Nat}
    (hf : ∀ x ∈ l, ∀ d1 d2, Agree T d1 d2 → RelO T (f x d1) (f x d2)) :
    ∀ c1 c2, Agree T c1 c2 → RelO T (forM' l c1 f) (forM' l c2 f) := by
  induction l with
  | nil => intro c1 c2 h; exact RelO.some h
  | cons x l ih =>
    intro c1 c2 h
    rw [forM'_cons, forM'_cons]
    exact RelO.bind (hf x (List.mem_cons_self) c1 c2 h)
      (ih (fun y hy => hf y (List.mem_cons_of_mem _ hy)))

theorem mem_fixed {st : Store} {a : Asg} (hm : Mem st a) {i : Nat} {w : Int} (h : st i = [w]) :
    a i = w := by
  have := hm i; rw [h] at this; simpa using this

theorem sublist_singleton_ne {l : List Int} {w : Int} (h : l.Sublist [w]) (hne : l ≠ []) :
    l = [w] := by
  match l, h, hne with
  | [], _, hne => exact absurd rfl hne
  | [x], h, _ =>
    have := h.subset (List.mem_singleton_self x)
    simp at this; rw [this]
  | x :: y :: l, h, _ => have := h.length_le; simp at this

/-- on a store fixed on `T` a `Good T` step leaves the store unchanged -/
theorem good_fixed_st {T : List Nat} {c c' : Ctx} (h : Good T c c') (hf : FixedOn T c.st)
    (hne : NonEmpty c.st) : ∀ i, c'.st i = c.st i := by
  intro i
  by_cases hi : i ∈ T
  · obtain ⟨w, hw⟩ := hf i hi
    have := h.sub i
    rw [hw] at this ⊢
    exact sublist_singleton_ne this (h.ne hne i)
  · exact h.frame i hi

theorem good_fixed {T : List Nat} {c c' : Ctx} {a : Asg} (h : Good T c c') (hf : FixedOn T c.st)
    (hm : Mem c.st a) : FixedOn T c'.st ∧ Mem c'.st a := by
  have e := good_fixed_st h hf hm.nonEmpty
  exact ⟨fun i hi => by rw [e i]; exact hf i hi, fun i => by rw [e i]; exact hm i⟩

/-! ### `setBoth` -/

theorem setBoth_some {b : Nat} {v : Int} {c c' : Ctx} (h : setBoth b v c = some c') :
    ∃ c1, c.trySetMin b v = some c1 ∧ c1.trySetMax b v = some c' := by
  unfold setBoth at h
  split at h
  · cases h
  · rename_i c1 e; exact ⟨c1, e, h⟩

theorem setBoth_keeps {c : Ctx} {a : Asg} {b : Nat} {v : Int} (hm : Mem c.st a) (hv : a b = v) :
    ∃ c', setBoth b v c = some c' ∧ Mem c'.st a := by
  obtain ⟨c1, e1, m1⟩ := Ctx.trySetMin_keeps (i := b) (v := v) hm (by omega)
  obtain ⟨c2, e2, m2⟩ := Ctx.trySetMax_keeps (i := b) (v := v) m1 (by omega)
  exact ⟨c2, by simp [setBoth, e1, e2], m2⟩

theorem setBoth_good {c c' : Ctx} {b : Nat} {v : Int} {T : List Nat} (hb : b ∈ T)
    (h : setBoth b v c = some c') : Good T c c' := by
  obtain ⟨c1, h1, h2⟩ := setBoth_some h
  exact (Ctx.trySetMin_good hb h1).trans (Ctx.trySetMax_good hb h2)

theorem setBoth_fixed {c c' : Ctx} {b : Nat} {v w : Int} (hf : c.st b = [w])
    (h : setBoth b v c = some c') : c' = c ∧ w = v := by
  obtain ⟨c1, h1, h2⟩ := setBoth_some h
  obtain ⟨e1, l1⟩ := Ctx.trySetMin_fixed hf h1
  subst e1
  obtain ⟨e2, l2⟩ := Ctx.trySetMax_fixed hf h2
  exact ⟨e2, by omega⟩

theorem setBoth_resp {T : List Nat} {c1 c2 : Ctx} {b : Nat} (v : Int) (hb : b ∈ T)
    (h : Agree T c1 c2) : RelO T (setBoth b v c1) (setBoth b v c2) := by
  have e : ∀ c, setBoth b v c = (c.trySetMin b v >>>= fun c1 => c1.trySetMax b v) := by
    intro c; unfold setBoth; cases c.trySetMin b v <;> rfl
  rw [e, e]
  exact RelO.bind (Ctx.trySetMin_resp v hb h) (fun d1 d2 hd => Ctx.trySetMax_resp v hb hd)

theorem headD_mem {l : List Nat} (h : l.length = 1) : l.headD 0 ∈ l := by
  match l, h with
  | [x], _ => simp

theorem eq_headD {l : List Nat} (h : l.length = 1) {o : Nat} (ho : o ∈ l) : l.headD 0 = o := by
  match l, h, ho with
  | [x], _, ho => simp at ho; simp [ho]

theorem any_congr_mem {l : List Nat} {p q : Nat → Bool} (h : ∀ x ∈ l, p x = q x) :
    l.any p = l.any q := by
  induction l with
  | nil => rfl
  | cons x l ih =>
    simp only [List.any_cons]
    rw [h x (List.mem_cons_self), ih (fun y hy => h y (List.mem_cons_of_mem _ hy))]

theorem all_congr_mem {l : List Nat} {p q : Nat → Bool} (h : ∀ x ∈ l, p x = q x) :
    l.all p = l.all q := by
  induction l with
  | nil => rfl
  | cons x l ih =>
    simp only [List.all_cons]
    rw [h x (List.mem_cons_self), ih (fun y hy => h y (List.mem_cons_of_mem _ hy))]

theorem decide_eq_iff (p : Prop) [Decidable p] (b : Bool) : decide p = b ↔ (p ↔ b = true) := by
  cases b <;> simp

/-! ### conditional steps and chains -/

theorem ite_keeps {p : Prop} [Decidable p] {f : Ctx → Option Ctx} {c : Ctx} {a : Asg}
    (hm : Mem c.st a) (h : p → ∃ c', f c = some c' ∧ Mem c'.st a) :
    ∃ c', (if p then f c else some c) = some c' ∧ Mem c'.st a := by
  split
  · rename_i hp; exact h hp
  · exact ⟨c, rfl, hm⟩

theorem ite_good {p : Prop} [Decidable p] {f : Ctx → Option Ctx} {T : List Nat} {c c' : Ctx}
    (hf : p → f c = some c' → Good T c c') :
    (if p then f c else some c) = some c' → Good T c c' := by
  intro h
  split at h
  · rename_i hp; exact hf hp h
  · cases h; exact Good.refl T c

theorem ite_resp {p : Prop} [Decidable p] {f : Ctx → Option Ctx} {T : List Nat} {d1 d2 : Ctx}
    (h : Agree T d1 d2) (hf : p → RelO T (f d1) (f d2)) :
    RelO T (if p then f d1 else some d1) (if p then f d2 else some d2) := by
  split
  · rename_i hp; exact hf hp
  · exact RelO.some h

theorem bind_keeps {o : Option Ctx} {f : Ctx → Option Ctx} {a : Asg}
    (h1 : ∃ c1, o = some c1 ∧ Mem c1.st a)
    (h2 : ∀ c1, Mem c1.st a → ∃ c', f c1 = some c' ∧ Mem c'.st a) :
    ∃ c', (o >>>= f) = some c' ∧ Mem c'.st a := by
  obtain ⟨c1, e1, m1⟩ := h1
  rw [e1]; exact h2 c1 m1

theorem bind_good {o : Option Ctx} {f : Ctx → Option Ctx} {T : List Nat} {c c' : Ctx}
    (h1 : ∀ c1, o = some c1 → Good T c c1) (h2 : ∀ c1, f c1 = some c' → Good T c1 c')
    (h : (o >>>= f) = some c') : Good T c c' := by
  obtain ⟨c1, e1, e2⟩ := bind_some h
  exact (h1 c1 e1).trans (h2 c1 e2)

end BoolK

open BoolK

/-! ### boolNot -/

def notS1 (r : Nat) (omin omax : Int) (c : Ctx) : Option Ctx :=
  if omax ≤ 0 then setBoth r 1 c else if omin ≥ 1 then setBoth r 0 c else some c

def notS2 (o : Nat) (rmin rmax : Int) (c : Ctx) : Option Ctx :=
  if rmax ≤ 0 then c.trySetMin o 1 else if rmin ≥ 1 then setBoth o 0 c else some c

theorem pruneBoolNot_eq (o r : Nat) (c : Ctx) :
    pruneBoolNot o r c =
      (notS1 r (c.st o).dmin (c.st o).dmax c >>>= notS2 o (c.st r).dmin (c.st r).dmax) := rfl

theorem holds_boolNot_iff (a : Asg) (o r : Nat) :
    holds a (.boolNot o r) = true ↔ (1 ≤ a r ↔ ¬ 1 ≤ a o) := by
  simp [holds, truthy, decide_eq_iff]

/-- the part of the `{0,1}` assumption `boolNot` needs: `r ∈ {0,1}` and `o ≥ 0` -/
def SideNot (o r : Nat) (a : Asg) : Prop := 0 ≤ a r ∧ a r ≤ 1 ∧ 0 ≤ a o

theorem sound_boolNot (o r : Nat) :
    Sound (prune (.boolNot o r)) (fun a => holds a (.boolNot o r) = true ∧ SideNot o r a) := by
  intro c a hm ⟨hs, h0, h1, h2⟩
  rw [holds_boolNot_iff] at hs
  have bo := hm.bounds o
  have br := hm.bounds r
  simp only [prune, pruneBoolNot_eq]
  refine bind_keeps ?_ ?_
  · unfold notS1
    split
    · exact setBoth_keeps hm (by omega)
    · split
      · exact setBoth_keeps hm (by omega)
      · exact ⟨c, rfl, hm⟩
  · intro c1 m1
    unfold notS2
    split
    · exact Ctx.trySetMin_keeps m1 (by omega)
    · split
      · exact setBoth_keeps m1 (by omega)
      · exact ⟨c1, rfl, m1⟩

theorem notS1_good {T : List Nat} {r : Nat} (hr : r ∈ T) {m M : Int} {c c' : Ctx}
    (h : notS1 r m M c = some c') : Good T c c' := by
  unfold notS1 at h
  split at h
  · exact setBoth_good hr h
  · split at h
    · exact setBoth_good hr h
    · cases h; exact Good.refl T c

theorem notS2_good {T : List Nat} {o : Nat} (ho : o ∈ T) {m M : Int} {c c' : Ctx}
    (h : notS2 o m M c = some c') : Good T c c' := by
  unfold notS2 at h
  split at h
  · exact Ctx.trySetMin_good ho h
  · split at h
    · exact setBoth_good ho h
    · cases h; exact Good.refl T c

theorem contracting_boolNot (o r : Nat) :
    Contracting (prune (.boolNot o r)) (triggers (.boolNot o r)) := by
  intro c c' h
  simp only [prune, pruneBoolNot_eq] at h
  obtain ⟨c1, h1, h2⟩ := bind_some h
  exact (notS1_good (by simp [triggers]) h1).trans (notS2_good (by simp [triggers]) h2)

/-- with all of `r, o` fixed a successful run certifies the meaning *and* the side condition -/
theorem checking_boolNot' (o r : Nat) :
    Checking (prune (.boolNot o r)) (fun a => holds a (.boolNot o r) = true ∧ SideNot o r a)
      (triggers (.boolNot o r)) := by
  intro c c' a hf hm h
  simp only [prune, pruneBoolNot_eq] at h
  obtain ⟨c1, h1, h2⟩ := bind_some h
  obtain ⟨wr, hr⟩ := hf r (by simp [triggers])
  obtain ⟨wo, ho⟩ := hf o (by simp [triggers])
  have er := mem_fixed hm hr
  have eo := mem_fixed hm ho
  obtain ⟨f1, m1⟩ := good_fixed (notS1_good (T := triggers (.boolNot o r)) (by simp [triggers]) h1) hf hm
  obtain ⟨wr1, hr1⟩ := f1 r (by simp [triggers])
  obtain ⟨wo1, ho1⟩ := f1 o (by simp [triggers])
  have er1 := mem_fixed m1 hr1
  have eo1 := mem_fixed m1 ho1
  rw [holds_boolNot_iff]
  unfold SideNot
  rw [(fixed_bounds hr).1, (fixed_bounds hr).2] at h2
  rw [(fixed_bounds ho).1, (fixed_bounds ho).2] at h1
  unfold notS1 at h1
  unfold notS2 at h2
  split at h1
  · have t1 := (setBoth_fixed hr h1).2
    split at h2
    · omega
    · split at h2
      · have t2 := (setBoth_fixed ho1 h2).2; omega
      · omega
  · split at h1
    · have t1 := (setBoth_fixed hr h1).2
      split at h2
      · have t2 := (Ctx.trySetMin_fixed ho1 h2).2; omega
      · omega
    · omega

theorem checking_boolNot (o r : Nat) :
    Checking (prune (.boolNot o r)) (fun a => holds a (.boolNot o r) = true)
      (triggers (.boolNot o r)) :=
  fun c c' a hf hm h => (checking_boolNot' o r c c' a hf hm h).1

theorem notS1_resp {T : List Nat} {r : Nat} (hr : r ∈ T) (m M : Int) {d1 d2 : Ctx}
    (h : Agree T d1 d2) : RelO T (notS1 r m M d1) (notS1 r m M d2) := by
  unfold notS1
  split
  · exact setBoth_resp _ hr h
  · split
    · exact setBoth_resp _ hr h
    · exact RelO.some h

theorem notS2_resp {T : List Nat} {o : Nat} (ho : o ∈ T) (m M : Int) {d1 d2 : Ctx}
    (h : Agree T d1 d2) : RelO T (notS2 o m M d1) (notS2 o m M d2) := by
  unfold notS2
  split
  · exact Ctx.trySetMin_resp _ ho h
  · split
    · exact setBoth_resp _ ho h
    · exact RelO.some h

theorem resp_boolNot (o r : Nat) : Resp (triggers (.boolNot o r)) (prune (.boolNot o r)) := by
  intro c1 c2 hag
  simp only [prune, pruneBoolNot_eq]
  rw [hag o (by simp [triggers]), hag r (by simp [triggers])]
  exact RelO.bind (notS1_resp (by simp [triggers]) _ _ hag)
    (fun d1 d2 hd => notS2_resp (by simp [triggers]) _ _ hd)

/-- contract of `boolNot` for the meaning strengthened by the side condition `SideNot` -/
theorem contract_boolNot' (o r : Nat) :
    Contract (prune (.boolNot o r)) (fun a => holds a (.boolNot o r) = true ∧ SideNot o r a)
      (triggers (.boolNot o r)) :=
  ⟨sound_boolNot o r, contracting_boolNot o r, checking_boolNot' o r, resp_boolNot o r⟩

/-- store-level form of the side condition: `dom r ⊆ {0,1}`, `dom o ⊆ [0,∞)` -/
theorem sound_boolNot_store (o r : Nat) (c : Ctx) (a : Asg)
    (hr : ∀ w ∈ c.st r, 0 ≤ w ∧ w ≤ 1) (ho : ∀ w ∈ c.st o, 0 ≤ w)
    (hm : Mem c.st a) (hs : holds a (.boolNot o r) = true) :
    ∃ c', prune (.boolNot o r) c = some c' ∧ Mem c'.st a :=
  sound_boolNot o r c a hm ⟨hs, (hr _ (hm r)).1, (hr _ (hm r)).2, ho _ (hm o)⟩

/-! ### boolXor -/

def xorS1 (x y : Nat) (xmin xmax ymin ymax rmin : Int) (ctx : Ctx) : Option Ctx :=
  if rmin ≥ 1 then
    (if xmax ≤ 0 then ctx.trySetMin y 1 else some ctx)
    >>>= (fun c => if xmin ≥ 1 then c.trySetMax y 0 else some c)
    >>>= (fun c => if ymax ≤ 0 then c.trySetMin x 1 else some c)
    >>>= (fun c => if ymin ≥ 1 then c.trySetMax x 0 else some c)
  else some ctx

def xorS2 (x y : Nat) (xmin xmax ymin ymax rmax : Int) (c : Ctx) : Option Ctx :=
  if rmax ≤ 0 then
    (if xmax ≤ 0 then c.trySetMax y 0 else some c)
    >>>= (fun c => if xmin ≥ 1 then c.trySetMin y 1 else some c)
    >>>= (fun c => if ymax ≤ 0 then c.trySetMax x 0 else some c)
    >>>= (fun c => if ymin ≥ 1 then c.trySetMin x 1 else some c)
  else some c

def xorS3 (r : Nat) (xmin xmax ymin ymax : Int) (c : Ctx) : Option Ctx :=
  if xmin = xmax ∧ ymin = ymax then
    if decide (xmin ≥ 1) != decide (ymin ≥ 1) then setBoth r 1 c else setBoth r 0 c
  else some c

theorem pruneBoolXor_eq (x y r : Nat) (c : Ctx) :
    pruneBoolXor x y r c =
      (xorS1 x y (c.st x).dmin (c.st x).dmax (c.st y).dmin (c.st y).dmax (c.st r).dmin c
        >>>= xorS2 x y (c.st x).dmin (c.st x).dmax (c.st y).dmin (c.st y).dmax (c.st r).dmax
        >>>= xorS3 r (c.st x).dmin (c.st x).dmax (c.st y).dmin (c.st y).dmax) := rfl

theorem holds_boolXor_iff (a : Asg) (x y r : Nat) :
    holds a (.boolXor x y r) = true ↔ (1 ≤ a r ↔ ¬ (1 ≤ a x ↔ 1 ≤ a y)) := by
  simp [holds, truthy, decide_eq_iff]

/-- the part of the `{0,1}` assumption `boolXor` needs: `r ∈ {0,1}` -/
def SideXor (r : Nat) (a : Asg) : Prop := 0 ≤ a r ∧ a r ≤ 1

theorem xorS1_keeps {x y r : Nat} {xmin xmax ymin ymax rmin : Int} {c : Ctx} {a : Asg}
    (hs : 1 ≤ a r ↔ ¬ (1 ≤ a x ↔ 1 ≤ a y))
    (bx : xmin ≤ a x ∧ a x ≤ xmax) (byy : ymin ≤ a y ∧ a y ≤ ymax) (br : rmin ≤ a r)
    (hm : Mem c.st a) : ∃ c', xorS1 x y xmin xmax ymin ymax rmin c = some c' ∧ Mem c'.st a := by
  unfold xorS1
  apply ite_keeps hm; intro hr
  refine bind_keeps (bind_keeps (bind_keeps ?_ ?_) ?_) ?_
  · apply ite_keeps hm; intro _; exact Ctx.trySetMin_keeps hm (by omega)
  · intro c1 m1; apply ite_keeps m1; intro _; exact Ctx.trySetMax_keeps m1 (by omega)
  · intro c1 m1; apply ite_keeps m1; intro _; exact Ctx.trySetMin_keeps m1 (by omega)
  · intro c1 m1; apply ite_keeps m1; intro _; exact Ctx.trySetMax_keeps m1 (by omega)

theorem xorS2_keeps {x y r : Nat} {xmin xmax ymin ymax rmax : Int} {c : Ctx} {a : Asg}
    (hs : 1 ≤ a r ↔ ¬ (1 ≤ a x ↔ 1 ≤ a y))
    (bx : xmin ≤ a x ∧ a x ≤ xmax) (byy : ymin ≤ a y ∧ a y ≤ ymax) (br : a r ≤ rmax)
    (hm : Mem c.st a) : ∃ c', xorS2 x y xmin xmax ymin ymax rmax c = some c' ∧ Mem c'.st a := by
  unfold xorS2
  apply ite_keeps hm; intro hr
  refine bind_keeps (bind_keeps (bind_keeps ?_ ?_) ?_) ?_
  · apply ite_keeps hm; intro _; exact Ctx.trySetMax_keeps hm (by omega)
  · intro c1 m1; apply ite_keeps m1; intro _; exact Ctx.trySetMin_keeps m1 (by omega)
  · intro c1 m1; apply ite_keeps m1; intro _; exact Ctx.trySetMax_keeps m1 (by omega)
  · intro c1 m1; apply ite_keeps m1; intro _; exact Ctx.trySetMin_keeps m1 (by omega)

theorem xorS3_keeps {x y r : Nat} {xmin xmax ymin ymax : Int} {c : Ctx} {a : Asg}
    (hs : 1 ≤ a r ↔ ¬ (1 ≤ a x ↔ 1 ≤ a y)) (hside : SideXor r a)
    (bx : xmin ≤ a x ∧ a x ≤ xmax) (byy : ymin ≤ a y ∧ a y ≤ ymax)
    (hm : Mem c.st a) : ∃ c', xorS3 r xmin xmax ymin ymax c = some c' ∧ Mem c'.st a := by
  unfold xorS3
  unfold SideXor at hside
  apply ite_keeps hm; intro hfx
  split
  · rename_i hb
    have : ¬ (xmin ≥ 1 ↔ ymin ≥ 1) := by simpa [decide_eq_iff] using hb
    exact setBoth_keeps hm (by omega)
  · rename_i hb
    have : (xmin ≥ 1 ↔ ymin ≥ 1) := by simpa [decide_eq_iff] using hb
    exact setBoth_keeps hm (by omega)

theorem sound_boolXor (x y r : Nat) :
    Sound (prune (.boolXor x y r)) (fun a => holds a (.boolXor x y r) = true ∧ SideXor r a) := by
  intro c a hm ⟨hs, hside⟩
  rw [holds_boolXor_iff] at hs
  simp only [prune, pruneBoolXor_eq]
  refine bind_keeps (bind_keeps ?_ ?_) ?_
  · exact xorS1_keeps hs (hm.bounds x) (hm.bounds y) (hm.bounds r).1 hm
  · intro c1 m1; exact xorS2_keeps hs (hm.bounds x) (hm.bounds y) (hm.bounds r).2 m1
  · intro c1 m1; exact xorS3_keeps hs hside (hm.bounds x) (hm.bounds y) m1

theorem xorS1_good {T : List Nat} {x y : Nat} (hx : x ∈ T) (hy : y ∈ T)
    {xmin xmax ymin ymax rmin : Int} {c c' : Ctx}
    (h : xorS1 x y xmin xmax ymin ymax rmin c = some c') : Good T c c' := by
  unfold xorS1 at h
  revert h; apply ite_good; intro _ h
  refine bind_good (fun c3 h3 => bind_good (fun c2 h2 => bind_good (fun c1 h1 => ?_) (fun c1 h1 => ?_) h2)
    (fun c2 h2 => ?_) h3) (fun c3 h3 => ?_) h
  · revert h1; apply ite_good; intro _ h; exact Ctx.trySetMin_good hy h
  · revert h1; apply ite_good; intro _ h; exact Ctx.trySetMax_good hy h
  · revert h2; apply ite_good; intro _ h; exact Ctx.trySetMin_good hx h
  · revert h3; apply ite_good; intro _ h; exact Ctx.trySetMax_good hx h

theorem xorS2_good {T : List Nat} {x y : Nat} (hx : x ∈ T) (hy : y ∈ T)
    {xmin xmax ymin ymax rmax : Int} {c c' : Ctx}
    (h : xorS2 x y xmin xmax ymin ymax rmax c = some c') : Good T c c' := by
  unfold xorS2 at h
  revert h; apply ite_good; intro _ h
  refine bind_good (fun c3 h3 => bind_good (fun c2 h2 => bind_good (fun c1 h1 => ?_) (fun c1 h1 => ?_) h2)
    (fun c2 h2 => ?_) h3) (fun c3 h3 => ?_) h
  · revert h1; apply ite_good; intro _ h; exact Ctx.trySetMax_good hy h
  · revert h1; apply ite_good; intro _ h; exact Ctx.trySetMin_good hy h
  · revert h2; apply ite_good; intro _ h; exact Ctx.trySetMax_good hx h
  · revert h3; apply ite_good; intro _ h; exact Ctx.trySetMin_good hx h

theorem xorS3_good {T : List Nat} {r : Nat} (hr : r ∈ T) {xmin xmax ymin ymax : Int} {c c' : Ctx}
    (h : xorS3 r xmin xmax ymin ymax c = some c') : Good T c c' := by
  unfold xorS3 at h
  revert h; apply ite_good; intro _ h
  split at h
  · exact setBoth_good hr h
  · exact setBoth_good hr h

theorem contracting_boolXor (x y r : Nat) :
    Contracting (prune (.boolXor x y r)) (triggers (.boolXor x y r)) := by
  intro c c' h
  simp only [prune, pruneBoolXor_eq] at h
  obtain ⟨c2, h2, h3⟩ := bind_some h
  obtain ⟨c1, h1, h2⟩ := bind_some h2
  exact ((xorS1_good (by simp [triggers]) (by simp [triggers]) h1).trans
    (xorS2_good (by simp [triggers]) (by simp [triggers]) h2)).trans
    (xorS3_good (by simp [triggers]) h3)

theorem checking_boolXor' (x y r : Nat) :
    Checking (prune (.boolXor x y r)) (fun a => holds a (.boolXor x y r) = true ∧ SideXor r a)
      (triggers (.boolXor x y r)) := by
  intro c c' a hf hm h
  simp only [prune, pruneBoolXor_eq] at h
  obtain ⟨c2, h2, h3⟩ := bind_some h
  obtain ⟨c1, h1, h2⟩ := bind_some h2
  have g2 : Good (triggers (.boolXor x y r)) c c2 :=
    (xorS1_good (by simp [triggers]) (by simp [triggers]) h1).trans
      (xorS2_good (by simp [triggers]) (by simp [triggers]) h2)
  obtain ⟨f2, m2⟩ := good_fixed g2 hf hm
  obtain ⟨wx, hx⟩ := hf x (by simp [triggers])
  obtain ⟨wy, hy⟩ := hf y (by simp [triggers])
  obtain ⟨wr, hr⟩ := f2 r (by simp [triggers])
  have ex := mem_fixed hm hx
  have ey := mem_fixed hm hy
  have er := mem_fixed m2 hr
  rw [(fixed_bounds hx).1, (fixed_bounds hx).2, (fixed_bounds hy).1, (fixed_bounds hy).2] at h3
  rw [holds_boolXor_iff]
  unfold SideXor
  unfold xorS3 at h3
  rw [if_pos ⟨rfl, rfl⟩] at h3
  split at h3
  · rename_i hb
    have : ¬ (wx ≥ 1 ↔ wy ≥ 1) := by simpa [decide_eq_iff] using hb
    have t := (setBoth_fixed hr h3).2
    omega
  · rename_i hb
    have : (wx ≥ 1 ↔ wy ≥ 1) := by simpa [decide_eq_iff] using hb
    have t := (setBoth_fixed hr h3).2
    omega

theorem checking_boolXor (x y r : Nat) :
    Checking (prune (.boolXor x y r)) (fun a => holds a (.boolXor x y r) = true)
      (triggers (.boolXor x y r)) :=
  fun c c' a hf hm h => (checking_boolXor' x y r c c' a hf hm h).1

theorem xorS1_resp {T : List Nat} {x y : Nat} (hx : x ∈ T) (hy : y ∈ T)
    (xmin xmax ymin ymax rmin : Int) {d1 d2 : Ctx} (h : Agree T d1 d2) :
    RelO T (xorS1 x y xmin xmax ymin ymax rmin d1) (xorS1 x y xmin xmax ymin ymax rmin d2) := by
  unfold xorS1
  apply ite_resp h; intro _
  refine RelO.bind (RelO.bind (RelO.bind ?_ ?_) ?_) ?_
  · apply ite_resp h; intro _; exact Ctx.trySetMin_resp _ hy h
  · intro e1 e2 he; apply ite_resp he; intro _; exact Ctx.trySetMax_resp _ hy he
  · intro e1 e2 he; apply ite_resp he; intro _; exact Ctx.trySetMin_resp _ hx he
  · intro e1 e2 he; apply ite_resp he; intro _; exact Ctx.trySetMax_resp _ hx he

theorem xorS2_resp {T : List Nat} {x y : Nat} (hx : x ∈ T) (hy : y ∈ T)
    (xmin xmax ymin ymax rmax : Int) {d1 d2 : Ctx} (h : Agree T d1 d2) :
    RelO T (xorS2 x y xmin xmax ymin ymax rmax d1) (xorS2 x y xmin xmax ymin ymax rmax d2) := by
  unfold xorS2
  apply ite_resp h; intro _
  refine RelO.bind (RelO.bind (RelO.bind ?_ ?_) ?_) ?_
  · apply ite_resp h; intro _; exact Ctx.trySetMax_resp _ hy h
  · intro e1 e2 he; apply ite_resp he; intro _; exact Ctx.trySetMin_resp _ hy he
  · intro e1 e2 he; apply ite_resp he; intro _; exact Ctx.trySetMax_resp _ hx he
  · intro e1 e2 he; apply ite_resp he; intro _; exact Ctx.trySetMin_resp _ hx he

theorem xorS3_resp {T : List Nat} {r : Nat} (hr : r ∈ T)
    (xmin xmax ymin ymax : Int) {d1 d2 : Ctx} (h : Agree T d1 d2) :
    RelO T (xorS3 r xmin xmax ymin ymax d1) (xorS3 r xmin xmax ymin ymax d2) := by
  unfold xorS3
  apply ite_resp h; intro _
  split
  · exact setBoth_resp _ hr h
  · exact setBoth_resp _ hr h

theorem resp_boolXor (x y r : Nat) : Resp (triggers (.boolXor x y r)) (prune (.boolXor x y r)) := by
  intro c1 c2 hag
  simp only [prune, pruneBoolXor_eq]
  rw [hag x (by simp [triggers]), hag y (by simp [triggers]), hag r (by simp [triggers])]
  refine RelO.bind (RelO.bind ?_ ?_) ?_
  · exact xorS1_resp (by simp [triggers]) (by simp [triggers]) _ _ _ _ _ hag
  · intro d1 d2 hd; exact xorS2_resp (by simp [triggers]) (by simp [triggers]) _ _ _ _ _ hd
  · intro d1 d2 hd; exact xorS3_resp (by simp [triggers]) _ _ _ _ hd

/-- contract of `boolXor` for the meaning strengthened by the side condition `SideXor` -/
theorem contract_boolXor' (x y r : Nat) :
    Contract (prune (.boolXor x y r)) (fun a => holds a (.boolXor x y r) = true ∧ SideXor r a)
      (triggers (.boolXor x y r)) :=
  ⟨sound_boolXor x y r, contracting_boolXor x y r, checking_boolXor' x y r, resp_boolXor x y r⟩

/-- store-level form of the side condition: `dom r ⊆ {0,1}` -/
theorem sound_boolXor_store (x y r : Nat) (c : Ctx) (a : Asg)
    (hr : ∀ w ∈ c.st r, 0 ≤ w ∧ w ≤ 1)
    (hm : Mem c.st a) (hs : holds a (.boolXor x y r) = true) :
    ∃ c', prune (.boolXor x y r) c = some c' ∧ Mem c'.st a :=
  sound_boolXor x y r c a hm ⟨hs, hr _ (hm r)⟩

/-! ### boolAnd -/

def andS1 (ops : List Nat) (rmin : Int) (ctx : Ctx) : Option Ctx :=
  if rmin ≥ 1 then forM' ops ctx (fun o c => c.trySetMin o 1) else some ctx

def andS2 (ops : List Nat) (rmax : Int) (c : Ctx) : Option Ctx :=
  if rmax ≤ 0 then
    if (ops.filter (fun o => decide ((c.st o).dmax ≤ 0))).length = 0 ∧
       (ops.filter (fun o => !decide ((c.st o).dmax ≤ 0) && decide ((c.st o).dmin ≤ 0)
          && decide ((c.st o).dmax ≥ 1))).length = 1
    then c.trySetMax ((ops.filter (fun o => !decide ((c.st o).dmax ≤ 0) && decide ((c.st o).dmin ≤ 0)
          && decide ((c.st o).dmax ≥ 1))).headD 0) 0
    else some c
  else some c

def andS3 (ops : List Nat) (r : Nat) (c : Ctx) : Option Ctx :=
  if ops.any (fun o => decide ((c.st o).dmax ≤ 0)) then c.trySetMax r 0
  else if ops.all (fun o => !decide ((c.st o).dmin ≤ 0)) then c.trySetMin r 1
  else some c

theorem pruneBoolAnd_eq (ops : List Nat) (r : Nat) (c : Ctx) :
    pruneBoolAnd ops r c =
      if ops.isEmpty then setBoth r 1 c else
        (andS1 ops (c.st r).dmin c >>>= andS2 ops (c.st r).dmax >>>= andS3 ops r) := rfl

theorem holds_boolAnd_iff (a : Asg) (ops : List Nat) (r : Nat) :
    holds a (.boolAnd ops r) = true ↔ (1 ≤ a r ↔ ∀ o ∈ ops, 1 ≤ a o) := by
  simp [holds, truthy, decide_eq_iff]

/-- the part of the `{0,1}` assumption `boolAnd` needs: only for the empty conjunction, `r ≤ 1` -/
def SideAnd (ops : List Nat) (r : Nat) (a : Asg) : Prop := ops = [] → a r ≤ 1

theorem andS1_keeps {ops : List Nat} {rmin : Int} {c : Ctx} {a : Asg}
    (h : rmin ≥ 1 → ∀ o ∈ ops, 1 ≤ a o) (hm : Mem c.st a) :
    ∃ c', andS1 ops rmin c = some c' ∧ Mem c'.st a := by
  unfold andS1
  apply ite_keeps hm; intro hr
  exact forM'_keeps (fun o ho c1 m1 => Ctx.trySetMin_keeps m1 (h hr o ho)) c hm

theorem andS2_keeps {ops : List Nat} {rmax : Int} {c : Ctx} {a : Asg}
    (h : rmax ≤ 0 → ∃ o ∈ ops, a o ≤ 0) (hm : Mem c.st a) :
    ∃ c', andS2 ops rmax c = some c' ∧ Mem c'.st a := by
  unfold andS2
  apply ite_keeps hm; intro hr
  apply ite_keeps hm; intro ⟨hF, hU⟩
  obtain ⟨o, ho, hao⟩ := h hr
  have bo := hm.bounds o
  have hnf : ¬ (c.st o).dmax ≤ 0 := by
    intro hle
    have : o ∈ ops.filter (fun o => decide ((c.st o).dmax ≤ 0)) :=
      List.mem_filter.2 ⟨ho, by simpa using hle⟩
    rw [List.eq_nil_of_length_eq_zero hF] at this
    cases this
  have hmem : o ∈ ops.filter (fun o => !decide ((c.st o).dmax ≤ 0) && decide ((c.st o).dmin ≤ 0)
          && decide ((c.st o).dmax ≥ 1)) := by
    refine List.mem_filter.2 ⟨ho, ?_⟩
    simp only [Bool.and_eq_true, Bool.not_eq_true', decide_eq_false_iff_not, decide_eq_true_eq]
    omega
  rw [eq_headD hU hmem]
  exact Ctx.trySetMax_keeps hm hao

theorem andS3_keeps {ops : List Nat} {r : Nat} {c : Ctx} {a : Asg}
    (hs : 1 ≤ a r ↔ ∀ o ∈ ops, 1 ≤ a o) (hm : Mem c.st a) :
    ∃ c', andS3 ops r c = some c' ∧ Mem c'.st a := by
  unfold andS3
  split
  · rename_i hany
    obtain ⟨o, ho, hle⟩ := List.any_eq_true.1 hany
    have hle : (c.st o).dmax ≤ 0 := by simpa using hle
    have bo := hm.bounds o
    refine Ctx.trySetMax_keeps hm ?_
    by_cases hr : 1 ≤ a r
    · have := hs.1 hr o ho; omega
    · omega
  · split
    · rename_i hall
      refine Ctx.trySetMin_keeps hm (hs.2 ?_)
      intro o ho
      have := List.all_eq_true.1 hall o ho
      have hgt : ¬ (c.st o).dmin ≤ 0 := by simpa using this
      have bo := hm.bounds o
      omega
    · exact ⟨c, rfl, hm⟩

theorem sound_boolAnd (ops : List Nat) (r : Nat) :
    Sound (prune (.boolAnd ops r))
      (fun a => holds a (.boolAnd ops r) = true ∧ SideAnd ops r a) := by
  intro c a hm ⟨hs, hside⟩
  rw [holds_boolAnd_iff] at hs
  have br := hm.bounds r
  simp only [prune, pruneBoolAnd_eq]
  split
  · rename_i he
    have he : ops = [] := by simpa using he
    have := hside he
    subst he
    exact setBoth_keeps hm (by have := hs.2 (by simp); omega)
  · refine bind_keeps (bind_keeps ?_ ?_) ?_
    · exact andS1_keeps (fun hr => hs.1 (by omega)) hm
    · intro c1 m1
      refine andS2_keeps (fun hr => ?_) m1
      have hnr : ¬ 1 ≤ a r := by omega
      have hn : ¬ ∀ o ∈ ops, 1 ≤ a o := fun hall => hnr (hs.2 hall)
      simp only [Classical.not_forall] at hn
      obtain ⟨o, ho, hlt⟩ := hn
      exact ⟨o, ho, by omega⟩
    · intro c1 m1; exact andS3_keeps hs m1

theorem andS1_good {T : List Nat} {ops : List Nat} (hT : ∀ o ∈ ops, o ∈ T) {rmin : Int} {c c' : Ctx}
    (h : andS1 ops rmin c = some c') : Good T c c' := by
  unfold andS1 at h
  revert h; apply ite_good; intro _ h
  exact forM'_good (fun o ho c1 c2 h12 => Ctx.trySetMin_good (hT o ho) h12) c c' h

theorem andS2_good {T : List Nat} {ops : List Nat} (hT : ∀ o ∈ ops, o ∈ T) {rmax : Int} {c c' : Ctx}
    (h : andS2 ops rmax c = some c') : Good T c c' := by
  unfold andS2 at h
  revert h; apply ite_good; intro _
  apply ite_good; intro ⟨_, hU⟩ h
  exact Ctx.trySetMax_good (hT _ (List.mem_filter.1 (headD_mem hU)).1) h

theorem andS3_good {T : List Nat} {ops : List Nat} {r : Nat} (hr : r ∈ T) {c c' : Ctx}
    (h : andS3 ops r c = some c') : Good T c c' := by
  unfold andS3 at h
  split at h
  · exact Ctx.trySetMax_good hr h
  · split at h
    · exact Ctx.trySetMin_good hr h
    · cases h; exact Good.refl T c

theorem contracting_boolAnd (ops : List Nat) (r : Nat) :
    Contracting (prune (.boolAnd ops r)) (triggers (.boolAnd ops r)) := by
  intro c c' h
  have hr : r ∈ triggers (.boolAnd ops r) := by simp [triggers]
  have hT : ∀ o ∈ ops, o ∈ triggers (.boolAnd ops r) := fun o ho => by simp [triggers, ho]
  simp only [prune, pruneBoolAnd_eq] at h
  split at h
  · exact setBoth_good hr h
  · obtain ⟨c2, h2, h3⟩ := bind_some h
    obtain ⟨c1, h1, h2⟩ := bind_some h2
    exact ((andS1_good hT h1).trans (andS2_good hT h2)).trans (andS3_good hr h3)

theorem andS3_check {ops : List Nat} {r : Nat} {c c' : Ctx} {a : Asg}
    (hfo : ∀ o ∈ ops, ∃ w, c.st o = [w]) (hfr : ∃ w, c.st r = [w]) (hm : Mem c.st a)
    (h : andS3 ops r c = some c') : (1 ≤ a r ↔ ∀ o ∈ ops, 1 ≤ a o) := by
  obtain ⟨wr, hr⟩ := hfr
  have er := mem_fixed hm hr
  unfold andS3 at h
  split at h
  · rename_i hany
    obtain ⟨o, ho, hle⟩ := List.any_eq_true.1 hany
    have hle : (c.st o).dmax ≤ 0 := by simpa using hle
    have bo := hm.bounds o
    have t := (Ctx.trySetMax_fixed hr h).2
    constructor
    · intro h1; omega
    · intro hall; have := hall o ho; omega
  · rename_i hany
    have hall : ∀ o ∈ ops, 1 ≤ a o := by
      intro o ho
      obtain ⟨w, hw⟩ := hfo o ho
      have eo := mem_fixed hm hw
      have hb := fixed_bounds hw
      have : ¬ (c.st o).dmax ≤ 0 := by
        intro hle; apply hany
        exact List.any_eq_true.2 ⟨o, ho, by simpa using hle⟩
      omega
    have hallT : (ops.all (fun o => !decide ((c.st o).dmin ≤ 0))) = true := by
      apply List.all_eq_true.2
      intro o ho
      obtain ⟨w, hw⟩ := hfo o ho
      have eo := mem_fixed hm hw
      have hb := fixed_bounds hw
      have := hall o ho
      simp only [Bool.not_eq_true', decide_eq_false_iff_not]
      omega
    rw [if_pos hallT] at h
    have t := (Ctx.trySetMin_fixed hr h).2
    exact ⟨fun _ => hall, fun _ => by omega⟩

theorem checking_boolAnd' (ops : List Nat) (r : Nat) :
    Checking (prune (.boolAnd ops r))
      (fun a => holds a (.boolAnd ops r) = true ∧ SideAnd ops r a) (triggers (.boolAnd ops r)) := by
  intro c c' a hf hm h
  have hr : r ∈ triggers (.boolAnd ops r) := by simp [triggers]
  have hT : ∀ o ∈ ops, o ∈ triggers (.boolAnd ops r) := fun o ho => by simp [triggers, ho]
  rw [holds_boolAnd_iff]
  unfold SideAnd
  simp only [prune, pruneBoolAnd_eq] at h
  split at h
  · rename_i he
    have he : ops = [] := by simpa using he
    subst he
    obtain ⟨wr, hwr⟩ := hf r hr
    have er := mem_fixed hm hwr
    have t := (setBoth_fixed hwr h).2
    refine ⟨⟨fun _ => by simp, fun _ => by omega⟩, fun _ => by omega⟩
  · rename_i hne
    obtain ⟨c2, h2, h3⟩ := bind_some h
    obtain ⟨c1, h1, h2⟩ := bind_some h2
    obtain ⟨f2, m2⟩ := good_fixed ((andS1_good hT h1).trans (andS2_good hT h2)) hf hm
    refine ⟨andS3_check (fun o ho => f2 o (hT o ho)) (f2 r hr) m2 h3, fun he => ?_⟩
    subst he; simp at hne

theorem checking_boolAnd (ops : List Nat) (r : Nat) :
    Checking (prune (.boolAnd ops r)) (fun a => holds a (.boolAnd ops r) = true)
      (triggers (.boolAnd ops r)) :=
  fun c c' a hf hm h => (checking_boolAnd' ops r c c' a hf hm h).1

theorem andS1_resp {T : List Nat} {ops : List Nat} (hT : ∀ o ∈ ops, o ∈ T) (rmin : Int)
    {d1 d2 : Ctx} (h : Agree T d1 d2) : RelO T (andS1 ops rmin d1) (andS1 ops rmin d2) := by
  unfold andS1
  apply ite_resp h; intro _
  exact forM'_resp (f := fun o c => c.trySetMin o 1)
    (fun o ho e1 e2 he => Ctx.trySetMin_resp _ (hT o ho) he) d1 d2 h

theorem andS2_resp {T : List Nat} {ops : List Nat} (hT : ∀ o ∈ ops, o ∈ T) (rmax : Int)
    {d1 d2 : Ctx} (h : Agree T d1 d2) : RelO T (andS2 ops rmax d1) (andS2 ops rmax d2) := by
  unfold andS2
  have e1 : ops.filter (fun o => decide ((d1.st o).dmax ≤ 0)) =
      ops.filter (fun o => decide ((d2.st o).dmax ≤ 0)) :=
    List.filter_congr (fun o ho => by rw [h o (hT o ho)])
  have e2 : ops.filter (fun o => !decide ((d1.st o).dmax ≤ 0) && decide ((d1.st o).dmin ≤ 0)
          && decide ((d1.st o).dmax ≥ 1)) =
      ops.filter (fun o => !decide ((d2.st o).dmax ≤ 0) && decide ((d2.st o).dmin ≤ 0)
          && decide ((d2.st o).dmax ≥ 1)) :=
    List.filter_congr (fun o ho => by rw [h o (hT o ho)])
  rw [e1, e2]
  apply ite_resp h; intro _
  apply ite_resp h; intro ⟨_, hU⟩
  exact Ctx.trySetMax_resp _ (hT _ (List.mem_filter.1 (headD_mem hU)).1) h

theorem andS3_resp {T : List Nat} {ops : List Nat} {r : Nat} (hT : ∀ o ∈ ops, o ∈ T) (hr : r ∈ T)
    {d1 d2 : Ctx} (h : Agree T d1 d2) : RelO T (andS3 ops r d1) (andS3 ops r d2) := by
  unfold andS3
  have e1 : ops.any (fun o => decide ((d1.st o).dmax ≤ 0)) =
      ops.any (fun o => decide ((d2.st o).dmax ≤ 0)) :=
    any_congr_mem (fun o ho => by rw [h o (hT o ho)])
  have e2 : ops.all (fun o => !decide ((d1.st o).dmin ≤ 0)) =
      ops.all (fun o => !decide ((d2.st o).dmin ≤ 0)) :=
    all_congr_mem (fun o ho => by rw [h o (hT o ho)])
  rw [e1, e2]
  split
  · exact Ctx.trySetMax_resp _ hr h
  · split
    · exact Ctx.trySetMin_resp _ hr h
    · exact RelO.some h

theorem resp_boolAnd (ops : List Nat) (r : Nat) :
    Resp (triggers (.boolAnd ops r)) (prune (.boolAnd ops r)) := by
  intro c1 c2 hag
  have hr : r ∈ triggers (.boolAnd ops r) := by simp [triggers]
  have hT : ∀ o ∈ ops, o ∈ triggers (.boolAnd ops r) := fun o ho => by simp [triggers, ho]
  simp only [prune, pruneBoolAnd_eq]
  rw [hag r hr]
  split
  · exact setBoth_resp _ hr hag
  · refine RelO.bind (RelO.bind ?_ ?_) ?_
    · exact andS1_resp hT _ hag
    · intro d1 d2 hd; exact andS2_resp hT _ hd
    · intro d1 d2 hd; exact andS3_resp hT hr hd

/-- contract of `boolAnd` for the meaning strengthened by `SideAnd` (vacuous when `ops ≠ []`) -/
theorem contract_boolAnd' (ops : List Nat) (r : Nat) :
    Contract (prune (.boolAnd ops r))
      (fun a => holds a (.boolAnd ops r) = true ∧ SideAnd ops r a) (triggers (.boolAnd ops r)) :=
  ⟨sound_boolAnd ops r, contracting_boolAnd ops r, checking_boolAnd' ops r, resp_boolAnd ops r⟩

/-- the plain contract holds for a non-empty operand list -/
theorem contract_boolAnd (ops : List Nat) (r : Nat) (hne : ops ≠ []) :
    Contract (prune (.boolAnd ops r)) (fun a => holds a (.boolAnd ops r) = true)
      (triggers (.boolAnd ops r)) :=
  ⟨fun c a hm hs => sound_boolAnd ops r c a hm ⟨hs, fun he => absurd he hne⟩,
   contracting_boolAnd ops r, checking_boolAnd ops r, resp_boolAnd ops r⟩

/-! ### boolOr -/

def orS1 (ops : List Nat) (rmax : Int) (ctx : Ctx) : Option Ctx :=
  if rmax ≤ 0 then forM' ops ctx (fun o c => c.trySetMax o 0) else some ctx

def orS2 (ops : List Nat) (rmin : Int) (c : Ctx) : Option Ctx :=
  if rmin ≥ 1 then
    if (ops.filter (fun o => decide ((c.st o).dmin ≥ 1))).length = 0 ∧
       (ops.filter (fun o => !decide ((c.st o).dmin ≥ 1) && decide ((c.st o).dmin ≤ 0)
          && decide ((c.st o).dmax ≥ 1))).length = 1
    then c.trySetMin ((ops.filter (fun o => !decide ((c.st o).dmin ≥ 1) && decide ((c.st o).dmin ≤ 0)
          && decide ((c.st o).dmax ≥ 1))).headD 0) 1
    else some c
  else some c

def orS3 (ops : List Nat) (r : Nat) (c : Ctx) : Option Ctx :=
  if ops.any (fun o => decide ((c.st o).dmin ≥ 1)) then c.trySetMin r 1
  else if ops.all (fun o => !decide ((c.st o).dmax ≥ 1)) then c.trySetMax r 0
  else some c

theorem pruneBoolOr_eq (ops : List Nat) (r : Nat) (c : Ctx) :
    pruneBoolOr ops r c =
      if ops.isEmpty then setBoth r 0 c else
        (orS1 ops (c.st r).dmax c >>>= orS2 ops (c.st r).dmin >>>= orS3 ops r) := rfl

theorem holds_boolOr_iff (a : Asg) (ops : List Nat) (r : Nat) :
    holds a (.boolOr ops r) = true ↔ (1 ≤ a r ↔ ∃ o ∈ ops, 1 ≤ a o) := by
  simp [holds, truthy, decide_eq_iff]

/-- the part of the `{0,1}` assumption `boolOr` needs: only for the empty disjunction, `0 ≤ r` -/
def SideOr (ops : List Nat) (r : Nat) (a : Asg) : Prop := ops = [] → 0 ≤ a r

theorem orS1_keeps {ops : List Nat} {rmax : Int} {c : Ctx} {a : Asg}
    (h : rmax ≤ 0 → ∀ o ∈ ops, a o ≤ 0) (hm : Mem c.st a) :
    ∃ c', orS1 ops rmax c = some c' ∧ Mem c'.st a := by
  unfold orS1
  apply ite_keeps hm; intro hr
  exact forM'_keeps (fun o ho c1 m1 => Ctx.trySetMax_keeps m1 (h hr o ho)) c hm

theorem orS2_keeps {ops : List Nat} {rmin : Int} {c : Ctx} {a : Asg}
    (h : rmin ≥ 1 → ∃ o ∈ ops, 1 ≤ a o) (hm : Mem c.st a) :
    ∃ c', orS2 ops rmin c = some c' ∧ Mem c'.st a := by
  unfold orS2
  apply ite_keeps hm; intro hr
  apply ite_keeps hm; intro ⟨hF, hU⟩
  obtain ⟨o, ho, hao⟩ := h hr
  have bo := hm.bounds o
  have hnf : ¬ (c.st o).dmin ≥ 1 := by
    intro hle
    have : o ∈ ops.filter (fun o => decide ((c.st o).dmin ≥ 1)) :=
      List.mem_filter.2 ⟨ho, by simpa using hle⟩
    rw [List.eq_nil_of_length_eq_zero hF] at this
    cases this
  have hmem : o ∈ ops.filter (fun o => !decide ((c.st o).dmin ≥ 1) && decide ((c.st o).dmin ≤ 0)
          && decide ((c.st o).dmax ≥ 1)) := by
    refine List.mem_filter.2 ⟨ho, ?_⟩
    simp only [Bool.and_eq_true, Bool.not_eq_true', decide_eq_false_iff_not, decide_eq_true_eq]
    omega
  rw [eq_headD hU hmem]
  exact Ctx.trySetMin_keeps hm hao

theorem orS3_keeps {ops : List Nat} {r : Nat} {c : Ctx} {a : Asg}
    (hs : 1 ≤ a r ↔ ∃ o ∈ ops, 1 ≤ a o) (hm : Mem c.st a) :
    ∃ c', orS3 ops r c = some c' ∧ Mem c'.st a := by
  unfold orS3
  split
  · rename_i hany
    obtain ⟨o, ho, hle⟩ := List.any_eq_true.1 hany
    have hle : (c.st o).dmin ≥ 1 := by simpa using hle
    have bo := hm.bounds o
    exact Ctx.trySetMin_keeps hm (hs.2 ⟨o, ho, by omega⟩)
  · split
    · rename_i hall
      refine Ctx.trySetMax_keeps hm ?_
      by_cases hr : 1 ≤ a r
      · obtain ⟨o, ho, h1⟩ := hs.1 hr
        have := List.all_eq_true.1 hall o ho
        have hgt : ¬ (c.st o).dmax ≥ 1 := by simpa using this
        have bo := hm.bounds o
        omega
      · omega
    · exact ⟨c, rfl, hm⟩

theorem sound_boolOr (ops : List Nat) (r : Nat) :
    Sound (prune (.boolOr ops r))
      (fun a => holds a (.boolOr ops r) = true ∧ SideOr ops r a) := by
  intro c a hm ⟨hs, hside⟩
  rw [holds_boolOr_iff] at hs
  have br := hm.bounds r
  simp only [prune, pruneBoolOr_eq]
  split
  · rename_i he
    have he : ops = [] := by simpa using he
    have := hside he
    subst he
    have hn : ¬ 1 ≤ a r := fun h1 => by
      obtain ⟨o, ho, _⟩ := hs.1 h1
      cases ho
    exact setBoth_keeps hm (by omega)
  · refine bind_keeps (bind_keeps ?_ ?_) ?_
    · refine orS1_keeps (fun hr o ho => ?_) hm
      have hnr : ¬ 1 ≤ a r := by omega
      have : ¬ 1 ≤ a o := fun h1 => hnr (hs.2 ⟨o, ho, h1⟩)
      omega
    · intro c1 m1
      exact orS2_keeps (fun hr => hs.1 (by omega)) m1
    · intro c1 m1; exact orS3_keeps hs m1

theorem orS1_good {T : List Nat} {ops : List Nat} (hT : ∀ o ∈ ops, o ∈ T) {rmax : Int} {c c' : Ctx}
    (h : orS1 ops rmax c = some c') : Good T c c' := by
  unfold orS1 at h
  revert h; apply ite_good; intro _ h
  exact forM'_good (fun o ho c1 c2 h12 => Ctx.trySetMax_good (hT o ho) h12) c c' h

theorem orS2_good {T : List Nat} {ops : List Nat} (hT : ∀ o ∈ ops, o ∈ T) {rmin : Int} {c c' : Ctx}
    (h : orS2 ops rmin c = some c') : Good T c c' := by
  unfold orS2 at h
  revert h; apply ite_good; intro _
  apply ite_good; intro ⟨_, hU⟩ h
  exact Ctx.trySetMin_good (hT _ (List.mem_filter.1 (headD_mem hU)).1) h

theorem orS3_good {T : List Nat} {ops : List Nat} {r : Nat} (hr : r ∈ T) {c c' : Ctx}
    (h : orS3 ops r c = some c') : Good T c c' := by
  unfold orS3 at h
  split at h
  · exact Ctx.trySetMin_good hr h
  · split at h
    · exact Ctx.trySetMax_good hr h
    · cases h; exact Good.refl T c

theorem contracting_boolOr (ops : List Nat) (r : Nat) :
    Contracting (prune (.boolOr ops r)) (triggers (.boolOr ops r)) := by
  intro c c' h
  have hr : r ∈ triggers (.boolOr ops r) := by simp [triggers]
  have hT : ∀ o ∈ ops, o ∈ triggers (.boolOr ops r) := fun o ho => by simp [triggers, ho]
  simp only [prune, pruneBoolOr_eq] at h
  split at h
  · exact setBoth_good hr h
  · obtain ⟨c2, h2, h3⟩ := bind_some h
    obtain ⟨c1, h1, h2⟩ := bind_some h2
    exact ((orS1_good hT h1).trans (orS2_good hT h2)).trans (orS3_good hr h3)

theorem orS3_check {ops : List Nat} {r : Nat} {c c' : Ctx} {a : Asg}
    (hfo : ∀ o ∈ ops, ∃ w, c.st o = [w]) (hfr : ∃ w, c.st r = [w]) (hm : Mem c.st a)
    (h : orS3 ops r c = some c') : (1 ≤ a r ↔ ∃ o ∈ ops, 1 ≤ a o) := by
  obtain ⟨wr, hr⟩ := hfr
  have er := mem_fixed hm hr
  unfold orS3 at h
  split at h
  · rename_i hany
    obtain ⟨o, ho, hle⟩ := List.any_eq_true.1 hany
    have hle : (c.st o).dmin ≥ 1 := by simpa using hle
    have bo := hm.bounds o
    have t := (Ctx.trySetMin_fixed hr h).2
    exact ⟨fun _ => ⟨o, ho, by omega⟩, fun _ => by omega⟩
  · rename_i hany
    have hall : ∀ o ∈ ops, ¬ 1 ≤ a o := by
      intro o ho
      obtain ⟨w, hw⟩ := hfo o ho
      have eo := mem_fixed hm hw
      have hb := fixed_bounds hw
      have : ¬ (c.st o).dmin ≥ 1 := by
        intro hle; apply hany
        exact List.any_eq_true.2 ⟨o, ho, by simpa using hle⟩
      omega
    have hallT : (ops.all (fun o => !decide ((c.st o).dmax ≥ 1))) = true := by
      apply List.all_eq_true.2
      intro o ho
      obtain ⟨w, hw⟩ := hfo o ho
      have eo := mem_fixed hm hw
      have hb := fixed_bounds hw
      have := hall o ho
      simp only [Bool.not_eq_true', decide_eq_false_iff_not]
      omega
    rw [if_pos hallT] at h
    have t := (Ctx.trySetMax_fixed hr h).2
    constructor
    · intro h1; omega
    · intro ⟨o, ho, h1⟩; exact absurd h1 (hall o ho)

theorem checking_boolOr' (ops : List Nat) (r : Nat) :
    Checking (prune (.boolOr ops r))
      (fun a => holds a (.boolOr ops r) = true ∧ SideOr ops r a) (triggers (.boolOr ops r)) := by
  intro c c' a hf hm h
  have hr : r ∈ triggers (.boolOr ops r) := by simp [triggers]
  have hT : ∀ o ∈ ops, o ∈ triggers (.boolOr ops r) := fun o ho => by simp [triggers, ho]
  rw [holds_boolOr_iff]
  unfold SideOr
  simp only [prune, pruneBoolOr_eq] at h
  split at h
  · rename_i he
    have he : ops = [] := by simpa using he
    subst he
    obtain ⟨wr, hwr⟩ := hf r hr
    have er := mem_fixed hm hwr
    have t := (setBoth_fixed hwr h).2
    refine ⟨⟨fun _ => by omega, fun ⟨o, ho, _⟩ => by cases ho⟩, fun _ => by omega⟩
  · rename_i hne
    obtain ⟨c2, h2, h3⟩ := bind_some h
    obtain ⟨c1, h1, h2⟩ := bind_some h2
    obtain ⟨f2, m2⟩ := good_fixed ((orS1_good hT h1).trans (orS2_good hT h2)) hf hm
    refine ⟨orS3_check (fun o ho => f2 o (hT o ho)) (f2 r hr) m2 h3, fun he => ?_⟩
    subst he; simp at hne

theorem checking_boolOr (ops : List Nat) (r : Nat) :
    Checking (prune (.boolOr ops r)) (fun a => holds a (.boolOr ops r) = true)
      (triggers (.boolOr ops r)) :=
  fun c c' a hf hm h => (checking_boolOr' ops r c c' a hf hm h).1

theorem orS1_resp {T : List Nat} {ops : List Nat} (hT : ∀ o ∈ ops, o ∈ T) (rmax : Int)
    {d1 d2 : Ctx} (h : Agree T d1 d2) : RelO T (orS1 ops rmax d1) (orS1 ops rmax d2) := by
  unfold orS1
  apply ite_resp h; intro _
  exact forM'_resp (f := fun o c => c.trySetMax o 0)
    (fun o ho e1 e2 he => Ctx.trySetMax_resp _ (hT o ho) he) d1 d2 h

theorem orS2_resp {T : List Nat} {ops : List Nat} (hT : ∀ o ∈ ops, o ∈ T) (rmin : Int)
    {d1 d2 : Ctx} (h : Agree T d1 d2) : RelO T (orS2 ops rmin d1) (orS2 ops rmin d2) := by
  unfold orS2
  have e1 : ops.filter (fun o => decide ((d1.st o).dmin ≥ 1)) =
      ops.filter (fun o => decide ((d2.st o).dmin ≥ 1)) :=
    List.filter_congr (fun o ho => by rw [h o (hT o ho)])
  have e2 : ops.filter (fun o => !decide ((d1.st o).dmin ≥ 1) && decide ((d1.st o).dmin ≤ 0)
          && decide ((d1.st o).dmax ≥ 1)) =
      ops.filter (fun o => !decide ((d2.st o).dmin ≥ 1) && decide ((d2.st o).dmin ≤ 0)
          && decide ((d2.st o).dmax ≥ 1)) :=
    List.filter_congr (fun o ho => by rw [h o (hT o ho)])
  rw [e1, e2]
  apply ite_resp h; intro _
  apply ite_resp h; intro ⟨_, hU⟩
  exact Ctx.trySetMin_resp _ (hT _ (List.mem_filter.1 (headD_mem hU)).1) h

theorem orS3_resp {T : List Nat} {ops : List Nat} {r : Nat} (hT : ∀ o ∈ ops, o ∈ T) (hr : r ∈ T)
    {d1 d2 : Ctx} (h : Agree T d1 d2) : RelO T (orS3 ops r d1) (orS3 ops r d2) := by
  unfold orS3
  have e1 : ops.any (fun o => decide ((d1.st o).dmin ≥ 1)) =
      ops.any (fun o => decide ((d2.st o).dmin ≥ 1)) :=
    any_congr_mem (fun o ho => by rw [h o (hT o ho)])
  have e2 : ops.all (fun o => !decide ((d1.st o).dmax ≥ 1)) =
      ops.all (fun o => !decide ((d2.st o).dmax ≥ 1)) :=
    all_congr_mem (fun o ho => by rw [h o (hT o ho)])
  rw [e1, e2]
  split
  · exact Ctx.trySetMin_resp _ hr h
  · split
    · exact Ctx.trySetMax_resp _ hr h
    · exact RelO.some h

theorem resp_boolOr (ops : List Nat) (r : Nat) :
    Resp (triggers (.boolOr ops r)) (prune (.boolOr ops r)) := by
  intro c1 c2 hag
  have hr : r ∈ triggers (.boolOr ops r) := by simp [triggers]
  have hT : ∀ o ∈ ops, o ∈ triggers (.boolOr ops r) := fun o ho => by simp [triggers, ho]
  simp only [prune, pruneBoolOr_eq]
  rw [hag r hr]
  split
  · exact setBoth_resp _ hr hag
  · refine RelO.bind (RelO.bind ?_ ?_) ?_
    · exact orS1_resp hT _ hag
    · intro d1 d2 hd; exact orS2_resp hT _ hd
    · intro d1 d2 hd; exact orS3_resp hT hr hd

/-- contract of `boolOr` for the meaning strengthened by `SideOr` (vacuous when `ops ≠ []`) -/
theorem contract_boolOr' (ops : List Nat) (r : Nat) :
    Contract (prune (.boolOr ops r))
      (fun a => holds a (.boolOr ops r) = true ∧ SideOr ops r a) (triggers (.boolOr ops r)) :=
  ⟨sound_boolOr ops r, contracting_boolOr ops r, checking_boolOr' ops r, resp_boolOr ops r⟩

/-- the plain contract holds for a non-empty operand list -/
theorem contract_boolOr (ops : List Nat) (r : Nat) (hne : ops ≠ []) :
    Contract (prune (.boolOr ops r)) (fun a => holds a (.boolOr ops r) = true)
      (triggers (.boolOr ops r)) :=
  ⟨fun c a hm hs => sound_boolOr ops r c a hm ⟨hs, fun he => absurd he hne⟩,
   contracting_boolOr ops r, checking_boolOr ops r, resp_boolOr ops r⟩

/-- store-level form of the side condition of `boolAnd`: for `ops = []`, `dom r ⊆ (-∞,1]` -/
theorem sound_boolAnd_store (ops : List Nat) (r : Nat) (c : Ctx) (a : Asg)
    (hr : ops = [] → ∀ w ∈ c.st r, w ≤ 1)
    (hm : Mem c.st a) (hs : holds a (.boolAnd ops r) = true) :
    ∃ c', prune (.boolAnd ops r) c = some c' ∧ Mem c'.st a :=
  sound_boolAnd ops r c a hm ⟨hs, fun he => hr he _ (hm r)⟩

/-- store-level form of the side condition of `boolOr`: for `ops = []`, `dom r ⊆ [0,∞)` -/
theorem sound_boolOr_store (ops : List Nat) (r : Nat) (c : Ctx) (a : Asg)
    (hr : ops = [] → ∀ w ∈ c.st r, 0 ≤ w)
    (hm : Mem c.st a) (hs : holds a (.boolOr ops r) = true) :
    ∃ c', prune (.boolOr ops r) c = some c' ∧ Mem c'.st a :=
  sound_boolOr ops r c a hm ⟨hs, fun he => hr he _ (hm r)⟩

/-! ### the side conditions are necessary: kernel-checked counterexamples to plain `Sound` -/

/-- store `i ↦ [v i]` -/
def cexCtx (v : Nat → Int) : Ctx := { st := fun i => [v i] }

theorem cex_mem (v : Nat → Int) : Mem (cexCtx v).st v := fun i => by simp [cexCtx]

theorem not_sound_of_cex {f : Ctx → Option Ctx} {S : Asg → Prop} (v : Nat → Int) (hS : S v)
    (hf : f (cexCtx v) = none) : ¬ Sound f S := by
  intro h
  obtain ⟨c', e, _⟩ := h (cexCtx v) v (cex_mem v) hS
  rw [hf] at e; cases e

/-- `o = [0]`, `r = [2]`: `r` is truthy and `o` falsy, but `setBoth r 1` fails -/
theorem not_sound_boolNot :
    ¬ Sound (prune (.boolNot 0 1)) (fun a => holds a (.boolNot 0 1) = true) :=
  not_sound_of_cex (fun i => if i = 0 then 0 else 2) (by decide) rfl

/-- `o = [-1]`, `r = [1]` (so `r ∈ {0,1}`): `setBoth o 0` fails; `0 ≤ a o` is needed too -/
theorem not_sound_boolNot_o :
    ¬ Sound (prune (.boolNot 0 1))
      (fun a => holds a (.boolNot 0 1) = true ∧ 0 ≤ a 1 ∧ a 1 ≤ 1) :=
  not_sound_of_cex (fun i => if i = 0 then -1 else 1) (by decide) rfl

/-- `x = [0]`, `y = [1]`, `r = [2]` -/
theorem not_sound_boolXor :
    ¬ Sound (prune (.boolXor 0 1 2)) (fun a => holds a (.boolXor 0 1 2) = true) :=
  not_sound_of_cex (fun i => if i = 0 then 0 else if i = 1 then 1 else 2) (by decide) rfl

/-- empty conjunction, `r = [2]` -/
theorem not_sound_boolAnd_nil :
    ¬ Sound (prune (.boolAnd [] 0)) (fun a => holds a (.boolAnd [] 0) = true) :=
  not_sound_of_cex (fun _ => 2) (by decide) rfl

/-- empty disjunction, `r = [-1]` -/
theorem not_sound_boolOr_nil :
    ¬ Sound (prune (.boolOr [] 0)) (fun a => holds a (.boolOr [] 0) = true) :=
  not_sound_of_cex (fun _ => -1) (by decide) rfl

end PK
end KBool
end Selen

import SelenModel.Lemmas.Dfs
/-
Termination: a fuel that suffices.  `propagate` needs at most `|agenda| + P · size` steps
(`P` propagators, `size` = total number of values in the declared domains); the search tree has
depth at most `size` because every branch removes a value from the pivot's (duplicate-free) domain.
Hence `needE P size` fuel is enough for `explore`, and the engine theorems, stated for runs that
did not exhaust their fuel, apply to some fuel for every well-formed model.
-/
namespace Selen

/-- total number of values in the first `n` domains -/
def sizeN (n : Nat) (st : Store) : Nat := ((List.range n).map (fun i => (st i).length)).sum

theorem sum_map_le {l : List Nat} {f g : Nat → Nat} (h : ∀ i ∈ l, f i ≤ g i) :
    (l.map f).sum ≤ (l.map g).sum := by
  induction l with
  | nil => simp
  | cons a l ih =>
    simp only [List.map_cons, List.sum_cons]
    have := h a List.mem_cons_self
    have := ih (fun i hi => h i (List.mem_cons_of_mem _ hi))
    omega

theorem sum_map_lt {l : List Nat} {f g : Nat → Nat} (h : ∀ i ∈ l, f i ≤ g i) (j : Nat) (hj : j ∈ l)
    (hlt : f j < g j) : (l.map f).sum < (l.map g).sum := by
  induction l with
  | nil => cases hj
  | cons a l ih =>
    simp only [List.map_cons, List.sum_cons]
    have ha := h a List.mem_cons_self
    have hl := sum_map_le (fun i hi => h i (List.mem_cons_of_mem a hi))
    rcases List.mem_cons.1 hj with rfl | hj'
    · omega
    · have := ih (fun i hi => h i (List.mem_cons_of_mem _ hi)) hj'
      omega

theorem sizeN_mono (n : Nat) {st st' : Store} (h : ∀ i, (st' i).Sublist (st i)) : sizeN n st' ≤ sizeN n st :=
  sum_map_le (fun i _ => (h i).length_le)

theorem sizeN_strict (n : Nat) {st st' : Store} (h : ∀ i, (st' i).Sublist (st i)) (j : Nat) (hj : j < n)
    (hlt : (st' j).length < (st j).length) : sizeN n st' < sizeN n st :=
  sum_map_lt (fun i _ => (h i).length_le) j (List.mem_range.2 hj) hlt

/-- a duplicate-free list of naturals below `P` has at most `P` elements -/
theorem nodup_bounded_length (P : Nat) : ∀ (l : List Nat), l.Nodup → (∀ p ∈ l, p < P) → l.length ≤ P := by
  induction P with
  | zero =>
    intro l _ hb
    cases l with
    | nil => simp
    | cons a _ => exact absurd (hb a List.mem_cons_self) (Nat.not_lt_zero _)
  | succ P ih =>
    intro l hn hb
    by_cases hm : P ∈ l
    · have h1 : (l.erase P).Nodup := hn.erase P
      have h2 : ∀ p ∈ l.erase P, p < P := by
        intro p hp
        have hpl := List.mem_of_mem_erase hp
        have hne : p ≠ P := fun e => by
          subst e
          exact (List.Nodup.mem_erase_iff hn).1 hp |>.1 rfl
        have := hb p hpl
        omega
      have := ih _ h1 h2
      rw [List.length_erase_of_mem hm] at this
      omega
    · have : ∀ p ∈ l, p < P := by
        intro p hp
        have := hb p hp
        have : p ≠ P := fun e => hm (e ▸ hp)
        omega
      have := ih l hn this
      omega

/-- agenda invariant: duplicate-free, entries are propagator ids -/
def QOK (P : Nat) (q : List Nat) : Prop := q.Nodup ∧ ∀ p ∈ q, p < P

theorem qok_schedule {P : Nat} {q : List Nat} (h : QOK P q) (p : Nat) (hp : p < P) : QOK P (schedule q p) := by
  unfold schedule
  split
  · exact h
  · rename_i hn
    refine ⟨?_, ?_⟩
    · rw [List.nodup_append]
      exact ⟨h.1, by simp, fun a ha b hb e => by simp at hb; subst hb; subst e; exact hn ha⟩
    · intro x hx
      rcases List.mem_append.1 hx with hx | hx
      · exact h.2 x hx
      · simp at hx; subst hx; exact hp

theorem qok_scheduleAll {P : Nat} {q : List Nat} (h : QOK P q) (l : List Nat) (hl : ∀ p ∈ l, p < P) :
    QOK P (scheduleAll q l) := by
  unfold scheduleAll
  induction l generalizing q with
  | nil => exact h
  | cons a l ih =>
    simp only [List.foldl_cons]
    exact ih (qok_schedule h a (hl a List.mem_cons_self)) (fun p hp => hl p (List.mem_cons_of_mem _ hp))

theorem qok_events (ps : List PK) (evs : List Nat) {q : List Nat} (h : QOK ps.length q) :
    QOK ps.length (evs.foldl (fun q v => scheduleAll q (deps ps v)) q) := by
  induction evs generalizing q with
  | nil => exact h
  | cons v evs ih =>
    simp only [List.foldl_cons]
    exact ih (qok_scheduleAll h _ (fun p hp => ((mem_deps ps v p).1 hp).1))

theorem qok_pick {P : Nat} {pol : Policy} {q q' : List Nat} {p : Nat} (h : QOK P q)
    (hp : pol.pick q = some (p, q')) : QOK P q' ∧ q'.length + 1 = q.length := by
  unfold Policy.pick at hp
  cases q with
  | nil => cases hp
  | cons a l =>
    simp only [Option.some.injEq, Prod.mk.injEq] at hp
    obtain ⟨_, rfl⟩ := hp
    have hlt : pol.choose (a :: l) % (a :: l).length < (a :: l).length := Nat.mod_lt _ (by simp)
    refine ⟨⟨h.1.eraseIdx _, fun x hx => h.2 x ((List.eraseIdx_sublist _ _).subset hx)⟩, ?_⟩
    rw [List.length_eraseIdx_of_lt hlt]
    simp

/-- **propagation terminates**: `|agenda| + P·size + 1` steps suffice -/
theorem propagate_terminates (ps : List PK) (pol : Policy) (P : Store → Prop) (hc : AllContract ps P) (n : Nat) :
    ∀ (fuel : Nat) (q : List Nat) (st : Store), QOK ps.length q → NonEmpty st → Tail n st →
      q.length + ps.length * sizeN n st < fuel → propagate ps pol fuel q st ≠ .fuel := by
  intro fuel
  induction fuel with
  | zero => intro q st _ _ _ h; omega
  | succ f ih =>
    intro q st hq hne ht hf
    simp only [propagate]
    cases hpk : pol.pick q with
    | none => intro h; cases h
    | some pq =>
      obtain ⟨p, q'⟩ := pq
      simp only
      cases e : (ps.getD p .noop).prune { st := st, ev := [] } with
      | none => intro h; cases h
      | some c =>
        simp only
        have g := (getD_contract hc p).contracting _ _ e
        obtain ⟨hq', hlen⟩ := qok_pick hq hpk
        have hq'' := qok_events ps c.ev hq'
        have gsub : ∀ i, (c.st i).Sublist (st i) := g.sub
        have gstrict : c.ev ≠ [] → ∃ i, (c.st i).length < (st i).length := g.strict
        have hne' : NonEmpty c.st := g.ne hne
        have ht' := tail_of_sub ht gsub hne'
        apply ih _ c.st hq'' hne' ht'
        by_cases hev : c.ev = []
        · rw [hev]
          simp only [List.foldl_nil]
          have := sizeN_mono n gsub
          have := Nat.mul_le_mul_left ps.length this
          omega
        · -- an event: some declared domain lost a value
          obtain ⟨i, hi⟩ := gstrict hev
          have hin : i < n := by
            apply Classical.byContradiction
            intro hge
            obtain ⟨w, hw⟩ := ht i (by omega)
            obtain ⟨w', hw'⟩ := ht' i (by omega)
            rw [hw, hw'] at hi
            simp at hi
          have hs := sizeN_strict n gsub i hin hi
          have hb := nodup_bounded_length ps.length _ hq''.1 hq''.2
          have : ps.length * (sizeN n c.st + 1) ≤ ps.length * sizeN n st := Nat.mul_le_mul_left _ hs
          rw [Nat.mul_add, Nat.mul_one] at this
          omega

/-! ### the search tree is finite -/

/-- a fuel that suffices for `explore` with `P` propagators over a store of total size `s` -/
def needE : Nat → Nat → Nat
  | _, 0 => 4
  | P, s+1 => needE (P+2) s + (P+2) * (s+1) + 6

theorem needE_mono_P (s : Nat) : ∀ {P P' : Nat}, P ≤ P' → needE P s ≤ needE P' s := by
  induction s with
  | zero => intro P P' _; simp [needE]
  | succ s ih =>
    intro P P' h
    simp only [needE]
    have h1 := @ih (P+2) (P'+2) (by omega)
    have h2 : (P+2) * (s+1) ≤ (P'+2) * (s+1) := Nat.mul_le_mul_right _ (by omega)
    omega

theorem needE_mono_s (P : Nat) (s : Nat) : needE P s ≤ needE P (s+1) := by
  induction s generalizing P with
  | zero => simp [needE]
  | succ s ih =>
    have h1 := ih (P+2)
    have h2 : (P+2) * (s+1) ≤ (P+2) * (s+1+1) := Nat.mul_le_mul_left _ (by omega)
    simp only [needE] at *
    omega

theorem needE_mono {P P' s s' : Nat} (hP : P ≤ P') (hs : s ≤ s') : needE P s ≤ needE P' s' := by
  induction hs with
  | refl => exact needE_mono_P s hP
  | step _ ih => exact Nat.le_trans ih (needE_mono_s _ _)

/-- duplicate-free domains (declared domains are `SparseSet`s: the values `min + k` of the set bits) -/
def NodupS (st : Store) : Prop := ∀ i, (st i).Nodup

theorem nodupS_of_sub {st st' : Store} (h : NodupS st) (hs : ∀ i, (st' i).Sublist (st i)) : NodupS st' :=
  fun i => (h i).sublist (hs i)

/-- an unassigned, duplicate-free, non-empty domain has `min < max` -/
theorem dmin_lt_dmax (d : Dom) (hne : d ≠ []) (hnd : d.Nodup) (hnf : d.isFixed = false) : d.dmin < d.dmax := by
  have hle := Dom.dmin_le_dmax d hne
  apply Classical.byContradiction
  intro hlt
  have heq : d.dmin = d.dmax := by omega
  have hall : ∀ w ∈ d, w = d.dmin := by
    intro w hw
    have := Dom.dmin_le d w hw
    have := Dom.le_dmax d w hw
    omega
  match d, hne, hnd, hnf, hall with
  | [a], _, _, hnf, _ => simp [Dom.isFixed] at hnf
  | a :: b :: l, _, hnd, _, hall =>
    have ha := hall a (by simp)
    have hb := hall b (by simp)
    simp only [List.nodup_cons, List.mem_cons] at hnd
    exact hnd.1 (Or.inl (ha.trans hb.symm))

theorem splitMid_bounds (d : Dom) (h : d.dmin < d.dmax) : d.dmin ≤ splitMid d ∧ splitMid d < d.dmax := by
  unfold splitMid
  constructor <;> omega

theorem sublist_length_lt {l l' : List Int} (h : l'.Sublist l) (w : Int) (hw : w ∈ l) (hn : w ∉ l') :
    l'.length < l.length := by
  have hle := h.length_le
  apply Classical.byContradiction
  intro hge
  have := h.eq_of_length (by omega)
  subst this
  exact hn hw

/-- a store at which the left branch constraint `x ≤ mid` is stable has lost `max x` -/
theorem stable_left_cut {st st' : Store} {p : Nat} {m : Int} (hne : NonEmpty st')
    (hs : Stable (.leq (.var p) (.const m)) st') : ∀ w ∈ st' p, w ≤ m := by
  obtain ⟨c', e, u⟩ := hs
  simp only [PK.prune, IView.vmax, IView.maxRaw, IView.trySetMax] at e
  have sp := Ctx.trySetMax_spec { st := st', ev := [] } p m (hne p)
  cases e1 : Ctx.trySetMax { st := st', ev := [] } p m with
  | none => rw [e1] at e; cases e
  | some c1 =>
    rw [e1] at e sp
    simp only [PK.bind_some_eq, IView.trySetMin] at e
    have h1 : c1.st p = (st' p).removeAbove m := sp.1
    split at e
    · cases e
      rw [u p] at h1
      intro w hw
      rw [h1] at hw
      exact ((Dom.mem_removeAbove _ _ _).1 hw).2
    · cases e

/-- a store at which the right branch constraint `mid + 1 ≤ x` is stable has lost `min x` -/
theorem stable_right_cut {st st' : Store} {p : Nat} {m : Int} (hne : NonEmpty st')
    (hs : Stable (.leq (.next (.const m)) (.var p)) st') : ∀ w ∈ st' p, m + 1 ≤ w := by
  obtain ⟨c', e, u⟩ := hs
  simp only [PK.prune, IView.vmax, IView.maxRaw, IView.trySetMax, IView.vmin, IView.minRaw] at e
  by_cases hc : (st' p).dmax - 1 ≥ m
  · simp only [hc, if_true, PK.bind_some_eq, IView.trySetMin] at e
    have sp := Ctx.trySetMin_spec { st := st', ev := [] } p (m + 1) (hne p)
    rw [e] at sp
    have h1 : c'.st p = (st' p).removeBelow (m + 1) := sp.1
    rw [u p] at h1
    intro w hw
    rw [h1] at hw
    exact ((Dom.mem_removeBelow _ _ _).1 hw).2
  · simp only [hc, if_false, PK.bind_none_eq] at e; cases e

/-- what termination needs of a branch constraint: any fixpoint below `st` is strictly smaller -/
def Cuts (n : Nat) (bp : PK) (st : Store) : Prop :=
  ∀ st', Stable bp st' → (∀ i, (st' i).Sublist (st i)) → NonEmpty st' → sizeN n st' < sizeN n st

theorem cuts_left {n : Nat} {st : Store} {p : Nat} (hp : p < n) (hne : NonEmpty st) (hnd : NodupS st)
    (hnf : (st p).isFixed = false) : Cuts n (.leq (.var p) (.const (splitMid (st p)))) st := by
  intro st' hs hsub hne'
  have hb := splitMid_bounds _ (dmin_lt_dmax _ (hne p) (hnd p) hnf)
  have hcut := stable_left_cut (st := st) hne' hs
  apply sizeN_strict n hsub p hp
  apply sublist_length_lt (hsub p) _ (Dom.dmax_mem _ (hne p))
  intro hmem
  have := hcut _ hmem
  omega

theorem cuts_right {n : Nat} {st : Store} {p : Nat} (hp : p < n) (hne : NonEmpty st) (hnd : NodupS st)
    (hnf : (st p).isFixed = false) : Cuts n (.leq (.next (.const (splitMid (st p)))) (.var p)) st := by
  intro st' hs hsub hne'
  have hb := splitMid_bounds _ (dmin_lt_dmax _ (hne p) (hnd p) hnf)
  have hcut := stable_right_cut (st := st) hne' hs
  apply sizeN_strict n hsub p hp
  apply sublist_length_lt (hsub p) _ (Dom.dmin_mem _ (hne p))
  intro hmem
  have := hcut _ hmem
  omega

theorem firstUnassigned_lt {n : Nat} {st : Store} {p : Nat} (h : firstUnassigned n st = some p) :
    p < n ∧ (st p).isFixed = false := by
  unfold firstUnassigned at h
  have h1 := List.mem_of_find?_eq_some h
  have h2 := List.find?_some h
  exact ⟨List.mem_range.1 h1, by simpa using h2⟩

/-- **the search terminates**: with `needE |ps| size` fuel neither `explore` nor a branch runs out -/
theorem explore_terminates (n : Nat) (obj : Option IView) (pol : Policy) (P : Store → Prop) (hP : Closed P)
    (hobj : ∀ o, obj = some o → o.WF) :
    ∀ (fuel : Nat),
      (∀ ps st best, Node n P ps st → NodupS st → needE ps.length (sizeN n st) ≤ fuel →
         (explore n obj pol fuel ps st best).outOfFuel = false) ∧
      (∀ ps st best bp, Node n P ps st → NodupS st → PKContract bp P → Cuts n bp st →
         needE ps.length (sizeN n st) ≤ fuel + 1 →
         (branchStep n obj pol fuel ps st best bp).outOfFuel = false) := by
  intro fuel
  induction fuel with
  | zero =>
    constructor
    · intro ps st best _ _ h
      cases hs : sizeN n st with
      | zero => rw [hs] at h; simp [needE] at h
      | succ s => rw [hs] at h; simp only [needE] at h; omega
    · intro ps st best bp _ _ _ _ h
      cases hs : sizeN n st with
      | zero => rw [hs] at h; simp [needE] at h
      | succ s => rw [hs] at h; simp only [needE] at h; omega
  | succ f ih =>
    obtain ⟨ihE, ihB⟩ := ih
    have hB : ∀ ps st best bp, Node n P ps st → NodupS st → PKContract bp P → Cuts n bp st →
        needE ps.length (sizeN n st) ≤ f + 1 + 1 →
        (branchStep n obj pol (f+1) ps st best bp).outOfFuel = false := by
      intro ps st best bp hn hnd hbp hcut hfuel
      rw [branchStep_succ]
      have hcB : AllContract (ps ++ [bp] ++ modeProps obj best) P :=
        allContract_append (allContract_append hn.hc (fun k hk => by simp at hk; subst hk; exact hbp))
          (allContract_modeProps P obj hobj best)
      have hinv := branch_agendaInv hn bp (modeProps obj best) (modeProps_length obj best)
      have hmpl := modeProps_length obj best
      have hlen : (ps ++ [bp] ++ modeProps obj best).length = ps.length + 1 + (modeProps obj best).length := by
        simp only [List.length_append, List.length_cons, List.length_nil]
      have hq : QOK (ps ++ [bp] ++ modeProps obj best).length
          ((if (modeProps obj best).isEmpty then [] else [ps.length + 1]) ++ [ps.length]) := by
        by_cases hm : (modeProps obj best).isEmpty
        · simp only [hm, if_true, List.nil_append]
          exact ⟨by simp, fun p hp => by simp at hp; subst hp; rw [hlen]; omega⟩
        · have : (modeProps obj best).length = 1 := by
            cases hmp : modeProps obj best with
            | nil => rw [hmp] at hm; simp at hm
            | cons a l => rw [hmp] at hmpl; simp at hmpl; subst hmpl; rfl
          simp only [hm]
          refine ⟨by simp, fun p hp => ?_⟩
          simp at hp
          rw [hlen]; omega
      have hql : ((if (modeProps obj best).isEmpty then [] else [ps.length + 1]) ++ [ps.length]).length ≤ 2 := by
        by_cases hm : (modeProps obj best).isEmpty <;> simp [hm]
      cases hs : sizeN n st with
      | zero =>
        rw [hs] at hfuel
        simp only [needE] at hfuel
        cases hpr : propagate (ps ++ [bp] ++ modeProps obj best) pol (f+1)
            ((if (modeProps obj best).isEmpty then [] else [ps.length + 1]) ++ [ps.length]) st with
        | fail => rfl
        | fuel =>
          exfalso
          exact propagate_terminates _ pol P hcB n (f+1) _ st hq hn.ne hn.tail (by rw [hs, Nat.mul_zero]; omega) hpr
        | ok st' =>
          exfalso
          have hfix := propagate_fixpoint _ pol P hcB _ _ _ _ hinv hpr
          obtain ⟨hsub, hne⟩ := propagate_shrinks _ pol P hcB _ _ _ _ hpr
          have hbs : Stable bp st' := by
            have := hfix ps.length (by rw [hlen]; omega)
            rw [List.append_assoc, getD_lt _ _ _ (by simp), List.getElem_append_right (Nat.le_refl _)] at this
            simpa using this
          have := hcut st' hbs hsub (hne hn.ne)
          omega
      | succ s =>
        rw [hs] at hfuel
        simp only [needE] at hfuel
        have hmul : (ps ++ [bp] ++ modeProps obj best).length * sizeN n st ≤ (ps.length + 2) * (s + 1) := by
          rw [hs]; exact Nat.mul_le_mul_right _ (by rw [hlen]; omega)
        cases hpr : propagate (ps ++ [bp] ++ modeProps obj best) pol (f+1)
            ((if (modeProps obj best).isEmpty then [] else [ps.length + 1]) ++ [ps.length]) st with
        | fail => rfl
        | fuel =>
          exfalso
          exact propagate_terminates _ pol P hcB n (f+1) _ st hq hn.ne hn.tail (by omega) hpr
        | ok st' =>
          simp only
          have hfix := propagate_fixpoint _ pol P hcB _ _ _ _ hinv hpr
          obtain ⟨hsub, hne⟩ := propagate_shrinks _ pol P hcB _ _ _ _ hpr
          have hp' := propagate_inv _ pol P hP hcB _ _ _ _ hn.hp hpr
          have htail := tail_of_sub hn.tail hsub (hne hn.ne)
          cases hfu : firstUnassigned n st' with
          | none => rfl
          | some pv =>
            simp only
            have hn' : Node n P (ps ++ [bp] ++ modeProps obj best) st' := ⟨hcB, hp', hne hn.ne, htail, hfix⟩
            have hbs : Stable bp st' := by
              have := hfix ps.length (by rw [hlen]; omega)
              rw [List.append_assoc, getD_lt _ _ _ (by simp), List.getElem_append_right (Nat.le_refl _)] at this
              simpa using this
            have hlt := hcut st' hbs hsub (hne hn.ne)
            apply ihE _ _ _ hn' (nodupS_of_sub hnd hsub)
            have := @needE_mono (ps ++ [bp] ++ modeProps obj best).length (ps.length + 2) (sizeN n st') s
              (by rw [hlen]; omega) (by omega)
            omega
    refine ⟨?_, hB⟩
    intro ps st best hn hnd hfuel
    rw [explore_succ]
    cases hfu : firstUnassigned n st with
    | none => rfl
    | some pivot =>
      simp only
      obtain ⟨hpn, hnf⟩ := firstUnassigned_lt hfu
      have h1 := ihB ps st best _ hn hnd (pkContract_leq P (.var pivot) (.const _) trivial trivial)
        (cuts_left hpn hn.ne hnd hnf) hfuel
      have h2 := ihB ps st (branchStep n obj pol f ps st best (.leq (.var pivot) (.const (splitMid (st pivot))))).best _
        hn hnd (pkContract_leq P (.next (.const _)) (.var pivot) trivial trivial)
        (cuts_right hpn hn.ne hnd hnf) hfuel
      rw [h1, h2]; rfl

end Selen

import SelenModel.Lemmas.Dfs
import SelenModel.Lemmas.KindsAll
import SelenModel.Lemmas.Termination
/-
Top-level theorems about `search` (root propagation + engine) for models whose propagators
satisfy the contract.
-/
namespace Selen

/-- an integer/boolean model at the propagator level -/
structure IModel where
  doms : List Dom
  ps : List PK

namespace IModel

def n (m : IModel) : Nat := m.doms.length

/-- the root store: declared domains, the default singleton `[0]` beyond the declared variables -/
def store (m : IModel) : Store := fun i => m.doms.getD i [0]

def bools (m : IModel) : List Nat := m.ps.flatMap PK.boolVars

/-- well-formed model: non-empty domains, statically well-formed checked propagators, boolean
variables declared with domains ⊆ {0,1} (no kind has a store precondition any more) -/
structure WF (m : IModel) : Prop where
  ne : ∀ d ∈ m.doms, d ≠ []
  wfs : ∀ k ∈ m.ps, k.WFs
  bool : BoolStore m.bools m.store

/-- `a` satisfies the model -/
def IsSol (m : IModel) (a : Asg) : Prop := Mem m.store a ∧ ∀ k ∈ m.ps, PK.holds a k = true

theorem store_ne (m : IModel) (h : m.WF) : NonEmpty m.store := by
  intro i
  unfold store
  by_cases hi : i < m.doms.length
  · rw [getD_lt _ _ _ hi]; exact h.ne _ (List.getElem_mem hi)
  · rw [getD_ge _ _ _ (by omega)]; simp

theorem store_tail (m : IModel) : Tail m.n m.store := by
  intro i hi
  unfold store n at *
  rw [getD_ge _ _ _ hi]; exact ⟨0, rfl⟩

theorem allContract (m : IModel) (h : m.WF) : AllContract m.ps (StoreInv m.ps) :=
  allContract_inv m.ps h.wfs

/-- the invariant holds on the declared domains -/
theorem inv_root (m : IModel) (h : m.WF) : StoreInv m.ps m.store :=
  ⟨m.store_ne h, h.bool⟩

/-- `WFk` is the same static well-formedness under its older name -/
theorem wf_of_wfk (m : IModel) (ne : ∀ d ∈ m.doms, d ≠ []) (wfk : ∀ k ∈ m.ps, k.WFk)
    (bool : BoolStore m.bools m.store) : m.WF :=
  ⟨ne, fun k hk => PK.wfs_of_wfk k (wfk k hk), bool⟩

/-- the root node after the initial propagation -/
theorem root_node (m : IModel) (h : m.WF) (pol : Policy) (fuel : Nat) (st' : Store)
    (hpr : propagate m.ps pol fuel (List.range m.ps.length) m.store = .ok st') :
    Node m.n (StoreInv m.ps) m.ps st' ∧ ∀ i, (st' i).Sublist (m.store i) := by
  have hc := m.allContract h
  have hP := closed_storeInv m.ps
  obtain ⟨hsub, hne⟩ := propagate_shrinks _ pol _ hc _ _ _ _ hpr
  exact ⟨⟨hc, propagate_inv _ pol _ hP hc _ _ _ _ (m.inv_root h) hpr, hne (m.store_ne h),
          tail_of_sub m.store_tail hsub (hne (m.store_ne h)),
          propagate_fixpoint _ pol _ hc _ _ _ _ (agendaInv_all _ _) hpr⟩, hsub⟩

theorem evalL_proj (n : Nat) (o : IView) (a : Asg) (ho : ∀ i, o.underlying = some i → i < n) :
    evalL o (proj n a) = o.eval a := by
  unfold evalL
  apply IView.eval_congr
  intro i hi
  unfold proj
  rw [getD_lt _ _ _ (by simpa using ho i hi)]
  simp

theorem solutions_eq (o : Out) : o.solutions = evsSols o.evs := rfl

/-- **soundness of search**: every yielded assignment is (the projection of) a solution -/
theorem search_sound (m : IModel) (h : m.WF) (obj : Option IView) (hobj : ∀ o, obj = some o → o.WF)
    (pol : Policy) (fuel : Nat) (v : List Int)
    (hv : v ∈ (search m.n obj pol fuel m.ps m.store).solutions) :
    ∃ a, v = proj m.n a ∧ m.IsSol a := by
  rw [solutions_eq, mem_evsSols] at hv
  unfold search at hv
  cases hpr : propagate m.ps pol fuel (List.range m.ps.length) m.store with
  | fail => rw [hpr] at hv; cases hv
  | fuel => rw [hpr] at hv; cases hv
  | ok st' =>
    rw [hpr] at hv
    simp only at hv
    obtain ⟨hn, hsub⟩ := m.root_node h pol fuel st' hpr
    cases hfu : firstUnassigned m.n st' with
    | none =>
      rw [hfu] at hv
      simp only [List.mem_singleton, Ev.sol.injEq] at hv
      have hf := firstUnassigned_none hfu hn.tail
      refine ⟨asgOf st', ?_, ?_, node_holds hn hf⟩
      · rw [hv]; exact solOf_eq_proj hf (allFixed_mem hf)
      · intro i; exact (hsub i).subset (allFixed_mem hf i)
    | some pv =>
      rw [hfu] at hv
      simp only at hv
      have hl := ((search_leaf m.n obj pol _ (closed_storeInv m.ps) hobj fuel).1 _ _ _ v hn hv).holds
      obtain ⟨stL, e, hf, hs, _, hh⟩ := hl
      refine ⟨asgOf stL, ?_, ?_, hh⟩
      · rw [e]; exact solOf_eq_proj hf (allFixed_mem hf)
      · intro i; exact (hsub i).subset ((hs i).subset (allFixed_mem hf i))

/-- **completeness of enumeration**: every solution is yielded (when the fuel sufficed) -/
theorem search_complete_enum (m : IModel) (h : m.WF) (pol : Policy) (fuel : Nat) (a : Asg)
    (ha : m.IsSol a) (hfuel : (search m.n none pol fuel m.ps m.store).outOfFuel = false) :
    proj m.n a ∈ (search m.n none pol fuel m.ps m.store).solutions := by
  rw [solutions_eq, mem_evsSols]
  unfold search at hfuel ⊢
  have hs := propagate_sound m.ps pol _ (closed_storeInv m.ps) (m.allContract h) a ha.2 fuel
    (List.range m.ps.length) m.store (m.inv_root h) ha.1
  cases hpr : propagate m.ps pol fuel (List.range m.ps.length) m.store with
  | fail => rw [hpr] at hs; exact hs.elim
  | fuel => rw [hpr] at hfuel; cases hfuel
  | ok st' =>
    rw [hpr] at hs hfuel
    simp only at hs hfuel ⊢
    obtain ⟨hn, hsub⟩ := m.root_node h pol fuel st' hpr
    cases hfu : firstUnassigned m.n st' with
    | none =>
      simp only
      rw [solOf_eq_proj (firstUnassigned_none hfu hn.tail) hs.1]
      exact List.mem_singleton.2 rfl
    | some pv =>
      rw [hfu] at hfuel
      simp only at hfuel ⊢
      have := (search_complete m.n none pol _ (closed_storeInv m.ps) (fun _ h => by cases h)
        (fun _ h => by cases h) a fuel).1 m.ps st' none hn (by rw [hfu]; rfl) hs.1 ha.2 hfuel
      rcases this with h | ⟨o, _, ho, _⟩
      · exact h
      · cases ho

/-- **no duplicates** -/
theorem search_nodup' (m : IModel) (h : m.WF) (obj : Option IView) (hobj : ∀ o, obj = some o → o.WF)
    (pol : Policy) (fuel : Nat) : (search m.n obj pol fuel m.ps m.store).solutions.Nodup := by
  rw [solutions_eq]
  unfold search
  cases hpr : propagate m.ps pol fuel (List.range m.ps.length) m.store with
  | fail => exact List.nodup_nil
  | fuel => exact List.nodup_nil
  | ok st' =>
    simp only
    obtain ⟨hn, _⟩ := m.root_node h pol fuel st' hpr
    cases hfu : firstUnassigned m.n st' with
    | none => simp [evsSols]
    | some pv =>
      simp only
      exact (search_nodup m.n obj pol _ (closed_storeInv m.ps) hobj fuel).1 _ _ _ hn

/-- **branch and bound**: the objective values of the yielded assignments strictly decrease and
the last one is a lower bound for every solution -/
theorem search_optimal (m : IModel) (h : m.WF) (o : IView) (ho : o.WF)
    (hon : ∀ i, o.underlying = some i → i < m.n) (pol : Policy) (fuel : Nat)
    (hfuel : (search m.n (some o) pol fuel m.ps m.store).outOfFuel = false) :
    ((search m.n (some o) pol fuel m.ps m.store).solutions.map (evalL o)).Pairwise (· > ·) ∧
    match (search m.n (some o) pol fuel m.ps m.store).solutions.getLast? with
    | none => ∀ a, ¬ m.IsSol a
    | some v => ∀ a, m.IsSol a → evalL o v ≤ o.eval a := by
  have hobj : ∀ o', some o = some o' → o'.WF := fun o' e => by cases e; exact ho
  have hon' : ∀ o', some o = some o' → ∀ i, o'.underlying = some i → i < m.n := fun o' e => by cases e; exact hon
  -- the Decr chain of the whole run and completeness for every solution
  have key : ∃ b, Decr none ((search m.n (some o) pol fuel m.ps m.store).solutions.map (evalL o)) b ∧
      ∀ a, m.IsSol a → ∃ mm, b = some mm ∧ mm ≤ o.eval a := by
    rw [solutions_eq]
    unfold search at hfuel ⊢
    cases hpr : propagate m.ps pol fuel (List.range m.ps.length) m.store with
    | fail =>
      refine ⟨none, Decr.nil _, ?_⟩
      intro a ha
      have hs := propagate_sound m.ps pol _ (closed_storeInv m.ps) (m.allContract h) a ha.2 fuel
        (List.range m.ps.length) m.store (m.inv_root h) ha.1
      rw [hpr] at hs; exact hs.elim
    | fuel => rw [hpr] at hfuel; cases hfuel
    | ok st' =>
      rw [hpr] at hfuel
      simp only at hfuel ⊢
      obtain ⟨hn, hsub⟩ := m.root_node h pol fuel st' hpr
      have hsa : ∀ a, m.IsSol a → Mem st' a := by
        intro a ha
        have hs := propagate_sound m.ps pol _ (closed_storeInv m.ps) (m.allContract h) a ha.2 fuel
          (List.range m.ps.length) m.store (m.inv_root h) ha.1
        rw [hpr] at hs; exact hs.1
      cases hfu : firstUnassigned m.n st' with
      | none =>
        simp only
        have hf := firstUnassigned_none hfu hn.tail
        refine ⟨some (evalL o (solOf m.n st')), ?_, ?_⟩
        · simp only [evsSols, List.filterMap_cons, List.filterMap_nil, List.map_cons, List.map_nil]
          exact Decr.cons none _ [] _ (fun _ e => by cases e) (Decr.nil _)
        · intro a ha
          refine ⟨_, rfl, ?_⟩
          rw [solOf_eq_proj hf (hsa a ha), evalL_proj _ _ _ hon]
          exact Int.le_refl _
      | some pv =>
        rw [hfu] at hfuel
        simp only at hfuel ⊢
        have hd := (search_decr m.n (some o) pol _ (closed_storeInv m.ps) hobj hon' fuel).1 m.ps st' none hn
        simp only [objVals] at hd
        refine ⟨_, hd, ?_⟩
        intro a ha
        have := (search_complete m.n (some o) pol _ (closed_storeInv m.ps) hobj hon' a fuel).1
          m.ps st' none hn (by rw [hfu]; rfl) (hsa a ha) ha.2 hfuel
        rcases this with hmem | ⟨o', mm, e, hb, hle⟩
        · have hx : evalL o (proj m.n a) ∈ (evsSols (explore m.n (some o) pol fuel m.ps st' none).evs).map (evalL o) :=
            List.mem_map.2 ⟨_, (mem_evsSols _ _).2 hmem, rfl⟩
          obtain ⟨mm, e, hle⟩ := hd.lower _ hx
          exact ⟨mm, e, by rw [evalL_proj _ _ _ hon] at hle; exact hle⟩
        · cases e; exact ⟨mm, hb, hle⟩
  obtain ⟨b, hd, hall⟩ := key
  refine ⟨hd.pairwise, ?_⟩
  rcases hd.last with ⟨hnil, hb⟩ | ⟨x, hx, hb⟩
  · have : (search m.n (some o) pol fuel m.ps m.store).solutions = [] := by
      simpa using hnil
    rw [this]
    simp only [List.getLast?_nil]
    intro a ha
    obtain ⟨mm, e, _⟩ := hall a ha
    rw [hb] at e; cases e
  · rw [List.getLast?_map] at hx
    cases hl : (search m.n (some o) pol fuel m.ps m.store).solutions.getLast? with
    | none => rw [hl] at hx; cases hx
    | some v =>
      rw [hl] at hx
      simp only [Option.map_some, Option.some.injEq] at hx
      intro a ha
      obtain ⟨mm, e, hle⟩ := hall a ha
      rw [hb] at e; cases e
      rw [hx]; exact hle

/-! ### termination: a fuel that always suffices -/

theorem mul_le_needE (P s : Nat) : P * s ≤ needE P s := by
  cases s with
  | zero => simp
  | succ s =>
    simp only [needE]
    have : P * (s+1) ≤ (P+2) * (s+1) := Nat.mul_le_mul_right _ (by omega)
    omega

/-- total number of declared values -/
def size (m : IModel) : Nat := sizeN m.n m.store

/-- fuel that suffices for the whole search of `m` -/
def fuelBound (m : IModel) : Nat := m.ps.length + needE m.ps.length m.size + 1

theorem store_nodup (m : IModel) (hnd : ∀ d ∈ m.doms, d.Nodup) : NodupS m.store := by
  intro i
  unfold store
  by_cases hi : i < m.doms.length
  · rw [getD_lt _ _ _ hi]; exact hnd _ (List.getElem_mem hi)
  · rw [getD_ge _ _ _ (by omega)]; simp

/-- **the search never runs out of fuel** once `fuel ≥ fuelBound m`: the fuel parameter of the
model is a proof device, not a behavioural bound -/
theorem search_terminates (m : IModel) (h : m.WF) (hnd : ∀ d ∈ m.doms, d.Nodup) (obj : Option IView)
    (hobj : ∀ o, obj = some o → o.WF) (pol : Policy) (fuel : Nat) (hf : m.fuelBound ≤ fuel) :
    (search m.n obj pol fuel m.ps m.store).outOfFuel = false := by
  unfold search
  have hc := m.allContract h
  have hle := mul_le_needE m.ps.length m.size
  unfold fuelBound at hf
  unfold size at hle hf
  cases hpr : propagate m.ps pol fuel (List.range m.ps.length) m.store with
  | fail => rfl
  | fuel =>
    exfalso
    refine propagate_terminates m.ps pol _ hc m.n fuel _ _ ⟨List.nodup_range, fun p hp => List.mem_range.1 hp⟩
      (m.store_ne h) m.store_tail ?_ hpr
    rw [List.length_range]
    omega
  | ok st' =>
    simp only
    obtain ⟨hn, hsub⟩ := m.root_node h pol fuel st' hpr
    cases hfu : firstUnassigned m.n st' with
    | none => rfl
    | some pv =>
      simp only
      apply (explore_terminates m.n obj pol _ (closed_storeInv m.ps) hobj fuel).1 _ _ _ hn
        (nodupS_of_sub (m.store_nodup hnd) hsub)
      have := @needE_mono m.ps.length m.ps.length (sizeN m.n st') (sizeN m.n m.store) (Nat.le_refl _) (sizeN_mono m.n hsub)
      omega

end IModel
end Selen

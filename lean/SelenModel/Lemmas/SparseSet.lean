import SelenModel.Model.SparseSet
/-
Invariant and refinement lemmas for the sparse-set model (C11).
-/
namespace Selen
namespace SS

/-- internal membership: value index `v` is present -/
def memI (s : SS) (v : Nat) : Prop := v < s.n ∧ s.ind v < s.size

/-- membership of an external value -/
def mem (s : SS) (v : Int) : Prop := s.off ≤ v ∧ s.memI (v - s.off).toNat

/-- `ind` and `val` are inverse permutations of `[0,n)` -/
def Perm (s : SS) : Prop :=
  (∀ i, i < s.n → s.val i < s.n ∧ s.ind (s.val i) = i) ∧
  (∀ v, v < s.n → s.ind v < s.n ∧ s.val (s.ind v) = v)

/-- cached bounds are the least / greatest present value when the set is non-empty -/
def BoundsOK (s : SS) : Prop :=
  s.size ≠ 0 → s.memI s.min ∧ s.memI s.max ∧ ∀ v, s.memI v → s.min ≤ v ∧ v ≤ s.max

structure WF (s : SS) : Prop where
  size_le : s.size ≤ s.n
  perm : s.Perm
  bounds : s.BoundsOK

theorem containsI_iff (s : SS) (v : Nat) : s.containsI v = true ↔ s.memI v := by
  unfold containsI memI
  by_cases h : v ≥ s.n <;> simp [h] <;> omega

theorem contains_iff (s : SS) (v : Int) : s.contains v = true ↔ s.mem v := by
  unfold contains mem
  by_cases h : v < s.off
  · simp [h]; omega
  · simp [h, containsI_iff]; omega

theorem containsI_false_iff (s : SS) (v : Nat) : s.containsI v = false ↔ ¬ s.memI v := by
  rw [← containsI_iff]; cases s.containsI v <;> simp

theorem contains_false_iff (s : SS) (v : Int) : s.contains v = false ↔ ¬ s.mem v := by
  rw [← contains_iff]; cases s.contains v <;> simp

/-! ### exchange -/

theorem exchange_ind (s : SS) (v1 v2 w : Nat) :
    (s.exchange v1 v2).ind w = if w = v2 then s.ind v1 else if w = v1 then s.ind v2 else s.ind w := by
  simp only [exchange, upd]

theorem exchange_val (s : SS) (v1 v2 i : Nat) :
    (s.exchange v1 v2).val i = if i = s.ind v2 then v1 else if i = s.ind v1 then v2 else s.val i := by
  simp only [exchange, upd]

theorem exchange_perm (s : SS) (v1 v2 : Nat) (hp : s.Perm) (h1 : v1 < s.n) (h2 : v2 < s.n) :
    (s.exchange v1 v2).Perm := by
  obtain ⟨hv, hi⟩ := hp
  have a1 := hi v1 h1
  have a2 := hi v2 h2
  constructor
  · intro i hin
    have b := hv i hin
    show (s.exchange v1 v2).val i < s.n ∧ (s.exchange v1 v2).ind ((s.exchange v1 v2).val i) = i
    rw [exchange_ind, exchange_val]
    grind
  · intro v hvn
    have b := hi v hvn
    show (s.exchange v1 v2).ind v < s.n ∧ (s.exchange v1 v2).val ((s.exchange v1 v2).ind v) = v
    rw [exchange_val, exchange_ind]
    grind

/-- exchanging two values whose positions are both below `K` keeps the set of values
stored below `K` -/
theorem exchange_prefix (s : SS) (v1 v2 K w : Nat) (h1 : s.ind v1 < K) (h2 : s.ind v2 < K) :
    (s.exchange v1 v2).ind w < K ↔ s.ind w < K := by
  rw [exchange_ind]; grind

/-! ### scans -/

theorem scanDown_some (s : SS) (lo k m : Nat) (h : s.scanDown lo k = some m) :
    s.memI m ∧ lo ≤ m ∧ m < lo + k ∧ ∀ w, m < w → w < lo + k → ¬ s.memI w := by
  induction k with
  | zero => simp [scanDown] at h
  | succ k ih =>
    simp only [scanDown] at h
    by_cases hc : s.containsI (lo + k) = true
    · simp [hc] at h; subst h
      refine ⟨(containsI_iff _ _).1 hc, by omega, by omega, ?_⟩
      intro w h1 h2; omega
    · simp [hc] at h
      obtain ⟨a, b, c, d⟩ := ih h
      refine ⟨a, b, by omega, ?_⟩
      intro w h1 h2
      by_cases hw : w = lo + k
      · subst hw; rw [← containsI_iff]; exact hc
      · exact d w h1 (by omega)

theorem scanDown_none (s : SS) (lo k : Nat) (h : s.scanDown lo k = none) :
    ∀ w, lo ≤ w → w < lo + k → ¬ s.memI w := by
  induction k with
  | zero => intro w h1 h2; omega
  | succ k ih =>
    simp only [scanDown] at h
    by_cases hc : s.containsI (lo + k) = true
    · simp [hc] at h
    · simp [hc] at h
      intro w h1 h2
      by_cases hw : w = lo + k
      · subst hw; rw [← containsI_iff]; exact hc
      · exact ih h w h1 (by omega)

theorem scanUp_some (s : SS) (lo k m : Nat) (h : s.scanUp lo k = some m) :
    s.memI m ∧ lo ≤ m ∧ m < lo + k ∧ ∀ w, lo ≤ w → w < m → ¬ s.memI w := by
  induction k generalizing lo with
  | zero => simp [scanUp] at h
  | succ k ih =>
    simp only [scanUp] at h
    by_cases hc : s.containsI lo = true
    · simp [hc] at h; subst h
      refine ⟨(containsI_iff _ _).1 hc, by omega, by omega, ?_⟩
      intro w h1 h2; omega
    · simp [hc] at h
      obtain ⟨a, b, c, d⟩ := ih (lo + 1) h
      refine ⟨a, by omega, by omega, ?_⟩
      intro w h1 h2
      by_cases hw : w = lo
      · subst hw; rw [← containsI_iff]; exact hc
      · exact d w (by omega) h2

theorem scanUp_none (s : SS) (lo k : Nat) (h : s.scanUp lo k = none) :
    ∀ w, lo ≤ w → w < lo + k → ¬ s.memI w := by
  induction k generalizing lo with
  | zero => intro w h1 h2; omega
  | succ k ih =>
    simp only [scanUp] at h
    by_cases hc : s.containsI lo = true
    · simp [hc] at h
    · simp [hc] at h
      intro w h1 h2
      by_cases hw : w = lo
      · subst hw; rw [← containsI_iff]; exact hc
      · exact ih (lo + 1) h w (by omega) (by omega)

/-! ### remove -/

/-- the state after the swap-and-shrink step of `remove`, before the bounds are repaired -/
def shrink (s : SS) (v : Nat) : SS :=
  let s1 := s.exchange v (s.val (s.size - 1))
  { s1 with size := s1.size - 1 }

theorem removeI_eq (s : SS) (v : Nat) :
    s.removeI v = ((s.shrink v).updateMaxValRemoved v).updateMinValRemoved v := rfl

theorem shrink_fields (s : SS) (v : Nat) :
    (s.shrink v).n = s.n ∧ (s.shrink v).off = s.off ∧ (s.shrink v).min = s.min ∧
    (s.shrink v).max = s.max ∧ (s.shrink v).size = s.size - 1 := by
  simp [shrink, exchange]

theorem shrink_perm (s : SS) (v : Nat) (h : s.WF) (hv : s.memI v) : (s.shrink v).Perm := by
  have hl : s.val (s.size - 1) < s.n := (h.perm.1 (s.size - 1) (by have := hv.2; have := h.size_le; omega)).1
  have := exchange_perm s v (s.val (s.size - 1)) h.perm hv.1 hl
  exact this

/-- membership after the swap-and-shrink: exactly `v` disappears -/
theorem shrink_memI (s : SS) (v w : Nat) (h : s.WF) (hv : s.memI v) :
    (s.shrink v).memI w ↔ s.memI w ∧ w ≠ v := by
  have hsz : s.size - 1 < s.n := by have := hv.2; have := h.size_le; omega
  have hl := h.perm.1 (s.size - 1) hsz
  have hvi := h.perm.2 v hv.1
  unfold memI
  show w < s.n ∧ (s.exchange v (s.val (s.size - 1))).ind w < s.size - 1 ↔ _
  rw [exchange_ind]
  have h2 := hv.2
  by_cases hwn : w < s.n
  · have hwi := h.perm.2 w hwn
    grind
  · grind

/-- positions below `K ≥ size` keep their value sets under swap-and-shrink -/
theorem shrink_prefix (s : SS) (v K w : Nat) (h : s.WF) (hv : s.memI v) (hK : s.size ≤ K) :
    (s.shrink v).ind w < K ↔ s.ind w < K := by
  have hsz : s.size - 1 < s.n := by have := hv.2; have := h.size_le; omega
  have hl := h.perm.1 (s.size - 1) hsz
  show (s.exchange v (s.val (s.size - 1))).ind w < K ↔ _
  apply exchange_prefix
  · have := hv.2; omega
  · rw [hl.2]; have := hv.2; omega

/-! ### bounds repair -/

theorem updateMax_same (s : SS) (v : Nat) :
    (s.updateMaxValRemoved v).n = s.n ∧ (s.updateMaxValRemoved v).off = s.off ∧
    (s.updateMaxValRemoved v).ind = s.ind ∧ (s.updateMaxValRemoved v).val = s.val ∧
    (s.updateMaxValRemoved v).size = s.size ∧ (s.updateMaxValRemoved v).min = s.min := by
  unfold updateMaxValRemoved
  split
  · split <;> simp
  · simp

theorem updateMin_same (s : SS) (v : Nat) :
    (s.updateMinValRemoved v).n = s.n ∧ (s.updateMinValRemoved v).off = s.off ∧
    (s.updateMinValRemoved v).ind = s.ind ∧ (s.updateMinValRemoved v).val = s.val ∧
    (s.updateMinValRemoved v).size = s.size ∧ (s.updateMinValRemoved v).max = s.max := by
  unfold updateMinValRemoved
  split
  · split <;> simp
  · simp

theorem memI_congr (s t : SS) (hn : t.n = s.n) (hi : t.ind = s.ind) (hs : t.size = s.size) (w : Nat) :
    t.memI w ↔ s.memI w := by
  unfold memI; rw [hn, hi, hs]

theorem updateMax_memI (s : SS) (v w : Nat) : (s.updateMaxValRemoved v).memI w ↔ s.memI w := by
  obtain ⟨a, _, c, _, e, _⟩ := updateMax_same s v
  exact memI_congr _ _ a c e w

theorem updateMin_memI (s : SS) (v w : Nat) : (s.updateMinValRemoved v).memI w ↔ s.memI w := by
  obtain ⟨a, _, c, _, e, _⟩ := updateMin_same s v
  exact memI_congr _ _ a c e w

/-- after `v` left the set: the new cached maximum is the greatest member -/
theorem updateMax_spec (s : SS) (v : Nat) (hsz : s.size ≠ 0)
    (hex : ∃ u, s.memI u)
    (hb : ∀ w, s.memI w → s.min ≤ w ∧ w ≤ s.max ∧ w ≠ v)
    (hmax : s.max ≠ v → s.memI s.max) :
    s.memI (s.updateMaxValRemoved v).max ∧ ∀ w, s.memI w → w ≤ (s.updateMaxValRemoved v).max := by
  unfold updateMaxValRemoved
  by_cases hc : s.size ≠ 0 ∧ s.max = v
  · rw [if_pos hc]
    obtain ⟨u, hu⟩ := hex
    have hu' := hb u hu
    cases hsd : s.scanDown s.min (v - s.min) with
    | none =>
      exfalso
      exact scanDown_none s _ _ hsd u hu'.1 (by omega) hu
    | some m =>
      obtain ⟨a, b, c, d⟩ := scanDown_some s _ _ _ hsd
      refine ⟨a, ?_⟩
      intro w hw
      have hw' := hb w hw
      show w ≤ m
      by_cases hwm : w ≤ m
      · exact hwm
      · exfalso; exact d w (by omega) (by omega) hw
  · rw [if_neg hc]
    have : s.max ≠ v := fun h => hc ⟨hsz, h⟩
    exact ⟨hmax this, fun w hw => (hb w hw).2.1⟩

/-- after `v` left the set: the new cached minimum is the least member -/
theorem updateMin_spec (s : SS) (v : Nat) (hsz : s.size ≠ 0)
    (hex : ∃ u, s.memI u)
    (hb : ∀ w, s.memI w → s.min ≤ w ∧ w ≤ s.max ∧ w ≠ v)
    (hmin : s.min ≠ v → s.memI s.min) :
    s.memI (s.updateMinValRemoved v).min ∧ ∀ w, s.memI w → (s.updateMinValRemoved v).min ≤ w := by
  unfold updateMinValRemoved
  by_cases hc : s.size ≠ 0 ∧ s.min = v
  · rw [if_pos hc]
    obtain ⟨u, hu⟩ := hex
    have hu' := hb u hu
    cases hsd : s.scanUp (v + 1) (s.max + 1 - (v + 1)) with
    | none =>
      exfalso
      exact scanUp_none s _ _ hsd u (by omega) (by omega) hu
    | some m =>
      obtain ⟨a, b, c, d⟩ := scanUp_some s _ _ _ hsd
      refine ⟨a, ?_⟩
      intro w hw
      have hw' := hb w hw
      show m ≤ w
      by_cases hwm : m ≤ w
      · exact hwm
      · exfalso; exact d w (by omega) (by omega) hw
  · rw [if_neg hc]
    have : s.min ≠ v := fun h => hc ⟨hsz, h⟩
    exact ⟨hmin this, fun w hw => (hb w hw).1⟩

/-- a non-empty well-formed set has a member (the value stored at position 0) -/
theorem exists_mem_of_size (s : SS) (hp : s.Perm) (hle : s.size ≤ s.n) (hsz : s.size ≠ 0) :
    ∃ u, s.memI u := by
  have h0 : 0 < s.n := by omega
  have := hp.1 0 h0
  exact ⟨s.val 0, this.1, by rw [this.2]; omega⟩

theorem removeI_memI (s : SS) (v w : Nat) (h : s.WF) (hv : s.memI v) :
    (s.removeI v).memI w ↔ s.memI w ∧ w ≠ v := by
  rw [removeI_eq, updateMin_memI, updateMax_memI, shrink_memI s v w h hv]

theorem removeI_same (s : SS) (v : Nat) :
    (s.removeI v).n = s.n ∧ (s.removeI v).off = s.off ∧ (s.removeI v).size = s.size - 1 ∧
    (s.removeI v).ind = (s.shrink v).ind ∧ (s.removeI v).val = (s.shrink v).val := by
  rw [removeI_eq]
  obtain ⟨a1, a2, a3, a4, a5, _⟩ := updateMin_same ((s.shrink v).updateMaxValRemoved v) v
  obtain ⟨b1, b2, b3, b4, b5, _⟩ := updateMax_same (s.shrink v) v
  obtain ⟨c1, c2, _, _, c5⟩ := shrink_fields s v
  refine ⟨by rw [a1, b1, c1], by rw [a2, b2, c2], by rw [a5, b5, c5], by rw [a3, b3], by rw [a4, b4]⟩

/-- bounds repair after a value left the set -/
theorem repair_bounds (s2 : SS) (v : Nat) (hsz2 : s2.size ≠ 0) (hex2 : ∃ u, s2.memI u)
    (hb2 : ∀ w, s2.memI w → s2.min ≤ w ∧ w ≤ s2.max ∧ w ≠ v)
    (hmax2 : s2.max ≠ v → s2.memI s2.max) (hmin2 : s2.min ≠ v → s2.memI s2.min) :
    ((s2.updateMaxValRemoved v).updateMinValRemoved v).BoundsOK := by
  intro _
  obtain ⟨m1, m2⟩ := updateMax_spec s2 v hsz2 hex2 hb2 hmax2
  generalize hs3 : s2.updateMaxValRemoved v = s3 at *
  obtain ⟨g1, g2, g3, g4, g5, g6⟩ := updateMax_same s2 v
  rw [hs3] at g1 g2 g3 g4 g5 g6
  have hmem3 : ∀ w, s3.memI w ↔ s2.memI w := fun w => by rw [← hs3]; exact updateMax_memI s2 v w
  have hsz3 : s3.size ≠ 0 := by rw [g5]; exact hsz2
  have hex3 : ∃ u, s3.memI u := by obtain ⟨u, hu⟩ := hex2; exact ⟨u, (hmem3 u).2 hu⟩
  have hb3 : ∀ w, s3.memI w → s3.min ≤ w ∧ w ≤ s3.max ∧ w ≠ v := by
    intro w hw
    have hw2 := (hmem3 w).1 hw
    have := hb2 w hw2
    rw [g6]; exact ⟨this.1, m2 w hw2, this.2.2⟩
  have hmin3 : s3.min ≠ v → s3.memI s3.min := by
    intro hne; rw [g6] at hne; rw [g6]
    exact (hmem3 _).2 (hmin2 hne)
  obtain ⟨k1, k2⟩ := updateMin_spec s3 v hsz3 hex3 hb3 hmin3
  obtain ⟨j1, j2, j3, j4, j5, j6⟩ := updateMin_same s3 v
  have hmem4 : ∀ w, (s3.updateMinValRemoved v).memI w ↔ s3.memI w := fun w => updateMin_memI s3 v w
  refine ⟨(hmem4 _).2 k1, ?_, ?_⟩
  · rw [j6]; exact (hmem4 _).2 ((hmem3 _).2 m1)
  · intro w hw
    have hw3 := (hmem4 w).1 hw
    refine ⟨k2 w hw3, ?_⟩
    rw [j6]; exact m2 w ((hmem3 w).1 hw3)

theorem removeI_wf (s : SS) (v : Nat) (h : s.WF) (hv : s.memI v) : (s.removeI v).WF := by
  obtain ⟨e1, e2, e3, e4, e5⟩ := removeI_same s v
  have hperm : (s.removeI v).Perm := by
    have hp := shrink_perm s v h hv
    unfold Perm at hp ⊢
    rw [e1, e4, e5]
    have : (s.shrink v).n = s.n := (shrink_fields s v).1
    rw [this] at hp
    exact hp
  refine ⟨by rw [e3, e1]; have := h.size_le; omega, hperm, ?_⟩
  intro hsz
  obtain ⟨f1, f2, f3, f4, f5⟩ := shrink_fields s v
  have hsz2 : (s.shrink v).size ≠ 0 := by rw [f5]; rw [e3] at hsz; exact hsz
  have hb0 := h.bounds (by have := hv.2; omega)
  have hmem2 : ∀ w, (s.shrink v).memI w ↔ s.memI w ∧ w ≠ v := fun w => shrink_memI s v w h hv
  have hp2 : (s.shrink v).Perm := shrink_perm s v h hv
  have hex2 : ∃ u, (s.shrink v).memI u :=
    exists_mem_of_size _ hp2 (by rw [f5, f1]; have := h.size_le; omega) hsz2
  have hb2 : ∀ w, (s.shrink v).memI w → (s.shrink v).min ≤ w ∧ w ≤ (s.shrink v).max ∧ w ≠ v := by
    intro w hw
    have := (hmem2 w).1 hw
    have hh := hb0.2.2 w this.1
    rw [f3, f4]; exact ⟨hh.1, hh.2, this.2⟩
  have hmax2 : (s.shrink v).max ≠ v → (s.shrink v).memI (s.shrink v).max := by
    intro hne; rw [f4] at hne ⊢; exact (hmem2 _).2 ⟨hb0.2.1, hne⟩
  have hmin2 : (s.shrink v).min ≠ v → (s.shrink v).memI (s.shrink v).min := by
    intro hne; rw [f3] at hne ⊢; exact (hmem2 _).2 ⟨hb0.1, hne⟩
  have := repair_bounds (s.shrink v) v hsz2 hex2 hb2 hmax2 hmin2
  rw [removeI_eq]
  exact this (by rw [← removeI_eq]; exact hsz)

/-! ### external-value operations -/

theorem remove'_spec (s : SS) (v : Int) (h : s.WF) :
    (s.remove' v).WF ∧ (s.remove' v).off = s.off ∧ (s.remove' v).n = s.n ∧
    (∀ w, (s.remove' v).mem w ↔ s.mem w ∧ w ≠ v) ∧ (s.remove' v).size ≤ s.size := by
  unfold remove' remove
  by_cases hc : s.contains v = true
  · rw [if_pos hc]
    have hm := (contains_iff s v).1 hc
    obtain ⟨e1, e2, e3, _, _⟩ := removeI_same s (v - s.off).toNat
    refine ⟨removeI_wf s _ h hm.2, e2, e1, ?_, by show (s.removeI _).size ≤ _; omega⟩
    intro w
    unfold mem
    show (s.removeI (v - s.off).toNat).off ≤ w ∧ (s.removeI (v - s.off).toNat).memI (w - (s.removeI (v - s.off).toNat).off).toNat ↔ _
    rw [e2, removeI_memI s _ _ h hm.2]
    have := hm.1
    constructor
    · rintro ⟨a, b, c⟩; exact ⟨⟨a, b⟩, by omega⟩
    · rintro ⟨⟨a, b⟩, c⟩; exact ⟨a, b, by omega⟩
  · rw [if_neg hc]
    have hm : ¬ s.mem v := fun hm => hc ((contains_iff s v).2 hm)
    refine ⟨h, rfl, rfl, ?_, Nat.le_refl _⟩
    intro w
    constructor
    · intro hw; exact ⟨hw, fun e => hm (e ▸ hw)⟩
    · intro hw; exact hw.1

theorem remove_ret (s : SS) (v : Int) : (s.remove v).2 = s.contains v := by
  unfold remove; by_cases hc : s.contains v = true <;> simp [hc]

/-- folding `remove` over a list removes exactly the listed values -/
theorem foldl_remove'_spec (l : List Int) (s : SS) (h : s.WF) :
    (l.foldl remove' s).WF ∧ (l.foldl remove' s).off = s.off ∧ (l.foldl remove' s).n = s.n ∧
    (∀ w, (l.foldl remove' s).mem w ↔ s.mem w ∧ w ∉ l) ∧ (l.foldl remove' s).size ≤ s.size := by
  induction l generalizing s with
  | nil => simp; exact h
  | cons a l ih =>
    obtain ⟨a1, a2, a3, a4, a5⟩ := remove'_spec s a h
    obtain ⟨b1, b2, b3, b4, b5⟩ := ih (s.remove' a) a1
    simp only [List.foldl_cons]
    refine ⟨b1, by rw [b2, a2], by rw [b3, a3], ?_, by omega⟩
    intro w
    rw [b4, a4]
    simp only [List.mem_cons, not_or]
    constructor
    · rintro ⟨⟨x, y⟩, z⟩; exact ⟨x, y, z⟩
    · rintro ⟨x, y, z⟩; exact ⟨⟨x, y⟩, z⟩

theorem mem_intRange (lo hi w : Int) : w ∈ intRange lo hi ↔ lo ≤ w ∧ w < hi := by
  unfold intRange
  simp only [List.mem_map, List.mem_range]
  constructor
  · rintro ⟨k, hk, rfl⟩; omega
  · intro ⟨a, b⟩; exact ⟨(w - lo).toNat, by omega, by omega⟩

theorem removeAll_wf (s : SS) (h : s.WF) : s.removeAll.WF :=
  ⟨Nat.zero_le _, h.perm, fun hne => absurd rfl hne⟩

theorem removeAll_mem (s : SS) (w : Int) : ¬ s.removeAll.mem w := by
  intro hm; exact Nat.not_lt_zero _ hm.2.2

/-- external bounds of a non-empty well-formed set -/
theorem mem_bounds (s : SS) (h : s.WF) (hne : s.size ≠ 0) :
    s.mem s.minV ∧ s.mem s.maxV ∧ ∀ w, s.mem w → s.minV ≤ w ∧ w ≤ s.maxV := by
  obtain ⟨a, b, c⟩ := h.bounds hne
  unfold mem minV maxV
  refine ⟨⟨by omega, by simpa using a⟩, ⟨by omega, by simpa using b⟩, ?_⟩
  intro w ⟨h1, h2⟩
  have := c _ h2
  omega

theorem removeBelow_spec (s : SS) (v : Int) (h : s.WF) :
    (s.removeBelow v).WF ∧ (s.removeBelow v).off = s.off ∧ (s.removeBelow v).n = s.n ∧
    (∀ w, (s.removeBelow v).mem w ↔ s.mem w ∧ v ≤ w) ∧ (s.removeBelow v).size ≤ s.size := by
  unfold removeBelow
  by_cases he : s.isEmpty = true
  · rw [if_pos he]
    have hz : s.size = 0 := by simpa [isEmpty] using he
    refine ⟨h, rfl, rfl, ?_, Nat.le_refl _⟩
    intro w
    constructor
    · intro hm; exfalso; have := hm.2.2; omega
    · intro hm; exact hm.1
  · rw [if_neg he]
    have hz : s.size ≠ 0 := by simpa [isEmpty] using he
    obtain ⟨b1, b2, b3⟩ := mem_bounds s h hz
    by_cases hlt : s.maxV < v
    · rw [if_pos hlt]
      refine ⟨removeAll_wf s h, rfl, rfl, ?_, Nat.zero_le _⟩
      intro w
      constructor
      · intro hm; exact absurd hm (removeAll_mem s w)
      · intro ⟨hm, hv⟩; have := (b3 w hm).2; omega
    · rw [if_neg hlt]
      obtain ⟨c1, c2, c3, c4, c5⟩ := foldl_remove'_spec (intRange s.minV v) s h
      refine ⟨c1, c2, c3, ?_, c5⟩
      intro w
      rw [c4, mem_intRange]
      constructor
      · intro ⟨hm, hn⟩; have := (b3 w hm).1; exact ⟨hm, by omega⟩
      · intro ⟨hm, hv⟩; exact ⟨hm, by omega⟩

theorem removeAbove_spec (s : SS) (v : Int) (h : s.WF) :
    (s.removeAbove v).WF ∧ (s.removeAbove v).off = s.off ∧ (s.removeAbove v).n = s.n ∧
    (∀ w, (s.removeAbove v).mem w ↔ s.mem w ∧ w ≤ v) ∧ (s.removeAbove v).size ≤ s.size := by
  unfold removeAbove
  by_cases he : s.isEmpty = true
  · rw [if_pos he]
    have hz : s.size = 0 := by simpa [isEmpty] using he
    refine ⟨h, rfl, rfl, ?_, Nat.le_refl _⟩
    intro w
    constructor
    · intro hm; exfalso; have := hm.2.2; omega
    · intro hm; exact hm.1
  · rw [if_neg he]
    have hz : s.size ≠ 0 := by simpa [isEmpty] using he
    obtain ⟨b1, b2, b3⟩ := mem_bounds s h hz
    by_cases hlt : s.minV > v
    · rw [if_pos hlt]
      refine ⟨removeAll_wf s h, rfl, rfl, ?_, Nat.zero_le _⟩
      intro w
      constructor
      · intro hm; exact absurd hm (removeAll_mem s w)
      · intro ⟨hm, hv⟩; have := (b3 w hm).1; omega
    · rw [if_neg hlt]
      obtain ⟨c1, c2, c3, c4, c5⟩ := foldl_remove'_spec (intRange (v + 1) (s.maxV + 1)) s h
      refine ⟨c1, c2, c3, ?_, c5⟩
      intro w
      rw [c4, mem_intRange]
      constructor
      · intro ⟨hm, hn⟩; have := (b3 w hm).2; exact ⟨hm, by omega⟩
      · intro ⟨hm, hv⟩; exact ⟨hm, by omega⟩

theorem mem_toList (s : SS) (h : s.WF) (w : Int) : w ∈ s.toList ↔ s.mem w := by
  unfold toList mem memI
  simp only [List.mem_map, List.mem_range]
  constructor
  · rintro ⟨i, hi, rfl⟩
    have hin : i < s.n := by have := h.size_le; omega
    have := h.perm.1 i hin
    refine ⟨by omega, ?_⟩
    have e : ((s.val i : Int) + s.off - s.off).toNat = s.val i := by omega
    rw [e]; exact ⟨this.1, by rw [this.2]; exact hi⟩
  · intro ⟨h1, h2, h3⟩
    have := h.perm.2 _ h2
    exact ⟨s.ind (w - s.off).toNat, h3, by rw [this.2]; omega⟩

theorem intersectWith_spec (s o : SS) (h : s.WF) :
    (s.intersectWith o).WF ∧ (s.intersectWith o).off = s.off ∧ (s.intersectWith o).n = s.n ∧
    (∀ w, (s.intersectWith o).mem w ↔ s.mem w ∧ o.contains w = true) ∧
    (s.intersectWith o).size ≤ s.size := by
  unfold intersectWith
  obtain ⟨c1, c2, c3, c4, c5⟩ := foldl_remove'_spec (s.toList.filter (fun v => !o.contains v)) s h
  refine ⟨c1, c2, c3, ?_, c5⟩
  intro w
  rw [c4]
  simp only [List.mem_filter, mem_toList s h]
  constructor
  · intro ⟨hm, hn⟩
    refine ⟨hm, ?_⟩
    cases hc : o.contains w
    · exfalso; exact hn ⟨hm, by simp [hc]⟩
    · rfl
  · intro ⟨hm, hc⟩; exact ⟨hm, by simp [hc]⟩

theorem diffWith_spec (s o : SS) (h : s.WF) :
    (s.diffWith o).WF ∧ (s.diffWith o).off = s.off ∧ (s.diffWith o).n = s.n ∧
    (∀ w, (s.diffWith o).mem w ↔ s.mem w ∧ o.contains w = false) ∧
    (s.diffWith o).size ≤ s.size := by
  unfold diffWith
  obtain ⟨c1, c2, c3, c4, c5⟩ := foldl_remove'_spec (s.toList.filter (fun v => o.contains v)) s h
  refine ⟨c1, c2, c3, ?_, c5⟩
  intro w
  rw [c4]
  simp only [List.mem_filter, mem_toList s h]
  constructor
  · intro ⟨hm, hn⟩
    refine ⟨hm, ?_⟩
    cases hc : o.contains w
    · rfl
    · exfalso; exact hn ⟨hm, hc⟩
  · intro ⟨hm, hc⟩; exact ⟨hm, by simp [hc]⟩

/-! ### construction -/

theorem new_wf (lo hi : Int) : (new lo hi).WF := by
  unfold new
  refine ⟨Nat.le_refl _, ⟨fun i hi => ⟨hi, rfl⟩, fun v hv => ⟨hv, rfl⟩⟩, ?_⟩
  intro _
  simp only [memI, id]
  refine ⟨by omega, by omega, ?_⟩
  intro v hv; omega

theorem new_mem (lo hi : Int) (hle : lo ≤ hi) (w : Int) : (new lo hi).mem w ↔ lo ≤ w ∧ w ≤ hi := by
  unfold new mem memI
  have : ¬ lo > hi := by omega
  simp only [this, if_false, id]
  omega

theorem new_mem_swapped (lo hi : Int) (hgt : lo > hi) (w : Int) : (new lo hi).mem w ↔ hi ≤ w ∧ w ≤ lo := by
  unfold new mem memI
  simp only [hgt, if_true, id]
  omega

theorem empty_wf (off : Int) : (empty off).WF :=
  ⟨Nat.le_refl _, ⟨fun i hi => absurd hi (Nat.not_lt_zero _), fun v hv => absurd hv (Nat.not_lt_zero _)⟩,
   fun h => absurd rfl h⟩

theorem empty_mem (off w : Int) : ¬ (empty off).mem w := fun h => Nat.not_lt_zero _ h.2.1

/-! ### remove_all_but -/

theorem removeAllBut_spec (s : SS) (v : Int) (h : s.WF) :
    (s.removeAllBut v).WF ∧ (s.removeAllBut v).off = s.off ∧ (s.removeAllBut v).n = s.n ∧
    (∀ w, (s.removeAllBut v).mem w ↔ s.mem w ∧ w = v) ∧ (s.removeAllBut v).size ≤ s.size := by
  unfold removeAllBut
  by_cases hc : s.contains v = true
  · rw [if_pos hc]
    have hm := (contains_iff s v).1 hc
    obtain ⟨hoff, hvn, hvi⟩ := hm
    have hsz : 0 < s.size := by omega
    have h0n : 0 < s.n := by have := h.size_le; omega
    have hp0 := h.perm.1 0 h0n
    have hpv := h.perm.2 _ hvn
    have hperm := h.perm
    refine ⟨⟨by show 1 ≤ s.n; omega, ?_, ?_⟩, rfl, rfl, ?_, by show 1 ≤ s.size; omega⟩
    · -- Perm
      constructor
      · intro i hin
        have b := hperm.1 i hin
        show upd (upd s.val 0 _) _ _ i < s.n ∧ upd (upd s.ind _ 0) _ _ (upd (upd s.val 0 _) _ _ i) = i
        simp only [upd]
        grind
      · intro w hwn
        have b := hperm.2 w hwn
        show upd (upd s.ind _ 0) _ _ w < s.n ∧ upd (upd s.val 0 _) _ _ (upd (upd s.ind _ 0) _ _ w) = w
        simp only [upd]
        grind
    · intro _
      have key : ∀ w, w < s.n → (upd (upd s.ind (v - s.off).toNat 0) (s.val 0) (s.ind (v - s.off).toNat) w < 1 ↔
          w = (v - s.off).toNat) := by
        intro w hwn
        have b := hperm.2 w hwn
        simp only [upd]
        grind
      show memI _ (v - s.off).toNat ∧ memI _ (v - s.off).toNat ∧ ∀ w, memI _ w → (v - s.off).toNat ≤ w ∧ w ≤ (v - s.off).toNat
      unfold memI
      refine ⟨⟨hvn, (key _ hvn).2 rfl⟩, ⟨hvn, (key _ hvn).2 rfl⟩, ?_⟩
      intro w ⟨hwn, hw⟩
      have := (key w hwn).1 hw
      omega
    · intro w
      have key : ∀ w, w < s.n → (upd (upd s.ind (v - s.off).toNat 0) (s.val 0) (s.ind (v - s.off).toNat) w < 1 ↔
          w = (v - s.off).toNat) := by
        intro w hwn
        have b := hperm.2 w hwn
        simp only [upd]
        grind
      unfold mem memI
      show s.off ≤ w ∧ (w - s.off).toNat < s.n ∧ upd (upd s.ind _ 0) _ _ (w - s.off).toNat < 1 ↔ _
      constructor
      · intro ⟨a, b, c⟩
        have := (key _ b).1 c
        have hwv : w = v := by omega
        subst hwv
        exact ⟨⟨a, b, hvi⟩, rfl⟩
      · intro ⟨⟨a, b, c⟩, e⟩
        subst e
        exact ⟨a, b, (key _ b).2 rfl⟩
  · rw [if_neg hc]
    have hm : ¬ s.mem v := fun hm => hc ((contains_iff s v).2 hm)
    refine ⟨removeAll_wf s h, rfl, rfl, ?_, Nat.zero_le _⟩
    intro w
    constructor
    · intro hw; exact absurd hw (removeAll_mem s w)
    · intro ⟨hw, e⟩; subst e; exact absurd hw hm

/-! ### union -/

theorem grow_memI (s : SS) (vi w : Nat) (h : s.WF) (hvn : vi < s.n) (hv : ¬ s.memI vi) :
    (s.grow vi).Perm ∧ (s.grow vi).size = s.size + 1 ∧ s.size < s.n ∧
    ((s.grow vi).memI w ↔ s.memI w ∨ w = vi) := by
  have hvi := h.perm.2 vi hvn
  have hge : s.size ≤ s.ind vi := by
    have : ¬ (s.ind vi < s.size) := fun hh => hv ⟨hvn, hh⟩
    omega
  have hszn : s.size < s.n := by omega
  have hl := h.perm.1 s.size hszn
  refine ⟨exchange_perm s vi _ h.perm hvn hl.1, rfl, hszn, ?_⟩
  unfold memI
  show w < s.n ∧ (s.exchange vi (s.val s.size)).ind w < s.size + 1 ↔ _
  rw [exchange_ind]
  by_cases hwn : w < s.n
  · have hwi := h.perm.2 w hwn
    grind
  · grind

theorem addBounds_same (g : SS) (vi : Nat) :
    (g.addBounds vi).n = g.n ∧ (g.addBounds vi).off = g.off ∧ (g.addBounds vi).ind = g.ind ∧
    (g.addBounds vi).val = g.val ∧ (g.addBounds vi).size = g.size ∧
    (g.addBounds vi).min = (if g.size = 1 then vi else if vi < g.min then vi else g.min) ∧
    (g.addBounds vi).max = (if g.size = 1 then vi else if vi > g.max then vi else g.max) := by
  unfold addBounds
  by_cases h1 : g.size = 1
  · simp [h1]
  · by_cases h2 : vi < g.min <;> by_cases h3 : vi > g.max <;> simp [h1, h2, h3]

theorem unionOne_spec (s : SS) (v : Int) (h : s.WF) :
    (s.unionOne v).WF ∧ (s.unionOne v).off = s.off ∧ (s.unionOne v).n = s.n ∧
    (∀ w, (s.unionOne v).mem w ↔ s.mem w ∨ (w = v ∧ s.off ≤ v ∧ v < s.off + (s.n : Int))) := by
  unfold unionOne
  by_cases hc : s.contains v = true
  · rw [if_pos hc]
    have hm := (contains_iff s v).1 hc
    refine ⟨h, rfl, rfl, ?_⟩
    intro w
    constructor
    · intro hw; exact Or.inl hw
    · rintro (hw | ⟨e, _, _⟩)
      · exact hw
      · subst e; exact hm
  · rw [if_neg hc]
    have hnm : ¬ s.mem v := fun hm => hc ((contains_iff s v).2 hm)
    by_cases hu : v ≥ s.off ∧ v < s.off + (s.n : Int)
    · rw [if_pos hu]
      have hvn : (v - s.off).toNat < s.n := by omega
      have hv : ¬ s.memI (v - s.off).toNat := fun hh => hnm ⟨by omega, hh⟩
      have hci : s.containsI (v - s.off).toNat = false := (containsI_false_iff _ _).2 hv
      simp only [hci, Bool.not_false, if_true]
      have hg := fun w => grow_memI s (v - s.off).toNat w h hvn hv
      obtain ⟨gp, gs, gn, _⟩ := hg 0
      generalize hg2 : s.grow (v - s.off).toNat = g at *
      have gn' : g.n = s.n := by rw [← hg2]; rfl
      have goff : g.off = s.off := by rw [← hg2]; rfl
      have gmem : ∀ w, g.memI w ↔ s.memI w ∨ w = (v - s.off).toNat := fun w => (hg w).2.2.2
      have gmin : g.min = s.min := by rw [← hg2]; rfl
      have gmax : g.max = s.max := by rw [← hg2]; rfl
      obtain ⟨tn, toff, ti, tv, ts, tmin, tmax⟩ := addBounds_same g (v - s.off).toNat
      generalize g.addBounds (v - s.off).toNat = t at *
      have tm : ∀ w, t.memI w ↔ g.memI w := fun w => memI_congr _ _ tn ti ts w
      refine ⟨⟨by rw [ts, tn]; omega, ?_, ?_⟩, by rw [toff, goff], by rw [tn, gn'], ?_⟩
      · unfold Perm; rw [tn, ti, tv]; exact gp
      · intro _
        by_cases h1 : g.size = 1
        · rw [if_pos h1] at tmin tmax
          rw [tmin, tmax]
          refine ⟨(tm _).2 ((gmem _).2 (Or.inr rfl)), (tm _).2 ((gmem _).2 (Or.inr rfl)), ?_⟩
          intro w hw
          rcases (gmem w).1 ((tm w).1 hw) with hw | hw
          · exfalso; have := hw.2; omega
          · omega
        · rw [if_neg h1] at tmin tmax
          have hs0 : s.size ≠ 0 := by omega
          obtain ⟨b1, b2, b3⟩ := h.bounds hs0
          rw [tmin, tmax, gmin, gmax]
          refine ⟨(tm _).2 ((gmem _).2 ?_), (tm _).2 ((gmem _).2 ?_), ?_⟩
          · by_cases hh : (v - s.off).toNat < s.min
            · rw [if_pos hh]; exact Or.inr rfl
            · rw [if_neg hh]; exact Or.inl b1
          · by_cases hh : (v - s.off).toNat > s.max
            · rw [if_pos hh]; exact Or.inr rfl
            · rw [if_neg hh]; exact Or.inl b2
          · intro w hw
            rcases (gmem w).1 ((tm w).1 hw) with hw | hw
            · have := b3 w hw
              constructor
              · split <;> omega
              · split <;> omega
            · subst hw
              constructor
              · split <;> omega
              · split <;> omega
      · intro w
        unfold mem
        rw [toff, goff, tm, gmem]
        constructor
        · rintro ⟨a, b | b⟩
          · exact Or.inl ⟨a, b⟩
          · exact Or.inr ⟨by omega, hu.1, hu.2⟩
        · rintro (⟨a, b⟩ | ⟨e, a, b⟩)
          · exact ⟨a, Or.inl b⟩
          · exact ⟨by omega, Or.inr (by rw [e])⟩
    · rw [if_neg hu]
      refine ⟨h, rfl, rfl, ?_⟩
      intro w
      constructor
      · intro hw; exact Or.inl hw
      · rintro (hw | ⟨_, a, b⟩)
        · exact hw
        · exact absurd ⟨a, b⟩ hu

theorem foldl_unionOne_spec (l : List Int) (s : SS) (h : s.WF) :
    (l.foldl unionOne s).WF ∧ (l.foldl unionOne s).off = s.off ∧ (l.foldl unionOne s).n = s.n ∧
    (∀ w, (l.foldl unionOne s).mem w ↔ s.mem w ∨ (w ∈ l ∧ s.off ≤ w ∧ w < s.off + (s.n : Int))) := by
  induction l generalizing s with
  | nil => simp; exact h
  | cons a l ih =>
    obtain ⟨a1, a2, a3, a4⟩ := unionOne_spec s a h
    obtain ⟨b1, b2, b3, b4⟩ := ih (s.unionOne a) a1
    simp only [List.foldl_cons]
    refine ⟨b1, by rw [b2, a2], by rw [b3, a3], ?_⟩
    intro w
    rw [b4, a4, a2, a3]
    simp only [List.mem_cons]
    constructor
    · rintro ((x | ⟨e, y, z⟩) | ⟨x, y, z⟩)
      · exact Or.inl x
      · exact Or.inr ⟨Or.inl e, by omega, by omega⟩
      · exact Or.inr ⟨Or.inr x, y, z⟩
    · rintro (x | ⟨e | x, y, z⟩)
      · exact Or.inl (Or.inl x)
      · exact Or.inl (Or.inr ⟨e, by omega, by omega⟩)
      · exact Or.inr ⟨x, y, z⟩

theorem unionWith_spec (s o : SS) (h : s.WF) :
    (s.unionWith o).WF ∧ (s.unionWith o).off = s.off ∧ (s.unionWith o).n = s.n ∧
    (∀ w, (s.unionWith o).mem w ↔ s.mem w ∨ (w ∈ o.toList ∧ s.off ≤ w ∧ w < s.off + (s.n : Int))) :=
  foldl_unionOne_spec o.toList s h

/-! ### snapshots -/

/-- restoring `snap` now would give a well-formed state denoting the set `G` -/
def SnapOK (s : SS) (snap : SSState) (G : Int → Prop) : Prop :=
  s.size ≤ snap.size ∧ (s.restoreState snap).WF ∧ ∀ w, (s.restoreState snap).mem w ↔ G w

theorem snapOK_save (s : SS) (h : s.WF) : SnapOK s s.saveState s.mem :=
  ⟨Nat.le_refl _, h, fun _ => Iff.rfl⟩

/-- a state change that keeps `n`, `off`, the permutation property and the *set* of values stored
below `snap.size`, and does not grow past `snap.size`, keeps the snapshot restorable -/
theorem snapOK_of_prefix (s s' : SS) (snap : SSState) (G : Int → Prop)
    (hn : s'.n = s.n) (ho : s'.off = s.off) (hp : s'.Perm) (hsz : s'.size ≤ snap.size)
    (hpre : ∀ w, s'.ind w < snap.size ↔ s.ind w < snap.size)
    (h : SnapOK s snap G) : SnapOK s' snap G := by
  obtain ⟨_, hwf, hm⟩ := h
  have hmem : ∀ w, (s'.restoreState snap).memI w ↔ (s.restoreState snap).memI w := by
    intro w
    unfold memI restoreState
    show w < s'.n ∧ s'.ind w < snap.size ↔ w < s.n ∧ s.ind w < snap.size
    rw [hn, hpre]
  refine ⟨hsz, ⟨?_, ?_, ?_⟩, ?_⟩
  · show snap.size ≤ s'.n; rw [hn]; exact hwf.size_le
  · exact hp
  · intro hne
    obtain ⟨a, b, c⟩ := hwf.bounds hne
    exact ⟨(hmem _).2 a, (hmem _).2 b, fun w hw => c w ((hmem w).1 hw)⟩
  · intro w
    rw [← hm w]
    unfold mem
    show s'.off ≤ w ∧ (s'.restoreState snap).memI (w - s'.off).toNat ↔ s.off ≤ w ∧ (s.restoreState snap).memI (w - s.off).toNat
    rw [ho, hmem]

theorem snapOK_remove' (s : SS) (v : Int) (snap : SSState) (G : Int → Prop) (h : s.WF)
    (hs : SnapOK s snap G) : SnapOK (s.remove' v) snap G := by
  obtain ⟨w1, w2, w3, w4, w5⟩ := remove'_spec s v h
  apply snapOK_of_prefix s _ snap G w3 w2 w1.perm (by have := hs.1; omega) ?_ hs
  intro w
  unfold remove' remove
  by_cases hc : s.contains v = true
  · rw [if_pos hc]
    have hm := (contains_iff s v).1 hc
    show (s.removeI (v - s.off).toNat).ind w < _ ↔ _
    rw [(removeI_same s _).2.2.2.1]
    exact shrink_prefix s _ _ w h hm.2 hs.1
  · rw [if_neg hc]

theorem snapOK_foldl_remove' (l : List Int) (s : SS) (snap : SSState) (G : Int → Prop) (h : s.WF)
    (hs : SnapOK s snap G) : SnapOK (l.foldl remove' s) snap G := by
  induction l generalizing s with
  | nil => exact hs
  | cons a l ih =>
    simp only [List.foldl_cons]
    exact ih _ (remove'_spec s a h).1 (snapOK_remove' s a snap G h hs)

theorem snapOK_removeAll (s : SS) (snap : SSState) (G : Int → Prop)
    (hs : SnapOK s snap G) : SnapOK s.removeAll snap G :=
  ⟨Nat.zero_le _, hs.2.1, hs.2.2⟩

theorem snapOK_removeBelow (s : SS) (v : Int) (snap : SSState) (G : Int → Prop) (h : s.WF)
    (hs : SnapOK s snap G) : SnapOK (s.removeBelow v) snap G := by
  unfold removeBelow
  split
  · exact hs
  · split
    · exact snapOK_removeAll s snap G hs
    · exact snapOK_foldl_remove' _ s snap G h hs

theorem snapOK_removeAbove (s : SS) (v : Int) (snap : SSState) (G : Int → Prop) (h : s.WF)
    (hs : SnapOK s snap G) : SnapOK (s.removeAbove v) snap G := by
  unfold removeAbove
  split
  · exact hs
  · split
    · exact snapOK_removeAll s snap G hs
    · exact snapOK_foldl_remove' _ s snap G h hs

theorem snapOK_intersectWith (s o : SS) (snap : SSState) (G : Int → Prop) (h : s.WF)
    (hs : SnapOK s snap G) : SnapOK (s.intersectWith o) snap G :=
  snapOK_foldl_remove' _ s snap G h hs

theorem snapOK_diffWith (s o : SS) (snap : SSState) (G : Int → Prop) (h : s.WF)
    (hs : SnapOK s snap G) : SnapOK (s.diffWith o) snap G :=
  snapOK_foldl_remove' _ s snap G h hs

theorem snapOK_removeAllBut (s : SS) (v : Int) (snap : SSState) (G : Int → Prop) (h : s.WF)
    (hs : SnapOK s snap G) : SnapOK (s.removeAllBut v) snap G := by
  obtain ⟨w1, w2, w3, w4, w5⟩ := removeAllBut_spec s v h
  by_cases hc : s.contains v = true
  · apply snapOK_of_prefix s _ snap G w3 w2 w1.perm (by have := hs.1; omega) ?_ hs
    intro w
    unfold removeAllBut
    rw [if_pos hc]
    have hm := (contains_iff s v).1 hc
    obtain ⟨hoff, hvn, hvi⟩ := hm
    have h0n : 0 < s.n := by have := h.size_le; omega
    have hp0 := h.perm.1 0 h0n
    have hK := hs.1
    show upd (upd s.ind (v - s.off).toNat 0) (s.val 0) (s.ind (v - s.off).toNat) w < snap.size ↔ _
    simp only [upd]
    grind
  · unfold removeAllBut
    rw [if_neg hc]
    exact snapOK_removeAll s snap G hs

/-- restoring a restorable snapshot -/
theorem restore_spec (s : SS) (snap : SSState) (G : Int → Prop) (hs : SnapOK s snap G) :
    (s.restoreState snap).WF ∧ ∀ w, (s.restoreState snap).mem w ↔ G w := ⟨hs.2.1, hs.2.2⟩

/-- an older (larger) snapshot stays restorable after a restore -/
theorem snapOK_restore (s : SS) (snap snap2 : SSState) (G2 : Int → Prop)
    (hle : snap.size ≤ snap2.size) (hs2 : SnapOK s snap2 G2) :
    SnapOK (s.restoreState snap) snap2 G2 := ⟨hle, hs2.2.1, hs2.2.2⟩

/-! ### observers -/

theorem toList_length (s : SS) : s.toList.length = s.size := by simp [toList]

theorem toList_nodup (s : SS) (h : s.WF) : s.toList.Nodup := by
  unfold toList
  rw [List.nodup_iff_pairwise_ne, List.pairwise_map]
  apply List.Pairwise.imp_of_mem (R := fun a b => a ≠ b)
  · intro a b ha hb hab heq
    have han : a < s.n := by have := List.mem_range.1 ha; have := h.size_le; omega
    have hbn : b < s.n := by have := List.mem_range.1 hb; have := h.size_le; omega
    have h1 := h.perm.1 a han
    have h2 := h.perm.1 b hbn
    have : s.val a = s.val b := by omega
    apply hab
    rw [← h1.2, ← h2.2, this]
  · exact List.nodup_iff_pairwise_ne.1 List.nodup_range

theorem mem_complement (s : SS) (h : s.WF) (w : Int) :
    w ∈ s.complement ↔ (s.off ≤ w ∧ w < s.off + (s.n : Int)) ∧ ¬ s.mem w := by
  unfold complement mem memI
  simp only [List.mem_map, List.mem_range]
  constructor
  · rintro ⟨i, hi, rfl⟩
    have hin : s.size + i < s.n := by omega
    have := h.perm.1 _ hin
    have e : ((s.val (s.size + i) : Int) + s.off - s.off).toNat = s.val (s.size + i) := by omega
    refine ⟨by omega, ?_⟩
    rw [e, this.2]
    intro ⟨_, _, hh⟩; omega
  · intro ⟨⟨h1, h2⟩, hn⟩
    have hvn : (w - s.off).toNat < s.n := by omega
    have := h.perm.2 _ hvn
    have hge : s.size ≤ s.ind (w - s.off).toNat := by
      have : ¬ (s.ind (w - s.off).toNat < s.size) := fun hh => hn ⟨h1, hvn, hh⟩
      omega
    refine ⟨s.ind (w - s.off).toNat - s.size, by omega, ?_⟩
    have e : s.size + (s.ind (w - s.off).toNat - s.size) = s.ind (w - s.off).toNat := by omega
    rw [e, this.2]; omega

theorem complement_length (s : SS) : s.complement.length = s.n - s.size := by simp [complement]

end SS
end Selen

/-
Termination of the float bisection of `Model/FloatEngine.lean` at exact arithmetic (`Num Rat`).

`step_count` does not decrease along every branch in general (`C07_bisection_terminates_counterexample`
in Props/C07.lean: an interval of width 1.5 steps is split for ever).  It does on stores whose float
intervals have BOTH ENDS ON THE STEP GRID counted from zero (`min = k·step`, `max = l·step`), which is
what `try_set_min/max` produce: there the midpoint is a grid point strictly inside, the left branch
cuts the interval to `[min, mid]`, the right one to `[mid, max]`, and every propagator that only
shrinks keeps the grid.  Measure: `fsize` = Σ over the decision variables of the number of steps
`(max − min)/step` resp. of the number of values; depth fuel `2·fsize + 1` suffices
(`fsolve_depth_bound`).  On the grid every EVENT strictly shrinks a variable (`UG`, `ugRel`), so one
propagation needs at most `|agenda| + P·fsize + 1` calls of `prune` (`fpropagate_terminates`) and
`fsolve` ends in `sol` or `nosol` with the budgets `2·fsize + 1` / `pfNeed P fsize`
(`fsolve_terminates`).
-/
import SelenModel.Lemmas.FloatEngine
import SelenModel.Lemmas.Termination

namespace Selen
open Num

/-! ### integer arithmetic on the grid -/

namespace RatL

theorem intCast_mul_le_iff {a b : Int} {s : Rat} (hs : 0 < s) : (a : Rat) * s ≤ (b : Rat) * s ↔ a ≤ b := by
  constructor
  · intro h
    apply Classical.byContradiction
    intro hn
    have h1 : b + 1 ≤ a := by omega
    have h2 := intCast_mul_le (Rat.le_of_lt hs) h1
    have h3 : ((b + 1 : Int) : Rat) = (b : Rat) + 1 := by simp [Rat.intCast_add]
    rw [h3] at h2
    grind
  · intro h; exact intCast_mul_le (Rat.le_of_lt hs) h

/-- two grid points less than a step apart (in one direction) are ordered -/
theorem grid_le_of_lt_step {a b : Int} {s : Rat} (hs : 0 < s) (h : (a : Rat) * s < (b : Rat) * s + s) : a ≤ b := by
  apply Classical.byContradiction
  intro hn
  have h1 : b + 1 ≤ a := by omega
  have h2 := intCast_mul_le (Rat.le_of_lt hs) h1
  have h3 : ((b + 1 : Int) : Rat) = (b : Rat) + 1 := by simp [Rat.intCast_add]
  rw [h3] at h2
  grind

theorem sub_grid (a b : Int) (s : Rat) (hs : 0 < s) : ((a : Rat) * s - (b : Rat) * s) / s = ((a - b : Int) : Rat) := by
  have h1 : ((a - b : Int) : Rat) = (a : Rat) - (b : Rat) := by simp [Rat.intCast_sub]
  rw [h1]
  have : (a : Rat) * s - (b : Rat) * s = ((a : Rat) - (b : Rat)) * s := by grind
  rw [this]
  exact Rat.mul_div_cancel (Rat.ne_of_gt hs)

end RatL

/-! ### stores on the grid -/

/-- both ends of the interval are grid points (grid from zero), `min ≤ max`, positive step -/
def FI.OnGrid (iv : FI Rat) : Prop :=
  0 < iv.step ∧ ∃ k l : Int, k ≤ l ∧ iv.min = (k : Rat) * iv.step ∧ iv.max = (l : Rat) * iv.step

/-- kind `b`; a float interval on the grid; an integer domain non-empty and duplicate-free -/
def VGrid (b : Bool) : FVar Rat → Prop
  | .flt iv => b = true ∧ iv.OnGrid
  | .int d => b = false ∧ d ≠ [] ∧ d.Nodup

theorem FI.OnGrid.valid {iv : FI Rat} (h : iv.OnGrid) : iv.Valid := by
  obtain ⟨hs, k, l, hkl, hmin, hmax⟩ := h
  exact ⟨by rw [hmin, hmax]; exact RatL.intCast_mul_le (Rat.le_of_lt hs) hkl, hs⟩

theorem vgrid_class : GClass VGrid where
  flt := fun b iv h => ⟨h.1, h.2.valid⟩
  int := fun b d h => h.1
  filter := fun d f h hne => ⟨rfl, by intro h0; rw [h0] at hne; simp at hne, h.2.2.filter f⟩
  setMax := fun iv m h => by
    obtain ⟨_, hs, k, l, hkl, hmin, hmax⟩ := h
    refine ⟨rfl, hs, ?_⟩
    show ∃ k' l' : Int, k' ≤ l' ∧ iv.min = (k' : Rat) * iv.step ∧
      (if ((m / iv.step).floor : Rat) * iv.step < iv.min then iv.min else ((m / iv.step).floor : Rat) * iv.step) = (l' : Rat) * iv.step
    split
    · exact ⟨k, k, Int.le_refl _, hmin, hmin⟩
    · rename_i hn
      refine ⟨k, (m / iv.step).floor, ?_, hmin, rfl⟩
      rw [hmin] at hn
      exact (RatL.intCast_mul_le_iff hs).mp (Rat.not_lt.mp hn)
  setMaxMin := fun iv h => by
    obtain ⟨_, hs, k, l, hkl, hmin, hmax⟩ := h
    exact ⟨rfl, hs, k, k, Int.le_refl _, hmin, hmin⟩
  setMin := fun iv m h => by
    obtain ⟨_, hs, k, l, hkl, hmin, hmax⟩ := h
    refine ⟨rfl, hs, ?_⟩
    show ∃ k' l' : Int, k' ≤ l' ∧
      (if iv.max < ((m / iv.step).ceil : Rat) * iv.step then iv.max else ((m / iv.step).ceil : Rat) * iv.step) = (k' : Rat) * iv.step ∧
      iv.max = (l' : Rat) * iv.step
    split
    · exact ⟨l, l, Int.le_refl _, hmax, hmax⟩
    · rename_i hn
      refine ⟨(m / iv.step).ceil, l, ?_, rfl, hmax⟩
      rw [hmax] at hn
      exact (RatL.intCast_mul_le_iff hs).mp (Rat.not_lt.mp hn)

/-- kinds as `κ`, float intervals on the grid, integer domains non-empty and duplicate-free -/
abbrev GridK (κ : Nat → Bool) (st : FStore Rat) : Prop := GoodG VGrid κ st

/-- propagators that keep grid stores on the grid and only shrink: `FloatLinLe`, `FloatLinEq`, the
branching constraints (`shrinks_branches vgrid_class`) -/
abbrev GridShrinks (κ : Nat → Bool) (k : FPK Rat) : Prop := ShrinksG VGrid κ k

theorem gridShrinks_linLe (κ : Nat → Bool) (cs : List Rat) (xs : List Nat) (cst : Rat) : GridShrinks κ (.linLe cs xs cst) :=
  shrinksG_linLe vgrid_class κ cs xs cst
theorem gridShrinks_linEq (κ : Nat → Bool) (cs : List Rat) (xs : List Nat) (cst : Rat) : GridShrinks κ (.linEq cs xs cst) :=
  shrinksG_linEq vgrid_class κ cs xs cst

/-! ### the measure -/

/-- number of steps of a float interval / number of values of an integer domain -/
def vsize : FVar Rat → Nat
  | .flt iv => ((iv.max - iv.min) / iv.step).floor.toNat
  | .int d => d.length

def fsize (n : Nat) (st : FStore Rat) : Nat := ((List.range n).map (fun i => vsize (st i))).sum

theorem vsize_grid (iv : FI Rat) (hs : 0 < iv.step) (k l : Int) (hmin : iv.min = (k : Rat) * iv.step)
    (hmax : iv.max = (l : Rat) * iv.step) : vsize (.flt iv) = (l - k).toNat := by
  simp only [vsize]
  rw [hmin, hmax, RatL.sub_grid l k iv.step hs, Rat.floor_intCast]

theorem vsize_mono {v v' : FVar Rat} (hw : VWithin v v') (hs : ∀ iv, v = .flt iv → 0 < iv.step) : vsize v' ≤ vsize v := by
  cases v with
  | int d =>
    cases v' with
    | int d' => exact hw.length_le
    | flt iv' => exact absurd hw (by simp [VWithin])
  | flt iv =>
    cases v' with
    | int d' => exact absurd hw (by simp [VWithin])
    | flt iv' =>
      obtain ⟨hstep, hlo, hhi⟩ := hw
      have hs0 := hs iv rfl
      simp only [vsize]
      rw [hstep]
      apply Int.toNat_le_toNat
      apply Rat.floor_monotone
      apply RatL.div_le_div_right hs0
      grind

theorem fsize_mono (n : Nat) (κ : Nat → Bool) {st st' : FStore Rat} (hg : GridK κ st) (hw : Within st st') :
    fsize n st' ≤ fsize n st :=
  sum_map_le (fun i _ => vsize_mono (hw i) (fun iv hx => by
    have := hg i; rw [hx] at this; exact this.2.1))

theorem fsize_strict (n : Nat) (κ : Nat → Bool) {st st' : FStore Rat} (hg : GridK κ st) (hw : Within st st')
    (p : Nat) (hp : p < n) (hlt : vsize (st' p) < vsize (st p)) : fsize n st' < fsize n st :=
  sum_map_lt (fun i _ => vsize_mono (hw i) (fun iv hx => by
    have := hg i; rw [hx] at this; exact this.2.1)) p (List.mem_range.2 hp) hlt

/-! ### an unassigned grid interval has at least two steps; its midpoint is a grid point strictly inside -/

theorem roundHA_intCast_nonneg (N : Int) (h : 0 ≤ N) : RatImpl.roundHA (N : Rat) = N := by
  unfold RatImpl.roundHA
  have h0 : (0 : Rat) ≤ (N : Rat) := Rat.intCast_nonneg.mpr h
  rw [if_pos h0]
  have e : (N : Rat) + 1 / 2 = 1 / 2 + (N : Rat) := by grind
  rw [e, Rat.floor_add_intCast]
  have : (1 / 2 : Rat).floor = 0 := by decide +kernel
  omega

/-- the number of steps of a grid interval as the code computes it -/
theorem stepCount_grid (iv : FI Rat) (hs : 0 < iv.step) (k l : Int) (hkl : k ≤ l) (hmin : iv.min = (k : Rat) * iv.step)
    (hmax : iv.max = (l : Rat) * iv.step) :
    iv.stepCount = (RatImpl.clampInt 0 18446744073709551615 (l - k)).toNat := by
  have hle : iv.min ≤ iv.max := by rw [hmin, hmax]; exact RatL.intCast_mul_le (Rat.le_of_lt hs) hkl
  simp only [FI.stepCount, FI.isEmpty]
  num_simp
  have hne : ¬ iv.max < iv.min := Rat.not_lt.mpr hle
  simp only [hne, decide_false, Bool.false_eq_true, if_false, Num.toUsize]
  rw [hmin, hmax, RatL.sub_grid l k iv.step hs, roundHA_intCast_nonneg (l - k) (by omega), trunc_intCast]

theorem unassigned_grid (iv : FI Rat) (hs : 0 < iv.step) (k l : Int) (hkl : k ≤ l) (hmin : iv.min = (k : Rat) * iv.step)
    (hmax : iv.max = (l : Rat) * iv.step) (hu : (FVar.flt iv).isAssigned = false) : 2 ≤ l - k := by
  simp only [FVar.isAssigned, FI.isFixed, stepCount_grid iv hs k l hkl hmin hmax] at hu
  have hu := of_decide_eq_false hu
  apply Classical.byContradiction
  intro hn
  apply hu
  simp only [RatImpl.clampInt]
  split
  · simp
  · split <;> omega

/-- `FloatInterval::mid` of an unassigned grid interval: `(k + H)·step` with `1 ≤ H ≤ (l − k) − 1` -/
theorem mid_grid (iv : FI Rat) (hs : 0 < iv.step) (k l : Int) (hkl : k ≤ l) (hmin : iv.min = (k : Rat) * iv.step)
    (hmax : iv.max = (l : Rat) * iv.step) (hu : (FVar.flt iv).isAssigned = false) :
    ∃ H : Int, 1 ≤ H ∧ H ≤ l - k - 1 ∧ iv.mid = some (((k + H : Int) : Rat) * iv.step) := by
  have hN := unassigned_grid iv hs k l hkl hmin hmax hu
  have hle : iv.min ≤ iv.max := by rw [hmin, hmax]; exact RatL.intCast_mul_le (Rat.le_of_lt hs) hkl
  have hfix : iv.isFixed = false := hu
  have hne : ¬ iv.max < iv.min := Rat.not_lt.mpr hle
  -- the rounded half width
  have hq : (iv.min + (iv.max - iv.min) / 2 - iv.min) / iv.step = ((l - k : Int) : Rat) / 2 := by
    have h1 : iv.min + (iv.max - iv.min) / 2 - iv.min = (iv.max - iv.min) / 2 := by grind
    rw [h1, ← RatL.sub_grid l k iv.step hs, hmin, hmax]
    simp only [Rat.div_def]
    grind
  have hq0 : (0 : Rat) ≤ ((l - k : Int) : Rat) / 2 := by
    have : (0 : Rat) ≤ ((l - k : Int) : Rat) := Rat.intCast_nonneg.mpr (by omega)
    rw [RatL.le_div_iff (by decide +kernel)]; grind
  have hH1 : 1 ≤ RatImpl.roundHA (((l - k : Int) : Rat) / 2) := by
    simp only [RatImpl.roundHA, hq0, if_true]
    rw [Rat.le_floor_iff]
    have : ((2 : Int) : Rat) ≤ ((l - k : Int) : Rat) := RatL.intCast_le hN
    have h2 : ((2 : Int) : Rat) = 2 := by simp
    have h3 : ((l - k : Int) : Rat) / 2 * 2 = ((l - k : Int) : Rat) := Rat.div_mul_cancel (by decide +kernel)
    have h1 : ((1 : Int) : Rat) = 1 := by simp
    grind
  have hH2 : RatImpl.roundHA (((l - k : Int) : Rat) / 2) ≤ l - k - 1 := by
    simp only [RatImpl.roundHA, hq0, if_true]
    have : ((((l - k : Int) : Rat) / 2 + 1 / 2).floor) < (l - k) := by
      rw [Rat.floor_lt_iff]
      have : ((2 : Int) : Rat) ≤ ((l - k : Int) : Rat) := RatL.intCast_le hN
      have h2 : ((2 : Int) : Rat) = 2 := by simp
      have h3 : ((l - k : Int) : Rat) / 2 * 2 = ((l - k : Int) : Rat) := Rat.div_mul_cancel (by decide +kernel)
      grind
    omega
  obtain ⟨H, hH⟩ : ∃ H, RatImpl.roundHA (((l - k : Int) : Rat) / 2) = H := ⟨_, rfl⟩
  rw [hH] at hH1 hH2
  refine ⟨H, hH1, hH2, ?_⟩
  simp only [FI.mid, FI.isEmpty, hfix, FI.roundToStep]
  num_simp
  simp only [hne, decide_false, Bool.false_eq_true, if_false, Bool.false_and, hq, hH]
  have e : iv.min + (H : Rat) * iv.step = ((k + H : Int) : Rat) * iv.step := by
    rw [hmin]; simp only [Rat.intCast_add]; grind
  have g1 : ¬ (iv.min + (H : Rat) * iv.step < iv.min) := by
    have h0 : (0 : Rat) ≤ (H : Rat) := Rat.intCast_nonneg.mpr (by omega)
    have := Rat.mul_nonneg h0 (Rat.le_of_lt hs)
    grind
  have g2 : ¬ (iv.max < iv.min + (H : Rat) * iv.step) := by
    rw [e, hmax]
    exact Rat.not_lt.mpr (RatL.intCast_mul_le (Rat.le_of_lt hs) (by omega))
  rw [e] at g1 g2
  simp only [hle, e, g1, g2, decide_true, decide_false, if_true, Bool.false_eq_true, if_false]

/-! ### a store at which a branch constraint is stable has lost part of the pivot's domain -/

theorem branchL_prune' (p : Nat) (mid : FVal Rat) (c c' : FCtx Rat) (h : (branchL p mid).prune c = some c') :
    ∃ r, c.trySetMax p mid = some (c', r) ∧ (FView.minRaw c'.st (.var p)).vle mid = true := by
  simp only [branchL, FPK.prune, FView.maxRaw_const, FView.trySetMax, FView.trySetMin] at h
  split at h; · simp at h
  rename_i c1 r1 h1
  simp only [Option.map_eq_some_iff] at h
  obtain ⟨⟨c2, r2⟩, h2, rfl⟩ := h
  by_cases hc : (FView.minRaw c1.st (FView.var p)).vle mid = true
  · rw [if_pos hc] at h2; simp at h2; obtain ⟨rfl, _⟩ := h2; exact ⟨r1, h1, hc⟩
  · rw [if_neg hc] at h2; simp at h2

theorem branchR_prune' (p : Nat) (mid : FVal Rat) (c c' : FCtx Rat) (h : (branchR p mid).prune c = some c') :
    (FView.nextTarget c.st (.const mid) (FView.maxRaw c.st (.var p))).vge mid = true ∧
    ∃ r, c.trySetMin p (FView.minRaw c.st (.next (.const mid))) = some (c', r) := by
  simp only [branchR, FPK.prune, FView.trySetMax, FView.trySetMin] at h
  split at h; · simp at h
  rename_i c1 r1 h1
  simp only [Option.map_eq_some_iff] at h
  obtain ⟨⟨c2, r2⟩, h2, rfl⟩ := h
  by_cases hc : (FView.nextTarget c.st (FView.const mid) (FView.maxRaw c.st (FView.var p))).vge mid = true
  · rw [if_pos hc] at h1; simp at h1; obtain ⟨rfl, _⟩ := h1; exact ⟨hc, r2, h2⟩
  · rw [if_neg hc] at h1; simp at h1

/-- what `Within` and the grid say about the pivot's interval in a later store -/
theorem later_grid (κ : Nat → Bool) (st st' : FStore Rat) (p : Nat) (iv : FI Rat) (hx : st p = .flt iv)
    (hs0 : 0 < iv.step) (k l : Int) (hmin : iv.min = (k : Rat) * iv.step) (hmax : iv.max = (l : Rat) * iv.step)
    (hw : Within st st') (hg' : GridK κ st') :
    ∃ iv' k' l', st' p = .flt iv' ∧ iv'.step = iv.step ∧ k ≤ k' ∧ k' ≤ l' ∧ l' ≤ l ∧
      iv'.min = (k' : Rat) * iv.step ∧ iv'.max = (l' : Rat) * iv.step := by
  have w := hw p
  have g := hg' p
  rw [hx] at w
  cases hx' : st' p with
  | int d => rw [hx'] at w; exact absurd w (by simp [VWithin])
  | flt iv' =>
    rw [hx'] at w g
    obtain ⟨hstep, hlo, hhi⟩ := w
    obtain ⟨_, _, k', l', hkl', hmin', hmax'⟩ := g
    rw [hstep] at hmin' hmax'
    refine ⟨iv', k', l', rfl, hstep, ?_, hkl', ?_, hmin', hmax'⟩
    · rw [hmin, hmin'] at hlo; exact (RatL.intCast_mul_le_iff hs0).mp hlo
    · rw [hmax, hmax'] at hhi; exact (RatL.intCast_mul_le_iff hs0).mp hhi

/-- left branch of a float pivot: at a later grid store where `pivot <= mid` is stable the pivot has
fewer steps -/
theorem cut_left_f (κ : Nat → Bool) (st st' : FStore Rat) (p : Nat) (iv : FI Rat) (hx : st p = .flt iv) (hgr : iv.OnGrid)
    (hu : (st p).isAssigned = false) (m : Rat) (hm : iv.mid = some m) (hw : Within st st') (hg' : GridK κ st')
    (hs : FStable (branchL p (.f m)) st') : vsize (st' p) < vsize (st p) := by
  obtain ⟨hs0, k, l, hkl, hmin, hmax⟩ := hgr
  rw [hx] at hu
  obtain ⟨H, hH1, hH2, hmid⟩ := mid_grid iv hs0 k l hkl hmin hmax hu
  rw [hm] at hmid
  have hmv : m = ((k + H : Int) : Rat) * iv.step := Option.some.inj hmid
  obtain ⟨iv', k', l', hx', hstep, hkk', hkl', hll', hmin', hmax'⟩ :=
    later_grid κ st st' p iv hx hs0 k l hmin hmax hw hg'
  have hs0' : 0 < iv'.step := by rw [hstep]; exact hs0
  rw [hx, hx', vsize_grid iv hs0 k l hmin hmax, vsize_grid iv' hs0' k' l' (by rw [hstep]; exact hmin') (by rw [hstep]; exact hmax')]
  obtain ⟨c', hc', hev⟩ := hs
  obtain ⟨r, hr, hvle⟩ := branchL_prune' p _ _ c' hc'
  have hv' : iv'.Valid := ⟨by rw [hmin', hmax']; exact RatL.intCast_mul_le (Rat.le_of_lt hs0) hkl', hs0'⟩
  simp only [FCtx.trySetMax, hx'] at hr
  have sp := FCtx.fltSetMax_spec { st := st', ev := [] } p iv' m hv'
  rw [hr] at sp
  rcases sp with ⟨rfl, _, hcond⟩ | ⟨rfl, _, _, _, _⟩ | ⟨nm, rfl, _, _, _, _, _, _, _⟩
  · -- nothing changed: the conditions of the no-op branches
    have hminle : iv'.min ≤ m := by
      simp only [FView.minRaw_var, FStore.vmin, hx', FVal.vle, FVal.toF] at hvle
      num_simp at hvle
      exact of_decide_eq_true hvle
    rw [hstep] at hcond
    rcases hcond with h1 | ⟨h1, _⟩ | ⟨h1, _⟩
    · have : l' ≤ k + H := by
        apply RatL.grid_le_of_lt_step hs0
        rw [← hmax', ← hmv]; grind
      omega
    · exact absurd hminle (Rat.not_le.mpr h1)
    · have : l' ≤ k' := by
        apply RatL.grid_le_of_lt_step hs0
        rw [← hmax', ← hmin']; grind
      omega
  · simp at hev
  · simp at hev

/-- right branch of a float pivot -/
theorem cut_right_f (κ : Nat → Bool) (st st' : FStore Rat) (p : Nat) (iv : FI Rat) (hx : st p = .flt iv) (hgr : iv.OnGrid)
    (hu : (st p).isAssigned = false) (m : Rat) (hm : iv.mid = some m) (hw : Within st st') (hg' : GridK κ st')
    (hs : FStable (branchR p (.f m)) st') : vsize (st' p) < vsize (st p) := by
  obtain ⟨hs0, k, l, hkl, hmin, hmax⟩ := hgr
  rw [hx] at hu
  obtain ⟨H, hH1, hH2, hmid⟩ := mid_grid iv hs0 k l hkl hmin hmax hu
  rw [hm] at hmid
  have hmv : m = ((k + H : Int) : Rat) * iv.step := Option.some.inj hmid
  obtain ⟨iv', k', l', hx', hstep, hkk', hkl', hll', hmin', hmax'⟩ :=
    later_grid κ st st' p iv hx hs0 k l hmin hmax hw hg'
  have hs0' : 0 < iv'.step := by rw [hstep]; exact hs0
  rw [hx, hx', vsize_grid iv hs0 k l hmin hmax, vsize_grid iv' hs0' k' l' (by rw [hstep]; exact hmin') (by rw [hstep]; exact hmax')]
  obtain ⟨c', hc', hev⟩ := hs
  obtain ⟨hge, r, hr⟩ := branchR_prune' p _ _ c' hc'
  have hv' : iv'.Valid := ⟨by rw [hmin', hmax']; exact RatL.intCast_mul_le (Rat.le_of_lt hs0) hkl', hs0'⟩
  rw [FView.minRaw_next_const_f] at hr
  simp only [FCtx.trySetMin, hx'] at hr
  have hmaxge : m ≤ iv'.max := by
    simp only [FView.maxRaw_var, FStore.vmax, hx', FView.nextTarget, FView.ivOf, FView.underlying, FView.isFloat, FVal.isF,
      if_true, FVal.vge, FVal.vle, FVal.toF] at hge
    num_simp at hge
    exact of_decide_eq_true hge
  have sp := FCtx.fltSetMin_spec { st := st', ev := [] } p iv' m hv'
  rw [hr] at sp
  rcases sp with ⟨rfl, _, hcond⟩ | ⟨nm, rfl, _, _, _, _, _, _, _⟩
  · rw [hstep] at hcond
    rcases hcond with h1 | ⟨h1, _⟩ | ⟨h1, _⟩
    · have : k + H ≤ k' := by
        apply RatL.grid_le_of_lt_step hs0
        rw [← hmin', ← hmv]; grind
      omega
    · exfalso; grind
    · have : l' ≤ k' := by
        apply RatL.grid_le_of_lt_step hs0
        rw [← hmax', ← hmin']; grind
      omega
  · simp at hev

/-! ### integer pivots -/

theorem foldl_sel_mem (f : Int → Int → Int) (hf : ∀ a b, f a b = a ∨ f a b = b) :
    ∀ (xs : List Int) (x : Int), xs.foldl f x ∈ x :: xs := by
  intro xs
  induction xs with
  | nil => intro x; simp
  | cons y ys ih =>
    intro x
    simp only [List.foldl_cons]
    have := ih (f x y)
    rcases List.mem_cons.1 this with h | h
    · rcases hf x y with e | e
      · rw [h, e]; simp
      · rw [h, e]; simp
    · simp [h]

theorem ilmin_mem (d : List Int) (hne : d ≠ []) : ilmin d ∈ d := by
  cases d with
  | nil => exact absurd rfl hne
  | cons x xs =>
    simp only [ilmin]
    exact foldl_sel_mem _ (fun a b => by by_cases h : b < a <;> simp [h]) xs x

theorem ilmax_mem (d : List Int) (hne : d ≠ []) : ilmax d ∈ d := by
  cases d with
  | nil => exact absurd rfl hne
  | cons x xs =>
    simp only [ilmax]
    exact foldl_sel_mem _ (fun a b => by by_cases h : a < b <;> simp [h]) xs x

/-- an unassigned duplicate-free non-empty integer domain has `min < max` -/
theorem ilmin_lt_ilmax (d : List Int) (hne : d ≠ []) (hnd : d.Nodup) (hu : (FVar.int d : FVar Rat).isAssigned = false) :
    ilmin d < ilmax d := by
  simp only [FVar.isAssigned, beq_eq_false_iff_ne, ne_eq] at hu
  match d, hne, hnd, hu with
  | [a], _, _, hu => simp at hu
  | a :: b :: rest, _, hnd, _ =>
    have hab : a ≠ b := by
      intro e; subst e
      simp at hnd
    have h1 := ilmin_le (a :: b :: rest) a (by simp)
    have h2 := ilmin_le (a :: b :: rest) b (by simp)
    have h3 := ilmax_ge (a :: b :: rest) a (by simp)
    have h4 := ilmax_ge (a :: b :: rest) b (by simp)
    omega

theorem later_int (κ : Nat → Bool) (st st' : FStore Rat) (p : Nat) (d : List Int) (hx : st p = .int d)
    (hw : Within st st') (hg' : GridK κ st') : ∃ d', st' p = .int d' ∧ d'.Sublist d ∧ d' ≠ [] := by
  have w := hw p
  have g := hg' p
  rw [hx] at w
  cases hx' : st' p with
  | flt iv => rw [hx'] at w; exact absurd w (by simp [VWithin])
  | int d' => rw [hx'] at w g; exact ⟨d', rfl, w, g.2.1⟩

/-- left branch of an integer pivot -/
theorem cut_left_i (κ : Nat → Bool) (st st' : FStore Rat) (p : Nat) (d : List Int) (hx : st p = .int d)
    (hne : d ≠ []) (hnd : d.Nodup) (hu : (st p).isAssigned = false) (hw : Within st st') (hg' : GridK κ st')
    (hs : FStable (branchL p (.i (ilmin d + (ilmax d - ilmin d) / 2))) st') : vsize (st' p) < vsize (st p) := by
  rw [hx] at hu
  have hlt := ilmin_lt_ilmax d hne hnd hu
  obtain ⟨d', hx', hsub, hne'⟩ := later_int κ st st' p d hx hw hg'
  rw [hx, hx']
  simp only [vsize]
  obtain ⟨c', hc', hev⟩ := hs
  obtain ⟨r, hr, _⟩ := branchL_prune' p _ _ c' hc'
  simp only [FCtx.trySetMax, hx', FCtx.intSetMax] at hr
  apply sublist_length_lt hsub (ilmax d) (ilmax_mem d hne)
  intro hmem
  have hge := ilmax_ge d' (ilmax d) hmem
  split at hr; · cases hr
  split at hr
  · split at hr; · cases hr
    simp only [Option.some.injEq, Prod.mk.injEq] at hr
    obtain ⟨rfl, _⟩ := hr
    simp at hev
  · omega

/-- right branch of an integer pivot -/
theorem cut_right_i (κ : Nat → Bool) (st st' : FStore Rat) (p : Nat) (d : List Int) (hx : st p = .int d)
    (hne : d ≠ []) (hnd : d.Nodup) (hu : (st p).isAssigned = false) (hw : Within st st') (hg' : GridK κ st')
    (hs : FStable (branchR p (.i (ilmin d + (ilmax d - ilmin d) / 2))) st') : vsize (st' p) < vsize (st p) := by
  rw [hx] at hu
  have hlt := ilmin_lt_ilmax d hne hnd hu
  obtain ⟨d', hx', hsub, hne'⟩ := later_int κ st st' p d hx hw hg'
  rw [hx, hx']
  simp only [vsize]
  obtain ⟨c', hc', hev⟩ := hs
  obtain ⟨_, r, hr⟩ := branchR_prune' p _ _ c' hc'
  rw [FView.minRaw_next_const_i] at hr
  simp only [FCtx.trySetMin, hx', FCtx.intSetMin] at hr
  apply sublist_length_lt hsub (ilmin d) (ilmin_mem d hne)
  intro hmem
  have hle := ilmin_le d' (ilmin d) hmem
  split at hr; · cases hr
  split at hr
  · split at hr; · cases hr
    simp only [Option.some.injEq, Prod.mk.injEq] at hr
    obtain ⟨rfl, _⟩ := hr
    simp at hev
  · omega

/-- **both branch constraints cut the pivot** (grid stores) -/
theorem branch_cuts (n : Nat) (κ : Nat → Bool) (st : FStore Rat) (hg : GridK κ st) (p : Nat)
    (hu : ffirstUnassigned n st = some p) (mid : FVal Rat) (hm : (st p).mid = some mid) (bp : FPK Rat)
    (hbp : bp = branchL p mid ∨ bp = branchR p mid) (st' : FStore Rat) (hw : Within st st') (hg' : GridK κ st')
    (hs : FStable bp st') : fsize n st' < fsize n st := by
  have hp : p < n ∧ (st p).isAssigned = false := by
    simp only [ffirstUnassigned] at hu
    have h1 := List.find?_some hu
    have h2 := List.mem_of_find?_eq_some hu
    exact ⟨List.mem_range.1 h2, by simpa using h1⟩
  apply fsize_strict n κ hg hw p hp.1
  have g := hg p
  cases hx : st p with
  | flt iv =>
    rw [hx] at g hm
    simp only [FVar.mid, Option.map_eq_some_iff] at hm
    obtain ⟨m, hm, rfl⟩ := hm
    rw [← hx]
    rcases hbp with rfl | rfl
    · exact cut_left_f κ st st' p iv hx g.2 hp.2 m hm hw hg' hs
    · exact cut_right_f κ st st' p iv hx g.2 hp.2 m hm hw hg' hs
  | int d =>
    rw [hx] at g hm
    have hne : d ≠ [] := g.2.1
    have hem : d.isEmpty = false := by cases d <;> simp_all
    simp only [FVar.mid, hem, Bool.false_eq_true, if_false, Option.some.injEq] at hm
    subst hm
    rw [← hx]
    rcases hbp with rfl | rfl
    · exact cut_left_i κ st st' p d hx hne g.2.2 hp.2 hw hg' hs
    · exact cut_right_i κ st st' p d hx hne g.2.2 hp.2 hw hg' hs

/-! ### the depth of the search -/

theorem nat_le_sum_of_mem : ∀ (l : List Nat) (a : Nat), a ∈ l → a ≤ l.sum := by
  intro l
  induction l with
  | nil => intro a h; cases h
  | cons b bs ih =>
    intro a h
    simp only [List.sum_cons]
    rcases List.mem_cons.1 h with rfl | h
    · omega
    · have := ih a h; omega

theorem fsize_pos_of_unassigned (n : Nat) (κ : Nat → Bool) (st : FStore Rat) (hg : GridK κ st) (p : Nat)
    (hu : ffirstUnassigned n st = some p) : 1 ≤ fsize n st := by
  have hp : p < n ∧ (st p).isAssigned = false := by
    simp only [ffirstUnassigned] at hu
    have h1 := List.find?_some hu
    have h2 := List.mem_of_find?_eq_some hu
    exact ⟨List.mem_range.1 h2, by simpa using h1⟩
  have hv : 1 ≤ vsize (st p) := by
    have g := hg p
    cases hx : st p with
    | flt iv =>
      rw [hx] at g hp
      obtain ⟨_, hs0, k, l, hkl, hmin, hmax⟩ := g
      have := unassigned_grid iv hs0 k l hkl hmin hmax hp.2
      rw [vsize_grid iv hs0 k l hmin hmax]; omega
    | int d =>
      rw [hx] at g
      simp only [vsize]
      have : d ≠ [] := g.2.1
      cases d with
      | nil => exact absurd rfl this
      | cons _ _ => simp
  have : vsize (st p) ≤ fsize n st := by
    simp only [fsize]
    exact nat_le_sum_of_mem _ _ (List.mem_map.2 ⟨p, List.mem_range.2 hp.1, rfl⟩)
  omega

/-- the run neither exhausted the depth fuel nor hit the `clamp` assertion of `FloatInterval::mid` -/
def FRes.Ends (r : FRes Rat) : Prop := r ≠ .fuel ∧ r ≠ .panic

theorem mid_some_of_grid (n : Nat) (κ : Nat → Bool) (st : FStore Rat) (hg : GridK κ st) (p : Nat)
    (hu : ffirstUnassigned n st = some p) : ∃ mid, (st p).mid = some mid := by
  have hp : (st p).isAssigned = false := by
    simp only [ffirstUnassigned] at hu
    simpa using List.find?_some hu
  have g := hg p
  cases hx : st p with
  | flt iv =>
    rw [hx] at g hp
    obtain ⟨_, hs0, k, l, hkl, hmin, hmax⟩ := g
    obtain ⟨H, _, _, hmid⟩ := mid_grid iv hs0 k l hkl hmin hmax hp
    exact ⟨.f (((k + H : Int) : Rat) * iv.step), by simp only [FVar.mid, hmid, Option.map]⟩
  | int d => exact ⟨_, rfl⟩

/-- **depth bound**: on grid stores, with propagators that keep the grid and only shrink, the depth
fuel `2·fsize + 1` is never exhausted (a propagation may still run out of its own fuel `pf`) and
`mid` never hits its assertion -/
theorem search_depth (n : Nat) (κ : Nat → Bool) (pol : Policy) (pf : Nat) :
    ∀ (fuel : Nat),
      (∀ (ps : List (FPK Rat)) (st : FStore Rat) (pc nc : Nat),
        (∀ k ∈ ps, GridShrinks κ k) → GridK κ st → (∀ k ∈ ps, FStable k st) → 2 * fsize n st + 1 ≤ fuel →
        (fexplore n pol pf fuel ps st pc nc).Ends) ∧
      (∀ (ps : List (FPK Rat)) (st : FStore Rat) (pc nc : Nat) (bp : FPK Rat),
        (∀ k ∈ ps, GridShrinks κ k) → GridShrinks κ bp → GridK κ st → (∀ k ∈ ps, FStable k st) →
        (∀ st', Within st st' → GridK κ st' → FStable bp st' → fsize n st' < fsize n st) →
        2 * fsize n st ≤ fuel → 1 ≤ fuel →
        (fbranchStep n pol pf fuel ps st pc nc bp).Ends) := by
  intro fuel
  induction fuel with
  | zero =>
    constructor
    · intro ps st pc nc _ _ _ h; omega
    · intro ps st pc nc bp _ _ _ _ _ _ h; omega
  | succ f ih =>
    constructor
    · intro ps st pc nc hsh hg hst hfuel
      rw [fexplore_succ]
      cases hu : ffirstUnassigned n st with
      | none => simp [FRes.Ends]
      | some pivot =>
        simp only
        obtain ⟨mid, hm⟩ := mid_some_of_grid n κ st hg pivot hu
        rw [hm]
        · simp only
          have hpos := fsize_pos_of_unassigned n κ st hg pivot hu
          obtain ⟨shL, shR⟩ := shrinks_branches vgrid_class κ st hg pivot mid hm
          have hL := ih.2 ps st pc (nc + 2) (branchL pivot mid) hsh shL hg hst
            (fun st' hw hg' hs => branch_cuts n κ st hg pivot hu mid hm _ (Or.inl rfl) st' hw hg' hs) (by omega) (by omega)
          have hR := ih.2 ps st pc (nc + 3) (branchR pivot mid) hsh shR hg hst
            (fun st' hw hg' hs => branch_cuts n κ st hg pivot hu mid hm _ (Or.inr rfl) st' hw hg' hs) (by omega) (by omega)
          cases hl : fbranchStep n pol pf f ps st pc (nc + 2) (branchL pivot mid) with
          | nosol => exact hR
          | fuel => rw [hl] at hL; exact absurd rfl hL.1
          | sol _ _ _ => simp [FRes.Ends]
          | pfuel => simp [FRes.Ends]
          | panic => rw [hl] at hL; exact absurd rfl hL.2
    · intro ps st pc nc bp hsh hbp hg hst hcut hfuel _
      rw [fbranchStep_succ]
      have hall : ∀ k ∈ ps ++ [bp], GridShrinks κ k := by
        intro k hk
        rcases List.mem_append.1 hk with hk | hk
        · exact hsh k hk
        · have : k = bp := by simpa using hk
          subst this; exact hbp
      cases hp : fpropagate n (ps ++ [bp]) pol pf [ps.length] st pc with
      | fail => simp [FRes.Ends]
      | fuel => simp [FRes.Ends]
      | ok st' pc1 =>
        simp only
        have inv := fpropagate_inv n (ps ++ [bp]) pol (fun s => GridK κ s ∧ Within st s)
          (fun k hk c c' hc hr => by
            obtain ⟨g, w⟩ := hall k hk c c' hr hc.1
            exact ⟨g, hc.2.trans w⟩) pf [ps.length] st pc st' pc1 ⟨hg, Within.refl _⟩ hp
        have fix := fpropagate_fixpoint n (ps ++ [bp]) pol pf [ps.length] st pc st' pc1 (fagendaInv_branch ps bp st hst) hp
        have hst' : ∀ k ∈ ps ++ [bp], FStable k st' := by
          intro k hk
          obtain ⟨p, hp'⟩ := mem_of_getElem?' hk
          exact fix p k hp'
        have hlt := hcut st' inv.2 inv.1 (hst' bp (by simp))
        cases hu : ffirstUnassigned n st' with
        | none => simp [FRes.Ends]
        | some q =>
          simp only
          exact ih.1 (ps ++ [bp]) st' pc1 nc hall inv.1 hst' (by omega)

/-- **fuel bound for `fsolve`**: with depth fuel `2·fsize n st0 + 1` (`fsize` = total number of
steps / values of the declared decision variables) the search never runs out of DEPTH fuel: it
answers `sol`, `nosol`, or a propagation exhausted its own step budget `pf` -/
theorem fsolve_depth_bound (n : Nat) (κ : Nat → Bool) (pol : Policy) (pf fuel : Nat) (ps : List (FPK Rat)) (st0 : FStore Rat)
    (hsh : ∀ k ∈ ps, GridShrinks κ k) (hg : GridK κ st0) (hfuel : 2 * fsize n st0 + 1 ≤ fuel) :
    (fsolve n pol pf fuel ps st0).Ends := by
  simp only [fsolve]
  cases hp : fpropagate n ps pol pf (List.range ps.length) st0 0 with
  | fail => simp [FRes.Ends]
  | fuel => simp [FRes.Ends]
  | ok st' pc1 =>
    simp only
    have inv := fpropagate_inv n ps pol (fun s => GridK κ s ∧ Within st0 s)
      (fun k hk c c' hc hr => by
        obtain ⟨g, w⟩ := hsh k hk c c' hr hc.1
        exact ⟨g, hc.2.trans w⟩) pf _ st0 0 st' pc1 ⟨hg, Within.refl _⟩ hp
    have fix := fpropagate_fixpoint n ps pol pf _ st0 0 st' pc1 (fagendaInv_all ps st0) hp
    have hst' : ∀ k ∈ ps, FStable k st' := by
      intro k hk
      obtain ⟨p, hp'⟩ := mem_of_getElem?' hk
      exact fix p k hp'
    have hle := fsize_mono n κ hg inv.2
    cases hu : ffirstUnassigned n st' with
    | none => simp [FRes.Ends]
    | some q =>
      simp only
      exact (search_depth n κ pol pf fuel).1 ps st' pc1 0 hsh inv.1 hst' (by omega)

/-! ### every event strictly shrinks a variable (grid stores)

On grid stores a successful bound update that raises an event removes at least one step of a float
interval (the new bound is a grid point different from the old one, also in the "quantization
mismatch" arm of `try_set_max`, which needs `max − min ≥ step/2`, i.e. `≥ step` on the grid) or at
least one value of an integer domain.  The tolerance arms raise no event. -/

namespace RatL
theorem intCast_mul_lt_iff {a b : Int} {s : Rat} (hs : 0 < s) : (a : Rat) * s < (b : Rat) * s ↔ a < b := by
  constructor
  · intro h
    apply Classical.byContradiction
    intro hn
    have := (intCast_mul_le_iff hs).mpr (show b ≤ a by omega)
    exact absurd h (Rat.not_lt.mpr this)
  · intro h
    apply Rat.not_le.mp
    intro hle
    have := (intCast_mul_le_iff hs).mp hle
    omega
theorem intCast_mul_inj {a b : Int} {s : Rat} (hs : 0 < s) (h : (a : Rat) * s = (b : Rat) * s) : a = b := by
  have h1 : a ≤ b := (intCast_mul_le_iff hs).mp (show (a : Rat) * s ≤ (b : Rat) * s by rw [h]; exact Rat.le_refl)
  have h2 : b ≤ a := (intCast_mul_le_iff hs).mp (show (b : Rat) * s ≤ (a : Rat) * s by rw [h]; exact Rat.le_refl)
  omega
end RatL

theorem vsize_mono_grid (κ : Nat → Bool) {st st' : FStore Rat} (hg : GridK κ st) (hw : Within st st') (i : Nat) :
    vsize (st' i) ≤ vsize (st i) :=
  vsize_mono (hw i) (fun iv hx => by have := hg i; rw [hx] at this; exact this.2.1)

/-- strictness: on a grid store, new events mean that some variable got strictly smaller -/
def UStr (κ : Nat → Bool) (c c' : FCtx Rat) : Prop :=
  GridK κ c.st → c'.ev ≠ c.ev → ∃ i, vsize (c'.st i) < vsize (c.st i)

/-- grid stores stay on the grid, domains only shrink, and an event strictly shrinks a variable -/
def UG (κ : Nat → Bool) (c c' : FCtx Rat) : Prop := USh VGrid κ c c' ∧ UStr κ c c'

theorem UG.refl (κ : Nat → Bool) (c : FCtx Rat) : UG κ c c := ⟨USh.refl κ c, fun _ h => absurd rfl h⟩

theorem UG.trans {κ : Nat → Bool} {a b c : FCtx Rat} (h1 : UG κ a b) (h2 : UG κ b c) : UG κ a c := by
  refine ⟨USh.trans h1.1 h2.1, ?_⟩
  intro hg hne
  obtain ⟨gb, wab⟩ := h1.1 hg
  obtain ⟨gc, wbc⟩ := h2.1 gb
  by_cases hb : b.ev = a.ev
  · obtain ⟨i, hi⟩ := h2.2 gb (by rw [hb]; exact hne)
    exact ⟨i, Nat.lt_of_lt_of_le hi (vsize_mono_grid κ hg wab i)⟩
  · obtain ⟨i, hi⟩ := h1.2 hg hb
    exact ⟨i, Nat.lt_of_le_of_lt (vsize_mono_grid κ gb wbc i) hi⟩

theorem ustr_int_upd (κ : Nat → Bool) (c : FCtx Rat) (i : Nat) (d : List Int) (f : Int → Bool) (ev : List Nat)
    (hd : c.st i = .int d) (w : Int) (hw : w ∈ d) (hf : f w = false) :
    UStr κ c { st := updF c.st i (.int (d.filter f)), ev := ev } := by
  intro _ _
  refine ⟨i, ?_⟩
  simp only [updF, if_true, hd, vsize]
  exact sublist_length_lt List.filter_sublist w hw (by simp [hf])

theorem intSetMax_ustr (κ : Nat → Bool) (c c' : FCtx Rat) (i : Nat) (d : List Int) (m : Int) (r : FVal Rat)
    (hd : c.st i = .int d) (h : c.intSetMax i d m = some (c', r)) : UStr κ c c' := by
  intro hg
  have g := hg i
  rw [hd] at g
  revert hg
  show UStr κ c c'
  simp only [FCtx.intSetMax] at h
  split at h; · cases h
  split at h
  · split at h; · cases h
    rename_i hlt _
    cases h
    exact ustr_int_upd κ c i d _ _ hd (ilmax d) (ilmax_mem d g.2.1) (by simpa using hlt)
  · cases h; exact fun _ hne => absurd rfl hne

theorem intSetMin_ustr (κ : Nat → Bool) (c c' : FCtx Rat) (i : Nat) (d : List Int) (m : Int) (r : FVal Rat)
    (hd : c.st i = .int d) (h : c.intSetMin i d m = some (c', r)) : UStr κ c c' := by
  intro hg
  have g := hg i
  rw [hd] at g
  revert hg
  show UStr κ c c'
  simp only [FCtx.intSetMin] at h
  split at h; · cases h
  split at h
  · split at h; · cases h
    rename_i hlt _
    cases h
    exact ustr_int_upd κ c i d _ _ hd (ilmin d) (ilmin_mem d g.2.1) (by simpa using hlt)
  · cases h; exact fun _ hne => absurd rfl hne

/-- a float interval on the grid whose maximum moved to a smaller grid point has fewer steps -/
theorem vsize_lt_of_max (iv iv' : FI Rat) (hg : iv.OnGrid) (hg' : iv'.OnGrid) (hs : iv'.step = iv.step)
    (hmin : iv'.min = iv.min) (hmax : iv'.max < iv.max) : vsize (.flt iv') < vsize (.flt iv) := by
  obtain ⟨hs0, k, l, hkl, hk, hl⟩ := hg
  obtain ⟨hs0', k', l', hkl', hk', hl'⟩ := hg'
  rw [hs] at hk' hl'
  rw [vsize_grid iv hs0 k l hk hl, vsize_grid iv' hs0' k' l' (by rw [hs]; exact hk') (by rw [hs]; exact hl')]
  have e : k' = k := RatL.intCast_mul_inj hs0 (by rw [← hk', ← hk, hmin])
  have : l' < l := (RatL.intCast_mul_lt_iff hs0).mp (by rw [← hl', ← hl]; exact hmax)
  omega

theorem vsize_lt_of_min (iv iv' : FI Rat) (hg : iv.OnGrid) (hg' : iv'.OnGrid) (hs : iv'.step = iv.step)
    (hmax : iv'.max = iv.max) (hmin : iv.min < iv'.min) : vsize (.flt iv') < vsize (.flt iv) := by
  obtain ⟨hs0, k, l, hkl, hk, hl⟩ := hg
  obtain ⟨hs0', k', l', hkl', hk', hl'⟩ := hg'
  rw [hs] at hk' hl'
  rw [vsize_grid iv hs0 k l hk hl, vsize_grid iv' hs0' k' l' (by rw [hs]; exact hk') (by rw [hs]; exact hl')]
  have e : l' = l := RatL.intCast_mul_inj hs0 (by rw [← hl', ← hl, hmax])
  have : k < k' := (RatL.intCast_mul_lt_iff hs0).mp (by rw [← hk', ← hk]; exact hmin)
  omega

theorem trySetMax_f_ustr (κ : Nat → Bool) (c c' : FCtx Rat) (i : Nat) (m : Rat) (r : FVal Rat)
    (h : c.trySetMax i (.f m) = some (c', r)) : UStr κ c c' := by
  cases hx : c.st i with
  | int d =>
    simp only [FCtx.trySetMax, hx] at h
    exact intSetMax_ustr κ c c' i d _ r hx h
  | flt iv =>
    intro hg
    have g := hg i
    rw [hx] at g
    obtain ⟨hb, hgr⟩ := g
    have hv := hgr.valid
    simp only [FCtx.trySetMax, hx] at h
    have s := FCtx.fltSetMax_spec c i iv m hv
    rw [h] at s
    rcases s with ⟨rfl, _, _⟩ | ⟨rfl, _, _, _, hwid⟩ | ⟨nm, rfl, _, _, _, _, hlt, _, hnm⟩
    · exact fun hne => absurd rfl hne
    · intro _
      refine ⟨i, ?_⟩
      simp only [updF, if_true, hx]
      have hg' : (VGrid true (.flt { iv with max := iv.min })) := vgrid_class.setMaxMin iv ⟨rfl, hgr⟩
      apply vsize_lt_of_max iv _ hgr hg'.2 rfl rfl
      show iv.min < iv.max
      -- on the grid `max − min ≥ step/2` forces `max > min`
      obtain ⟨hs0, k, l, hkl, hk, hl⟩ := hgr
      rw [hk, hl]
      apply (RatL.intCast_mul_lt_iff hs0).mpr
      apply Classical.byContradiction
      intro hn
      have : l = k := by omega
      subst this
      rw [hk, hl] at hwid
      grind
    · intro _
      refine ⟨i, ?_⟩
      simp only [updF, if_true, hx]
      have hg' := vgrid_class.setMax iv m ⟨rfl, hgr⟩
      rw [← hnm.2] at hg'
      exact vsize_lt_of_max iv _ hgr hg'.2 rfl rfl hlt

theorem trySetMin_f_ustr (κ : Nat → Bool) (c c' : FCtx Rat) (i : Nat) (m : Rat) (r : FVal Rat)
    (h : c.trySetMin i (.f m) = some (c', r)) : UStr κ c c' := by
  cases hx : c.st i with
  | int d =>
    simp only [FCtx.trySetMin, hx] at h
    exact intSetMin_ustr κ c c' i d _ r hx h
  | flt iv =>
    intro hg
    have g := hg i
    rw [hx] at g
    obtain ⟨hb, hgr⟩ := g
    have hv := hgr.valid
    simp only [FCtx.trySetMin, hx] at h
    have s := FCtx.fltSetMin_spec c i iv m hv
    rw [h] at s
    rcases s with ⟨rfl, _, _⟩ | ⟨nm, rfl, _, _, _, hlt, _, _, _, hnm⟩
    · exact fun hne => absurd rfl hne
    · intro _
      refine ⟨i, ?_⟩
      simp only [updF, if_true, hx]
      have hg' := vgrid_class.setMin iv m ⟨rfl, hgr⟩
      rw [← hnm] at hg'
      exact vsize_lt_of_min iv _ hgr hg'.2 rfl rfl hlt

theorem ugRel (κ : Nat → Bool) : StepRel κ (UG κ) where
  refl := UG.refl κ
  trans := UG.trans
  maxF := fun x m c c' r h => ⟨(ushRel vgrid_class κ).maxF x m c c' r h, trySetMax_f_ustr κ c c' x m r h⟩
  minF := fun x m c c' r h => ⟨(ushRel vgrid_class κ).minF x m c c' r h, trySetMin_f_ustr κ c c' x m r h⟩
  maxI := fun b hb k c c' r h => ⟨(ushRel vgrid_class κ).maxI b hb k c c' r h, fun hg => by
    obtain ⟨d, hd⟩ := goodG_int vgrid_class hg hb
    simp only [FCtx.trySetMax, hd] at h
    exact intSetMax_ustr κ c c' b d k r hd h hg⟩
  minI := fun b hb k c c' r h => ⟨(ushRel vgrid_class κ).minI b hb k c c' r h, fun hg => by
    obtain ⟨d, hd⟩ := goodG_int vgrid_class hg hb
    simp only [FCtx.trySetMin, hd] at h
    exact intSetMin_ustr κ c c' b d k r hd h hg⟩

/-- propagators under which grid stores stay on the grid, domains only shrink and every event
strictly shrinks a variable: all `FloatLin*` propagators (reified ones with an integer reification
variable) and the branching constraints -/
abbrev GridStrict (κ : Nat → Bool) (k : FPK Rat) : Prop := PruneRel (UG κ) k

theorem GridStrict.shrinks {κ : Nat → Bool} {k : FPK Rat} (h : GridStrict κ k) : GridShrinks κ k :=
  fun c c' e => (h c c' e).1

theorem gridStrict_linLe (κ : Nat → Bool) (cs : List Rat) (xs : List Nat) (cst : Rat) : GridStrict κ (.linLe cs xs cst) :=
  pruneRel_linLe (ugRel κ) cs xs cst
theorem gridStrict_linEq (κ : Nat → Bool) (cs : List Rat) (xs : List Nat) (cst : Rat) : GridStrict κ (.linEq cs xs cst) :=
  pruneRel_linEq (ugRel κ) cs xs cst
theorem gridStrict_linNe (κ : Nat → Bool) (cs : List Rat) (xs : List Nat) (cst : Rat) : GridStrict κ (.linNe cs xs cst) :=
  pruneRel_linNe (ugRel κ) cs xs cst
theorem gridStrict_linEqReif (κ : Nat → Bool) (cs : List Rat) (xs : List Nat) (cst : Rat) (b : Nat) (hb : κ b = false) :
    GridStrict κ (.linEqReif cs xs cst b) := pruneRel_linEqReif (ugRel κ) cs xs cst b hb
theorem gridStrict_linLeReif (κ : Nat → Bool) (cs : List Rat) (xs : List Nat) (cst : Rat) (b : Nat) (hb : κ b = false) :
    GridStrict κ (.linLeReif cs xs cst b) := pruneRel_linLeReif (ugRel κ) cs xs cst b hb
theorem gridStrict_linNeReif (κ : Nat → Bool) (cs : List Rat) (xs : List Nat) (cst : Rat) (b : Nat) (hb : κ b = false) :
    GridStrict κ (.linNeReif cs xs cst b) := pruneRel_linNeReif (ugRel κ) cs xs cst b hb

theorem gridStrict_branches (κ : Nat → Bool) (st : FStore Rat) (hg : GridK κ st) (p : Nat) (mid : FVal Rat)
    (hm : (st p).mid = some mid) : GridStrict κ (branchL p mid) ∧ GridStrict κ (branchR p mid) := by
  apply pruneRel_branches (ugRel κ)
  rcases mid_kind (st p) mid hm with ⟨iv, r, hx, rfl⟩ | ⟨d, z, hx, rfl⟩
  · exact Or.inl ⟨r, rfl⟩
  · right
    refine ⟨⟨z, rfl⟩, ?_⟩
    have := hg p; rw [hx] at this; exact this.1

/-! ### the propagation loop terminates -/

theorem qok_fevents (ps : List (FPK Rat)) (evs : List Nat) {q : List Nat} (h : QOK ps.length q) :
    QOK ps.length (evs.foldl (fun q v => scheduleAll q (fdeps ps v)) q) := by
  induction evs generalizing q with
  | nil => exact h
  | cons v evs ih =>
    simp only [List.foldl_cons]
    refine ih (qok_scheduleAll h _ (fun p hp => ?_))
    obtain ⟨k, hk, _⟩ := (mem_fdeps ps v p).1 hp
    apply Classical.byContradiction; intro hn
    rw [List.getElem?_eq_none (by omega)] at hk; cases hk

/-- every trigger variable of every propagator is one of the first `n` variables -/
def TrigBelow (n : Nat) (ps : List (FPK Rat)) : Prop := ∀ k ∈ ps, ∀ i ∈ k.triggers, i < n

/-- **propagation terminates** (grid stores): with `P` propagators, each of which keeps the grid,
only shrinks and shrinks strictly on every event, `|agenda| + P·fsize + 1` calls of `prune` suffice -/
theorem fpropagate_terminates (n : Nat) (κ : Nat → Bool) (ps : List (FPK Rat)) (pol : Policy)
    (hst : ∀ k ∈ ps, GridStrict κ k) (htr : TrigBelow n ps) :
    ∀ (fuel : Nat) (q : List Nat) (st : FStore Rat) (cnt : Nat), QOK ps.length q → GridK κ st →
      q.length + ps.length * fsize n st < fuel → fpropagate n ps pol fuel q st cnt ≠ .fuel := by
  intro fuel
  induction fuel with
  | zero => intro q st cnt _ _ h; omega
  | succ f ih =>
    intro q st cnt hq hg hf
    simp only [fpropagate]
    cases hpk : pol.pick q with
    | none => intro h; cases h
    | some pq =>
      obtain ⟨p, q'⟩ := pq
      simp only
      obtain ⟨hq', hlen⟩ := qok_pick hq hpk
      cases hk : ps[p]? with
      | none => exact ih q' st _ hq' hg (by omega)
      | some k =>
        simp only
        have hkm : k ∈ ps := List.mem_of_getElem? hk
        cases e : k.prune { st := st, ev := [] } with
        | none => intro h; cases h
        | some c =>
          simp only [FStore.ofArray_tab]
          obtain ⟨ush, ustr⟩ := hst k hkm _ c e
          obtain ⟨hg', hw⟩ := ush hg
          have hq'' := qok_fevents ps c.ev hq'
          apply ih _ c.st _ hq'' hg'
          by_cases hev : c.ev = []
          · rw [hev]
            simp only [List.foldl_nil]
            have := fsize_mono n κ hg hw
            have := Nat.mul_le_mul_left ps.length this
            omega
          · obtain ⟨i, hi⟩ := ustr hg hev
            obtain ⟨evs, hevs, hsub, hframe⟩ := FPK.prune_stepR k _ c e
            have hin : i < n := by
              apply htr k hkm i
              apply hsub i
              apply Classical.byContradiction
              intro hni
              have := hframe i hni
              simp only at this
              rw [this] at hi
              exact Nat.lt_irrefl _ hi
            have hs := fsize_strict n κ hg hw i hin hi
            have hb := nodup_bounded_length ps.length _ hq''.1 hq''.2
            have : ps.length * (fsize n c.st + 1) ≤ ps.length * fsize n st := Nat.mul_le_mul_left _ hs
            rw [Nat.mul_add, Nat.mul_one] at this
            omega

theorem qok_range (P : Nat) : QOK P (List.range P) :=
  ⟨List.nodup_range, fun _ hp => List.mem_range.1 hp⟩

/-! ### no propagation of the search exhausts the step budget -/

theorem pivot_lt (n : Nat) (st : FStore Rat) (p : Nat) (hu : ffirstUnassigned n st = some p) : p < n := by
  simp only [ffirstUnassigned] at hu
  exact List.mem_range.1 (List.mem_of_find?_eq_some hu)

theorem trigBelow_snoc {n : Nat} {ps : List (FPK Rat)} {bp : FPK Rat} (h : TrigBelow n ps) (hb : ∀ i ∈ bp.triggers, i < n) :
    TrigBelow n (ps ++ [bp]) := by
  intro k hk
  rcases List.mem_append.1 hk with hk | hk
  · exact h k hk
  · have : k = bp := by simpa using hk
    subst this; exact hb

theorem branch_triggers (p : Nat) (mid : FVal Rat) (i : Nat) :
    (i ∈ (branchL p mid).triggers → i = p) ∧ (i ∈ (branchR p mid).triggers → i = p) := by
  constructor <;> intro h <;> simpa [branchL, branchR, FPK.triggers, FView.underlying] using h

/-- along every path `(number of propagators) + fsize ≤ M` and `fsize ≤ S`; with `M·S + 1 < pf` no
propagation inside the search runs out of its budget -/
theorem search_no_pfuel (n : Nat) (κ : Nat → Bool) (pol : Policy) (pf M S : Nat) (hpf : M * S + 1 < pf) :
    ∀ (fuel : Nat),
      (∀ (ps : List (FPK Rat)) (st : FStore Rat) (pc nc : Nat),
        (∀ k ∈ ps, GridStrict κ k) → TrigBelow n ps → GridK κ st → (∀ k ∈ ps, FStable k st) →
        ps.length + fsize n st ≤ M → fsize n st ≤ S →
        fexplore n pol pf fuel ps st pc nc ≠ .pfuel) ∧
      (∀ (ps : List (FPK Rat)) (st : FStore Rat) (pc nc : Nat) (bp : FPK Rat),
        (∀ k ∈ ps, GridStrict κ k) → TrigBelow n ps → GridStrict κ bp → (∀ i ∈ bp.triggers, i < n) →
        GridK κ st → (∀ k ∈ ps, FStable k st) →
        (∀ st', Within st st' → GridK κ st' → FStable bp st' → fsize n st' < fsize n st) →
        ps.length + fsize n st ≤ M → fsize n st ≤ S → 1 ≤ fsize n st →
        fbranchStep n pol pf fuel ps st pc nc bp ≠ .pfuel) := by
  intro fuel
  induction fuel with
  | zero =>
    constructor
    · intro ps st pc nc _ _ _ _ _ _; rw [fexplore_zero]; simp
    · intro ps st pc nc bp _ _ _ _ _ _ _ _ _ _; rw [fbranchStep_zero]; simp
  | succ f ih =>
    constructor
    · intro ps st pc nc hsh htr hg hst hM hS
      rw [fexplore_succ]
      cases hu : ffirstUnassigned n st with
      | none => simp
      | some pivot =>
        simp only
        cases hm : (st pivot).mid with
        | none => simp
        | some mid =>
          simp only
          have hpos := fsize_pos_of_unassigned n κ st hg pivot hu
          have hpn := pivot_lt n st pivot hu
          obtain ⟨shL, shR⟩ := gridStrict_branches κ st hg pivot mid hm
          have hL := ih.2 ps st pc (nc + 2) (branchL pivot mid) hsh htr shL
            (fun i hi => by rw [(branch_triggers pivot mid i).1 hi]; exact hpn) hg hst
            (fun st' hw hg' hs => branch_cuts n κ st hg pivot hu mid hm _ (Or.inl rfl) st' hw hg' hs) hM hS hpos
          have hR := ih.2 ps st pc (nc + 3) (branchR pivot mid) hsh htr shR
            (fun i hi => by rw [(branch_triggers pivot mid i).2 hi]; exact hpn) hg hst
            (fun st' hw hg' hs => branch_cuts n κ st hg pivot hu mid hm _ (Or.inr rfl) st' hw hg' hs) hM hS hpos
          cases hl : fbranchStep n pol pf f ps st pc (nc + 2) (branchL pivot mid) with
          | nosol => exact hR
          | pfuel => exact absurd hl hL
          | sol _ _ _ => simp
          | fuel => simp
          | panic => simp
    · intro ps st pc nc bp hsh htr hbp hbtr hg hst hcut hM hS hpos
      rw [fbranchStep_succ]
      have hall : ∀ k ∈ ps ++ [bp], GridStrict κ k := by
        intro k hk
        rcases List.mem_append.1 hk with hk | hk
        · exact hsh k hk
        · have : k = bp := by simpa using hk
          subst this; exact hbp
      have htr' := trigBelow_snoc htr hbtr
      have hterm := fpropagate_terminates n κ (ps ++ [bp]) pol hall htr' pf [ps.length] st pc
        ⟨by simp, by intro p hp; have : p = ps.length := by simpa using hp
                     subst this; simp⟩ hg (by
          have h1 : (ps ++ [bp]).length ≤ M := by simp; omega
          have := Nat.mul_le_mul h1 hS
          simp only [List.length_singleton]
          omega)
      cases hp : fpropagate n (ps ++ [bp]) pol pf [ps.length] st pc with
      | fail => simp
      | fuel => exact absurd hp hterm
      | ok st' pc1 =>
        simp only
        have inv := fpropagate_inv n (ps ++ [bp]) pol (fun s => GridK κ s ∧ Within st s)
          (fun k hk c c' hc hr => by
            obtain ⟨g, w⟩ := (hall k hk c c' hr).1 hc.1
            exact ⟨g, hc.2.trans w⟩) pf [ps.length] st pc st' pc1 ⟨hg, Within.refl _⟩ hp
        have fix := fpropagate_fixpoint n (ps ++ [bp]) pol pf [ps.length] st pc st' pc1 (fagendaInv_branch ps bp st hst) hp
        have hst' : ∀ k ∈ ps ++ [bp], FStable k st' := by
          intro k hk
          obtain ⟨p, hp'⟩ := mem_of_getElem?' hk
          exact fix p k hp'
        have hlt := hcut st' inv.2 inv.1 (hst' bp (by simp))
        cases hu : ffirstUnassigned n st' with
        | none => simp
        | some q =>
          simp only
          exact ih.1 (ps ++ [bp]) st' pc1 nc hall htr' inv.1 hst' (by simp; omega) (by omega)

/-- a propagation budget that suffices for `fsolve` on a model with `P` propagators and total size `s` -/
def pfNeed (P s : Nat) : Nat := (P + s) * s + P + 2

/-- **`fsolve` terminates** (grid models): with depth fuel `≥ 2·fsize + 1` and propagation budget
`≥ pfNeed P fsize` the answer is `sol` or `nosol` -/
theorem fsolve_terminates (n : Nat) (κ : Nat → Bool) (pol : Policy) (pf fuel : Nat) (ps : List (FPK Rat)) (st0 : FStore Rat)
    (hsh : ∀ k ∈ ps, GridStrict κ k) (htr : TrigBelow n ps) (hg : GridK κ st0)
    (hfuel : 2 * fsize n st0 + 1 ≤ fuel) (hpf : pfNeed ps.length (fsize n st0) ≤ pf) :
    (fsolve n pol pf fuel ps st0).Ends ∧ fsolve n pol pf fuel ps st0 ≠ .pfuel := by
  refine ⟨fsolve_depth_bound n κ pol pf fuel ps st0 (fun k hk => (hsh k hk).shrinks) hg hfuel, ?_⟩
  simp only [pfNeed] at hpf
  simp only [fsolve]
  have hterm := fpropagate_terminates n κ ps pol hsh htr pf (List.range ps.length) st0 0 (qok_range _) hg (by
    simp only [List.length_range]
    have : ps.length * fsize n st0 ≤ (ps.length + fsize n st0) * fsize n st0 := Nat.mul_le_mul_right _ (by omega)
    omega)
  cases hp : fpropagate n ps pol pf (List.range ps.length) st0 0 with
  | fail => simp
  | fuel => exact absurd hp hterm
  | ok st' pc1 =>
    simp only
    have inv := fpropagate_inv n ps pol (fun s => GridK κ s ∧ Within st0 s)
      (fun k hk c c' hc hr => by
        obtain ⟨g, w⟩ := (hsh k hk c c' hr).1 hc.1
        exact ⟨g, hc.2.trans w⟩) pf _ st0 0 st' pc1 ⟨hg, Within.refl _⟩ hp
    have fix := fpropagate_fixpoint n ps pol pf _ st0 0 st' pc1 (fagendaInv_all ps st0) hp
    have hst' : ∀ k ∈ ps, FStable k st' := by
      intro k hk
      obtain ⟨p, hp'⟩ := mem_of_getElem?' hk
      exact fix p k hp'
    have hle := fsize_mono n κ hg inv.2
    cases hu : ffirstUnassigned n st' with
    | none => simp
    | some q =>
      simp only
      exact (search_no_pfuel n κ pol pf (ps.length + fsize n st0) (fsize n st0) (by omega) fuel).1 ps st' pc1 0
        hsh htr inv.1 hst' (by omega) hle

end Selen

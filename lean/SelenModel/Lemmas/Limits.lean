import SelenModel.Lemmas.Dfs
/-
Limits (C15): the limited engine as a fold over the unlimited event trace; the online version
`exploreL` the driver runs equals that fold; delivered solutions are a prefix of the unlimited
ones; a run in which no check fired delivers everything.
-/
namespace Selen

theorem check_done (fire : Nat → Nat → Bool) (s : LState) (h : s.done = true) : s.check fire = s := by
  simp [LState.check, h]

theorem stepEv_done (fire : Nat → Nat → Bool) (saf : Bool) (s : LState) (e : Ev) (h : s.done = true) :
    stepEv fire saf s e = s := by
  simp [stepEv, check_done fire s h, h]

theorem foldl_done (fire : Nat → Nat → Bool) (saf : Bool) (evs : List Ev) (s : LState) (h : s.done = true) :
    evs.foldl (stepEv fire saf) s = s := by
  induction evs with
  | nil => rfl
  | cons e evs ih => simp only [List.foldl_cons]; rw [stepEv_done fire saf s e h]; exact ih

/-- `done` is sticky -/
theorem check_done_mono (fire : Nat → Nat → Bool) (s : LState) (h : (s.check fire).done = false) : s.done = false := by
  cases hd : s.done with
  | false => rfl
  | true => rw [check_done fire s hd] at h; rw [hd] at h; cases h

theorem stepEv_done_mono (fire : Nat → Nat → Bool) (saf : Bool) (s : LState) (e : Ev)
    (h : (stepEv fire saf s e).done = false) : s.done = false := by
  cases hd : s.done with
  | false => rfl
  | true => rw [stepEv_done fire saf s e hd] at h; rw [hd] at h; cases h

theorem foldl_done_mono (fire : Nat → Nat → Bool) (saf : Bool) (evs : List Ev) (s : LState)
    (h : (evs.foldl (stepEv fire saf) s).done = false) : s.done = false := by
  cases hd : s.done with
  | false => rfl
  | true => rw [foldl_done fire saf evs s hd] at h; rw [hd] at h; cases h

/-! ### the online engine equals the fold -/

theorem exploreL_zero (n obj pol fire saf ps st best s) :
    exploreL n obj pol fire saf 0 ps st best s = (s, best, true) := by rw [exploreL]

theorem branchStepL_zero (n obj pol fire saf ps st best bp s) :
    branchStepL n obj pol fire saf 0 ps st best bp s = (s, best, true) := by rw [branchStepL]

theorem exploreL_succ (n obj pol fire saf f ps st best s) :
    exploreL n obj pol fire saf (f+1) ps st best s =
    if s.done then (s, best, false) else
    match firstUnassigned n st with
    | none => (s, best, false)
    | some pivot =>
      ((branchStepL n obj pol fire saf f ps st
          (branchStepL n obj pol fire saf f ps st best (.leq (.var pivot) (.const (splitMid (st pivot)))) s).2.1
          (.leq (.next (.const (splitMid (st pivot)))) (.var pivot))
          (branchStepL n obj pol fire saf f ps st best (.leq (.var pivot) (.const (splitMid (st pivot)))) s).1).1,
       (branchStepL n obj pol fire saf f ps st
          (branchStepL n obj pol fire saf f ps st best (.leq (.var pivot) (.const (splitMid (st pivot)))) s).2.1
          (.leq (.next (.const (splitMid (st pivot)))) (.var pivot))
          (branchStepL n obj pol fire saf f ps st best (.leq (.var pivot) (.const (splitMid (st pivot)))) s).1).2.1,
       (branchStepL n obj pol fire saf f ps st best (.leq (.var pivot) (.const (splitMid (st pivot)))) s).2.2 ||
       (branchStepL n obj pol fire saf f ps st
          (branchStepL n obj pol fire saf f ps st best (.leq (.var pivot) (.const (splitMid (st pivot)))) s).2.1
          (.leq (.next (.const (splitMid (st pivot)))) (.var pivot))
          (branchStepL n obj pol fire saf f ps st best (.leq (.var pivot) (.const (splitMid (st pivot)))) s).1).2.2) := by
  rw [exploreL]; rfl

theorem branchStepL_succ (n obj pol fire saf f ps st best bp s) :
    branchStepL n obj pol fire saf (f+1) ps st best bp s =
    if s.done then (s, best, false) else
    match propagate (ps ++ [bp] ++ modeProps obj best) pol (f+1)
            ((if (modeProps obj best).isEmpty then [] else [ps.length + 1]) ++ [ps.length]) st with
    | .fail => (s, best, false)
    | .fuel => (s, best, true)
    | .ok st' =>
      match firstUnassigned n st' with
      | none =>
        (stepEv fire saf s (.sol (solOf n st')),
         (match obj with | some o => some (o.minRaw st') | none => best), false)
      | some _ =>
        (stepEv fire saf
           (exploreL n obj pol fire saf f (ps ++ [bp] ++ modeProps obj best) st' best (stepEv fire saf s .push)).1 .pop,
         (exploreL n obj pol fire saf f (ps ++ [bp] ++ modeProps obj best) st' best (stepEv fire saf s .push)).2.1,
         (exploreL n obj pol fire saf f (ps ++ [bp] ++ modeProps obj best) st' best (stepEv fire saf s .push)).2.2) := by
  rw [branchStepL]; rfl

/-- **the online limited engine is the fold of the unlimited trace**; and as long as the run is
not cut, incumbent and fuel flag are those of the unlimited run -/
theorem exploreL_spec (n : Nat) (obj : Option IView) (pol : Policy) (fire : Nat → Nat → Bool) (saf : Bool) :
    ∀ (fuel : Nat),
      (∀ ps st best s,
        (exploreL n obj pol fire saf fuel ps st best s).1 =
          (explore n obj pol fuel ps st best).evs.foldl (stepEv fire saf) s ∧
        ((exploreL n obj pol fire saf fuel ps st best s).1.done = false →
          (exploreL n obj pol fire saf fuel ps st best s).2.1 = (explore n obj pol fuel ps st best).best ∧
          (exploreL n obj pol fire saf fuel ps st best s).2.2 = (explore n obj pol fuel ps st best).outOfFuel)) ∧
      (∀ ps st best bp s,
        (branchStepL n obj pol fire saf fuel ps st best bp s).1 =
          (branchStep n obj pol fuel ps st best bp).evs.foldl (stepEv fire saf) s ∧
        ((branchStepL n obj pol fire saf fuel ps st best bp s).1.done = false →
          (branchStepL n obj pol fire saf fuel ps st best bp s).2.1 = (branchStep n obj pol fuel ps st best bp).best ∧
          (branchStepL n obj pol fire saf fuel ps st best bp s).2.2 = (branchStep n obj pol fuel ps st best bp).outOfFuel)) := by
  intro fuel
  induction fuel with
  | zero =>
    constructor
    · intro ps st best s; rw [exploreL_zero, explore_zero]; exact ⟨rfl, fun _ => ⟨rfl, rfl⟩⟩
    · intro ps st best bp s; rw [branchStepL_zero, branchStep_zero]; exact ⟨rfl, fun _ => ⟨rfl, rfl⟩⟩
  | succ f ih =>
    obtain ⟨ihE, ihB⟩ := ih
    constructor
    · intro ps st best s
      rw [exploreL_succ, explore_succ]
      by_cases hd : s.done = true
      · rw [if_pos hd]
        refine ⟨(foldl_done fire saf _ s hd).symm, fun h => ?_⟩
        rw [hd] at h; cases h
      · rw [if_neg hd]
        cases hfu : firstUnassigned n st with
        | none => exact ⟨rfl, fun _ => ⟨rfl, rfl⟩⟩
        | some pivot =>
          simp only
          have hl := ihB ps st best (.leq (.var pivot) (.const (splitMid (st pivot)))) s
          generalize hL : branchStepL n obj pol fire saf f ps st best (.leq (.var pivot) (.const (splitMid (st pivot)))) s = L at hl ⊢
          generalize hLo : branchStep n obj pol f ps st best (.leq (.var pivot) (.const (splitMid (st pivot)))) = Lo at hl ⊢
          by_cases hld : L.1.done = true
          · -- the left branch was cut: the right branch does nothing
            have hr := ihB ps st L.2.1 (.leq (.next (.const (splitMid (st pivot)))) (.var pivot)) L.1
            constructor
            · rw [List.foldl_append, ← hl.1, foldl_done fire saf _ L.1 hld]
              rw [hr.1, foldl_done fire saf _ L.1 hld]
            · intro h
              rw [hr.1, foldl_done fire saf _ L.1 hld, hld] at h; cases h
          · have hld' : L.1.done = false := by simpa using hld
            obtain ⟨e1, e2⟩ := hl.2 hld'
            rw [e1]
            have hr := ihB ps st Lo.best (.leq (.next (.const (splitMid (st pivot)))) (.var pivot)) L.1
            constructor
            · rw [List.foldl_append, ← hl.1]; exact hr.1
            · intro h
              obtain ⟨g1, g2⟩ := hr.2 h
              exact ⟨g1, by rw [e2, g2]⟩
    · intro ps st best bp s
      rw [branchStepL_succ, branchStep_succ]
      by_cases hd : s.done = true
      · rw [if_pos hd]
        refine ⟨(foldl_done fire saf _ s hd).symm, fun h => ?_⟩
        rw [hd] at h; cases h
      · rw [if_neg hd]
        cases hpr : propagate (ps ++ [bp] ++ modeProps obj best) pol (f+1)
            ((if (modeProps obj best).isEmpty then [] else [ps.length + 1]) ++ [ps.length]) st with
        | fail => exact ⟨rfl, fun _ => ⟨rfl, rfl⟩⟩
        | fuel => exact ⟨rfl, fun _ => ⟨rfl, rfl⟩⟩
        | ok st' =>
          simp only
          cases hfu : firstUnassigned n st' with
          | none => exact ⟨rfl, fun _ => ⟨rfl, rfl⟩⟩
          | some pv =>
            simp only
            have he := ihE (ps ++ [bp] ++ modeProps obj best) st' best (stepEv fire saf s .push)
            generalize exploreL n obj pol fire saf f (ps ++ [bp] ++ modeProps obj best) st' best (stepEv fire saf s .push) = E at he ⊢
            constructor
            · rw [List.foldl_append, List.foldl_append]
              simp only [List.foldl_cons, List.foldl_nil]
              rw [he.1]
            · intro h
              have := stepEv_done_mono fire saf E.1 .pop h
              exact he.2 this

end Selen

namespace Selen

theorem check_acc (fire : Nat → Nat → Bool) (s : LState) : (s.check fire).acc = s.acc := by
  unfold LState.check; split
  · rfl
  · split
    · split <;> rfl
    · rfl

theorem check_stopped (fire : Nat → Nat → Bool) (s : LState) : (s.check fire).stopped = s.stopped := by
  unfold LState.check; split
  · rfl
  · split
    · split <;> rfl
    · rfl

theorem evsSols_cons_sol (v : List Int) (evs : List Ev) : evsSols (.sol v :: evs) = v :: evsSols evs := rfl
theorem evsSols_cons_push (evs : List Ev) : evsSols (.push :: evs) = evsSols evs := rfl
theorem evsSols_cons_pop (evs : List Ev) : evsSols (.pop :: evs) = evsSols evs := rfl

/-- **prefix**: whatever the limits do, the delivered assignments are a prefix of the unlimited ones -/
theorem foldl_prefix (fire : Nat → Nat → Bool) (saf : Bool) (evs : List Ev) (s : LState) :
    ∃ d, (evs.foldl (stepEv fire saf) s).acc.reverse = s.acc.reverse ++ d ∧ d <+: evsSols evs := by
  induction evs generalizing s with
  | nil => exact ⟨[], by simp, List.prefix_refl _⟩
  | cons e evs ih =>
    simp only [List.foldl_cons]
    by_cases hd : (s.check fire).done = true
    · have : stepEv fire saf s e = s.check fire := by simp [stepEv, hd]
      rw [this, foldl_done fire saf evs _ hd, check_acc]
      exact ⟨[], by simp, List.nil_prefix⟩
    · have hd' : (s.check fire).done = false := by simpa using hd
      cases e with
      | push =>
        have : stepEv fire saf s .push = { s.check fire with depth := (s.check fire).depth + 1 } := by simp [stepEv, hd']
        obtain ⟨d, h1, h2⟩ := ih (stepEv fire saf s .push)
        refine ⟨d, ?_, by rw [evsSols_cons_push]; exact h2⟩
        rw [h1, this]; simp only; rw [check_acc]
      | pop =>
        have : stepEv fire saf s .pop = { s.check fire with depth := (s.check fire).depth - 1, pend := true } := by simp [stepEv, hd']
        obtain ⟨d, h1, h2⟩ := ih (stepEv fire saf s .pop)
        refine ⟨d, ?_, by rw [evsSols_cons_pop]; exact h2⟩
        rw [h1, this]; simp only; rw [check_acc]
      | sol v =>
        have : stepEv fire saf s (.sol v) = { s.check fire with acc := v :: (s.check fire).acc, pend := true, stopped := saf } := by
          simp [stepEv, hd']
        obtain ⟨d, h1, h2⟩ := ih (stepEv fire saf s (.sol v))
        refine ⟨v :: d, ?_, by rw [evsSols_cons_sol]; exact List.cons_prefix_cons.2 ⟨rfl, h2⟩⟩
        rw [h1, this]; simp only; rw [check_acc]; simp

/-- when no check fired (and the run is not the stop-at-first one) everything is delivered -/
theorem foldl_complete (fire : Nat → Nat → Bool) (evs : List Ev) (s : LState) (hs : s.stopped = false)
    (hf : (evs.foldl (stepEv fire false) s).fired = false) :
    (evs.foldl (stepEv fire false) s).acc.reverse = s.acc.reverse ++ evsSols evs ∧
    (evs.foldl (stepEv fire false) s).stopped = false := by
  induction evs generalizing s with
  | nil => simp [evsSols, hs]
  | cons e evs ih =>
    simp only [List.foldl_cons] at hf ⊢
    by_cases hd : (s.check fire).done = true
    · exfalso
      have hst : stepEv fire false s e = s.check fire := by simp [stepEv, hd]
      rw [hst, foldl_done fire false evs _ hd] at hf
      have : (s.check fire).stopped = false := by rw [check_stopped]; exact hs
      simp [LState.done, hf, this] at hd
    · have hd' : (s.check fire).done = false := by simpa using hd
      have hcs : (s.check fire).stopped = false := by rw [check_stopped]; exact hs
      cases e with
      | push =>
        have hst : stepEv fire false s .push = { s.check fire with depth := (s.check fire).depth + 1 } := by simp [stepEv, hd']
        have := ih (stepEv fire false s .push) (by rw [hst]; exact hcs) hf
        rw [evsSols_cons_push]
        refine ⟨?_, this.2⟩
        rw [this.1, hst]; simp only; rw [check_acc]
      | pop =>
        have hst : stepEv fire false s .pop = { s.check fire with depth := (s.check fire).depth - 1, pend := true } := by simp [stepEv, hd']
        have := ih (stepEv fire false s .pop) (by rw [hst]; exact hcs) hf
        rw [evsSols_cons_pop]
        refine ⟨?_, this.2⟩
        rw [this.1, hst]; simp only; rw [check_acc]
      | sol v =>
        have hst : stepEv fire false s (.sol v) = { s.check fire with acc := v :: (s.check fire).acc, pend := true, stopped := false } := by
          simp [stepEv, hd']
        have := ih (stepEv fire false s (.sol v)) (by rw [hst]) hf
        rw [evsSols_cons_sol]
        refine ⟨?_, this.2⟩
        rw [this.1, hst]; simp only; rw [check_acc]; simp

/-- stop-at-first run in which no check fired: the first unlimited solution (if any) is delivered -/
theorem foldl_first (fire : Nat → Nat → Bool) (evs : List Ev) (s : LState) (hs : s.stopped = false)
    (hf : (evs.foldl (stepEv fire true) s).fired = false) :
    (evs.foldl (stepEv fire true) s).acc.reverse = s.acc.reverse ++ (evsSols evs).take 1 := by
  induction evs generalizing s with
  | nil => simp [evsSols]
  | cons e evs ih =>
    simp only [List.foldl_cons] at hf ⊢
    by_cases hd : (s.check fire).done = true
    · exfalso
      have hst : stepEv fire true s e = s.check fire := by simp [stepEv, hd]
      rw [hst, foldl_done fire true evs _ hd] at hf
      have : (s.check fire).stopped = false := by rw [check_stopped]; exact hs
      simp [LState.done, hf, this] at hd
    · have hd' : (s.check fire).done = false := by simpa using hd
      have hcs : (s.check fire).stopped = false := by rw [check_stopped]; exact hs
      cases e with
      | push =>
        have hst : stepEv fire true s .push = { s.check fire with depth := (s.check fire).depth + 1 } := by simp [stepEv, hd']
        have := ih (stepEv fire true s .push) (by rw [hst]; exact hcs) hf
        rw [evsSols_cons_push, this, hst]; simp only; rw [check_acc]
      | pop =>
        have hst : stepEv fire true s .pop = { s.check fire with depth := (s.check fire).depth - 1, pend := true } := by simp [stepEv, hd']
        have := ih (stepEv fire true s .pop) (by rw [hst]; exact hcs) hf
        rw [evsSols_cons_pop, this, hst]; simp only; rw [check_acc]
      | sol v =>
        have hst : stepEv fire true s (.sol v) = { s.check fire with acc := v :: (s.check fire).acc, pend := true, stopped := true } := by
          simp [stepEv, hd']
        have hdone : (stepEv fire true s (.sol v)).done = true := by rw [hst]; simp [LState.done]
        rw [foldl_done fire true evs _ hdone, evsSols_cons_sol, hst]
        simp only; rw [check_acc]; simp

theorem finish_delivered (fire : Nat → Nat → Bool) (s : LState) : (s.finish fire).delivered = s.acc.reverse := by
  simp [LState.finish, check_acc]

theorem finish_fired_mono (fire : Nat → Nat → Bool) (s : LState) (h : (s.finish fire).fired = false) : s.fired = false := by
  simp only [LState.finish] at h
  unfold LState.check at h
  split at h
  · exact h
  · split at h
    · split at h
      · cases h
      · exact h
    · exact h

end Selen

import SelenModel.Lemmas.Limits
import SelenModel.Model.Validate
/-
Determinism (C16): list models of the places where the Rust code keeps data in a
`HashMap`/`HashSet` (std `RandomState`: per-process, per-thread, per-map random SipHash keys, so
the iteration order is an arbitrary permutation that differs from run to run).

Every such container is modelled as a *list in arbitrary order*; a site is harmless when its
observable result is the same for every permutation of that list.  Sites of the pinned tree
(paths under /repo/src) and what is proved about them.

A. reached by solve / minimize / maximize / enumerate / validate — all order-blind:
* optimization/constraint_metadata.rs:239 `get_constraints_by_type`, :253 `get_all_constraint_ids`
  iterate the registry map, collect, **sort by id** (all other accesses are keyed)
  → `sort_perm_invariant`, `byType_perm_invariant`, `allIds_perm_invariant`.
* core/validation.rs:290 `fixed_values`, :291 `all_possible_values`, :351 `seen_vars`;
  constraints/props/alldiff.rs:211 `all_int_values` (`quick_feasibility_check`);
  constraints/gac_bitset.rs:253 `union_values` (size); constraints/props/mod.rs:338
  `alldiff_indices`: only `insert` / `contains` / `len`
  → `hsInsert_perm`, `insAll_perm`, `adScan_perm_invariant`, `adScanSh_eq` (the AllDifferent
  validation gives the same verdict even if an adversary reshuffles both sets at every step),
  `unionCount_perm_invariant`.
  core/validation.rs:248 iterates `variable_constraints` in hash order, but the loop body has no
  effect (dead).
* constraints/gac_bitset.rs:275 `for &value in &union_values { domain.remove(value) }`: a fold
  of removals in hash order, emptiness tested after the fold
  → `removeVals_eq` (closed form: set difference, "intersects"), `removeVals_perm_invariant`,
  `hallPass_perm_invariant`.
* maps that are only read and written by key: model/core.rs:836 `bounds_map` (bound inference;
  filled only for variables still unbounded after creation-time inference);
  lpsolver/csp_integration.rs:198 `var_to_lp_index`, :200 `constants` (`to_lp_problem`: rows and
  columns follow the `Vec`s); constraints/props/mod.rs:153 `derived_vars` (written, never read),
  :420 `connectivity_map`; `BitSetGAC.domains`, `SparseSetGAC.domains`, `HybridGAC.bitset_vars /
  sparseset_vars` as used by `HybridGAC::propagate_alldiff` (every loop follows the caller's
  slice) → `lookup_perm_invariant`, `mapInsert_perm`, `lookup_mapInsert`.
* clocks: `Instant` is read for statistics (`solve_time`, `init_time`, LP phase times) and for the
  timeout tests of the engine (search/mod.rs:618) and of the simplex loops only; memory limits use
  size estimates, not measurements → `runLimited_never` and `C16_no_clock_*`.

B. ORDER DEPENDENT, public API but called by no solving entry point:
* constraints/gac_hybrid.rs:479, :490 `Matching::find_maximum_matching` iterates
  `graph.variables()` = `var_domains.keys()` (:243); gac_sparseset.rs:156, :181 use the same
  iterator; the filter of `SparseSetAllDiff::propagate` depends on the matching found, so
  `SparseSetGAC::propagate_gac / propagate_alldiff / fast_gac_propagate` (:521, :541 iterate
  `domains`) return different domains for different key orders → `ssgac` below is a list model
  with the key order as a parameter; `Props/C16.lean` proves the counterexample.
* optimization/precision_propagator.rs:190 `create_precision_propagators` returns a `Vec` in
  `HashSet` order → `precProps`.
* iterators handed to the caller in hash order: gac_bitset.rs:299, gac_hybrid.rs:243, :986,
  gac_sparseset.rs:577 (`variables()`), gac_hybrid.rs:373 (`domain_union`, mixed representation);
  optimization/solution_integration.rs:194, :256 (which conversion error is reported first, order
  of the issue list) — no model, listed for completeness.
* order-blind although iterated: gac_sparseset.rs:514 (`any`), :670 (sum/min/max),
  optimization/precision_optimizer.rs:176 (count), optimization/subproblem_solving.rs:390, :404
  (copy into another map), solvers/sudoku.rs:743 (`visited`: insert / contains / remove).
-/
namespace Selen
namespace Determ

open List

/-! ### 1. sort after collect -/

/-- sorting with a total, transitive, antisymmetric order forgets the order of its input -/
theorem sort_perm_invariant {α : Type} (le : α → α → Bool)
    (trans : ∀ a b c, le a b = true → le b c = true → le a c = true)
    (total : ∀ a b, (le a b || le b a) = true)
    (antisymm : ∀ a b, le a b = true → le b a = true → a = b)
    {l l' : List α} (h : l.Perm l') : l.mergeSort le = l'.mergeSort le :=
  Perm.eq_of_pairwise (fun a b _ _ => antisymm a b)
    (pairwise_mergeSort trans total l) (pairwise_mergeSort trans total l')
    ((mergeSort_perm l le).trans (h.trans (mergeSort_perm l' le).symm))

def natLe (a b : Nat) : Bool := decide (a ≤ b)

theorem natLe_trans (a b c : Nat) : natLe a b = true → natLe b c = true → natLe a c = true := by
  simp only [natLe, decide_eq_true_eq]; omega

theorem natLe_total (a b : Nat) : (natLe a b || natLe b a) = true := by
  simp only [natLe, Bool.or_eq_true, decide_eq_true_eq]; omega

theorem natLe_antisymm (a b : Nat) : natLe a b = true → natLe b a = true → a = b := by
  simp only [natLe, decide_eq_true_eq]; omega

/-- one `(ConstraintId, ConstraintMetadata)` entry of the registry map: id, type code, variables -/
structure Entry where
  id : Nat
  ty : Nat
  vars : List Nat
deriving DecidableEq, Repr

/-- `get_constraints_by_type`: iterate (arbitrary order), filter, collect, `sort_by_key(id)` -/
def byType (entries : List Entry) (t : Nat) : List Nat :=
  ((entries.filter (fun e => e.ty == t)).map (·.id)).mergeSort natLe

/-- `get_all_constraint_ids`: `keys().collect()`, `sort_by_key(id)` -/
def allIds (entries : List Entry) : List Nat := (entries.map (·.id)).mergeSort natLe

theorem byType_perm_invariant {l l' : List Entry} (h : l.Perm l') (t : Nat) : byType l t = byType l' t :=
  sort_perm_invariant natLe natLe_trans natLe_total natLe_antisymm ((h.filter _).map _)

theorem allIds_perm_invariant {l l' : List Entry} (h : l.Perm l') : allIds l = allIds l' :=
  sort_perm_invariant natLe natLe_trans natLe_total natLe_antisymm (h.map _)

/-! ### 2. hash sets used through `insert` / `contains` / `len` only -/

/-- `HashSet::insert` on a list representation (new elements go anywhere: here, in front) -/
theorem hsInsert_perm {s s' : List Int} (h : s.Perm s') (x : Int) : (hsInsert s x).Perm (hsInsert s' x) := by
  unfold hsInsert
  by_cases hx : x ∈ s
  · rw [if_pos hx, if_pos (h.mem_iff.1 hx)]; exact h
  · rw [if_neg hx, if_neg (fun hc => hx (h.mem_iff.2 hc))]; exact h.cons x

/-- insert all values of a domain -/
theorem insAll_perm {s s' : List Int} (h : s.Perm s') (d : List Int) : (insAll s d).Perm (insAll s' d) := by
  induction d generalizing s s' with
  | nil => exact h
  | cons x d ih => exact ih (hsInsert_perm h x)

/-- the number of distinct values collected (`all_possible_values.len()`, `all_int_values.len()`,
`union_values.len()`) does not depend on the internal order at any point -/
theorem unionCount_perm_invariant {s s' : List Int} (h : s.Perm s') (ds : List (List Int)) :
    (ds.foldl insAll s).length = (ds.foldl insAll s').length := by
  have : ∀ (ds : List (List Int)) (s s' : List Int), s.Perm s' → (ds.foldl insAll s).Perm (ds.foldl insAll s') := by
    intro ds
    induction ds with
    | nil => intro s s' h; exact h
    | cons d ds ih => intro s s' h; exact ih _ _ (insAll_perm h d)
  exact (this ds s s' h).length_eq

theorem adScan_perm_invariant (n : Nat) (ds : List (Option (List Int))) :
    ∀ (fixed fixed' all all' : List Int), fixed.Perm fixed' → all.Perm all' →
      adScan n ds fixed all = adScan n ds fixed' all' := by
  induction ds with
  | nil =>
    intro fixed fixed' all all' _ ha
    simp only [adScan, ha.length_eq]
  | cons d ds ih =>
    intro fixed fixed' all all' hf ha
    cases d with
    | none => simp only [adScan]; exact ih _ _ _ _ hf ha
    | some d =>
      match d with
      | [] => simp only [adScan]; exact ih _ _ _ _ hf (insAll_perm ha _)
      | [v] =>
        simp only [adScan]
        by_cases hv : v ∈ fixed
        · rw [if_pos hv, if_pos (hf.mem_iff.1 hv)]
        · rw [if_neg hv, if_neg (fun hc => hv (hf.mem_iff.2 hc))]
          exact ih _ _ _ _ (hsInsert_perm hf v) (insAll_perm ha _)
      | a :: b :: r => simp only [adScan]; exact ih _ _ _ _ hf (insAll_perm ha _)

/-- an adversary that may reorder a set's internal list at every step -/
structure Shuffle where
  f : Nat → List Int → List Int
  perm : ∀ k l, (f k l).Perm l

def Shuffle.id : Shuffle := ⟨fun _ l => l, fun _ l => Perm.refl l⟩

/-- the scan with both sets reshuffled (by step number) before every variable -/
def adScanSh (sh : Shuffle) (n : Nat) : Nat → List (Option (List Int)) → List Int → List Int → ADVerdict
  | _, [], _, all => if all.length < n then .tooFew n all.length else .ok
  | k, none :: ds, fixed, all => adScanSh sh n (k+1) ds (sh.f (2*k) fixed) (sh.f (2*k+1) all)
  | k, some d :: ds, fixed, all =>
    let fixed := sh.f (2*k) fixed
    let all := sh.f (2*k+1) all
    match d with
    | [v] => if v ∈ fixed then .dupFixed v else adScanSh sh n (k+1) ds (hsInsert fixed v) (insAll all d)
    | _ => adScanSh sh n (k+1) ds fixed (insAll all d)

/-- the verdict of the AllDifferent validation is the same whatever the hash order is, at every
step: the reshuffled scan equals the plain one -/
theorem adScanSh_eq (sh : Shuffle) (n : Nat) (ds : List (Option (List Int))) :
    ∀ (k : Nat) (fixed fixed' all all' : List Int), fixed.Perm fixed' → all.Perm all' →
      adScanSh sh n k ds fixed all = adScan n ds fixed' all' := by
  induction ds with
  | nil =>
    intro k fixed fixed' all all' _ ha
    simp only [adScanSh, adScan, ha.length_eq]
  | cons d ds ih =>
    intro k fixed fixed' all all' hf ha
    have hf2 : (sh.f (2*k) fixed).Perm fixed' := (sh.perm _ _).trans hf
    have ha2 : (sh.f (2*k+1) all).Perm all' := (sh.perm _ _).trans ha
    cases d with
    | none => simp only [adScanSh, adScan]; exact ih _ _ _ _ _ hf2 ha2
    | some d =>
      match d with
      | [] => simp only [adScanSh, adScan]; exact ih _ _ _ _ _ hf2 (insAll_perm ha2 _)
      | [v] =>
        simp only [adScanSh, adScan]
        by_cases hv : v ∈ sh.f (2*k) fixed
        · rw [if_pos hv, if_pos (hf2.mem_iff.1 hv)]
        · rw [if_neg hv, if_neg (fun hc => hv (hf2.mem_iff.2 hc))]
          exact ih _ _ _ _ _ (hsInsert_perm hf2 v) (insAll_perm ha2 _)
      | a :: b :: r => simp only [adScanSh, adScan]; exact ih _ _ _ _ _ hf2 (insAll_perm ha2 _)

/-! ### 3. Hall pruning: a fold of removals over a hash set -/

/-- `for &value in &union_values { if domain.remove(value) { removed_any = true } }` on a domain
given as the list of its values: the new domain and `removed_any` -/
def removeVals (d : List Int) (u : List Int) : List Int × Bool :=
  u.foldl (fun (acc : List Int × Bool) v => if v ∈ acc.1 then (acc.1.filter (fun x => x != v), true) else acc) (d, false)

theorem removeVals_fold (u : List Int) : ∀ (d : List Int) (b : Bool),
    u.foldl (fun (acc : List Int × Bool) v => if v ∈ acc.1 then (acc.1.filter (fun x => x != v), true) else acc) (d, b)
      = (d.filter (fun x => !u.contains x), b || d.any (fun x => u.contains x)) := by
  induction u with
  | nil =>
    intro d b
    have h1 : d.filter (fun x => !([] : List Int).contains x) = d := filter_eq_self.2 (fun _ _ => rfl)
    have h2 : d.any (fun x => ([] : List Int).contains x) = false := by
      cases h : d.any (fun x => ([] : List Int).contains x) with
      | false => rfl
      | true => rw [any_eq_true] at h; obtain ⟨x, _, hx⟩ := h; simp at hx
    rw [foldl_nil, h1, h2, Bool.or_false]
  | cons v u ih =>
    intro d b
    simp only [foldl_cons]
    by_cases hv : v ∈ d
    · rw [if_pos hv, ih]
      congr 1
      · rw [filter_filter]
        apply filter_congr
        intro x _
        by_cases hx : x = v
        · subst hx; simp
        · simp [hx]
      · have : d.any (fun x => (v :: u).contains x) = true := by
          rw [any_eq_true]; exact ⟨v, hv, by simp⟩
        rw [this]; simp
    · rw [if_neg hv, ih]
      have hne : ∀ x ∈ d, x ≠ v := fun x hx hc => hv (hc ▸ hx)
      congr 1
      · apply filter_congr
        intro x hx
        simp [hne x hx]
      · have : d.any (fun x => (v :: u).contains x) = d.any (fun x => u.contains x) := by
          rw [Bool.eq_iff_iff, any_eq_true, any_eq_true]
          constructor
          · rintro ⟨x, hx, h⟩; exact ⟨x, hx, by simpa [hne x hx] using h⟩
          · rintro ⟨x, hx, h⟩; exact ⟨x, hx, by simpa [hne x hx] using h⟩
        rw [this]

/-- closed form: the domain minus the set, and whether they intersect -/
theorem removeVals_eq (d u : List Int) :
    removeVals d u = (d.filter (fun x => !u.contains x), d.any (fun x => u.contains x)) := by
  unfold removeVals; rw [removeVals_fold]; simp

/-- the fold of removals does not depend on the order in which the set is iterated -/
theorem removeVals_perm_invariant (d : List Int) {u u' : List Int} (h : u.Perm u') :
    removeVals d u = removeVals d u' := by
  rw [removeVals_eq, removeVals_eq]
  have : ∀ x, u.contains x = u'.contains x := fun x => h.contains_eq
  simp only [this]

/-- one Hall step of `propagate_hall_sets`: the variables (in the caller's slice order) with a
flag "belongs to the Hall subset"; `none` = a domain became empty (inconsistent), otherwise the
new domains and `changed` -/
def hallPass (u : List Int) : List (Bool × List Int) → Option (List (List Int) × Bool)
  | [] => some ([], false)
  | (true, d) :: rest => (hallPass u rest).map (fun r => (d :: r.1, r.2))
  | (false, d) :: rest =>
    let r := removeVals d u
    if r.2 && r.1.isEmpty then none
    else (hallPass u rest).map (fun q => (r.1 :: q.1, r.2 || q.2))

theorem hallPass_perm_invariant {u u' : List Int} (h : u.Perm u') (vs : List (Bool × List Int)) :
    hallPass u vs = hallPass u' vs := by
  induction vs with
  | nil => rfl
  | cons p vs ih =>
    obtain ⟨b, d⟩ := p
    cases b with
    | true => simp only [hallPass, ih]
    | false => simp only [hallPass, ih, removeVals_perm_invariant d h]

/-! ### 4. maps used through `get` / `insert` only -/

/-- `HashMap::insert` on an association list (overwrites) -/
def mapInsert (m : List (Nat × Int)) (k : Nat) (v : Int) : List (Nat × Int) :=
  (k, v) :: m.filter (fun p => p.1 != k)

/-- keyed lookup does not depend on the internal order (keys are distinct in a map) -/
theorem lookup_perm_invariant {m m' : List (Nat × Int)} (h : m.Perm m')
    (nd : (m.map (·.1)).Nodup) (k : Nat) : m.lookup k = m'.lookup k := by
  induction h with
  | nil => rfl
  | cons x _ ih =>
    obtain ⟨a, b⟩ := x
    simp only [map_cons, nodup_cons] at nd
    simp only [lookup_cons]
    rw [ih nd.2]
  | swap x y l =>
    obtain ⟨a, b⟩ := x
    obtain ⟨c, e⟩ := y
    simp only [map_cons, nodup_cons, mem_cons, not_or] at nd
    have hne : c ≠ a := nd.1.1
    simp only [lookup_cons]
    by_cases h1 : k = c
    · subst h1
      have : (k == a) = false := by simp [hne]
      simp [this]
    · have : (k == c) = false := by simp [h1]
      simp [this]
  | trans h1 _ ih1 ih2 =>
    rw [ih1 nd, ih2 ((h1.map _).nodup nd)]

theorem mapInsert_perm {m m' : List (Nat × Int)} (h : m.Perm m') (k : Nat) (v : Int) :
    (mapInsert m k v).Perm (mapInsert m' k v) := (h.filter _).cons _

theorem mapInsert_nodup {m : List (Nat × Int)} (nd : (m.map (·.1)).Nodup) (k : Nat) (v : Int) :
    ((mapInsert m k v).map (·.1)).Nodup := by
  unfold mapInsert
  simp only [map_cons, nodup_cons, mem_map, mem_filter, not_exists, not_and]
  refine ⟨?_, ?_⟩
  · intro p hp hk
    have := hp.2
    simp [hk] at this
  · exact (filter_sublist.map _).nodup nd

theorem lookup_filter_ne (m : List (Nat × Int)) (k k' : Nat) (h : k' ≠ k) :
    (m.filter (fun p => p.1 != k)).lookup k' = m.lookup k' := by
  induction m with
  | nil => rfl
  | cons p m ih =>
    obtain ⟨a, b⟩ := p
    by_cases ha : a = k
    · subst ha
      have h1 : (fun p : Nat × Int => p.1 != a) (a, b) = false := by simp
      rw [filter_cons_of_neg (by simp)]
      rw [ih, lookup_cons]
      have : (k' == a) = false := by simp [h]
      simp [this]
    · rw [filter_cons_of_pos (by simp [ha])]
      simp only [lookup_cons, ih]

/-- `get` after `insert` is a function update, for every internal order of the map -/
theorem lookup_mapInsert (m : List (Nat × Int)) (k k' : Nat) (v : Int) :
    (mapInsert m k v).lookup k' = if k' = k then some v else m.lookup k' := by
  unfold mapInsert
  by_cases h : k' = k
  · subst h; simp
  · rw [if_neg h, lookup_cons]
    have : (k' == k) = false := by simp [h]
    simp only [this]
    exact lookup_filter_ne m k k' h

/-! ### 5. the order-dependent site: `SparseSetGAC` / `Matching`

`ord` is the iteration order of `graph.var_domains.keys()` (a `HashMap`), the only hash-ordered
input; domains are lists of values in `domain_iter` order (ascending for the bit-set domains used
for small universes).  Values are natural numbers (the code shifts `1u128 << value`). -/

abbrev AMap := List (Nat × Nat)

def aput (m : AMap) (k v : Nat) : AMap := (k, v) :: m.filter (fun p => p.1 != k)
def adel (m : AMap) (k : Nat) : AMap := m.filter (fun p => p.1 != k)

/-- `Matching { var_to_val, val_to_var }` -/
structure Mt where
  v2x : AMap := []
  x2v : AMap := []
deriving DecidableEq, Repr

def Mt.addEdge (m : Mt) (var val : Nat) : Mt := ⟨aput m.v2x var val, aput m.x2v val var⟩
def Mt.removeEdge (m : Mt) (var val : Nat) : Mt := ⟨adel m.v2x var, adel m.x2v val⟩

/-- `apply_augmenting_path` (as written: it starts from `(start_var, end_val)`) -/
def applyPath (pv px : AMap) : Nat → Mt → Nat → Nat → Mt
  | 0, m, _, _ => m
  | f+1, m, curVar, curVal =>
    let m := m.addEdge curVar curVal
    match pv.lookup curVar with
    | none => m
    | some prevVal =>
      match px.lookup prevVal with
      | none => m
      | some prevVar => applyPath pv px f (m.removeEdge prevVar prevVal) prevVar prevVal

/-- BFS state of `find_augmenting_path_*` -/
structure Bfs where
  queue : List Nat
  visV : List Nat
  visX : List Nat
  pv : AMap := []
  px : AMap := []

/-- the inner loop over the values of the current variable: `inl m` = an augmenting path was
applied, `inr st` = go on with the queue -/
def scanVals (m : Mt) (start cur : Nat) : List Nat → Bfs → Mt ⊕ Bfs
  | [], st => .inr st
  | x :: xs, st =>
    if x ∈ st.visX then scanVals m start cur xs st
    else
      let st := { st with visX := x :: st.visX, px := aput st.px x cur }
      match m.x2v.lookup x with
      | none => .inl (applyPath st.pv st.px 64 m start x)
      | some mv =>
        if mv ∈ st.visV then scanVals m start cur xs st
        else scanVals m start cur xs
          { st with visV := mv :: st.visV, pv := aput st.pv mv x, queue := st.queue ++ [mv] }

def bfs (doms : List (List Nat)) (m : Mt) (start : Nat) : Nat → Bfs → Mt
  | 0, _ => m
  | f+1, st =>
    match st.queue with
    | [] => m
    | cur :: q =>
      match scanVals m start cur (doms.getD cur []) { st with queue := q } with
      | .inl m' => m'
      | .inr st' => bfs doms m start f st'

/-- `Matching::find_maximum_matching`: greedy pass over the assigned variables, then one
augmenting-path search per unmatched variable, both in key order `ord` -/
def maxMatching (ord : List Nat) (doms : List (List Nat)) : Mt :=
  let m1 := ord.foldl (fun (m : Mt) v =>
    match doms.getD v [] with
    | [x] => if (m.x2v.lookup x).isNone then m.addEdge v x else m
    | _ => m) {}
  ord.foldl (fun (m : Mt) v =>
    if (m.v2x.lookup v).isSome then m
    else bfs doms m v (doms.length + 1) { queue := [v], visV := [v], visX := [] }) m1

/-- edges of `build_merged_graph`: `var → target` when `target ≠ var` can take `var`'s matched value -/
def edges (doms : List (List Nat)) (m : Mt) : List (Nat × Nat) :=
  (List.range doms.length).flatMap (fun v =>
    match m.v2x.lookup v with
    | none => []
    | some x => ((List.range doms.length).filter (fun t => t != v && (doms.getD t []).contains x)).map (fun t => (v, t)))

/-- `OptimizedBitMatrix::is_connected` -/
def reach (es : List (Nat × Nat)) : Nat → List Nat → Nat → Bool
  | 0, front, t => front.contains t
  | f+1, front, t =>
    front.contains t ||
      reach es f (front ++ (es.filter (fun e => front.contains e.1)).map (·.2)) t

/-- `SparseSetGAC::propagate_alldiff` on variables `0..doms.length`: `none` = inconsistent,
otherwise the filtered domains -/
def ssgac (ord : List Nat) (doms : List (List Nat)) : Option (List (List Nat)) :=
  let m := maxMatching ord doms
  if m.v2x.length != doms.length then none
  else
    let es := edges doms m
    some ((List.range doms.length).map (fun v =>
      (doms.getD v []).filter (fun x =>
        m.v2x.lookup v == some x ||
          match m.x2v.lookup x with
          | none => true
          | some mv => reach es doms.length [v] mv)))

/-- `create_precision_propagators`: one propagator per element of a `HashSet`, pushed to a `Vec`
in iteration order -/
def precProps (set : List Nat) : List (List Nat) := set.map (fun v => [v])

/-! ### 6. no clock: a limit oracle that never fires is never seen -/

theorem check_never (fire : Nat → Nat → Bool) (hf : ∀ c d, fire c d = false) (s : LState)
    (h : s.fired = false) : (s.check fire).fired = false := by
  unfold LState.check
  split
  · exact h
  · split
    · rw [hf]; simpa using h
    · exact h

theorem stepEv_never (fire : Nat → Nat → Bool) (hf : ∀ c d, fire c d = false) (saf : Bool) (s : LState) (e : Ev)
    (h : s.fired = false) : (stepEv fire saf s e).fired = false := by
  have hc := check_never fire hf s h
  unfold stepEv
  simp only
  split
  · exact hc
  · cases e <;> simpa using hc

theorem foldl_never (fire : Nat → Nat → Bool) (hf : ∀ c d, fire c d = false) (saf : Bool) (evs : List Ev) :
    ∀ s : LState, s.fired = false → (evs.foldl (stepEv fire saf) s).fired = false := by
  induction evs with
  | nil => intro s h; exact h
  | cons e evs ih => intro s h; exact ih _ (stepEv_never fire hf saf s e h)

theorem runLimited_never (fire : Nat → Nat → Bool) (hf : ∀ c d, fire c d = false) (saf : Bool) (evs : List Ev) :
    (runLimited evs fire saf).fired = false := by
  unfold runLimited LState.finish
  exact check_never fire hf _ (foldl_never fire hf saf evs {} rfl)

end Determ
end Selen

import SelenModel.Model.Gac
import SelenModel.Lemmas.SparseSet
import SelenModel.Lemmas.IntCore
/-
Helper lemmas for C19 (all-different engines).
-/
namespace Selen
namespace Gac

/-! ### lists: injectivity from `Nodup (map f)`, pigeonhole -/

theorem inj_of_nodup_map {α β : Type} (f : α → β) :
    ∀ (l : List α), (l.map f).Nodup → ∀ x ∈ l, ∀ y ∈ l, f x = f y → x = y := by
  intro l
  induction l with
  | nil => intro _ x hx; cases hx
  | cons z l ih =>
    intro h x hx y hy e
    rw [List.map_cons, List.nodup_cons] at h
    rcases List.mem_cons.1 hx with rfl | hx' <;> rcases List.mem_cons.1 hy with rfl | hy'
    · rfl
    · exact absurd (e ▸ List.mem_map_of_mem (f := f) hy') h.1
    · exact absurd (e ▸ List.mem_map_of_mem (f := f) hx') h.1
    · exact ih h.2 x hx' y hy' e

/-- a duplicate-free list inside `u` is not longer than `u` -/
theorem nodup_subset_length : ∀ (l u : List Int), l.Nodup → (∀ x ∈ l, x ∈ u) → l.length ≤ u.length := by
  intro l
  induction l with
  | nil => intro u _ _; exact Nat.zero_le _
  | cons x l ih =>
    intro u hn hs
    rw [List.nodup_cons] at hn
    have hx : x ∈ u := hs x (List.mem_cons_self ..)
    have h1 : l.length ≤ (u.erase x).length := by
      apply ih _ hn.2
      intro z hz
      have hne : z ≠ x := fun e => hn.1 (e ▸ hz)
      exact (List.mem_erase_of_ne hne).2 (hs z (List.mem_cons_of_mem _ hz))
    rw [List.length_erase_of_mem hx] at h1
    have : 0 < u.length := List.length_pos_of_mem hx
    simp only [List.length_cons]
    omega

/-- pigeonhole: a duplicate-free list inside `u` that is at least as long as `u` covers `u` -/
theorem pigeonhole : ∀ (l u : List Int), l.Nodup → (∀ x ∈ l, x ∈ u) → u.length ≤ l.length →
    ∀ y ∈ u, y ∈ l := by
  intro l
  induction l with
  | nil =>
    intro u _ _ hlen y hy
    have : 0 < u.length := List.length_pos_of_mem hy
    have h0 : u.length ≤ 0 := hlen
    omega
  | cons x l ih =>
    intro u hn hs hlen y hy
    rw [List.nodup_cons] at hn
    have hx : x ∈ u := hs x (List.mem_cons_self ..)
    by_cases hyx : y = x
    · rw [hyx]; exact List.mem_cons_self ..
    · have hsub : ∀ z ∈ l, z ∈ u.erase x := by
        intro z hz
        have hne : z ≠ x := fun e => hn.1 (e ▸ hz)
        exact (List.mem_erase_of_ne hne).2 (hs z (List.mem_cons_of_mem _ hz))
      have hl : (u.erase x).length ≤ l.length := by
        rw [List.length_erase_of_mem hx]
        simp only [List.length_cons] at hlen
        omega
      exact List.mem_cons_of_mem _ (ih (u.erase x) hn.2 hsub hl y ((List.mem_erase_of_ne hyx).2 hy))

theorem mem_dedup (l : List Int) : ∀ y, y ∈ dedup l ↔ y ∈ l := by
  induction l with
  | nil => intro y; simp [dedup]
  | cons x l ih =>
    intro y
    unfold dedup
    by_cases hc : (dedup l).contains x = true
    · rw [if_pos hc]
      have hx : x ∈ l := (ih x).1 (List.contains_iff_mem.1 hc)
      rw [ih y, List.mem_cons]
      constructor
      · exact Or.inr
      · rintro (rfl | h)
        · exact hx
        · exact h
    · rw [if_neg hc, List.mem_cons, List.mem_cons, ih y]

/-! ### `BitSetDomain` -/

namespace BSD

theorem contains_iff (d : BSD) (w : Int) :
    d.contains w = true ↔ (d.lo ≤ w ∧ w ≤ d.hi) ∧ w ∈ d.vals := by
  unfold contains inUniverse
  simp only [Bool.and_eq_true, decide_eq_true_eq, List.contains_iff_mem]

theorem mem_vals_of_contains (d : BSD) (w : Int) (h : d.contains w = true) : w ∈ d.vals :=
  ((contains_iff d w).1 h).2

/-- `remove` removes exactly the given value -/
theorem contains_remove (d : BSD) (v w : Int) :
    (d.remove v).1.contains w = true ↔ d.contains w = true ∧ w ≠ v := by
  unfold remove
  by_cases hu : d.inUniverse v = true
  · rw [if_pos hu]
    simp only [contains_iff, List.mem_filter, bne_iff_ne, ne_eq]
    constructor
    · rintro ⟨a, b, c⟩; exact ⟨⟨a, b⟩, c⟩
    · rintro ⟨⟨a, b⟩, c⟩; exact ⟨a, b, c⟩
  · rw [if_neg hu]
    constructor
    · intro h
      refine ⟨h, ?_⟩
      rintro rfl
      apply hu
      have := (contains_iff d w).1 h
      unfold inUniverse
      simp only [Bool.and_eq_true, decide_eq_true_eq]
      exact this.1
    · exact fun h => h.1

theorem remove_lo_hi (d : BSD) (v : Int) : (d.remove v).1.lo = d.lo ∧ (d.remove v).1.hi = d.hi := by
  unfold remove
  by_cases hu : d.inUniverse v = true
  · rw [if_pos hu]; exact ⟨rfl, rfl⟩
  · rw [if_neg hu]; exact ⟨rfl, rfl⟩

theorem not_contains_of_isEmpty (d : BSD) (w : Int) (h : d.isEmpty = true) : d.contains w = false := by
  unfold isEmpty at h
  have : d.vals = [] := List.isEmpty_iff.1 h
  cases hc : d.contains w
  · rfl
  · have := mem_vals_of_contains d w hc
    rw [‹d.vals = []›] at this
    cases this

/-- a fixed domain contains only its fixed value -/
theorem eq_of_fixed (d : BSD) (v w : Int) (hf : d.isFixed = true) (hv : d.fixedValue = some v)
    (hw : d.contains w = true) : w = v := by
  unfold fixedValue at hv
  rw [if_pos hf] at hv
  unfold isFixed at hf
  have hl : d.vals.length = 1 := by simpa using hf
  obtain ⟨a, ha⟩ := List.length_eq_one_iff.1 hl
  have hm := mem_vals_of_contains d w hw
  rw [ha] at hv hm
  simp at hv hm
  omega

/-- `remove_many`: exactly the listed values disappear, whatever the order of the list -/
theorem contains_removeMany (vs : List Int) : ∀ (d : BSD) (w : Int),
    (d.removeMany vs).1.contains w = true ↔ d.contains w = true ∧ w ∉ vs := by
  unfold removeMany
  suffices h : ∀ (vs : List Int) (p : BSD × Bool) (w : Int),
      (vs.foldl (fun (p : BSD × Bool) v => ((p.1.remove v).1, p.2 || (p.1.remove v).2)) p).1.contains w = true ↔
        p.1.contains w = true ∧ w ∉ vs from fun d w => h vs (d, false) w
  intro vs
  induction vs with
  | nil => intro p w; simp
  | cons v vs ih =>
    intro p w
    rw [List.foldl_cons, ih]
    show (p.1.remove v).1.contains w = true ∧ w ∉ vs ↔ _
    rw [contains_remove]
    simp only [List.mem_cons, not_or]
    constructor
    · rintro ⟨⟨a, b⟩, c⟩; exact ⟨a, b, c⟩
    · rintro ⟨a, b, c⟩; exact ⟨⟨a, b⟩, c⟩

/-- the result of the Hall removal loop depends only on the SET of union values (the code
iterates a `HashSet`) -/
theorem removeMany_order_irrelevant (d : BSD) (l1 l2 : List Int) (h : ∀ v, v ∈ l1 ↔ v ∈ l2) (w : Int) :
    (d.removeMany l1).1.contains w = (d.removeMany l2).1.contains w := by
  have a := contains_removeMany l1 d w
  have b := contains_removeMany l2 d w
  rw [h w] at a
  cases h1 : (d.removeMany l1).1.contains w <;> cases h2 : (d.removeMany l2).1.contains w <;> simp_all

end BSD

/-! ### the generic "remove assigned values" loops -/

section Elim
variable {σ : Type} (rm : σ → Nat → Int → σ × Bool) (emp : σ → Nat → Bool)
  (Mem : σ → Nat → Int → Prop) (Inv : σ → Prop) (all : List Nat) (a : Nat → Int)

/-- the invariant carried through the loops: the assignment `a` is still inside the domains -/
def Keeps (s : σ) : Prop := Inv s ∧ ∀ x ∈ all, Mem s x (a x)

theorem elimInner_sound
    (hrm : ∀ s x v, Inv s → Inv (rm s x v).1 ∧
      ∀ y w, Mem s y w → ¬ (y = x ∧ w = v) → Mem (rm s x v).1 y w)
    (av : Option Nat) (v : Int) :
    ∀ (xs : List Nat) (s : σ) (ch : Bool),
      (∀ x ∈ xs, x ∈ all) →
      (∀ s x w, Inv s → x ∈ xs → emp s x = true → ¬ Mem s x w) →
      (∀ x ∈ xs, skips av x = false → a x ≠ v) →
      Keeps Mem Inv all a s →
      (elimInner rm emp av v xs s ch).2.2 = true ∧ Keeps Mem Inv all a (elimInner rm emp av v xs s ch).1 := by
  intro xs
  induction xs with
  | nil => intro s ch _ _ _ hk; exact ⟨rfl, hk⟩
  | cons x xs ih =>
    intro s ch hsub hemp hne hk
    have hsub' : ∀ y ∈ xs, y ∈ all := fun y hy => hsub y (List.mem_cons_of_mem _ hy)
    have hemp' : ∀ s y w, Inv s → y ∈ xs → emp s y = true → ¬ Mem s y w :=
      fun s y w hi hy => hemp s y w hi (List.mem_cons_of_mem _ hy)
    have hne' : ∀ y ∈ xs, skips av y = false → a y ≠ v := fun y hy => hne y (List.mem_cons_of_mem _ hy)
    unfold elimInner
    by_cases hs : skips av x = true
    · rw [if_pos hs]; exact ih s ch hsub' hemp' hne' hk
    · rw [if_neg hs]
      have hxv : a x ≠ v := hne x (List.mem_cons_self ..) (by simpa using hs)
      obtain ⟨hi1, hm1⟩ := hrm s x v hk.1
      have hk1 : Keeps Mem Inv all a (rm s x v).1 :=
        ⟨hi1, fun y hy => hm1 y (a y) (hk.2 y hy) (fun h => hxv (h.1 ▸ h.2))⟩
      by_cases hr : (rm s x v).2 = true
      · rw [if_pos hr]
        by_cases he : emp (rm s x v).1 x = true
        · exact absurd (hk1.2 x (hsub x (List.mem_cons_self ..))) (hemp _ x _ hi1 (List.mem_cons_self ..) he)
        · rw [if_neg he]; exact ih _ true hsub' hemp' hne' hk1
      · rw [if_neg hr]; exact ih _ ch hsub' hemp' hne' hk1

theorem elimOuter_sound
    (hrm : ∀ s x v, Inv s → Inv (rm s x v).1 ∧
      ∀ y w, Mem s y w → ¬ (y = x ∧ w = v) → Mem (rm s x v).1 y w)
    (vars : List Nat) (hsub : ∀ x ∈ vars, x ∈ all)
    (hemp : ∀ s x w, Inv s → x ∈ vars → emp s x = true → ¬ Mem s x w) :
    ∀ (es : List (Option Nat × Int)) (s : σ) (ch : Bool),
      (∀ e ∈ es, ∀ x ∈ vars, skips e.1 x = false → a x ≠ e.2) →
      Keeps Mem Inv all a s →
      (elimOuter rm emp vars es s ch).2.2 = true ∧ Keeps Mem Inv all a (elimOuter rm emp vars es s ch).1 := by
  intro es
  induction es with
  | nil => intro s ch _ hk; exact ⟨rfl, hk⟩
  | cons e es ih =>
    intro s ch hes hk
    obtain ⟨av, v⟩ := e
    have h1 := elimInner_sound rm emp Mem Inv all a hrm av v vars s ch hsub hemp
      (hes (av, v) (List.mem_cons_self ..)) hk
    unfold elimOuter
    rw [if_pos h1.1]
    exact ih _ _ (fun e he => hes e (List.mem_cons_of_mem _ he)) h1.2

/-- any property preserved by `rm` is preserved by the loops -/
theorem elimInner_inv (Q : σ → Prop) (hQ : ∀ s x v, Q s → Q (rm s x v).1) (av : Option Nat) (v : Int) :
    ∀ (xs : List Nat) (s : σ) (ch : Bool), Q s → Q (elimInner rm emp av v xs s ch).1 := by
  intro xs
  induction xs with
  | nil => intro s ch h; exact h
  | cons x xs ih =>
    intro s ch h
    unfold elimInner
    by_cases hs : skips av x = true
    · rw [if_pos hs]; exact ih s ch h
    · rw [if_neg hs]
      by_cases hr : (rm s x v).2 = true
      · rw [if_pos hr]
        by_cases he : emp (rm s x v).1 x = true
        · rw [if_pos he]; exact hQ s x v h
        · rw [if_neg he]; exact ih _ _ (hQ s x v h)
      · rw [if_neg hr]; exact ih _ _ (hQ s x v h)

theorem elimOuter_inv (Q : σ → Prop) (hQ : ∀ s x v, Q s → Q (rm s x v).1) (vars : List Nat) :
    ∀ (es : List (Option Nat × Int)) (s : σ) (ch : Bool), Q s → Q (elimOuter rm emp vars es s ch).1 := by
  intro es
  induction es with
  | nil => intro s ch h; exact h
  | cons e es ih =>
    intro s ch h
    obtain ⟨av, v⟩ := e
    have h1 := elimInner_inv rm emp Q hQ av v vars s ch h
    unfold elimOuter
    by_cases hok : (elimInner rm emp av v vars s ch).2.2 = true
    · rw [if_pos hok]; exact ih _ _ h1
    · rw [if_neg hok]; exact h1

end Elim

/-! ### solutions -/

/-- `a` assigns pairwise different values (one per occurrence in `vars`) inside the domains -/
def Sol (mem : Nat → Int → Prop) (vars : List Nat) (a : Nat → Int) : Prop :=
  (vars.map a).Nodup ∧ ∀ x ∈ vars, mem x (a x)

theorem Sol.ne {mem : Nat → Int → Prop} {vars : List Nat} {a : Nat → Int} (h : Sol mem vars a)
    {x y : Nat} (hx : x ∈ vars) (hy : y ∈ vars) (hne : x ≠ y) : a x ≠ a y :=
  fun e => hne (inj_of_nodup_map a vars h.1 x hx y hy e)

theorem Sol.sublist {mem : Nat → Int → Prop} {vars sub : List Nat} {a : Nat → Int} (h : Sol mem vars a)
    (hs : sub.Sublist vars) : Sol mem sub a :=
  ⟨List.Nodup.sublist (hs.map a) h.1, fun x hx => h.2 x (hs.subset hx)⟩

/-! ### `BitSetGAC` -/

/-- membership in the domain the bit-set engine stores for `x` -/
def BMem (g : BG) (x : Nat) (v : Int) : Prop := ∃ d, g.dom x = some d ∧ d.contains v = true

namespace BG

theorem removeValue_dom (g : BG) (x : Nat) (v : Int) (y : Nat) :
    (g.removeValue x v).1.dom y =
      if y = x then (g.dom x).map (fun d => (d.remove v).1) else g.dom y := by
  unfold removeValue
  cases hx : g.dom x with
  | none => by_cases hy : y = x <;> simp [hy, hx]
  | some d => by_cases hy : y = x <;> simp [setDom, hy]

theorem removeValue_mem (g : BG) (x : Nat) (v : Int) (y : Nat) (w : Int)
    (hm : BMem g y w) (hne : ¬ (y = x ∧ w = v)) : BMem (g.removeValue x v).1 y w := by
  obtain ⟨d, hd, hc⟩ := hm
  unfold BMem
  rw [removeValue_dom]
  by_cases hy : y = x
  · rw [if_pos hy]
    subst hy
    rw [hd]
    exact ⟨_, rfl, (BSD.contains_remove d v w).2 ⟨hc, fun e => hne ⟨rfl, e⟩⟩⟩
  · rw [if_neg hy]; exact ⟨d, hd, hc⟩

theorem not_mem_of_isInconsistent (g : BG) (x : Nat) (w : Int) (h : g.isInconsistent x = true) :
    ¬ BMem g x w := by
  rintro ⟨d, hd, hc⟩
  unfold isInconsistent at h
  rw [hd] at h
  have := BSD.not_contains_of_isEmpty d w h
  rw [hc] at this
  cases this

theorem mem_assignedValues (g : BG) (vars : List Nat) (e : Option Nat × Int) (he : e ∈ g.assignedValues vars) :
    ∃ x ∈ vars, ∃ d, e.1 = some x ∧ g.dom x = some d ∧ d.isFixed = true ∧ d.fixedValue = some e.2 := by
  unfold assignedValues at he
  obtain ⟨x, hx, hf⟩ := List.mem_filterMap.1 he
  refine ⟨x, hx, ?_⟩
  cases hd : g.dom x with
  | none => rw [hd] at hf; cases hf
  | some d =>
    rw [hd] at hf
    by_cases hfx : d.isFixed = true
    · simp only [hfx, if_true] at hf
      cases hv : d.fixedValue with
      | none => rw [hv] at hf; cases hf
      | some v =>
        rw [hv] at hf
        simp only [Option.map_some, Option.some.injEq] at hf
        subst hf
        exact ⟨d, rfl, rfl, hfx, hv⟩
    · simp only [hfx] at hf
      cases hf

/-- **assigned-value elimination is sound**: it never declares inconsistency and keeps every
solution inside the domains -/
theorem elim_sound (g : BG) (vars : List Nat) (a : Nat → Int) (hs : Sol (BMem g) vars a) :
    (elimOuter removeValue isInconsistent vars (g.assignedValues vars) g false).2.2 = true ∧
    ∀ x ∈ vars, BMem (elimOuter removeValue isInconsistent vars (g.assignedValues vars) g false).1 x (a x) := by
  have h := elimOuter_sound removeValue isInconsistent BMem (fun _ => True) vars a
    (fun s x v _ => ⟨trivial, fun y w hm hne => removeValue_mem s x v y w hm hne⟩)
    vars (fun x hx => hx)
    (fun s x w _ _ he => not_mem_of_isInconsistent s x w he)
    (g.assignedValues vars) g false
    (by
      intro e he x hx hsk
      obtain ⟨y, hy, d, e1, hd, hf, hv⟩ := mem_assignedValues g vars e he
      have hxy : x ≠ y := by
        intro exy
        rw [e1] at hsk
        simp [skips, exy] at hsk
      obtain ⟨d', hd', hc'⟩ := hs.2 y hy
      rw [hd] at hd'
      cases hd'
      have : a y = e.2 := BSD.eq_of_fixed d e.2 (a y) hf hv hc'
      rw [← this]
      exact hs.ne hx hy hxy)
    ⟨trivial, hs.2⟩
  exact ⟨h.1, h.2.2⟩

theorem mem_unionVals (g : BG) (S : List Nat) (x : Nat) (v : Int) (hx : x ∈ S) (hm : BMem g x v) :
    v ∈ g.unionVals S := by
  obtain ⟨d, hd, hc⟩ := hm
  unfold unionVals
  rw [mem_dedup]
  refine List.mem_flatMap.2 ⟨x, hx, ?_⟩
  rw [hd]
  exact BSD.mem_vals_of_contains d v hc

/-- **Hall sets (pigeonhole)**: `k` variables whose domains' union has `k` values use all of
them in every solution, so no other variable can take one of these values -/
theorem hall_sound (g : BG) (vars S : List Nat) (a : Nat → Int) (hs : Sol (BMem g) vars a)
    (hS : S.Sublist vars) (hlen : S.length = (g.unionVals S).length) :
    (∀ u ∈ g.unionVals S, ∃ x ∈ S, a x = u) ∧ (∀ x ∈ vars, x ∉ S → a x ∉ g.unionVals S) := by
  have hsS := hs.sublist hS
  have hcover : ∀ u ∈ g.unionVals S, u ∈ S.map a := by
    apply pigeonhole (S.map a) (g.unionVals S) hsS.1
    · intro y hy
      obtain ⟨x, hx, rfl⟩ := List.mem_map.1 hy
      exact mem_unionVals g S x (a x) hx (hsS.2 x hx)
    · rw [List.length_map, hlen]; exact Nat.le_refl _
  refine ⟨fun u hu => ?_, fun x hx hxS hax => ?_⟩
  · obtain ⟨x, hx, e⟩ := List.mem_map.1 (hcover u hu)
    exact ⟨x, hx, e⟩
  · obtain ⟨x', hx', e⟩ := List.mem_map.1 (hcover _ hax)
    have : x' = x := inj_of_nodup_map a vars hs.1 x' (hS.subset hx') x hx e
    exact hxS (this ▸ hx')

theorem hallApply_sound (S : List Nat) (U : List Int) (a : Nat → Int) (all : List Nat) :
    ∀ (xs : List Nat) (g : BG) (ch : Bool),
      (∀ x ∈ xs, x ∈ all) → (∀ x ∈ xs, x ∉ S → a x ∉ U) → (∀ x ∈ all, BMem g x (a x)) →
      (hallApply S U xs g ch).2.2 = true ∧ ∀ x ∈ all, BMem (hallApply S U xs g ch).1 x (a x) := by
  intro xs
  induction xs with
  | nil => intro g ch _ _ hk; exact ⟨rfl, hk⟩
  | cons x xs ih =>
    intro g ch hsub hU hk
    have hsub' : ∀ y ∈ xs, y ∈ all := fun y hy => hsub y (List.mem_cons_of_mem _ hy)
    have hU' : ∀ y ∈ xs, y ∉ S → a y ∉ U := fun y hy => hU y (List.mem_cons_of_mem _ hy)
    unfold hallApply
    by_cases hc : S.contains x = true
    · rw [if_pos hc]; exact ih g ch hsub' hU' hk
    · rw [if_neg hc]
      have hxS : x ∉ S := fun h => hc (List.contains_iff_mem.2 h)
      have hxU : a x ∉ U := hU x (List.mem_cons_self ..) hxS
      cases hd : g.dom x with
      | none => exact ih g ch hsub' hU' hk
      | some d =>
        have hk1 : ∀ y ∈ all, BMem { g with dom := setDom g.dom x (d.removeMany U).1 } y (a y) := by
          intro y hy
          obtain ⟨d0, hd0, hc0⟩ := hk y hy
          by_cases hyx : y = x
          · subst hyx
            rw [hd] at hd0
            cases hd0
            exact ⟨(d.removeMany U).1, by simp [setDom], (BSD.contains_removeMany U d (a y)).2 ⟨hc0, hxU⟩⟩
          · exact ⟨d0, by simp [setDom, hyx, hd0], hc0⟩
        simp only []
        by_cases hr : (d.removeMany U).2 = true
        · rw [if_pos hr]
          by_cases he : (d.removeMany U).1.isEmpty = true
          · exfalso
            obtain ⟨d1, hd1, hc1⟩ := hk1 x (hsub x (List.mem_cons_self ..))
            simp [setDom] at hd1
            subst hd1
            have := BSD.not_contains_of_isEmpty _ (a x) he
            rw [hc1] at this
            cases this
          · rw [if_neg he]; exact ih _ true hsub' hU' hk1
        · rw [if_neg hr]; exact ih _ ch hsub' hU' hk1

theorem hallSubsets_sound (vars : List Nat) (a : Nat → Int) (hn : (vars.map a).Nodup) :
    ∀ (fam : List (List Nat)) (g : BG) (ch : Bool),
      (∀ S ∈ fam, S.Sublist vars) → (∀ x ∈ vars, BMem g x (a x)) →
      (hallSubsets vars fam g ch).2.2 = true ∧ ∀ x ∈ vars, BMem (hallSubsets vars fam g ch).1 x (a x) := by
  intro fam
  induction fam with
  | nil => intro g ch _ hk; exact ⟨rfl, hk⟩
  | cons S fam ih =>
    intro g ch hfam hk
    have hfam' : ∀ T ∈ fam, T.Sublist vars := fun T hT => hfam T (List.mem_cons_of_mem _ hT)
    unfold hallSubsets
    by_cases hl : (S.length == (g.unionVals S).length) = true
    · rw [if_pos hl]
      have hlen : S.length = (g.unionVals S).length := by simpa using hl
      have hh := hall_sound g vars S a ⟨hn, hk⟩ (hfam S (List.mem_cons_self ..)) hlen
      have h1 := hallApply_sound S (g.unionVals S) a vars vars g ch (fun x hx => hx)
        (fun x hx hxS => hh.2 x hx hxS) hk
      rw [if_pos h1.1]
      exact ih _ _ hfam' h1.2
    · rw [if_neg hl]; exact ih g ch hfam' hk

theorem combos_sublist {α : Type} : ∀ (l : List α) (k : Nat) (c : List α), c ∈ combos l k → c.Sublist l := by
  intro l
  induction l with
  | nil =>
    intro k c hc
    cases k with
    | zero => simp [combos] at hc; subst hc; exact List.Sublist.refl _
    | succ k => simp [combos] at hc
  | cons x xs ih =>
    intro k c hc
    cases k with
    | zero => simp [combos] at hc; subst hc; exact List.nil_sublist _
    | succ k =>
      simp only [combos, List.mem_append, List.mem_map] at hc
      rcases hc with ⟨c', hc', rfl⟩ | hc
      · exact List.Sublist.cons_cons x (ih k c' hc')
      · exact List.Sublist.cons x (ih (k + 1) c hc)

theorem hallFamily_sublist (vars S : List Nat) (h : S ∈ hallFamily vars) : S.Sublist vars := by
  unfold hallFamily at h
  obtain ⟨k, _, hk⟩ := List.mem_flatMap.1 h
  exact combos_sublist vars k S hk

theorem propagateHallSets_sound (g : BG) (vars : List Nat) (a : Nat → Int) (hs : Sol (BMem g) vars a) :
    (g.propagateHallSets vars).2.2 = true ∧ ∀ x ∈ vars, BMem (g.propagateHallSets vars).1 x (a x) := by
  unfold propagateHallSets
  by_cases h6 : vars.length ≤ 6
  · rw [if_pos h6]
    exact hallSubsets_sound vars a hs.1 _ g false (fun S hS => hallFamily_sublist vars S hS) hs.2
  · rw [if_neg h6]; exact ⟨rfl, hs.2⟩

/-- **the bit-set engine is sound**: on domains that have a solution `a` it reports
"consistent" and `a` is still inside the pruned domains (so every removed value is unsupported
and "inconsistent" is only declared when no solution exists) -/
theorem propagateAlldiff_sound (g : BG) (vars : List Nat) (a : Nat → Int) (hs : Sol (BMem g) vars a) :
    (g.propagateAlldiff vars).2.2 = true ∧ Sol (BMem (g.propagateAlldiff vars).1) vars a := by
  unfold propagateAlldiff
  by_cases h1 : vars.length ≤ 1
  · rw [if_pos h1]; exact ⟨rfl, hs⟩
  · rw [if_neg h1]
    have he := elim_sound g vars a hs
    simp only []
    rw [if_pos he.1]
    have hh := propagateHallSets_sound _ vars a ⟨hs.1, he.2⟩
    rw [if_pos hh.1]
    exact ⟨rfl, hs.1, hh.2⟩

/-! key sets are never changed by propagation -/

theorem removeValue_keys (g : BG) (x : Nat) (v : Int) (y : Nat) :
    ((g.removeValue x v).1.dom y).isSome = (g.dom y).isSome := by
  rw [removeValue_dom]
  by_cases hy : y = x
  · rw [if_pos hy, hy]; cases g.dom x <;> rfl
  · rw [if_neg hy]

theorem hallApply_keys (S : List Nat) (U : List Int) (y : Nat) :
    ∀ (xs : List Nat) (g : BG) (ch : Bool), ((hallApply S U xs g ch).1.dom y).isSome = (g.dom y).isSome := by
  intro xs
  induction xs with
  | nil => intro g ch; rfl
  | cons x xs ih =>
    intro g ch
    unfold hallApply
    by_cases hc : S.contains x = true
    · rw [if_pos hc]; exact ih g ch
    · rw [if_neg hc]
      cases hd : g.dom x with
      | none => exact ih g ch
      | some d =>
        have hk : ∀ d' : BSD, (({ g with dom := setDom g.dom x d' } : BG).dom y).isSome = (g.dom y).isSome := by
          intro d'
          by_cases hyx : y = x
          · subst hyx; simp [setDom, hd]
          · simp [setDom, hyx]
        simp only []
        by_cases hr : (d.removeMany U).2 = true
        · rw [if_pos hr]
          by_cases he : (d.removeMany U).1.isEmpty = true
          · rw [if_pos he]; exact hk _
          · rw [if_neg he, ih]; exact hk _
        · rw [if_neg hr, ih]; exact hk _

theorem hallSubsets_keys (vars : List Nat) (y : Nat) :
    ∀ (fam : List (List Nat)) (g : BG) (ch : Bool), ((hallSubsets vars fam g ch).1.dom y).isSome = (g.dom y).isSome := by
  intro fam
  induction fam with
  | nil => intro g ch; rfl
  | cons S fam ih =>
    intro g ch
    unfold hallSubsets
    by_cases hl : (S.length == (g.unionVals S).length) = true
    · rw [if_pos hl]
      by_cases hok : (hallApply S (g.unionVals S) vars g ch).2.2 = true
      · rw [if_pos hok, ih, hallApply_keys]
      · rw [if_neg hok, hallApply_keys]
    · rw [if_neg hl]; exact ih g ch

theorem propagateAlldiff_keys (g : BG) (vars : List Nat) (y : Nat) :
    ((g.propagateAlldiff vars).1.dom y).isSome = (g.dom y).isSome := by
  have he : ∀ es, ((elimOuter removeValue isInconsistent vars es g false).1.dom y).isSome = (g.dom y).isSome :=
    fun es => elimOuter_inv removeValue isInconsistent (fun s => (s.dom y).isSome = (g.dom y).isSome)
      (fun s x v h => by rw [removeValue_keys]; exact h) vars es g false rfl
  have hh : ∀ g' : BG, ((g'.propagateHallSets vars).1.dom y).isSome = (g'.dom y).isSome := by
    intro g'
    unfold propagateHallSets
    by_cases h6 : vars.length ≤ 6
    · rw [if_pos h6, hallSubsets_keys]
    · rw [if_neg h6]
  unfold propagateAlldiff
  by_cases h1 : vars.length ≤ 1
  · rw [if_pos h1]
  · rw [if_neg h1]
    simp only []
    split
    · split
      · rw [hh, he]
      · rw [hh, he]
    · rw [he]

end BG

/-! ### sparse domains -/

/-- membership in the domain the sparse-set store keeps for `x` -/
def SMem (g : SG) (x : Nat) (v : Int) : Prop := ∃ d, g.dom x = some d ∧ d.mem v

theorem SS.eq_minV_of_fixed (d : SS) (w : Int) (h : d.WF) (hf : d.isFixed = true) (hw : d.mem w) : w = d.minV := by
  unfold SS.isFixed at hf
  have hs : d.size = 1 := by simpa using hf
  obtain ⟨hoff, hn, hi⟩ := hw
  have hb := h.bounds (by omega)
  obtain ⟨⟨hmn, hmi⟩, _, _⟩ := hb
  have e1 := (h.perm.2 _ hn).2
  have e2 := (h.perm.2 _ hmn).2
  have i1 : d.ind (w - d.off).toNat = 0 := by omega
  have i2 : d.ind d.min = 0 := by omega
  rw [i1] at e1
  rw [i2] at e2
  unfold SS.minV
  omega

theorem SS.not_mem_of_isEmpty (d : SS) (w : Int) (he : d.isEmpty = true) : ¬ d.mem w := by
  rintro ⟨_, _, hi⟩
  unfold SS.isEmpty at he
  have : d.size = 0 := by simpa using he
  omega

namespace SG

theorem removeValue_dom (g : SG) (x : Nat) (v : Int) (y : Nat) :
    (g.removeValue x v).1.dom y = if y = x then (g.dom x).map (fun d => d.remove' v) else g.dom y := by
  unfold removeValue
  cases hx : g.dom x with
  | none => by_cases hy : y = x <;> simp [hy, hx]
  | some d => by_cases hy : y = x <;> simp [setDom, hy]

theorem mem_assignedValues (g : SG) (vars : List Nat) (e : Option Nat × Int) (he : e ∈ g.assignedValues vars) :
    ∃ x ∈ vars, ∃ d, e.1 = some x ∧ g.dom x = some d ∧ d.isFixed = true ∧ e.2 = d.minV := by
  unfold assignedValues at he
  obtain ⟨x, hx, hf⟩ := List.mem_filterMap.1 he
  refine ⟨x, hx, ?_⟩
  cases hd : g.dom x with
  | none => rw [hd] at hf; cases hf
  | some d =>
    rw [hd] at hf
    by_cases hfx : d.isFixed = true
    · simp only [hfx, if_true, Option.some.injEq] at hf
      subst hf
      exact ⟨d, rfl, rfl, hfx, rfl⟩
    · simp only [hfx] at hf
      cases hf

end SG

/-! ### `HybridGAC` -/

/-- the domain the hybrid engine reports for `x` (bit-set store first) -/
def HMem (h : HG) (x : Nat) (v : Int) : Prop := if h.inBits x = true then BMem h.b x v else SMem h.s x v

/-- well-formedness of a hybrid state: sparse sets are well-formed and no variable lives in both
stores (true whenever every variable is added once) -/
structure HInv (h : HG) : Prop where
  wf : ∀ x d, h.s.dom x = some d → d.WF
  disj : ∀ x, h.inBits x = true → h.s.dom x = none

/-- `HInv` plus "same key sets as `g0`" -/
def HInvK (g0 h : HG) : Prop :=
  HInv h ∧ (∀ x, h.inBits x = g0.inBits x) ∧ (∀ x, h.inSparse x = g0.inSparse x)

namespace HG

theorem not_inBits_of_inSparse (h : HG) (hi : HInv h) (x : Nat) (hs : h.inSparse x = true) : h.inBits x = false := by
  cases hb : h.inBits x
  · rfl
  · have := hi.disj x hb
    unfold inSparse at hs
    rw [this] at hs
    cases hs

theorem rmS_spec (g0 h : HG) (x : Nat) (v : Int) (hi : HInvK g0 h) :
    HInvK g0 (rmS h x v).1 ∧ ∀ y w, HMem h y w → ¬ (y = x ∧ w = v) → HMem (rmS h x v).1 y w := by
  obtain ⟨⟨hwf, hdisj⟩, hkb, hks⟩ := hi
  have hdom : ∀ y, (rmS h x v).1.s.dom y = if y = x then (h.s.dom x).map (fun d => d.remove' v) else h.s.dom y :=
    fun y => SG.removeValue_dom h.s x v y
  have hb : (rmS h x v).1.b = h.b := rfl
  have hinb : ∀ y, (rmS h x v).1.inBits y = h.inBits y := fun y => rfl
  refine ⟨⟨⟨?_, ?_⟩, ?_, ?_⟩, ?_⟩
  · intro y d hd
    rw [hdom] at hd
    by_cases hy : y = x
    · rw [if_pos hy] at hd
      cases hx : h.s.dom x with
      | none => rw [hx] at hd; cases hd
      | some d0 =>
        rw [hx] at hd
        simp only [Option.map_some, Option.some.injEq] at hd
        subst hd
        exact (SS.remove'_spec d0 v (hwf x d0 hx)).1
    · rw [if_neg hy] at hd; exact hwf y d hd
  · intro y hy
    rw [hinb] at hy
    rw [hdom]
    by_cases hyx : y = x
    · rw [if_pos hyx, ← hyx, hdisj y hy]; rfl
    · rw [if_neg hyx]; exact hdisj y hy
  · intro y; rw [hinb]; exact hkb y
  · intro y
    rw [← hks y]
    unfold inSparse
    rw [hdom]
    by_cases hyx : y = x
    · rw [if_pos hyx, hyx]; cases h.s.dom x <;> rfl
    · rw [if_neg hyx]
  · intro y w hm hne
    unfold HMem at hm ⊢
    rw [hinb]
    by_cases hby : h.inBits y = true
    · rw [if_pos hby] at hm ⊢; rw [hb]; exact hm
    · rw [if_neg hby] at hm ⊢
      obtain ⟨d, hd, hmw⟩ := hm
      unfold SMem
      rw [hdom]
      by_cases hyx : y = x
      · rw [if_pos hyx]
        subst hyx
        rw [hd]
        exact ⟨_, rfl, ((SS.remove'_spec d v (hwf y d hd)).2.2.2.1 w).2 ⟨hmw, fun e => hne ⟨rfl, e⟩⟩⟩
      · rw [if_neg hyx]; exact ⟨d, hd, hmw⟩

theorem rmB_spec (g0 h : HG) (x : Nat) (v : Int) (hi : HInvK g0 h) :
    HInvK g0 (rmB h x v).1 ∧ ∀ y w, HMem h y w → ¬ (y = x ∧ w = v) → HMem (rmB h x v).1 y w := by
  obtain ⟨⟨hwf, hdisj⟩, hkb, hks⟩ := hi
  have hs : (rmB h x v).1.s = h.s := rfl
  have hinb : ∀ y, (rmB h x v).1.inBits y = h.inBits y := fun y => BG.removeValue_keys h.b x v y
  refine ⟨⟨⟨?_, ?_⟩, ?_, ?_⟩, ?_⟩
  · intro y d hd; exact hwf y d hd
  · intro y hy; rw [hinb] at hy; exact hdisj y hy
  · intro y; rw [hinb]; exact hkb y
  · intro y; exact hks y
  · intro y w hm hne
    unfold HMem at hm ⊢
    rw [hinb]
    by_cases hby : h.inBits y = true
    · rw [if_pos hby] at hm ⊢
      exact BG.removeValue_mem h.b x v y w hm hne
    · rw [if_neg hby] at hm ⊢; exact hm

theorem empS_spec (g0 h : HG) (x : Nat) (w : Int) (hi : HInvK g0 h) (hx : g0.inSparse x = true)
    (he : empS h x = true) : ¬ HMem h x w := by
  have hsx : h.inSparse x = true := by rw [hi.2.2 x]; exact hx
  have hbx := not_inBits_of_inSparse h hi.1 x hsx
  unfold HMem
  rw [hbx]
  simp only [Bool.false_eq_true, if_false]
  rintro ⟨d, hd, hm⟩
  unfold empS SG.isEmptyAt at he
  rw [hd] at he
  exact SS.not_mem_of_isEmpty d w he hm

theorem empB_spec (g0 h : HG) (x : Nat) (w : Int) (hi : HInvK g0 h) (hx : g0.inBits x = true)
    (he : empB h x = true) : ¬ HMem h x w := by
  have hbx : h.inBits x = true := by rw [hi.2.1 x]; exact hx
  unfold HMem
  rw [if_pos hbx]
  exact BG.not_mem_of_isInconsistent h.b x w he

/-- a sparse variable that is fixed holds the value of the solution -/
theorem sparse_fixed_val (g0 h : HG) (vars : List Nat) (a : Nat → Int)
    (hk : Keeps HMem (HInvK g0) vars a h) (y : Nat) (hy : y ∈ vars) (hys : g0.inSparse y = true)
    (d : SS) (hd : h.s.dom y = some d) (hf : d.isFixed = true) : a y = d.minV := by
  have hsy : h.inSparse y = true := by rw [hk.1.2.2 y]; exact hys
  have hby := not_inBits_of_inSparse h hk.1.1 y hsy
  have hm := hk.2 y hy
  unfold HMem at hm
  rw [hby] at hm
  simp only [Bool.false_eq_true, if_false] at hm
  obtain ⟨d', hd', hm'⟩ := hm
  rw [hd] at hd'
  cases hd'
  exact SS.eq_minV_of_fixed d (a y) (hk.1.1.wf y d hd) hf hm'

/-- a bit-set variable that is fixed holds the value of the solution -/
theorem bits_fixed_val (g0 h : HG) (vars : List Nat) (a : Nat → Int)
    (hk : Keeps HMem (HInvK g0) vars a h) (y : Nat) (hy : y ∈ vars) (hyb : g0.inBits y = true)
    (v : Int) (hv : h.b.assignedValue y = some v) : a y = v := by
  have hby : h.inBits y = true := by rw [hk.1.2.1 y]; exact hyb
  have hm := hk.2 y hy
  unfold HMem at hm
  rw [if_pos hby] at hm
  obtain ⟨d, hd, hc⟩ := hm
  unfold BG.assignedValue at hv
  rw [hd] at hv
  have hv' : d.fixedValue = some v := hv
  have hf : d.isFixed = true := by
    by_cases h : d.isFixed = true
    · exact h
    · unfold BSD.fixedValue at hv'
      rw [if_neg h] at hv'
      cases hv'
  exact BSD.eq_of_fixed d v (a y) hf hv' hc

theorem bitsStage_sound (g : HG) (vars : List Nat) (a : Nat → Int) (hi : HInv g) (hs : Sol (HMem g) vars a) :
    (g.bitsStage (vars.filter g.inBits)).2.2 = true ∧
    Keeps HMem (HInvK g) vars a (g.bitsStage (vars.filter g.inBits)).1 := by
  unfold bitsStage
  by_cases he : (vars.filter g.inBits).isEmpty = true
  · rw [if_pos he]
    exact ⟨rfl, ⟨hi, fun _ => rfl, fun _ => rfl⟩, hs.2⟩
  · rw [if_neg he]
    have hsb : Sol (BMem g.b) (vars.filter g.inBits) a := by
      refine ⟨(hs.sublist List.filter_sublist).1, ?_⟩
      intro x hx
      obtain ⟨hxv, hxb⟩ := List.mem_filter.1 hx
      have := hs.2 x hxv
      unfold HMem at this
      rw [if_pos hxb] at this
      exact this
    have hsound := BG.propagateAlldiff_sound g.b _ a hsb
    have hkeys : ∀ x, ({ g with b := (g.b.propagateAlldiff (vars.filter g.inBits)).1 } : HG).inBits x = g.inBits x :=
      fun x => BG.propagateAlldiff_keys g.b _ x
    refine ⟨hsound.1, ⟨⟨hi.wf, ?_⟩, hkeys, fun _ => rfl⟩, ?_⟩
    · intro x hx
      rw [hkeys] at hx
      exact hi.disj x hx
    · intro x hx
      unfold HMem
      rw [hkeys]
      by_cases hb : g.inBits x = true
      · rw [if_pos hb]
        exact hsound.2.2 x (List.mem_filter.2 ⟨hx, hb⟩)
      · rw [if_neg hb]
        have := hs.2 x hx
        unfold HMem at this
        rw [if_neg hb] at this
        exact this

theorem sparseStage_sound (g0 h : HG) (vars : List Nat) (a : Nat → Int) (hn : (vars.map a).Nodup)
    (hk : Keeps HMem (HInvK g0) vars a h) :
    (h.sparseStage (vars.filter g0.inSparse)).2.2 = true ∧
    Keeps HMem (HInvK g0) vars a (h.sparseStage (vars.filter g0.inSparse)).1 := by
  unfold sparseStage
  by_cases he : (vars.filter g0.inSparse).isEmpty = true
  · rw [if_pos he]; exact ⟨rfl, hk⟩
  · rw [if_neg he]
    unfold propagateSparseGroup
    apply elimOuter_sound rmS empS HMem (HInvK g0) vars a (fun s x v hi => rmS_spec g0 s x v hi)
      (vars.filter g0.inSparse) (fun x hx => (List.mem_filter.1 hx).1)
      (fun s x w hi hx he => empS_spec g0 s x w hi (List.mem_filter.1 hx).2 he)
      _ h false _ hk
    intro e he x hx hsk
    obtain ⟨y, hy, d, e1, hd, hf, e2⟩ := SG.mem_assignedValues h.s _ e he
    obtain ⟨hyv, hys⟩ := List.mem_filter.1 hy
    have hxy : x ≠ y := by
      intro exy
      rw [e1] at hsk
      simp [skips, exy] at hsk
    rw [e2, ← sparse_fixed_val g0 h vars a hk y hyv hys d hd hf]
    exact fun e => hxy (inj_of_nodup_map a vars hn x (List.mem_filter.1 hx).1 y hyv e)

theorem crossStage_sound (g0 h : HG) (vars : List Nat) (a : Nat → Int) (hn : (vars.map a).Nodup)
    (hi0 : HInv g0) (hk : Keeps HMem (HInvK g0) vars a h) :
    (h.crossStage (vars.filter g0.inBits) (vars.filter g0.inSparse)).2.2 = true ∧
    Keeps HMem (HInvK g0) vars a (h.crossStage (vars.filter g0.inBits) (vars.filter g0.inSparse)).1 := by
  have hdiff : ∀ x y, g0.inBits y = true → g0.inSparse x = true → x ≠ y := by
    intro x y hy hx e
    rw [e] at hx
    have := not_inBits_of_inSparse g0 hi0 y hx
    rw [hy] at this
    cases this
  unfold crossStage
  by_cases hc : (!(vars.filter g0.inBits).isEmpty && !(vars.filter g0.inSparse).isEmpty) = true
  · rw [if_pos hc]
    unfold crossPropagate
    have h1 := elimOuter_sound rmS empS HMem (HInvK g0) vars a (fun s x v hi => rmS_spec g0 s x v hi)
      (vars.filter g0.inSparse) (fun x hx => (List.mem_filter.1 hx).1)
      (fun s x w hi hx he => empS_spec g0 s x w hi (List.mem_filter.1 hx).2 he)
      (h.bitsAssigned (vars.filter g0.inBits)) h false
      (by
        intro e he x hx _
        unfold bitsAssigned at he
        obtain ⟨y, hy, hf⟩ := List.mem_filterMap.1 he
        obtain ⟨hyv, hyb⟩ := List.mem_filter.1 hy
        cases hv : h.b.assignedValue y with
        | none => rw [hv] at hf; cases hf
        | some v =>
          rw [hv] at hf
          simp only [Option.map_some, Option.some.injEq] at hf
          subst hf
          show a x ≠ v
          rw [← bits_fixed_val g0 h vars a hk y hyv hyb v hv]
          obtain ⟨hxv, hxs⟩ := List.mem_filter.1 hx
          exact fun e => hdiff x y hyb hxs (inj_of_nodup_map a vars hn x hxv y hyv e))
      hk
    simp only []
    rw [if_pos h1.1]
    apply elimOuter_sound rmB empB HMem (HInvK g0) vars a (fun s x v hi => rmB_spec g0 s x v hi)
      (vars.filter g0.inBits) (fun x hx => (List.mem_filter.1 hx).1)
      (fun s x w hi hx he => empB_spec g0 s x w hi (List.mem_filter.1 hx).2 he)
      _ _ _ _ h1.2
    intro e he x hx _
    unfold sparseAssigned at he
    obtain ⟨e', he', rfl⟩ := List.mem_map.1 he
    obtain ⟨y, hy, d, _, hd, hf, e2⟩ := SG.mem_assignedValues _ _ e' he'
    obtain ⟨hyv, hys⟩ := List.mem_filter.1 hy
    obtain ⟨hxv, hxb⟩ := List.mem_filter.1 hx
    show a x ≠ e'.2
    rw [e2, ← sparse_fixed_val g0 _ vars a h1.2 y hyv hys d hd hf]
    exact fun e => hdiff y x hxb hys (inj_of_nodup_map a vars hn x hxv y hyv e).symm
  · rw [if_neg hc]; exact ⟨rfl, hk⟩

/-- **the hybrid engine is sound** on well-formed states -/
theorem propagateAlldiff_sound (g : HG) (vars : List Nat) (a : Nat → Int) (hi : HInv g)
    (hs : Sol (HMem g) vars a) :
    (g.propagateAlldiff vars).2.2 = true ∧ Sol (HMem (g.propagateAlldiff vars).1) vars a ∧
    HInv (g.propagateAlldiff vars).1 := by
  unfold propagateAlldiff
  by_cases he : vars.isEmpty = true
  · rw [if_pos he]; exact ⟨rfl, hs, hi⟩
  · rw [if_neg he]
    have h1 := bitsStage_sound g vars a hi hs
    have h2 := sparseStage_sound g _ vars a hs.1 h1.2
    have h3 := crossStage_sound g _ vars a hs.1 hi h2.2
    simp only [h1.1, h2.1, h3.1, Bool.not_true, Bool.false_eq_true, if_false]
    exact ⟨trivial, ⟨hs.1, h3.2.2⟩, h3.2.1.1⟩

end HG

/-! ### `HInv` holds along every history that adds each variable once -/

theorem SS.newFromValues_wf (vs : List Int) : (SS.newFromValues vs).WF := by
  unfold SS.newFromValues
  by_cases h : vs.isEmpty = true
  · rw [if_pos h]; exact SS.empty_wf 0
  · rw [if_neg h]; exact (SS.foldl_remove'_spec _ _ (SS.new_wf _ _)).1

theorem BG.sizeOp_keys (g : BG) (x : Nat) (f : BSD → BSD) (y : Nat) :
    ((g.sizeOp x f).1.dom y).isSome = (g.dom y).isSome := by
  unfold BG.sizeOp
  cases hx : g.dom x with
  | none => rfl
  | some d =>
    by_cases hy : y = x
    · subst hy; simp [setDom, hx]
    · simp [setDom, hy]

/-- a sparse store in which `x` is replaced by a well-formed set (or nothing happens) -/
theorem HInv_setSparse (g : HG) (hi : HInv g) (x : Nat) (d' : SS) (hx : (g.s.dom x).isSome = true) (hwf : d'.WF) :
    HInv { g with s := { g.s with dom := setDom g.s.dom x d' } } := by
  refine ⟨?_, ?_⟩
  · intro y d hd
    by_cases hy : y = x
    · subst hy
      simp [setDom] at hd
      subst hd; exact hwf
    · simp [setDom, hy] at hd; exact hi.wf y d hd
  · intro y hy
    have := hi.disj y hy
    by_cases hyx : y = x
    · subst hyx; rw [this] at hx; cases hx
    · simp [setDom, hyx, this]

theorem HInv_setBits (g : HG) (hi : HInv g) (b' : BG) (hk : ∀ y, (b'.dom y).isSome = (g.b.dom y).isSome) :
    HInv { g with b := b' } :=
  ⟨hi.wf, fun y hy => hi.disj y (by unfold HG.inBits at hy ⊢; rw [← hk y]; exact hy)⟩

namespace HG

theorem HInv_new : HInv HG.new :=
  { wf := fun x d h => by simp [HG.new, SG.new] at h, disj := fun x h => by simp [HG.new, BG.new, inBits] at h }

theorem HInv_addVariable (g g' : HG) (x : Nat) (lo hi : Int) (hinv : HInv g)
    (hb : g.inBits x = false) (hs : g.inSparse x = false) (h : g.addVariable x lo hi = .ok g') : HInv g' := by
  unfold addVariable at h
  split at h
  · cases h
  · split at h
    · cases h
    · split at h
      · cases h
        refine ⟨hinv.wf, ?_⟩
        intro y hy
        by_cases hyx : y = x
        · subst hyx
          unfold inSparse at hs
          cases hd : g.s.dom y with
          | none => rfl
          | some d => rw [hd] at hs; cases hs
        · apply hinv.disj y
          unfold inBits BG.addVariable at hy
          simp [setDom, hyx] at hy
          unfold inBits
          simpa using hy
      · cases h
        refine ⟨?_, ?_⟩
        · intro y d hd
          unfold SG.addVariable at hd
          by_cases hyx : y = x
          · subst hyx
            simp [setDom] at hd
            subst hd; exact SS.new_wf _ _
          · simp [setDom, hyx] at hd; exact hinv.wf y d hd
        · intro y hy
          have hyx : y ≠ x := by
            intro e
            subst e
            have : g.inBits y = true := hy
            rw [hb] at this
            cases this
          have := hinv.disj y hy
          unfold SG.addVariable
          simp [setDom, hyx, this]

theorem HInv_addVariableWithValues (g g' : HG) (x : Nat) (vs : List Int) (hinv : HInv g)
    (hb : g.inBits x = false) (hs : g.inSparse x = false) (h : g.addVariableWithValues x vs = .ok g') : HInv g' := by
  unfold addVariableWithValues at h
  split at h
  · cases h
  · split at h
    · cases h
    · split at h
      · cases h
        refine ⟨hinv.wf, ?_⟩
        intro y hy
        by_cases hyx : y = x
        · subst hyx
          unfold inSparse at hs
          cases hd : g.s.dom y with
          | none => rfl
          | some d => rw [hd] at hs; cases hs
        · apply hinv.disj y
          unfold inBits BG.addVariableWithValues at hy
          simp [setDom, hyx] at hy
          unfold inBits
          simpa using hy
      · cases h
        refine ⟨?_, ?_⟩
        · intro y d hd
          unfold SG.addVariableWithValues at hd
          by_cases hyx : y = x
          · subst hyx
            simp [setDom] at hd
            subst hd; exact SS.newFromValues_wf _
          · simp [setDom, hyx] at hd; exact hinv.wf y d hd
        · intro y hy
          have hyx : y ≠ x := by
            intro e
            subst e
            have : g.inBits y = true := hy
            rw [hb] at this
            cases this
          have := hinv.disj y hy
          unfold SG.addVariableWithValues
          simp [setDom, hyx, this]

theorem HInv_removeValue (g : HG) (x : Nat) (v : Int) (hinv : HInv g) : HInv (g.removeValue x v).1 := by
  unfold removeValue
  by_cases hb : g.inBits x = true
  · rw [if_pos hb]
    exact HInv_setBits g hinv _ (fun y => BG.removeValue_keys g.b x v y)
  · rw [if_neg hb]
    by_cases hs : g.inSparse x = true
    · rw [if_pos hs]
      unfold liftS SG.removeValue
      cases hd : g.s.dom x with
      | none => exact hinv
      | some d =>
        exact HInv_setSparse g hinv x _ (by rw [hd]; rfl) (SS.remove'_spec d v (hinv.wf x d hd)).1
    · rw [if_neg hs]; exact hinv

theorem HInv_assignVariable (g : HG) (x : Nat) (v : Int) (hinv : HInv g) : HInv (g.assignVariable x v).1 := by
  unfold assignVariable
  by_cases hb : g.inBits x = true
  · rw [if_pos hb]
    exact HInv_setBits g hinv _ (fun y => BG.sizeOp_keys g.b x _ y)
  · rw [if_neg hb]
    by_cases hs : g.inSparse x = true
    · rw [if_pos hs]
      unfold liftS SG.assignVariable
      cases hd : g.s.dom x with
      | none => exact hinv
      | some d =>
        simp only []
        by_cases hc : d.contains v = true
        · rw [if_pos hc]
          exact HInv_setSparse g hinv x _ (by rw [hd]; rfl) (SS.removeAllBut_spec d v (hinv.wf x d hd)).1
        · rw [if_neg hc]; exact hinv
    · rw [if_neg hs]; exact hinv

theorem HInv_removeAbove (g : HG) (x : Nat) (t : Int) (hinv : HInv g) : HInv (g.removeAbove x t).1 := by
  unfold removeAbove
  by_cases hb : g.inBits x = true
  · rw [if_pos hb]
    exact HInv_setBits g hinv _ (fun y => BG.sizeOp_keys g.b x _ y)
  · rw [if_neg hb]
    by_cases hs : g.inSparse x = true
    · rw [if_pos hs]
      unfold liftS SG.removeAbove SG.sizeOp
      cases hd : g.s.dom x with
      | none => exact hinv
      | some d =>
        exact HInv_setSparse g hinv x _ (by rw [hd]; rfl) (SS.removeAbove_spec d t (hinv.wf x d hd)).1
    · rw [if_neg hs]; exact hinv

theorem HInv_removeBelow (g : HG) (x : Nat) (t : Int) (hinv : HInv g) : HInv (g.removeBelow x t).1 := by
  unfold removeBelow
  by_cases hb : g.inBits x = true
  · rw [if_pos hb]
    exact HInv_setBits g hinv _ (fun y => BG.sizeOp_keys g.b x _ y)
  · rw [if_neg hb]
    by_cases hs : g.inSparse x = true
    · rw [if_pos hs]
      unfold liftS SG.removeBelow SG.sizeOp
      cases hd : g.s.dom x with
      | none => exact hinv
      | some d =>
        exact HInv_setSparse g hinv x _ (by rw [hd]; rfl) (SS.removeBelow_spec d t (hinv.wf x d hd)).1
    · rw [if_neg hs]; exact hinv

/-- propagation preserves well-formedness (no satisfiability assumption) -/
theorem HInv_propagateAlldiff (g : HG) (vars : List Nat) (hinv : HInv g) : HInv (g.propagateAlldiff vars).1 := by
  have hK0 : HInvK g g := ⟨hinv, fun _ => rfl, fun _ => rfl⟩
  have hS : ∀ (h : HG) (vs : List Nat) es ch, HInvK g h → HInvK g (elimOuter rmS empS vs es h ch).1 :=
    fun h vs es ch hk => elimOuter_inv rmS empS (HInvK g) (fun s x v hs => (rmS_spec g s x v hs).1) vs es h ch hk
  have hB : ∀ (h : HG) (vs : List Nat) es ch, HInvK g h → HInvK g (elimOuter rmB empB vs es h ch).1 :=
    fun h vs es ch hk => elimOuter_inv rmB empB (HInvK g) (fun s x v hs => (rmB_spec g s x v hs).1) vs es h ch hk
  have h1 : ∀ bv, HInvK g (g.bitsStage bv).1 := by
    intro bv
    unfold bitsStage
    by_cases he : bv.isEmpty = true
    · rw [if_pos he]; exact hK0
    · rw [if_neg he]
      have hk : ∀ x, ({ g with b := (g.b.propagateAlldiff bv).1 } : HG).inBits x = g.inBits x :=
        fun x => BG.propagateAlldiff_keys g.b bv x
      exact ⟨HInv_setBits g hinv _ (fun y => BG.propagateAlldiff_keys g.b bv y), hk, fun _ => rfl⟩
  have h2 : ∀ (h : HG) sv, HInvK g h → HInvK g (h.sparseStage sv).1 := by
    intro h sv hk
    unfold sparseStage
    by_cases he : sv.isEmpty = true
    · rw [if_pos he]; exact hk
    · rw [if_neg he]; exact hS h sv _ false hk
  have h3 : ∀ (h : HG) bv sv, HInvK g h → HInvK g (h.crossStage bv sv).1 := by
    intro h bv sv hk
    unfold crossStage
    by_cases hc : (!bv.isEmpty && !sv.isEmpty) = true
    · rw [if_pos hc]
      unfold crossPropagate
      simp only []
      split
      · exact hB _ bv _ _ (hS h sv _ false hk)
      · exact hS h sv _ false hk
    · rw [if_neg hc]; exact hk
  unfold propagateAlldiff
  by_cases he : vars.isEmpty = true
  · rw [if_pos he]; exact hinv
  · rw [if_neg he]
    simp only []
    split
    · exact (h1 _).1
    · split
      · exact (h2 _ _ (h1 _)).1
      · split
        · exact (h3 _ _ _ (h2 _ _ (h1 _))).1
        · exact (h3 _ _ _ (h2 _ _ (h1 _))).1

end HG

/-! ### bounds of bit-set domains (ascending `vals`) -/

def BSD.Sorted (d : BSD) : Prop := d.vals.Pairwise (fun x y => x < y)

/-- every stored bit-set domain satisfies `P` -/
def BG.All (P : BSD → Prop) (g : BG) : Prop := ∀ x d, g.dom x = some d → P d

theorem sorted_head_le (l : List Int) (m : Int) (hs : l.Pairwise (fun x y => x < y)) (hm : l.head? = some m) :
    ∀ w ∈ l, m ≤ w := by
  cases l with
  | nil => cases hm
  | cons x xs =>
    simp only [List.head?_cons, Option.some.injEq] at hm
    subst hm
    intro w hw
    rcases List.mem_cons.1 hw with rfl | hw'
    · exact Int.le_refl _
    · exact Int.le_of_lt (List.rel_of_pairwise_cons hs hw')

theorem sorted_le_last (l : List Int) (m : Int) (hs : l.Pairwise (fun x y => x < y)) (hm : l.getLast? = some m) :
    ∀ w ∈ l, w ≤ m := by
  obtain ⟨ys, rfl⟩ := List.getLast?_eq_some_iff.1 hm
  intro w hw
  rcases List.mem_append.1 hw with hw' | hw'
  · exact Int.le_of_lt ((List.pairwise_append.1 hs).2.2 w hw' m (List.mem_singleton.2 rfl))
  · rw [List.mem_singleton.1 hw']; exact Int.le_refl _

theorem intRange_sorted (lo hi : Int) : (SS.intRange lo hi).Pairwise (fun x y => x < y) := by
  unfold SS.intRange
  rw [List.pairwise_map]
  exact List.Pairwise.imp (fun h => by omega) List.pairwise_lt_range

namespace BSD

theorem remove_sorted (d : BSD) (v : Int) (h : d.Sorted) : (d.remove v).1.Sorted := by
  unfold remove
  by_cases hu : d.inUniverse v = true
  · rw [if_pos hu]; exact List.Pairwise.filter _ h
  · rw [if_neg hu]; exact h

theorem removeMany_closed (P : BSD → Prop) (hP : ∀ d v, P d → P (d.remove v).1) (vs : List Int) :
    ∀ d : BSD, P d → P (d.removeMany vs).1 := by
  unfold removeMany
  suffices h : ∀ (vs : List Int) (p : BSD × Bool), P p.1 →
      P (vs.foldl (fun (p : BSD × Bool) v => ((p.1.remove v).1, p.2 || (p.1.remove v).2)) p).1 from
    fun d hd => h vs (d, false) hd
  intro vs
  induction vs with
  | nil => intro p hp; exact hp
  | cons v vs ih => intro p hp; rw [List.foldl_cons]; exact ih _ (hP _ _ hp)

theorem new_sorted (lo hi : Int) : (BSD.new lo hi).Sorted := by
  unfold BSD.new
  simp only []
  split <;> split
  · exact List.Pairwise.nil
  · exact intRange_sorted _ _
  · exact List.Pairwise.nil
  · exact intRange_sorted _ _

theorem new_contains (lo hi v : Int) (hle : lo ≤ hi) (hsz : hi - lo + 1 ≤ 128) :
    (BSD.new lo hi).contains v = true ↔ lo ≤ v ∧ v ≤ hi := by
  have h1 : ¬ lo > hi := by omega
  unfold BSD.new
  simp only [if_neg h1]
  have h2 : ¬ (hi - lo + 1).toNat > 128 := by omega
  rw [if_neg h2]
  rw [contains_iff]
  simp only [SS.mem_intRange]
  omega

/-- the reported bounds enclose every member -/
theorem min_max_bounds (d : BSD) (hs : d.Sorted) (w : Int) (hw : d.contains w = true) (mn mx : Int)
    (hmn : d.min = some mn) (hmx : d.max = some mx) : mn ≤ w ∧ w ≤ mx :=
  ⟨sorted_head_le d.vals mn hs hmn w (mem_vals_of_contains d w hw),
   sorted_le_last d.vals mx hs hmx w (mem_vals_of_contains d w hw)⟩

theorem min_max_some (d : BSD) (w : Int) (hw : d.contains w = true) : ∃ mn mx, d.min = some mn ∧ d.max = some mx := by
  have hm := mem_vals_of_contains d w hw
  unfold min max
  cases hv : d.vals with
  | nil => rw [hv] at hm; cases hm
  | cons x xs =>
    refine ⟨x, (x :: xs).getLast (by simp), rfl, ?_⟩
    exact List.getLast?_eq_some_getLast (by simp)

end BSD

namespace BG

theorem removeValue_all (P : BSD → Prop) (hP : ∀ d v, P d → P (d.remove v).1) (g : BG) (x : Nat) (v : Int)
    (h : All P g) : All P (g.removeValue x v).1 := by
  intro y d hd
  rw [removeValue_dom] at hd
  by_cases hy : y = x
  · rw [if_pos hy] at hd
    cases hx : g.dom x with
    | none => rw [hx] at hd; cases hd
    | some d0 =>
      rw [hx] at hd
      simp only [Option.map_some, Option.some.injEq] at hd
      subst hd
      exact hP _ _ (h x d0 hx)
  · rw [if_neg hy] at hd; exact h y d hd

theorem hallApply_all (P : BSD → Prop) (hP : ∀ d v, P d → P (d.remove v).1) (S : List Nat) (U : List Int) :
    ∀ (xs : List Nat) (g : BG) (ch : Bool), All P g → All P (hallApply S U xs g ch).1 := by
  intro xs
  induction xs with
  | nil => intro g ch h; exact h
  | cons x xs ih =>
    intro g ch h
    unfold hallApply
    by_cases hc : S.contains x = true
    · rw [if_pos hc]; exact ih g ch h
    · rw [if_neg hc]
      cases hd : g.dom x with
      | none => exact ih g ch h
      | some d =>
        have hk : All P { g with dom := setDom g.dom x (d.removeMany U).1 } := by
          intro y d' hd'
          by_cases hyx : y = x
          · subst hyx
            simp [setDom] at hd'
            subst hd'
            exact BSD.removeMany_closed P hP U d (h y d hd)
          · simp [setDom, hyx] at hd'; exact h y d' hd'
        simp only []
        by_cases hr : (d.removeMany U).2 = true
        · rw [if_pos hr]
          by_cases he : (d.removeMany U).1.isEmpty = true
          · rw [if_pos he]; exact hk
          · rw [if_neg he]; exact ih _ _ hk
        · rw [if_neg hr]; exact ih _ _ hk

theorem hallSubsets_all (P : BSD → Prop) (hP : ∀ d v, P d → P (d.remove v).1) (vars : List Nat) :
    ∀ (fam : List (List Nat)) (g : BG) (ch : Bool), All P g → All P (hallSubsets vars fam g ch).1 := by
  intro fam
  induction fam with
  | nil => intro g ch h; exact h
  | cons S fam ih =>
    intro g ch h
    unfold hallSubsets
    by_cases hl : (S.length == (g.unionVals S).length) = true
    · rw [if_pos hl]
      have h1 := hallApply_all P hP S (g.unionVals S) vars g ch h
      by_cases hok : (hallApply S (g.unionVals S) vars g ch).2.2 = true
      · rw [if_pos hok]; exact ih _ _ h1
      · rw [if_neg hok]; exact h1
    · rw [if_neg hl]; exact ih g ch h

theorem propagateAlldiff_all (P : BSD → Prop) (hP : ∀ d v, P d → P (d.remove v).1) (g : BG) (vars : List Nat)
    (h : All P g) : All P (g.propagateAlldiff vars).1 := by
  have he : ∀ es, All P (elimOuter removeValue isInconsistent vars es g false).1 :=
    fun es => elimOuter_inv removeValue isInconsistent (All P)
      (fun s x v hs => removeValue_all P hP s x v hs) vars es g false h
  have hh : ∀ g' : BG, All P g' → All P (g'.propagateHallSets vars).1 := by
    intro g' hg'
    unfold propagateHallSets
    by_cases h6 : vars.length ≤ 6
    · rw [if_pos h6]; exact hallSubsets_all P hP vars _ g' false hg'
    · rw [if_neg h6]; exact hg'
  unfold propagateAlldiff
  by_cases h1 : vars.length ≤ 1
  · rw [if_pos h1]; exact h
  · rw [if_neg h1]
    simp only []
    split
    · split
      · exact hh _ (he _)
      · exact hh _ (he _)
    · exact he _

end BG

/-- the hybrid engine keeps every stored bit-set domain inside `P` (e.g. ascending) -/
theorem HG.propagateAlldiff_all (P : BSD → Prop) (hP : ∀ d v, P d → P (d.remove v).1) (g : HG) (vars : List Nat)
    (h : BG.All P g.b) : BG.All P (g.propagateAlldiff vars).1.b := by
  have hS : ∀ (h' : HG) (vs : List Nat) es ch, BG.All P h'.b → BG.All P (elimOuter HG.rmS HG.empS vs es h' ch).1.b :=
    fun h' vs es ch hk => elimOuter_inv HG.rmS HG.empS (fun s => BG.All P s.b) (fun s x v hs => hs) vs es h' ch hk
  have hB : ∀ (h' : HG) (vs : List Nat) es ch, BG.All P h'.b → BG.All P (elimOuter HG.rmB HG.empB vs es h' ch).1.b :=
    fun h' vs es ch hk => elimOuter_inv HG.rmB HG.empB (fun s => BG.All P s.b)
      (fun s x v hs => BG.removeValue_all P hP s.b x v hs) vs es h' ch hk
  have h1 : ∀ bv, BG.All P (g.bitsStage bv).1.b := by
    intro bv
    unfold HG.bitsStage
    by_cases he : bv.isEmpty = true
    · rw [if_pos he]; exact h
    · rw [if_neg he]; exact BG.propagateAlldiff_all P hP g.b bv h
  have h2 : ∀ (h' : HG) sv, BG.All P h'.b → BG.All P (h'.sparseStage sv).1.b := by
    intro h' sv hk
    unfold HG.sparseStage
    by_cases he : sv.isEmpty = true
    · rw [if_pos he]; exact hk
    · rw [if_neg he]; exact hS h' sv _ false hk
  have h3 : ∀ (h' : HG) bv sv, BG.All P h'.b → BG.All P (h'.crossStage bv sv).1.b := by
    intro h' bv sv hk
    unfold HG.crossStage
    by_cases hc : (!bv.isEmpty && !sv.isEmpty) = true
    · rw [if_pos hc]
      unfold HG.crossPropagate
      simp only []
      split
      · exact hB _ bv _ _ (hS h' sv _ false hk)
      · exact hS h' sv _ false hk
    · rw [if_neg hc]; exact hk
  unfold HG.propagateAlldiff
  by_cases he : vars.isEmpty = true
  · rw [if_pos he]; exact h
  · rw [if_neg he]
    simp only []
    split
    · exact h1 _
    · split
      · exact h2 _ _ (h1 _)
      · split
        · exact h3 _ _ _ (h2 _ _ (h1 _))
        · exact h3 _ _ _ (h2 _ _ (h1 _))

/-! ### `AllDiff::prune` on bounds -/

/-- `v` lies in the `i`-th interval -/
def IMem (bs : List (Int × Int)) (i : Nat) (v : Int) : Prop := ∃ b, bs[i]? = some b ∧ b.1 ≤ v ∧ v ≤ b.2

namespace HG

theorem addVariable_spec (g g1 : HG) (x : Nat) (lo hi : Int) (hinv : HInv g) (hsorted : BG.All BSD.Sorted g.b)
    (hb : g.inBits x = false) (hs : g.inSparse x = false) (h : g.addVariable x lo hi = .ok g1) :
    HInv g1 ∧ BG.All BSD.Sorted g1.b ∧
    (∀ y, y ≠ x → g1.inBits y = g.inBits y ∧ g1.inSparse y = g.inSparse y) ∧
    (∀ y v, y ≠ x → HMem g y v → HMem g1 y v) ∧ (∀ v, lo ≤ v → v ≤ hi → HMem g1 x v) := by
  have hinv1 := HInv_addVariable g g1 x lo hi hinv hb hs h
  refine ⟨hinv1, ?_⟩
  unfold addVariable at h
  split at h
  · cases h
  · rename_i hle
    split at h
    · cases h
    · split at h
      · rename_i hsz
        cases h
        refine ⟨?_, ?_, ?_, ?_⟩
        · intro y d hd
          by_cases hyx : y = x
          · subst hyx
            simp [BG.addVariable, setDom] at hd
            subst hd; exact BSD.new_sorted _ _
          · simp [BG.addVariable, setDom, hyx] at hd; exact hsorted y d hd
        · intro y hyx
          exact ⟨by simp [inBits, BG.addVariable, setDom, hyx], rfl⟩
        · intro y v hyx hm
          unfold HMem at hm ⊢
          have e1 : ({ g with b := g.b.addVariable x lo hi } : HG).inBits y = g.inBits y := by
            simp [inBits, BG.addVariable, setDom, hyx]
          rw [e1]
          by_cases hby : g.inBits y = true
          · rw [if_pos hby] at hm ⊢
            obtain ⟨d, hd, hc⟩ := hm
            exact ⟨d, by simp [BG.addVariable, setDom, hyx, hd], hc⟩
          · rw [if_neg hby] at hm ⊢; exact hm
        · intro v h1 h2
          unfold HMem
          have e1 : ({ g with b := g.b.addVariable x lo hi } : HG).inBits x = true := by
            simp [inBits, BG.addVariable, setDom]
          rw [if_pos e1]
          exact ⟨BSD.new lo hi, by simp [BG.addVariable, setDom],
            (BSD.new_contains lo hi v (by omega) (by omega)).2 ⟨h1, h2⟩⟩
      · cases h
        refine ⟨hsorted, ?_, ?_, ?_⟩
        · intro y hyx
          exact ⟨rfl, by simp [inSparse, SG.addVariable, setDom, hyx]⟩
        · intro y v hyx hm
          unfold HMem at hm ⊢
          have e1 : ({ g with s := g.s.addVariable x lo hi } : HG).inBits y = g.inBits y := rfl
          rw [e1]
          by_cases hby : g.inBits y = true
          · rw [if_pos hby] at hm ⊢; exact hm
          · rw [if_neg hby] at hm ⊢
            obtain ⟨d, hd, hc⟩ := hm
            exact ⟨d, by simp [SG.addVariable, setDom, hyx, hd], hc⟩
        · intro v h1 h2
          unfold HMem
          have e1 : ({ g with s := g.s.addVariable x lo hi } : HG).inBits x = false := hb
          rw [e1]
          simp only [Bool.false_eq_true, if_false]
          exact ⟨SS.new lo hi, by simp [SG.addVariable, setDom], (SS.new_mem lo hi (by omega) v).2 ⟨h1, h2⟩⟩

end HG

theorem addAll_spec : ∀ (bs : List (Int × Int)) (i0 : Nat) (g g' : HG),
    HInv g → BG.All BSD.Sorted g.b → (∀ x, i0 ≤ x → g.inBits x = false ∧ g.inSparse x = false) →
    addAll bs i0 g = some g' →
    HInv g' ∧ BG.All BSD.Sorted g'.b ∧
    (∀ y v, y < i0 → HMem g y v → HMem g' y v) ∧
    (∀ k b v, bs[k]? = some b → b.1 ≤ v → v ≤ b.2 → HMem g' (i0 + k) v) := by
  intro bs
  induction bs with
  | nil =>
    intro i0 g g' hinv hso _ h
    simp only [addAll, Option.some.injEq] at h
    subst h
    exact ⟨hinv, hso, fun _ _ _ hm => hm, fun k b v hk => by simp at hk⟩
  | cons p rest ih =>
    intro i0 g g' hinv hso hfresh h
    obtain ⟨lo, hi⟩ := p
    unfold addAll at h
    cases ha : g.addVariable i0 lo hi with
    | err => rw [ha] at h; cases h
    | panic => rw [ha] at h; cases h
    | ok g1 =>
      rw [ha] at h
      simp only [] at h
      obtain ⟨f1, f2⟩ := hfresh i0 (Nat.le_refl _)
      obtain ⟨a1, a2, a3, a4, a5⟩ := HG.addVariable_spec g g1 i0 lo hi hinv hso f1 f2 ha
      have hfresh1 : ∀ x, i0 + 1 ≤ x → g1.inBits x = false ∧ g1.inSparse x = false := by
        intro x hx
        have hne : x ≠ i0 := by omega
        obtain ⟨e1, e2⟩ := a3 x hne
        obtain ⟨e3, e4⟩ := hfresh x (by omega)
        exact ⟨by rw [e1, e3], by rw [e2, e4]⟩
      obtain ⟨b1, b2, b3, b4⟩ := ih (i0 + 1) g1 g' a1 a2 hfresh1 h
      refine ⟨b1, b2, ?_, ?_⟩
      · intro y v hy hm
        exact b3 y v (by omega) (a4 y v (by omega) hm)
      · intro k b v hk h1 h2
        cases k with
        | zero =>
          simp only [List.getElem?_cons_zero, Option.some.injEq] at hk
          subst hk
          exact b3 i0 v (by omega) (a5 v h1 h2)
        | succ k =>
          simp only [List.getElem?_cons_succ] at hk
          have := b4 k b v hk h1 h2
          have e : i0 + (k + 1) = i0 + 1 + k := by omega
          rw [e]; exact this

theorem writeBack_eq (old nb : Int × Int) (L H : Int) (hL : (if nb.1 > old.1 then nb.1 else old.1) = L)
    (hH : (if nb.2 < old.2 then nb.2 else old.2) = H) :
    writeBack old nb = if L > old.2 then none else if H < L then none else some (L, H) := by
  unfold writeBack
  simp only [hL, hH]

theorem writeBack_sound (old nb : Int × Int) (w : Int) (h1 : old.1 ≤ w ∧ w ≤ old.2) (h2 : nb.1 ≤ w ∧ w ≤ nb.2) :
    ∃ b', writeBack old nb = some b' ∧ b'.1 ≤ w ∧ w ≤ b'.2 := by
  obtain ⟨L, hL, hL1⟩ : ∃ L, (if nb.1 > old.1 then nb.1 else old.1) = L ∧ L ≤ w := by
    split <;> exact ⟨_, rfl, by omega⟩
  obtain ⟨H, hH, hH1⟩ : ∃ H, (if nb.2 < old.2 then nb.2 else old.2) = H ∧ w ≤ H := by
    split <;> exact ⟨_, rfl, by omega⟩
  rw [writeBack_eq old nb L H hL hH, if_neg (by omega), if_neg (by omega)]
  exact ⟨_, rfl, hL1, hH1⟩

theorem writeBack_contracting (old nb b' : Int × Int) (h : writeBack old nb = some b') :
    old.1 ≤ b'.1 ∧ b'.2 ≤ old.2 ∧ b'.1 ≤ b'.2 := by
  obtain ⟨L, hL, hL1⟩ : ∃ L, (if nb.1 > old.1 then nb.1 else old.1) = L ∧ old.1 ≤ L := by
    split <;> exact ⟨_, rfl, by omega⟩
  obtain ⟨H, hH, hH1⟩ : ∃ H, (if nb.2 < old.2 then nb.2 else old.2) = H ∧ H ≤ old.2 := by
    split <;> exact ⟨_, rfl, by omega⟩
  rw [writeBack_eq old nb L H hL hH] at h
  by_cases c1 : L > old.2
  · rw [if_pos c1] at h; cases h
  · rw [if_neg c1] at h
    by_cases c2 : H < L
    · rw [if_pos c2] at h; cases h
    · rw [if_neg c2] at h
      cases h
      exact ⟨hL1, hH1, by show L ≤ H; omega⟩

theorem writeOne_sound (g : HG) (i : Nat) (old : Int × Int) (w : Int) (hinv : HInv g)
    (hso : BG.All BSD.Sorted g.b) (hm : HMem g i w) (h1 : old.1 ≤ w ∧ w ≤ old.2) :
    ∃ b', writeOne g i old = some b' ∧ b'.1 ≤ w ∧ w ≤ b'.2 := by
  unfold writeOne
  unfold HMem at hm
  by_cases hb : g.inBits i = true
  · rw [if_pos hb] at hm
    obtain ⟨d, hd, hc⟩ := hm
    have e1 : g.isAssigned i = d.isFixed := by simp [HG.isAssigned, hb, BG.isAssigned, hd]
    have e2 : g.assignedValue i = d.fixedValue := by simp [HG.assignedValue, hb, BG.assignedValue, hd]
    rw [e1, e2]
    by_cases hf : d.isFixed = true
    · rw [if_pos hf]
      cases hv : d.fixedValue with
      | none => exact ⟨old, rfl, h1⟩
      | some v =>
        have := BSD.eq_of_fixed d v w hf hv hc
        subst this
        exact writeBack_sound old (w, w) w h1 ⟨Int.le_refl _, Int.le_refl _⟩
    · rw [if_neg hf]
      obtain ⟨mn, mx, hmn, hmx⟩ := BSD.min_max_some d w hc
      have e3 : g.getBounds i = some (mn, mx) := by simp [HG.getBounds, hb, BG.getBounds, hd, hmn, hmx]
      rw [e3]
      exact writeBack_sound old (mn, mx) w h1 (BSD.min_max_bounds d (hso i d hd) w hc mn mx hmn hmx)
  · rw [if_neg hb] at hm
    obtain ⟨d, hd, hmem⟩ := hm
    have hbf : g.inBits i = false := by simpa using hb
    have e1 : g.isAssigned i = d.isFixed := by simp [HG.isAssigned, hbf, hd]
    have e2 : g.assignedValue i = (if d.isFixed then some d.minV else none) := by simp [HG.assignedValue, hbf, hd]
    have e3 : g.getBounds i = (if !d.isEmpty then some (d.minV, d.maxV) else none) := by simp [HG.getBounds, hbf, hd]
    rw [e1, e2, e3]
    have hwf := hinv.wf i d hd
    by_cases hf : d.isFixed = true
    · rw [if_pos hf, if_pos hf]
      have := SS.eq_minV_of_fixed d w hwf hf hmem
      rw [← this]
      exact writeBack_sound old (w, w) w h1 ⟨Int.le_refl _, Int.le_refl _⟩
    · rw [if_neg hf]
      have hne : d.isEmpty = false := by
        cases he : d.isEmpty
        · rfl
        · exact absurd hmem (SS.not_mem_of_isEmpty d w he)
      rw [hne]
      simp only [Bool.not_false, if_true]
      have hsz : d.size ≠ 0 := by
        unfold SS.isEmpty at hne
        simpa using hne
      exact writeBack_sound old (d.minV, d.maxV) w h1 ((SS.mem_bounds d hwf hsz).2.2 w hmem)

theorem writeOne_contracting (g : HG) (i : Nat) (old b' : Int × Int) (h : writeOne g i old = some b') :
    old.1 ≤ b'.1 ∧ b'.2 ≤ old.2 := by
  unfold writeOne at h
  split at h
  · split at h
    · exact ⟨(writeBack_contracting _ _ _ h).1, (writeBack_contracting _ _ _ h).2.1⟩
    · cases h; exact ⟨Int.le_refl _, Int.le_refl _⟩
  · split at h
    · exact ⟨(writeBack_contracting _ _ _ h).1, (writeBack_contracting _ _ _ h).2.1⟩
    · cases h

theorem writeAll_sound (g : HG) (a : Nat → Int) (hinv : HInv g) (hso : BG.All BSD.Sorted g.b) :
    ∀ (bs : List (Int × Int)) (i0 : Nat),
      (∀ k b, bs[k]? = some b → HMem g (i0 + k) (a (i0 + k)) ∧ b.1 ≤ a (i0 + k) ∧ a (i0 + k) ≤ b.2) →
      ∃ bs', writeAll g bs i0 = some bs' ∧
        ∀ k b', bs'[k]? = some b' → b'.1 ≤ a (i0 + k) ∧ a (i0 + k) ≤ b'.2 := by
  intro bs
  induction bs with
  | nil => intro i0 _; exact ⟨[], rfl, fun k b' hk => by simp at hk⟩
  | cons b rest ih =>
    intro i0 h
    obtain ⟨hm0, hb0⟩ := h 0 b (by simp)
    obtain ⟨b', e1, hb'⟩ := writeOne_sound g i0 b (a i0) hinv hso hm0 hb0
    obtain ⟨r, e2, hr⟩ := ih (i0 + 1) (by
      intro k c hk
      have := h (k + 1) c (by simpa using hk)
      have e : i0 + (k + 1) = i0 + 1 + k := by omega
      rw [e] at this; exact this)
    refine ⟨b' :: r, ?_, ?_⟩
    · unfold writeAll; rw [e1]; simp only []; rw [e2]
    · intro k c hk
      cases k with
      | zero => simp at hk; subst hk; exact hb'
      | succ k =>
        simp only [List.getElem?_cons_succ] at hk
        have := hr k c hk
        have e : i0 + (k + 1) = i0 + 1 + k := by omega
        rw [e]; exact this

theorem writeAll_contracting (g : HG) : ∀ (bs bs' : List (Int × Int)) (i0 : Nat), writeAll g bs i0 = some bs' →
    bs'.length = bs.length ∧ ∀ (k : Nat) (b b' : Int × Int), bs[k]? = some b → bs'[k]? = some b' → b.1 ≤ b'.1 ∧ b'.2 ≤ b.2 := by
  intro bs
  induction bs with
  | nil =>
    intro bs' i0 h
    simp only [writeAll, Option.some.injEq] at h
    subst h
    exact ⟨rfl, fun k b b' hk => by simp at hk⟩
  | cons b rest ih =>
    intro bs' i0 h
    unfold writeAll at h
    cases e1 : writeOne g i0 b with
    | none => rw [e1] at h; cases h
    | some c =>
      rw [e1] at h
      simp only [] at h
      cases e2 : writeAll g rest (i0 + 1) with
      | none => rw [e2] at h; cases h
      | some r =>
        rw [e2] at h
        simp only [Option.some.injEq] at h
        subst h
        obtain ⟨l1, l2⟩ := ih r (i0 + 1) e2
        refine ⟨by simp [l1], ?_⟩
        intro k x x' hk hk'
        cases k with
        | zero =>
          simp at hk hk'
          subst hk; subst hk'
          exact writeOne_contracting g i0 _ _ e1
        | succ k =>
          simp only [List.getElem?_cons_succ] at hk hk'
          exact l2 k x x' hk hk'

theorem addAll_isSome : ∀ (bs : List (Int × Int)) (i0 : Nat) (g : HG),
    (∀ b ∈ bs, b.1 ≤ b.2 ∧ b.2 - b.1 + 1 ≤ i32Max) → ∃ g', addAll bs i0 g = some g' := by
  intro bs
  induction bs with
  | nil => intro i0 g _; exact ⟨g, rfl⟩
  | cons p rest ih =>
    intro i0 g h
    obtain ⟨lo, hi⟩ := p
    obtain ⟨h1, h2⟩ := h (lo, hi) (List.mem_cons_self ..)
    have h1' : lo ≤ hi := h1
    have h2' : hi - lo + 1 ≤ i32Max := h2
    unfold addAll
    have : ∃ g1, g.addVariable i0 lo hi = .ok g1 := by
      unfold HG.addVariable spanOverflows
      rw [if_neg (by omega)]
      have : decide (hi - lo + 1 > i32Max) = false := by simp; omega
      rw [this]
      simp only [Bool.false_eq_true, if_false]
      split <;> exact ⟨_, rfl⟩
    obtain ⟨g1, e⟩ := this
    rw [e]
    exact ih (i0 + 1) g1 (fun b hb => h b (List.mem_cons_of_mem _ hb))

theorem dedup_length_le (l : List Int) : (dedup l).length ≤ l.length := by
  induction l with
  | nil => exact Nat.le_refl _
  | cons x xs ih =>
    unfold dedup
    split
    · simp only [List.length_cons]; omega
    · simp only [List.length_cons]; omega

/-- if removing duplicates does not shorten the list, it had none -/
theorem nodup_of_dedup_length (l : List Int) (h : l.length ≤ (dedup l).length) : l.Nodup := by
  induction l with
  | nil => exact List.nodup_nil
  | cons x xs ih =>
    unfold dedup at h
    have hle := dedup_length_le xs
    by_cases hc : (dedup xs).contains x = true
    · rw [if_pos hc] at h
      simp only [List.length_cons] at h
      omega
    · rw [if_neg hc] at h
      simp only [List.length_cons] at h
      rw [List.nodup_cons]
      refine ⟨fun hx => hc (List.contains_iff_mem.2 ((mem_dedup xs x).2 hx)), ih (by omega)⟩

theorem intRange_single (lo : Int) : SS.intRange lo (lo + 1) = [lo] := by
  unfold SS.intRange
  have : (lo + 1 - lo).toNat = 1 := by omega
  rw [this]
  simp [List.range_succ]

theorem flatMap_fixed (bs : List (Int × Int)) (hfix : ∀ b ∈ bs, b.1 = b.2) :
    bs.flatMap (fun b => SS.intRange b.1 (b.2 + 1)) = bs.map (fun b => b.1) := by
  induction bs with
  | nil => rfl
  | cons b rest ih =>
    rw [List.flatMap_cons, List.map_cons, ih (fun c hc => hfix c (List.mem_cons_of_mem _ hc)),
      ← hfix b (List.mem_cons_self ..), intRange_single]
    rfl

/-! ### association lists (`HashMap`s of the matching) -/

section AList
variable {κ β : Type} [BEq κ] [LawfulBEq κ]

theorem any_key_iff (m : List (κ × β)) (k : κ) : m.any (fun p => p.1 == k) = true ↔ k ∈ m.map Prod.fst := by
  rw [List.any_eq_true, List.mem_map]
  constructor
  · rintro ⟨p, hp, e⟩; exact ⟨p, hp, by simpa using e⟩
  · rintro ⟨p, hp, e⟩; exact ⟨p, hp, by simp [e]⟩

theorem lookup_isSome_iff (m : List (κ × β)) (k : κ) : (m.lookup k).isSome = true ↔ k ∈ m.map Prod.fst := by
  induction m with
  | nil => simp
  | cons p m ih =>
    obtain ⟨pk, pb⟩ := p
    rw [List.lookup_cons]
    by_cases h : k = pk
    · subst h; simp
    · have : (k == pk) = false := by simpa using h
      rw [this]
      simp only [List.map_cons, List.mem_cons]
      rw [ih]
      constructor
      · exact Or.inr
      · rintro (e | e)
        · exact absurd e h
        · exact e

theorem lookup_none_iff (m : List (κ × β)) (k : κ) : m.lookup k = none ↔ k ∉ m.map Prod.fst := by
  rw [← lookup_isSome_iff]
  cases m.lookup k <;> simp

theorem lookup_replace_ne (m : List (κ × β)) (k : κ) (b : β) (k' : κ) (h : k' ≠ k) :
    (m.map (fun p => if p.1 == k then (k, b) else p)).lookup k' = m.lookup k' := by
  induction m with
  | nil => rfl
  | cons p m ih =>
    obtain ⟨pk, pb⟩ := p
    simp only [List.map_cons]
    by_cases hpk : pk = k
    · subst hpk
      simp only [beq_self_eq_true, if_true]
      have : (k' == pk) = false := by simpa using h
      rw [List.lookup_cons, List.lookup_cons, this]
      exact ih
    · have e : (pk == k) = false := by simpa using hpk
      simp only [e, Bool.false_eq_true, if_false]
      rw [List.lookup_cons, List.lookup_cons, ih]

theorem lookup_replace_eq (m : List (κ × β)) (k : κ) (b : β) (h : k ∈ m.map Prod.fst) :
    (m.map (fun p => if p.1 == k then (k, b) else p)).lookup k = some b := by
  induction m with
  | nil => simp at h
  | cons p m ih =>
    obtain ⟨pk, pb⟩ := p
    simp only [List.map_cons]
    by_cases hpk : pk = k
    · subst hpk
      simp
    · have e : (pk == k) = false := by simpa using hpk
      simp only [e, Bool.false_eq_true, if_false]
      have e2 : (k == pk) = false := by simpa using (fun h' : k = pk => hpk h'.symm)
      rw [List.lookup_cons, e2]
      simp only [List.map_cons, List.mem_cons] at h
      rcases h with h | h
      · exact absurd h.symm hpk
      · exact ih h

theorem lookup_ains [DecidableEq κ] (m : List (κ × β)) (k : κ) (b : β) (k' : κ) :
    (ains m k b).lookup k' = if k' = k then some b else m.lookup k' := by
  unfold ains
  by_cases ha : m.any (fun p => p.1 == k) = true
  · rw [if_pos ha]
    by_cases hk : k' = k
    · rw [if_pos hk, hk]; exact lookup_replace_eq m k b ((any_key_iff m k).1 ha)
    · rw [if_neg hk]; exact lookup_replace_ne m k b k' hk
  · rw [if_neg ha, List.lookup_append]
    have hn : m.lookup k = none := (lookup_none_iff m k).2 (fun h => ha ((any_key_iff m k).2 h))
    by_cases hk : k' = k
    · rw [if_pos hk, hk, hn]; simp
    · rw [if_neg hk]
      have : (k' == k) = false := by simpa using hk
      rw [List.lookup_cons, this]
      simp

theorem keys_replace (m : List (κ × β)) (k : κ) (b : β) :
    (m.map (fun p => if p.1 == k then (k, b) else p)).map Prod.fst = m.map Prod.fst := by
  induction m with
  | nil => rfl
  | cons p m ih =>
    simp only [List.map_cons, ih]
    by_cases h : p.1 = k
    · simp [h]
    · have e : (p.1 == k) = false := by simpa using h
      simp [e]

theorem keys_ains [DecidableEq κ] (m : List (κ × β)) (k : κ) (b : β) :
    (ains m k b).map Prod.fst = if k ∈ m.map Prod.fst then m.map Prod.fst else m.map Prod.fst ++ [k] := by
  unfold ains
  by_cases ha : m.any (fun p => p.1 == k) = true
  · rw [if_pos ha, if_pos ((any_key_iff m k).1 ha)]; exact keys_replace m k b
  · rw [if_neg ha, if_neg (fun h => ha ((any_key_iff m k).2 h))]; simp

end AList

end Gac
end Selen

import SelenModel.Lemmas.Engine
import SelenModel.Lemmas.Kinds.Arith
import SelenModel.Lemmas.Kinds.Linear
import SelenModel.Lemmas.Kinds.Reif
import SelenModel.Lemmas.Kinds.Bool
import SelenModel.Lemmas.Kinds.AbsMinMax
import SelenModel.Lemmas.Kinds.MulDiv
import SelenModel.Lemmas.Kinds.Modulo
import SelenModel.Lemmas.Kinds.Simple
import SelenModel.Lemmas.Kinds.CountCard
import SelenModel.Lemmas.Kinds.Element
import SelenModel.Lemmas.Kinds.Table
import SelenModel.Lemmas.Kinds.AllDiff
/-
One contract theorem for all modelled propagator kinds: `PK.contract_all`.

`PK.WFk` is the static well-formedness a posted propagator must satisfy (it is also the list of
*checked* kinds: linear rows without any non-zero coefficient are excluded, a recorded finding;
`neq` is included since the repair that makes `NotEquals` fail on two equal fixed sides).  `PK.boolVars` are the variables the
propagator treats as booleans; the contract holds on stores where those have domains ⊆ {0,1}.

Kinds added later (mul, div, modulo, allEqual, between, count, cardinality, element, table,
if-then-else, allDiff): no kind needs a store precondition any more (the last one, `modulo`'s
"non-negative dividend, positive divisor", went with the unconditional proof of `sound_modulo`).
`PK.WFs` (= `PK.WFk`, kept under both names) is the static well-formedness, `PK.contract_inv` /
`PK.contract_all` the contract theorem, `StoreInv`/`closed_storeInv`/`allContract_inv` package the
store invariant (non-empty domains, boolean variables boolean) for the engine theorems.
-/
namespace Selen

def PK.boolVars : PK → List Nat
  | .linEqReif _ _ _ b => [b]
  | .linLeReif _ _ _ b => [b]
  | .linNeReif _ _ _ b => [b]
  | .reif _ _ _ b => [b]
  | .boolAnd _ r => [r]
  | .boolOr _ r => [r]
  | .boolNot o r => [o, r]
  | .boolXor _ _ r => [r]
  | _ => []

/-- static well-formedness of a posted propagator (all modelled kinds) -/
def PK.WFs : PK → Prop
  | .leq x y => x.WF ∧ y.WF
  | .eq x y => x.WF ∧ y.WF
  | .neq x y => x.WF ∧ y.WF
  | .add x y _ => x.WF ∧ y.WF
  | .sum xs _ => ∀ x ∈ xs, x.WF
  | .linEq cs xs _ => cs.length = xs.length ∧ ∃ i, i < xs.length ∧ cs.getD i 0 ≠ 0
  | .linLe cs xs _ => cs.length = xs.length ∧ ∃ i, i < xs.length ∧ cs.getD i 0 ≠ 0
  | .linNe cs xs _ => cs.length = xs.length
  | .linEqReif cs xs _ _ => cs.length = xs.length ∧ ∃ i, i < xs.length ∧ cs.getD i 0 ≠ 0
  | .linLeReif cs xs _ _ => cs.length = xs.length ∧ ∃ i, i < xs.length ∧ cs.getD i 0 ≠ 0
  | .linNeReif cs xs _ _ => cs.length = xs.length ∧ ∃ i, i < xs.length ∧ cs.getD i 0 ≠ 0
  | .abs x _ => x.WF
  | .mul x y _ => x.WF ∧ y.WF
  | .div x y _ => x.WF ∧ y.WF
  | .modulo x y _ => x.WF ∧ y.WF
  | .allEqual _ => True
  | .count _ t _ => t.WF
  | .table xs ts => ∀ t ∈ ts, t.length = xs.length
  | _ => True

def PK.WFk : PK → Prop
  | .leq x y => x.WF ∧ y.WF
  | .eq x y => x.WF ∧ y.WF
  | .neq x y => x.WF ∧ y.WF
  | .add x y _ => x.WF ∧ y.WF
  | .sum xs _ => ∀ x ∈ xs, x.WF
  | .linEq cs xs _ => cs.length = xs.length ∧ ∃ i, i < xs.length ∧ cs.getD i 0 ≠ 0
  | .linLe cs xs _ => cs.length = xs.length ∧ ∃ i, i < xs.length ∧ cs.getD i 0 ≠ 0
  | .linNe cs xs _ => cs.length = xs.length
  | .linEqReif cs xs _ _ => cs.length = xs.length ∧ ∃ i, i < xs.length ∧ cs.getD i 0 ≠ 0
  | .linLeReif cs xs _ _ => cs.length = xs.length ∧ ∃ i, i < xs.length ∧ cs.getD i 0 ≠ 0
  | .linNeReif cs xs _ _ => cs.length = xs.length ∧ ∃ i, i < xs.length ∧ cs.getD i 0 ≠ 0
  | .abs x _ => x.WF
  | .mul x y _ => x.WF ∧ y.WF
  | .div x y _ => x.WF ∧ y.WF
  | .modulo x y _ => x.WF ∧ y.WF
  | .allEqual _ => True
  | .count _ t _ => t.WF
  | .table xs ts => ∀ t ∈ ts, t.length = xs.length
  | _ => True

theorem PK.wfs_of_wfk (k : PK) (h : k.WFk) : k.WFs := by
  cases k <;> exact h

theorem PK.wfk_of_wfs (k : PK) (h : k.WFs) : k.WFk := by
  cases k <;> exact h

/-- the listed variables have domains ⊆ {0,1} -/
def BoolStore (bs : List Nat) (st : Store) : Prop := ∀ b ∈ bs, ∀ w ∈ st b, w = 0 ∨ w = 1

theorem closed_boolStore (bs : List Nat) : Closed (BoolStore bs) :=
  ⟨fun _ _ _ h g b hb w hw => h b hb w (g.mem hw)⟩

theorem boolStore_dmax {bs : List Nat} {st : Store} (h : BoolStore bs st) {b : Nat} (hb : b ∈ bs)
    (hne : st b ≠ []) : (st b).dmax ≤ 1 := by
  rcases h b hb _ (Dom.dmax_mem _ hne) with e | e <;> omega

/-- **the contract of every modelled kind**, relative to a store invariant `P` that makes the
boolean variables boolean -/
theorem PK.contract_inv (k : PK) (hwf : k.WFs) (P : Store → Prop)
    (hP : ∀ st, P st → BoolStore k.boolVars st) : PKContract k P := by
  cases k with
  | leq x y => exact pkContract_of_contract' P (PK.contract_leq x y hwf.1 hwf.2)
  | eq x y => exact pkContract_of_contract' P (PK.contract_eq x y hwf.1 hwf.2)
  | neq x y => exact pkContract_of_contract' P (PK.contract_neq x y hwf.1 hwf.2)
  | add x y s => exact pkContract_of_contract' P (KArith.PK.contract_add x y s hwf.1 hwf.2)
  | sum xs s => exact pkContract_of_contract' P (KArith.PK.contract_sum xs s hwf)
  | linEq cs xs c => exact pkContract_of_contract' P (KLinear.PK.contract_linEq cs xs c hwf.1 hwf.2)
  | linLe cs xs c => exact pkContract_of_contract' P (KLinear.PK.contract_linLe cs xs c hwf.1 hwf.2)
  | linNe cs xs c => exact pkContract_of_contract' P (KLinear.PK.contract_linNe cs xs c hwf)
  | linEqReif cs xs c b =>
    exact ⟨fun ctx a hp hm hs => KLinear.PK.sound_linEqReif_bool01 cs xs c b hwf.1 ctx a
              (hP _ hp b (by simp [PK.boolVars])) hm hs,
           KLinear.PK.contracting_linEqReif cs xs c b,
           fun ctx c' a _ hf hm e => KLinear.PK.checking_linEqReif cs xs c b hwf.1 hwf.2 ctx c' a hf hm e,
           KLinear.PK.resp_linEqReif cs xs c b⟩
  | linLeReif cs xs c b =>
    exact ⟨fun ctx a hp hm hs => KLinear.PK.sound_linLeReif_bool01 cs xs c b hwf.1 ctx a
              (hP _ hp b (by simp [PK.boolVars])) hm hs,
           KLinear.PK.contracting_linLeReif cs xs c b,
           fun ctx c' a _ hf hm e => KLinear.PK.checking_linLeReif cs xs c b hwf.1 hwf.2 ctx c' a hf hm e,
           KLinear.PK.resp_linLeReif cs xs c b⟩
  | linNeReif cs xs c b =>
    exact ⟨fun ctx a hp hm hs => KLinear.PK.sound_linNeReif_bool01 cs xs c b hwf.1 ctx a
              (hP _ hp b (by simp [PK.boolVars])) hm hs,
           KLinear.PK.contracting_linNeReif cs xs c b,
           fun ctx c' a _ hf hm e => KLinear.PK.checking_linNeReif cs xs c b hwf.1 hwf.2 ctx c' a hf hm e,
           KLinear.PK.resp_linNeReif cs xs c b⟩
  | reif op x y b =>
    exact ⟨fun ctx a hp hm hs => KReif.PK.sound_reif_bool01 op x y b ctx a
              (hP _ hp b (by simp [PK.boolVars])) hm hs,
           KReif.PK.contracting_reif op x y b,
           fun ctx c' a hp hf hm e => KReif.PK.checking_reif_bool op x y b ctx c' a
              (boolStore_dmax (hP _ hp) (by simp [PK.boolVars]) (hm.nonEmpty b)) hf hm e,
           KReif.PK.resp_reif op x y b⟩
  | boolAnd ops r =>
    exact ⟨fun ctx a hp hm hs => KBool.PK.sound_boolAnd_store ops r ctx a
              (fun _ w hw => by rcases hP _ hp r (by simp [PK.boolVars]) w hw with e | e <;> omega) hm hs,
           KBool.PK.contracting_boolAnd ops r,
           fun ctx c' a _ hf hm e => KBool.PK.checking_boolAnd ops r ctx c' a hf hm e,
           KBool.PK.resp_boolAnd ops r⟩
  | boolOr ops r =>
    exact ⟨fun ctx a hp hm hs => KBool.PK.sound_boolOr_store ops r ctx a
              (fun _ w hw => by rcases hP _ hp r (by simp [PK.boolVars]) w hw with e | e <;> omega) hm hs,
           KBool.PK.contracting_boolOr ops r,
           fun ctx c' a _ hf hm e => KBool.PK.checking_boolOr ops r ctx c' a hf hm e,
           KBool.PK.resp_boolOr ops r⟩
  | boolNot o r =>
    exact ⟨fun ctx a hp hm hs => KBool.PK.sound_boolNot_store o r ctx a
              (fun w hw => by rcases hP _ hp r (by simp [PK.boolVars]) w hw with e | e <;> omega)
              (fun w hw => by rcases hP _ hp o (by simp [PK.boolVars]) w hw with e | e <;> omega) hm hs,
           KBool.PK.contracting_boolNot o r,
           fun ctx c' a _ hf hm e => KBool.PK.checking_boolNot o r ctx c' a hf hm e,
           KBool.PK.resp_boolNot o r⟩
  | boolXor x y r =>
    exact ⟨fun ctx a hp hm hs => KBool.PK.sound_boolXor_store x y r ctx a
              (fun w hw => by rcases hP _ hp r (by simp [PK.boolVars]) w hw with e | e <;> omega) hm hs,
           KBool.PK.contracting_boolXor x y r,
           fun ctx c' a _ hf hm e => KBool.PK.checking_boolXor x y r ctx c' a hf hm e,
           KBool.PK.resp_boolXor x y r⟩
  | abs x s => exact pkContract_of_contract' P (KAbsMinMax.PK.contract_abs x s hwf)
  | min xs r => exact pkContract_of_contract' P (KAbsMinMax.PK.contract_min xs r)
  | max xs r => exact pkContract_of_contract' P (KAbsMinMax.PK.contract_max xs r)
  | noop => exact pkContract_noop P
  | mul x y s =>
    exact pkContract_of_contract' P (KMulDiv.PK.contract_mul x y s hwf.1 hwf.2)
  | div x y s => exact pkContract_of_contract' P (KMulDiv.PK.contract_div x y s hwf.1 hwf.2)
  | modulo x y s => exact pkContract_of_contract' P (KModulo.PK.contract_modulo x y s hwf.1 hwf.2)
  | allEqual xs => exact pkContract_of_contract' P (KSimple.PK.contract_allEqual xs)
  | between l m u => exact pkContract_of_contract' P (KSimple.PK.contract_between l m u)
  | count xs t c => exact pkContract_of_contract' P (KCountCard.PK.contract_count xs t c hwf)
  | card ty xs tv n => exact pkContract_of_contract' P (KCountCard.PK.contract_card ty xs tv n)
  | element arr idx val => exact pkContract_of_contract' P (KElement.PK.contract_element arr idx val)
  | table xs ts => exact pkContract_of_contract' P (KTable.PK.contract_table xs ts hwf)
  | ite cop cv cval top tv tval els =>
    exact pkContract_of_contract' P (KSimple.PK.contract_ite cop cv cval top tv tval els)
  | allDiff xs => exact pkContract_of_contract' P (KAllDiff.PK.contract_allDiff xs)

theorem PK.contract_all (k : PK) (hwf : k.WFk) (P : Store → Prop)
    (hP : ∀ st, P st → BoolStore k.boolVars st) : PKContract k P :=
  PK.contract_inv k (PK.wfs_of_wfk k hwf) P hP

/-! ### a store invariant for whole models (usable as `P` in the engine theorems) -/

/-- non-empty domains, boolean variables boolean -/
def StoreInv (ps : List PK) (st : Store) : Prop :=
  NonEmpty st ∧ BoolStore (ps.flatMap PK.boolVars) st

theorem closed_storeInv (ps : List PK) : Closed (StoreInv ps) :=
  ⟨fun _ _ _ h g => ⟨g.ne h.1, (closed_boolStore _).step _ _ _ h.2 g⟩⟩

theorem allContract_inv (ps : List PK) (hwf : ∀ k ∈ ps, k.WFs) : AllContract ps (StoreInv ps) :=
  fun k hk => PK.contract_inv k (hwf k hk) _
    (fun _ h b hb => h.2 b (List.mem_flatMap.2 ⟨k, hk, hb⟩))

/-- **C05 at the engine level for all modelled kinds**: propagation to fixpoint of statically
well-formed propagators, from a store satisfying `StoreInv`, never fails while a solution exists,
keeps every solution and the invariant (instance of `propagate_sound`) -/
theorem propagate_sound_inv (ps : List PK) (hwf : ∀ k ∈ ps, k.WFs) (pol : Policy) (a : Asg)
    (ha : ∀ k ∈ ps, PK.holds a k = true) (fuel : Nat) (q : List Nat) (st : Store)
    (hst : StoreInv ps st) (hm : Mem st a) :
    match propagate ps pol fuel q st with
    | .fail => False
    | .fuel => True
    | .ok st' => Mem st' a ∧ StoreInv ps st' :=
  propagate_sound ps pol _ (closed_storeInv ps) (allContract_inv ps hwf) a ha fuel q st hst hm

/-- the hypotheses are satisfiable for a model with `div` and `modulo` over variables of both
signs: `x / y = s ∧ x % y = s` with `x ∈ {-6,4,6}`, `y ∈ {-2,3}`, `s ∈ {-3,0,2}` -/
example :
    let ps : List PK := [.div (.var 0) (.var 1) 2, .modulo (.var 0) (.var 1) 2]
    let st : Store := fun i => [[-6, 4, 6], [-2, 3], [-3, 0, 2]].getD i [1]
    (∀ k ∈ ps, k.WFs) ∧ StoreInv ps st := by
  refine ⟨?_, ?_, ?_⟩
  · intro k hk
    simp only [List.mem_cons, List.not_mem_nil, or_false] at hk
    rcases hk with rfl | rfl <;> simp [PK.WFs, IView.WF]
  · intro i
    match i with
    | 0 => simp
    | 1 => simp
    | 2 => simp
    | _ + 3 => simp
  · intro b hb; simp [PK.boolVars] at hb

end Selen

import SelenModel.Lemmas.Engine
import SelenModel.Lemmas.Kinds.Arith
import SelenModel.Lemmas.Kinds.Linear
import SelenModel.Lemmas.Kinds.Reif
import SelenModel.Lemmas.Kinds.Bool
import SelenModel.Lemmas.Kinds.AbsMinMax
/-
One contract theorem for all modelled propagator kinds: `PK.contract_all`.

`PK.WFk` is the static well-formedness a posted propagator must satisfy (it is also the list of
*checked* kinds: `neq` — a no-op propagator in the code — and linear rows without any non-zero
coefficient are excluded; they are recorded findings).  `PK.boolVars` are the variables the
propagator treats as booleans; the contract holds on stores where those have domains ⊆ {0,1}.
-/
namespace Selen

def PK.boolVars : PK → List Nat
  | .linEqReif _ _ _ b => [b]
  | .linLeReif _ _ _ b => [b]
  | .linNeReif _ _ _ b => [b]
  | .reif _ _ _ b => [b]
  | .boolAnd _ r => [r]
  | .boolOr _ r => [r]
  | .boolNot o r => [o, r]
  | .boolXor _ _ r => [r]
  | _ => []

def PK.WFk : PK → Prop
  | .leq x y => x.WF ∧ y.WF
  | .eq x y => x.WF ∧ y.WF
  | .neq _ _ => False
  | .add x y _ => x.WF ∧ y.WF
  | .sum xs _ => ∀ x ∈ xs, x.WF
  | .linEq cs xs _ => cs.length = xs.length ∧ ∃ i, i < xs.length ∧ cs.getD i 0 ≠ 0
  | .linLe cs xs _ => cs.length = xs.length ∧ ∃ i, i < xs.length ∧ cs.getD i 0 ≠ 0
  | .linNe cs xs _ => cs.length = xs.length
  | .linEqReif cs xs _ _ => cs.length = xs.length ∧ ∃ i, i < xs.length ∧ cs.getD i 0 ≠ 0
  | .linLeReif cs xs _ _ => cs.length = xs.length ∧ ∃ i, i < xs.length ∧ cs.getD i 0 ≠ 0
  | .linNeReif cs xs _ _ => cs.length = xs.length ∧ ∃ i, i < xs.length ∧ cs.getD i 0 ≠ 0
  | .abs x _ => x.WF
  | _ => True

/-- the listed variables have domains ⊆ {0,1} -/
def BoolStore (bs : List Nat) (st : Store) : Prop := ∀ b ∈ bs, ∀ w ∈ st b, w = 0 ∨ w = 1

theorem closed_boolStore (bs : List Nat) : Closed (BoolStore bs) :=
  ⟨fun _ _ _ h g b hb w hw => h b hb w (g.mem hw)⟩

theorem boolStore_dmax {bs : List Nat} {st : Store} (h : BoolStore bs st) {b : Nat} (hb : b ∈ bs)
    (hne : st b ≠ []) : (st b).dmax ≤ 1 := by
  rcases h b hb _ (Dom.dmax_mem _ hne) with e | e <;> omega

theorem PK.contract_all (k : PK) (hwf : k.WFk) (P : Store → Prop)
    (hP : ∀ st, P st → BoolStore k.boolVars st) : PKContract k P := by
  cases k with
  | leq x y => exact pkContract_of_contract' P (PK.contract_leq x y hwf.1 hwf.2)
  | eq x y => exact pkContract_of_contract' P (PK.contract_eq x y hwf.1 hwf.2)
  | neq x y => exact hwf.elim
  | add x y s => exact pkContract_of_contract' P (KArith.PK.contract_add x y s hwf.1 hwf.2)
  | sum xs s => exact pkContract_of_contract' P (KArith.PK.contract_sum xs s hwf)
  | linEq cs xs c => exact pkContract_of_contract' P (KLinear.PK.contract_linEq cs xs c hwf.1 hwf.2)
  | linLe cs xs c => exact pkContract_of_contract' P (KLinear.PK.contract_linLe cs xs c hwf.1 hwf.2)
  | linNe cs xs c => exact pkContract_of_contract' P (KLinear.PK.contract_linNe cs xs c hwf)
  | linEqReif cs xs c b =>
    exact ⟨fun ctx a hp hm hs => KLinear.PK.sound_linEqReif_bool01 cs xs c b hwf.1 ctx a
              (hP _ hp b (by simp [PK.boolVars])) hm hs,
           KLinear.PK.contracting_linEqReif cs xs c b,
           fun ctx c' a _ hf hm e => KLinear.PK.checking_linEqReif cs xs c b hwf.1 hwf.2 ctx c' a hf hm e,
           KLinear.PK.resp_linEqReif cs xs c b⟩
  | linLeReif cs xs c b =>
    exact ⟨fun ctx a hp hm hs => KLinear.PK.sound_linLeReif_bool01 cs xs c b hwf.1 ctx a
              (hP _ hp b (by simp [PK.boolVars])) hm hs,
           KLinear.PK.contracting_linLeReif cs xs c b,
           fun ctx c' a _ hf hm e => KLinear.PK.checking_linLeReif cs xs c b hwf.1 hwf.2 ctx c' a hf hm e,
           KLinear.PK.resp_linLeReif cs xs c b⟩
  | linNeReif cs xs c b =>
    exact ⟨fun ctx a hp hm hs => KLinear.PK.sound_linNeReif_bool01 cs xs c b hwf.1 ctx a
              (hP _ hp b (by simp [PK.boolVars])) hm hs,
           KLinear.PK.contracting_linNeReif cs xs c b,
           fun ctx c' a _ hf hm e => KLinear.PK.checking_linNeReif cs xs c b hwf.1 hwf.2 ctx c' a hf hm e,
           KLinear.PK.resp_linNeReif cs xs c b⟩
  | reif op x y b =>
    exact ⟨fun ctx a hp hm hs => KReif.PK.sound_reif_bool01 op x y b ctx a
              (hP _ hp b (by simp [PK.boolVars])) hm hs,
           KReif.PK.contracting_reif op x y b,
           fun ctx c' a hp hf hm e => KReif.PK.checking_reif_bool op x y b ctx c' a
              (boolStore_dmax (hP _ hp) (by simp [PK.boolVars]) (hm.nonEmpty b)) hf hm e,
           KReif.PK.resp_reif op x y b⟩
  | boolAnd ops r =>
    exact ⟨fun ctx a hp hm hs => KBool.PK.sound_boolAnd_store ops r ctx a
              (fun _ w hw => by rcases hP _ hp r (by simp [PK.boolVars]) w hw with e | e <;> omega) hm hs,
           KBool.PK.contracting_boolAnd ops r,
           fun ctx c' a _ hf hm e => KBool.PK.checking_boolAnd ops r ctx c' a hf hm e,
           KBool.PK.resp_boolAnd ops r⟩
  | boolOr ops r =>
    exact ⟨fun ctx a hp hm hs => KBool.PK.sound_boolOr_store ops r ctx a
              (fun _ w hw => by rcases hP _ hp r (by simp [PK.boolVars]) w hw with e | e <;> omega) hm hs,
           KBool.PK.contracting_boolOr ops r,
           fun ctx c' a _ hf hm e => KBool.PK.checking_boolOr ops r ctx c' a hf hm e,
           KBool.PK.resp_boolOr ops r⟩
  | boolNot o r =>
    exact ⟨fun ctx a hp hm hs => KBool.PK.sound_boolNot_store o r ctx a
              (fun w hw => by rcases hP _ hp r (by simp [PK.boolVars]) w hw with e | e <;> omega)
              (fun w hw => by rcases hP _ hp o (by simp [PK.boolVars]) w hw with e | e <;> omega) hm hs,
           KBool.PK.contracting_boolNot o r,
           fun ctx c' a _ hf hm e => KBool.PK.checking_boolNot o r ctx c' a hf hm e,
           KBool.PK.resp_boolNot o r⟩
  | boolXor x y r =>
    exact ⟨fun ctx a hp hm hs => KBool.PK.sound_boolXor_store x y r ctx a
              (fun w hw => by rcases hP _ hp r (by simp [PK.boolVars]) w hw with e | e <;> omega) hm hs,
           KBool.PK.contracting_boolXor x y r,
           fun ctx c' a _ hf hm e => KBool.PK.checking_boolXor x y r ctx c' a hf hm e,
           KBool.PK.resp_boolXor x y r⟩
  | abs x s => exact pkContract_of_contract' P (KAbsMinMax.PK.contract_abs x s hwf)
  | min xs r => exact pkContract_of_contract' P (KAbsMinMax.PK.contract_min xs r)
  | max xs r => exact pkContract_of_contract' P (KAbsMinMax.PK.contract_max xs r)
  | noop => exact pkContract_noop P

end Selen

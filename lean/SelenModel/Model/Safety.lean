/-
Safety model for C17 ("invalid or extreme inputs produce errors, not panics").

Two parts.

1. *Panic sites* of the already modelled units.  For every operation the model lists, in the
   code's own order, the checks the Rust test profile (debug assertions + overflow checks on)
   performs while executing it: vector indexing, slice bounds, `debug_assert!`, checked `i32` /
   `u32` arithmetic, division.  The operation panics iff one of the listed sites fails
   (`Safety.safe`).  Units: `SparseSet` (sparse_set.rs), the integer views (views.rs), the integer
   linear propagators (props/linear.rs).  The *functional* behaviour stays in `Model/SparseSet.lean`
   and `Model/IntCore.lean`; the site lists are computed from those definitions, so they describe
   the same runs.

2. The *validation decision table*: what each documented invalid input turns into, as read from
   `core/validation.rs`, `model/factory_internal.rs`, `model/core.rs` (`build_error`,
   `prepare_for_search`), `constraints/functions.rs` (length checks of the linear helpers) and
   `constraints/api/arithmetic.rs` (empty min/max lists).

Import-free of everything but other Model files: linked into the `selen_model` driver.
-/
import SelenModel.Model.IntCore
import SelenModel.Model.Validate

namespace Selen
namespace Safety

/-! ### sites -/

def i32Min : Int := -2147483648
def i32Max : Int := 2147483647
def u32Max : Int := 4294967295

/-- one run-time check of the test profile -/
inductive Site where
  /-- `v[i]` on a vector of length `len` -/
  | idx (i len : Nat)
  /-- slice end / `debug_assert!(a <= b)` -/
  | le (a b : Nat)
  /-- `debug_assert!(!self.is_empty())` -/
  | nonempty (size : Nat)
  /-- unsigned subtraction that must not go below zero (`size - 1`) -/
  | pos (v : Int)
  /-- checked `i32` result -/
  | i32 (v : Int)
  /-- checked `u32` result (upper end) -/
  | u32 (v : Int)
  /-- divisor of `/`, `%`, `div_euclid`, `rem_euclid` -/
  | nz (d : Int)
  /-- `a / b` overflows for `a = i32::MIN`, `b = -1` -/
  | divov (a b : Int)
  /-- fidelity only, never a panic: the value has to fit `i32` for the `Int` model to agree with the
  code (`as i32` casts, saturating sums) -/
  | fid (v : Int)
deriving Repr, DecidableEq

def I32 (v : Int) : Bool := decide (i32Min ≤ v ∧ v ≤ i32Max)

/-- the check passes (no panic at this site) -/
def Site.ok : Site → Bool
  | .idx i len => decide (i < len)
  | .le a b => decide (a ≤ b)
  | .nonempty sz => decide (sz ≠ 0)
  | .pos v => decide (0 ≤ v)
  | .i32 v => I32 v
  | .u32 v => decide (v ≤ u32Max)
  | .nz d => decide (d ≠ 0)
  | .divov a b => !(a == i32Min && b == -1)
  | .fid _ => true

/-- the check passes and, for fidelity sites, the model value is the code's value -/
def Site.faithful : Site → Bool
  | .fid v => I32 v
  | s => s.ok

/-- structural sites: indices, slice bounds, emptiness assertions, unsigned underflow -/
def Site.structural : Site → Bool
  | .idx _ _ | .le _ _ | .nonempty _ | .pos _ => true
  | _ => false

/-- no site of the run fails: the operation does not panic -/
def safe (l : List Site) : Bool := l.all Site.ok

/-- the run neither panics nor leaves the range in which the `Int` model is exact -/
def faithful (l : List Site) : Bool := l.all Site.faithful

/-! ### `SparseSet` (src/variables/domain/sparse_set.rs) -/

namespace SSS
open SS

/-- `contains_intl`: `self.ind[v]` behind `if v >= self.n` -/
def containsI (s : SS) (v : Nat) : List Site := if v ≥ s.n then [] else [.idx v s.n]

/-- `contains`: `v - self.off` (only evaluated for `v ≥ off`) -/
def contains (s : SS) (v : Int) : List Site :=
  if v < s.off then [] else .i32 (v - s.off) :: containsI s (v - s.off).toNat

/-- `exchange`: `ind[v1]`, `ind[v2]`, `val[i1]`, `val[i2]` (the two writes to `ind` reuse `v1`, `v2`) -/
def exchange (s : SS) (v1 v2 : Nat) : List Site :=
  [.idx v1 s.n, .idx v2 s.n, .idx (s.ind v1) s.n, .idx (s.ind v2) s.n]

/-- the `contains_intl` calls of a bound rescan over `lo, lo+1, …, lo+k-1` (superset of the values
visited before the early return; every one of them is guarded) -/
def scan (s : SS) (lo k : Nat) : List Site := (List.range k).flatMap (fun j => containsI s (lo + j))

/-- `update_max_val_removed` -/
def updateMax (s : SS) (v : Nat) : List Site :=
  if s.size ≠ 0 ∧ s.max = v then scan s s.min (v - s.min) else []

/-- `update_min_val_removed`: `val + 1`, `self.max + 1` in `u32` -/
def updateMin (s : SS) (v : Nat) : List Site :=
  if s.size ≠ 0 ∧ s.min = v then
    [.u32 ((v : Int) + 1), .u32 ((s.max : Int) + 1)] ++ scan s (v + 1) (s.max + 1 - (v + 1))
  else []

/-- body of `remove` once `contains(val)` answered true:
`self.val[self.size() - 1]`, `exchange`, `self.size - 1`, the two bound updates -/
def removeI (s : SS) (v : Nat) : List Site :=
  let last := s.val (s.size - 1)
  let s1 := s.exchange v last
  let s2 := { s1 with size := s1.size - 1 }
  [.pos ((s.size : Int) - 1), .idx (s.size - 1) s.n] ++ exchange s v last ++ [.pos ((s.size : Int) - 1)]
    ++ updateMax s2 v ++ updateMin (s2.updateMaxValRemoved v) v

/-- `remove` -/
def remove (s : SS) (v : Int) : List Site :=
  contains s v ++ (if s.contains v then .i32 (v - s.off) :: removeI s (v - s.off).toNat else [])

/-- a loop of `remove` calls -/
def foldRemove : List Int → SS → List Site
  | [], _ => []
  | a :: l, s => remove s a ++ foldRemove l (s.remove' a)

/-- `min()`: `debug_assert!(!self.is_empty())`, `self.min as i32 + self.off` -/
def min (s : SS) : List Site := [.nonempty s.size, .fid s.min, .i32 ((s.min : Int) + s.off)]
/-- `max()` -/
def max (s : SS) : List Site := [.nonempty s.size, .fid s.max, .i32 ((s.max : Int) + s.off)]

/-- `remove_below` -/
def removeBelow (s : SS) (v : Int) : List Site :=
  if s.isEmpty then [] else
    max s ++ (if s.maxV < v then [] else min s ++ foldRemove (intRange s.minV v) s)

/-- `remove_above`: `val + 1`, `self.max() + 1` -/
def removeAbove (s : SS) (v : Int) : List Site :=
  if s.isEmpty then [] else
    min s ++ (if s.minV > v then [] else
      [.i32 (v + 1)] ++ max s ++ [.i32 (s.maxV + 1)] ++ foldRemove (intRange (v + 1) (s.maxV + 1)) s)

/-- `remove_all_but`: `val[0]`, `ind[v]`, `ind[val]`, `val[index]` -/
def removeAllBut (s : SS) (v : Int) : List Site :=
  contains s v ++ (if s.contains v then
      let vi := (v - s.off).toNat
      [.i32 (v - s.off), .idx 0 s.n, .idx vi s.n, .idx (s.val 0) s.n, .idx (s.ind vi) s.n]
    else [])

/-- `iter`: the slice `val[0..size]` and `v as i32 + self.off` per element -/
def iter (s : SS) : List Site :=
  .le s.size s.n :: (List.range s.size).flatMap (fun i => [.fid (s.val i), .i32 ((s.val i : Int) + s.off)])

/-- `complement_iter`: the slice `val[size..n]` -/
def complementIter (s : SS) : List Site :=
  .le s.size s.n :: (List.range (s.n - s.size)).flatMap
    (fun i => [.fid (s.val (s.size + i)), .i32 ((s.val (s.size + i) : Int) + s.off)])

/-- `first` -/
def first (s : SS) : List Site :=
  if s.isEmpty then [] else [.idx 0 s.n, .fid (s.val 0), .i32 ((s.val 0 : Int) + s.off)]
/-- `last`: `self.val[self.size as usize - 1]` -/
def last (s : SS) : List Site :=
  if s.isEmpty then [] else
    [.pos ((s.size : Int) - 1), .idx (s.size - 1) s.n, .fid (s.val (s.size - 1)), .i32 ((s.val (s.size - 1) : Int) + s.off)]

/-- `max_universe_value`: `self.off + self.n as i32 - 1` -/
def maxUniverse (s : SS) : List Site := [.fid s.n, .i32 (s.off + s.n), .i32 (s.off + s.n - 1)]

/-- `restore_size`: `debug_assert!(size <= self.n)` -/
def restoreSize (s : SS) (k : Nat) : List Site := [.le k s.n]

/-- `intersect_with` -/
def intersectWith (s o : SS) : List Site :=
  iter s ++ s.toList.flatMap (contains o) ++ foldRemove (s.toList.filter (fun v => !o.contains v)) s

/-- `diff_with` -/
def diffWith (s o : SS) : List Site :=
  iter s ++ s.toList.flatMap (contains o) ++ foldRemove (s.toList.filter (fun v => o.contains v)) s

/-- one iteration of `union_with`: `self.off + self.n as i32` (behind `val >= self.off &&`),
`val - self.off`, `self.val[new_pos]`, `exchange`, `self.size += 1` -/
def unionOne (s : SS) (v : Int) : List Site :=
  contains s v ++ (if s.contains v then [] else
    (if v ≥ s.off then [.fid s.n, .i32 (s.off + s.n)] else []) ++
    (if v ≥ s.off ∧ v < s.off + (s.n : Int) then
      let vi := (v - s.off).toNat
      .i32 (v - s.off) :: containsI s vi ++
        (if !s.containsI vi then [.idx s.size s.n] ++ exchange s vi (s.val s.size) ++ [.u32 ((s.size : Int) + 1)] else [])
     else []))

def foldUnion : List Int → SS → List Site
  | [], _ => []
  | a :: l, s => unionOne s a ++ foldUnion l (s.unionOne a)

/-- `union_with` -/
def unionWith (s o : SS) : List Site := iter o ++ foldUnion o.toList s

/-- `other.contains(v)` for the values of a list, stopping after the first value that is absent
(`is_subset_of` returns early, `equals` uses the short-circuiting `Iterator::all`) -/
def containsUntilAbsent (o : SS) : List Int → List Site
  | [] => []
  | w :: r => contains o w ++ (if o.contains w then containsUntilAbsent o r else [])

/-- `is_subset_of`: `self.val[i]`, `val as i32 + self.off`, `other.contains`, early return -/
def subsetFrom (s o : SS) : List Nat → List Site
  | [] => []
  | i :: r =>
    [.idx i s.n, .fid (s.val i), .i32 ((s.val i : Int) + s.off)] ++ contains o ((s.val i : Int) + s.off) ++
      (if o.contains ((s.val i : Int) + s.off) then subsetFrom s o r else [])

def isSubsetOf (s o : SS) : List Site := subsetFrom s o (List.range s.size)

/-- `equals` (the element sites of the lazy `iter` are a superset of the ones really visited) -/
def equals (s o : SS) : List Site :=
  if s.size ≠ o.size then [] else [.le s.size s.n] ++ subsetFrom s o (List.range s.size)

/-- `SparseSet::new` (after the swap of reversed bounds): `max - min`, `maxmin + 1` -/
def new (lo hi : Int) : List Site :=
  let lo' := if lo > hi then hi else lo
  let hi' := if lo > hi then lo else hi
  [.i32 (hi' - lo'), .u32 (hi' - lo' + 1)]

/-- `new_unchecked` -/
def newUnchecked (lo hi : Int) : List Site := if lo > hi then [] else new lo hi

/-- `new_from_values`: `new(min,max)` then `remove(i)` for every missing `i` of `min..=max`
(each preceded by `sorted_values.contains`, which cannot panic) -/
def newFromValues (vs : List Int) : List Site :=
  if vs.isEmpty then [] else
    let lo := listMin vs
    let hi := listMax vs
    -- (the loop is only reached when `new` did not panic; written this way so that the site list
    -- of an overflowing universe stays small)
    if !(safe (new lo hi)) then new lo hi else
    new lo hi ++
      foldRemove ((intRange lo (hi + 1)).filter (fun i => !vs.contains i)) (SS.new lo hi)

/-- the sites of one step of a history (`Selen.SSOp`) -/
def op (s : SS) : SSOp → List Site
  | .remove v => remove s v
  | .below v => removeBelow s v
  | .above v => removeAbove s v
  | .only v => removeAllBut s v
  | .clear => []
  | .inter o => intersectWith s o
  | .diff o => diffWith s o
  | .union o => unionWith s o
  | .save _ => []
  | .restore _ => []

end SSS

/-! ### integer views (src/variables/views.rs) -/

namespace VS

mutual
/-- `min_raw`: `SparseSet::min()` for a variable; `-max`, `min + offset`, `min * scale`, `min ± 1` -/
def minRaw (st : Store) : IView → List Site
  | .const _ => []
  | .var i => [.nonempty (st i).length]
  | .opp v => maxRaw st v ++ [.i32 (-(IView.maxRaw st v))]
  | .plus v k => minRaw st v ++ [.i32 (IView.minRaw st v + k)]
  | .tpos v k => minRaw st v ++ [.i32 (IView.minRaw st v * k)]
  | .next v => minRaw st v ++ [.i32 (IView.minRaw st v + 1)]
  | .prev v => minRaw st v ++ [.i32 (IView.minRaw st v - 1)]
def maxRaw (st : Store) : IView → List Site
  | .const _ => []
  | .var i => [.nonempty (st i).length]
  | .opp v => minRaw st v ++ [.i32 (-(IView.minRaw st v))]
  | .plus v k => maxRaw st v ++ [.i32 (IView.maxRaw st v + k)]
  | .tpos v k => maxRaw st v ++ [.i32 (IView.maxRaw st v * k)]
  | .next v => maxRaw st v ++ [.i32 (IView.maxRaw st v + 1)]
  | .prev v => maxRaw st v ++ [.i32 (IView.maxRaw st v - 1)]
end

/-- `Context::try_set_min` on an integer variable: `max()`, `min()` of the domain; the
`remove_below` loop `self.min()..val` has no arithmetic of its own -/
def ctxSetMin (c : Ctx) (i : Nat) (_m : Int) : List Site := [.nonempty (c.st i).length]

/-- `Context::try_set_max` on an integer variable: `min()`, `max()`, then `remove_above(max_i)`
(`val + 1`, `self.max() + 1`) when the bound really cuts -/
def ctxSetMax (c : Ctx) (i : Nat) (m : Int) : List Site :=
  .nonempty (c.st i).length ::
    (if m < (c.st i).dmin then [] else if m < (c.st i).dmax then [.i32 (m + 1), .i32 ((c.st i).dmax + 1)] else [])

mutual
/-- `try_set_min` through a view: `-min`, `min - offset`, `div_euclid`/`rem_euclid` by the scale
and `q + 1`, `min ∓ 1` -/
def trySetMin : IView → Int → Ctx → List Site
  | .const _, _, _ => []
  | .var i, m, c => ctxSetMin c i m
  | .opp v, m, c => .i32 (-m) :: trySetMax v (-m) c
  | .plus v k, m, c => .i32 (m - k) :: trySetMin v (m - k) c
  | .tpos v k, m, c =>
    [.nz k, .divov m k] ++ (if Int.emod m k ≠ 0 then [.i32 (m / k + 1)] else []) ++ trySetMin v (ceilDiv m k) c
  | .next v, m, c => .i32 (m - 1) :: trySetMin v (m - 1) c
  | .prev v, m, c => .i32 (m + 1) :: trySetMin v (m + 1) c
def trySetMax : IView → Int → Ctx → List Site
  | .const _, _, _ => []
  | .var i, m, c => ctxSetMax c i m
  | .opp v, m, c => .i32 (-m) :: trySetMin v (-m) c
  | .plus v k, m, c => .i32 (m - k) :: trySetMax v (m - k) c
  | .tpos v k, m, c => [.nz k, .divov m k] ++ trySetMax v (floorDiv m k) c
  | .next v, m, c => .i32 (m - 1) :: trySetMax v (m - 1) c
  | .prev v, m, c => .i32 (m + 1) :: trySetMax v (m + 1) c
end

/-- `Times::new` negates a negative scale; `times_neg` always negates -/
def timesCtor (k : Int) : List Site := if k < 0 then [.i32 (-k)] else []
def timesNegCtor (k : Int) : List Site := [.i32 (-k)]

/-- magnitude a view can reach when every value of its variable lies in `[-B, B]` -/
def bound (B : Nat) : IView → Nat
  | .const c => c.natAbs
  | .var _ => B
  | .opp v => bound B v
  | .plus v k => bound B v + k.natAbs
  | .tpos v k => bound B v * k.natAbs
  | .next v => bound B v + 1
  | .prev v => bound B v + 1

/-- magnitude the argument of `try_set_*` can reach on its way down to the variable -/
def argBound (M : Nat) : IView → Nat
  | .const _ => M
  | .var _ => M
  | .opp v => argBound M v
  | .plus v k => argBound (M + k.natAbs) v
  | .tpos v _ => argBound (M + 1) v
  | .next v => argBound (M + 1) v
  | .prev v => argBound (M + 1) v

/-- every `TimesPos` scale of the view is strictly positive (what `Times::new` guarantees) -/
def scalesPos : IView → Bool
  | .const _ => true
  | .var _ => true
  | .opp v => scalesPos v
  | .plus v _ => scalesPos v
  | .tpos v k => decide (0 < k) && scalesPos v
  | .next v => scalesPos v
  | .prev v => scalesPos v

end VS

/-! ### integer linear propagators (src/constraints/props/linear.rs)

The propagators accumulate their sums with `saturating_add` / `saturating_sub`, so the run is
re-stated here with the clamp built in (`Lin.pruneEq` & co. in `Model/IntCore.lean` are the same
functions without the clamp; they coincide as long as no `fid` site leaves `i32`).  Every function
returns the sites it passes together with the value it computes. -/

namespace LS

/-- `i32::saturating_*`: clamp of the exact result -/
def sat (v : Int) : Int := if v < i32Min then i32Min else if v > i32Max then i32Max else v

/-- one iteration of the inner loop `for j in 0..variables.len()` (skipping `i`):
`coefficients[j]`, `min()` / `max()` of the variable, the products (`both`: `IntLinEq` computes
`coeff*l` and `coeff*u`, `IntLinLe` only the term it needs), the saturating running sums.
Accumulator: sites, `min_other`, `max_other` -/
def othersStep (both : Bool) (cs : List Int) (xs : List Nat) (st : Store) (i : Nat)
    (acc : List Site × Int × Int) (j : Nat) : List Site × Int × Int :=
  if j = i then acc else
    let c := cs.getD j 0
    let d := st (xs.getD j 0)
    let mn := if c > 0 then c * d.dmin else c * d.dmax
    let mx := if c > 0 then c * d.dmax else c * d.dmin
    (acc.1 ++ ([.idx j cs.length, .nonempty d.length] ++
      (if both then [.i32 (c * d.dmin), .i32 (c * d.dmax)] else [.i32 mn]) ++
      [.fid (acc.2.1 + mn), .fid (acc.2.2 + mx)]),
     sat (acc.2.1 + mn), sat (acc.2.2 + mx))

/-- the inner loop: sites, `min_other`, `max_other` -/
def others (both : Bool) (cs : List Int) (xs : List Nat) (st : Store) (i : Nat) : List Site × Int × Int :=
  (List.range xs.length).foldl (othersStep both cs xs st i) ([], 0, 0)

/-- `div_floor` / `div_ceil` (helpers of linear.rs): `a / b`, `a % b`, `q ∓ 1`; sites and result -/
def divRound (a b : Int) (up : Bool) : List Site × Int :=
  let q := Int.tdiv a b
  let adj := decide (Int.tmod a b ≠ 0) && (if up then (decide (a < 0) == decide (b < 0)) else (decide (a < 0) != decide (b < 0)))
  ([.nz b, .divov a b] ++ (if adj then [.i32 (if up then q + 1 else q - 1)] else []),
   if adj then (if up then q + 1 else q - 1) else q)

/-- the bounds `IntLinEq::prune` derives for the variable at position `i` (non-zero coefficient):
sites, `new_min`, `new_max` -/
def eqBounds (cs : List Int) (xs : List Nat) (c : Int) (st : Store) (i : Nat) : List Site × Int × Int :=
  let coeff := cs.getD i 0
  let ob := others true cs xs st i
  let tmin := sat (c - ob.2.2)
  let tmax := sat (c - ob.2.1)
  let lo := if coeff > 0 then divRound tmin coeff true else divRound tmax coeff true
  let hi := if coeff > 0 then divRound tmax coeff false else divRound tmin coeff false
  (ob.1 ++ [.fid (c - ob.2.2), .fid (c - ob.2.1)] ++ lo.1 ++ hi.1, lo.2, hi.2)

/-- `IntLinEq::prune` over the index list `is` -/
def pruneEq (cs : List Int) (xs : List Nat) (c : Int) : List Nat → Ctx → List Site × Option Ctx
  | [], ctx => ([], some ctx)
  | i :: rest, ctx =>
    if cs.getD i 0 = 0 then
      let r := pruneEq cs xs c rest ctx
      (.idx i cs.length :: r.1, r.2)
    else
      let b := eqBounds cs xs c ctx.st i
      let x := xs.getD i 0
      match ctx.trySetMin x b.2.1 with
      | none => (.idx i cs.length :: b.1 ++ VS.ctxSetMin ctx x b.2.1, none)
      | some c1 =>
        match c1.trySetMax x b.2.2 with
        | none => (.idx i cs.length :: b.1 ++ VS.ctxSetMin ctx x b.2.1 ++ VS.ctxSetMax c1 x b.2.2, none)
        | some c2 =>
          let r := pruneEq cs xs c rest c2
          (.idx i cs.length :: b.1 ++ VS.ctxSetMin ctx x b.2.1 ++ VS.ctxSetMax c1 x b.2.2 ++ r.1, r.2)

/-- the bound `IntLinLe::prune` derives for position `i`: sites and `remaining.div_euclid(coeff)` -/
def leBound (cs : List Int) (xs : List Nat) (c : Int) (st : Store) (i : Nat) : List Site × Int :=
  let coeff := cs.getD i 0
  let ob := others false cs xs st i
  let remaining := sat (c - ob.2.1)
  (ob.1 ++ [.fid (c - ob.2.1), .nz coeff, .divov remaining coeff], remaining / coeff)

/-- `IntLinLe::prune` -/
def pruneLe (cs : List Int) (xs : List Nat) (c : Int) : List Nat → Ctx → List Site × Option Ctx
  | [], ctx => ([], some ctx)
  | i :: rest, ctx =>
    if cs.getD i 0 = 0 then
      let r := pruneLe cs xs c rest ctx
      (.idx i cs.length :: r.1, r.2)
    else
      let b := leBound cs xs c ctx.st i
      let x := xs.getD i 0
      if cs.getD i 0 > 0 then
        match ctx.trySetMax x b.2 with
        | none => (.idx i cs.length :: b.1 ++ VS.ctxSetMax ctx x b.2, none)
        | some c1 =>
          let r := pruneLe cs xs c rest c1
          (.idx i cs.length :: b.1 ++ VS.ctxSetMax ctx x b.2 ++ r.1, r.2)
      else
        match ctx.trySetMin x b.2 with
        | none => (.idx i cs.length :: b.1 ++ VS.ctxSetMin ctx x b.2, none)
        | some c1 =>
          let r := pruneLe cs xs c rest c1
          (.idx i cs.length :: b.1 ++ VS.ctxSetMin ctx x b.2 ++ r.1, r.2)

/-- the scan of `IntLinNe::prune`: `coefficients[i]`, `min()`/`max()`, `coeff * l` for a fixed
variable; it stops at the second unfixed variable.  Result: sites and
`none` (stopped) / `some (unfixed index?, fixed_sum)` -/
def neScan (cs : List Int) (xs : List Nat) (st : Store) :
    List Nat → Option Nat → Int → List Site × Option (Option Nat × Int)
  | [], u, s => ([], some (u, s))
  | i :: rest, u, s =>
    let d := st (xs.getD i 0)
    let here : List Site := [.idx i cs.length, .nonempty d.length]
    if d.dmin = d.dmax then
      let r := neScan cs xs st rest u (sat (s + cs.getD i 0 * d.dmin))
      (here ++ [.i32 (cs.getD i 0 * d.dmin), .fid (s + cs.getD i 0 * d.dmin)] ++ r.1, r.2)
    else match u with
      | some _ => (here, none)
      | none =>
        let r := neScan cs xs st rest (some i) s
        (here ++ r.1, r.2)

/-- `exclude_value` on an integer variable: `i + 1` / `i - 1` and the bound update -/
def exclude (x : Nat) (f : Int) (ctx : Ctx) : List Site × Option Ctx :=
  let mn := (ctx.st x).dmin
  let mx := (ctx.st x).dmax
  let pre : List Site := [.nonempty (ctx.st x).length]
  if f < mn ∨ f > mx then (pre, some ctx)
  else if mn = mx ∧ mn = f then (pre, none)
  else if mn = f then (pre ++ .i32 (f + 1) :: VS.ctxSetMin ctx x (f + 1), ctx.trySetMin x (f + 1))
  else if mx = f then (pre ++ .i32 (f - 1) :: VS.ctxSetMax ctx x (f - 1), ctx.trySetMax x (f - 1))
  else (pre, some ctx)

/-- `IntLinNe::prune`: `forbidden % coeff`, `forbidden / coeff`, `exclude_value` -/
def pruneNe (cs : List Int) (xs : List Nat) (c : Int) (ctx : Ctx) : List Site × Option Ctx :=
  let sc := neScan cs xs ctx.st (List.range xs.length) none 0
  match sc.2 with
  | none => (sc.1, some ctx)
  | some (none, s) => (sc.1, if s = c then none else some ctx)
  | some (some i, s) =>
    let coeff := cs.getD i 0
    if coeff = 0 then (sc.1 ++ [.idx i cs.length], if s = c then none else some ctx)
    else
      let num := sat (c - s)
      let pre := sc.1 ++ [.idx i cs.length, .fid (c - s), .nz coeff, .divov num coeff]
      if Int.tmod num coeff = 0 then
        let r := exclude (xs.getD i 0) (Int.tdiv num coeff) ctx
        (pre ++ r.1, r.2)
      else (pre, some ctx)

/-- Σ_{j<n} |c_j| · B: the magnitude the sums of a linear row over `n` variables can reach when
every value lies in `[-B, B]` -/
def weight (cs : List Int) (n B : Nat) : Nat := ((List.range n).map (fun j => (cs.getD j 0).natAbs * B)).sum

end LS

/-! ### the validation decision table

One scenario = one small model built through the public API that contains exactly one documented
invalid input (or its valid neighbour), followed by one solving entry point. -/

inductive Err where
  | invalidDomain | invalidConstraint | invalidInput | memoryLimit | conflictingConstraints
deriving DecidableEq, Repr

def Err.name : Err → String
  | .invalidDomain => "InvalidDomain"
  | .invalidConstraint => "InvalidConstraint"
  | .invalidInput => "InvalidInput"
  | .memoryLimit => "MemoryLimit"
  | .conflictingConstraints => "ConflictingConstraints"

/-- what the one-shot entry points (`solve`, `minimize`, `maximize`) answer -/
inductive Verdict where
  | sol
  | noSolution
  | err (e : Err)
  | panic
deriving DecidableEq, Repr

/-- outcome of a scenario: an `Err` returned by the posting call itself, then the verdict -/
structure Outcome where
  postErr : Option Err := none
  verdict : Verdict
deriving DecidableEq, Repr

inductive Scenario where
  /-- `x = int(lo,hi)` -/
  | bounds (lo hi : Int)
  /-- `x = int(lo,hi); y = int(0,3); new(x.eq(y))` -/
  | boundsEq (lo hi : Int)
  /-- `x = int(lo,hi); y = int(0,3); add(x,y)` -/
  | boundsUse (lo hi : Int)
  /-- `ints(n,lo,hi)` -/
  | ints (n : Nat) (lo hi : Int)
  /-- `x = intset(vals)` -/
  | set (vals : List Int)
  /-- `min/max` of `n` variables `int(0,3)`; `route` selects the API spelling -/
  | minMax (isMax : Bool) (n : Nat) (route : Nat)
  /-- `nc` coefficients `1`, `nv` variables `int(0,2)`, constant `1`, relation `rel` (0 eq, 1 le, 2 ne) -/
  | linLen (nc nv rel : Nat) (reif : Bool)
  /-- `x = int(1,6); y = int(lo,hi); div|modulo(x,y)` -/
  | zeroDiv (lo hi : Int) (op route : Nat)
  /-- `n` array variables, index `int(lo,hi)` -/
  | elem (n : Nat) (lo hi : Int) (route : Nat)
  /-- `with_max_memory_mb(limit)`; `x = int(lo,hi)` (`lo ≤ hi`); `post`: `add(x,1)` afterwards;
  `first`: `x` is the first variable of the model -/
  | mem (limit : Nat) (lo hi : Int) (post first : Bool)
  /-- `nv` variables, one table row of `rowlen` values -/
  | tableArity (nv rowlen : Nat)
  /-- `alldiff([x,x])` / `alldiff([x,y])` -/
  | allDiffDup (dup : Bool)
  /-- one variable per entry — `none`: `float(0,10)`, `some d`: `intset(d)` (`d` non-empty) — and
  `alldiff` over all of them -/
  | allDiff (ds : List (Option (List Int)))
deriving Repr

/-- `Model::estimate_variable_memory`, integer arm (factory_internal.rs) -/
def memEstimate (lo hi : Int) : Int :=
  let d := hi - lo + 1
  if d > 1000 then 96 + 48 + d * 8 / 8 else 96 + 48 + d * 8

/-- `MAX_SPARSE_SET_DOMAIN_SIZE` -/
def maxDomainSize : Int := 1000000

/-- `add_memory_usage` over the variables a scenario creates, in creation order: the running
total and whether the budget was exceeded (once exceeded, `new_var_checked` creates nothing more) -/
def memRun (limitBytes : Int) : List Int → Int × Bool → Int × Bool
  | [], acc => acc
  | e :: r, (total, exceeded) =>
    if exceeded then memRun limitBytes r (total, true)
    else memRun limitBytes r (total + e, decide (total + e > limitBytes))

/-- the creations of the `mem` scenario: an anchor `int(0,1)` (first or last), `x = int(lo,hi)`,
optionally the result variable of `add(x, 1)` -/
def memCreations (lo hi : Int) (post first : Bool) : List Int :=
  (if first then [] else [memEstimate 0 1]) ++ [memEstimate lo hi] ++
  (if post then [memEstimate (lo + 1) (hi + 1)] else []) ++ (if first then [memEstimate 0 1] else [])

/-- the budget is exceeded somewhere while the scenario is built -/
def memExceeded (limit : Nat) (lo hi : Int) (post first : Bool) : Bool :=
  (memRun ((limit : Int) * 1024 * 1024) (memCreations lo hi post first) (0, false)).2

/-- `x` itself is rejected (it is the first creation, or the one right after the anchor) -/
def memXRejected (limit : Nat) (lo hi : Int) (first : Bool) : Bool :=
  decide ((if first then 0 else memEstimate 0 1) + memEstimate lo hi > (limit : Int) * 1024 * 1024)

/-- pairwise different values can be chosen from the integer domains (float variables can always
take fresh values): what the search decides once the validation has accepted the model -/
def adSat : List (List Int) → List Int → Bool
  | [], _ => true
  | d :: ds, used => d.any (fun v => !used.contains v && adSat ds (v :: used))

/-- the integer domains of an all-different scenario -/
def adInts (ds : List (Option (List Int))) : List (List Int) := ds.filterMap id

/-- the decision table -/
def outcome : Scenario → Outcome
  /- validation.rs `validate_variable_domains`: empty set whose universe is reversed -/
  | .bounds lo hi => ⟨none, if lo > hi then .err .invalidDomain else .sol⟩
  /- runtime_api `apply_var_eq_bounds` calls `min()` on the empty set (debug assertion) -/
  | .boundsEq lo hi =>
    ⟨none, if lo > hi then .panic
           else if (if lo > 0 then lo else 0) ≤ (if hi < 3 then hi else 3) then .sol else .noSolution⟩
  /- api/arithmetic.rs `add` computes `x.min_raw + y.min_raw` -/
  | .boundsUse lo hi => ⟨none, if lo > hi then .panic else .sol⟩
  /- factory_internal.rs `new_vars` swaps reversed bounds -/
  | .ints _ _ _ => ⟨none, .sol⟩
  /- `new_from_values(vec![])` is the empty set with universe `[0,-1]` -/
  | .set vals => ⟨none, if vals.isEmpty then .err .invalidDomain else .sol⟩
  /- api/arithmetic.rs `min`/`max`: `Err(InvalidInput)` from the posting call, nothing is posted -/
  | .minMax _ n _ => ⟨if n = 0 then some .invalidInput else none, .sol⟩
  /- functions.rs: the plain helpers record `InvalidConstraint`; the reified ones do not check,
     `IntLinLeReif` / `IntLinNeReif` then index `coefficients[i]` for `i < variables.len()` -/
  | .linLen nc nv rel reif =>
    ⟨none,
      if reif then (if nc < nv ∧ rel ≠ 0 then .panic else .sol)
      else if nc ≠ nv then .err .invalidConstraint else .sol⟩
  /- validation.rs `validate_constraint_parameters`, Division | Modulo arm -/
  | .zeroDiv lo hi _ _ => ⟨none, if lo ≤ 0 ∧ 0 ≤ hi then .err .invalidConstraint else .sol⟩
  /- props/element.rs: the index is intersected with `[0, n-1]`, an empty intersection fails -/
  | .elem n lo hi _ =>
    ⟨none, if (if lo > 0 then lo else 0) ≤ (if hi < (n : Int) - 1 then hi else (n : Int) - 1) then .sol else .noSolution⟩
  /- factory_internal.rs `add_memory_usage` / `new_var_unchecked` (the dummy `VarId(0)` names a
     placeholder variable when the rejected variable was the first one: fix 39d3272; it used to
     be dereferenced on an empty model), then validation.rs "domain is too large" -/
  | .mem limit lo hi post first =>
    ⟨none,
      if memExceeded limit lo hi post first then .err .memoryLimit
      else if hi - lo + 1 > maxDomainSize then .err .invalidDomain
      else .sol⟩
  /- props/table.rs constructor assertion -/
  /- props/table.rs `Table::new` drops tuples of another arity (fix ade514e; it asserted before):
     the single row is gone, no tuple is left -/
  | .tableArity nv rowlen => ⟨none, if nv ≠ rowlen then .noSolution else .sol⟩
  /- validation.rs AllDifferent duplicate check -/
  | .allDiffDup dup => ⟨none, if dup then .err .invalidConstraint else .sol⟩
  /- validation.rs `validate_alldiff_constraints` (`Determ.adScan`; constraints over at most one
     variable are skipped; `num_variables` counts the float variables the scan skips) -/
  | .allDiff ds =>
    ⟨none,
      if ds.length ≤ 1 then .sol
      else match Determ.adScan ds.length ds [] [] with
        | .ok => if adSat (adInts ds) [] then .sol else .noSolution
        | _ => .err .conflictingConstraints⟩

/-- the scenario contains one of the documented invalid inputs of the property text -/
def documentedInvalid : Scenario → Bool
  | .bounds lo hi | .boundsEq lo hi | .boundsUse lo hi => decide (lo > hi)
  | .set vals => vals.isEmpty
  | .minMax _ n _ => n == 0
  | .linLen nc nv _ _ => nc != nv
  | .zeroDiv lo hi _ _ => decide (lo ≤ 0 ∧ 0 ≤ hi)
  | .elem n lo hi _ => decide (hi < 0 ∨ lo ≥ (n : Int))
  | .mem limit lo hi post first => memExceeded limit lo hi post first
  | _ => false

/-- the invalid input surfaced as an `Err` value or as an unsatisfiable verdict -/
def Outcome.surfaced (o : Outcome) : Bool :=
  o.postErr.isSome || (match o.verdict with | .err _ => true | .noSolution => true | _ => false)

/-- matchers of the known findings among the scenarios -/
def isFinding : Scenario → Bool
  | .boundsEq lo hi | .boundsUse lo hi => decide (lo > hi)        -- empty-domain-view-panic
  | .linLen nc nv _ true => nc != nv                              -- lin-reif-length-unchecked
  | _ => false

/-- rendering for the line protocol; `iter` = `enumerate` / `*_and_iterate` (errors become the
empty iteration) -/
def render (o : Outcome) (iter : Bool) : String :=
  let pre := match o.postErr with | some e => "posterr " ++ e.name ++ " " | none => ""
  pre ++ (match o.verdict, iter with
    | .panic, _ => "panic"
    | .sol, false => "sol"
    | .sol, true => "sols"
    | .noSolution, false => "nosolution"
    | .err e, false => "err " ++ e.name
    | _, true => "empty")

end Safety
end Selen

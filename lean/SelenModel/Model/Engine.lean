/-
Model of `src/search/{mod,agenda,branch,mode}.rs`: the propagation loop and the
depth-first branch-and-bound engine, integer core.

The two unbounded loops take a fuel argument (`.fuel` / `outOfFuel` is reported explicitly and is
never produced by the driver's fuel of 10^7 on the explored inputs); every theorem about them is
stated for an arbitrary fuel and says what holds when the run did not exhaust it.
-/
import SelenModel.Model.IntCore

namespace Selen

/-- `Propagators.dependencies[v]`: ids of the propagators triggered by variable `v`, in id order -/
def deps (ps : List PK) (v : Nat) : List Nat :=
  (List.range ps.length).filter (fun p => decide (v ∈ (ps.getD p .noop).triggers))

/-- `Agenda::schedule`: FIFO queue without duplicates -/
def schedule (q : List Nat) (p : Nat) : List Nat := if p ∈ q then q else q ++ [p]

def scheduleAll (q : List Nat) (l : List Nat) : List Nat := l.foldl schedule q

/-- the order in which scheduled propagators are popped: `choose q` is the position taken
(modulo the queue length).  FIFO, the policy of the code, is `fun _ => 0`. -/
structure Policy where
  choose : List Nat → Nat

def Policy.fifo : Policy := ⟨fun _ => 0⟩

/-- the seeded perturbation installed by the verification hook H3 in `Agenda::pop` -/
def Policy.seeded (seed : Nat) : Policy :=
  ⟨fun q => (seed * 6364136223846793005 + q.length * 7 + q.headD 0 * 13) % 18446744073709551616⟩

def Policy.pick (pol : Policy) (q : List Nat) : Option (Nat × List Nat) :=
  match q with
  | [] => none
  | _ => let i := pol.choose q % q.length; some (q.getD i 0, q.eraseIdx i)

inductive PRes where
  | fail
  | fuel
  | ok (st : Store)

/-- `search::propagate` -/
def propagate (ps : List PK) (pol : Policy) : Nat → List Nat → Store → PRes
  | 0, _, _ => .fuel
  | f+1, q, st =>
    match pol.pick q with
    | none => .ok st
    | some (p, q') =>
      match (ps.getD p .noop).prune { st := st, ev := [] } with
      | none => .fail
      | some c =>
        let q'' := c.ev.foldl (fun q v => scheduleAll q (deps ps v)) q'
        propagate ps pol f q'' c.st

/-- `Vars::get_unassigned_var` over the first `n` variables -/
def firstUnassigned (n : Nat) (st : Store) : Option Nat :=
  (List.range n).find? (fun i => !(st i).isFixed)

/-- `Var::mid` for integer variables -/
def splitMid (d : Dom) : Int := d.dmin + (d.dmax - d.dmin) / 2

/-- what the engine yields, in order: solutions (values of variables `0..n`) and stack pops -/
inductive Ev where
  | sol (vals : List Int)
  | pop
deriving DecidableEq, Repr

def solOf (n : Nat) (st : Store) : List Int := (List.range n).map (fun i => (st i).dmin)

structure Out where
  evs : List Ev := []
  /-- the root space was stalled, i.e. an `Engine` was created (limits are only ever tested by the
  engine; `Search::Done` never reports a limit) -/
  stalled : Bool := false
  /-- `Minimize.minimum_opt` after the run -/
  best : Option Int := none
  outOfFuel : Bool := false

/-- the propagator posted by `Minimize::on_branch`: `objective < minimum` as `next(obj) <= minimum` -/
def modeProps (obj : Option IView) (best : Option Int) : List PK :=
  match obj, best with
  | some o, some m => [.leq (.next o) (.const m)]
  | _, _ => []

mutual
/-- one branch of `SplitOnUnassigned` inside `Engine::next`: post the branch constraint `bp`
(and the objective cut), propagate, then either yield, descend or discard -/
def branchStep (n : Nat) (obj : Option IView) (pol : Policy) :
    Nat → List PK → Store → Option Int → PK → Out
  | 0, _, _, best, _ => { best := best, outOfFuel := true }
  | f+1, ps, st, best, bp =>
    let mp := modeProps obj best
    let psB := ps ++ [bp] ++ mp
    let agenda := (if mp.isEmpty then [] else [ps.length + 1]) ++ [ps.length]
    match propagate psB pol (f+1) agenda st with
    | .fail => { best := best }
    | .fuel => { best := best, outOfFuel := true }
    | .ok st' =>
      match firstUnassigned n st' with
      | none =>
        { evs := [.sol (solOf n st')],
          best := match obj with | some o => some (o.minRaw st') | none => best }
      | some _ =>
        let r := explore n obj pol f psB st' best
        { r with evs := r.evs ++ [.pop] }
/-- explore a stalled space: binary split on the first unassigned variable, left branch first -/
def explore (n : Nat) (obj : Option IView) (pol : Policy) :
    Nat → List PK → Store → Option Int → Out
  | 0, _, _, best => { best := best, outOfFuel := true }
  | f+1, ps, st, best =>
    match firstUnassigned n st with
    | none => { best := best }
    | some pivot =>
      let mid := splitMid (st pivot)
      let l := branchStep n obj pol f ps st best (.leq (.var pivot) (.const mid))
      let r := branchStep n obj pol f ps st l.best (.leq (.next (.const mid)) (.var pivot))
      { evs := l.evs ++ r.evs, best := r.best, outOfFuel := l.outOfFuel || r.outOfFuel }
end

/-- `search_with_timeout_and_memory` without the root LP step (integer models, no limits):
root propagation with every propagator scheduled, then the engine -/
def search (n : Nat) (obj : Option IView) (pol : Policy) (fuel : Nat) (ps : List PK) (st : Store) : Out :=
  match propagate ps pol fuel (List.range ps.length) st with
  | .fail => {}
  | .fuel => { outOfFuel := true }
  | .ok st' =>
    match firstUnassigned n st' with
    | none => { evs := [.sol (solOf n st')],
                best := match obj with | some o => some (o.minRaw st') | none => none }
    | some _ => { explore n obj pol fuel ps st' none with stalled := true }

def Out.solutions (o : Out) : List (List Int) :=
  o.evs.filterMap (fun e => match e with | .sol v => some v | .pop => none)

/-! ### limits (C15)

`Engine::next` increments `iteration_count` at the start of every call and after every stack pop,
and tests the limits when `iteration_count % timeout_check_interval == 0`.  With the interval set to
1 (verification hook H6) the `k`-th increment is the `k`-th check.  `fire k` says whether check
number `k` (1-based) finds a limit exceeded; a fired check ends the iteration. -/

/-- the solutions delivered before the first fired check, and whether a check fired.
A check happens at the start of the first `next()` call, after each delivered solution (start of
the following call) and after each pop (the loop re-enters). -/
def runLimitedGo (fire : Nat → Bool) : List Ev → Nat → List (List Int) → List (List Int) × Bool
  | evs, count, acc =>
    if fire (count + 1) then (acc.reverse, true)
    else match evs with
      | [] => (acc.reverse, false)
      | .sol v :: rest => runLimitedGo fire rest (count + 1) (v :: acc)
      | .pop :: rest => runLimitedGo fire rest (count + 1) acc
termination_by evs => evs.length

def runLimited (evs : List Ev) (fire : Nat → Bool) : List (List Int) × Bool :=
  runLimitedGo fire evs 0 []

end Selen

/-
Model of `src/search/{mod,agenda,branch,mode}.rs`: the propagation loop and the
depth-first branch-and-bound engine, integer core.

The two unbounded loops take a fuel argument (`.fuel` / `outOfFuel` is reported explicitly and is
never produced by the driver's fuel of 10^7 on the explored inputs); every theorem about them is
stated for an arbitrary fuel and says what holds when the run did not exhaust it.
-/
import SelenModel.Model.IntCore

namespace Selen

/-- `Propagators.dependencies[v]`: ids of the propagators triggered by variable `v`, in id order -/
def deps (ps : List PK) (v : Nat) : List Nat :=
  (List.range ps.length).filter (fun p => decide (v ∈ (ps.getD p .noop).triggers))

/-- `Agenda::schedule`: FIFO queue without duplicates -/
def schedule (q : List Nat) (p : Nat) : List Nat := if p ∈ q then q else q ++ [p]

def scheduleAll (q : List Nat) (l : List Nat) : List Nat := l.foldl schedule q

/-- the order in which scheduled propagators are popped: `choose q` is the position taken
(modulo the queue length).  FIFO, the policy of the code, is `fun _ => 0`. -/
structure Policy where
  choose : List Nat → Nat

def Policy.fifo : Policy := ⟨fun _ => 0⟩

/-- the seeded perturbation installed by the verification hook H3 in `Agenda::pop` -/
def Policy.seeded (seed : Nat) : Policy :=
  ⟨fun q => (seed * 6364136223846793005 + q.length * 7 + q.headD 0 * 13) % 18446744073709551616⟩

def Policy.pick (pol : Policy) (q : List Nat) : Option (Nat × List Nat) :=
  match q with
  | [] => none
  | _ => let i := pol.choose q % q.length; some (q.getD i 0, q.eraseIdx i)

inductive PRes where
  | fail
  | fuel
  | ok (st : Store)

/-- `search::propagate` -/
def propagate (ps : List PK) (pol : Policy) : Nat → List Nat → Store → PRes
  | 0, _, _ => .fuel
  | f+1, q, st =>
    match pol.pick q with
    | none => .ok st
    | some (p, q') =>
      match (ps.getD p .noop).prune { st := st, ev := [] } with
      | none => .fail
      | some c =>
        let q'' := c.ev.foldl (fun q v => scheduleAll q (deps ps v)) q'
        propagate ps pol f q'' c.st

/-- `Vars::get_unassigned_var` over the first `n` variables -/
def firstUnassigned (n : Nat) (st : Store) : Option Nat :=
  (List.range n).find? (fun i => !(st i).isFixed)

/-- `Var::mid` for integer variables -/
def splitMid (d : Dom) : Int := d.dmin + (d.dmax - d.dmin) / 2

/-- what the engine does, in order: yields a solution (values of variables `0..n`), pushes the
current branch iterator on its stack (descends into a stalled child) or pops one -/
inductive Ev where
  | sol (vals : List Int)
  | push
  | pop
deriving DecidableEq, Repr

def solOf (n : Nat) (st : Store) : List Int := (List.range n).map (fun i => (st i).dmin)

structure Out where
  evs : List Ev := []
  /-- the root space was stalled, i.e. an `Engine` was created (limits are only ever tested by the
  engine; `Search::Done` never reports a limit) -/
  stalled : Bool := false
  /-- `Minimize.minimum_opt` after the run -/
  best : Option Int := none
  outOfFuel : Bool := false

/-- the propagator posted by `Minimize::on_branch`: `objective < minimum` as `next(obj) <= minimum` -/
def modeProps (obj : Option IView) (best : Option Int) : List PK :=
  match obj, best with
  | some o, some m => [.leq (.next o) (.const m)]
  | _, _ => []

mutual
/-- one branch of `SplitOnUnassigned` inside `Engine::next`: post the branch constraint `bp`
(and the objective cut), propagate, then either yield, descend or discard -/
def branchStep (n : Nat) (obj : Option IView) (pol : Policy) :
    Nat → List PK → Store → Option Int → PK → Out
  | 0, _, _, best, _ => { best := best, outOfFuel := true }
  | f+1, ps, st, best, bp =>
    let mp := modeProps obj best
    let psB := ps ++ [bp] ++ mp
    let agenda := (if mp.isEmpty then [] else [ps.length + 1]) ++ [ps.length]
    match propagate psB pol (f+1) agenda st with
    | .fail => { best := best }
    | .fuel => { best := best, outOfFuel := true }
    | .ok st' =>
      match firstUnassigned n st' with
      | none =>
        { evs := [.sol (solOf n st')],
          best := match obj with | some o => some (o.minRaw st') | none => best }
      | some _ =>
        let r := explore n obj pol f psB st' best
        { r with evs := [.push] ++ r.evs ++ [.pop] }
/-- explore a stalled space: binary split on the first unassigned variable, left branch first -/
def explore (n : Nat) (obj : Option IView) (pol : Policy) :
    Nat → List PK → Store → Option Int → Out
  | 0, _, _, best => { best := best, outOfFuel := true }
  | f+1, ps, st, best =>
    match firstUnassigned n st with
    | none => { best := best }
    | some pivot =>
      let mid := splitMid (st pivot)
      let l := branchStep n obj pol f ps st best (.leq (.var pivot) (.const mid))
      let r := branchStep n obj pol f ps st l.best (.leq (.next (.const mid)) (.var pivot))
      { evs := l.evs ++ r.evs, best := r.best, outOfFuel := l.outOfFuel || r.outOfFuel }
end

/-- `search_with_timeout_and_memory` without the root LP step (integer models, no limits):
root propagation with every propagator scheduled, then the engine -/
def search (n : Nat) (obj : Option IView) (pol : Policy) (fuel : Nat) (ps : List PK) (st : Store) : Out :=
  match propagate ps pol fuel (List.range ps.length) st with
  | .fail => {}
  | .fuel => { outOfFuel := true }
  | .ok st' =>
    match firstUnassigned n st' with
    | none => { evs := [.sol (solOf n st')],
                best := match obj with | some o => some (o.minRaw st') | none => none }
    | some _ => { explore n obj pol fuel ps st' none with stalled := true }

def Out.solutions (o : Out) : List (List Int) :=
  o.evs.filterMap (fun e => match e with | .sol v => some v | _ => none)

/-! ### limits (C15)

`Engine::next` increments `iteration_count` at the start of every call and after every stack pop,
and tests the limits when `iteration_count % timeout_check_interval == 0`.  With the interval set to
1 (verification hook H6) every increment is followed by a check.  `fire count depth` says whether
the check made when the counter shows `count` and the stack holds `depth` iterators finds a limit
exceeded; a fired check ends the iteration (`next` returns `None` from then on is not needed: the
callers stop at the first `None`). -/

/-- `Engine::get_memory_usage_mb` -/
def memUsageMb (depth count : Nat) : Nat := Nat.max ((512 + depth * 3 + 2 + (count / 10000) * 5) / 1024) 1

/-- state of a limited run -/
structure LState where
  /-- a check is due before the next event (start of a `next()` call or just after a pop) -/
  pend : Bool := true
  count : Nat := 0
  depth : Nat := 0
  /-- delivered solutions, most recent first -/
  acc : List (List Int) := []
  fired : Bool := false
  /-- `solve` stops after the first delivered solution -/
  stopped : Bool := false

def LState.done (s : LState) : Bool := s.fired || s.stopped

/-- the pending check, if any -/
def LState.check (fire : Nat → Nat → Bool) (s : LState) : LState :=
  if s.done then s
  else if s.pend then
    if fire (s.count + 1) s.depth then { s with fired := true, count := s.count + 1, pend := false }
    else { s with count := s.count + 1, pend := false }
  else s

/-- one engine event under limits -/
def stepEv (fire : Nat → Nat → Bool) (stopAtFirst : Bool) (s : LState) (e : Ev) : LState :=
  let s1 := s.check fire
  if s1.done then s1
  else match e with
    | .push => { s1 with depth := s1.depth + 1 }
    | .sol v => { s1 with acc := v :: s1.acc, pend := true, stopped := stopAtFirst }
    | .pop => { s1 with depth := s1.depth - 1, pend := true }

/-- outcome of a limited run -/
structure LimOut where
  delivered : List (List Int)
  fired : Bool
  count : Nat
  depth : Nat

def LState.finish (fire : Nat → Nat → Bool) (s : LState) : LimOut :=
  let s1 := s.check fire
  ⟨s1.acc.reverse, s1.fired, s1.count, s1.depth⟩

/-- the engine under limits, as a fold over the unlimited event trace -/
def runLimited (evs : List Ev) (fire : Nat → Nat → Bool) (stopAtFirst : Bool := false) : LimOut :=
  (evs.foldl (stepEv fire stopAtFirst) {}).finish fire

mutual
/-- `branchStep` with the limit state threaded through: stops as soon as a check fires (this is
what the driver runs; `exploreL_eq` in Lemmas/Limits.lean shows it equals the fold above) -/
def branchStepL (n : Nat) (obj : Option IView) (pol : Policy) (fire : Nat → Nat → Bool) (saf : Bool) :
    Nat → List PK → Store → Option Int → PK → LState → LState × Option Int × Bool
  | 0, _, _, best, _, s => (s, best, true)
  | f+1, ps, st, best, bp, s =>
    if s.done then (s, best, false) else
    let mp := modeProps obj best
    let psB := ps ++ [bp] ++ mp
    let agenda := (if mp.isEmpty then [] else [ps.length + 1]) ++ [ps.length]
    match propagate psB pol (f+1) agenda st with
    | .fail => (s, best, false)
    | .fuel => (s, best, true)
    | .ok st' =>
      match firstUnassigned n st' with
      | none =>
        (stepEv fire saf s (.sol (solOf n st')),
         (match obj with | some o => some (o.minRaw st') | none => best), false)
      | some _ =>
        let s1 := stepEv fire saf s .push
        let r := exploreL n obj pol fire saf f psB st' best s1
        (stepEv fire saf r.1 .pop, r.2.1, r.2.2)
def exploreL (n : Nat) (obj : Option IView) (pol : Policy) (fire : Nat → Nat → Bool) (saf : Bool) :
    Nat → List PK → Store → Option Int → LState → LState × Option Int × Bool
  | 0, _, _, best, s => (s, best, true)
  | f+1, ps, st, best, s =>
    if s.done then (s, best, false) else
    match firstUnassigned n st with
    | none => (s, best, false)
    | some pivot =>
      let mid := splitMid (st pivot)
      let r1 := branchStepL n obj pol fire saf f ps st best (.leq (.var pivot) (.const mid)) s
      let r2 := branchStepL n obj pol fire saf f ps st r1.2.1 (.leq (.next (.const mid)) (.var pivot)) r1.1
      (r2.1, r2.2.1, r1.2.2 || r2.2.2)
end

/-- limited search from the root: `(limited outcome of the engine if the root is stalled,
the root solution list otherwise, out of fuel)` -/
def searchL (n : Nat) (obj : Option IView) (pol : Policy) (fire : Nat → Nat → Bool) (saf : Bool)
    (fuel : Nat) (ps : List PK) (st : Store) : Option LimOut × List (List Int) × Bool :=
  match propagate ps pol fuel (List.range ps.length) st with
  | .fail => (none, [], false)
  | .fuel => (none, [], true)
  | .ok st' =>
    match firstUnassigned n st' with
    | none => (none, [solOf n st'], false)
    | some _ =>
      let r := exploreL n obj pol fire saf fuel ps st' none {}
      (some (r.1.finish fire), [], r.2.2)

/-- results of the solving entry points -/
inductive SolveRes where
  | ok (v : List Int)
  | noSolution
  | timeout
  | memoryLimit
deriving DecidableEq, Repr

/-- which limit a fired check / the post-loop test reports: the timeout is tested first -/
inductive LimKind where | time | memory
deriving DecidableEq, Repr

def limErr : LimKind → SolveRes
  | .time => .timeout
  | .memory => .memoryLimit

/-- `Model::solve` on a stalled root: one `next()` call, then the post-loop limit tests.
`post` is the outcome of the post-loop tests when no in-loop check fired (it may still report a
limit, e.g. the clock ran out in between). -/
def solveLimited (o : Out) (fire : Nat → Nat → Bool) (kind : LimKind) (post : Option LimKind) : SolveRes :=
  if o.stalled then
    let r := runLimited o.evs fire true
    if r.fired then limErr kind
    else match post with
      | some k => limErr k
      | none => match r.delivered.head? with
        | some v => .ok v
        | none => .noSolution
  else match o.solutions.head? with
    | some v => .ok v
    | none => .noSolution

/-- `Model::minimize`: iterate to exhaustion, post-loop limit tests, then the last assignment -/
def minimizeLimited (o : Out) (fire : Nat → Nat → Bool) (kind : LimKind) (post : Option LimKind) : SolveRes :=
  if o.stalled then
    let r := runLimited o.evs fire false
    if r.fired then limErr kind
    else match post with
      | some k => limErr k
      | none => match r.delivered.getLast? with
        | some v => .ok v
        | none => .noSolution
  else match o.solutions.getLast? with
    | some v => .ok v
    | none => .noSolution

end Selen

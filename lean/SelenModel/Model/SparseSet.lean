/-
Model of `src/variables/domain/sparse_set.rs` (struct `SparseSet`).

Rust `Vec<u32>` fields `ind`/`val` are total functions `Nat → Nat` updated
pointwise (`upd`); every index the Rust code uses is `< n` under `SS.WF`
(proved in Lemmas/SparseSet.lean), so the values outside `[0,n)` are
irrelevant.  `u32`/`i32` arithmetic is modelled on `Nat`/`Int`; the inputs on
which the Rust arithmetic would overflow are characterised separately (C17).

Import-free on purpose: this file is linked into the `selen_model` driver.
-/

namespace Selen

/-- pointwise update of a function-array -/
def upd (f : Nat → Nat) (i x : Nat) : Nat → Nat := fun j => if j = i then x else f j

structure SS where
  off  : Int
  n    : Nat
  min  : Nat
  max  : Nat
  size : Nat
  ind  : Nat → Nat
  val  : Nat → Nat

/-- snapshot taken by `save_state` -/
structure SSState where
  size : Nat
  min  : Nat
  max  : Nat
deriving DecidableEq, Repr

namespace SS

/-- `SparseSet::new` (swaps reversed bounds) -/
def new (lo hi : Int) : SS :=
  let lo' := if lo > hi then hi else lo
  let hi' := if lo > hi then lo else hi
  let maxmin := (hi' - lo').toNat
  { off := lo', n := maxmin + 1, min := 0, max := maxmin, size := maxmin + 1,
    ind := id, val := id }

def empty (off : Int) : SS :=
  { off := off, n := 0, min := 0, max := 0, size := 0, ind := id, val := id }

/-- `SparseSet::new_unchecked` -/
def newUnchecked (lo hi : Int) : SS :=
  if lo > hi then empty lo else new lo hi

def isEmpty (s : SS) : Bool := s.size == 0
def isFixed (s : SS) : Bool := s.size == 1

/-- `contains_intl` -/
def containsI (s : SS) (v : Nat) : Bool :=
  if v ≥ s.n then false else s.ind v < s.size

/-- `contains` -/
def contains (s : SS) (v : Int) : Bool :=
  if v < s.off then false else s.containsI (v - s.off).toNat

/-- `exchange` -/
def exchange (s : SS) (v1 v2 : Nat) : SS :=
  let i1 := s.ind v1
  let i2 := s.ind v2
  let val1 := upd s.val i1 v2
  let val2 := upd val1 i2 v1
  let ind1 := upd s.ind v1 i2
  let ind2 := upd ind1 v2 i1
  { s with val := val2, ind := ind2 }

/-- downward scan `for v in (lo..lo+k).rev()` returning the first contained value -/
def scanDown (s : SS) (lo : Nat) : Nat → Option Nat
  | 0 => none
  | k+1 => if s.containsI (lo + k) then some (lo + k) else scanDown s lo k

/-- upward scan `for v in lo..lo+k` returning the first contained value -/
def scanUp (s : SS) (lo : Nat) : Nat → Option Nat
  | 0 => none
  | k+1 => if s.containsI lo then some lo else scanUp s (lo + 1) k

/-- `update_max_val_removed` -/
def updateMaxValRemoved (s : SS) (v : Nat) : SS :=
  if s.size ≠ 0 ∧ s.max = v then
    match s.scanDown s.min (v - s.min) with
    | some m => { s with max := m }
    | none => s
  else s

/-- `update_min_val_removed` -/
def updateMinValRemoved (s : SS) (v : Nat) : SS :=
  if s.size ≠ 0 ∧ s.min = v then
    match s.scanUp (v + 1) (s.max + 1 - (v + 1)) with
    | some m => { s with min := m }
    | none => s
  else s

/-- the state change of `remove` on a contained internal value -/
def removeI (s : SS) (v : Nat) : SS :=
  let s1 := s.exchange v (s.val (s.size - 1))
  let s2 := { s1 with size := s1.size - 1 }
  (s2.updateMaxValRemoved v).updateMinValRemoved v

/-- `remove`: new state and the returned flag -/
def remove (s : SS) (v : Int) : SS × Bool :=
  if s.contains v then (s.removeI (v - s.off).toNat, true) else (s, false)

def remove' (s : SS) (v : Int) : SS := (s.remove v).1

def removeAll (s : SS) : SS := { s with size := 0 }

/-- `remove_all_but` -/
def removeAllBut (s : SS) (v : Int) : SS :=
  if s.contains v then
    let vi := (v - s.off).toNat
    let val0 := s.val 0
    let index := s.ind vi
    let ind1 := upd s.ind vi 0
    let val1 := upd s.val 0 vi
    let ind2 := upd ind1 val0 index
    let val2 := upd val1 index val0
    { s with ind := ind2, val := val2, min := vi, max := vi, size := 1 }
  else s.removeAll

/-- values `lo, lo+1, …, hi-1` -/
def intRange (lo hi : Int) : List Int :=
  (List.range (hi - lo).toNat).map (fun (k : Nat) => lo + (k : Int))

def minV (s : SS) : Int := (s.min : Int) + s.off
def maxV (s : SS) : Int := (s.max : Int) + s.off

/-- `remove_below` -/
def removeBelow (s : SS) (v : Int) : SS :=
  if s.isEmpty then s
  else if s.maxV < v then s.removeAll
  else (intRange s.minV v).foldl remove' s

/-- `remove_above` -/
def removeAbove (s : SS) (v : Int) : SS :=
  if s.isEmpty then s
  else if s.minV > v then s.removeAll
  else (intRange (v + 1) (s.maxV + 1)).foldl remove' s

/-- `iter` / `to_vec`: storage order -/
def toList (s : SS) : List Int :=
  (List.range s.size).map (fun i => (s.val i : Int) + s.off)

/-- `complement_iter`: storage order of `val[size..n)` -/
def complement (s : SS) : List Int :=
  (List.range (s.n - s.size)).map (fun i => (s.val (s.size + i) : Int) + s.off)

def complementSize (s : SS) : Nat := s.n - s.size
def shouldUseComplement (s : SS) : Bool := s.complementSize < s.size / 2

def first (s : SS) : Option Int := if s.isEmpty then none else some ((s.val 0 : Int) + s.off)
def last (s : SS) : Option Int :=
  if s.isEmpty then none else some ((s.val (s.size - 1) : Int) + s.off)

def minUniverse (s : SS) : Int := s.off
def maxUniverse (s : SS) : Int := s.off + (s.n : Int) - 1

/-- `intersect_with` -/
def intersectWith (s other : SS) : SS :=
  (s.toList.filter (fun v => !other.contains v)).foldl remove' s

/-- `diff_with` -/
def diffWith (s other : SS) : SS :=
  (s.toList.filter (fun v => other.contains v)).foldl remove' s

/-- swap-and-grow step of `union_with`: the absent value `vi` is exchanged with the value
stored at position `size`, then `size += 1` -/
def grow (s : SS) (vi : Nat) : SS :=
  let s1 := s.exchange vi (s.val s.size)
  { s1 with size := s1.size + 1 }

/-- bound update of `union_with` after `vi` was added -/
def addBounds (g : SS) (vi : Nat) : SS :=
  if g.size = 1 then { g with min := vi, max := vi }
  else
    let g3 := if vi < g.min then { g with min := vi } else g
    if vi > g3.max then { g3 with max := vi } else g3

/-- one iteration of the loop of `union_with` -/
def unionOne (s : SS) (v : Int) : SS :=
  if s.contains v then s
  else if v ≥ s.off ∧ v < s.off + (s.n : Int) then
    let vi := (v - s.off).toNat
    if !s.containsI vi then (s.grow vi).addBounds vi else s
  else s

/-- `union_with` -/
def unionWith (s other : SS) : SS := other.toList.foldl unionOne s

/-- `is_subset_of` -/
def isSubsetOf (s other : SS) : Bool := s.toList.all (fun v => other.contains v)

/-- `equals` -/
def equals (s other : SS) : Bool :=
  if s.size ≠ other.size then false else s.toList.all (fun v => other.contains v)

def saveState (s : SS) : SSState := { size := s.size, min := s.min, max := s.max }
def restoreState (s : SS) (st : SSState) : SS :=
  { s with size := st.size, min := st.min, max := st.max }
def restoreSize (s : SS) (k : Nat) : SS := { s with size := k }

/-- least element of a non-empty list -/
def listMin : List Int → Int
  | [] => 0
  | x :: xs => xs.foldl (fun a b => if b < a then b else a) x
def listMax : List Int → Int
  | [] => 0
  | x :: xs => xs.foldl (fun a b => if b > a then b else a) x

/-- `new_from_values` -/
def newFromValues (vs : List Int) : SS :=
  if vs.isEmpty then empty 0
  else
    let lo := listMin vs
    let hi := listMax vs
    ((intRange lo (hi + 1)).filter (fun i => !vs.contains i)).foldl remove' (new lo hi)

end SS

/-! ### histories: the operation language of the C11 statement

`Sys` pairs the concrete sparse set with (i) the snapshot slots a client holds and
(ii) *ghost* data: the mathematical set `cur` the history denotes and, per slot, the set that
was current when the snapshot was taken, plus a validity flag.  A snapshot stops being
restorable (flag cleared) when `union_with` runs or when an older snapshot is restored
(LIFO trail discipline).  The ghost fields never influence the concrete fields. -/

inductive SSOp where
  | remove (v : Int) | below (v : Int) | above (v : Int) | only (v : Int) | clear
  | inter (o : SS) | diff (o : SS) | union (o : SS)
  | save (k : Nat) | restore (k : Nat)

structure Slot where
  key   : Nat
  snap  : SSState
  valid : Bool
  seq   : Nat
  ghost : Int → Prop

structure Sys where
  ss    : SS
  slots : List Slot := []
  seq   : Nat := 0
  /-- the plain mathematical set -/
  cur   : Int → Prop
  /-- false once a history restored a snapshot that was no longer restorable -/
  ok    : Bool := true

namespace Sys

def init (lo hi : Int) : Sys :=
  { ss := SS.new lo hi, cur := fun w => (if lo > hi then hi else lo) ≤ w ∧ w ≤ (if lo > hi then lo else hi) }

def step (y : Sys) : SSOp → Sys
  | .remove v => { y with ss := y.ss.remove' v, cur := fun w => y.cur w ∧ w ≠ v }
  | .below v  => { y with ss := y.ss.removeBelow v, cur := fun w => y.cur w ∧ v ≤ w }
  | .above v  => { y with ss := y.ss.removeAbove v, cur := fun w => y.cur w ∧ w ≤ v }
  | .only v   => { y with ss := y.ss.removeAllBut v, cur := fun w => y.cur w ∧ w = v }
  | .clear    => { y with ss := y.ss.removeAll, cur := fun _ => False }
  | .inter o  => { y with ss := y.ss.intersectWith o, cur := fun w => y.cur w ∧ o.contains w = true }
  | .diff o   => { y with ss := y.ss.diffWith o, cur := fun w => y.cur w ∧ o.contains w = false }
  | .union o  =>
    { y with ss := y.ss.unionWith o,
             cur := fun w => y.cur w ∨ (w ∈ o.toList ∧ y.ss.off ≤ w ∧ w < y.ss.off + (y.ss.n : Int)),
             slots := y.slots.map (fun sl => { sl with valid := false }) }
  | .save k   =>
    { y with seq := y.seq + 1,
             slots := { key := k, snap := y.ss.saveState, valid := true, seq := y.seq + 1, ghost := y.cur }
                      :: y.slots.filter (fun sl => sl.key != k) }
  | .restore k =>
    match y.slots.find? (fun sl => sl.key == k) with
    | none => y
    | some sl =>
      { y with ss := y.ss.restoreState sl.snap, cur := sl.ghost, ok := y.ok && sl.valid,
               slots := y.slots.map (fun t => { t with valid := t.valid && decide (t.seq ≤ sl.seq) }) }

def run (ops : List SSOp) (y : Sys) : Sys := ops.foldl step y

end Sys
end Selen

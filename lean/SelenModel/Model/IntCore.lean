/-
Integer / boolean core of the solver model.

* `Dom`      — abstract integer domain: the *set* of present values as a duplicate-free list
               (the refinement from `SparseSet` to sets is C11; only `min`, `max`, `size`,
               `remove_below`, `remove_above` are used by the propagation code).
* `Ctx`      — `views::Context`: the store plus the event list.
* `trySetMin/Max` — `Context::try_set_min/max`, integer arms (`views.rs:185-355`).
* `IView`    — the view combinators on integer variables (`views.rs:513-1264`).
* `PK`       — propagator kinds with `prune`, `triggers` and the documented meaning `holds`.

Import-free: linked into the `selen_model` driver.
-/
import SelenModel.Model.SparseSet

namespace Selen

abbrev Dom := List Int

namespace Dom
def dmin (d : Dom) : Int := SS.listMin d
def dmax (d : Dom) : Int := SS.listMax d
def isFixed (d : Dom) : Bool := d.length == 1
def removeBelow (d : Dom) (v : Int) : Dom := d.filter (fun w => decide (v ≤ w))
def removeAbove (d : Dom) (v : Int) : Dom := d.filter (fun w => decide (w ≤ v))
end Dom

/-- store: variable index ↦ domain -/
abbrev Store := Nat → Dom

def updS (st : Store) (i : Nat) (d : Dom) : Store := fun j => if j = i then d else st j

structure Ctx where
  st : Store
  ev : List Nat := []

namespace Ctx

/-- `Context::try_set_min`, (VarI, ValI) arm -/
def trySetMin (c : Ctx) (i : Nat) (v : Int) : Option Ctx :=
  let d := c.st i
  if v > d.dmax then none
  else if v > d.dmin then
    let d' := d.removeBelow v
    if d'.isEmpty then none
    else some { st := updS c.st i d', ev := c.ev ++ [i] }
  else some c

/-- `Context::try_set_max`, (VarI, ValI) arm -/
def trySetMax (c : Ctx) (i : Nat) (v : Int) : Option Ctx :=
  let d := c.st i
  if v < d.dmin then none
  else if v < d.dmax then
    let d' := d.removeAbove v
    if d'.isEmpty then none
    else some { st := updS c.st i d', ev := c.ev ++ [i] }
  else some c

end Ctx

/-- mathematical floor / ceiling of `a / b` (`b ≠ 0`) -/
def floorDiv (a b : Int) : Int := Int.fdiv a b
def ceilDiv (a b : Int) : Int := -(Int.fdiv (-a) b)

/-- integer views -/
inductive IView where
  | const (c : Int)
  | var (i : Nat)
  | opp (v : IView)
  | plus (v : IView) (k : Int)
  | tpos (v : IView) (k : Int)     -- TimesPos, `k > 0`
  | next (v : IView)
  | prev (v : IView)
deriving Repr

namespace IView

/-- `Times::new`: sign dispatch -/
def times (v : IView) (k : Int) : IView :=
  if k < 0 then .tpos (.opp v) (-k) else if k = 0 then .const 0 else .tpos v k

/-- `times_neg` -/
def timesNeg (v : IView) (k : Int) : IView := .tpos (.opp v) (-k)

def underlying : IView → Option Nat
  | .const _ => none
  | .var i => some i
  | .opp v => v.underlying
  | .plus v _ => v.underlying
  | .tpos v _ => v.underlying
  | .next v => v.underlying
  | .prev v => v.underlying

/-- the function of the underlying variable's value the view denotes -/
def apply : IView → Int → Int
  | .const c, _ => c
  | .var _, x => x
  | .opp v, x => -(v.apply x)
  | .plus v k, x => v.apply x + k
  | .tpos v k, x => v.apply x * k
  | .next v, x => v.apply x + 1
  | .prev v, x => v.apply x - 1

/-- value of the view under an assignment -/
def eval (a : Nat → Int) : IView → Int
  | .const c => c
  | .var i => a i
  | .opp v => -(v.eval a)
  | .plus v k => v.eval a + k
  | .tpos v k => v.eval a * k
  | .next v => v.eval a + 1
  | .prev v => v.eval a - 1

mutual
def minRaw (st : Store) : IView → Int
  | .const c => c
  | .var i => (st i).dmin
  | .opp v => -(maxRaw st v)
  | .plus v k => minRaw st v + k
  | .tpos v k => minRaw st v * k
  | .next v => minRaw st v + 1
  | .prev v => minRaw st v - 1
def maxRaw (st : Store) : IView → Int
  | .const c => c
  | .var i => (st i).dmax
  | .opp v => -(minRaw st v)
  | .plus v k => maxRaw st v + k
  | .tpos v k => maxRaw st v * k
  | .next v => maxRaw st v + 1
  | .prev v => maxRaw st v - 1
end

mutual
def trySetMin : IView → Int → Ctx → Option Ctx
  | .const c, m, ctx => if m ≤ c then some ctx else none
  | .var i, m, ctx => ctx.trySetMin i m
  | .opp v, m, ctx => trySetMax v (-m) ctx
  | .plus v k, m, ctx => trySetMin v (m - k) ctx
  | .tpos v k, m, ctx => trySetMin v (ceilDiv m k) ctx
  | .next v, m, ctx => trySetMin v (m - 1) ctx
  | .prev v, m, ctx => trySetMin v (m + 1) ctx
def trySetMax : IView → Int → Ctx → Option Ctx
  | .const c, m, ctx => if m ≥ c then some ctx else none
  | .var i, m, ctx => ctx.trySetMax i m
  | .opp v, m, ctx => trySetMin v (-m) ctx
  | .plus v k, m, ctx => trySetMax v (m - k) ctx
  | .tpos v k, m, ctx => trySetMax v (floorDiv m k) ctx
  | .next v, m, ctx => trySetMax v (m - 1) ctx
  | .prev v, m, ctx => trySetMax v (m + 1) ctx
end

def vmin (v : IView) (c : Ctx) : Int := v.minRaw c.st
def vmax (v : IView) (c : Ctx) : Int := v.maxRaw c.st

end IView

/-! ### propagator kinds -/

def imin (a b : Int) : Int := if b < a then b else a
def imax (a b : Int) : Int := if b > a then b else a

/-- six comparison kinds of the reified integer propagators -/
inductive Cmp where | eq | ne | lt | le | gt | ge
deriving DecidableEq, Repr

def Cmp.holds : Cmp → Int → Int → Bool
  | .eq, x, y => x == y
  | .ne, x, y => x != y
  | .lt, x, y => decide (x < y)
  | .le, x, y => decide (x ≤ y)
  | .gt, x, y => decide (x > y)
  | .ge, x, y => decide (x ≥ y)

inductive PK where
  | leq (x y : IView)                              -- LessThanOrEquals
  | eq (x y : IView)                               -- Eq
  | neq (x y : IView)                              -- NotEquals (no-op propagator)
  | add (x y : IView) (s : Nat)                    -- Add
  | sum (xs : List IView) (s : Nat)                -- Sum
  | linEq (cs : List Int) (xs : List Nat) (c : Int)
  | linLe (cs : List Int) (xs : List Nat) (c : Int)
  | linNe (cs : List Int) (xs : List Nat) (c : Int)
  | linEqReif (cs : List Int) (xs : List Nat) (c : Int) (b : Nat)
  | linLeReif (cs : List Int) (xs : List Nat) (c : Int) (b : Nat)
  | linNeReif (cs : List Int) (xs : List Nat) (c : Int) (b : Nat)
  | reif (op : Cmp) (x y b : Nat)                  -- IntEqReif … IntGeReif
  | boolAnd (ops : List Nat) (r : Nat)
  | boolOr (ops : List Nat) (r : Nat)
  | boolNot (o r : Nat)
  | boolXor (x y r : Nat)
  | abs (x : IView) (s : Nat)
  | min (xs : List Nat) (r : Nat)
  | max (xs : List Nat) (r : Nat)
  | noop
deriving Repr

/-- `Option` bind chain helper: run `f` for every element, threading the context -/
def forM' {α : Type} (l : List α) (c : Ctx) (f : α → Ctx → Option Ctx) : Option Ctx :=
  l.foldl (fun acc a => match acc with | none => none | some c' => f a c') (some c)

namespace Lin

/-- `(min_term, max_term)` of `coeff * x` over `[l,u]` as computed by the linear propagators -/
def termBounds (coeff l u : Int) : Int × Int :=
  if coeff > 0 then (coeff * l, coeff * u) else (coeff * u, coeff * l)

/-- sums over all positions `j ≠ i` -/
def otherBounds (cs : List Int) (xs : List Nat) (st : Store) (i : Nat) : Int × Int :=
  ((List.range (Nat.min cs.length xs.length)).foldl (fun (acc : Int × Int) j =>
    if j = i then acc else
      let tb := termBounds (cs.getD j 0) (st (xs.getD j 0)).dmin (st (xs.getD j 0)).dmax
      (acc.1 + tb.1, acc.2 + tb.2)) (0, 0))

/-- `compute_sum_bounds` -/
def sumBounds (cs : List Int) (xs : List Nat) (st : Store) : Int × Int :=
  (List.zip cs xs).foldl (fun (acc : Int × Int) (p : Int × Nat) =>
      let tb := termBounds p.1 (st p.2).dmin (st p.2).dmax
      (acc.1 + tb.1, acc.2 + tb.2)) (0, 0)

/-- `compute_fixed_sum` -/
def fixedSum (cs : List Int) (xs : List Nat) (st : Store) : Option Int :=
  (List.zip cs xs).foldl (fun (acc : Option Int) (p : Int × Nat) =>
      match acc with
      | none => none
      | some s => if (st p.2).dmin = (st p.2).dmax then some (s + p.1 * (st p.2).dmin) else none) (some 0)

/-- `IntLinEq::prune` / `prune_int_lin_eq` (variables indexed as in the Rust loops:
`for i in 0..variables.len()` — the coefficient vector is indexed with the same `i`) -/
def pruneEq (cs : List Int) (xs : List Nat) (c : Int) (ctx : Ctx) : Option Ctx :=
  forM' (List.range xs.length) ctx (fun i ctx =>
    let coeff := cs.getD i 0
    if coeff = 0 then some ctx else
      let ob := otherBounds cs xs ctx.st i
      let tmin := c - ob.2
      let tmax := c - ob.1
      let nb : Int × Int :=
        if coeff > 0 then (ceilDiv tmin coeff, floorDiv tmax coeff)
        else (ceilDiv tmax coeff, floorDiv tmin coeff)
      match ctx.trySetMin (xs.getD i 0) nb.1 with
      | none => none
      | some c1 => c1.trySetMax (xs.getD i 0) nb.2)

/-- `IntLinLe::prune` / `prune_int_lin_le` -/
def pruneLe (cs : List Int) (xs : List Nat) (c : Int) (ctx : Ctx) : Option Ctx :=
  forM' (List.range xs.length) ctx (fun i ctx =>
    let coeff := cs.getD i 0
    if coeff = 0 then some ctx else
      let ob := otherBounds cs xs ctx.st i
      let remaining := c - ob.1
      if coeff > 0 then ctx.trySetMax (xs.getD i 0) (remaining / coeff)
      else ctx.trySetMin (xs.getD i 0) (remaining / coeff))

/-- `exclude_value` for an integer variable -/
def excludeValue (x : Nat) (f : Int) (ctx : Ctx) : Option Ctx :=
  let mn := (ctx.st x).dmin
  let mx := (ctx.st x).dmax
  if f < mn ∨ f > mx then some ctx
  else if mn = mx ∧ mn = f then none
  else if mn = f then ctx.trySetMin x (f + 1)
  else if mx = f then ctx.trySetMax x (f - 1)
  else some ctx

/-- scan of `IntLinNe::prune`: `none` = "more than one unfixed variable",
`some (unfixed index?, fixed sum)` otherwise -/
def neScan (cs : List Int) (xs : List Nat) (st : Store) : Option (Option Nat × Int) :=
  (List.range xs.length).foldl (fun (acc : Option (Option Nat × Int)) i =>
    match acc with
    | none => none
    | some (u, s) =>
      let d := st (xs.getD i 0)
      if d.dmin = d.dmax then some (u, s + cs.getD i 0 * d.dmin)
      else match u with
        | some _ => none
        | none => some (some i, s)) (some (none, 0))

/-- `IntLinNe::prune` / `prune_int_lin_ne` -/
def pruneNe (cs : List Int) (xs : List Nat) (c : Int) (ctx : Ctx) : Option Ctx :=
  match neScan cs xs ctx.st with
  | none => some ctx
  | some (none, s) => if s = c then none else some ctx
  | some (some i, s) =>
    let coeff := cs.getD i 0
    if coeff = 0 then (if s = c then none else some ctx)
    else
      let num := c - s
      if Int.tmod num coeff = 0 then excludeValue (xs.getD i 0) (Int.tdiv num coeff) ctx
      else some ctx

end Lin

/-- set a boolean variable to a constant (min then max) -/
def setBoth (b : Nat) (v : Int) (ctx : Ctx) : Option Ctx :=
  match ctx.trySetMin b v with
  | none => none
  | some c1 => c1.trySetMax b v

namespace PK

def bind (o : Option Ctx) (f : Ctx → Option Ctx) : Option Ctx :=
  match o with | none => none | some c => f c

infixl:55 " >>>= " => bind

def pruneReif (op : Cmp) (x y b : Nat) (ctx : Ctx) : Option Ctx :=
  let xmin := (ctx.st x).dmin
  let xmax := (ctx.st x).dmax
  let ymin := (ctx.st y).dmin
  let ymax := (ctx.st y).dmax
  let bmin := (ctx.st b).dmin
  let bmax := (ctx.st b).dmax
  /- the "must be equal" and "must differ" bodies shared by eq/ne -/
  let forceEq (c : Ctx) : Option Ctx :=
    let nmin := if xmin > ymin then xmin else ymin
    let nmax := if xmax < ymax then xmax else ymax
    if nmin > nmax then none
    else c.trySetMin x nmin >>>= (·.trySetMax x nmax) >>>= (·.trySetMin y nmin) >>>= (·.trySetMax y nmax)
  let forceNe (c : Ctx) : Option Ctx :=
    if xmin = xmax then
      if ymin = xmin ∧ ymin < ymax then c.trySetMin y (ymin + 1)
      else if ymax = xmin ∧ ymin < ymax then c.trySetMax y (ymax - 1)
      else some c
    else if ymin = ymax then
      if xmin = ymin ∧ xmin < xmax then c.trySetMin x (xmin + 1)
      else if xmax = ymin ∧ xmin < xmax then c.trySetMax x (xmax - 1)
      else some c
    else some c
  match op with
  | .eq =>
    (if xmax < ymin ∨ ymax < xmin then ctx.trySetMax b 0
     else if xmin = xmax ∧ ymin = ymax ∧ xmin = ymin then ctx.trySetMin b 1
     else some ctx) >>>= (fun c => if bmin ≥ 1 then forceEq c else some c)
      >>>= (fun c => if bmax ≤ 0 then forceNe c else some c)
  | .ne =>
    (if xmax < ymin ∨ ymax < xmin then ctx.trySetMin b 1
     else if xmin = xmax ∧ ymin = ymax ∧ xmin = ymin then ctx.trySetMax b 0
     else some ctx) >>>= (fun c => if bmin ≥ 1 then forceNe c else some c)
      >>>= (fun c => if bmax ≤ 0 then forceEq c else some c)
  | .lt =>
    (if xmax < ymin then ctx.trySetMin b 1
     else if xmin ≥ ymax then ctx.trySetMax b 0
     else some ctx)
      >>>= (fun c => if bmin ≥ 1 then c.trySetMax x (ymax - 1) >>>= (·.trySetMin y (xmin + 1)) else some c)
      >>>= (fun c => if bmax ≤ 0 then c.trySetMin x ymin >>>= (·.trySetMax y xmax) else some c)
  | .le =>
    (if xmax ≤ ymin then ctx.trySetMin b 1
     else if xmin > ymax then ctx.trySetMax b 0
     else some ctx)
      >>>= (fun c => if bmin ≥ 1 then c.trySetMax x ymax >>>= (·.trySetMin y xmin) else some c)
      >>>= (fun c => if bmax ≤ 0 then c.trySetMin x (ymin + 1) >>>= (·.trySetMax y (xmax - 1)) else some c)
  | .gt =>
    (if xmin > ymax then ctx.trySetMin b 1
     else if xmax ≤ ymin then ctx.trySetMax b 0
     else some ctx)
      >>>= (fun c => if bmin ≥ 1 then c.trySetMin x (ymin + 1) >>>= (·.trySetMax y (xmax - 1)) else some c)
      >>>= (fun c => if bmax ≤ 0 then c.trySetMax x ymax >>>= (·.trySetMin y xmin) else some c)
  | .ge =>
    (if xmin ≥ ymax then ctx.trySetMin b 1
     else if xmax < ymin then ctx.trySetMax b 0
     else some ctx)
      >>>= (fun c => if bmin ≥ 1 then c.trySetMin x ymin >>>= (·.trySetMax y xmax) else some c)
      >>>= (fun c => if bmax ≤ 0 then c.trySetMax x (ymax - 1) >>>= (·.trySetMin y (xmin + 1)) else some c)

def pruneBoolAnd (ops : List Nat) (r : Nat) (ctx : Ctx) : Option Ctx :=
  if ops.isEmpty then setBoth r 1 ctx else
  let rmin := (ctx.st r).dmin
  let rmax := (ctx.st r).dmax
  (if rmin ≥ 1 then forM' ops ctx (fun o c => c.trySetMin o 1) else some ctx)
  >>>= (fun c =>
    if rmax ≤ 0 then
      let falseOps := (ops.filter (fun o => decide ((c.st o).dmax ≤ 0))).length
      let undet := ops.filter (fun o => !decide ((c.st o).dmax ≤ 0) && decide ((c.st o).dmin ≤ 0) && decide ((c.st o).dmax ≥ 1))
      if falseOps = 0 ∧ undet.length = 1 then c.trySetMax (undet.headD 0) 0 else some c
    else some c)
  >>>= (fun c =>
    /- scan with early exit at the first false operand -/
    let anyFalse := ops.any (fun o => decide ((c.st o).dmax ≤ 0))
    let allTrue := ops.all (fun o => !decide ((c.st o).dmin ≤ 0))
    if anyFalse then c.trySetMax r 0
    else if allTrue then c.trySetMin r 1
    else some c)

def pruneBoolOr (ops : List Nat) (r : Nat) (ctx : Ctx) : Option Ctx :=
  if ops.isEmpty then setBoth r 0 ctx else
  let rmin := (ctx.st r).dmin
  let rmax := (ctx.st r).dmax
  (if rmax ≤ 0 then forM' ops ctx (fun o c => c.trySetMax o 0) else some ctx)
  >>>= (fun c =>
    if rmin ≥ 1 then
      let trueOps := (ops.filter (fun o => decide ((c.st o).dmin ≥ 1))).length
      let undet := ops.filter (fun o => !decide ((c.st o).dmin ≥ 1) && decide ((c.st o).dmin ≤ 0) && decide ((c.st o).dmax ≥ 1))
      if trueOps = 0 ∧ undet.length = 1 then c.trySetMin (undet.headD 0) 1 else some c
    else some c)
  >>>= (fun c =>
    let anyTrue := ops.any (fun o => decide ((c.st o).dmin ≥ 1))
    let allFalse := ops.all (fun o => !decide ((c.st o).dmax ≥ 1))
    if anyTrue then c.trySetMin r 1
    else if allFalse then c.trySetMax r 0
    else some c)

def pruneBoolNot (o r : Nat) (ctx : Ctx) : Option Ctx :=
  let omin := (ctx.st o).dmin
  let omax := (ctx.st o).dmax
  let rmin := (ctx.st r).dmin
  let rmax := (ctx.st r).dmax
  (if omax ≤ 0 then setBoth r 1 ctx
   else if omin ≥ 1 then setBoth r 0 ctx
   else some ctx)
  >>>= (fun c =>
    if rmax ≤ 0 then c.trySetMin o 1
    else if rmin ≥ 1 then setBoth o 0 c
    else some c)

def pruneBoolXor (x y r : Nat) (ctx : Ctx) : Option Ctx :=
  let xmin := (ctx.st x).dmin
  let xmax := (ctx.st x).dmax
  let ymin := (ctx.st y).dmin
  let ymax := (ctx.st y).dmax
  let rmin := (ctx.st r).dmin
  let rmax := (ctx.st r).dmax
  (if rmin ≥ 1 then
    (if xmax ≤ 0 then ctx.trySetMin y 1 else some ctx)
    >>>= (fun c => if xmin ≥ 1 then c.trySetMax y 0 else some c)
    >>>= (fun c => if ymax ≤ 0 then c.trySetMin x 1 else some c)
    >>>= (fun c => if ymin ≥ 1 then c.trySetMax x 0 else some c)
   else some ctx)
  >>>= (fun c =>
    if rmax ≤ 0 then
      (if xmax ≤ 0 then c.trySetMax y 0 else some c)
      >>>= (fun c => if xmin ≥ 1 then c.trySetMin y 1 else some c)
      >>>= (fun c => if ymax ≤ 0 then c.trySetMax x 0 else some c)
      >>>= (fun c => if ymin ≥ 1 then c.trySetMin x 1 else some c)
    else some c)
  >>>= (fun c =>
    if xmin = xmax ∧ ymin = ymax then
      let xb := decide (xmin ≥ 1)
      let yb := decide (ymin ≥ 1)
      if xb != yb then setBoth r 1 c else setBoth r 0 c
    else some c)

def pruneAbs (x : IView) (s : Nat) (ctx : Ctx) : Option Ctx :=
  let xmin := x.vmin ctx
  let xmax := x.vmax ctx
  ctx.trySetMin s 0 >>>= (fun c =>
    let absMin := if xmin ≤ 0 ∧ xmax ≥ 0 then 0 else if xmin > 0 then xmin else -xmax
    let a1 := xmin.natAbs
    let a2 := xmax.natAbs
    let absMax : Int := if a1 > a2 then a1 else a2
    c.trySetMin s absMin >>>= (·.trySetMax s absMax))
  >>>= (fun c =>
    let smin := (c.st s).dmin
    let smax := (c.st s).dmax
    x.trySetMin (-smax) c >>>= (x.trySetMax smax ·) >>>= (fun c =>
      if smin = smax ∧ smin > 0 then
        let xmn := x.vmin c
        let xmx := x.vmax c
        if xmn ≥ 0 then x.trySetMin smin c >>>= (x.trySetMax smax ·)
        else if xmx ≤ 0 then x.trySetMin (-smax) c >>>= (x.trySetMax (-smin) ·)
        else some c
      else some c))

def pruneMin (xs : List Nat) (r : Nat) (ctx : Ctx) : Option Ctx :=
  match xs with
  | [] => some ctx
  | x0 :: rest =>
    let minOfMins := rest.foldl (fun acc x => if (ctx.st x).dmin < acc then (ctx.st x).dmin else acc) (ctx.st x0).dmin
    let minOfMaxs := rest.foldl (fun acc x => if (ctx.st x).dmax < acc then (ctx.st x).dmax else acc) (ctx.st x0).dmax
    ctx.trySetMin r minOfMins >>>= (·.trySetMax r minOfMaxs) >>>= (fun c =>
      let rmin := (c.st r).dmin
      let rmax := (c.st r).dmax
      forM' xs c (fun x c => c.trySetMin x rmin) >>>= (fun c =>
        (if rmin = rmax then
          if xs.any (fun x => decide ((c.st x).dmin ≤ rmin) && decide (rmin ≤ (c.st x).dmax)) then some c else none
         else some c) >>>= (fun c =>
          let canBe := xs.filter (fun x => decide ((c.st x).dmin ≤ rmin) && decide (rmin ≤ (c.st x).dmax))
          let hasNext := xs.any (fun x => decide ((c.st x).dmin > rmin))
          if hasNext ∧ canBe.length = 1 then c.trySetMax r (c.st (canBe.headD 0)).dmax else some c)))

def pruneMax (xs : List Nat) (r : Nat) (ctx : Ctx) : Option Ctx :=
  match xs with
  | [] => some ctx
  | x0 :: rest =>
    let maxOfMaxs := rest.foldl (fun acc x => if (ctx.st x).dmax > acc then (ctx.st x).dmax else acc) (ctx.st x0).dmax
    let maxOfMins := rest.foldl (fun acc x => if (ctx.st x).dmin > acc then (ctx.st x).dmin else acc) (ctx.st x0).dmin
    ctx.trySetMin r maxOfMins >>>= (·.trySetMax r maxOfMaxs) >>>= (fun c =>
      let rmin := (c.st r).dmin
      let rmax := (c.st r).dmax
      forM' xs c (fun x c => c.trySetMax x rmax) >>>= (fun c =>
        (if rmin = rmax then
          if xs.any (fun x => decide ((c.st x).dmin ≤ rmax) && decide (rmax ≤ (c.st x).dmax)) then some c else none
         else some c) >>>= (fun c =>
          let canBe := xs.filter (fun x => decide ((c.st x).dmin ≤ rmax) && decide (rmax ≤ (c.st x).dmax))
          let hasPrev := xs.any (fun x => decide ((c.st x).dmax < rmax))
          if hasPrev ∧ canBe.length = 1 then c.trySetMin r (c.st (canBe.headD 0)).dmin else some c)))

/-- `Prune::prune` -/
def prune : PK → Ctx → Option Ctx
  | .leq x y, ctx =>
    x.trySetMax (y.vmax ctx) ctx >>>= (fun c => y.trySetMin (x.vmin c) c)
  | .eq x y, ctx =>
    x.trySetMin (y.vmin ctx) ctx >>>= (fun c => x.trySetMax (y.vmax c) c)
      >>>= (fun c => y.trySetMin (x.vmin c) c) >>>= (fun c => y.trySetMax (x.vmax c) c)
  | .neq _ _, ctx => some ctx
  | .add x y s, ctx =>
    ctx.trySetMin s (x.vmin ctx + y.vmin ctx)
      >>>= (fun c => c.trySetMax s (x.vmax c + y.vmax c))
      >>>= (fun c => x.trySetMin ((c.st s).dmin - y.vmax c) c)
      >>>= (fun c => x.trySetMax ((c.st s).dmax - y.vmin c) c)
      >>>= (fun c => y.trySetMin ((c.st s).dmin - x.vmax c) c)
      >>>= (fun c => y.trySetMax ((c.st s).dmax - x.vmin c) c)
  | .sum xs s, ctx =>
    let minT := xs.foldl (fun acc x => acc + x.vmin ctx) 0
    let maxT := xs.foldl (fun acc x => acc + x.vmax ctx) 0
    ctx.trySetMin s minT >>>= (·.trySetMax s maxT) >>>= (fun c =>
      let mn := (c.st s).dmin
      let mx := (c.st s).dmax
      forM' xs c (fun x c =>
        let xmin := x.vmin c
        let xmax := x.vmax c
        x.trySetMin (mn - (maxT - xmax)) c >>>= (x.trySetMax (mx - (minT - xmin)) ·)))
  | .linEq cs xs c, ctx => Lin.pruneEq cs xs c ctx
  | .linLe cs xs c, ctx => Lin.pruneLe cs xs c ctx
  | .linNe cs xs c, ctx => Lin.pruneNe cs xs c ctx
  | .linEqReif cs xs c b, ctx =>
    let bmin := (ctx.st b).dmin
    let bmax := (ctx.st b).dmax
    if bmin = 1 ∧ bmax = 1 then Lin.pruneEq cs xs c ctx
    else if bmin = 0 ∧ bmax = 0 then
      match Lin.fixedSum cs xs ctx.st with
      | some s => if s = c then none else some ctx
      | none => some ctx
    else
      match Lin.fixedSum cs xs ctx.st with
      | some s => if s = c then setBoth b 1 ctx else setBoth b 0 ctx
      | none => some ctx
  | .linLeReif cs xs c b, ctx =>
    let bmin := (ctx.st b).dmin
    let bmax := (ctx.st b).dmax
    if bmin = 1 ∧ bmax = 1 then Lin.pruneLe cs xs c ctx
    else if bmin = 0 ∧ bmax = 0 then
      match Lin.fixedSum cs xs ctx.st with
      | some s => if s ≤ c then none else some ctx
      | none => some ctx
    else
      let sb := Lin.sumBounds cs xs ctx.st
      if sb.2 ≤ c then setBoth b 1 ctx
      else if sb.1 > c then setBoth b 0 ctx
      else some ctx
  | .linNeReif cs xs c b, ctx =>
    let bmin := (ctx.st b).dmin
    let bmax := (ctx.st b).dmax
    if bmin = 1 ∧ bmax = 1 then Lin.pruneNe cs xs c ctx
    else if bmin = 0 ∧ bmax = 0 then Lin.pruneEq cs xs c ctx
    else
      match Lin.fixedSum cs xs ctx.st with
      | some s => if s ≠ c then setBoth b 1 ctx else setBoth b 0 ctx
      | none => some ctx
  | .reif op x y b, ctx => pruneReif op x y b ctx
  | .boolAnd ops r, ctx => pruneBoolAnd ops r ctx
  | .boolOr ops r, ctx => pruneBoolOr ops r ctx
  | .boolNot o r, ctx => pruneBoolNot o r ctx
  | .boolXor x y r, ctx => pruneBoolXor x y r ctx
  | .abs x s, ctx => pruneAbs x s ctx
  | .min xs r, ctx => pruneMin xs r ctx
  | .max xs r, ctx => pruneMax xs r ctx
  | .noop, ctx => some ctx

def optL : Option Nat → List Nat
  | none => []
  | some i => [i]

/-- `Propagate::list_trigger_vars`, in the order the Rust iterator yields them -/
def triggers : PK → List Nat
  | .leq x y => optL x.underlying ++ optL y.underlying
  | .eq x y => optL x.underlying ++ optL y.underlying
  | .neq x y => optL x.underlying ++ optL y.underlying
  | .add x y s => [s] ++ optL x.underlying ++ optL y.underlying
  | .sum xs s => xs.filterMap (·.underlying) ++ [s]
  | .linEq _ xs _ => xs
  | .linLe _ xs _ => xs
  | .linNe _ xs _ => xs
  | .linEqReif _ xs _ b => xs ++ [b]
  | .linLeReif _ xs _ b => xs ++ [b]
  | .linNeReif _ xs _ b => xs ++ [b]
  | .reif _ x y b => [x, y, b]
  | .boolAnd ops r => r :: ops
  | .boolOr ops r => r :: ops
  | .boolNot o r => [r, o]
  | .boolXor x y r => [r, x, y]
  | .abs x s => [s] ++ optL x.underlying
  | .min xs r => r :: xs
  | .max xs r => r :: xs
  | .noop => []

def linVal (cs : List Int) (xs : List Nat) (a : Nat → Int) : Int :=
  (List.zip cs xs).foldl (fun acc p => acc + p.1 * a p.2) 0

def truthy (v : Int) : Bool := decide (v ≥ 1)

/-- documented meaning of the constraint -/
def holds (a : Nat → Int) : PK → Bool
  | .leq x y => decide (x.eval a ≤ y.eval a)
  | .eq x y => x.eval a == y.eval a
  | .neq x y => x.eval a != y.eval a
  | .add x y s => x.eval a + y.eval a == a s
  | .sum xs s => xs.foldl (fun acc x => acc + x.eval a) 0 == a s
  | .linEq cs xs c => linVal cs xs a == c
  | .linLe cs xs c => decide (linVal cs xs a ≤ c)
  | .linNe cs xs c => linVal cs xs a != c
  | .linEqReif cs xs c b => (a b == 1) == (linVal cs xs a == c)
  | .linLeReif cs xs c b => (a b == 1) == decide (linVal cs xs a ≤ c)
  | .linNeReif cs xs c b => (a b == 1) == (linVal cs xs a != c)
  | .reif op x y b => (a b == 1) == op.holds (a x) (a y)
  | .boolAnd ops r => truthy (a r) == ops.all (fun o => truthy (a o))
  | .boolOr ops r => truthy (a r) == ops.any (fun o => truthy (a o))
  | .boolNot o r => truthy (a r) == !truthy (a o)
  | .boolXor x y r => truthy (a r) == (truthy (a x) != truthy (a y))
  | .abs x s => a s == ((x.eval a).natAbs : Int)
  | .min xs r => xs.isEmpty || (xs.all (fun x => decide (a r ≤ a x)) && xs.any (fun x => a x == a r))
  | .max xs r => xs.isEmpty || (xs.all (fun x => decide (a x ≤ a r)) && xs.any (fun x => a x == a r))
  | .noop => true

end PK
end Selen

/-
Integer / boolean core of the solver model.

* `Dom`      — abstract integer domain: the *set* of present values as a duplicate-free list
               (the refinement from `SparseSet` to sets is C11; only `min`, `max`, `size`,
               `remove_below`, `remove_above` are used by the propagation code).
* `Ctx`      — `views::Context`: the store plus the event list.
* `trySetMin/Max` — `Context::try_set_min/max`, integer arms (`views.rs:185-355`).
* `IView`    — the view combinators on integer variables (`views.rs:513-1264`).
* `PK`       — propagator kinds with `prune`, `triggers` and the documented meaning `holds`.

Import-free: linked into the `selen_model` driver.
-/
import SelenModel.Model.SparseSet

namespace Selen

abbrev Dom := List Int

namespace Dom
def dmin (d : Dom) : Int := SS.listMin d
def dmax (d : Dom) : Int := SS.listMax d
def isFixed (d : Dom) : Bool := d.length == 1
def removeBelow (d : Dom) (v : Int) : Dom := d.filter (fun w => decide (v ≤ w))
def removeAbove (d : Dom) (v : Int) : Dom := d.filter (fun w => decide (w ≤ v))
end Dom

/-- store: variable index ↦ domain -/
abbrev Store := Nat → Dom

def updS (st : Store) (i : Nat) (d : Dom) : Store := fun j => if j = i then d else st j

structure Ctx where
  st : Store
  ev : List Nat := []

namespace Ctx

/-- `Context::try_set_min`, (VarI, ValI) arm -/
def trySetMin (c : Ctx) (i : Nat) (v : Int) : Option Ctx :=
  let d := c.st i
  if v > d.dmax then none
  else if v > d.dmin then
    let d' := d.removeBelow v
    if d'.isEmpty then none
    else some { st := updS c.st i d', ev := c.ev ++ [i] }
  else some c

/-- `Context::try_set_max`, (VarI, ValI) arm -/
def trySetMax (c : Ctx) (i : Nat) (v : Int) : Option Ctx :=
  let d := c.st i
  if v < d.dmin then none
  else if v < d.dmax then
    let d' := d.removeAbove v
    if d'.isEmpty then none
    else some { st := updS c.st i d', ev := c.ev ++ [i] }
  else some c

end Ctx

/-- mathematical floor / ceiling of `a / b` (`b ≠ 0`) -/
def floorDiv (a b : Int) : Int := Int.fdiv a b
def ceilDiv (a b : Int) : Int := -(Int.fdiv (-a) b)

/-- integer views -/
inductive IView where
  | const (c : Int)
  | var (i : Nat)
  | opp (v : IView)
  | plus (v : IView) (k : Int)
  | tpos (v : IView) (k : Int)     -- TimesPos, `k > 0`
  | next (v : IView)
  | prev (v : IView)
deriving Repr

namespace IView

/-- `Times::new`: sign dispatch -/
def times (v : IView) (k : Int) : IView :=
  if k < 0 then .tpos (.opp v) (-k) else if k = 0 then .const 0 else .tpos v k

/-- `times_neg` -/
def timesNeg (v : IView) (k : Int) : IView := .tpos (.opp v) (-k)

def underlying : IView → Option Nat
  | .const _ => none
  | .var i => some i
  | .opp v => v.underlying
  | .plus v _ => v.underlying
  | .tpos v _ => v.underlying
  | .next v => v.underlying
  | .prev v => v.underlying

/-- the function of the underlying variable's value the view denotes -/
def apply : IView → Int → Int
  | .const c, _ => c
  | .var _, x => x
  | .opp v, x => -(v.apply x)
  | .plus v k, x => v.apply x + k
  | .tpos v k, x => v.apply x * k
  | .next v, x => v.apply x + 1
  | .prev v, x => v.apply x - 1

/-- value of the view under an assignment -/
def eval (a : Nat → Int) : IView → Int
  | .const c => c
  | .var i => a i
  | .opp v => -(v.eval a)
  | .plus v k => v.eval a + k
  | .tpos v k => v.eval a * k
  | .next v => v.eval a + 1
  | .prev v => v.eval a - 1

mutual
def minRaw (st : Store) : IView → Int
  | .const c => c
  | .var i => (st i).dmin
  | .opp v => -(maxRaw st v)
  | .plus v k => minRaw st v + k
  | .tpos v k => minRaw st v * k
  | .next v => minRaw st v + 1
  | .prev v => minRaw st v - 1
def maxRaw (st : Store) : IView → Int
  | .const c => c
  | .var i => (st i).dmax
  | .opp v => -(minRaw st v)
  | .plus v k => maxRaw st v + k
  | .tpos v k => maxRaw st v * k
  | .next v => maxRaw st v + 1
  | .prev v => maxRaw st v - 1
end

mutual
def trySetMin : IView → Int → Ctx → Option Ctx
  | .const c, m, ctx => if m ≤ c then some ctx else none
  | .var i, m, ctx => ctx.trySetMin i m
  | .opp v, m, ctx => trySetMax v (-m) ctx
  | .plus v k, m, ctx => trySetMin v (m - k) ctx
  | .tpos v k, m, ctx => trySetMin v (ceilDiv m k) ctx
  | .next v, m, ctx => trySetMin v (m - 1) ctx
  | .prev v, m, ctx => trySetMin v (m + 1) ctx
def trySetMax : IView → Int → Ctx → Option Ctx
  | .const c, m, ctx => if m ≥ c then some ctx else none
  | .var i, m, ctx => ctx.trySetMax i m
  | .opp v, m, ctx => trySetMin v (-m) ctx
  | .plus v k, m, ctx => trySetMax v (m - k) ctx
  | .tpos v k, m, ctx => trySetMax v (floorDiv m k) ctx
  | .next v, m, ctx => trySetMax v (m - 1) ctx
  | .prev v, m, ctx => trySetMax v (m + 1) ctx
end

/- A *float* bound (`Val::ValF`) pushed through a view onto an integer variable, given as the
ceiling (`trySetMinF`) / floor (`trySetMaxF`) of the float: `Opposite`, `Plus`, `TimesPos` and the
final `ceil`/`floor` conversion in `Context::try_set_min/max` (arms `(VarI, ValF)`) commute with
rounding, so the result equals the integer setter — except for `Next`/`Prev`, whose `ValF` arm
passes the bound through *unchanged* when the underlying variable is an integer
(`views.rs`, `Next::try_set_min`, "Fallback: return original value"). -/
mutual
def trySetMinF : IView → Int → Ctx → Option Ctx
  | .const c, m, ctx => if m ≤ c then some ctx else none
  | .var i, m, ctx => ctx.trySetMin i m
  | .opp v, m, ctx => trySetMaxF v (-m) ctx
  | .plus v k, m, ctx => trySetMinF v (m - k) ctx
  | .tpos v k, m, ctx => trySetMinF v (ceilDiv m k) ctx
  | .next v, m, ctx => trySetMinF v (m - 1) ctx
  | .prev v, m, ctx => trySetMinF v (m + 1) ctx
def trySetMaxF : IView → Int → Ctx → Option Ctx
  | .const c, m, ctx => if m ≥ c then some ctx else none
  | .var i, m, ctx => ctx.trySetMax i m
  | .opp v, m, ctx => trySetMinF v (-m) ctx
  | .plus v k, m, ctx => trySetMaxF v (m - k) ctx
  | .tpos v k, m, ctx => trySetMaxF v (floorDiv m k) ctx
  | .next v, m, ctx => trySetMaxF v (m - 1) ctx
  | .prev v, m, ctx => trySetMaxF v (m + 1) ctx
end

def vmin (v : IView) (c : Ctx) : Int := v.minRaw c.st
def vmax (v : IView) (c : Ctx) : Int := v.maxRaw c.st

end IView

/-! ### propagator kinds -/

def imin (a b : Int) : Int := if b < a then b else a
def imax (a b : Int) : Int := if b > a then b else a

/-- six comparison kinds of the reified integer propagators -/
inductive Cmp where | eq | ne | lt | le | gt | ge
deriving DecidableEq, Repr

def Cmp.holds : Cmp → Int → Int → Bool
  | .eq, x, y => x == y
  | .ne, x, y => x != y
  | .lt, x, y => decide (x < y)
  | .le, x, y => decide (x ≤ y)
  | .gt, x, y => decide (x > y)
  | .ge, x, y => decide (x ≥ y)

/-- `CardinalityType` -/
inductive CardTy where | atLeast | atMost | exactly
deriving DecidableEq, Repr

/-- `conditional::Condition` -/
inductive CondOp where | eq | ne | gt | lt
deriving DecidableEq, Repr

/-- `conditional::SimpleConstraint` -/
inductive SimpOp where | eq | ne | gt | lt | ge | le
deriving DecidableEq, Repr

def CondOp.holds : CondOp → Int → Int → Bool
  | .eq, x, v => x == v
  | .ne, x, v => x != v
  | .gt, x, v => decide (x > v)
  | .lt, x, v => decide (x < v)

def SimpOp.holds : SimpOp → Int → Int → Bool
  | .eq, x, v => x == v
  | .ne, x, v => x != v
  | .gt, x, v => decide (x > v)
  | .lt, x, v => decide (x < v)
  | .ge, x, v => decide (x ≥ v)
  | .le, x, v => decide (x ≤ v)

inductive PK where
  | leq (x y : IView)                              -- LessThanOrEquals
  | eq (x y : IView)                               -- Eq
  | neq (x y : IView)                              -- NotEquals (no pruning; checked when both sides are fixed)
  | add (x y : IView) (s : Nat)                    -- Add
  | sum (xs : List IView) (s : Nat)                -- Sum
  | linEq (cs : List Int) (xs : List Nat) (c : Int)
  | linLe (cs : List Int) (xs : List Nat) (c : Int)
  | linNe (cs : List Int) (xs : List Nat) (c : Int)
  | linEqReif (cs : List Int) (xs : List Nat) (c : Int) (b : Nat)
  | linLeReif (cs : List Int) (xs : List Nat) (c : Int) (b : Nat)
  | linNeReif (cs : List Int) (xs : List Nat) (c : Int) (b : Nat)
  | reif (op : Cmp) (x y b : Nat)                  -- IntEqReif … IntGeReif
  | boolAnd (ops : List Nat) (r : Nat)
  | boolOr (ops : List Nat) (r : Nat)
  | boolNot (o r : Nat)
  | boolXor (x y r : Nat)
  | abs (x : IView) (s : Nat)
  | min (xs : List Nat) (r : Nat)
  | max (xs : List Nat) (r : Nat)
  | noop
  | mul (x y : IView) (s : Nat)                    -- Mul
  | div (x y : IView) (s : Nat)                    -- Div
  | modulo (x y : IView) (s : Nat)                 -- Modulo
  | allEqual (xs : List Nat)                       -- AllEqual
  | between (l m u : Nat)                          -- BetweenConstraint
  | count (xs : List Nat) (t : IView) (c : Nat)    -- Count
  | card (ty : CardTy) (xs : List Nat) (tv n : Int) -- CardinalityConstraint
  | element (arr : List Nat) (idx val : Nat)       -- Element
  | table (xs : List Nat) (ts : List (List Int))   -- Table
  | ite (cop : CondOp) (cv : Nat) (cval : Int) (top : SimpOp) (tv : Nat) (tval : Int)
        (els : Option (SimpOp × Nat × Int))        -- IfThenElseConstraint
  | allDiff (xs : List Nat)                        -- AllDiff (bit-set GAC engine)
deriving Repr

/-- `Option` bind chain helper: run `f` for every element, threading the context -/
def forM' {α : Type} (l : List α) (c : Ctx) (f : α → Ctx → Option Ctx) : Option Ctx :=
  l.foldl (fun acc a => match acc with | none => none | some c' => f a c') (some c)

namespace Lin

/-- `(min_term, max_term)` of `coeff * x` over `[l,u]` as computed by the linear propagators -/
def termBounds (coeff l u : Int) : Int × Int :=
  if coeff > 0 then (coeff * l, coeff * u) else (coeff * u, coeff * l)

/-- sums over all positions `j ≠ i` -/
def otherBounds (cs : List Int) (xs : List Nat) (st : Store) (i : Nat) : Int × Int :=
  ((List.range (Nat.min cs.length xs.length)).foldl (fun (acc : Int × Int) j =>
    if j = i then acc else
      let tb := termBounds (cs.getD j 0) (st (xs.getD j 0)).dmin (st (xs.getD j 0)).dmax
      (acc.1 + tb.1, acc.2 + tb.2)) (0, 0))

/-- `compute_sum_bounds` -/
def sumBounds (cs : List Int) (xs : List Nat) (st : Store) : Int × Int :=
  (List.zip cs xs).foldl (fun (acc : Int × Int) (p : Int × Nat) =>
      let tb := termBounds p.1 (st p.2).dmin (st p.2).dmax
      (acc.1 + tb.1, acc.2 + tb.2)) (0, 0)

/-- `compute_fixed_sum` -/
def fixedSum (cs : List Int) (xs : List Nat) (st : Store) : Option Int :=
  (List.zip cs xs).foldl (fun (acc : Option Int) (p : Int × Nat) =>
      match acc with
      | none => none
      | some s => if (st p.2).dmin = (st p.2).dmax then some (s + p.1 * (st p.2).dmin) else none) (some 0)

/-- `IntLinEq::prune` / `prune_int_lin_eq` (variables indexed as in the Rust loops:
`for i in 0..variables.len()` — the coefficient vector is indexed with the same `i`) -/
def pruneEq (cs : List Int) (xs : List Nat) (c : Int) (ctx : Ctx) : Option Ctx :=
  forM' (List.range xs.length) ctx (fun i ctx =>
    let coeff := cs.getD i 0
    if coeff = 0 then some ctx else
      let ob := otherBounds cs xs ctx.st i
      let tmin := c - ob.2
      let tmax := c - ob.1
      let nb : Int × Int :=
        if coeff > 0 then (ceilDiv tmin coeff, floorDiv tmax coeff)
        else (ceilDiv tmax coeff, floorDiv tmin coeff)
      match ctx.trySetMin (xs.getD i 0) nb.1 with
      | none => none
      | some c1 => c1.trySetMax (xs.getD i 0) nb.2)

/-- `IntLinLe::prune` / `prune_int_lin_le` -/
def pruneLe (cs : List Int) (xs : List Nat) (c : Int) (ctx : Ctx) : Option Ctx :=
  forM' (List.range xs.length) ctx (fun i ctx =>
    let coeff := cs.getD i 0
    if coeff = 0 then some ctx else
      let ob := otherBounds cs xs ctx.st i
      let remaining := c - ob.1
      if coeff > 0 then ctx.trySetMax (xs.getD i 0) (remaining / coeff)
      else ctx.trySetMin (xs.getD i 0) (remaining / coeff))

/-- `exclude_value` for an integer variable -/
def excludeValue (x : Nat) (f : Int) (ctx : Ctx) : Option Ctx :=
  let mn := (ctx.st x).dmin
  let mx := (ctx.st x).dmax
  if f < mn ∨ f > mx then some ctx
  else if mn = mx ∧ mn = f then none
  else if mn = f then ctx.trySetMin x (f + 1)
  else if mx = f then ctx.trySetMax x (f - 1)
  else some ctx

/-- scan of `IntLinNe::prune`: `none` = "more than one unfixed variable",
`some (unfixed index?, fixed sum)` otherwise -/
def neScan (cs : List Int) (xs : List Nat) (st : Store) : Option (Option Nat × Int) :=
  (List.range xs.length).foldl (fun (acc : Option (Option Nat × Int)) i =>
    match acc with
    | none => none
    | some (u, s) =>
      let d := st (xs.getD i 0)
      if d.dmin = d.dmax then some (u, s + cs.getD i 0 * d.dmin)
      else match u with
        | some _ => none
        | none => some (some i, s)) (some (none, 0))

/-- `IntLinNe::prune` / `prune_int_lin_ne` -/
def pruneNe (cs : List Int) (xs : List Nat) (c : Int) (ctx : Ctx) : Option Ctx :=
  match neScan cs xs ctx.st with
  | none => some ctx
  | some (none, s) => if s = c then none else some ctx
  | some (some i, s) =>
    let coeff := cs.getD i 0
    if coeff = 0 then (if s = c then none else some ctx)
    else
      let num := c - s
      if Int.tmod num coeff = 0 then excludeValue (xs.getD i 0) (Int.tdiv num coeff) ctx
      else some ctx

end Lin

/-- set a boolean variable to a constant (min then max) -/
def setBoth (b : Nat) (v : Int) (ctx : Ctx) : Option Ctx :=
  match ctx.trySetMin b v with
  | none => none
  | some c1 => c1.trySetMax b v

namespace PK

def bind (o : Option Ctx) (f : Ctx → Option Ctx) : Option Ctx :=
  match o with | none => none | some c => f c

infixl:55 " >>>= " => bind

def pruneReif (op : Cmp) (x y b : Nat) (ctx : Ctx) : Option Ctx :=
  let xmin := (ctx.st x).dmin
  let xmax := (ctx.st x).dmax
  let ymin := (ctx.st y).dmin
  let ymax := (ctx.st y).dmax
  let bmin := (ctx.st b).dmin
  let bmax := (ctx.st b).dmax
  /- the "must be equal" and "must differ" bodies shared by eq/ne -/
  let forceEq (c : Ctx) : Option Ctx :=
    let nmin := if xmin > ymin then xmin else ymin
    let nmax := if xmax < ymax then xmax else ymax
    if nmin > nmax then none
    else c.trySetMin x nmin >>>= (·.trySetMax x nmax) >>>= (·.trySetMin y nmin) >>>= (·.trySetMax y nmax)
  let forceNe (c : Ctx) : Option Ctx :=
    if xmin = xmax then
      if ymin = xmin ∧ ymin < ymax then c.trySetMin y (ymin + 1)
      else if ymax = xmin ∧ ymin < ymax then c.trySetMax y (ymax - 1)
      else some c
    else if ymin = ymax then
      if xmin = ymin ∧ xmin < xmax then c.trySetMin x (xmin + 1)
      else if xmax = ymin ∧ xmin < xmax then c.trySetMax x (xmax - 1)
      else some c
    else some c
  match op with
  | .eq =>
    (if xmax < ymin ∨ ymax < xmin then ctx.trySetMax b 0
     else if xmin = xmax ∧ ymin = ymax ∧ xmin = ymin then ctx.trySetMin b 1
     else some ctx) >>>= (fun c => if bmin ≥ 1 then forceEq c else some c)
      >>>= (fun c => if bmax ≤ 0 then forceNe c else some c)
  | .ne =>
    (if xmax < ymin ∨ ymax < xmin then ctx.trySetMin b 1
     else if xmin = xmax ∧ ymin = ymax ∧ xmin = ymin then ctx.trySetMax b 0
     else some ctx) >>>= (fun c => if bmin ≥ 1 then forceNe c else some c)
      >>>= (fun c => if bmax ≤ 0 then forceEq c else some c)
  | .lt =>
    (if xmax < ymin then ctx.trySetMin b 1
     else if xmin ≥ ymax then ctx.trySetMax b 0
     else some ctx)
      >>>= (fun c => if bmin ≥ 1 then c.trySetMax x (ymax - 1) >>>= (·.trySetMin y (xmin + 1)) else some c)
      >>>= (fun c => if bmax ≤ 0 then c.trySetMin x ymin >>>= (·.trySetMax y xmax) else some c)
  | .le =>
    (if xmax ≤ ymin then ctx.trySetMin b 1
     else if xmin > ymax then ctx.trySetMax b 0
     else some ctx)
      >>>= (fun c => if bmin ≥ 1 then c.trySetMax x ymax >>>= (·.trySetMin y xmin) else some c)
      >>>= (fun c => if bmax ≤ 0 then c.trySetMin x (ymin + 1) >>>= (·.trySetMax y (xmax - 1)) else some c)
  | .gt =>
    (if xmin > ymax then ctx.trySetMin b 1
     else if xmax ≤ ymin then ctx.trySetMax b 0
     else some ctx)
      >>>= (fun c => if bmin ≥ 1 then c.trySetMin x (ymin + 1) >>>= (·.trySetMax y (xmax - 1)) else some c)
      >>>= (fun c => if bmax ≤ 0 then c.trySetMax x ymax >>>= (·.trySetMin y xmin) else some c)
  | .ge =>
    (if xmin ≥ ymax then ctx.trySetMin b 1
     else if xmax < ymin then ctx.trySetMax b 0
     else some ctx)
      >>>= (fun c => if bmin ≥ 1 then c.trySetMin x ymin >>>= (·.trySetMax y xmax) else some c)
      >>>= (fun c => if bmax ≤ 0 then c.trySetMax x (ymax - 1) >>>= (·.trySetMin y (xmin + 1)) else some c)

def pruneBoolAnd (ops : List Nat) (r : Nat) (ctx : Ctx) : Option Ctx :=
  if ops.isEmpty then setBoth r 1 ctx else
  let rmin := (ctx.st r).dmin
  let rmax := (ctx.st r).dmax
  (if rmin ≥ 1 then forM' ops ctx (fun o c => c.trySetMin o 1) else some ctx)
  >>>= (fun c =>
    if rmax ≤ 0 then
      let falseOps := (ops.filter (fun o => decide ((c.st o).dmax ≤ 0))).length
      let undet := ops.filter (fun o => !decide ((c.st o).dmax ≤ 0) && decide ((c.st o).dmin ≤ 0) && decide ((c.st o).dmax ≥ 1))
      if falseOps = 0 ∧ undet.length = 1 then c.trySetMax (undet.headD 0) 0 else some c
    else some c)
  >>>= (fun c =>
    /- scan with early exit at the first false operand -/
    let anyFalse := ops.any (fun o => decide ((c.st o).dmax ≤ 0))
    let allTrue := ops.all (fun o => !decide ((c.st o).dmin ≤ 0))
    if anyFalse then c.trySetMax r 0
    else if allTrue then c.trySetMin r 1
    else some c)

def pruneBoolOr (ops : List Nat) (r : Nat) (ctx : Ctx) : Option Ctx :=
  if ops.isEmpty then setBoth r 0 ctx else
  let rmin := (ctx.st r).dmin
  let rmax := (ctx.st r).dmax
  (if rmax ≤ 0 then forM' ops ctx (fun o c => c.trySetMax o 0) else some ctx)
  >>>= (fun c =>
    if rmin ≥ 1 then
      let trueOps := (ops.filter (fun o => decide ((c.st o).dmin ≥ 1))).length
      let undet := ops.filter (fun o => !decide ((c.st o).dmin ≥ 1) && decide ((c.st o).dmin ≤ 0) && decide ((c.st o).dmax ≥ 1))
      if trueOps = 0 ∧ undet.length = 1 then c.trySetMin (undet.headD 0) 1 else some c
    else some c)
  >>>= (fun c =>
    let anyTrue := ops.any (fun o => decide ((c.st o).dmin ≥ 1))
    let allFalse := ops.all (fun o => !decide ((c.st o).dmax ≥ 1))
    if anyTrue then c.trySetMin r 1
    else if allFalse then c.trySetMax r 0
    else some c)

def pruneBoolNot (o r : Nat) (ctx : Ctx) : Option Ctx :=
  let omin := (ctx.st o).dmin
  let omax := (ctx.st o).dmax
  let rmin := (ctx.st r).dmin
  let rmax := (ctx.st r).dmax
  (if omax ≤ 0 then setBoth r 1 ctx
   else if omin ≥ 1 then setBoth r 0 ctx
   else some ctx)
  >>>= (fun c =>
    if rmax ≤ 0 then c.trySetMin o 1
    else if rmin ≥ 1 then setBoth o 0 c
    else some c)

def pruneBoolXor (x y r : Nat) (ctx : Ctx) : Option Ctx :=
  let xmin := (ctx.st x).dmin
  let xmax := (ctx.st x).dmax
  let ymin := (ctx.st y).dmin
  let ymax := (ctx.st y).dmax
  let rmin := (ctx.st r).dmin
  let rmax := (ctx.st r).dmax
  (if rmin ≥ 1 then
    (if xmax ≤ 0 then ctx.trySetMin y 1 else some ctx)
    >>>= (fun c => if xmin ≥ 1 then c.trySetMax y 0 else some c)
    >>>= (fun c => if ymax ≤ 0 then c.trySetMin x 1 else some c)
    >>>= (fun c => if ymin ≥ 1 then c.trySetMax x 0 else some c)
   else some ctx)
  >>>= (fun c =>
    if rmax ≤ 0 then
      (if xmax ≤ 0 then c.trySetMax y 0 else some c)
      >>>= (fun c => if xmin ≥ 1 then c.trySetMin y 1 else some c)
      >>>= (fun c => if ymax ≤ 0 then c.trySetMax x 0 else some c)
      >>>= (fun c => if ymin ≥ 1 then c.trySetMin x 1 else some c)
    else some c)
  >>>= (fun c =>
    if xmin = xmax ∧ ymin = ymax then
      let xb := decide (xmin ≥ 1)
      let yb := decide (ymin ≥ 1)
      if xb != yb then setBoth r 1 c else setBoth r 0 c
    else some c)

def pruneAbs (x : IView) (s : Nat) (ctx : Ctx) : Option Ctx :=
  let xmin := x.vmin ctx
  let xmax := x.vmax ctx
  ctx.trySetMin s 0 >>>= (fun c =>
    let absMin := if xmin ≤ 0 ∧ xmax ≥ 0 then 0 else if xmin > 0 then xmin else -xmax
    let a1 := xmin.natAbs
    let a2 := xmax.natAbs
    let absMax : Int := if a1 > a2 then a1 else a2
    c.trySetMin s absMin >>>= (·.trySetMax s absMax))
  >>>= (fun c =>
    let smin := (c.st s).dmin
    let smax := (c.st s).dmax
    x.trySetMin (-smax) c >>>= (x.trySetMax smax ·) >>>= (fun c =>
      if smin = smax ∧ smin > 0 then
        let xmn := x.vmin c
        let xmx := x.vmax c
        if xmn ≥ 0 then x.trySetMin smin c >>>= (x.trySetMax smax ·)
        else if xmx ≤ 0 then x.trySetMin (-smax) c >>>= (x.trySetMax (-smin) ·)
        else some c
      else some c))

def pruneMin (xs : List Nat) (r : Nat) (ctx : Ctx) : Option Ctx :=
  match xs with
  | [] => some ctx
  | x0 :: rest =>
    let minOfMins := rest.foldl (fun acc x => if (ctx.st x).dmin < acc then (ctx.st x).dmin else acc) (ctx.st x0).dmin
    let minOfMaxs := rest.foldl (fun acc x => if (ctx.st x).dmax < acc then (ctx.st x).dmax else acc) (ctx.st x0).dmax
    ctx.trySetMin r minOfMins >>>= (·.trySetMax r minOfMaxs) >>>= (fun c =>
      let rmin := (c.st r).dmin
      let rmax := (c.st r).dmax
      forM' xs c (fun x c => c.trySetMin x rmin) >>>= (fun c =>
        (if rmin = rmax then
          if xs.any (fun x => decide ((c.st x).dmin ≤ rmin) && decide (rmin ≤ (c.st x).dmax)) then some c else none
         else some c) >>>= (fun c =>
          let canBe := xs.filter (fun x => decide ((c.st x).dmin ≤ rmin) && decide (rmin ≤ (c.st x).dmax))
          let hasNext := xs.any (fun x => decide ((c.st x).dmin > rmin))
          if hasNext ∧ canBe.length = 1 then c.trySetMax r (c.st (canBe.headD 0)).dmax else some c)))

def pruneMax (xs : List Nat) (r : Nat) (ctx : Ctx) : Option Ctx :=
  match xs with
  | [] => some ctx
  | x0 :: rest =>
    let maxOfMaxs := rest.foldl (fun acc x => if (ctx.st x).dmax > acc then (ctx.st x).dmax else acc) (ctx.st x0).dmax
    let maxOfMins := rest.foldl (fun acc x => if (ctx.st x).dmin > acc then (ctx.st x).dmin else acc) (ctx.st x0).dmin
    ctx.trySetMin r maxOfMins >>>= (·.trySetMax r maxOfMaxs) >>>= (fun c =>
      let rmin := (c.st r).dmin
      let rmax := (c.st r).dmax
      forM' xs c (fun x c => c.trySetMax x rmax) >>>= (fun c =>
        (if rmin = rmax then
          if xs.any (fun x => decide ((c.st x).dmin ≤ rmax) && decide (rmax ≤ (c.st x).dmax)) then some c else none
         else some c) >>>= (fun c =>
          let canBe := xs.filter (fun x => decide ((c.st x).dmin ≤ rmax) && decide (rmax ≤ (c.st x).dmax))
          let hasPrev := xs.any (fun x => decide ((c.st x).dmax < rmax))
          if hasPrev ∧ canBe.length = 1 then c.trySetMin r (c.st (canBe.headD 0)).dmin else some c)))

/-! ### kinds added by `kinds2`: mul, div, modulo, allEqual, between, count, cardinality, element,
table, if-then-else, allDiff

Reading of the documented meanings (`holds` below):
* `div`: `Val / Val` on two integers is a *float* in selen (`ValI / ValI → ValF(a as f64 / b as f64)`),
  so `x / y == s` over integers means real division: `y ≠ 0 ∧ s * y = x`.
* `modulo`: Rust's `%` (truncated remainder, `Int.tmod`), divisor non-zero.
* float bounds reaching an integer variable are rounded with `ceil` (min) / `floor` (max)
  (`Context::try_set_min/max`, arms `(VarI, ValF)`); for `i32` operands the `f64` quotient is exact
  enough that this equals `ceilDiv` / `floorDiv` of the exact rational.
Known defects of the code are modelled as they are (kernel-checked counterexamples in
`Lemmas/Kinds/*.lean`): empty `allEqual` fails; `div`/`modulo` return success without checking when
the divisor range contains 0; `modulo` loses solutions for negative operands and when it samples
only boundary values; a float bound pushed through `Next`/`Prev` is not shifted. -/

/-- `Val::range_contains_unsafe_divisor` on two integers -/
def rangeHasZero (lo hi : Int) : Bool := decide (lo ≤ 0) && decide (hi ≥ 0)

/-- `lo..=hi` -/
def intRange (lo hi : Int) : List Int := (List.range (hi - lo + 1).toNat).map (fun (i : Nat) => lo + (i : Int))

/-- `if var.min(ctx) < v { var.try_set_min(v, ctx)? }` -/
def setMinG (x : Nat) (v : Int) (c : Ctx) : Option Ctx :=
  if (c.st x).dmin < v then c.trySetMin x v else some c

/-- `if var.max(ctx) > v { var.try_set_max(v, ctx)? }` -/
def setMaxG (x : Nat) (v : Int) (c : Ctx) : Option Ctx :=
  if (c.st x).dmax > v then c.trySetMax x v else some c

/-- `Mul::prune`.  The quotient candidates `s / y` are floats in the code (`ValI / ValI → ValF`);
the minimum of the candidates is rounded up and the maximum down when it reaches the integer
variable, and rounding is monotone, so the model takes `min` of the ceilings / `max` of the floors. -/
def pruneMul (x y : IView) (s : Nat) (ctx : Ctx) : Option Ctx :=
  let xmin := x.vmin ctx
  let xmax := x.vmax ctx
  let ymin := y.vmin ctx
  let ymax := y.vmax ctx
  let prods : List Int := [xmin * ymin, xmin * ymax, xmax * ymin, xmax * ymax]
  ctx.trySetMin s (Dom.dmin prods) >>>= (·.trySetMax s (Dom.dmax prods)) >>>= (fun c =>
    let smin := (c.st s).dmin
    let smax := (c.st s).dmax
    (if rangeHasZero ymin ymax then some c
     else
       x.trySetMinF (Dom.dmin [ceilDiv smin ymin, ceilDiv smin ymax, ceilDiv smax ymin, ceilDiv smax ymax]) c
         >>>= (x.trySetMaxF (Dom.dmax [floorDiv smin ymin, floorDiv smin ymax, floorDiv smax ymin, floorDiv smax ymax]) ·))
    >>>= (fun c =>
      if rangeHasZero xmin xmax then some c
      else
        y.trySetMinF (Dom.dmin [ceilDiv smin xmin, ceilDiv smin xmax, ceilDiv smax xmin, ceilDiv smax xmax]) c
          >>>= (y.trySetMaxF (Dom.dmax [floorDiv smin xmin, floorDiv smin xmax, floorDiv smax xmin, floorDiv smax xmax]) ·)))

/-- `Div::prune` -/
def pruneDiv (x y : IView) (s : Nat) (ctx : Ctx) : Option Ctx :=
  let xmin := x.vmin ctx
  let xmax := x.vmax ctx
  let ymin := y.vmin ctx
  let ymax := y.vmax ctx
  if rangeHasZero ymin ymax then (if ymin = ymax then none else some ctx)
  else
    ctx.trySetMin s (Dom.dmin [ceilDiv xmin ymin, ceilDiv xmin ymax, ceilDiv xmax ymin, ceilDiv xmax ymax])
      >>>= (·.trySetMax s (Dom.dmax [floorDiv xmin ymin, floorDiv xmin ymax, floorDiv xmax ymin, floorDiv xmax ymax]))
      >>>= (fun c =>
        let smin := (c.st s).dmin
        let smax := (c.st s).dmax
        let xc : List Int := [smin * ymin, smin * ymax, smax * ymin, smax * ymax]
        x.trySetMin (Dom.dmin xc) c >>>= (x.trySetMax (Dom.dmax xc) ·) >>>= (fun c =>
          if rangeHasZero smin smax then some c
          else
            y.trySetMinF (Dom.dmin [ceilDiv xmin smin, ceilDiv xmin smax, ceilDiv xmax smin, ceilDiv xmax smax]) c
              >>>= (y.trySetMaxF (Dom.dmax [floorDiv xmin smin, floorDiv xmin smax, floorDiv xmax smin, floorDiv xmax smax]) ·)))

/-- CASE 3 of `Modulo::prune`: the sampled remainders -/
def modCands (xmin xmax ymin ymax : Int) : List Int :=
  if ymin = ymax then (intRange xmin xmax).map (fun xv => Int.tmod xv ymin)
  else if ymax - ymin ≤ 10 then
    let xs := if xmax - xmin ≤ 10 then intRange xmin xmax else [xmin, xmax]
    (intRange ymin ymax).flatMap (fun yv => xs.map (fun xv => Int.tmod xv yv))
  else
    let xs := if xmin = xmax then [xmin] else [xmin, xmax]
    xs.flatMap (fun xv => [Int.tmod xv ymin, Int.tmod xv ymax])

/-- CASE 3 of `Modulo::prune`: were all `(x, y)` pairs enumerated (fixed divisor: every dividend
value; small divisor range: only with a small dividend range)? -/
def modExh (xmin xmax ymin ymax : Int) : Bool :=
  if ymin = ymax then true
  else if ymax - ymin ≤ 10 then decide (xmax - xmin ≤ 10)
  else false

/-- `i32::min` / `i32::max` of the two theoretical multipliers in CASE 4 of `Modulo::prune` (they are
in reverse order for a negative divisor) -/
def kLo (a b : Int) : Int := if a ≤ b then a else b
def kHi (a b : Int) : Int := if a ≤ b then b else a

/-- `Modulo::prune` (integer operands; `%` is Rust's truncated remainder `Int.tmod`) -/
def pruneMod (x y : IView) (s : Nat) (ctx : Ctx) : Option Ctx :=
  let xmin := x.vmin ctx
  let xmax := x.vmax ctx
  let ymin := y.vmin ctx
  let ymax := y.vmax ctx
  let smin := (ctx.st s).dmin
  let smax := (ctx.st s).dmax
  if rangeHasZero ymin ymax then (if ymin = ymax then none else some ctx)
  else if xmin = xmax ∧ ymin = ymax then
    ctx.trySetMin s (Int.tmod xmin ymin) >>>= (·.trySetMax s (Int.tmod xmin ymin))
  else
    (if ymin = ymax then
      -- the remainder of `%` takes the sign of the dividend (fix: Modulo bounds follow the dividend)
      let m := (ymin.natAbs : Int) - 1
      let thmin := if xmin ≥ 0 then 0 else -m
      let thmax := if xmax ≤ 0 then 0 else m
      let nmin := if thmin > smin then thmin else smin
      let nmax := if thmax < smax then thmax else smax
      ctx.trySetMin s nmin >>>= (·.trySetMax s nmax)
     else some ctx)
    >>>= (fun c =>
      let cs := modCands xmin xmax ymin ymax
      -- bounds are taken from the candidates only when every (x, y) pair was enumerated
      if !(modExh xmin xmax ymin ymax) || cs.isEmpty then some c
      else c.trySetMin s (Dom.dmin cs) >>>= (·.trySetMax s (Dom.dmax cs)))
    >>>= (fun c =>
      if ymin = ymax ∧ smin = smax ∧ smin ≥ 0 ∧ smin < ymin.natAbs then
        let kmin := Int.tdiv (xmin - smin) ymin
        let kmax := Int.tdiv (xmax - smin) ymin
        let vals := ((intRange (kLo kmin kmax - 1) (kHi kmin kmax + 1)).map (fun k => k * ymin + smin)).filter
          (fun v => decide (xmin ≤ v) && decide (v ≤ xmax))
        if vals.isEmpty then some c else x.trySetMin (Dom.dmin vals) c >>>= (x.trySetMax (Dom.dmax vals) ·)
      else some c)

/-- `AllEqual::prune` (the early exit of `compute_domain_intersection` is not observable: the
running lower bound only grows and the upper bound only shrinks) -/
def pruneAllEqual (xs : List Nat) (ctx : Ctx) : Option Ctx :=
  match xs with
  | [] => some ctx
  | x0 :: rest =>
    let lo := rest.foldl (fun acc x => if (ctx.st x).dmin > acc then (ctx.st x).dmin else acc) (ctx.st x0).dmin
    let hi := rest.foldl (fun acc x => if (ctx.st x).dmax < acc then (ctx.st x).dmax else acc) (ctx.st x0).dmax
    if lo > hi then none
    else forM' xs ctx (fun x c => setMinG x lo c >>>= (setMaxG x hi ·))

/-- `BetweenConstraint::prune` -/
def pruneBetween (l m u : Nat) (ctx : Ctx) : Option Ctx :=
  let lmin := (ctx.st l).dmin
  let mmin := (ctx.st m).dmin
  let mmax := (ctx.st m).dmax
  let umax := (ctx.st u).dmax
  ctx.trySetMax l mmax >>>= (·.trySetMin m lmin) >>>= (·.trySetMax m umax) >>>= (·.trySetMin u mmin)

/-- remove `t` from the domain of `x` when it is one of its bounds (and `x` is not fixed) -/
def dropAtBound (x : Nat) (t : Int) (c : Ctx) : Option Ctx :=
  let mn := (c.st x).dmin
  let mx := (c.st x).dmax
  if mn ≠ mx ∧ mn ≤ t ∧ t ≤ mx then
    if t = mn then c.trySetMin x (t + 1)
    else if t = mx then c.trySetMax x (t - 1)
    else some c
  else some c

/-- fix `x` to `t` when `t` lies between its bounds (and `x` is not fixed) -/
def forceTo (x : Nat) (t : Int) (c : Ctx) : Option Ctx :=
  let mn := (c.st x).dmin
  let mx := (c.st x).dmax
  if mn ≠ mx ∧ mn ≤ t ∧ t ≤ mx then c.trySetMin x t >>>= (·.trySetMax x t)
  else some c

/-- number of variables fixed to `t` / whose bounds enclose `[tlo, thi]`-overlap -/
def cntFixedTo (xs : List Nat) (st : Store) (t : Int) : Int :=
  ((xs.filter (fun x => (st x).dmin == (st x).dmax && (st x).dmin == t)).length : Nat)
def cntOverlap (xs : List Nat) (st : Store) (tlo thi : Int) : Int :=
  ((xs.filter (fun x => decide ((st x).dmin ≤ thi) && decide ((st x).dmax ≥ tlo))).length : Nat)

/-- `Count::prune` -/
def pruneCount (xs : List Nat) (t : IView) (cv : Nat) (ctx : Ctx) : Option Ctx :=
  let tmin := t.vmin ctx
  let tmax := t.vmax ctx
  let definitely : Int := if tmin ≠ tmax then 0 else cntFixedTo xs ctx.st tmin
  let possibly : Int := cntOverlap xs ctx.st tmin tmax
  ctx.trySetMin cv definitely >>>= (·.trySetMax cv possibly) >>>= (fun c =>
    let cmin := (c.st cv).dmin
    let cmax := (c.st cv).dmax
    let tgt := t.vmin c
    if cmin = cmax ∧ tgt = t.vmax c then
      if definitely = cmin then forM' xs c (fun x c => dropAtBound x tgt c)
      else if possibly = cmin then forM' xs c (fun x c => forceTo x tgt c)
      else some c
    else some c)

/-- `CardinalityConstraint::prune` -/
def pruneCard (ty : CardTy) (xs : List Nat) (tv n : Int) (ctx : Ctx) : Option Ctx :=
  let must := cntFixedTo xs ctx.st tv
  let can := cntOverlap xs ctx.st tv tv
  match ty with
  | .atLeast =>
    if must ≥ n then some ctx
    else if can < n then none
    else if n - must = can - must ∧ n - must > 0 then forM' xs ctx (fun x c => forceTo x tv c)
    else some ctx
  | .atMost =>
    if must > n then none
    else if must = n then forM' xs ctx (fun x c => dropAtBound x tv c)
    else some ctx
  | .exactly =>
    if must > n then none
    else if can < n then none
    else if n - must = can - must ∧ n - must > 0 then forM' xs ctx (fun x c => forceTo x tv c)
    else if n - must = 0 then forM' xs ctx (fun x c => dropAtBound x tv c)
    else some ctx

/-- `array.get(i as usize)` for an `i32` index -/
def getIdx (arr : List Nat) (i : Int) : Option Nat := if i < 0 then none else arr[i.toNat]?

/-- intersect the bounds of `a` and `b`; `a` is updated first -/
def intersectSet (a b : Nat) (c : Ctx) : Option Ctx :=
  let amin := (c.st a).dmin
  let amax := (c.st a).dmax
  let bmin := (c.st b).dmin
  let bmax := (c.st b).dmax
  let nmin := if amin > bmin then amin else bmin
  let nmax := if amax < bmax then amax else bmax
  if nmin > nmax then none
  else setMinG a nmin c >>>= (setMaxG a nmax ·) >>>= (setMinG b nmin ·) >>>= (setMaxG b nmax ·)

/-- `Element::get_valid_indices` -/
def elemValid (n : Int) (idx : Nat) (st : Store) : List Int :=
  intRange (if (st idx).dmin > 0 then (st idx).dmin else 0) (if (st idx).dmax < n - 1 then (st idx).dmax else n - 1)

/-- `Element::propagate_from_value` -/
def elemFromValue (arr : List Nat) (idx val : Nat) (c : Ctx) : Option Ctx :=
  let vmin := (c.st val).dmin
  let vmax := (c.st val).dmax
  let valid := elemValid arr.length idx c.st
  if valid.length = 1 then
    match getIdx arr (valid.headD 0) with
    | none => some c
    | some av =>
      let amin := (c.st av).dmin
      let amax := (c.st av).dmax
      let nmin := if amin > vmin then amin else vmin
      let nmax := if amax < vmax then amax else vmax
      if nmin > nmax then none else setMinG av nmin c >>>= (setMaxG av nmax ·)
  else
    let filt := valid.filter (fun i =>
      match getIdx arr i with
      | none => false
      | some av => !(decide ((c.st av).dmax < vmin) || decide ((c.st av).dmin > vmax)))
    if filt.isEmpty then none
    else setMinG idx (filt.headD 0) c >>>= (setMaxG idx (filt.getLastD 0) ·)

/-- `Element::propagate_from_index` -/
def elemFromIndex (arr : List Nat) (idx val : Nat) (c : Ctx) : Option Ctx :=
  let valid := elemValid arr.length idx c.st
  if valid.isEmpty then none
  else if valid.length = 1 then
    match getIdx arr (valid.headD 0) with
    | none => some c
    | some av => intersectSet val av c
  else
    let avs := valid.filterMap (getIdx arr)
    if avs.isEmpty then some c
    else setMinG val (Dom.dmin (avs.map (fun av => (c.st av).dmin))) c
      >>>= (setMaxG val (Dom.dmax (avs.map (fun av => (c.st av).dmax))) ·)

/-- `Element::prune` -/
def pruneElement (arr : List Nat) (idx val : Nat) (ctx : Ctx) : Option Ctx :=
  let n : Int := arr.length
  if (ctx.st idx).dmax < 0 ∨ (ctx.st idx).dmin ≥ n then none
  else
    (if (ctx.st idx).dmin < 0 then ctx.trySetMin idx 0 else some ctx)
    >>>= (fun c => if (c.st idx).dmax ≥ n then c.trySetMax idx (n - 1) else some c)
    >>>= (fun c =>
      if (c.st idx).dmin = (c.st idx).dmax then
        match getIdx arr (c.st idx).dmin with
        | none => some c
        | some av => intersectSet av val c
      else elemFromValue arr idx val c >>>= (elemFromIndex arr idx val ·))

/-- `Table::is_tuple_supported` -/
def tupSupported (xs : List Nat) (st : Store) (t : List Int) : Bool :=
  (xs.zip t).all (fun p => decide ((st p.1).dmin ≤ p.2) && decide (p.2 ≤ (st p.1).dmax))

/-- `Table::narrow_domain_to_supported` -/
def tableNarrow (xs : List Nat) (ts : List (List Int)) (i : Nat) (c : Ctx) : Option Ctx :=
  let x := xs.getD i 0
  let sup := (ts.filter (tupSupported xs c.st)).map (fun t => t.getD i 0)
  if sup.isEmpty then none
  else
    (if Dom.dmin sup > (c.st x).dmin then c.trySetMin x (Dom.dmin sup) else some c)
    >>>= (fun c' => if Dom.dmax sup < (c.st x).dmax then c'.trySetMax x (Dom.dmax sup) else some c')

/-- one sweep over all positions; the flag records whether some bound moved -/
def tablePass (xs : List Nat) (ts : List (List Int)) (c : Ctx) : Option (Ctx × Bool) :=
  (List.range xs.length).foldl (fun (acc : Option (Ctx × Bool)) i =>
    match acc with
    | none => none
    | some (c, ch) =>
      match tableNarrow xs ts i c with
      | none => none
      | some c' =>
        let x := xs.getD i 0
        some (c', ch || ((c.st x).dmin != (c'.st x).dmin || (c.st x).dmax != (c'.st x).dmax)))
    (some (c, false))

/-- the `loop` of `Table::prune`; every sweep that reports a change removes a value, so the total
domain size (+1) bounds the number of sweeps -/
def tableLoop (xs : List Nat) (ts : List (List Int)) : Nat → Ctx → Option Ctx
  | 0, c => some c
  | fuel + 1, c =>
    match tablePass xs ts c with
    | none => none
    | some (c', ch) =>
      if !ch then some c'
      else if !(ts.any (tupSupported xs c'.st)) then none
      else tableLoop xs ts fuel c'

/-- `Table::prune` -/
def pruneTable (xs : List Nat) (ts : List (List Int)) (ctx : Ctx) : Option Ctx :=
  if !(ts.any (tupSupported xs ctx.st)) then none
  else tableLoop xs ts ((xs.map (fun x => (ctx.st x).length)).sum + 1) ctx

/-- `Condition::is_definitely_true` / `is_definitely_false` on the bounds `mn..mx` -/
def condDefTrue : CondOp → Int → Int → Int → Bool
  | .eq, mn, mx, v => mn == mx && mn == v
  | .ne, mn, mx, v => decide (mx < v) || decide (mn > v)
  | .gt, mn, _, v => decide (mn > v)
  | .lt, _, mx, v => decide (mx < v)
def condDefFalse : CondOp → Int → Int → Int → Bool
  | .eq, mn, mx, v => decide (mx < v) || decide (mn > v)
  | .ne, mn, mx, v => mn == mx && mn == v
  | .gt, _, mx, v => decide (mx ≤ v)
  | .lt, mn, _, v => decide (mn ≥ v)

/-- `SimpleConstraint::apply` -/
def simpApply : SimpOp → Nat → Int → Ctx → Option Ctx
  | .eq, x, v, c => c.trySetMin x v >>>= (·.trySetMax x v)
  | .ne, x, v, c =>
    if (c.st x).dmin = v then c.trySetMin x (v + 1)
    else if (c.st x).dmax = v then c.trySetMax x (v - 1)
    else some c
  | .gt, x, v, c => c.trySetMin x (v + 1)
  | .lt, x, v, c => c.trySetMax x (v - 1)
  | .ge, x, v, c => c.trySetMin x v
  | .le, x, v, c => c.trySetMax x v

/-- `IfThenElseConstraint::prune` -/
def pruneIte (cop : CondOp) (cv : Nat) (cval : Int) (top : SimpOp) (tv : Nat) (tval : Int)
    (els : Option (SimpOp × Nat × Int)) (ctx : Ctx) : Option Ctx :=
  let mn := (ctx.st cv).dmin
  let mx := (ctx.st cv).dmax
  if condDefTrue cop mn mx cval then simpApply top tv tval ctx
  else if condDefFalse cop mn mx cval then
    match els with
    | none => some ctx
    | some (op, x, v) => simpApply op x v ctx
  else some ctx

/-! #### all-different (`AllDiff::prune` over `[min..max]` ranges through the bit-set GAC engine)

`AllDiff::propagate_gac` copies the *ranges* `[min, max]` of the variables into a `HybridGAC`, which
uses `BitSetGAC` for ranges of at most 128 values (`SparseSetGAC` beyond that — not modelled here:
for wider ranges this model still runs the bit-set algorithm).  The engine state is the list of the
positions' value lists. -/

/-- distinct elements (a `HashSet` of values; only its size and membership are observable) -/
def uniq : List Int → List Int
  | [] => []
  | x :: l => if x ∈ uniq l then uniq l else x :: uniq l

/-- `combinations(&items, k)` of `gac_bitset.rs` -/
def combos : List Nat → Nat → List (List Nat)
  | _, 0 => [[]]
  | [], _ + 1 => []
  | x :: rest, k + 1 => (combos rest k).map (x :: ·) ++ combos rest (k + 1)

/-- remove the values `vals` from every position not protected by `keep`; inconsistent when a
position lost its last value -/
def gacStrip (keep : Nat → Bool) (vals : List Int) (ds : List Dom) : Option (List Dom) :=
  let ds' := (List.range ds.length).map (fun j =>
    if keep j then ds.getD j [] else (ds.getD j []).filter (fun w => !vals.contains w))
  if (List.range ds.length).any (fun j =>
      (ds'.getD j []).length != (ds.getD j []).length && (ds'.getD j []).isEmpty) then none
  else some ds'

/-- first phase of `BitSetGAC::propagate_alldiff`: the values of the positions fixed *at entry*
are removed from all other positions -/
def gacAssigned (ds : List Dom) : Option (List Dom) :=
  let assigned : List (Nat × Int) := (List.range ds.length).filterMap (fun i =>
    match ds.getD i [] with
    | [v] => some (i, v)
    | _ => none)
  assigned.foldl (fun acc p =>
    match acc with
    | none => none
    | some ds => gacStrip (fun j => j == p.1) [p.2] ds) (some ds)

/-- `BitSetGAC::propagate_hall_sets`: for at most 6 variables, every subset of 2..4 positions whose
domains' union has as many values as the subset has positions keeps those values for itself -/
def gacHall (ds : List Dom) : Option (List Dom) :=
  let n := ds.length
  if n ≤ 6 then
    let subsets := (List.range' 2 ((if n < 4 then n else 4) - 1)).flatMap (fun k => combos (List.range n) k)
    subsets.foldl (fun acc sub =>
      match acc with
      | none => none
      | some ds =>
        let u := uniq (sub.flatMap (fun i => ds.getD i []))
        if sub.length = u.length then gacStrip (fun j => sub.contains j) u ds else some ds) (some ds)
  else some ds

/-- `AllDiff::prune` -/
def pruneAllDiff (xs : List Nat) (ctx : Ctx) : Option Ctx :=
  if xs.length ≤ 1 then some ctx
  else
    let ds0 := xs.map (fun x => intRange (ctx.st x).dmin (ctx.st x).dmax)
    /- quick_feasibility_check -/
    if (uniq (ds0.flatMap id)).length < xs.length then none
    else
      match gacAssigned ds0 with
      | none => none
      | some ds1 =>
        match gacHall ds1 with
        | none => none
        | some ds2 =>
          forM' (List.range xs.length) ctx (fun i c =>
            match ds2.getD i [] with
            | [] => none
            | d => c.trySetMin (xs.getD i 0) (Dom.dmin d) >>>= (·.trySetMax (xs.getD i 0) (Dom.dmax d)))

/-- `Prune::prune` -/
def prune : PK → Ctx → Option Ctx
  | .leq x y, ctx =>
    x.trySetMax (y.vmax ctx) ctx >>>= (fun c => y.trySetMin (x.vmin c) c)
  | .eq x y, ctx =>
    x.trySetMin (y.vmin ctx) ctx >>>= (fun c => x.trySetMax (y.vmax c) c)
      >>>= (fun c => y.trySetMin (x.vmin c) c) >>>= (fun c => y.trySetMax (x.vmax c) c)
  | .neq x y, ctx =>
    if x.vmin ctx = x.vmax ctx ∧ y.vmin ctx = y.vmax ctx ∧ x.vmin ctx = y.vmin ctx then none else some ctx
  | .add x y s, ctx =>
    ctx.trySetMin s (x.vmin ctx + y.vmin ctx)
      >>>= (fun c => c.trySetMax s (x.vmax c + y.vmax c))
      >>>= (fun c => x.trySetMin ((c.st s).dmin - y.vmax c) c)
      >>>= (fun c => x.trySetMax ((c.st s).dmax - y.vmin c) c)
      >>>= (fun c => y.trySetMin ((c.st s).dmin - x.vmax c) c)
      >>>= (fun c => y.trySetMax ((c.st s).dmax - x.vmin c) c)
  | .sum xs s, ctx =>
    let minT := xs.foldl (fun acc x => acc + x.vmin ctx) 0
    let maxT := xs.foldl (fun acc x => acc + x.vmax ctx) 0
    ctx.trySetMin s minT >>>= (·.trySetMax s maxT) >>>= (fun c =>
      let mn := (c.st s).dmin
      let mx := (c.st s).dmax
      forM' xs c (fun x c =>
        let xmin := x.vmin c
        let xmax := x.vmax c
        x.trySetMin (mn - (maxT - xmax)) c >>>= (x.trySetMax (mx - (minT - xmin)) ·)))
  | .linEq cs xs c, ctx => Lin.pruneEq cs xs c ctx
  | .linLe cs xs c, ctx => Lin.pruneLe cs xs c ctx
  | .linNe cs xs c, ctx => Lin.pruneNe cs xs c ctx
  | .linEqReif cs xs c b, ctx =>
    let bmin := (ctx.st b).dmin
    let bmax := (ctx.st b).dmax
    if bmin = 1 ∧ bmax = 1 then Lin.pruneEq cs xs c ctx
    else if bmin = 0 ∧ bmax = 0 then
      match Lin.fixedSum cs xs ctx.st with
      | some s => if s = c then none else some ctx
      | none => some ctx
    else
      match Lin.fixedSum cs xs ctx.st with
      | some s => if s = c then setBoth b 1 ctx else setBoth b 0 ctx
      | none => some ctx
  | .linLeReif cs xs c b, ctx =>
    let bmin := (ctx.st b).dmin
    let bmax := (ctx.st b).dmax
    if bmin = 1 ∧ bmax = 1 then Lin.pruneLe cs xs c ctx
    else if bmin = 0 ∧ bmax = 0 then
      match Lin.fixedSum cs xs ctx.st with
      | some s => if s ≤ c then none else some ctx
      | none => some ctx
    else
      let sb := Lin.sumBounds cs xs ctx.st
      if sb.2 ≤ c then setBoth b 1 ctx
      else if sb.1 > c then setBoth b 0 ctx
      else some ctx
  | .linNeReif cs xs c b, ctx =>
    let bmin := (ctx.st b).dmin
    let bmax := (ctx.st b).dmax
    if bmin = 1 ∧ bmax = 1 then Lin.pruneNe cs xs c ctx
    else if bmin = 0 ∧ bmax = 0 then Lin.pruneEq cs xs c ctx
    else
      match Lin.fixedSum cs xs ctx.st with
      | some s => if s ≠ c then setBoth b 1 ctx else setBoth b 0 ctx
      | none => some ctx
  | .reif op x y b, ctx => pruneReif op x y b ctx
  | .boolAnd ops r, ctx => pruneBoolAnd ops r ctx
  | .boolOr ops r, ctx => pruneBoolOr ops r ctx
  | .boolNot o r, ctx => pruneBoolNot o r ctx
  | .boolXor x y r, ctx => pruneBoolXor x y r ctx
  | .abs x s, ctx => pruneAbs x s ctx
  | .min xs r, ctx => pruneMin xs r ctx
  | .max xs r, ctx => pruneMax xs r ctx
  | .noop, ctx => some ctx
  | .mul x y s, ctx => pruneMul x y s ctx
  | .div x y s, ctx => pruneDiv x y s ctx
  | .modulo x y s, ctx => pruneMod x y s ctx
  | .allEqual xs, ctx => pruneAllEqual xs ctx
  | .between l m u, ctx => pruneBetween l m u ctx
  | .count xs t c, ctx => pruneCount xs t c ctx
  | .card ty xs tv n, ctx => pruneCard ty xs tv n ctx
  | .element arr idx val, ctx => pruneElement arr idx val ctx
  | .table xs ts, ctx => pruneTable xs ts ctx
  | .ite cop cv cval top tv tval els, ctx => pruneIte cop cv cval top tv tval els ctx
  | .allDiff xs, ctx => pruneAllDiff xs ctx

/-- `Table::new`: tuples whose arity differs from the number of variables are dropped (they can
never match) -/
def mkTable (xs : List Nat) (ts : List (List Int)) : PK :=
  .table xs (ts.filter (fun t => t.length == xs.length))

def optL : Option Nat → List Nat
  | none => []
  | some i => [i]

/-- `Propagate::list_trigger_vars`, in the order the Rust iterator yields them -/
def triggers : PK → List Nat
  | .leq x y => optL x.underlying ++ optL y.underlying
  | .eq x y => optL x.underlying ++ optL y.underlying
  | .neq x y => optL x.underlying ++ optL y.underlying
  | .add x y s => [s] ++ optL x.underlying ++ optL y.underlying
  | .sum xs s => xs.filterMap (·.underlying) ++ [s]
  | .linEq _ xs _ => xs
  | .linLe _ xs _ => xs
  | .linNe _ xs _ => xs
  | .linEqReif _ xs _ b => xs ++ [b]
  | .linLeReif _ xs _ b => xs ++ [b]
  | .linNeReif _ xs _ b => xs ++ [b]
  | .reif _ x y b => [x, y, b]
  | .boolAnd ops r => r :: ops
  | .boolOr ops r => r :: ops
  | .boolNot o r => [r, o]
  | .boolXor x y r => [r, x, y]
  | .abs x s => [s] ++ optL x.underlying
  | .min xs r => r :: xs
  | .max xs r => r :: xs
  | .noop => []
  | .mul x y s => [s] ++ optL x.underlying ++ optL y.underlying
  | .div x y s => [s] ++ optL x.underlying ++ optL y.underlying
  | .modulo x y s => [s] ++ optL x.underlying ++ optL y.underlying
  | .allEqual xs => xs
  | .between l m u => [l, m, u]
  | .count xs t c => xs ++ optL t.underlying ++ [c]
  | .card _ xs _ _ => xs
  | .element arr idx val => arr ++ [idx, val]
  | .table xs _ => xs
  | .ite _ cv _ _ tv _ els => [cv, tv] ++ (match els with | none => [] | some (_, x, _) => [x])
  | .allDiff xs => xs

def linVal (cs : List Int) (xs : List Nat) (a : Nat → Int) : Int :=
  (List.zip cs xs).foldl (fun acc p => acc + p.1 * a p.2) 0

def truthy (v : Int) : Bool := decide (v ≥ 1)

/-- documented meaning of the constraint -/
def holds (a : Nat → Int) : PK → Bool
  | .leq x y => decide (x.eval a ≤ y.eval a)
  | .eq x y => x.eval a == y.eval a
  | .neq x y => x.eval a != y.eval a
  | .add x y s => x.eval a + y.eval a == a s
  | .sum xs s => xs.foldl (fun acc x => acc + x.eval a) 0 == a s
  | .linEq cs xs c => linVal cs xs a == c
  | .linLe cs xs c => decide (linVal cs xs a ≤ c)
  | .linNe cs xs c => linVal cs xs a != c
  | .linEqReif cs xs c b => (a b == 1) == (linVal cs xs a == c)
  | .linLeReif cs xs c b => (a b == 1) == decide (linVal cs xs a ≤ c)
  | .linNeReif cs xs c b => (a b == 1) == (linVal cs xs a != c)
  | .reif op x y b => (a b == 1) == op.holds (a x) (a y)
  | .boolAnd ops r => truthy (a r) == ops.all (fun o => truthy (a o))
  | .boolOr ops r => truthy (a r) == ops.any (fun o => truthy (a o))
  | .boolNot o r => truthy (a r) == !truthy (a o)
  | .boolXor x y r => truthy (a r) == (truthy (a x) != truthy (a y))
  | .abs x s => a s == ((x.eval a).natAbs : Int)
  | .min xs r => xs.isEmpty || (xs.all (fun x => decide (a r ≤ a x)) && xs.any (fun x => a x == a r))
  | .max xs r => xs.isEmpty || (xs.all (fun x => decide (a x ≤ a r)) && xs.any (fun x => a x == a r))
  | .noop => true
  | .mul x y s => x.eval a * y.eval a == a s
  | .div x y s => y.eval a != 0 && a s * y.eval a == x.eval a
  | .modulo x y s => y.eval a != 0 && a s == Int.tmod (x.eval a) (y.eval a)
  | .allEqual xs => match xs with | [] => true | x0 :: rest => rest.all (fun x => a x == a x0)
  | .between l m u => decide (a l ≤ a m) && decide (a m ≤ a u)
  | .count xs t c => a c == ((xs.filter (fun x => a x == t.eval a)).length : Nat)
  | .card ty xs tv n =>
    let k : Int := ((xs.filter (fun x => a x == tv)).length : Nat)
    match ty with
    | .atLeast => decide (k ≥ n)
    | .atMost => decide (k ≤ n)
    | .exactly => k == n
  | .element arr idx val =>
    match getIdx arr (a idx) with
    | none => false
    | some av => a val == a av
  | .table xs ts => ts.any (fun t => t == xs.map a)
  | .ite cop cv cval top tv tval els =>
    if cop.holds (a cv) cval then top.holds (a tv) tval
    else match els with | none => true | some (op, x, v) => op.holds (a x) v
  | .allDiff xs => decide ((xs.map a).Nodup)

end PK
end Selen

import SelenModel.Model.Lp
/-
Model of the pivoting logic of the primal simplex (`/repo/src/lpsolver/simplex_primal.rs` Phase I /
Phase II loops, `basis.rs` `find_entering_variable`, `find_leaving_variable`, `swap`,
`compute_reduced_costs`, `is_primal_feasible`, `is_dual_feasible`, `lu.rs` `decompose`), at exact
rationals.

A basis is what the code holds: the list `basic` (order matters: the ratio test breaks ties by
basis position) and the list `nonbasic` (order matters: the entering rule breaks ties by non-basic
position).

Linear solves are UNTRUSTED (`solveSquare`, Gauss-Jordan); every quantity a decision or a theorem
depends on is re-checked by an executable certificate before it is used:
  `basicPoint`  z with  A z = b  and  z = 0 off the basis          (`Basis::solve_basic`)
  `duals`       y with  (c − yᵀA)_j = 0 on the basis                (`compute_reduced_costs`)
  `ray`         η with  A η = 0, η_e = 1, η = 0 off basis ∪ {e}     (`lu.solve(a.col(entering))`, d = −η_B)
so the theorems about `pivot` need no theory of matrix inverses.  When a certificate fails the
model answers `err` (never seen in the correspondence runs).

`luOk` is `LuDecomposition::decompose`: Gaussian elimination with partial pivoting (largest
magnitude, first row on ties) that fails when a pivot magnitude is below the ABSOLUTE tolerance
`feasibility_tol` (`Basis::factorize`).
-/
namespace Selen
namespace Lp

/-! ### untrusted linear algebra -/

/-- first row with a non-zero entry in column `k`, and the others (order kept) -/
def splitPivot (k : Nat) : List Vec → Option (Vec × List Vec)
  | [] => none
  | r :: rs =>
    if r.getD k 0 ≠ 0 then some (r, rs)
    else match splitPivot k rs with
      | some (p, rest) => some (p, r :: rest)
      | none => none

def rowSub (r : Vec) (f : Rat) (p : Vec) : Vec := List.zipWith (fun a b => a - f * b) r p

/-- Gauss-Jordan on augmented rows; `done` holds the rows whose pivots are columns `0..k-1` -/
def gaussJordan : Nat → Nat → List Vec → List Vec → Option (List Vec)
  | 0, _, done, todo => if todo.isEmpty then some done else none
  | fuel + 1, k, done, todo =>
    match todo with
    | [] => some done
    | _ =>
      match splitPivot k todo with
      | none => none
      | some (p, rest) =>
        let pv := p.getD k 0
        let pn := p.map (fun a => a / pv)
        let red := fun (r : Vec) => rowSub r (r.getD k 0) pn
        gaussJordan fuel (k + 1) (done.map red ++ [pn]) (rest.map red)

/-- solve `M v = rhs` for a square `M`; `none` when singular -/
def solveSquare (M : Mat) (rhs : Vec) : Option Vec :=
  let m := M.length
  let aug := List.zipWith (fun r b => r ++ [b]) M rhs
  match gaussJordan (m + 1) 0 [] aug with
  | some rows => some (rows.map (fun r => r.getD m 0))
  | none => none

def colOf (A : Mat) (j : Nat) : Vec := A.map (fun r => r.getD j 0)

/-- the basis matrix `B` (rows) -/
def basisMat (A : Mat) (basic : List Nat) : Mat := A.map (fun r => basic.map (fun j => r.getD j 0))

/-- `Bᵀ` (rows = basic columns of `A`) -/
def basisMatT (A : Mat) (basic : List Nat) : Mat := basic.map (colOf A)

def scatter (n : Nat) (basic : List Nat) (xB : Vec) : Vec :=
  (List.zip basic xB).foldl (fun acc (p : Nat × Rat) => acc.set p.1 p.2) (zeros n)

/-! ### certificates -/

/-- `v_j = 0` for every index `j` that is neither in `basic` nor the allowed one -/
def offBasis (basic : List Nat) (allow : Option Nat) : Nat → Vec → Bool
  | _, [] => true
  | j, v :: vs => (basic.contains j || allow == some j || decide (v = 0)) && offBasis basic allow (j + 1) vs

/-- `r_j = 0` for every index `j` in `basic` -/
def onBasisZero (basic : List Nat) : Nat → Vec → Bool
  | _, [] => true
  | j, r :: rs => (!basic.contains j || decide (r = 0)) && onBasisZero basic (j + 1) rs

def allZero (v : Vec) : Bool := v.all (fun t => decide (t = 0))

/-- the basic solution of `basic`, as a full vector: `A z = b`, `z = 0` off the basis -/
def basicPoint (S : Std) (basic : List Nat) : Option Vec :=
  match solveSquare (basisMat S.a basic) S.b with
  | none => none
  | some xB =>
    let z := scatter S.c.length basic xB
    if z.length = S.c.length ∧ matVec S.a z = S.b ∧ offBasis basic none 0 z = true then some z else none

/-- dual values of `basic`: reduced costs vanish on the basis -/
def duals (S : Std) (basic : List Nat) : Option Vec :=
  match solveSquare (basisMatT S.a basic) (basic.map (fun j => S.c.getD j 0)) with
  | none => none
  | some y =>
    if y.length = S.a.length ∧ (redCosts S y).length = S.c.length ∧ onBasisZero basic 0 (redCosts S y) = true
    then some y else none

/-- the edge direction of entering column `e`: `A η = 0`, `η_e = 1`, `η = 0` off `basic ∪ {e}`
(the code's search direction is `d_i = −η_{basic[i]}`) -/
def ray (S : Std) (basic : List Nat) (e : Nat) : Option Vec :=
  match solveSquare (basisMat S.a basic) (colOf S.a e) with
  | none => none
  | some d =>
    let eta := (scatter S.c.length basic (negv d)).set e 1
    if eta.length = S.c.length ∧ allZero (matVec S.a eta) = true ∧ offBasis basic (some e) 0 eta = true
        ∧ eta.getD e 0 = 1 ∧ basic.contains e = false then some eta else none

/-! ### the code's selection rules -/

/-- `Basis::find_entering_variable`: position of the largest reduced cost above 0 (`best_value`
starts at 0.0, strict `>`, so the first position wins ties) -/
def argmaxPos : Nat → Vec → Option (Nat × Rat) → Option (Nat × Rat)
  | _, [], best => best
  | i, rc :: rs, best =>
    let bv : Rat := match best with | none => 0 | some (_, v) => v
    argmaxPos (i + 1) rs (if bv < rc then some (i, rc) else best)

/-- `Basis::find_leaving_variable` (after 96850d9): rows with `d_i > tolerance`, ratio
`max(0, x_i) / d_i`, strictly smaller wins (first position on ties) -/
def ratioTest (tol : Rat) : Nat → Vec → Vec → Option (Nat × Rat) → Option (Nat × Rat)
  | i, x :: xs, d :: ds, best =>
    let best' : Option (Nat × Rat) :=
      if tol < d then
        let ratio := (if x < 0 then 0 else x) / d
        match best with
        | none => some (i, ratio)
        | some (_, br) => if ratio < br then some (i, ratio) else best
      else best
    ratioTest tol (i + 1) xs ds best'
  | _, _, _, best => best

structure Bas where
  basic : List Nat
  nonbasic : List Nat
  deriving Repr, DecidableEq

/-- `Basis::initial(n, m)` -/
def Bas.initial (n m : Nat) : Bas :=
  { basic := (List.range m).map (fun i => n - m + i), nonbasic := List.range (n - m) }

/-- `Basis::swap(entering_nonbasic_idx, leaving_basic_idx)` -/
def Bas.swap (st : Bas) (k l : Nat) : Bas :=
  { basic := st.basic.set l (st.nonbasic.getD k 0), nonbasic := st.nonbasic.set k (st.basic.getD l 0) }

def absQ (q : Rat) : Rat := if q < 0 then -q else q

/-- position of the first row whose leading entry has the largest magnitude -/
def pivotRow : Nat → List Vec → Nat → Rat → Nat
  | _, [], bi, _ => bi
  | i, r :: rs, bi, bv =>
    let v := absQ (r.getD 0 0)
    if bv < v then pivotRow (i + 1) rs i v else pivotRow (i + 1) rs bi bv

/-- `LuDecomposition::decompose(matrix, tolerance)` succeeds -/
def luOk (tol : Rat) : Nat → Mat → Bool
  | 0, _ => true
  | _ + 1, [] => true
  | fuel + 1, r0 :: rest =>
    let pi := pivotRow 1 rest 0 (absQ (r0.getD 0 0))
    let p := if pi = 0 then r0 else rest.getD (pi - 1) []
    if absQ (p.getD 0 0) < tol then false
    else
      let others := if pi = 0 then rest else rest.set (pi - 1) r0
      let pv := p.getD 0 0
      let sub := others.map (fun r => List.zipWith (fun a b => a - (r.getD 0 0 / pv) * b) (r.drop 1) (p.drop 1))
      luOk tol fuel sub

/-- `Basis::factorize` on the columns `basic` of `A` -/
def factorizeOk (S : Std) (ftol : Rat) (basic : List Nat) : Bool :=
  luOk ftol basic.length (basisMat S.a basic)

/-! ### one simplex iteration (shared by both phases, maximisation form) -/

inductive PivotRes where
  | stop                 -- no reduced cost above `otol`
  | unbounded            -- no row passes the ratio test
  | next (st : Bas)      -- the swapped basis (already refactorised)
  | singular             -- the swapped basis fails `factorize`
  | err                  -- a certificate failed / an index was out of range
  deriving Repr, DecidableEq

/-- reduced costs by non-basic position -/
def reducedN (S : Std) (y : Vec) (st : Bas) : Vec := st.nonbasic.map (fun j => (redCosts S y).getD j 0)

/-- one iteration: reduced costs, stop test (`is_dual_feasible`: all `≤ otol`), entering variable,
direction, ratio test, swap, refactorisation -/
def pivot (S : Std) (ftol otol : Rat) (st : Bas) : PivotRes :=
  match basicPoint S st.basic, duals S st.basic with
  | some z, some y =>
    let rcN := reducedN S y st
    if rcN.all (fun r => decide (r ≤ otol)) then .stop
    else
      match argmaxPos 0 rcN none with
      | none => .err
      | some (k, _) =>
        let e := st.nonbasic.getD k 0
        match ray S st.basic e with
        | none => .err
        | some eta =>
          let xB := st.basic.map (fun j => z.getD j 0)
          let d := st.basic.map (fun j => -(eta.getD j 0))
          match ratioTest ftol 0 xB d none with
          | none => .unbounded
          | some (l, _) =>
            let st' := st.swap k l
            if factorizeOk S ftol st'.basic then .next st' else .singular
  | _, _ => .err

/-! ### the two phases -/

inductive Outcome where
  | optimal | unbounded | iterationLimit
  | errSingular | errInstability | errModel
  deriving Repr, DecidableEq

/-- trace event: phase tag (0 = initial slack basis, 1 = Phase I iteration, 2 = Phase II iteration)
and the basis at that point -/
abbrev Event := Nat × List Nat

/-- Phase II loop (`phase_two`): at most `fuel` iterations are left before the iteration limit -/
def phase2 (S : Std) (ftol otol : Rat) : Nat → Bas → List Event → List Event × Outcome × Bas
  | 0, st, tr => (tr, .iterationLimit, st)
  | fuel + 1, st, tr =>
    let tr := tr ++ [(2, st.basic)]
    match pivot S ftol otol st with
    | .stop => (tr, .optimal, st)
    | .unbounded => (tr, .unbounded, st)
    | .next st' => phase2 S ftol otol fuel st' tr
    | .singular => (tr, .errSingular, st)
    | .err => (tr, .errModel, st)

/-- Phase-I objective `Σ artificials` of a full point of the auxiliary problem -/
def artSum (S1 : Std) (w : Vec) : Rat := -(dot S1.c w)

/-- the basis handed to Phase II when every basic column is an original one -/
def handover (n : Nat) (basic : List Nat) : Bas :=
  let ob := basic.filter (fun j => decide (j < n))
  { basic := ob, nonbasic := (List.range n).filter (fun j => !ob.contains j) }

/-- "fill the remaining slots with non-basic original variables" (simplex_primal.rs:351-380) -/
def fillBasis (m : Nat) : List Nat → List Nat → List Nat
  | fb, [] => fb
  | fb, j :: js => if fb.length ≥ m then fb else if fb.contains j then fillBasis m fb js else fillBasis m (fb ++ [j]) js

inductive P1Res where
  | ok (st : Bas) (iters : Nat)
  | fail (o : Outcome)
  deriving Repr

/-- Phase I loop on the auxiliary problem `S1 = phase1Std S` (`n` = columns of `S`, `m` = rows) -/
def phase1Loop (S S1 : Std) (ftol otol : Rat) (n m : Nat) : Nat → Nat → Bas → List Event → List Event × P1Res
  | 0, _, _, tr => (tr, .fail .errInstability)
  | fuel + 1, it, st, tr =>
    let tr := tr ++ [(1, st.basic)]
    match pivot S1 ftol otol st with
    | .stop =>
      match basicPoint S1 st.basic with
      | none => (tr, .fail .errModel)
      | some w =>
        if artSum S1 w < ftol then
          let ob := st.basic.filter (fun j => decide (j < n))
          if ob.length = m then
            let h := handover n st.basic
            if factorizeOk S ftol h.basic then (tr, .ok h it) else (tr, .fail .errSingular)
          else
            let fb := fillBasis m ob (List.range n)
            if fb.length = m then
              let h : Bas := { basic := fb, nonbasic := (List.range n).filter (fun j => !fb.contains j) }
              if factorizeOk S ftol fb then (tr, .ok h it) else (tr, .fail .errInstability)
            else (tr, .fail .errInstability)
        else (tr, .fail .errInstability)
    | .unbounded => (tr, .fail .errInstability)
    | .singular => (tr, .fail .errSingular)
    | .err => (tr, .fail .errModel)
    | .next st' =>
      match basicPoint S1 st'.basic with
      | none => (tr, .fail .errModel)
      | some w =>
        let ob := st'.basic.filter (fun j => decide (j < n))
        if artSum S1 w < ftol ∧ ob.length = m then
          let h := handover n st'.basic
          if factorizeOk S ftol h.basic then (tr, .ok h it) else (tr, .fail .errSingular)
        else phase1Loop S S1 ftol otol n m fuel (it + 1) st' tr

/-- `phase_one`: the slack basis when it is primal feasible, else the auxiliary problem -/
def phase1 (S : Std) (ftol otol : Rat) (maxIter : Nat) : List Event × P1Res :=
  let n := S.c.length
  let m := S.a.length
  let st0 := Bas.initial n m
  let tr : List Event := [(0, st0.basic)]
  if !(factorizeOk S ftol st0.basic) then (tr, .fail .errSingular)
  else
    match basicPoint S st0.basic with
    | none => (tr, .fail .errModel)
    | some z =>
      if st0.basic.all (fun j => decide (-ftol ≤ z.getD j 0)) then (tr, .ok st0 0)
      else
        let S1 := phase1Std S
        let st1 := Bas.initial (n + m) m
        if !(factorizeOk S1 ftol st1.basic) then (tr, .fail .errSingular)
        else phase1Loop S S1 ftol otol n m maxIter 0 st1 tr

/-- `PrimalSimplex::solve` on a standard form -/
def solveStd (S : Std) (ftol otol : Rat) (maxIter : Nat) : List Event × Outcome × List Nat :=
  match phase1 S ftol otol maxIter with
  | (tr, .fail o) => (tr, o, [])
  | (tr, .ok st it) =>
    let (tr', o, stf) := phase2 S ftol otol (maxIter - it) st tr
    (tr', o, stf.basic)

def solvePrimal (P : Problem) (ftol otol : Rat) (maxIter : Nat) : List Event × Outcome × List Nat :=
  solveStd (toStd P) ftol otol maxIter

end Lp
end Selen

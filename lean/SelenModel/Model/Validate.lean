/-
`ModelValidator::validate_alldiff_constraints` (validation.rs:274-340) for one all-different
constraint: the scan over the constraint's variables with its two hash sets (as lists).
Import-free (linked into `selen_model`); the theorems are in `Lemmas/Determ.lean` (independence
of hash order) and `Lemmas/Validate.lean` (soundness of the rejection).
-/
namespace Selen
namespace Determ

def hsInsert (s : List Int) (x : Int) : List Int := if x ∈ s then s else x :: s


def insAll (s : List Int) (d : List Int) : List Int := d.foldl hsInsert s


/-- verdict of `validate_alldiff_constraints` for one constraint -/
inductive ADVerdict where
  | ok
  /-- "two variables fixed to the same value: v" -/
  | dupFixed (v : Int)
  /-- "requires n distinct values, but only k distinct values are available" -/
  | tooFew (need have_ : Nat)
deriving DecidableEq, Repr

/-- the scan over the constraint's variables (in the constraint's own order); `none` is a float
variable (skipped), `some d` the current values of an integer variable.  `fixed` and `all` are
the two hash sets, as lists in whatever order. -/
def adScan (n : Nat) : List (Option (List Int)) → List Int → List Int → ADVerdict
  | [], _, all => if all.length < n then .tooFew n all.length else .ok
  | none :: ds, fixed, all => adScan n ds fixed all
  | some d :: ds, fixed, all =>
    match d with
    | [v] => if v ∈ fixed then .dupFixed v else adScan n ds (hsInsert fixed v) (insAll all d)
    | _ => adScan n ds fixed (insAll all d)


end Determ
end Selen

import SelenModel.Model.SparseSet
/-
Model of the all-different propagation engines (property C19):

* `src/variables/domain/bitset_domain.rs`  — `BSD`  (struct `BitSetDomain`)
* `src/constraints/gac_bitset.rs`          — `BG`   (struct `BitSetGAC`)
* `src/constraints/gac_sparseset.rs`       — `SG`   (struct `SparseSetGAC`), `sparsePropagate`
                                              (`SparseSetAllDiff::propagate`), `BitMatrix`
* `src/constraints/gac_hybrid.rs`          — `DT` (`DomainType`), `Graph` (`BipartiteGraph`),
                                              `Matching`, `HG` (struct `HybridGAC`)
* `src/constraints/props/alldiff.rs`       — `alldiffPrune` (bounds in, bounds out)

Representation choices
* the `u128` mask of a `BitSetDomain` is represented by the ascending list of the values whose
  bit is set (`vals`); `lo`/`hi`/`usize` are the fields `min_val`/`max_val`/`universe_size`.
* every `HashMap<Variable, _>` is a key list plus a lookup function; the ONLY place where the
  iteration order of a hash container influences a result is `Matching::find_maximum_matching`
  (`graph.variables()`), so that order is an explicit argument (`order`) of the model.  The other
  hash iterations (`union_values` in the Hall filter, `to_bipartite_graph`, `build_merged_graph`,
  `apply_bitwise_gac`, the copy-back loops) only build sets / act per variable.
* a Rust panic (debug profile: arithmetic overflow checks on) is `none`.

Import-free apart from Model files: linked into the `selen_model` driver.
-/

namespace Selen
namespace Gac

def i32Max : Int := 2147483647

/-- `(max_val - min_val + 1)` does not fit an `i32` (debug profile: panic) -/
def spanOverflows (lo hi : Int) : Bool := decide (hi - lo + 1 > i32Max)

/-! ### `BitSetDomain` -/

structure BSD where
  lo : Int
  hi : Int
  usize : Nat
  /-- ascending list of the values whose bit is set -/
  vals : List Int
deriving DecidableEq, Repr

namespace BSD

/-- `new_invalid` -/
def invalid : BSD := { lo := 1, hi := 0, usize := 0, vals := [] }

def isInvalid (d : BSD) : Bool := decide (d.hi < d.lo)

/-- `BitSetDomain::new` (reversed bounds are swapped; more than 128 values: invalid domain) -/
def new (lo hi : Int) : BSD :=
  let lo' := if lo > hi then hi else lo
  let hi' := if lo > hi then lo else hi
  let us := (hi' - lo' + 1).toNat
  if us > 128 then invalid
  else { lo := lo', hi := hi', usize := us, vals := SS.intRange lo' (hi' + 1) }

/-- the empty domain returned by `new_from_values(vec![])` -/
def emptyVals : BSD := { lo := 0, hi := -1, usize := 0, vals := [] }

/-- `new_from_values` -/
def newFromValues (vs : List Int) : BSD :=
  if vs.isEmpty then emptyVals
  else
    let d := new (SS.listMin vs) (SS.listMax vs)
    if d.isInvalid then d else { d with vals := d.vals.filter (fun v => vs.contains v) }

def inUniverse (d : BSD) (v : Int) : Bool := decide (d.lo ≤ v) && decide (v ≤ d.hi)

def contains (d : BSD) (v : Int) : Bool := d.inUniverse v && d.vals.contains v

/-- `remove`: new domain and the returned flag -/
def remove (d : BSD) (v : Int) : BSD × Bool :=
  if d.inUniverse v then ({ d with vals := d.vals.filter (fun w => w != v) }, d.vals.contains v)
  else (d, false)

def size (d : BSD) : Nat := d.vals.length
def isEmpty (d : BSD) : Bool := d.vals.isEmpty
def isFixed (d : BSD) : Bool := d.vals.length == 1
def fixedValue (d : BSD) : Option Int := if d.isFixed then d.vals.head? else none
def min (d : BSD) : Option Int := d.vals.head?
def max (d : BSD) : Option Int := d.vals.getLast?
def removeAll (d : BSD) : BSD := { d with vals := [] }

/-- `remove_all_but` -/
def removeAllBut (d : BSD) (v : Int) : BSD :=
  if !d.contains v then d.removeAll else { d with vals := [v] }

/-- `remove_below` -/
def removeBelow (d : BSD) (t : Int) : BSD :=
  if t ≤ d.lo then d
  else if t > d.hi then d.removeAll
  else { d with vals := d.vals.filter (fun w => decide (t ≤ w)) }

/-- `remove_above` -/
def removeAbove (d : BSD) (t : Int) : BSD :=
  if t ≥ d.hi then d
  else if t < d.lo then d.removeAll
  else { d with vals := d.vals.filter (fun w => decide (w ≤ t)) }

def toVec (d : BSD) : List Int := d.vals

/-- the loop `for &value in &union_values { if domain.remove(value) { removed_any = true } }` -/
def removeMany (d : BSD) (vs : List Int) : BSD × Bool :=
  vs.foldl (fun (p : BSD × Bool) v => ((p.1.remove v).1, p.2 || (p.1.remove v).2)) (d, false)

end BSD

/-! ### hash maps keyed by `Variable` -/

def setDom {α : Type} (f : Nat → Option α) (x : Nat) (d : α) : Nat → Option α :=
  fun y => if y = x then some d else f y

def addKey (ks : List Nat) (x : Nat) : List Nat := if ks.contains x then ks else ks ++ [x]

/-! ### the four copies of "remove every assigned value from the other variables"

`rm` is the engine's `remove_value`, `emp` its emptiness test.  An entry `(some a, v)` skips the
variable `a` itself (`if var != assigned_var`), an entry `(none, v)` skips nothing (cross
propagation).  Result: new state, the `changed` flag, and `false` iff the loop returned early
with "inconsistent". -/

section Elim
variable {σ : Type}

def skips (av : Option Nat) (x : Nat) : Bool :=
  match av with
  | some a => x == a
  | none => false

def elimInner (rm : σ → Nat → Int → σ × Bool) (emp : σ → Nat → Bool) (av : Option Nat) (v : Int) :
    List Nat → σ → Bool → σ × Bool × Bool
  | [], s, ch => (s, ch, true)
  | x :: xs, s, ch =>
    if skips av x then elimInner rm emp av v xs s ch
    else if (rm s x v).2 then
      if emp (rm s x v).1 x then ((rm s x v).1, true, false)
      else elimInner rm emp av v xs (rm s x v).1 true
    else elimInner rm emp av v xs (rm s x v).1 ch

def elimOuter (rm : σ → Nat → Int → σ × Bool) (emp : σ → Nat → Bool) (vars : List Nat) :
    List (Option Nat × Int) → σ → Bool → σ × Bool × Bool
  | [], s, ch => (s, ch, true)
  | (av, v) :: rest, s, ch =>
    if (elimInner rm emp av v vars s ch).2.2 then
      elimOuter rm emp vars rest (elimInner rm emp av v vars s ch).1 (elimInner rm emp av v vars s ch).2.1
    else elimInner rm emp av v vars s ch

end Elim

/-! ### `BitSetGAC` -/

structure BG where
  keys : List Nat
  dom : Nat → Option BSD
  /-- `domains_changed` -/
  changed : Bool

/-- `combinations(items, k)` (same order as the Rust function) -/
def combos {α : Type} : List α → Nat → List (List α)
  | _, 0 => [[]]
  | [], _ + 1 => []
  | x :: xs, k + 1 => (combos xs k).map (fun c => x :: c) ++ combos xs (k + 1)

/-- the distinct elements (a `HashSet` built by insertion) -/
def dedup : List Int → List Int
  | [] => []
  | x :: xs => if (dedup xs).contains x then dedup xs else x :: dedup xs

namespace BG

def new : BG := { keys := [], dom := fun _ => none, changed := false }

def addVariable (g : BG) (x : Nat) (lo hi : Int) : BG :=
  { keys := addKey g.keys x, dom := setDom g.dom x (BSD.new lo hi), changed := true }

def addVariableWithValues (g : BG) (x : Nat) (vs : List Int) : BG :=
  { keys := addKey g.keys x, dom := setDom g.dom x (BSD.newFromValues vs), changed := true }

def removeValue (g : BG) (x : Nat) (v : Int) : BG × Bool :=
  match g.dom x with
  | some d => ({ g with dom := setDom g.dom x (d.remove v).1, changed := g.changed || (d.remove v).2 }, (d.remove v).2)
  | none => (g, false)

/-- the shared shape of `assign_variable` / `remove_above` / `remove_below` -/
def sizeOp (g : BG) (x : Nat) (f : BSD → BSD) : BG × Bool :=
  match g.dom x with
  | some d =>
    let r := (f d).size != d.size
    ({ g with dom := setDom g.dom x (f d), changed := g.changed || r }, r)
  | none => (g, false)

def assignVariable (g : BG) (x : Nat) (v : Int) : BG × Bool := g.sizeOp x (fun d => d.removeAllBut v)
def removeAbove (g : BG) (x : Nat) (t : Int) : BG × Bool := g.sizeOp x (fun d => d.removeAbove t)
def removeBelow (g : BG) (x : Nat) (t : Int) : BG × Bool := g.sizeOp x (fun d => d.removeBelow t)

def getDomainValues (g : BG) (x : Nat) : List Int :=
  match g.dom x with
  | some d => d.toVec
  | none => []

def domainSize (g : BG) (x : Nat) : Nat :=
  match g.dom x with
  | some d => d.size
  | none => 0

def isAssigned (g : BG) (x : Nat) : Bool :=
  match g.dom x with
  | some d => d.isFixed
  | none => false

def assignedValue (g : BG) (x : Nat) : Option Int :=
  match g.dom x with
  | some d => d.fixedValue
  | none => none

/-- `is_inconsistent` (an unknown variable counts as inconsistent) -/
def isInconsistent (g : BG) (x : Nat) : Bool :=
  match g.dom x with
  | some d => d.isEmpty
  | none => true

def getBounds (g : BG) (x : Nat) : Option (Int × Int) :=
  match g.dom x with
  | some d =>
    match d.min, d.max with
    | some a, some b => some (a, b)
    | _, _ => none
  | none => none

/-- `assigned_values` of `propagate_alldiff` -/
def assignedValues (g : BG) (vars : List Nat) : List (Option Nat × Int) :=
  vars.filterMap (fun x =>
    match g.dom x with
    | some d => if d.isFixed then d.fixedValue.map (fun v => (some x, v)) else none
    | none => none)

/-- the `union_values` of a subset (as a duplicate-free list) -/
def unionVals (g : BG) (subset : List Nat) : List Int :=
  dedup (subset.flatMap (fun x =>
    match g.dom x with
    | some d => d.toVec
    | none => []))

/-- `for &var in variables { if !subset.contains(&var) { … } }` of the Hall filter; note that
the removals act on the domain directly, so `domains_changed` is NOT set -/
def hallApply (subset : List Nat) (uvals : List Int) : List Nat → BG → Bool → BG × Bool × Bool
  | [], g, ch => (g, ch, true)
  | x :: xs, g, ch =>
    if subset.contains x then hallApply subset uvals xs g ch
    else
      match g.dom x with
      | some d =>
        if (d.removeMany uvals).2 then
          if (d.removeMany uvals).1.isEmpty then
            ({ g with dom := setDom g.dom x (d.removeMany uvals).1 }, true, false)
          else hallApply subset uvals xs { g with dom := setDom g.dom x (d.removeMany uvals).1 } true
        else hallApply subset uvals xs { g with dom := setDom g.dom x (d.removeMany uvals).1 } ch
      | none => hallApply subset uvals xs g ch

/-- the loop over all generated subsets -/
def hallSubsets (vars : List Nat) : List (List Nat) → BG → Bool → BG × Bool × Bool
  | [], g, ch => (g, ch, true)
  | s :: rest, g, ch =>
    if s.length == (g.unionVals s).length then
      if (hallApply s (g.unionVals s) vars g ch).2.2 then
        hallSubsets vars rest (hallApply s (g.unionVals s) vars g ch).1 (hallApply s (g.unionVals s) vars g ch).2.1
      else hallApply s (g.unionVals s) vars g ch
    else hallSubsets vars rest g ch

/-- `2..=n.min(4)` -/
def hallSizes (n : Nat) : List Nat := (List.range (Nat.min n 4 + 1)).filter (fun k => decide (2 ≤ k))

/-- all subsets visited by `propagate_hall_sets`, in the order of the code -/
def hallFamily (vars : List Nat) : List (List Nat) := (hallSizes vars.length).flatMap (fun k => combos vars k)

/-- `propagate_hall_sets` -/
def propagateHallSets (g : BG) (vars : List Nat) : BG × Bool × Bool :=
  if vars.length ≤ 6 then hallSubsets vars (hallFamily vars) g false else (g, false, true)

/-- `BitSetGAC::propagate_alldiff`: new state, `changed`, `consistent` -/
def propagateAlldiff (g : BG) (vars : List Nat) : BG × Bool × Bool :=
  if vars.length ≤ 1 then (g, false, true)
  else
    let r1 := elimOuter removeValue isInconsistent vars (g.assignedValues vars) g false
    if r1.2.2 then
      let r2 := r1.1.propagateHallSets vars
      if r2.2.2 then (r2.1, r1.2.1 || r2.2.1, true) else (r2.1, r1.2.1, false)
    else (r1.1, r1.2.1, false)

end BG

/-! ### `SparseSetGAC`: the domain store part -/

structure SG where
  keys : List Nat
  dom : Nat → Option SS

namespace SG

def new : SG := { keys := [], dom := fun _ => none }

def addVariable (g : SG) (x : Nat) (lo hi : Int) : SG :=
  { keys := addKey g.keys x, dom := setDom g.dom x (SS.new lo hi) }

def addVariableWithValues (g : SG) (x : Nat) (vs : List Int) : SG :=
  { keys := addKey g.keys x, dom := setDom g.dom x (SS.newFromValues vs) }

def removeValue (g : SG) (x : Nat) (v : Int) : SG × Bool :=
  match g.dom x with
  | some d => ({ g with dom := setDom g.dom x (d.remove' v) }, (d.remove v).2)
  | none => (g, false)

/-- `assign_variable`: `true` iff the value was present -/
def assignVariable (g : SG) (x : Nat) (v : Int) : SG × Bool :=
  match g.dom x with
  | some d => if d.contains v then ({ g with dom := setDom g.dom x (d.removeAllBut v) }, true) else (g, false)
  | none => (g, false)

def sizeOp (g : SG) (x : Nat) (f : SS → SS) : SG × Bool :=
  match g.dom x with
  | some d => ({ g with dom := setDom g.dom x (f d) }, (f d).size != d.size)
  | none => (g, false)

def removeAbove (g : SG) (x : Nat) (t : Int) : SG × Bool := g.sizeOp x (fun d => d.removeAbove t)
def removeBelow (g : SG) (x : Nat) (t : Int) : SG × Bool := g.sizeOp x (fun d => d.removeBelow t)

/-- `get_domain_values`: storage order of the sparse set -/
def getDomainValues (g : SG) (x : Nat) : List Int :=
  match g.dom x with
  | some d => d.toList
  | none => []

def isEmptyAt (g : SG) (x : Nat) : Bool :=
  match g.dom x with
  | some d => d.isEmpty
  | none => true

def assignedValues (g : SG) (vars : List Nat) : List (Option Nat × Int) :=
  vars.filterMap (fun x =>
    match g.dom x with
    | some d => if d.isFixed then some (some x, d.minV) else none
    | none => none)

end SG

/-! ### `DomainType`, `BipartiteGraph`, `Matching` -/

inductive DT where
  | bits (d : BSD)
  | sparse (s : SS)

namespace DT

/-- `DomainType::new` (`(max - min + 1) as usize` of a negative number is huge) -/
def new (lo hi : Int) : DT :=
  if 0 ≤ hi - lo + 1 ∧ hi - lo + 1 ≤ 128 then bits (BSD.new lo hi) else sparse (SS.new lo hi)

/-- `DomainType::new_from_values` -/
def newFromValues (vs : List Int) : DT :=
  if vs.isEmpty then sparse (SS.newFromValues vs)
  else
    let rs := SS.listMax vs - SS.listMin vs + 1
    if rs ≤ 128 ∧ (vs.length : Int) > rs / 2 then bits (BSD.newFromValues vs) else sparse (SS.newFromValues vs)

def iter : DT → List Int
  | bits d => d.toVec
  | sparse s => s.toList

def size : DT → Nat
  | bits d => d.size
  | sparse s => s.size

def isFixed : DT → Bool
  | bits d => d.isFixed
  | sparse s => s.isFixed

def contains : DT → Int → Bool
  | bits d, v => d.contains v
  | sparse s, v => s.contains v

/-- `DomainType::min` -/
def minV : DT → Int
  | bits d => d.min.getD 0
  | sparse s => s.minV

def remove : DT → Int → DT × Bool
  | bits d, v => (bits (d.remove v).1, (d.remove v).2)
  | sparse s, v => (sparse (s.remove' v), (s.remove v).2)

def isBits : DT → Bool
  | bits _ => true
  | sparse _ => false

end DT

/-- insert into an association list standing for a `HashMap` (replace or append) -/
def ains {κ β : Type} [BEq κ] (m : List (κ × β)) (k : κ) (b : β) : List (κ × β) :=
  if m.any (fun p => p.1 == k) then m.map (fun p => if p.1 == k then (k, b) else p) else m ++ [(k, b)]

def adel {κ β : Type} [BEq κ] (m : List (κ × β)) (k : κ) : List (κ × β) := m.filter (fun p => !(p.1 == k))

/-- `Vec::swap_remove` -/
def swapRemove (l : List Nat) (pos : Nat) : List Nat :=
  match l.getLast? with
  | none => l
  | some z => if pos + 1 = l.length then l.dropLast else (l.set pos z).dropLast

structure Graph where
  keys : List Nat
  vdom : Nat → Option DT
  /-- `value_vars` -/
  vvars : List (Int × List Nat)

namespace Graph

def new : Graph := { keys := [], vdom := fun _ => none, vvars := [] }

def pushVal (m : List (Int × List Nat)) (v : Int) (x : Nat) : List (Int × List Nat) :=
  ains m v ((m.lookup v).getD [] ++ [x])

/-- `add_variable` -/
def addVariable (g : Graph) (x : Nat) (vs : List Int) : Graph :=
  { keys := addKey g.keys x, vdom := setDom g.vdom x (DT.newFromValues vs),
    vvars := vs.foldl (fun m v => pushVal m v x) g.vvars }

/-- `add_variable_range` -/
def addVariableRange (g : Graph) (x : Nat) (lo hi : Int) : Graph :=
  { keys := addKey g.keys x, vdom := setDom g.vdom x (DT.new lo hi),
    vvars := (SS.intRange lo (hi + 1)).foldl (fun m v => pushVal m v x) g.vvars }

/-- `remove_value` -/
def removeValue (g : Graph) (x : Nat) (v : Int) : Graph × Bool :=
  let r1 := match g.vdom x with
    | some d => (setDom g.vdom x (d.remove v).1, (d.remove v).2)
    | none => (g.vdom, false)
  let r2 := match g.vvars.lookup v with
    | some l =>
      match l.findIdx? (fun y => y == x) with
      | some pos => (ains g.vvars v (swapRemove l pos), true)
      | none => (g.vvars, false)
    | none => (g.vvars, false)
  ({ g with vdom := r1.1, vvars := r2.1 }, r1.2 || r2.2)

def domain (g : Graph) (x : Nat) : List Int :=
  match g.vdom x with
  | some d => d.iter
  | none => []

def isAssigned (g : Graph) (x : Nat) : Bool :=
  match g.vdom x with
  | some d => d.isFixed
  | none => false

def assignedValue (g : Graph) (x : Nat) : Option Int :=
  match g.vdom x with
  | some d => if d.isFixed then some d.minV else none
  | none => none

def numVars (g : Graph) : Nat := g.keys.length
def numVals (g : Graph) : Nat := g.vvars.length

end Graph

structure Matching where
  v2l : List (Nat × Int)
  l2v : List (Int × Nat)
deriving DecidableEq, Repr

namespace Matching

def empty : Matching := { v2l := [], l2v := [] }

def addEdge (m : Matching) (x : Nat) (v : Int) : Matching := { v2l := ains m.v2l x v, l2v := ains m.l2v v x }
def removeEdge (m : Matching) (x : Nat) (v : Int) : Matching := { v2l := adel m.v2l x, l2v := adel m.l2v v }

/-- `apply_augmenting_path` (as written: it starts from `(start_var, end_val)`) -/
def applyPath (pvar : List (Nat × Int)) (pval : List (Int × Nat)) : Nat → Matching → Nat → Int → Matching
  | 0, m, _, _ => m
  | fuel + 1, m, x, v =>
    let m1 := m.addEdge x v
    match pvar.lookup x with
    | some pv =>
      match pval.lookup pv with
      | some px => applyPath pvar pval fuel (m1.removeEdge px pv) px pv
      | none => m1
    | none => m1

/-- search state of `find_augmenting_path_*` -/
structure Bfs where
  queue : List Nat
  visVars : List Nat
  visVals : List Int
  pvar : List (Nat × Int)
  pval : List (Int × Nat)

inductive Step where
  | found (m : Matching)
  | cont (b : Bfs)
  | panic

/-- the `for val_int in graph.domain_iter(current_var)` loop.  `small` selects the bit-set
variant, whose shifts `1u128 << val` / `1u64 << var` overflow (panic) for `val ∉ [0,128)`,
`var ≥ 64` -/
def scanVals (small : Bool) (m : Matching) (start cur : Nat) : List Int → Bfs → Step
  | [], b => .cont b
  | v :: vs, b =>
    if small && (decide (v < 0) || decide (v ≥ 128)) then .panic
    else if b.visVals.contains v then scanVals small m start cur vs b
    else
      let b1 := { b with visVals := b.visVals ++ [v], pval := ains b.pval v cur }
      match m.l2v.lookup v with
      | none => .found (applyPath b1.pvar b1.pval (b1.pvar.length + 1) m start v)
      | some mv =>
        if small && decide (mv ≥ 64) then .panic
        else if b1.visVars.contains mv then scanVals small m start cur vs b1
        else scanVals small m start cur vs
          { b1 with visVars := b1.visVars ++ [mv], pvar := ains b1.pvar mv v, queue := b1.queue ++ [mv] }

/-- the `while let Some(current_var) = queue.pop_front()` loop; `none` = panic (or out of fuel),
`some (m, found)` otherwise -/
def bfsLoop (small : Bool) (g : Graph) (m : Matching) (start : Nat) : Nat → Bfs → Option (Matching × Bool)
  | 0, _ => none
  | fuel + 1, b =>
    match b.queue with
    | [] => some (m, false)
    | cur :: q =>
      match scanVals small m start cur (g.domain cur) { b with queue := q } with
      | .found m' => some (m', true)
      | .panic => none
      | .cont b' => bfsLoop small g m start fuel b'

/-- `find_augmenting_path` -/
def findAugmentingPath (g : Graph) (m : Matching) (start : Nat) : Option (Matching × Bool) :=
  let small := decide (g.numVars ≤ 64) && decide (g.numVals ≤ 128)
  if small && decide (start ≥ 64) then none
  else bfsLoop small g m start (g.numVars + m.v2l.length + 2)
    { queue := [start], visVars := [start], visVals := [], pvar := [], pval := [] }

/-- greedy phase -/
def greedy (g : Graph) : List Nat → Matching → Matching
  | [], m => m
  | x :: xs, m =>
    if g.isAssigned x then
      match g.assignedValue x with
      | some v => if (m.l2v.lookup v).isSome then greedy g xs m else greedy g xs (m.addEdge x v)
      | none => greedy g xs m
    else greedy g xs m

/-- augmenting phase -/
def augment (g : Graph) : List Nat → Matching → Option Matching
  | [], m => some m
  | x :: xs, m =>
    if (m.v2l.lookup x).isSome then augment g xs m
    else
      match findAugmentingPath g m x with
      | none => none
      | some (m', _) => augment g xs m'

/-- `find_maximum_matching`; `order` = iteration order of `graph.var_domains` -/
def findMaximum (g : Graph) (order : List Nat) : Option Matching := augment g order (greedy g order empty)

def isComplete (m : Matching) (g : Graph) : Bool := m.v2l.length == g.numVars

end Matching

/-! ### `OptimizedBitMatrix` -/

structure BitMatrix where
  maxNodes : Nat
  edges : List (Nat × Nat)

namespace BitMatrix

def addEdge (b : BitMatrix) (f t : Nat) : BitMatrix :=
  if f < b.maxNodes ∧ t < b.maxNodes then { b with edges := b.edges ++ [(f, t)] } else b

def succs (b : BitMatrix) (n : Nat) : List Nat := (b.edges.filter (fun e => e.1 == n)).map (fun e => e.2)

def natDedup : List Nat → List Nat
  | [] => []
  | x :: xs => if (natDedup xs).contains x then natDedup xs else x :: natDedup xs

/-- level-by-level BFS of `is_connected` -/
def levels (b : BitMatrix) (target : Nat) : Nat → List Nat → List Nat → Bool
  | 0, _, _ => false
  | fuel + 1, frontier, visited =>
    if frontier.isEmpty then false
    else if frontier.contains target then true
    else
      let visited' := visited ++ frontier
      levels b target fuel (natDedup ((frontier.flatMap b.succs).filter (fun n => !visited'.contains n))) visited'

/-- `is_connected` -/
def isConnected (b : BitMatrix) (f t : Nat) : Bool :=
  if f ≥ b.maxNodes ∨ t ≥ b.maxNodes then false
  else if f = t then true
  else levels b t (b.maxNodes + 1) [f] []

end BitMatrix

/-! ### `SparseSetAllDiff::propagate` -/

/-- `build_merged_graph`: node id of a variable is its raw id; nodes `≥ max_nodes` get no edge -/
def buildMerged (g : Graph) (m : Matching) (order : List Nat) : BitMatrix :=
  order.foldl (fun b x =>
    match m.v2l.lookup x with
    | some mv =>
      match g.vvars.lookup mv with
      | some targets => targets.foldl (fun b t => if t != x then b.addEdge x t else b) b
      | none => b
    | none => b) { maxNodes := g.numVars + g.numVals, edges := [] }

/-- `is_value_reachable` -/
def isValueReachable (x : Nat) (v : Int) (m : Matching) (b : BitMatrix) : Bool :=
  match m.l2v.lookup v with
  | none => true
  | some mv => b.isConnected x mv

/-- `apply_bitwise_gac` -/
def applyBitwiseGac (m : Matching) (b : BitMatrix) (order : List Nat) (g : Graph) : Graph :=
  order.foldl (fun g x =>
    (g.domain x).foldl (fun g v =>
      if m.v2l.lookup x == some v then g
      else if !isValueReachable x v m b then (g.removeValue x v).1 else g) g) g

/-- `SparseSetAllDiff::propagate`; `none` = panic -/
def sparsePropagate (g : Graph) (order : List Nat) : Option (Graph × Bool) :=
  match Matching.findMaximum g order with
  | none => none
  | some m =>
    if !m.isComplete g then some (g, false)
    else some (applyBitwiseGac m (buildMerged g m order) order g, true)

/-! ### `SparseSetGAC::propagate_gac` / `propagate_alldiff` -/

namespace SG

/-- `to_bipartite_graph` restricted to `ks` (the iteration order is irrelevant: `value_vars` is
only used as a family of sets) -/
def toGraph (g : SG) (ks : List Nat) : Graph :=
  ks.foldl (fun gr x =>
    match g.dom x with
    | some d => gr.addVariable x d.toList
    | none => gr) Graph.new

/-- per-variable update of `propagate_gac` -/
def updateFrom (gr : Graph) (x : Nat) (d : SS) : SS :=
  match gr.vdom x with
  | some nd =>
    if d.size != nd.size then SS.newFromValues nd.iter
    else if d.toList.any (fun v => !nd.contains v) then SS.newFromValues nd.iter
    else d
  | none => d

def filteredKeys (g : SG) (vars : List Nat) : List Nat :=
  BitMatrix.natDedup (vars.filter (fun x => (g.dom x).isSome))

/-- `SparseSetGAC::propagate_alldiff`.  `order` = iteration order of the key set of the
temporary bipartite graph; `none` = panic -/
def propagateAlldiff (g : SG) (vars : List Nat) (order : List Nat) : Option (SG × Bool × Bool) :=
  if vars.length ≤ 1 then some (g, false, true)
  else
    let ks := g.filteredKeys vars
    if ks.isEmpty then some (g, false, true)
    else
      match sparsePropagate (g.toGraph ks) order with
      | none => none
      | some (_, false) => some (g, false, false)
      | some (gr, true) =>
        let step := fun (p : SG × Bool) (x : Nat) =>
          match p.1.dom x with
          | some orig =>
            let upd := updateFrom gr x (match g.dom x with | some d => d | none => orig)
            if orig.size != upd.size then ({ p.1 with dom := setDom p.1.dom x upd }, true) else p
          | none => p
        let r := vars.foldl step (g, false)
        some (r.1, r.2, true)

end SG

/-! ### `HybridGAC` -/

structure HG where
  b : BG
  s : SG

inductive AddRes where
  | ok (g : HG)
  | err
  | panic

namespace HG

def new : HG := { b := BG.new, s := SG.new }

def inBits (g : HG) (x : Nat) : Bool := (g.b.dom x).isSome
def inSparse (g : HG) (x : Nat) : Bool := (g.s.dom x).isSome

/-- `add_variable` -/
def addVariable (g : HG) (x : Nat) (lo hi : Int) : AddRes :=
  if lo > hi then .err
  else if spanOverflows lo hi then .panic
  else if hi - lo + 1 ≤ 128 then .ok { g with b := g.b.addVariable x lo hi }
  else .ok { g with s := g.s.addVariable x lo hi }

/-- `add_variable_with_values` -/
def addVariableWithValues (g : HG) (x : Nat) (vs : List Int) : AddRes :=
  if vs.isEmpty then .err
  else if spanOverflows (SS.listMin vs) (SS.listMax vs) then .panic
  else if SS.listMax vs - SS.listMin vs + 1 ≤ 128 then .ok { g with b := g.b.addVariableWithValues x vs }
  else .ok { g with s := g.s.addVariableWithValues x vs }

def liftB (g : HG) (r : BG × Bool) : HG × Bool := ({ g with b := r.1 }, r.2)
def liftS (g : HG) (r : SG × Bool) : HG × Bool := ({ g with s := r.1 }, r.2)

def removeValue (g : HG) (x : Nat) (v : Int) : HG × Bool :=
  if g.inBits x then g.liftB (g.b.removeValue x v)
  else if g.inSparse x then g.liftS (g.s.removeValue x v) else (g, false)

def assignVariable (g : HG) (x : Nat) (v : Int) : HG × Bool :=
  if g.inBits x then g.liftB (g.b.assignVariable x v)
  else if g.inSparse x then g.liftS (g.s.assignVariable x v) else (g, false)

def removeAbove (g : HG) (x : Nat) (t : Int) : HG × Bool :=
  if g.inBits x then g.liftB (g.b.removeAbove x t)
  else if g.inSparse x then g.liftS (g.s.removeAbove x t) else (g, false)

def removeBelow (g : HG) (x : Nat) (t : Int) : HG × Bool :=
  if g.inBits x then g.liftB (g.b.removeBelow x t)
  else if g.inSparse x then g.liftS (g.s.removeBelow x t) else (g, false)

def getDomainValues (g : HG) (x : Nat) : List Int :=
  if g.inBits x then g.b.getDomainValues x
  else if g.inSparse x then g.s.getDomainValues x else []

def isAssigned (g : HG) (x : Nat) : Bool :=
  if g.inBits x then g.b.isAssigned x
  else match g.s.dom x with
    | some d => d.isFixed
    | none => false

def assignedValue (g : HG) (x : Nat) : Option Int :=
  if g.inBits x then g.b.assignedValue x
  else match g.s.dom x with
    | some d => if d.isFixed then some d.minV else none
    | none => none

def isInconsistent (g : HG) (x : Nat) : Bool :=
  if g.inBits x then g.b.isInconsistent x else g.s.isEmptyAt x

def getBounds (g : HG) (x : Nat) : Option (Int × Int) :=
  if g.inBits x then g.b.getBounds x
  else match g.s.dom x with
    | some d => if !d.isEmpty then some (d.minV, d.maxV) else none
    | none => none

/-- `remove_value` of the sparse store, on the hybrid state -/
def rmS (g : HG) (x : Nat) (v : Int) : HG × Bool := g.liftS (g.s.removeValue x v)
def rmB (g : HG) (x : Nat) (v : Int) : HG × Bool := g.liftB (g.b.removeValue x v)
def empS (g : HG) (x : Nat) : Bool := g.s.isEmptyAt x
def empB (g : HG) (x : Nat) : Bool := g.b.isInconsistent x

/-- `propagate_sparseset_alldiff` -/
def propagateSparseGroup (g : HG) (svars : List Nat) : HG × Bool × Bool :=
  elimOuter rmS empS svars (g.s.assignedValues svars) g false

def bitsAssigned (g : HG) (bvars : List Nat) : List (Option Nat × Int) :=
  bvars.filterMap (fun x => (g.b.assignedValue x).map (fun v => ((none : Option Nat), v)))

def sparseAssigned (g : HG) (svars : List Nat) : List (Option Nat × Int) :=
  (g.s.assignedValues svars).map (fun p => ((none : Option Nat), p.2))

/-- `cross_propagate_alldiff` -/
def crossPropagate (g : HG) (bvars svars : List Nat) : HG × Bool × Bool :=
  let r1 := elimOuter rmS empS svars (g.bitsAssigned bvars) g false
  if r1.2.2 then elimOuter rmB empB bvars (r1.1.sparseAssigned svars) r1.1 r1.2.1
  else r1

/-- the `if !bitset_vars.is_empty() { … }` block -/
def bitsStage (g : HG) (bvars : List Nat) : HG × Bool × Bool :=
  if bvars.isEmpty then (g, false, true)
  else ({ g with b := (g.b.propagateAlldiff bvars).1 }, (g.b.propagateAlldiff bvars).2.1, (g.b.propagateAlldiff bvars).2.2)

/-- the `if !sparseset_vars.is_empty() { … }` block -/
def sparseStage (g : HG) (svars : List Nat) : HG × Bool × Bool :=
  if svars.isEmpty then (g, false, true) else g.propagateSparseGroup svars

/-- the `if !bitset_vars.is_empty() && !sparseset_vars.is_empty() { … }` block -/
def crossStage (g : HG) (bvars svars : List Nat) : HG × Bool × Bool :=
  if !bvars.isEmpty && !svars.isEmpty then g.crossPropagate bvars svars else (g, false, true)

/-- `HybridGAC::propagate_alldiff` (an early "inconsistent" return reports the `changed` flag
accumulated BEFORE the failing block) -/
def propagateAlldiff (g : HG) (vars : List Nat) : HG × Bool × Bool :=
  if vars.isEmpty then (g, false, true)
  else
    let bvars := vars.filter g.inBits
    let svars := vars.filter g.inSparse
    let r1 := g.bitsStage bvars
    if !r1.2.2 then (r1.1, false, false)
    else
      let r2 := r1.1.sparseStage svars
      if !r2.2.2 then (r2.1, r1.2.1, false)
      else
        let r3 := r2.1.crossStage bvars svars
        if !r3.2.2 then (r3.1, r1.2.1 || r2.2.1, false)
        else (r3.1, r1.2.1 || r2.2.1 || r3.2.1, true)

end HG

/-! ### `AllDiff::prune` on integer bounds (`quick_feasibility_check` + `propagate_gac`) -/

/-- number of distinct integers covered by the intervals -/
def coveredCount (bs : List (Int × Int)) : Nat :=
  (dedup (bs.flatMap (fun b => SS.intRange b.1 (b.2 + 1)))).length

def addAll : List (Int × Int) → Nat → HG → Option HG
  | [], _, g => some g
  | (lo, hi) :: rest, i, g =>
    match g.addVariable i lo hi with
    | .ok g' => addAll rest (i + 1) g'
    | _ => none

/-- `try_set_min(new_min)` then `try_set_max(new_max)` on an interval `[lo, hi]` -/
def writeBack (old : Int × Int) (nb : Int × Int) : Option (Int × Int) :=
  let lo := if nb.1 > old.1 then nb.1 else old.1
  if lo > old.2 then none
  else
    let hi := if nb.2 < old.2 then nb.2 else old.2
    if hi < lo then none else some (lo, hi)

/-- the write-back of `propagate_gac` for variable `i` with old bounds `b` -/
def writeOne (g : HG) (i : Nat) (b : Int × Int) : Option (Int × Int) :=
  if g.isAssigned i then
    match g.assignedValue i with
    | some v => writeBack b (v, v)
    | none => some b
  else
    match g.getBounds i with
    | some nb => writeBack b nb
    | none => none

def writeAll (g : HG) : List (Int × Int) → Nat → Option (List (Int × Int))
  | [], _ => some []
  | b :: rest, i =>
    match writeOne g i b with
    | none => none
    | some b' =>
      match writeAll g rest (i + 1) with
      | some r => some (b' :: r)
      | none => none

/-- `AllDiff::prune` for integer interval domains: `none` = failure -/
def alldiffPrune (bs : List (Int × Int)) : Option (List (Int × Int)) :=
  if bs.length ≤ 1 then some bs
  else if bs.any (fun b => decide (b.1 > b.2)) then none
  else if coveredCount bs < bs.length then none
  else
    match addAll bs 0 HG.new with
    | none => none
    | some g =>
      let r := g.propagateAlldiff (List.range bs.length)
      if !r.2.2 then none else writeAll r.1 bs 0

end Gac
end Selen

/-
`Num` — the small operation class every float-manipulating definition of the model is written
against, ONCE.  Two instances:

* `Float` (Lean's primitive IEEE binary64): used ONLY by the native driver.  It is the same
  hardware arithmetic as Rust's `f64`; the correspondence suite `float` checks this with the
  `fl.selftest` op (bit patterns of a fixed expression list evaluated on both sides) and then
  compares every model result with the code bit for bit.
* `Rat` (exact rationals of core Lean): used by ALL theorems.  There `ulp = 0`, `isInf = false`,
  nothing is NaN, `next_float = prev_float = id`; so the "step < ulp(value)" branches of
  `FloatInterval::next/prev` are never taken at `Rat` and the theorems speak about the step path.

What the two-instance scheme does NOT cover is exactly IEEE rounding (and NaN / ±inf / -0.0
behaviour): a theorem proved at `Rat` says what the *formula* of the code does in exact
arithmetic; the bit-exact correspondence at `Float` says the formula is the code's formula.

Import-free (linked into `selen_model`).
-/
namespace Selen

class Num (α : Type) extends Add α, Sub α, Mul α, Div α, Neg α where
  lt : α → α → Bool
  le : α → α → Bool
  floor : α → α
  ceil : α → α
  round : α → α                 -- `f64::round`: half away from zero
  abs : α → α
  ofInt : Int → α               -- `i32 as f64`
  toI32 : α → Int               -- `f64 as i32`: truncating, saturating, NaN ↦ 0
  toUsize : α → Nat             -- `f64 as usize`: truncating, saturating, NaN ↦ 0
  isInf : α → Bool
  ulp : α → α                   -- `UlpUtils::ulp`
  nextFloat : α → α             -- `UlpUtils::next_float`
  prevFloat : α → α             -- `UlpUtils::prev_float`
  e4 : α                        -- literal `1e-4`
  e5 : α                        -- literal `1e-5`
  e6 : α                        -- literal `1e-6`
  e9 : α                        -- literal `1e-9`
  e12 : α                       -- literal `1e-12`
  tiny20 : α                    -- literal `0.00000095367432`
  tiny30 : α                    -- literal `0.00000000093132257`

namespace Num
variable {α : Type} [Num α]

/-- `a > b` -/
@[inline] def gt (a b : α) : Bool := lt b a
/-- `a >= b` -/
@[inline] def ge (a b : α) : Bool := le b a
/-- IEEE `==` (`-0.0 == 0.0`, NaN ≠ NaN) -/
@[inline] def feq (a b : α) : Bool := le a b && le b a
@[inline] def isNaN (a : α) : Bool := !(le a a)
@[inline] def isFinite (a : α) : Bool := le a a && !(isInf a)
@[inline] def zero : α := ofInt 0
@[inline] def one : α := ofInt 1
@[inline] def two : α := ofInt 2
@[inline] def three : α := ofInt 3
/-- `f64::max`: a NaN operand is ignored -/
def fmax (a b : α) : α := if isNaN a then b else if isNaN b then a else if lt a b then b else a
/-- `f64::min`: a NaN operand is ignored -/
def fmin (a b : α) : α := if isNaN a then b else if isNaN b then a else if lt b a then b else a
/-- `f64::clamp`: panics (`none`) unless `lo <= hi` -/
def clamp (x lo hi : α) : Option α :=
  if le lo hi then
    let x1 := if lt x lo then lo else x
    some (if gt x1 hi then hi else x1)
  else none
end Num

/-! ### instance `Float` (driver only) -/

namespace FloatImpl

def eps : Float := Float.ofBits 0x3CB0000000000000       -- f64::EPSILON
def nan : Float := Float.ofBits 0x7FF8000000000000
def fmaxv : Float := Float.ofBits 0x7FEFFFFFFFFFFFFF     -- f64::MAX
def fminv : Float := Float.ofBits 0xFFEFFFFFFFFFFFFF     -- f64::MIN

def ulp (v : Float) : Float :=
  if v == 0.0 then eps
  else if v.isInf || v.isNaN then nan
  else
    let bits := v.toBits
    let nb := if v > 0.0 then bits + 1 else bits - 1
    (Float.ofBits nb - v).abs

def prevFloat (v : Float) : Float :=
  if v.isInf && v > 0.0 then fmaxv
  else if v.isNaN then nan
  else
    let bits := v.toBits
    let pb : UInt64 := if v > 0.0 && v != 0.0 then bits - 1
      else if v == 0.0 then 0x8000000000000001
      else bits + 1
    Float.ofBits pb

def nextFloat (v : Float) : Float :=
  if v.isInf && v < 0.0 then fminv
  else if v.isNaN then nan
  else
    let bits := v.toBits
    let nb : UInt64 := if v >= 0.0 then bits + 1 else bits - 1
    Float.ofBits nb

end FloatImpl

instance : Num Float where
  lt a b := decide (a < b)
  le a b := decide (a ≤ b)
  floor := Float.floor
  ceil := Float.ceil
  round := Float.round
  abs := Float.abs
  ofInt := Float.ofInt
  toI32 x := x.toInt32.toInt
  toUsize x := x.toUInt64.toNat
  isInf := Float.isInf
  ulp := FloatImpl.ulp
  nextFloat := FloatImpl.nextFloat
  prevFloat := FloatImpl.prevFloat
  e4 := Float.ofBits 4547007122018943789
  e5 := Float.ofBits 4532020583610935537
  e6 := Float.ofBits 4517329193108106637
  e9 := Float.ofBits 4472406533629990549
  e12 := Float.ofBits 4427486594234968593
  tiny20 := Float.ofBits 4517110426269578493
  tiny30 := Float.ofBits 4472074429934264359

/-! ### instance `Rat` (theorems) -/

namespace RatImpl

/-- truncation toward zero -/
def trunc (x : Rat) : Int := if 0 ≤ x then x.floor else x.ceil
/-- round half away from zero -/
def roundHA (x : Rat) : Int := if 0 ≤ x then (x + 1/2).floor else (x - 1/2).ceil
def clampInt (lo hi x : Int) : Int := if x < lo then lo else if hi < x then hi else x

end RatImpl

instance : Num Rat where
  lt a b := decide (a < b)
  le a b := decide (a ≤ b)
  floor x := (x.floor : Rat)
  ceil x := (x.ceil : Rat)
  round x := (RatImpl.roundHA x : Rat)
  abs x := if x < 0 then -x else x
  ofInt i := (i : Rat)
  toI32 x := RatImpl.clampInt (-2147483648) 2147483647 (RatImpl.trunc x)
  toUsize x := (RatImpl.clampInt 0 18446744073709551615 (RatImpl.trunc x)).toNat
  isInf _ := false
  ulp _ := 0
  nextFloat x := x
  prevFloat x := x
  e4 := 1 / 10000
  e5 := 1 / 100000
  e6 := 1 / 1000000
  e9 := 1 / 1000000000
  e12 := 1 / 1000000000000
  tiny20 := 95367432 / 100000000000000
  tiny30 := 93132257 / 100000000000000000

end Selen
